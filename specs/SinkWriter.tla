----------------------------- MODULE SinkWriter -----------------------------
(***************************************************************************)
(* C18 -- a failed write to the output is always reported.                 *)
(*                                                                         *)
(* A generic output writer (zio.WriteCloser) over faulty sinks             *)
(* (io.WriteCloser).  The writer is modelled by the *local* error-handling *)
(* rules that the code of every format writer is supposed to follow; TLC   *)
(* checks that these local rules imply the end-to-end property for every   *)
(* chunking of the output into sink calls, every flush point and every     *)
(* fault, and that dropping one rule (the defect disjuncts) breaks it.     *)
(*                                                                         *)
(* Local rules and the code they transcribe:                               *)
(*  L1 propagate  an API call during which a sink write failed returns an  *)
(*                error, unless a sticky layer kept the error (L2).        *)
(*                zsonio/zjsonio/zeekio/textio/lakeio Writer.Write:        *)
(*                  `if _, err := w.writer.Write(..); err != nil {return}` *)
(*                zngio.Writer.Write -> flush -> writeBlock -> write,      *)
(*                zngio.Writer.Close -> EndStream -> flush / write(EOS),   *)
(*                vng.Writer.Close -> finalize, tableio.Writer.Write/Close *)
(*  L2 sticky     a buffering layer with bufio.Writer semantics keeps the  *)
(*                first sink error and never writes to the sink again      *)
(*                (bufio.Writer.Flush: `if b.err != nil {return b.err}`):  *)
(*                pkg/bufwriter, jsonio.Writer.writer, csv.Writer.w        *)
(*  L3 surface    Close returns the error kept by a sticky layer unless an *)
(*                earlier call already returned an error                   *)
(*                (bufwriter.Writer.Close: `if err := w.Flush(); ..`)      *)
(*  L4 drain      Close does not return nil before every produced byte has *)
(*                been offered to the sink (zngio EndStream, bufwriter     *)
(*                Close->Flush, tabwriter Flush, vng finalize)             *)
(*                                                                         *)
(* Bytes are abstracted to offsets into the stream that a fault-free run   *)
(* produces: a sink write is (offset, length); the sink accepts n bytes.   *)
(* The fault model is the one of the property's quantifier: sink write     *)
(* call number K (counted over all sinks of the writer) fails one-shot,    *)
(* sticky (all later calls fail too) or short (half the bytes accepted,    *)
(* io.ErrShortWrite).  Sink Close never fails and reports nothing.         *)
(*                                                                         *)
(* The same actions are used for the exhaustive check (Next, small bounds) *)
(* and for validating event traces recorded from the real writers          *)
(* (SinkWriterTrace.tla).  In a trace the returned errors are observed, so *)
(* a broken rule is recorded in `broken` (or `taint` for defect disjuncts  *)
(* enabled in the profile) instead of being excluded.                      *)
(***************************************************************************)
EXTENDS Integers, Sequences, SequencesExt, FiniteSets, TLC, Json

CONSTANTS MaxWrites,    \* exhaustive check: API Write calls
          MaxChunk,     \* exhaustive check: bytes produced per API call and sink
          MaxK,         \* exhaustive check: failing call number 1..MaxK (0 = none)
          MaxSplit,     \* exhaustive check: sink write calls per API call
          DefectSets,   \* exhaustive check: the sets of defect disjuncts to explore
          NsSet,        \* exhaustive check: numbers of sinks to explore (subset of {1, 2})
          ScriptLen,    \* value scripts exported for the harness: words up to this length ...
          ScriptFile    \* ... written to this file ("" = no export)

Sinks   == 1..2          \* sink 2 is used only by the lake data-object writer (seek index)
Modes   == {"none", "oneshot", "sticky", "short"}
Rules   == {"L1", "L3", "L4"}

VARIABLES
  prof,       \* [latch : BOOLEAN, defects : SUBSET Rules, ns : 1..2]
  fault,      \* [k : Nat, mode : Modes]
  phase,      \* "idle" | "Write" | "Close" | "done"
  writes,     \* API Write calls so far
  ncall,      \* sink write calls in the current API call
  produced,   \* [Sinks -> Nat] bytes logically emitted by the format so far
  offered,    \* [Sinks -> Nat] next offset the writer will hand to the sink
  accepted,   \* [Sinks -> Nat] bytes the sink took
  contig,     \* [Sinks -> BOOLEAN] the sink holds exactly the prefix [0, accepted)
  sclosed,    \* [Sinks -> BOOLEAN]
  latched,    \* [Sinks -> BOOLEAN] the sticky layer above the sink holds an error
  calls,      \* sink write calls so far (all sinks)
  failed,     \* some sink write call failed
  mustReport, \* a sink write failed in the current API call and no sticky layer kept the error
  reported,   \* some API call returned an error
  broken,     \* local rules broken by the observed writer (always {} in the exhaustive model)
  taint       \* defect disjuncts taken

vars == <<prof, fault, phase, writes, ncall, produced, offered, accepted, contig, sclosed,
          latched, calls, failed, mustReport, reported, broken, taint>>

Zero  == [s \in Sinks |-> 0]
AllF  == [s \in Sinks |-> FALSE]
AllT  == [s \in Sinks |-> TRUE]

\* ------------------------------------------------------------ fault model
Faulty(n) == CASE fault.mode = "oneshot" -> n = fault.k
               [] fault.mode = "short"   -> n = fault.k
               [] fault.mode = "sticky"  -> fault.k > 0 /\ n >= fault.k
               [] OTHER -> FALSE
SinkN(n, len)   == IF ~Faulty(n) THEN len ELSE IF fault.mode = "short" THEN len \div 2 ELSE 0

\* ---------------------------------------------------------------- actions
Start(p, f, tot) ==
  /\ prof = p /\ fault = f
  /\ phase = "idle" /\ writes = 0 /\ ncall = 0
  /\ produced = tot /\ offered = Zero /\ accepted = Zero
  /\ contig = AllT /\ sclosed = AllF /\ latched = AllF
  /\ calls = 0 /\ failed = FALSE /\ mustReport = FALSE /\ reported = FALSE
  /\ broken = {} /\ taint = {}

\* The caller invokes Write(v) / Close(); the format emits c[s] more bytes.
\* Callers stop writing values after the first error (zio.CopyWithContext).
Call(op, c) ==
  /\ phase = "idle"
  /\ op = "Write" => ~reported
  /\ phase' = op
  /\ writes' = IF op = "Write" THEN writes + 1 ELSE writes
  /\ produced' = [s \in Sinks |-> produced[s] + c[s]]
  /\ ncall' = 0 /\ mustReport' = FALSE
  /\ UNCHANGED <<prof, fault, offered, accepted, contig, sclosed, latched, calls, failed,
                 reported, broken, taint>>

\* One Write call on sink s with payload [off, off+len) of the reference
\* stream (off = -1: not a continuation of it), accepting n bytes, err or not.
SinkWrite(s, off, len, n, err) ==
  /\ phase \in {"Write", "Close"}
  /\ s <= prof.ns /\ ~sclosed[s]
  /\ ~latched[s]                                        \* L2
  /\ ~failed => off = offered[s] /\ off + len <= produced[s]   \* the writer emits the reference stream in order
  /\ err = Faulty(calls + 1) /\ n = SinkN(calls + 1, len)      \* fault model
  /\ calls' = calls + 1 /\ ncall' = ncall + 1
  /\ offered' = [offered EXCEPT ![s] = IF off >= 0 THEN off + len ELSE @]
  /\ accepted' = [accepted EXCEPT ![s] = @ + n]
  /\ contig' = [contig EXCEPT ![s] = @ /\ (n = 0 \/ off = accepted[s])]
  /\ failed' = (failed \/ err)
  /\ latched' = [latched EXCEPT ![s] = @ \/ (err /\ prof.latch)]
  /\ mustReport' = (mustReport \/ (err /\ ~prof.latch))
  /\ UNCHANGED <<prof, fault, phase, writes, produced, sclosed, reported, broken, taint>>

\* Closing twice is tolerated (data.Writer.Close -> Abort closes again on error).
SinkClose(s) ==
  /\ phase \in {"Write", "Close"}
  /\ s <= prof.ns
  /\ sclosed' = [sclosed EXCEPT ![s] = TRUE]
  /\ UNCHANGED <<prof, fault, phase, writes, ncall, produced, offered, accepted, contig, latched,
                 calls, failed, mustReport, reported, broken, taint>>

\* Which local rules does returning err from op break in the current state?
Breaks(op, err) ==
  {r \in Rules :
     \/ r = "L1" /\ mustReport /\ ~err
     \/ r = "L3" /\ op = "Close" /\ ~err /\ ~reported /\ \E s \in Sinks : latched[s]
     \/ r = "L4" /\ op = "Close" /\ ~err /\ ~failed /\ \E s \in Sinks : offered[s] # produced[s]}

Ret(op, err) ==
  /\ phase = op
  /\ err => failed                                      \* errors do not come from nowhere
  /\ phase' = IF op = "Close" THEN "done" ELSE "idle"
  /\ reported' = (reported \/ err)
  /\ taint' = taint \cup (Breaks(op, err) \cap prof.defects)
  /\ broken' = broken \cup (Breaks(op, err) \ prof.defects)
  /\ mustReport' = FALSE
  /\ UNCHANGED <<prof, fault, writes, ncall, produced, offered, accepted, contig, sclosed, latched,
                 calls, failed>>

\* --------------------------------------------------------------- property
Done == phase = "done"
\* "If any write to the sink fails, the writer returns an error from that
\* Write, a later Write, or Close."
Reported == Done /\ failed => reported
\* "When no write fails, the bytes delivered to the sink are exactly the
\* bytes of a complete stream" (readability is decided by the real readers).
Complete == Done /\ ~failed => \A s \in Sinks : accepted[s] = produced[s] /\ contig[s]

PropertyInv == taint = {} => Reported /\ Complete
\* With a defect disjunct enabled the property is really lost (non-vacuity,
\* checked with an expected-violation run).
DefectHarmless == Reported /\ Complete

TypeOK ==
  /\ phase \in {"idle", "Write", "Close", "done"}
  /\ \A s \in Sinks : accepted[s] <= offered[s] /\ offered[s] <= produced[s]
  /\ reported => failed
  /\ broken = {}
  /\ taint \subseteq prof.defects

\* ------------------------------------------------- exhaustive model (R1)
Profiles == [latch : BOOLEAN, defects : DefectSets, ns : NsSet]
Faults   == {[k |-> 0, mode |-> "none"]} \cup [k : 1..MaxK, mode : Modes \ {"none"}]

Init == \E p \in Profiles, f \in Faults : Start(p, f, Zero)

Chunks == {c \in [Sinks -> 0..MaxChunk] : prof.ns = 1 => c[2] = 0}

Next ==
  \/ \E c \in Chunks : writes < MaxWrites /\ Call("Write", c)
  \/ \E c \in Chunks : Call("Close", c)
  \/ \E s \in Sinks : ncall < MaxSplit /\
        \E len \in 0..(produced[s] - offered[s]) :
           SinkWrite(s, offered[s], len, SinkN(calls + 1, len), Faulty(calls + 1))
  \/ \E s \in Sinks : phase = "Close" /\ SinkClose(s)
  \/ \E op \in {"Write", "Close"}, err \in BOOLEAN : Ret(op, err) /\ broken' = {}

Spec == Init /\ [][Next]_vars

\* --------------------------------------------------- value scripts (R2)
\* Words over the value classes that the harness instantiates per format:
\*   s: small value of the first type          t: small value of another type
\*   u: small single-field value of a third type
\*   L: value larger than the sticky layer's buffer, incompressible
\*   R: large repetitive (compressible) value
\*   n: value whose columns mix nulls with several distinct non-null values and
\*      hold unions, maps, sets and nested containers, so that a writer takes its
\*      multi-write paths (e.g. VNG: values + null-runs vectors, dict/const/plain)
\*   o: a second value of n's type with nulls and values in other positions
Classes == {"s", "t", "u", "L", "R", "n", "o"}
Scripts == UNION {[1..n -> Classes] : n \in 0..ScriptLen}
ExportScripts == ScriptFile = "" \/ JsonSerialize(ScriptFile, SetToSeq(Scripts))
ASSUME ExportScripts
=============================================================================
