------------------------------ MODULE Journal ------------------------------
(***************************************************************************)
(* C12 / C13 / C17 -- the transactional journal protocol every piece of    *)
(* lake metadata goes through (pool table: lake/pools/store.go; branch     *)
(* table of a pool: lake/branches/store.go), together with the optimistic  *)
(* branch-tip update loop of lake/branch.go Branch.commit.                 *)
(*                                                                         *)
(* Implementation-shaped: one action per storage operation on a shared     *)
(* metadata path, per client, as issued by                                 *)
(*   journal.Queue    ReadHead (Get HEAD), CommitAt (PutIfNotExists n+1,   *)
(*                    then Put HEAD)                                       *)
(*   journal.Store    load (ReadHead; reload table when head # at),        *)
(*                    commit (load; constraint on the CACHED table;        *)
(*                    CommitAt; on "exists" sleep and retry <= maxRetries; *)
(*                    at := Nil after success)                             *)
(*   lake.Branch      commit (LookupByName; create(parent); commits.Put;   *)
(*                    branches.Update with parentCheck; on ErrConstraint   *)
(*                    commits.Remove and retry <= maxCommitRetries; on any *)
(*                    other error commits.Remove and fail)                 *)
(*   pools.Store      Add (Insert), Rename (LookupByID then Move(oldName)),*)
(*                    Remove (Delete with id constraint)                   *)
(*   branches.Store   Add, Remove (Delete with commit constraint)          *)
(* Entries <= HEAD are immutable, so reloading the table is folded into    *)
(* the ReadHead step.  Every ReadHead is a step of its own: an operation   *)
(* performs op.pre preliminary reads (journal open, lookup by name / id:   *)
(* the number is measured on the real code by the harness) before the      *)
(* decisive read whose table the constraint is evaluated on, so another    *)
(* client can commit between any two of them.                              *)
(*                                                                         *)
(* The storage offers an atomic put-if-absent (file engine O_EXCL, or the  *)
(* harness' in-memory engine).  Crash(c) (C17) stops a client at any step. *)
(***************************************************************************)
EXTENDS Integers, Sequences, SequencesExt, FiniteSets, TLC, Json

CONSTANTS Clients,          \* e.g. {1, 2}
          Script,           \* [Clients -> Seq(op)], see the op kinds below
          InitTable,        \* function key -> value: journal contents before the run
          MaxRetries,       \* journal.maxRetries       (10 in the code)
          MaxCommitRetries, \* lake.maxCommitRetries    (10 in the code)
          PreemptBound,     \* max number of preemptive switches (99 = effectively unbounded)
          CrashBound,       \* number of crashes allowed (0 for C12)
          MoveChecksId,     \* TRUE iff Store.Move verifies that oldKey still maps to the looked-up id
          Export

\* op kinds:
\*  [k |-> "tip",    key |-> b]            commit on branch b (Delete, Revert, Merge, Compact, ...)
\*  [k |-> "load",   key |-> b]            Branch.Load: the branch is opened (ReadHead), the data objects are
\*                                        uploaded ("up"), and only then the commit loop of "tip" starts --
\*                                        other clients may commit while the upload is in progress
\*  [k |-> "insert", key |-> n, ival |-> v] CreateBranch (value = the commit v the branch is created at) /
\*                                         CreatePool (ival = -1: value = fresh id)
\*  [k |-> "rmkey",  key |-> n]            RemoveBranch
\*  [k |-> "rename", id |-> i, new |-> n]  RenamePool
\*  [k |-> "rmid",   id |-> i]             RemovePool
\*  [k |-> "read",   key |-> n]            lookup
\*  [k |-> "scan",   key |-> b]            query of branch b: ReadHead pins the tip commit (compile time),
\*                                        the data is read in a later step ("fin") while writers may commit

VARIABLES entries,  \* the journal: sequence of entry records (entry n exists iff n <= Len(entries))
          tabs,     \* ghost: tabs[n+1] = table after replaying n entries (what Store.load computes)
          head,     \* contents of the HEAD file
          cobjs,    \* commit objects in storage: set of [id, parent]
          pc, opi, at, tbl, loc,   \* per client: program counter, op index, Store.at, Store.table, op locals
          fresh,    \* next fresh id
          resp,     \* ghost: sequence of finished operations [c, i, op, res, val, txn]
          last, budget, crashes,   \* scheduling bookkeeping
          sched     \* the schedule so far: sequence of [c, lbl, n, r]
vars == <<entries, tabs, head, cobjs, pc, opi, at, tbl, loc, fresh, resp, last, budget, crashes, sched>>

NoLoc == [par |-> -1, cid |-> -1, cr |-> 0, jr |-> 0, pend |-> [k |-> "none"], retry |-> FALSE, txn |-> -1, t0 |-> 0, npre |-> 0,
          lkk |-> "none", lkv |-> -1]   \* what the last preliminary read looked up (key name / value)

Table(n) == tabs[n + 1]
Has(t, k) == k \in DOMAIN t
Drop(t, k) == [x \in DOMAIN t \ {k} |-> t[x]]
Put(t, k, v) == [x \in DOMAIN t \cup {k} |-> IF x = k THEN v ELSE t[x]]

\* journal.Store.load's replay of one entry
Play(t, e) ==
  CASE e.k = "add"  -> Put(t, e.key, e.val)
    [] e.k = "upd"  -> Put(t, e.key, e.val)          \* (replay fails if key is absent: see JournalReplayable)
    [] e.k = "del"  -> Drop(t, e.key)
    [] e.k = "move" -> Put(Drop(t, e.old), e.key, e.val)

CurOp(c) == Script[c][opi[c]]
HasOp(c) == opi[c] <= Len(Script[c])

\* ---- scheduling: a preemption is a switch away from a client that is inside an operation
Preempt(c) == last # c /\ last \in Clients /\ pc[last] \notin {"idle", "dead"}
CanRun(c) == ~Preempt(c) \/ budget < PreemptBound
Sched(c, lbl, n, r) ==
  /\ last' = c
  /\ budget' = IF Preempt(c) THEN budget + 1 ELSE budget
  /\ sched' = Append(sched, [c |-> c, lbl |-> lbl, n |-> n, r |-> r])

Finish(c, res, val, txn) ==
  /\ resp' = Append(resp, [c |-> c, i |-> opi[c], op |-> CurOp(c), res |-> res, val |-> val, txn |-> txn,
                            \* first and last step of the operation in the schedule (real-time order)
                            t0 |-> IF pc[c] = "idle" THEN Len(sched) + 1 ELSE loc[c].t0, t1 |-> Len(sched) + 1])
  /\ pc' = [pc EXCEPT ![c] = "idle"]
  /\ opi' = [opi EXCEPT ![c] = @ + 1]

\* What Queue.ReadHead returns: the HEAD object is only a hint, ReadHead probes for the entries
\* behind it (Exists on the next slots), so it sees every entry created so far.  (Under the
\* storage gate the probes run in the same scheduling step as the HEAD read.)
Seen == Len(entries)

\* what ReadHead + reload leaves in the client's cache
Reload(c) == IF Seen # at[c] THEN [at |-> Seen, tbl |-> Table(Seen)] ELSE [at |-> at[c], tbl |-> tbl[c]]

KeyOfId(t, id) == IF \E k \in DOMAIN t : t[k] = id THEN CHOOSE k \in DOMAIN t : t[k] = id ELSE "none"

\* Store.commit's constraint closure evaluated on the cached table
Constraint(t, e) ==
  CASE e.k = "add"  -> IF Has(t, e.key) THEN "exists" ELSE "ok"
    [] e.k = "upd"  -> IF ~Has(t, e.key) THEN "notfound" ELSE IF t[e.key] # e.exp THEN "constraint" ELSE "ok"
    [] e.k = "del"  -> IF ~Has(t, e.key) THEN "notfound" ELSE IF t[e.key] # e.exp THEN "constraint" ELSE "ok"
    [] e.k = "move" -> IF ~Has(t, e.old) THEN "notfound"
                       ELSE IF MoveChecksId /\ t[e.old] # e.val THEN "constraint"
                       ELSE IF Has(t, e.key) THEN "exists" ELSE "ok"

\* ---- first ReadHead of an operation (lookup phase) --------------------------
NPre(c) == IF pc[c] = "idle" THEN 0 ELSE loc[c].npre
HasPre(op) == op.k \in {"tip", "insert", "rmkey", "rename", "rmid"}

\* ---- preliminary reads: refresh the cache, leave early if the lookup already fails ----
RHPre(c) ==
  /\ pc[c] \in {"idle", "pre"} /\ HasOp(c) /\ CanRun(c)
  /\ HasPre(CurOp(c)) /\ NPre(c) < CurOp(c).pre
  /\ LET r == Reload(c)  t == r.tbl  op == CurOp(c)
         l0 == IF pc[c] = "idle" THEN [NoLoc EXCEPT !.t0 = Len(sched) + 1] ELSE loc[c]
         \* the first op.open reads only open the journal (branches.OpenStore in CreateBranch) and check nothing
         ex == CASE l0.npre < op.open -> "ok"
                 [] op.k \in {"tip", "rmkey"} -> IF Has(t, op.key) THEN "ok" ELSE "notfound"
                 [] op.k = "insert" -> IF Has(t, op.key) THEN "exists" ELSE "ok"
                 [] op.k \in {"rename", "rmid"} -> IF KeyOfId(t, op.id) = "none" THEN "notfound" ELSE "ok" IN
     /\ at' = [at EXCEPT ![c] = r.at] /\ tbl' = [tbl EXCEPT ![c] = t]
     /\ Sched(c, "rh", Seen, "")
     /\ UNCHANGED <<entries, tabs, head, cobjs, fresh, crashes>>
     /\ IF ex # "ok"
        THEN Finish(c, ex, -1, -1) /\ loc' = [loc EXCEPT ![c] = l0]
        ELSE \* remember what was looked up: RemoveBranch keeps the branch config (its commit),
             \* RenamePool / RemovePool keep the pool config (its current name)
             /\ loc' = [loc EXCEPT ![c] = [l0 EXCEPT !.npre = l0.npre + 1,
                                                     !.lkk = IF op.k \in {"rename", "rmid"} THEN KeyOfId(t, op.id) ELSE op.key,
                                                     !.lkv = IF op.k = "rmkey" THEN t[op.key] ELSE -1]]
             /\ pc' = [pc EXCEPT ![c] = "pre"] /\ UNCHANGED <<opi, resp>>

RH0(c) ==
  /\ pc[c] \in {"idle", "pre", "relook"} /\ HasOp(c) /\ CanRun(c)
  /\ ~(pc[c] = "idle" /\ CurOp(c).k = "load")        \* a load starts with RHOpen
  /\ (pc[c] = "relook" \/ ~HasPre(CurOp(c)) \/ NPre(c) >= CurOp(c).pre)
  /\ LET r == Reload(c)  t == r.tbl  op == CurOp(c)
         l0 == IF pc[c] = "idle" THEN [NoLoc EXCEPT !.t0 = Len(sched) + 1] ELSE loc[c] IN
     /\ at' = [at EXCEPT ![c] = r.at] /\ tbl' = [tbl EXCEPT ![c] = t]
     /\ Sched(c, "rh", Seen, "")
     /\ UNCHANGED <<entries, tabs, head, cobjs, crashes>>
     /\ CASE op.k \in {"tip", "load"} ->
               IF ~Has(t, op.key)
               THEN /\ Finish(c, "notfound", -1, -1) /\ loc' = [loc EXCEPT ![c] = l0] /\ UNCHANGED fresh
               ELSE /\ loc' = [loc EXCEPT ![c] = [l0 EXCEPT !.par = t[op.key], !.cid = fresh]]
                    /\ fresh' = fresh + 1
                    /\ pc' = [pc EXCEPT ![c] = "putc"] /\ UNCHANGED <<opi, resp>>
          [] op.k = "scan" ->
               IF ~Has(t, op.key)
               THEN /\ Finish(c, "notfound", -1, -1) /\ loc' = [loc EXCEPT ![c] = l0] /\ UNCHANGED fresh
               ELSE /\ loc' = [loc EXCEPT ![c] = [l0 EXCEPT !.par = t[op.key]]]
                    /\ pc' = [pc EXCEPT ![c] = "fin"] /\ UNCHANGED <<opi, resp, fresh>>
          [] op.k = "read" ->
               /\ Finish(c, IF Has(t, op.key) THEN "ok" ELSE "notfound", IF Has(t, op.key) THEN t[op.key] ELSE -1, -1)
               /\ loc' = [loc EXCEPT ![c] = l0] /\ UNCHANGED fresh
          [] OTHER ->
               LET looked == l0.npre > 0      \* the lookup happened in an earlier read; its result is kept
                   oldk == IF looked THEN l0.lkk ELSE KeyOfId(t, op.id)
                   e == CASE op.k = "insert" -> [k |-> "add", key |-> op.key, val |-> IF op.ival >= 0 THEN op.ival ELSE fresh, txn |-> fresh]
                          [] op.k = "rmkey"  -> [k |-> "del", key |-> op.key,
                                                 exp |-> IF looked THEN l0.lkv ELSE IF Has(t, op.key) THEN t[op.key] ELSE -1, txn |-> fresh]
                          [] op.k = "rmid"   -> [k |-> "del", key |-> oldk, exp |-> op.id, txn |-> fresh]
                          [] op.k = "rename" -> [k |-> "move", old |-> oldk, key |-> op.new, val |-> op.id, txn |-> fresh]
                   chk == IF op.k \in {"rmid", "rename"} /\ oldk = "none" THEN "notfound" ELSE Constraint(t, e)
               IN /\ fresh' = fresh + 1
                  /\ IF chk # "ok"
                     THEN /\ Finish(c, chk, -1, e.txn) /\ loc' = [loc EXCEPT ![c] = [l0 EXCEPT !.txn = e.txn]]
                     ELSE /\ loc' = [loc EXCEPT ![c] = [l0 EXCEPT !.pend = e, !.jr = 0, !.txn = e.txn]]
                          /\ pc' = [pc EXCEPT ![c] = "cas"] /\ UNCHANGED <<opi, resp>>

\* ---- Branch.Load: open the branch, then upload the data objects -----------------
RHOpen(c) ==
  /\ pc[c] = "idle" /\ HasOp(c) /\ CurOp(c).k = "load" /\ CanRun(c)
  /\ LET r == Reload(c)  t == r.tbl  l0 == [NoLoc EXCEPT !.t0 = Len(sched) + 1] IN
     /\ at' = [at EXCEPT ![c] = r.at] /\ tbl' = [tbl EXCEPT ![c] = t]
     /\ Sched(c, "rh", Seen, "")
     /\ loc' = [loc EXCEPT ![c] = l0]
     /\ UNCHANGED <<entries, tabs, head, cobjs, fresh, crashes>>
     /\ IF ~Has(t, CurOp(c).key) THEN Finish(c, "notfound", -1, -1)
        ELSE pc' = [pc EXCEPT ![c] = "up"] /\ UNCHANGED <<opi, resp>>

Up(c) ==
  /\ pc[c] = "up" /\ CanRun(c)
  /\ Sched(c, "up", 0, "")
  /\ pc' = [pc EXCEPT ![c] = "relook"]
  /\ UNCHANGED <<entries, tabs, head, cobjs, opi, at, tbl, loc, fresh, resp, crashes>>

\* ---- commits.Store.Put of the new commit object ------------------------------
PutC(c) ==
  /\ pc[c] = "putc" /\ CanRun(c)
  /\ cobjs' = cobjs \cup {[id |-> loc[c].cid, parent |-> loc[c].par]}
  /\ loc' = [loc EXCEPT ![c].pend = [k |-> "upd", key |-> CurOp(c).key, val |-> loc[c].cid, exp |-> loc[c].par, txn |-> loc[c].cid],
                        ![c].jr = 0, ![c].txn = loc[c].cid]
  /\ pc' = [pc EXCEPT ![c] = "rh1"]
  /\ Sched(c, "putc", 0, "")
  /\ UNCHANGED <<entries, tabs, head, opi, at, tbl, fresh, resp, crashes>>

\* error path of Branch.commit: remove the commit object, then retry or fail
ToRmc(c, retry, res) ==
  /\ loc' = [loc EXCEPT ![c].retry = retry, ![c].pend = [k |-> res]]
  /\ pc' = [pc EXCEPT ![c] = "rmc"] /\ UNCHANGED <<opi, resp>>

\* ---- journal.Store.commit: load + constraint ----------------------------------
RH1(c) ==
  /\ pc[c] = "rh1" /\ CanRun(c)
  /\ LET r == Reload(c)  t == r.tbl  chk == Constraint(t, loc[c].pend) IN
     /\ at' = [at EXCEPT ![c] = r.at] /\ tbl' = [tbl EXCEPT ![c] = t]
     /\ Sched(c, "rh", Seen, "")
     /\ UNCHANGED <<entries, tabs, head, cobjs, fresh, crashes>>
     /\ IF chk = "ok" THEN pc' = [pc EXCEPT ![c] = "cas"] /\ UNCHANGED <<loc, opi, resp>>
        ELSE IF CurOp(c).k \in {"tip", "load"} THEN ToRmc(c, chk = "constraint", chk)
        ELSE Finish(c, chk, -1, loc[c].txn) /\ UNCHANGED loc

\* ---- Queue.CommitAt part 1: PutIfNotExists(at + 1) ------------------------------
CAS(c) ==
  /\ pc[c] = "cas" /\ CanRun(c)
  /\ LET n == at[c] + 1 IN
     IF Len(entries) >= n
     THEN \* the slot is taken: sleep, retry (load again) or give up
          /\ Sched(c, "cas", n, "exists")
          /\ UNCHANGED <<entries, tabs, head, cobjs, at, tbl, fresh, crashes>>
          /\ IF loc[c].jr + 1 >= MaxRetries
             THEN IF CurOp(c).k \in {"tip", "load"} THEN ToRmc(c, FALSE, "unavailable")
                  ELSE Finish(c, "unavailable", -1, loc[c].txn) /\ UNCHANGED loc
             ELSE /\ loc' = [loc EXCEPT ![c].jr = @ + 1]
                  /\ pc' = [pc EXCEPT ![c] = "rh1"] /\ UNCHANGED <<opi, resp>>
     ELSE \* linearization point
          /\ entries' = Append(entries, loc[c].pend)
          /\ tabs' = Append(tabs, Play(Table(Len(entries)), loc[c].pend))
          /\ pc' = [pc EXCEPT ![c] = "wh"]
          /\ Sched(c, "cas", n, "ok")
          /\ UNCHANGED <<head, cobjs, opi, at, tbl, loc, fresh, resp, crashes>>

\* ---- Queue.CommitAt part 2: Put HEAD; Store.commit then sets at := Nil ----------
WH(c) ==
  /\ pc[c] = "wh" /\ CanRun(c)
  /\ head' = at[c] + 1
  /\ at' = [at EXCEPT ![c] = -1]                       \* Nil: forces a reload next time
  /\ Sched(c, "wh", at[c] + 1, "")
  /\ Finish(c, "ok", IF loc[c].pend.k \in {"upd", "add"} THEN loc[c].pend.val ELSE -1, loc[c].txn)
  /\ UNCHANGED <<entries, tabs, cobjs, tbl, loc, fresh, crashes>>

\* ---- commits.Store.Remove of the loser's commit object --------------------------
RMC(c) ==
  /\ pc[c] = "rmc" /\ CanRun(c)
  /\ cobjs' = {o \in cobjs : o.id # loc[c].cid}
  /\ Sched(c, "rmc", 0, "")
  /\ UNCHANGED <<entries, tabs, head, at, tbl, fresh, crashes>>
  /\ IF loc[c].retry /\ loc[c].cr + 1 < MaxCommitRetries
     THEN /\ loc' = [loc EXCEPT ![c].cr = @ + 1]
          /\ pc' = [pc EXCEPT ![c] = "relook"] /\ UNCHANGED <<opi, resp>>
     ELSE /\ Finish(c, IF loc[c].retry THEN "commitfailed" ELSE loc[c].pend.k, -1, loc[c].txn) /\ UNCHANGED loc

\* ---- a query drains the data of the commit it pinned -----------------------------
Fin(c) ==
  /\ pc[c] = "fin" /\ CanRun(c)
  /\ Sched(c, "fin", 0, "")
  /\ Finish(c, "ok", loc[c].par, -1)
  /\ UNCHANGED <<entries, tabs, head, cobjs, at, tbl, loc, fresh, crashes>>

\* ---- C17: fail-stop of a client at any point -------------------------------------
Crash(c) ==
  /\ crashes < CrashBound /\ pc[c] \notin {"idle", "dead"}
  /\ pc' = [pc EXCEPT ![c] = "dead"]
  /\ crashes' = crashes + 1
  /\ sched' = Append(sched, [c |-> c, lbl |-> "crash", n |-> 0, r |-> ""])
  /\ UNCHANGED <<entries, tabs, head, cobjs, opi, at, tbl, loc, fresh, resp, last, budget>>

Init ==
  /\ entries = <<>> /\ tabs = <<InitTable>> /\ head = 0 /\ cobjs = {}
  /\ pc = [c \in Clients |-> "idle"] /\ opi = [c \in Clients |-> 1]
  /\ at = [c \in Clients |-> -1] /\ tbl = [c \in Clients |-> InitTable]
  /\ loc = [c \in Clients |-> NoLoc]
  /\ fresh = 100 /\ resp = <<>> /\ last = 0 /\ budget = 0 /\ crashes = 0 /\ sched = <<>>

Next == \E c \in Clients : RHOpen(c) \/ Up(c) \/ RHPre(c) \/ RH0(c) \/ PutC(c) \/ RH1(c) \/ CAS(c) \/ WH(c) \/ RMC(c) \/ Fin(c) \/ Crash(c)

Spec == Init /\ [][Next]_vars
FairSpec == Spec /\ \A c \in Clients : WF_vars(RHOpen(c) \/ Up(c) \/ RHPre(c) \/ RH0(c) \/ PutC(c) \/ RH1(c) \/ CAS(c) \/ WH(c) \/ RMC(c) \/ Fin(c))

Done == \A c \in Clients : pc[c] = "dead" \/ (pc[c] = "idle" /\ ~HasOp(c))

\* ---- properties -----------------------------------------------------------------
TypeOK == /\ head \in 0..Len(entries) /\ Len(tabs) = Len(entries) + 1
          /\ \A c \in Clients : at[c] \in -1..Len(entries)

\* The HEAD object is a hint that never runs ahead of the entries.  It may lag (a writer stalled or
\* died between its entry and its HEAD write; a stalled winner may even write an older value over
\* a newer one), which is harmless because readers probe: what they see is never behind an entry.
HeadHint == head <= Len(entries)
NotStuck == \A c \in Clients : at[c] <= Seen

\* Every entry was legal with respect to the table just before it: this is linearizability
\* of the updates (the linearization point is the creation of the entry).
ChainOK  == \A i \in 1..Len(entries) : entries[i].k = "upd" =>
               Has(Table(i - 1), entries[i].key) /\ Table(i - 1)[entries[i].key] = entries[i].exp
InsertOK == \A i \in 1..Len(entries) : entries[i].k = "add" => ~Has(Table(i - 1), entries[i].key)
DeleteOK == \A i \in 1..Len(entries) : entries[i].k = "del" =>
               Has(Table(i - 1), entries[i].key) /\ Table(i - 1)[entries[i].key] = entries[i].exp
\* a rename moves the pool that was looked up (fails if Move does not check the id)
MoveOK   == \A i \in 1..Len(entries) : entries[i].k = "move" =>
               /\ Has(Table(i - 1), entries[i].old) /\ Table(i - 1)[entries[i].old] = entries[i].val
               /\ ~Has(Table(i - 1), entries[i].key)
JournalReplayable == \A i \in 1..Len(entries) : entries[i].k = "upd" => Has(Table(i - 1), entries[i].key)
\* values (pool ids) are unique in every table: no two names for one pool, no lost pool
ValuesUnique == \A n \in 0..Len(entries) : \A k1, k2 \in DOMAIN Table(n) :
                   k1 # k2 => Table(n)[k1] # Table(n)[k2]

\* an acknowledged operation contributed exactly one entry, a failed one none
AckedOnce == \A j \in 1..Len(resp) :
   LET n == Cardinality({i \in 1..Len(entries) : entries[i].txn = resp[j].txn}) IN
   IF resp[j].res = "ok" /\ resp[j].op.k \notin {"read", "scan"} THEN n = 1 ELSE (resp[j].txn = -1 \/ n = 0)
\* a failed branch commit left no commit object behind; an acknowledged one is the child of the tip it replaced
NoOrphanOnFail == \A j \in 1..Len(resp) :
   (resp[j].op.k \in {"tip", "load"} /\ resp[j].res # "ok") => ~\E o \in cobjs : o.id = resp[j].txn
AckedCommitStored == \A j \in 1..Len(resp) :
   (resp[j].op.k \in {"tip", "load"} /\ resp[j].res = "ok") => \E o \in cobjs : o.id = resp[j].val
\* the tip's parent chain contains every acknowledged commit of that branch exactly once
RECURSIVE Chain(_)
Chain(id) == IF ~\E o \in cobjs : o.id = id THEN <<>>
             ELSE LET o == CHOOSE o \in cobjs : o.id = id IN <<id>> \o Chain(o.parent)
SingleChain == \A k \in DOMAIN Table(Len(entries)) :
   LET acked == {resp[j].val : j \in {j \in 1..Len(resp) : resp[j].op.k \in {"tip", "load"} /\ resp[j].res = "ok" /\ resp[j].op.key = k}}
       ch == Chain(Table(Len(entries))[k]) IN
   (\A j \in 1..Len(resp) : resp[j].op.k = "rmkey" => resp[j].res # "ok") =>
       /\ acked \subseteq ToSet(ch)
       /\ \A a \in acked : Cardinality({i \in 1..Len(ch) : ch[i] = a}) = 1

\* C13: a query that starts after a commit was acknowledged sees it (its pinned commit
\* has the acknowledged commit on its parent chain); a query sees exactly one commit.
ReadYourAck == \A i, j \in 1..Len(resp) :
   (/\ resp[j].op.k = "scan" /\ resp[j].res = "ok"
    /\ resp[i].op.k \in {"tip", "load"} /\ resp[i].res = "ok" /\ resp[i].op.key = resp[j].op.key
    /\ resp[i].t1 < resp[j].t0)
   => resp[i].val \in ToSet(Chain(resp[j].val))

\* liveness (crash-free): every operation returns
Terminates == <>Done

\* ---- export ---------------------------------------------------------------------
ExportInv == (Export /\ Done) =>
   PrintT(<<"SCHED", ToJson([sched |-> sched, resp |-> resp,
                              final |-> [k \in DOMAIN Table(Len(entries)) |-> Table(Len(entries))[k]],
                              nentries |-> Len(entries), head |-> head])>>)
View == <<entries, head, cobjs, pc, opi, at, tbl, loc, resp, last, budget, crashes>>
=============================================================================
