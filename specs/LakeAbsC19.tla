---------------------------- MODULE LakeAbsC19 ----------------------------
(***************************************************************************)
(* C19 extension of the sequential reference model LakeAbs.tla: a load     *)
(* whose INPUT fails after k good values (syntax error in record k+1 of a  *)
(* text file, I/O error on the source).                                    *)
(*                                                                         *)
(*   lake/branch.go  Branch.Load: the reader's error aborts the writer     *)
(*                   before anything is committed                          *)
(*   lake/api/local.go   local.Load returns that error                     *)
(*   lake/api/remote.go  remote.Load: the goroutine feeding the request    *)
(*                   body closes the pipe WITH the reader's error, the     *)
(*                   transport aborts the request, Load returns the error  *)
(*                                                                         *)
(* Reference semantics (both access paths): the operation fails and leaves *)
(* every branch untouched (LakeAbs!Fail; the invariant FailedUntouched     *)
(* covers it), the batch is NOT marked loaded and can be loaded later.     *)
(* The k good values read before the failure must never become visible.    *)
(* The step record carries the batch and, in field obj, k.                 *)
(***************************************************************************)
EXTENDS LakeAbs

LoadFail(b, i, k) ==
  /\ Allowed("load") /\ Exists(b) /\ i \notin loaded
  /\ k \in 0..(Len(Batches[i]) - 1)
  /\ Fail([op |-> "loadfail", b |-> b, batch |-> i, obj |-> k])

NextC19 ==
  \/ Next
  \/ /\ Len(hist) < MaxOps
     /\ \E b \in BranchNames, i \in 1..Len(Batches), k \in 0..1 : LoadFail(b, i, k)

SpecC19 == Init /\ [][NextC19]_vars

\* the k good values of a failed load are never visible (value-level statement)
LoadFailInvisible ==
  \A i \in 1..Len(hist) : hist[i].op = "loadfail" =>
     hist[i].data = (IF i = 1 THEN [b \in {"main"} |-> <<>>] ELSE hist[i - 1].data)
=============================================================================
