--------------------------- MODULE ZngFaultTrace ---------------------------
(***************************************************************************)
(* C11: validation of hook traces recorded from the real zngio scanner     *)
(* (R3) against ZngFault.tla.                                              *)
(*                                                                         *)
(* trace.ndjson is a concatenation of runs.  Each run starts with a        *)
(* "start" event carrying the abstract stream the harness fed to the real  *)
(* reader, the number of worker goroutines and the consumer mode.  Every   *)
(* other event was appended, under one mutex, by the goroutine that had    *)
(* just reached the corresponding point, so it is bound to the spec action *)
(* of that goroutine at exactly that point; everything else (channel       *)
(* operations, the parser's reads, worker send/close) is unlogged and left *)
(* to TLC as silent steps:                                                 *)
(*   pull(done)            harness, before calling Pull(done)              *)
(*   deliver(ch, ok)       verif.At("zngio.deliver") in scanner.Pull       *)
(*   ret(kind)             harness, after Pull returned                    *)
(*   dispatch(w, ch)       verif.At("zngio.dispatch") in the parser        *)
(*   done(w, ch, batch, err)  verif.At("zngio.worker.done") in worker.run  *)
(*   cancel                harness cancels the parent context              *)
(*   fin                   harness stops using the scanner                 *)
(*   quiesced              harness observed that no goroutine of the       *)
(*                         reader is left                                  *)
(* Channel and worker identities in the log are arbitrary small integers   *)
(* (pointer -> first-appearance index); they are matched to the spec's     *)
(* identities by injective aliasing.                                       *)
(* All state invariants of ZngFault are checked along the validated trace. *)
(***************************************************************************)
EXTENDS ZngFault, Json

Trace == ndJsonDeserialize("trace.ndjson")

VARIABLES l,      \* index of the next event
          wal,    \* worker alias: log id -> spec worker
          cal     \* channel alias: log id -> spec channel (stream position)

tvars == <<vars, l, wal, cal>>

Ev == Trace[l]
Is(name) == l <= Len(Trace) /\ Ev.e = name

RangeOf(f) == {f[x] : x \in DOMAIN f}

Alias(al, t, c) ==      \* al' as a function of binding log id t to spec id c (FALSE if inconsistent)
  IF t \in DOMAIN al THEN al[t] = c ELSE c \notin RangeOf(al)
Bind(al, t, c) == IF t \in DOMAIN al THEN al ELSE al @@ (t :> c)

HW == TLCSet(1, IF TLCGet(1) < l THEN l ELSE TLCGet(1))    \* high-water mark of consumed events
Adv == l' = l + 1 /\ HW

SeqOf(a) == [i \in 1..Len(a) |-> a[i]]

\* ----------------------------------------------------------------- events
EvStart ==
  /\ Is("start")
  /\ LET s == SeqOf(Ev.stream) n == Ev.threads IN
       /\ stream' = s /\ nthreads' = n /\ mode' = Ev.mode
       /\ started' = FALSE /\ ctxDone' = FALSE /\ parentCancelled' = FALSE
       /\ ppc' = "notstarted" /\ pos' = 1 /\ pw' = 0
       /\ workerCh' = <<>> /\ rcc' = <<>> /\ rccClosed' = FALSE
       /\ chbuf' = [i \in ChanIds |-> <<>>] /\ chclosed' = [i \in ChanIds |-> FALSE]
       /\ wpc' = [w \in 1..n |-> "notstarted"] /\ wwork' = [w \in 1..n |-> 0]
       /\ cpc' = "idle" /\ cch' = NIL /\ cres' = "none" /\ cstate' = "active"
       /\ eof' = FALSE /\ err' = "none" /\ obs' = <<>> /\ stopped' = FALSE
       /\ bad' = "none"
  /\ wal' = <<>> /\ cal' = <<>>
  /\ Adv

EvPull ==
  /\ Is("pull")
  /\ IF Ev.done THEN CallPullDone ELSE CallPull
  /\ UNCHANGED <<wal, cal>> /\ Adv

EvDeliver ==
  /\ Is("deliver")
  /\ cpc = "recv" /\ cch # NIL
  /\ Alias(cal, Ev.ch, cch) /\ cal' = Bind(cal, Ev.ch, cch)
  /\ IF Ev.ok THEN PullGot ELSE PullClosedEmpty
  /\ UNCHANGED wal /\ Adv

EvRet ==
  /\ Is("ret")
  /\ IF Ev.kind = "closed" THEN DrainEnd ELSE (cres = Ev.kind /\ PullReturn)
  /\ UNCHANGED <<wal, cal>> /\ Adv

EvDispatch ==
  /\ Is("dispatch")
  /\ ppc = "hook"
  /\ Alias(wal, Ev.w, pw) /\ wal' = Bind(wal, Ev.w, pw)
  /\ Alias(cal, Ev.ch, pos) /\ cal' = Bind(cal, Ev.ch, pos)
  /\ ParserHook
  /\ Adv

EvDone ==
  /\ Is("done")
  /\ \E w \in Workers :
       /\ wpc[w] = "gotwork"
       /\ stream[wwork[w]] = (IF Ev.err THEN "B" ELSE IF Ev.batch THEN "V" ELSE "E")
       /\ Alias(wal, Ev.w, w) /\ wal' = Bind(wal, Ev.w, w)
       /\ Alias(cal, Ev.ch, wwork[w]) /\ cal' = Bind(cal, Ev.ch, wwork[w])
       /\ WorkerScan(w)
  /\ Adv

EvCancel == Is("cancel") /\ ParentCancel /\ UNCHANGED <<wal, cal>> /\ Adv
EvFin    == Is("fin") /\ Finish /\ UNCHANGED <<wal, cal>> /\ Adv
EvQuiesced == Is("quiesced") /\ GoroutinesDone /\ (started => rccClosed) /\ UNCHANGED vars /\ UNCHANGED <<wal, cal>> /\ Adv

\* ----------------------------------------------------------- silent steps
Silent ==
  /\ l <= Len(Trace)
  /\ \/ ParserRead \/ ParserCtlSend \/ ParserCtlCancel \/ ParserGetWorker \/ ParserEnqueue
     \/ ParserCancelReturn \/ ParserDispatch \/ ParserDispatchCancel \/ ParserClose
     \/ \E w \in Workers : WorkerReady(w) \/ WorkerCancel(w) \/ WorkerFailA(w) \/ WorkerSend(w)
     \/ DrainOne \/ PullRecv \/ PullCtxDone \/ PullRecvClosed
  /\ UNCHANGED <<l, wal, cal>>

TraceInit ==
  /\ InitWith(<<>>, 2, "drain")
  /\ l = 1 /\ wal = <<>> /\ cal = <<>>
  /\ TLCSet(1, 0)

TraceNext == EvStart \/ EvPull \/ EvDeliver \/ EvRet \/ EvDispatch \/ EvDone \/ EvCancel \/ EvFin \/ EvQuiesced \/ Silent

TraceSpec == TraceInit /\ [][TraceNext]_tvars

\* Accepted iff some behaviour of ZngFault consumes every event.  Validation searches depth-first
\* (-Dtlc2.tool.queue.IStateQueue=StateDeque); the first behaviour that reaches the end of the trace
\* prints ACCEPTED and stops TLC (TLCSet("exit", TRUE)).  If the search ends without that, the trace
\* is rejected and the postcondition prints how far it got.
StopWhenAccepted == (l > Len(Trace)) => (PrintT(<<"ACCEPTED", Len(Trace)>>) /\ TLCSet("exit", TRUE))
Accepted == PrintT(<<"HW", TLCGet(1), Len(Trace)>>) /\ TLCGet(1) = Len(Trace)
=============================================================================
