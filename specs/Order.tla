-------------------------------- MODULE Order --------------------------------
(***************************************************************************)
(* C06 (part 1) -- the value ordering is a total preorder.                 *)
(*                                                                         *)
(* Direction: code -> spec.  The harness (harness/props/c06) evaluates the *)
(* REAL comparison routine                                                 *)
(*     expr.NewComparator(nullsMax, SortEvaluator{this, asc|desc}).Compare *)
(*     (= expr.NewValueCompareFn; runtime/sam/expr/sort.go compareValues,  *)
(*      eval.go compareNumbers, type.go CompareTypes)                      *)
(* on EVERY ordered pair of a curated universe of N boundary values, the   *)
(* real compare() function (runtime/sam/expr/function/compare.go) on every *)
(* pair, and the real bulk sorter Comparator.SortStable                    *)
(* (sortStableIndices: native int64 fast path, null sentinels, clamping of *)
(* uint64 > MaxInt64, desc) on a set of sample sequences, and writes them  *)
(* as the generated constant files od_*.json:                              *)
(*                                                                         *)
(*   N                      size of the universe; values are tokens 1..N   *)
(*   CmpAM CmpAN CmpDM CmpDN  N x N tuples over {-1,0,1}: asc/desc x       *)
(*                          nullsMax/nullsMin                              *)
(*   FnM FnN                compare(a,b,true) / compare(a,b,false)         *)
(*   LakeA LakeD            zbuf.NewComparatorNullsMax(key asc / desc) on  *)
(*                          records {k: value} (the lake's object order)   *)
(*   IsNullV IsDeep IsFloatV IsIntK IsBig IsMissingV   per-value facts     *)
(*   Samples                <<[cfg, cfg2, keys, keys2, out]>>: keys (keys2) *)
(*                          = the token of sort key 1 (2) at each input    *)
(*                          position, out = the permutation the real       *)
(*                          SortStable produced (input positions in output *)
(*                          order)                                         *)
(*                                                                         *)
(* TLC then decides the axioms of the property over ALL triples.  To use   *)
(* all workers the enumeration is a (trivially finite) state machine: one  *)
(* Scan step per (cfg, a) whose `bad` variable holds every (b, c) that     *)
(* breaks an axiom at (a, b, c); one per bulk-sort sample.  Every broken   *)
(* instance is printed (<<"BAD", axiom, cfg, a, b, c, class>>) so that the *)
(* harness can re-run it on the real code and report it with a signature.  *)
(*                                                                         *)
(* Known finding F-C06-1 (DESIGN 2.4: a named disjunct, not a blanket      *)
(* exemption): numbers of different kinds are compared through float64     *)
(* (compareNumbers: cmp.Compare(a.Float(), toFloat(b))), so two distinct   *)
(* integers of magnitude >= 2^53 with the same float64 image are both      *)
(* "equal" to that float but not to each other.  KnownF1 describes exactly *)
(* that shape; the invariant OnlyKnown says nothing else is broken.        *)
(***************************************************************************)
EXTENDS Integers, Sequences, FiniteSets, TLC, Json

\* The relation recorded from the real code (see the header).  JSON arrays
\* become tuples, objects records.  One file per constant: TLC evaluates each
\* definition once and caches it.
Meta     == JsonDeserialize("od_meta.json")
N        == Meta.n
IsNullV  == Meta.isnull
IsDeep   == Meta.isdeep
IsFloatV == Meta.isfloat
IsIntK   == Meta.isintk
IsBig    == Meta.isbig
IsMissingV == Meta.ismissing
CmpAM    == JsonDeserialize("od_am.json")
CmpAN    == JsonDeserialize("od_an.json")
CmpDM    == JsonDeserialize("od_dm.json")
CmpDN    == JsonDeserialize("od_dn.json")
FnM      == JsonDeserialize("od_fnm.json")
FnN      == JsonDeserialize("od_fnn.json")
LakeA    == JsonDeserialize("od_lakea.json")
LakeD    == JsonDeserialize("od_laked.json")
Samples  == JsonDeserialize("od_samples.json")

\* Configurations whose triples are scanned.  Desc = reverse of asc is checked on
\* every pair (DescAt), and the reverse of a total preorder is a total preorder,
\* so the quick tier scans the triples of the two ascending configurations only;
\* the thorough tier scans all four.
CONSTANT TripleCfgs

U    == 1..N
Cfgs == {"am", "an", "dm", "dn"}     \* asc|desc x nullsMax|nullsMin

Cmp(cfg) == CASE cfg = "am" -> CmpAM [] cfg = "an" -> CmpAN
              [] cfg = "dm" -> CmpDM [] cfg = "dn" -> CmpDN
AscOf(cfg)  == IF cfg \in {"am", "dm"} THEN "am" ELSE "an"
NullsMax(cfg) == cfg \in {"am", "dm"}
IsDesc(cfg)   == cfg \in {"dm", "dn"}

\* --------------------------------------------------------------- the axioms
\* (1) reflexive, (2) antisymmetric as a three-way comparison
ReflAt(R, a)       == R[a][a] = 0
AntisymAt(R, a, b) == R[a][b] = -R[b][a]
\* (3) <= is transitive; (4) the induced equivalence is transitive
TransLeqAt(R, a, b, c) == (R[a][b] <= 0 /\ R[b][c] <= 0) => R[a][c] <= 0
TransEqAt(R, a, b, c)  == (R[a][b] = 0 /\ R[b][c] = 0) => R[a][c] = 0
\* (5) nulls placement: a null (of any type) equals every null and is larger
\* (nullsMax) / smaller (nullsMin) than every non-null; desc reverses the sense
\* of the comparison (Comparator.Compare swaps the operands, so a desc
\* comparator with nullsMax puts nulls FIRST).
NullSign(cfg) == (IF NullsMax(cfg) THEN 1 ELSE -1) * (IF IsDesc(cfg) THEN -1 ELSE 1)
NullsAt(cfg, a, b) ==
  LET R == Cmp(cfg) IN
  /\ (IsNullV[a] /\ IsNullV[b]) => R[a][b] = 0
  /\ (IsNullV[a] /\ ~IsNullV[b]) => R[a][b] = NullSign(cfg)
\* (6) desc is the reverse of asc (same nullsMax)
DescAt(cfg, a, b) == IsDesc(cfg) => Cmp(cfg)[a][b] = Cmp(AscOf(cfg))[b][a]
\* (7) every consumer uses the same routine: compare() agrees with the comparator
FnAt(cfg, a, b) == /\ cfg = "am" => FnM[a][b] = CmpAM[a][b]
                   /\ cfg = "an" => FnN[a][b] = CmpAN[a][b]
\* (7b) the lake's comparators (zbuf.NewComparatorNullsMax over the pool key, asc
\* and desc; they append the value's bytes as a last key to make the order total)
\* agree with the sort comparator wherever that one decides
LakeAt(cfg, a, b) == (~IsMissingV[a] /\ ~IsMissingV[b]) =>     \* the lake reads missing as null
                     /\ cfg = "am" => (CmpAM[a][b] # 0 => LakeA[a][b] = CmpAM[a][b])
                     /\ cfg = "dm" => (CmpDM[a][b] # 0 => LakeD[a][b] = CmpDM[a][b])
                     /\ cfg \in {"am", "dm"} => (IF cfg = "am" THEN LakeA ELSE LakeD)[a][b] = -(IF cfg = "am" THEN LakeA ELSE LakeD)[b][a]
\* (8) nullsMax only moves nulls: values that are not null and contain no null
\* element compare the same under both settings (drift-level, not a property clause)
IndepAt(cfg, a, b) ==
  (cfg = "am" /\ ~IsNullV[a] /\ ~IsNullV[b] /\ ~IsDeep[a] /\ ~IsDeep[b]) => CmpAM[a][b] = CmpAN[a][b]

\* ------------------------------------------------------ known finding F-C06-1
\* a ~ f ~ c through the float64 image of two distinct big integers a, c.
KnownF1(R, a, b, c) ==
  /\ IsFloatV[b] /\ IsIntK[a] /\ IsIntK[c]
  /\ IsBig[a] /\ IsBig[b] /\ IsBig[c]
  /\ R[a][b] = 0 /\ R[b][c] = 0 /\ R[a][c] # 0

Class(R, a, b, c) == IF KnownF1(R, a, b, c) THEN "F1" ELSE "new"

\* ------------------------------------------------- bulk sorter (SortStable)
NS == Len(Samples)
Key(s, p) == Samples[s].keys[p]            \* token at input position p
SLen(s)   == Len(Samples[s].keys)
\* positions i < j of the output that are out of order / unstable / not a permutation
\* the comparison of input positions p, q under the sample's one or two keys
\* (Comparator.Compare: first key that differs decides)
SCmp(s, p, q) ==
  LET S == Samples[s]
      r == Cmp(S.cfg)[S.keys[p]][S.keys[q]]
  IN  IF r # 0 \/ S.keys2 = <<>> THEN r ELSE Cmp(S.cfg2)[S.keys2[p]][S.keys2[q]]
BulkBad(s) ==
  LET out == Samples[s].out  n == SLen(s) IN
  IF Len(out) # n \/ {out[i] : i \in 1..Len(out)} # 1..n THEN {<<"perm", 0, 0, "new">>}
  ELSE LET Pairs == {p \in (1..n) \X (1..n) : p[1] < p[2]}
       IN   {<<"order", out[p[1]], out[p[2]], "new">> : p \in {q \in Pairs : SCmp(s, out[q[1]], out[q[2]]) > 0}}
       \cup {<<"stable", out[p[1]], out[p[2]], "new">> :
                p \in {q \in Pairs : SCmp(s, out[q[1]], out[q[2]]) = 0 /\ out[q[1]] > out[q[2]]}}

\* ------------------------------------------------------------ state machine
\* init --PickA/PickS--> picked --Scan--> done.  The picked states are cheap
\* and fill the queue; each Scan (one row of the relation: all b and c for a
\* fixed (cfg, a); or one bulk sample) is evaluated by whichever worker
\* dequeues it, so the N^3 enumeration uses all workers.
VARIABLES phase, cfg, a, bad
vars == <<phase, cfg, a, bad>>

Init == phase = "init" /\ cfg = "" /\ a = 0 /\ bad = {}

PickA == /\ phase = "init"
         /\ phase' = "picked" /\ cfg' \in Cfgs /\ a' \in U /\ bad' = {}

PickS == /\ phase = "init"
         /\ phase' = "picked" /\ cfg' = "bulk" /\ a' \in 1..NS /\ bad' = {}

\* axiom instances <<axiom, y, c, class>> broken at (x, y) (c = 0) ...
PairBad(k, x, y) ==
  LET R == Cmp(k) IN
     (IF x = y /\ ~ReflAt(R, x) THEN {<<"refl", y, 0, "new">>} ELSE {})
  \cup (IF ~AntisymAt(R, x, y) THEN {<<"antisym", y, 0, "new">>} ELSE {})
  \cup (IF ~NullsAt(k, x, y) THEN {<<"nulls", y, 0, "new">>} ELSE {})
  \cup (IF ~DescAt(k, x, y) THEN {<<"desc", y, 0, "new">>} ELSE {})
  \cup (IF ~FnAt(k, x, y) THEN {<<"fn", y, 0, "new">>} ELSE {})
  \cup (IF ~LakeAt(k, x, y) THEN {<<"lake", y, 0, "new">>} ELSE {})
  \cup (IF ~IndepAt(k, x, y) THEN {<<"indep", y, 0, "drift">>} ELSE {})

\* ... and at (x, y, c) for every c.  Both transitivity axioms have the
\* hypothesis R[x][y] <= 0, so nothing is scanned when x > y.
TripleBad(k, x, y) ==
  LET R == Cmp(k)  Rx == R[x]  Ry == R[y]  rxy == Rx[y] IN
  IF rxy > 0 THEN {}
  ELSE LET viol == {d \in U : Ry[d] <= 0 /\ (Rx[d] > 0                               \* ~TransLeqAt(R, x, y, d)
                                          \/ (rxy = 0 /\ Ry[d] = 0 /\ Rx[d] < 0))}   \* ~TransEqAt only
       IN  {<<IF Rx[c] > 0 THEN "transleq" ELSE "transeq", y, c, Class(R, x, y, c)>> : c \in viol}

RowBad(k, x) == UNION {PairBad(k, x, y) \cup (IF k \in TripleCfgs THEN TripleBad(k, x, y) ELSE {}) : y \in U}

Scan == /\ phase = "picked"
        /\ phase' = "done"
        /\ bad' = IF cfg = "bulk" THEN BulkBad(a) ELSE RowBad(cfg, a)
        /\ IF bad' = {} THEN TRUE ELSE \A v \in bad' : PrintT(<<"BAD", v[1], cfg, a, v[2], v[3], v[4]>>)
        /\ UNCHANGED <<cfg, a>>

Next == PickA \/ PickS \/ Scan
Spec == Init /\ [][Next]_vars

\* ---------------------------------------------------------------- properties
\* Nothing is broken except instances of the known finding (and drift-level
\* notes).  With the known finding repaired this is `bad = {}`.
OnlyKnown == \A v \in bad : v[4] \in {"F1", "drift"}

TypeOK == /\ phase \in {"init", "picked", "done"}
          /\ cfg \in Cfgs \cup {"", "bulk"}
          /\ a \in 0..(IF N > NS THEN N ELSE NS)

\* --------------------------------------------------------------- non-vacuity
ASSUME N >= 20
ASSUME {"am", "an"} \subseteq TripleCfgs /\ TripleCfgs \subseteq Cfgs
ASSUME \A k \in Cfgs : DOMAIN Cmp(k) = U /\ \A x \in U : DOMAIN Cmp(k)[x] = U
ASSUME \E x \in U, y \in U : x # y /\ CmpAM[x][y] = 0 /\ ~IsNullV[x]   \* a non-trivial equivalence class
ASSUME \E x \in U, y \in U : CmpAM[x][y] < 0 /\ CmpDM[x][y] > 0
ASSUME \E x \in U : IsNullV[x]
ASSUME \E x \in U : IsFloatV[x] /\ IsBig[x]
ASSUME \E x \in U : IsIntK[x] /\ IsBig[x]
ASSUME NS >= 1
ASSUME \E s \in 1..NS : \E p \in 1..SLen(s), q \in 1..SLen(s) : p # q /\ SCmp(s, p, q) = 0
ASSUME \E s \in 1..NS : Samples[s].keys2 # <<>>
=============================================================================
