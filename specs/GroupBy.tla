------------------------------- MODULE GroupBy -------------------------------
(***************************************************************************)
(* C10 (group-by half) -- aggregation agrees with naive evaluation at any  *)
(* memory limit.                                                           *)
(*                                                                         *)
(* Transcription of runtime/sam/op/groupby/groupby.go:                     *)
(*   Aggregator.Consume / spillTable / updateMaxTableKey /                 *)
(*   updateMaxSpillKey / nextResult / readSpills / nextResultFromSpills /  *)
(*   readTable and the driving loop Op.run, together with                  *)
(*   runtime/sam/op/spill/merge.go (runs = stably sorted partial rows,     *)
(*   k-way merge by comparator then run ordinal).                          *)
(*                                                                         *)
(* Three relations of the code are kept apart because the code keeps them  *)
(* apart:                                                                  *)
(*   identity       table key = flattened key bytes + key-type code        *)
(*                  (Consume): a key is a pair <<p, s>> of tokens;         *)
(*   SRank          keysComparator = expr.NewComparator(true, keys...)     *)
(*                  .WithMissingAsNull(): numbers compare numerically      *)
(*                  across types, null = missing, nulls max.  This is also *)
(*                  the order of a pool / merge / sort output, i.e. what   *)
(*                  "input sorted on k" means;                             *)
(*   VRank          valueCompare = expr.NewValueCompareFn(o, true): the    *)
(*                  same but *without* missing-as-null: error("missing")   *)
(*                  sorts by type (after every primitive, before null).    *)
(*                                                                         *)
(* An aggregate's state is abstracted to the set of input row ids it has   *)
(* consumed (Consume / ConsumeAsPartial = union), so "aggregate over       *)
(* exactly that key's inputs" is vals = ids of the rows with that key.     *)
(* The Go harness evaluates the concrete aggregates by reference functions *)
(* over exactly these id sets.  Every row id stands for typed argument     *)
(* values (several value TYPES occur within one group), so a partial is a  *)
(* typed multiset and "merging partials = consuming the raw values" is     *)
(* checked on the exact result value including its type.                   *)
(*                                                                         *)
(* Every behaviour is one case (input x batching x limit x declared order  *)
(* x direct/partials) run to completion.  TLC checks EmittedOK in every    *)
(* state and Final at the end, and prints one JSON line per finished       *)
(* behaviour (the case and the predicted output batches, spill sizes,      *)
(* taints); the harness replays the case on the real operator and compares.*)
(*                                                                         *)
(* Defects of the code that are confirmed on the real code are kept in the *)
(* transcription (the spec predicts what the code really does) and set a   *)
(* taint; the invariants are conditional on taint = {} (DESIGN 2.4).       *)
(***************************************************************************)
EXTENDS Integers, Sequences, FiniteSets, TLC, Json

CONSTANTS Toks,      \* primary-key tokens used
          NSec,      \* number of values of the secondary key column (1 = effectively one key)
          MaxRows,   \* inputs have 1..MaxRows rows
          Limits,    \* table limits; INF = never spills
          Srcs,      \* subset of {"unsorted","asc","desc","sortasc","sortdesc"}
          Modes,     \* subset of {"direct","partials"}
          B2s,       \* sorted partials: batch sizes of the merged stream fed to the partials-in aggregator
          MaxRowsP,  \* partials cases have at most this many rows
          CaseFile,  \* "" = enumerate every case within the bounds above; else an ndjson file of cases to run (all behaviours of each)
          Emit       \* TRUE: print one JSON line per finished behaviour

INF  == 99
NONE == "NONE"

AllToks == {"I1", "U1", "F1", "I2", "I3", "S", "MISS", "NI", "NS"}
ASSUME Toks \subseteq AllToks /\ NSec \in 1..2 /\ MaxRows \in 1..7
ASSUME Srcs \subseteq {"unsorted", "asc", "desc", "sortasc", "sortdesc"}
ASSUME Modes \subseteq {"direct", "partials"} /\ B2s \subseteq 1..3 /\ B2s # {}

\* ------------------------------------------------------------- key tokens
\* I1 = 1 (int64), U1 = 1 (uint64), F1 = 1. (float64), I2 = 2, I3 = 3,
\* S = "a", MISS = error("missing") (key field absent), NI = null(int64),
\* NS = null(string).
SRank(t) == CASE t \in {"I1", "U1", "F1"} -> 1
              [] t = "I2" -> 2
              [] t = "I3" -> 3
              [] t = "S"  -> 4
              [] t \in {"MISS", "NI", "NS"} -> 6
VRank(t) == CASE t \in {"I1", "U1", "F1"} -> 1
              [] t = "I2" -> 2
              [] t = "I3" -> 3
              [] t = "S"  -> 4
              [] t = "MISS" -> 5
              [] t \in {"NI", "NS"} -> 6
IsErr(t) == t = "MISS"
\* canonical index (only used to make choices deterministic)
TokIdx(t) == CASE t = "I1" -> 1 [] t = "U1" -> 2 [] t = "F1" -> 3 [] t = "I2" -> 4 [] t = "I3" -> 5
               [] t = "S" -> 6 [] t = "MISS" -> 7 [] t = "NI" -> 8 [] t = "NS" -> 9
KeyIdx(k) == TokIdx(k[1]) * 4 + k[2]

Sgn(d) == IF d < 0 THEN -1 ELSE IF d > 0 THEN 1 ELSE 0
\* Comparator.Compare: for order.Desc the operands are swapped, then compareValues(.., nullsMax = TRUE)
SCmp(a, b, desc) == IF desc THEN Sgn(SRank(b) - SRank(a)) ELSE Sgn(SRank(a) - SRank(b))
VCmp(a, b, desc) == IF desc THEN Sgn(VRank(b) - VRank(a)) ELSE Sgn(VRank(a) - VRank(b))
\* keysComparator over all key columns, every column in direction o
KCmp(k1, k2, desc) ==
  LET c == SCmp(k1[1], k2[1], desc) IN
  IF c # 0 THEN c ELSE IF desc THEN Sgn(k2[2] - k1[2]) ELSE Sgn(k1[2] - k2[2])
\* sort operator (sort.Op.setComparator, nullsFirst = FALSE): nulls last in BOTH directions
SortOpRank(t, desc) == IF SRank(t) = 6 THEN 99 ELSE IF desc THEN 0 - SRank(t) ELSE SRank(t)

KeySet == Toks \X (0 .. NSec - 1)

\* ------------------------------------------------------------------ cases
\* A case is [src, mode, limit, keys, bat, b2]: the declared/physical order of
\* the input, direct or partials, the table limit, the key of each input row,
\* the sizes of the input batches, and (sorted partials) the batch size of
\* the merged stream fed to the partials-in aggregator.  Cases are built
\* row by row in stage "build" (so TLC enumerates them in parallel) and then
\* started.
Sorted(s) == s \in {"asc", "desc"}
Min2(S) == CHOOSE x \in S : \A y \in S : x <= y
\* rows are in pool order on the primary key
LakeSorted(rows, desc) == \A i \in 1..(Len(rows) - 1) : SCmp(rows[i].key[1], rows[i + 1].key[1], desc) <= 0
Seeds == {[src |-> s, mode |-> m, limit |-> l, keys |-> << >>, bat |-> << >>, b2 |-> x] :
             s \in Srcs, m \in Modes, l \in Limits, x \in B2s}
ValidSeed(c) == /\ (c.b2 # Min2(B2s) => c.mode = "partials" /\ Sorted(c.src))
                /\ ~(c.mode = "partials" /\ c.src \in {"sortasc", "sortdesc"})   \* partials are composed for pool-ordered and unordered input only

DirOf(c) == IF c.src \in {"asc", "sortasc"} THEN 1 ELSE IF c.src \in {"desc", "sortdesc"} THEN -1 ELSE 0
DescOf(c) == DirOf(c) < 0

\* rows: [key, vals]; input row i has vals = {i}
RowsOf(c) == [i \in 1..Len(c.keys) |-> [key |-> c.keys[i], vals |-> {i}]]

RECURSIVE Chop(_, _)
Chop(s, sizes) == IF sizes = << >> THEN << >>
                  ELSE <<SubSeq(s, 1, sizes[1])>> \o Chop(SubSeq(s, sizes[1] + 1, Len(s)), Tail(sizes))

RECURSIVE Concat(_)
Concat(bs) == IF bs = << >> THEN << >> ELSE Head(bs) \o Concat(Tail(bs))

RECURSIVE InsSortOp(_, _, _)
InsSortOp(s, x, desc) ==
  IF s = << >> THEN <<x>>
  ELSE IF SortOpRank(x.key[1], desc) < SortOpRank(Head(s).key[1], desc) THEN <<x>> \o s
  ELSE <<Head(s)>> \o InsSortOp(Tail(s), x, desc)
RECURSIVE SortOp(_, _)
SortOp(s, desc) == IF s = << >> THEN << >> ELSE InsSortOp(SortOp(SubSeq(s, 1, Len(s) - 1), desc), s[Len(s)], desc)

NonEmptyBatches(bs) == SelectSeq(bs, LAMBDA b : b # << >>)

\* input batches of the single aggregator of a direct case
DirectInput(c) ==
  IF c.src \in {"sortasc", "sortdesc"} THEN <<SortOp(RowsOf(c), c.src = "sortdesc")>>   \* `sort [-r] k` upstream: one batch
  ELSE Chop(RowsOf(c), c.bat)

\* partials: rows at odd positions go to leg 0, even positions to leg 1
\* (fork (=> where s==0 => where s==1)); a leg sees the batches filtered.
LegInput(c, leg) ==
  LET rows == RowsOf(c)
      mark == [i \in 1..Len(rows) |-> [key |-> rows[i].key, vals |-> rows[i].vals, leg |-> (i + 1) % 2]]
      bs == Chop(mark, c.bat)
      f(b) == LET sel == SelectSeq(b, LAMBDA r : r.leg = leg) IN [i \in 1..Len(sel) |-> [key |-> sel[i].key, vals |-> sel[i].vals]]
  IN NonEmptyBatches([i \in 1..Len(bs) |-> f(bs[i])])

\* a batch (set of out rows) in canonical order
RECURSIVE CanonSeq(_)
CanonSeq(S) == IF S = {} THEN << >>
               ELSE LET x == CHOOSE x \in S : \A y \in S : KeyIdx(x.rep) <= KeyIdx(y.rep)
                    IN <<x>> \o CanonSeq(S \ {x})

RECURSIVE FlattenOut(_)
FlattenOut(o) == IF o = << >> THEN << >>
                 ELSE [i \in 1..Len(CanonSeq(Head(o))) |-> [key |-> CanonSeq(Head(o))[i].rep, vals |-> CanonSeq(Head(o))[i].vals]] \o FlattenOut(Tail(o))

RECURSIVE InsLake(_, _, _)
InsLake(s, x, desc) ==
  IF s = << >> THEN <<x>>
  ELSE IF SCmp(x.key[1], Head(s).key[1], desc) < 0 THEN <<x>> \o s
  ELSE <<Head(s)>> \o InsLake(Tail(s), x, desc)
RECURSIVE LakeSort(_, _)
LakeSort(s, desc) == IF s = << >> THEN << >> ELSE InsLake(LakeSort(SubSeq(s, 1, Len(s) - 1), desc), s[Len(s)], desc)

RECURSIVE ChopBy(_, _)
ChopBy(s, k) == IF s = << >> THEN << >> ELSE IF Len(s) <= k THEN <<s>> ELSE <<SubSeq(s, 1, k)>> \o ChopBy(SubSeq(s, k + 1, Len(s)), k)

\* input of the partials-in aggregator, built from the two legs' outputs:
\*   unsorted: leg 0's rows then leg 1's rows, one batch per leg output batch;
\*   sorted:   all rows merged stably in the declared order (what dag.Merge /
\*             merge.Op delivers), in batches of b2 rows.
FinalInput(c, lo) ==
  IF DirOf(c) = 0 THEN
       LET f(o) == [i \in 1..Len(o) |-> FlattenOut(<<o[i]>>)] IN f(lo[1]) \o f(lo[2])
  ELSE ChopBy(LakeSort(FlattenOut(lo[1]) \o FlattenOut(lo[2]), DescOf(c)), c.b2)

\* -------------------------------------------------------------- variables
VARIABLES cs,       \* the case
          stage,    \* "leg0" | "leg1" | "final" | "done"
          inp,      \* batches not yet pulled
          cur,      \* unconsumed rows of the batch being consumed
          inb,      \* a batch is being consumed
          table,    \* set of [key, gv, vals]      (Aggregator.table; gv = Row.groupval)
          maxT,     \* Aggregator.maxTableKey (a primary token) or NONE
          maxS,     \* Aggregator.maxSpillKey or NONE
          runs,     \* spill.MergeSort.runs: sequence (by ordinal) of sorted sequences of [key, vals]
          spilled,  \* Aggregator.spiller # nil
          lastP,    \* ghost: primary token of the last consumed row (the input's high-water mark)
          out,      \* batches emitted by the current aggregator: Seq(SUBSET [rep, ids, vals])
          legout,   \* <<out of leg 0, out of leg 1>>
          legref,   \* ghost: <<input rows of leg 0, input rows of leg 1>>
          spl,      \* sizes of all spill runs written so far, as <<stage, size>>
          taint     \* names of the known-defect paths this behaviour went through

vars == <<cs, stage, inp, cur, inb, table, maxT, maxS, runs, spilled, lastP, out, legout, legref, spl, taint>>

Dir  == DirOf(cs)
Desc == DescOf(cs)

FreshAgg(batches) ==
  /\ inp = batches /\ cur = << >> /\ inb = FALSE
  /\ table = {} /\ maxT = NONE /\ maxS = NONE /\ runs = << >> /\ spilled = FALSE /\ lastP = NONE
  /\ out = << >>

\* cases chosen by the harness (seeded random, larger than the exhaustive bounds)
GivenCases == IF CaseFile = "" THEN {} ELSE LET f == ndJsonDeserialize(CaseFile) IN {f[i] : i \in 1..Len(f)}

Init ==
  /\ cs \in (IF CaseFile = "" THEN {c \in Seeds : ValidSeed(c)} ELSE GivenCases)
  /\ stage = "build"
  /\ FreshAgg(<< >>)
  /\ legout = << << >>, << >> >> /\ legref = << << >>, << >> >>
  /\ spl = << >> /\ taint = {}

\* build the case: append one input row (keeping a pool-ordered input ordered
\* on the primary key) and decide whether it starts a new batch
AddRow ==
  /\ stage = "build" /\ CaseFile = ""
  /\ Len(cs.keys) < (IF cs.mode = "partials" THEN MaxRowsP ELSE MaxRows)
  /\ \E k \in KeySet, nb \in BOOLEAN :
       /\ Sorted(cs.src) /\ cs.keys # << >> => SCmp(cs.keys[Len(cs.keys)][1], k[1], DescOf(cs)) <= 0
       /\ cs.keys = << >> => nb
       /\ ~Sorted(cs.src) /\ cs.keys # << >> => ~nb          \* batch boundaries matter for sorted input only
       /\ cs' = [cs EXCEPT !.keys = Append(@, k),
                           !.bat = IF nb THEN Append(@, 1) ELSE [@ EXCEPT ![Len(@)] = @ + 1]]
  /\ UNCHANGED <<stage, inp, cur, inb, table, maxT, maxS, runs, spilled, lastP, out, legout, legref, spl, taint>>

Start ==
  /\ stage = "build" /\ cs.keys # << >>
  /\ stage' = IF cs.mode = "partials" THEN "leg0" ELSE "final"
  /\ inp' = IF cs.mode = "partials" THEN LegInput(cs, 0) ELSE DirectInput(cs)
  /\ legref' = IF cs.mode = "partials" THEN <<Concat(LegInput(cs, 0)), Concat(LegInput(cs, 1))>> ELSE legref
  \* known defect: `sort -r k` delivers nulls last, but for a descending input
  \* valueCompare / keysComparator (nulls max, operands swapped) expect them first
  /\ taint' = IF cs.src = "sortdesc" /\ ~LakeSorted(DirectInput(cs)[1], TRUE) THEN {"descnulls"} ELSE {}
  /\ UNCHANGED <<cs, cur, inb, table, maxT, maxS, runs, spilled, lastP, out, legout, spl>>

\* ------------------------------------------------------------- spilling
RECURSIVE InsK(_, _, _)
InsK(s, x, desc) ==
  IF s = << >> THEN <<x>>
  ELSE IF KCmp(x.key, Head(s).key, desc) < 0 THEN <<x>> \o s
  ELSE <<Head(s)>> \o InsK(Tail(s), x, desc)
RECURSIVE StableSortK(_, _)   \* Comparator.SortStableReader
StableSortK(s, desc) == IF s = << >> THEN << >> ELSE InsK(StableSortK(SubSeq(s, 1, Len(s) - 1), desc), s[Len(s)], desc)

\* all orders in which readTable may iterate the table (Go map order)
Perms(S) == {f \in [1..Cardinality(S) -> S] : \A i, j \in 1..Cardinality(S) : i # j => f[i] # f[j]}

\* spillTable: recs = readTable(flush) in map order; the run is recs stably
\* sorted by keysComparator; recs itself is NOT reordered (SortStableReader
\* sorts an index), so "recs[len(recs)-1]" is the last row in map order.
\* Returns [run, last] for each possible map order.
SpillChoices(tab, desc) ==
  {[run |-> StableSortK([i \in 1..Len(p) |-> [key |-> p[i].key, vals |-> p[i].vals]], desc),
    last |-> p[Len(p)].key[1]] : p \in Perms(tab)}

NewMaxS(ms, last, eof, dir, desc) ==
  IF eof \/ dir = 0 \/ IsErr(last) THEN ms                     \* `if !val.IsError()`
  ELSE IF ms = NONE \/ VCmp(last, ms, desc) > 0 THEN last ELSE ms   \* updateMaxSpillKey

\* --------------------------------------------------- merging the runs
NonEmptyRuns(rs) == {i \in 1..Len(rs) : rs[i] # << >>}
\* MergeSort.Less: comparator, then run ordinal
MinRun(rs, desc) == CHOOSE i \in NonEmptyRuns(rs) : \A j \in NonEmptyRuns(rs) :
                       LET c == KCmp(rs[i][1].key, rs[j][1].key, desc) IN c < 0 \/ (c = 0 /\ i <= j)
RECURSIVE LeadEq(_, _, _)
LeadEq(run, k, desc) == IF run = << >> \/ KCmp(run[1].key, k, desc) # 0 THEN 0 ELSE 1 + LeadEq(Tail(run), k, desc)

\* nextResultFromSpills: firstRec = Peek; consume every following record
\* for which keysComparator.Compare(firstRec, rec) = 0 (across all runs).
NextGroup(rs, desc) ==
  LET i == MinRun(rs, desc)
      k == rs[i][1].key
      n == [j \in 1..Len(rs) |-> LeadEq(rs[j], k, desc)]
      rows == UNION {{rs[j][x] : x \in 1..n[j]} : j \in 1..Len(rs)}
  IN [row  |-> [rep |-> k, ids |-> {r.key : r \in rows}, vals |-> UNION {r.vals : r \in rows}],
      rest |-> [j \in 1..Len(rs) |-> SubSeq(rs[j], n[j] + 1, Len(rs[j]))]]

\* readSpills(eof): emit merged groups while (eof or the peeked record's
\* primary key is an error or is below maxSpillKey).
RECURSIVE ReadSpills(_, _, _, _)
ReadSpills(rs, ms, desc, eof) ==
  IF NonEmptyRuns(rs) = {} THEN [em |-> {}, rs |-> rs]
  ELSE LET p == rs[MinRun(rs, desc)][1].key[1] IN
    IF ~eof /\ ms = NONE THEN [em |-> {}, rs |-> rs]                                \* `if a.maxSpillKey == nil { break }` (fix c97cabc9b)
    ELSE IF ~eof /\ ~IsErr(p) /\ VCmp(p, ms, desc) >= 0 THEN [em |-> {}, rs |-> rs]
    ELSE LET g == NextGroup(rs, desc)
             r == ReadSpills(g.rest, ms, desc, eof)
         IN [em |-> {g.row} \cup r.em, rs |-> r.rs]

\* ghost: a release of key p before the end of input is justified by the
\* declared order iff the input has already moved strictly past p's position
\* in that order (the order is on the primary key only).
Justified(p) == lastP # NONE /\ SCmp(p, lastP, Desc) < 0

TaintOfRows(em) == IF \E r \in em : Cardinality(r.ids) > 1 THEN {"merge"} ELSE {}
TaintOfRelease(em) == IF \E r \in em : \E k \in r.ids : ~Justified(k[1]) THEN {"release"} ELSE {}

\* ---------------------------------------------------------------- actions
\* Op.run: pull the next batch
Pull ==
  /\ stage \notin {"build", "done"} /\ ~inb /\ inp # << >>
  /\ cur' = Head(inp) /\ inp' = Tail(inp) /\ inb' = TRUE
  /\ UNCHANGED <<cs, stage, table, maxT, maxS, runs, spilled, lastP, out, legout, legref, spl, taint>>

\* Aggregator.Consume for one value of the batch
Consume ==
  /\ stage \notin {"build", "done"} /\ inb /\ cur # << >>
  /\ LET row == Head(cur)
         k == row.key
         mt == IF Dir = 0 THEN maxT                                             \* updateMaxTableKey
               ELSE IF maxT = NONE \/ VCmp(k[1], maxT, Desc) > 0 THEN k[1] ELSE maxT
         hit == {r \in table : r.key = k}
     IN /\ maxT' = mt /\ cur' = Tail(cur) /\ lastP' = k[1]
        /\ IF hit # {} THEN
               /\ table' = (table \ hit) \cup {[key |-> k, gv |-> r.gv, vals |-> r.vals \cup row.vals] : r \in hit}
               /\ UNCHANGED <<runs, maxS, spilled, spl>>
           ELSE IF Cardinality(table) >= cs.limit THEN                            \* spillTable(false)
               \E ch \in SpillChoices(table, Desc) :
                 /\ runs' = Append(runs, ch.run)
                 /\ maxS' = NewMaxS(maxS, ch.last, FALSE, Dir, Desc)
                 /\ spilled' = TRUE
                 /\ spl' = Append(spl, <<stage, Cardinality(table)>>)
                 /\ table' = {[key |-> k, gv |-> mt, vals |-> row.vals]}        \* groupval: prim = *maxTableKey
           ELSE
               /\ table' = table \cup {[key |-> k, gv |-> mt, vals |-> row.vals]}
               /\ UNCHANGED <<runs, maxS, spilled, spl>>
  /\ UNCHANGED <<cs, stage, inp, inb, out, legout, legref, taint>>

\* Op.run after a batch: `for { res := nextResult(false) ... }` (sorted input only)
EndBatch ==
  /\ stage \notin {"build", "done"} /\ inb /\ cur = << >>
  /\ inb' = FALSE
  /\ IF Dir = 0 THEN UNCHANGED <<table, runs, out, taint>>
     ELSE IF ~spilled THEN                                                       \* readTable(flush = false)
          LET rel == {r \in table : VCmp(r.gv, maxT, Desc) < 0}
              em  == {[rep |-> r.key, ids |-> {r.key}, vals |-> r.vals] : r \in rel}
          IN /\ table' = table \ rel
             /\ out' = IF em = {} THEN out ELSE Append(out, em)
             /\ taint' = taint \cup TaintOfRelease(em)
             /\ UNCHANGED runs
     ELSE LET r == ReadSpills(runs, maxS, Desc, FALSE) IN                         \* readSpills(eof = false)
          /\ runs' = r.rs
          /\ out' = IF r.em = {} THEN out ELSE Append(out, r.em)
          /\ taint' = taint \cup TaintOfRows(r.em) \cup TaintOfRelease(r.em)
          /\ UNCHANGED table
  /\ UNCHANGED <<cs, stage, inp, cur, maxT, maxS, spilled, lastP, legout, legref, spl>>

NextStage(o) ==
       CASE stage = "leg0" ->
           /\ stage' = "leg1" /\ legout' = <<o, << >> >>
           /\ inp' = LegInput(cs, 1) /\ cur' = << >> /\ inb' = FALSE /\ maxT' = NONE /\ maxS' = NONE /\ lastP' = NONE
    [] stage = "leg1" ->
           /\ stage' = "final" /\ legout' = <<legout[1], o>>
           /\ inp' = FinalInput(cs, <<legout[1], o>>) /\ cur' = << >> /\ inb' = FALSE /\ maxT' = NONE /\ maxS' = NONE /\ lastP' = NONE
    [] stage = "final" ->
           /\ stage' = "done" /\ legout' = legout /\ UNCHANGED <<inp, cur, inb, maxT, maxS, lastP>>

\* end of input: sendResults -> nextResult(true) until nil
Finish ==
  /\ stage \notin {"build", "done"} /\ ~inb /\ inp = << >>
  /\ IF ~spilled THEN                                                            \* readTable(flush = true)
        LET em == {[rep |-> r.key, ids |-> {r.key}, vals |-> r.vals] : r \in table}
            o  == IF em = {} THEN out ELSE Append(out, em)
        IN /\ UNCHANGED <<spl, taint>>
           /\ IF stage = "final" THEN out' = o /\ table' = {} /\ UNCHANGED <<runs, spilled>>
              ELSE out' = << >> /\ table' = {} /\ runs' = << >> /\ spilled' = FALSE
           /\ NextStage(o)
     ELSE \E ch \in (IF table = {} THEN {[run |-> << >>, last |-> NONE]} ELSE SpillChoices(table, Desc)) :   \* spillTable(true), then readSpills(true)
        LET rs == IF table = {} THEN runs ELSE Append(runs, ch.run)
            r  == ReadSpills(rs, maxS, Desc, TRUE)
            o  == IF r.em = {} THEN out ELSE Append(out, r.em)
        IN /\ spl' = IF table = {} THEN spl ELSE Append(spl, <<stage, Cardinality(table)>>)
           /\ taint' = taint \cup TaintOfRows(r.em)
           /\ IF stage = "final" THEN out' = o /\ table' = {} /\ runs' = r.rs /\ UNCHANGED spilled
              ELSE out' = << >> /\ table' = {} /\ runs' = << >> /\ spilled' = FALSE
           /\ NextStage(o)
  /\ UNCHANGED <<cs, legref>>

\* ------------------------------------------------------------ export
Summary == [src |-> cs.src, mode |-> cs.mode, limit |-> cs.limit, keys |-> cs.keys, bat |-> cs.bat, b2 |-> cs.b2,
            out |-> out', legs |-> legout', spills |-> spl', taint |-> taint']

Step == AddRow \/ Start \/ Pull \/ Consume \/ EndBatch \/ Finish
Next == /\ Step
        /\ (Emit /\ stage' = "done") => PrintT(ToJson(Summary))

Spec == Init /\ [][Next]_vars

\* ------------------------------------------------------------ properties
\* reference rows of the aggregator currently running
RefRows == IF stage = "leg0" THEN legref[1] ELSE IF stage = "leg1" THEN legref[2] ELSE RowsOf(cs)
ExpVals(rows, k) == UNION {rows[i].vals : i \in {j \in 1..Len(rows) : rows[j].key = k}}
KeysIn(rows) == {rows[i].key : i \in 1..Len(rows)}

Emitted == UNION {out[i] : i \in 1..Len(out)}
EmittedCount == LET RECURSIVE Sum(_)
                    Sum(i) == IF i = 0 THEN 0 ELSE Cardinality(out[i]) + Sum(i - 1)
                IN Sum(Len(out))

\* Every emitted row -- including rows released before the end of input --
\* is final: one key identity, the aggregate over exactly that key's inputs,
\* and no key is emitted twice.
EmittedOK ==
  taint = {} =>
    LET rows == RefRows IN
    /\ \A r \in Emitted : r.ids = {r.rep} /\ r.vals = ExpVals(rows, r.rep)
    /\ Cardinality({r.rep : r \in Emitted}) = EmittedCount

\* The same for the finished partials-out aggregators.
LegRowsOK(o, rows) ==
  LET em == UNION {o[i] : i \in 1..Len(o)} IN
  /\ \A r \in em : r.ids = {r.rep} /\ r.vals = ExpVals(rows, r.rep)
  /\ {r.rep : r \in em} = KeysIn(rows)
LegsOK ==
  taint = {} =>
    /\ stage = "leg1" /\ ~inb /\ out = << >> /\ table = {} => LegRowsOK(legout[1], legref[1])
    /\ stage = "final" /\ cs.mode = "partials" /\ ~inb /\ out = << >> /\ table = {} => LegRowsOK(legout[2], legref[2])

\* At the end exactly the distinct keys of the input have been emitted.
Final ==
  (stage = "done" /\ taint = {}) => {r.rep : r \in Emitted} = KeysIn(RowsOf(cs))

\* the taints are exactly the known defect classes: nothing else may break
TaintsKnown == taint \subseteq {"merge", "release", "descnulls"}
\* "merge" needs two distinct keys that the comparator deems equal;
\* "release" needs a missing key next to a null key (or the descnulls path).
TaintJustified ==
  /\ "merge" \in taint => \E i, j \in 1..Len(cs.keys) : cs.keys[i] # cs.keys[j] /\ KCmp(cs.keys[i], cs.keys[j], FALSE) = 0
  /\ "release" \in taint => "descnulls" \in taint \/ \E i \in 1..Len(cs.keys) : cs.keys[i][1] = "MISS"
  /\ "descnulls" \in taint => /\ cs.src = "sortdesc"
                              /\ \E i, j \in 1..Len(cs.keys) : SRank(cs.keys[i][1]) = 6 /\ SRank(cs.keys[j][1]) # 6
=============================================================================
