------------------------------- MODULE VecAgg -------------------------------
(***************************************************************************)
(* C09 -- the vector runtime agrees with the sequential runtime.           *)
(*                                                                         *)
(* (i)  The planner rule compiler/optimizer/vam.go Vectorize, as coded,    *)
(*      over the abstract lake state of LakeAbs.tla (objects and vector    *)
(*      copies per commit): after Parallelize every scatter leg that is    *)
(*      `seqscan | summarize` with the shape count() by <field> or         *)
(*      sum(<field>) is replaced by the vector runtime iff EVERY object of *)
(*      the snapshot has a vector copy (isScanWithVectors); the pushed-    *)
(*      down filter of the scan is not looked at, and the vector scanner   *)
(*      (kernel/vop.go compileVamScan) does not apply it.                  *)
(* (ii) A column model of what the vector scanner hands to the two vector  *)
(*      aggregates (vng/primitive.go: const / dict / plain per record type *)
(*      of an object, nulls on the side) and runtime/vam/op/agg.go         *)
(*      CountByString.update / countByString / Sum.update AS CODED, next   *)
(*      to the sequential semantics of the same aggregates                 *)
(*      (runtime/sam/op/groupby, runtime/sam/expr/agg: Count, mathReducer  *)
(*      with coerce.Promote) as the reference.                             *)
(*                                                                         *)
(* The property: for every history of {load, vector add/delete, compact    *)
(* (+vectors), delete} and every query, the result the plan produces --    *)
(* vector legs when the rule fires, sequential legs otherwise -- is the    *)
(* sequential result, and the query does not fail.  Where agg.go deviates  *)
(* the state is tainted with the name of the deviation (known findings,    *)
(* DESIGN 2.4); the invariant is checked on untainted states and the       *)
(* as-coded prediction is exported for comparison with the real code.      *)
(***************************************************************************)
EXTENDS LakeAbs

CONSTANTS EmitMod,    \* export the histories with HistHash % EmitMod = EmitRem
          EmitRem,
          ColConfigs, \* sequence of [s |-> <<s_1..s_N>>, x |-> <<x_1..x_N>>]: the fields s and x of value id i
          NLegs,      \* scatter legs of the parallel plan (parallelism >= 2)
          MaxDict     \* vng.MaxDictSize (256)

VARIABLE cc           \* the column configuration of this behaviour (chosen in VInit, never changed)
ColS == ColConfigs[cc].s
ColX == ColConfigs[cc].x

\* ---------------------------------------------------------------- values
\* t: "str" | "int" | "uint" | "float" (n = 2 * value) | "nstr" null(string) |
\*    "nint" null(int64) | "null" untyped null | "miss" (field absent) |
\*    "emiss" error("missing") | "err" (the query failed)
T(t, n) == [t |-> t, n |-> n]
\* the type a field of this value has in its record type ("" = no such field)
TypeOf(v) == CASE v.t = "nstr" -> "str" [] v.t = "nint" -> "int" [] v.t = "miss" -> "" [] OTHER -> v.t
IsNullTok(v) == v.t \in {"nstr", "nint", "null"}

Val(f, i) == IF f = "s" THEN ColS[i] ELSE ColX[i]

\* a result: [kind |-> "rows", rows |-> set of [k, c]] | [kind |-> "val", val |-> token]
\*           | [kind |-> "err"] (the query failed) | [kind |-> "na"] (not modelled)
RRows(r) == [kind |-> "rows", rows |-> r, val |-> T("", 0)]
RVal(v)  == [kind |-> "val", rows |-> {}, val |-> v]
RErr     == [kind |-> "err", rows |-> {}, val |-> T("", 0)]
RNA      == [kind |-> "na", rows |-> {}, val |-> T("", 0)]


\* ---------------------------------------------------------------- sequential reference
\* groupby with key expression `s`: a missing key groups under error("missing")
KeyTok(v) == IF v.t = "miss" THEN T("emiss", 0) ELSE v
\* rows {s: key, count: n} as a set of [k, c]
SeqCountBy(ids) ==
  LET ks == {KeyTok(ColS[ids[i]]) : i \in 1..Len(ids)}
  IN {[k |-> key, c |-> Cardinality({i \in 1..Len(ids) : KeyTok(ColS[ids[i]]) = key})] : key \in ks}

RECURSIVE SumSeq(_)
SumSeq(s) == IF s = <<>> THEN 0 ELSE s[1] + SumSeq(Tail(s))
\* agg.mathReducer: the first typed value fixes the state type, coerce.Promote
\* widens it (int with uint -> int64, anything with float -> float64), values
\* that are not numbers are skipped, nulls only fix the type.
SeqSum(ids) ==
  LET xs  == TLCEval([i \in 1..Len(ids) |-> ColX[ids[i]]])
      num == SelectSeq(xs, LAMBDA v : v.t \in {"int", "uint", "float"})
      hasF == \E i \in 1..Len(num) : num[i].t = "float"
      hasI == \E i \in 1..Len(num) : num[i].t = "int"
      anyNint == \E i \in 1..Len(xs) : xs[i].t = "nint"
  IN IF num = <<>> THEN (IF anyNint THEN T("nint", 0) ELSE T("null", 0))
     ELSE IF hasF THEN T("float", SumSeq([i \in 1..Len(num) |-> IF num[i].t = "float" THEN num[i].n ELSE 2 * num[i].n]))
     ELSE IF hasI \/ anyNint THEN T("int", SumSeq([i \in 1..Len(num) |-> num[i].n]))
     ELSE T("uint", SumSeq([i \in 1..Len(num) |-> num[i].n]))

\* ---------------------------------------------------------------- column model
\* A data object stores its values grouped by record type (vng dynamic); the
\* vector scanner yields one record vector per type, in order of first
\* appearance.  A field's column is const (one distinct non-null value or none),
\* dict (2..MaxDict distinct) or plain; nulls are kept beside it.
Sig(i) == <<TypeOf(ColS[i]), TypeOf(ColX[i])>>
RECURSIVE SigOrder(_, _)
SigOrder(ids, seen) ==
  IF ids = <<>> THEN <<>>
  ELSE IF Sig(ids[1]) \in seen THEN SigOrder(Tail(ids), seen)
  ELSE <<Sig(ids[1])>> \o SigOrder(Tail(ids), seen \cup {Sig(ids[1])})
Group(ids, sg) == SelectSeq(ids, LAMBDA i : Sig(i) = sg)

\* what dot-expression `f` evaluates to on the record vector of one group
Column(grp, f) ==
  LET vals == TLCEval([j \in 1..Len(grp) |-> Val(f, grp[j])])
      typ  == TypeOf(vals[1])
      nonnull == SelectSeq(vals, LAMBDA v : ~IsNullTok(v))
      dist == {nonnull[j] : j \in 1..Len(nonnull)}
  IN [typ |-> typ, len |-> Len(vals), nulls |-> Len(vals) - Len(nonnull), dist |-> dist,
      cnt |-> [d \in dist |-> Cardinality({j \in 1..Len(nonnull) : nonnull[j] = d})],
      kind |-> IF typ = "" THEN "error"                      \* error("missing") vector
               ELSE IF Cardinality(dist) <= 1 THEN "const"
               ELSE IF Cardinality(dist) <= MaxDict THEN "dict" ELSE "plain"]

\* ---------------------------------------------------------------- vam/op/agg.go as coded
\* CountByString: state [tab: key string -> count, nulls, err]
EmptyCBS == [tab |-> <<>>, keys |-> {}, nulls |-> 0, err |-> FALSE]
Bump(st, key, n, assign) ==
  [st EXCEPT !.keys = @ \cup {key},
             !.tab = [k \in st.keys \cup {key} |->
                        IF k = key THEN (IF assign \/ key \notin st.keys THEN n ELSE st.tab[k] + n) ELSE st.tab[k]]]
RECURSIVE BumpAll(_, _, _, _)
BumpAll(st, ks, cnt, assign) ==
  IF ks = {} THEN st ELSE LET k == CHOOSE x \in ks : TRUE IN BumpAll(Bump(st, k, cnt[k], assign), ks \ {k}, cnt, assign)

CBSUpdate(st, col) ==
  IF st.err THEN st
  ELSE CASE col.kind = "error" -> [st EXCEPT !.err = TRUE]                 \* default: panic("UNKNOWN *vector.Error")
         [] col.kind = "const" ->                                          \* countFixed(vec *vector.Const)
              IF col.typ = "str" THEN
                   \* the constant is the one distinct value, or "" when every value is null;
                   \* vec.Length() counts the nulls too
                   Bump(st, IF col.dist = {} THEN T("str", 0) ELSE CHOOSE d \in col.dist : TRUE, col.len, FALSE)
              ELSE IF col.typ = "null" THEN [st EXCEPT !.nulls = @ + col.len]
              ELSE st                                                      \* any other type: not counted
         [] col.kind = "dict" ->                                           \* countDict: val.Any.(*vector.String), table[k] = counts[k]
              IF col.typ = "str" THEN BumpAll(st, col.dist, col.cnt, TRUE)
              ELSE [st EXCEPT !.err = TRUE]                                \* interface conversion panic
         [] col.kind = "plain" ->                                          \* count(vec *vector.String): table[k]++
              IF col.typ = "str" THEN BumpAll(st, col.dist, col.cnt, FALSE)
              ELSE [st EXCEPT !.err = TRUE]

\* Sum: state [sum, err]; only Int / Uint plain and dict vectors are added
SumUpdate(st, col) ==
  IF col.kind \in {"dict", "plain"} /\ col.typ \in {"int", "uint"}
  THEN st + SumSeq([j \in 1..Cardinality(col.dist) |-> LET d == SetToSeq(col.dist)[j] IN d.n * col.cnt[d]])
  ELSE st

\* one leg: the objects it pulled, in Lister order
RECURSIVE LegCBS(_, _)
LegCBS(st, os) ==
  IF os = <<>> THEN st
  ELSE LET ids == objs[os[1]]  sgs == SigOrder(ids, {})
           RECURSIVE G(_, _)
           G(s2, k) == IF k > Len(sgs) THEN s2 ELSE G(CBSUpdate(s2, Column(Group(ids, sgs[k]), "s")), k + 1)
       IN LegCBS(G(st, 1), Tail(os))
RECURSIVE LegSum(_, _)
LegSum(st, os) ==
  IF os = <<>> THEN st
  ELSE LET ids == objs[os[1]]  sgs == SigOrder(ids, {})
           RECURSIVE G(_, _)
           G(s2, k) == IF k > Len(sgs) THEN s2 ELSE G(SumUpdate(s2, Column(Group(ids, sgs[k]), "x")), k + 1)
       IN LegSum(G(st, 1), Tail(os))

\* materialize: rows {s: string, count}; the nulls row has a null(string) key
CBSRows(st) == {[k |-> key, c |-> st.tab[key]] : key \in st.keys} \cup (IF st.nulls > 0 THEN {[k |-> T("nstr", 0), c |-> st.nulls]} ELSE {})

\* the sequential tail `summarize partials-in`: counts of equal keys add up
CombineCounts(rowsets) ==
  LET all == UNION {rowsets[l] : l \in DOMAIN rowsets}
      ks  == {r.k : r \in all}
  IN {[k |-> key, c |-> SumSeq([l \in DOMAIN rowsets |-> LET m == {r \in rowsets[l] : r.k = key} IN IF m = {} THEN 0 ELSE (CHOOSE r \in m : TRUE).c])] : key \in ks}

\* asg: sequence (one entry per leg) of sequences of object ids
VamCountBy(asg) ==
  LET legs == [l \in 1..Len(asg) |-> LegCBS(EmptyCBS, asg[l])]
  IN IF \E l \in 1..Len(asg) : legs[l].err THEN RErr
     ELSE RRows(CombineCounts([l \in 1..Len(asg) |-> IF asg[l] = <<>> THEN {} ELSE CBSRows(legs[l])]))
\* every leg (even an idle one) emits {sum: int64}; the tail adds them with mathReducer
VamSum(asg) == RVal(T("int", SumSeq([l \in 1..Len(asg) |-> LegSum(0, asg[l])])))

\* ---------------------------------------------------------------- the planner rule
\* Queries: "cbs" count() by s | "sum" sum(x) | "fcbs" where <pred> | count() by s
\*          | "sumby" sum(x) by s (never vectorized) | "cbk" count() by <pool key>
Queries == {"cbs", "sum", "fcbs", "sumby", "cbk"}
ShapeOK(q) == q \in {"cbs", "sum", "fcbs", "cbk"}            \* IsCountByString / IsSum on seq[1]
\* isScanWithVectors: a non-empty snapshot all of whose objects have a vector copy
AllVectors(O, Vs) == O # {} /\ O \subseteq Vs
Vectorized(q, O, Vs) == NLegs >= 2 /\ ShapeOK(q) /\ AllVectors(O, Vs)

\* Lister order of a snapshot's objects (keys are unique and ascending in this
\* model: by smallest value id) and every way to hand them to NLegs legs
ObjLess(a, b) == objs[a][1] < objs[b][1]
ListOrder(O) == SetToSortSeq(O, ObjLess)
Assignments(O) ==
  LET lo == ListOrder(O)
  IN {[l \in 1..NLegs |-> SelectSeq(lo, LAMBDA o : f[o] = l)] : f \in [O -> 1..NLegs]}

FlatIds(O) == LET lo == ListOrder(O) IN FlattenSeq(TLCEval([i \in 1..Len(lo) |-> objs[lo[i]]]))
\* the filter of "fcbs": x == 2 (numeric equality across int, uint and float)
PredOK(i) == ColX[i] \in {T("int", 2), T("uint", 2), T("float", 4)}

SeqResult(q, O) ==
  CASE q = "cbs"  -> RRows(SeqCountBy(FlatIds(O)))
    [] q = "sum"  -> RVal(SeqSum(FlatIds(O)))
    [] q = "fcbs" -> RRows(SeqCountBy(SelectSeq(FlatIds(O), PredOK)))
    [] OTHER -> RNA

\* what the plan computes, as coded, for one assignment of objects to legs
PlanResult(q, O, Vs, asg) ==
  IF ~Vectorized(q, O, Vs) THEN SeqResult(q, O)
  ELSE CASE q = "cbs"  -> VamCountBy(asg)
         [] q = "fcbs" -> VamCountBy(asg)                    \* the scan filter is dropped
         [] q = "sum"  -> VamSum(asg)
         [] q = "cbk"  -> RErr                               \* the Slicer feeds meta.Partition values to vam's objectPuller
         [] OTHER -> RNA

\* ---------------------------------------------------------------- known deviations (taint)
\* narrow names: aggregate + column kind / plan feature
ColsOf(O, f) == {Column(Group(objs[o], sg), f) : <<o, sg>> \in {<<o2, s2>> \in O \X {Sig(i) : i \in Values} : Group(objs[o2], s2) # <<>>}}
TaintCBS(O, asg) ==
  LET cs == ColsOf(O, "s") IN
  (IF \E c \in cs : c.kind = "error" THEN {"countby:missing-field"} ELSE {})
  \cup (IF \E c \in cs : c.typ \notin {"str", "null", ""} /\ c.kind = "dict" THEN {"countby:nonstring-dict"} ELSE {})
  \cup (IF \E c \in cs : c.typ \notin {"str", "null", ""} /\ c.kind = "const" THEN {"countby:nonstring-const"} ELSE {})
  \cup (IF \E c \in cs : c.typ = "str" /\ c.nulls > 0 THEN {"countby:null-in-string-column"} ELSE {})
  \cup (IF \E c \in cs : c.typ = "null" THEN {"countby:untyped-null"} ELSE {})
  \cup (IF \E l \in 1..Len(asg) : \E a \in 1..Len(asg[l]) : \E b \in 1..Len(asg[l]) :
            /\ \/ a < b
               \/ a = b    \* two groups of one object
            /\ \E ca \in ColsOf({asg[l][a]}, "s") : \E cb \in ColsOf({asg[l][b]}, "s") :
                 (a < b \/ ca # cb) /\ cb.kind = "dict" /\ cb.typ = "str" /\ ca.typ = "str" /\ ca.dist \cap cb.dist # {}
        THEN {"countby:dict-overwrite"} ELSE {})
TaintSum(O) ==
  LET cs == ColsOf(O, "x")
      res == SeqSum(FlatIds(O)) IN
  (IF res.t = "float" THEN {"sum:float"} ELSE {})
  \cup (IF res.t = "uint" THEN {"sum:uint-result-type"} ELSE {})
  \cup (IF res.t \in {"null", "nint"} THEN {"sum:no-values"} ELSE {})
  \cup (IF \E c \in cs : c.kind = "const" /\ c.typ \in {"int", "uint"} /\ c.dist # {} THEN {"sum:const-column"} ELSE {})
Taint(q, O, Vs, asg) ==
  IF ~Vectorized(q, O, Vs) THEN {}
  ELSE CASE q = "cbs"  -> TaintCBS(O, asg)
         [] q = "fcbs" -> TaintCBS(O, asg) \cup (IF \E i \in ToSet(FlatIds(O)) : ~PredOK(i) THEN {"vectorize:filter-dropped"} ELSE {})
         [] q = "sum"  -> TaintSum(O)
         [] q = "cbk"  -> {"vectorize:pool-key-partitions"}
         [] OTHER -> {}

\* ---------------------------------------------------------------- the property over LakeAbs histories
Snap(b) == Fold(tip[b])
\* every plan result equals the sequential result unless a named deviation applies
VecAgrees ==
  \A q \in {"cbs", "sum", "fcbs"} :
    LET s == Snap("main") IN
    \* (when the rule does not fire the plan IS the sequential plan)
    (s.ok /\ Vectorized(q, s.o, s.v \cap s.o)) =>
      LET ref == SeqResult(q, s.o) IN
      \A asg \in Assignments(s.o) :
         Taint(q, s.o, s.v \cap s.o, asg) = {} => PlanResult(q, s.o, s.v \cap s.o, asg) = ref
\* adding or removing vector copies never changes a result: two commits with the
\* same objects have the same results whatever their vector sets
VectorsIrrelevant ==
  \* (the newest commit against every older one; older pairs were checked in earlier states)
  LET c2 == Len(commits) IN
  \A c1 \in 1..(c2 - 1) :
    (Fold(c1).ok /\ Fold(c2).ok /\ Fold(c1).o = Fold(c2).o /\ Fold(c1).v \cap Fold(c1).o # Fold(c2).v \cap Fold(c2).o) =>
      \A q \in {"cbs", "sum", "fcbs"} : \A asg \in Assignments(Fold(c1).o) :
        (Taint(q, Fold(c1).o, Fold(c1).v \cap Fold(c1).o, asg) = {} /\ Taint(q, Fold(c2).o, Fold(c2).v \cap Fold(c2).o, asg) = {})
          => PlanResult(q, Fold(c1).o, Fold(c1).v \cap Fold(c1).o, asg) = PlanResult(q, Fold(c2).o, Fold(c2).v \cap Fold(c2).o, asg)

VInit == Init /\ cc \in 1..Len(ColConfigs)
VNext == Next /\ UNCHANGED cc
VSpec == VInit /\ [][VNext]_<<vars, cc>>

\* ---------------------------------------------------------------- export
ResJson(r) == [kind |-> r.kind, rows |-> SetToSeq(r.rows), val |-> r.val]
\* predictions for step i of the history: per query, whether the rule fires, the
\* sequential result, and for two canonical leg assignments (all objects to leg 1;
\* round robin) the as-coded result and the taint
StepPred(i) ==
  LET O  == hist[i].objsOf["main"]
      Vs == hist[i].vecsOf["main"]
      lo == ListOrder(O)
      one == [l \in 1..NLegs |-> IF l = 1 THEN lo ELSE <<>>]
      rr  == [l \in 1..NLegs |-> SelectSeq(lo, LAMBDA o : \E j \in 1..Len(lo) : lo[j] = o /\ ((j - 1) % NLegs) + 1 = l)]
  IN [q \in {"cbs", "sum", "fcbs", "cbk"} |->
        [vec |-> Vectorized(q, O, Vs), seq |-> ResJson(SeqResult(q, O)), order |-> lo,
         one |-> [res |-> ResJson(PlanResult(q, O, Vs, one)), taint |-> Taint(q, O, Vs, one), asg |-> one],
         rr  |-> [res |-> ResJson(PlanResult(q, O, Vs, rr)), taint |-> Taint(q, O, Vs, rr), asg |-> rr]]]
HistHash == cc + Len(commits) * 3 + Len(objs) * 5 + Cardinality(present) * 7
            + SumSeq([i \in 1..Len(hist) |-> i * (CASE hist[i].op = "load" -> 1 [] hist[i].op = "addvec" -> 2 [] hist[i].op = "delvec" -> 3
                                                     [] hist[i].op = "compact" -> 4 [] OTHER -> 5) + (IF hist[i].res = "ok" THEN 11 ELSE 0)])
VecExport == (Len(hist) = MaxOps /\ HistHash % EmitMod = EmitRem) =>
               PrintT(<<"VHIST", ToJson([cc |-> cc, hist |-> hist, pred |-> [i \in 1..Len(hist) |-> IF hist[i].readable["main"] THEN StepPred(i) ELSE <<>>]])>>)
=============================================================================
