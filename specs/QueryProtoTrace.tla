-------------------------- MODULE QueryProtoTrace --------------------------
(***************************************************************************)
(* Trace validation for C19: what a client of the real lake service        *)
(* observed on a /query response is checked against QueryProto.tla.        *)
(* Many traces are concatenated in trace.ndjson.  Each starts with         *)
(*   begin{t, inband, ctrl, fate, prod}                                    *)
(* where fate and prod come from DIRECT access (the same query on the      *)
(* local twin lake: did Query()/Pull() return an error, and which values   *)
(* per channel in which order), followed by what the remote client saw:    *)
(*   http{code} cset{ch} val{u} cend{ch} stats error eof status{err}       *)
(* and end{cerr} (did the client report an error to its caller).           *)
(*                                                                         *)
(* The server's actions are silent steps of QueryProto (taken only when    *)
(* the wire is empty and only if the first frame they emit is the one the  *)
(* client saw next, value frames one value at a time); the client's        *)
(* actions are bound to the events.  Two deviations of the server are      *)
(* admitted so that a property-relevant misbehaviour reaches "end" and is  *)
(* JUDGED instead of merely refused: FailDropped (the in-band error frame  *)
(* is missing) and a status poll that does not return the recorded error   *)
(* (the observed answer is what the client acts on).  At "end" the         *)
(* properties of QueryProto are evaluated on the reached state and printed *)
(* as a VERDICT line.  Any other mismatch leaves the trace unexplained:    *)
(* the high-water mark stops at the offending event.                       *)
(***************************************************************************)
EXTENDS QueryProto, Json

VARIABLES l,        \* index of the next event
          tr,       \* id of the trace being replayed
          fin,      \* the current trace reached its "end" event
          dev       \* deviations taken (ghost): subset of {"error-frame-dropped", "status-lost", "status-spurious"}

Trace == ndJsonDeserialize("trace.ndjson")
tvars == <<vars, l, tr, fin, dev>>

Ev == Trace[l]
IsEvent(e) == l <= Len(Trace) /\ Ev.e = e

Step == l' = l + 1 /\ TLCSet(1, IF TLCGet(1) < l THEN l ELSE TLCGet(1))

\* does frame f explain the event the client recorded next?
Matches(f, ev) ==
  CASE f.t = "http"  -> ev.e = "http" /\ ev.code = f.a
    [] f.t = "cset"  -> ev.e = "cset" /\ ev.ch = f.a
    [] f.t = "cend"  -> ev.e = "cend" /\ ev.ch = f.a
    [] f.t = "vals"  -> ev.e = "val" /\ f.vs = <<ev.u>>
    [] f.t = "stats" -> ev.e = "stats"
    [] f.t = "error" -> ev.e = "error"
    [] f.t = "eof"   -> ev.e = "eof"
    [] OTHER -> FALSE

TInit ==
  /\ l = 1 /\ tr = 0 /\ fin = TRUE /\ dev = {}
  /\ InitWith([inband |-> FALSE, ctrl |-> FALSE, fate |-> "ok"], [ch \in {"main"} |-> <<>>])
  /\ TLCSet(1, 0)

\* "begin": (re)initialise everything for the next trace
Begin ==
  /\ IsEvent("begin") /\ fin
  /\ LET c == [inband |-> Ev.inband, ctrl |-> Ev.ctrl, fate |-> Ev.fate]
         p == Ev.prod IN
     /\ cfg' = c /\ prod' = p
     /\ sstate' = "setup" /\ sent' = [ch \in DOMAIN p |-> 0] /\ ended' = {}
     /\ wchan' = Unlab /\ nstats' = 0 /\ qstatus' = ""
     /\ wire' = <<>> /\ whist' = <<>>
     /\ cstate' = "wait" /\ cchan' = Unlab
     /\ got' = [x \in (DOMAIN p) \cup {Unlab} |-> <<>>]
     /\ ceoc' = {} /\ cerr' = FALSE
  /\ tr' = Ev.t /\ fin' = FALSE /\ dev' = {}
  /\ Step

\* the in-band error frame is missing although control frames are on (deviation)
FailDropped ==
  /\ sstate = "streaming" /\ cfg.fate = "fail" /\ Labelled
  /\ sstate' = "failed" /\ qstatus' = "error"
  /\ Emit(<<F("eof", "")>>)
  /\ UNCHANGED <<sent, ended, wchan, nstats>>

\* a silent server step; unlabelled timer frames are invisible and have no effect: left out
Srv ==
  /\ ~fin /\ wire = <<>> /\ l <= Len(Trace)
  /\ \/ /\ \/ SetupFail \/ SetupOK \/ Finish \/ Fail
           \/ (Labelled /\ Stats)
           \/ \E ch \in Chans : EndChan(ch) \/ SendVals(ch, 1)
        /\ dev' = dev
     \/ FailDropped /\ dev' = dev \cup {"error-frame-dropped"}
  /\ (wire' # <<>> => Matches(Head(wire'), Ev))
  /\ UNCHANGED <<cfg, prod, cvars, l, tr, fin>>

\* the client consumes the frame it recorded
Cli ==
  /\ ~fin /\ wire # <<>> /\ l <= Len(Trace) /\ Matches(Head(wire), Ev)
  /\ CHttp \/ CCset \/ CVals \/ CCend \/ CStats \/ CError \/ CEof
  /\ UNCHANGED <<cfg, prod, svars, tr, fin, dev>>
  /\ Step

\* GET /query/status: the client acts on the answer it got
Poll ==
  /\ ~fin /\ IsEvent("status") /\ cstate = "eof"
  /\ cerr' = (cerr \/ Ev.err)
  /\ cstate' = "done"
  /\ dev' = dev \cup (IF Ev.err = (qstatus = "error") THEN {}
                      ELSE IF Ev.err THEN {"status-spurious"} ELSE {"status-lost"})
  /\ UNCHANGED <<cfg, prod, svars, wire, whist, cchan, got, ceoc, tr, fin>>
  /\ Step

\* at "end" the client's own report must be the one the frames imply, and the
\* properties are evaluated on the state the real execution reached
PropErrIff == cerr <=> ServerErr
PropComplete == cerr \/ (IF Labelled THEN (\A ch \in Chans : got[ch] = prod[ch]) /\ ceoc = Chans
                         ELSE \A ch \in Chans : Proj(got[Unlab], ch) = prod[ch])
End ==
  /\ ~fin /\ IsEvent("end")
  /\ cstate = "done" \/ (cstate = "eof" /\ Labelled) \/ (cstate = "reading" /\ cerr)
  /\ Ev.cerr = cerr
  /\ PrintT(<<"VERDICT", tr, PropErrIff, PropComplete, Ordered, WireOK, ToJson(dev)>>)
  /\ fin' = TRUE
  /\ UNCHANGED <<vars, tr, dev>>
  /\ Step

TNext == Begin \/ Srv \/ Cli \/ Poll \/ End
TSpec == TInit /\ [][TNext]_tvars

\* the invariants of the protocol hold in every state of every explained trace
TOrdered == fin \/ Ordered
TWireOK == fin \/ WireOK

Accepted == TLCGet(1) = Len(Trace)
HighWater == PrintT(<<"HIGHWATER", TLCGet(1), Len(Trace)>>)
Post == HighWater
=============================================================================
