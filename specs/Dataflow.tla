------------------------------ MODULE Dataflow ------------------------------
(***************************************************************************)
(* C07 -- reference semantics of a bounded fragment of the Zed dataflow     *)
(* language, used to decide whether the optimizer's rewrites               *)
(* (specs/Rewrite.tla) preserve program meaning.                           *)
(*                                                                         *)
(* Sem(ops, input) is a denotational semantics over sequences of small     *)
(* values.  It is written next to the runtime code it abstracts:           *)
(*   where/cut/drop/put/rename/yield  runtime/sam/expr (filter.go, cutter, *)
(*                                    dropper, putter, renamer)            *)
(*   sort                             runtime/sam/op/sort (stable; null    *)
(*                                    and missing keys tie; they are last  *)
(*                                    unless -nulls first, for asc and     *)
(*                                    desc alike)                          *)
(*   head/tail/uniq                   runtime/sam/op/{head,tail,uniq}      *)
(*   summarize                        runtime/sam/op/groupby (incl. the    *)
(*                                    partials-in/out decomposition and    *)
(*                                    the streaming release controlled by  *)
(*                                    InputSortDir)                        *)
(*   fork / switch / implicit combine compiler/kernel/op.go compileFork,   *)
(*                                    compileSwitch, compile (default case *)
(*                                    combines several parents)            *)
(*   merge                            runtime/sam/op/merge with the        *)
(*                                    comparator built in kernel/op.go     *)
(*                                    (nullsMax, missing as null)          *)
(*   join                             runtime/sam/op/join/join.go: New     *)
(*                                    (inserted sorts, comparator) and     *)
(*                                    Pull/getJoinSet/readJoinSet, step by *)
(*                                    step                                 *)
(*                                                                         *)
(* A stream is [s, cls, by]: a representative sequence s together with an    *)
(* ordered partition cls (a non-decreasing sequence of class ids, one per   *)
(* element): the admissible arrival orders are exactly the permutations of *)
(* s that only permute elements of the same class.  All classes singletons *)
(* (or made of identical values): the program defines the sequence         *)
(* (Ord).  One class: a bag.  by is a comparator under which every         *)
(* admissible order is sorted (NoCmp if none is known).  Operators with    *)
(* several parents read them through a combine, in arrival order, which    *)
(* the language leaves undefined: one class.  det = FALSE marks a          *)
(* program/input pair whose multiset of results is itself undefined (head, *)
(* tail cutting through a class, uniq over an undefined order); such pairs *)
(* are outside the property ("the same sequence wherever the program       *)
(* defines an order and the same multiset elsewhere").  poison = TRUE      *)
(* marks an execution in which the streaming group-by release can split a  *)
(* group in some admissible arrival order.                                 *)
(***************************************************************************)
EXTENDS Integers, Sequences, FiniteSets, TLC

\* ---------------------------------------------------------------- values
IntV(i) == [t |-> "int", n |-> i, fs |-> <<>>]
NULL    == [t |-> "null", n |-> 0, fs |-> <<>>]
ERR     == [t |-> "err", n |-> 0, fs |-> <<>>]     \* error("missing")
ErrOn(v) == [t |-> "errv", n |-> 0, fs |-> v.fs]  \* any other error value; it embeds the value it is about
RecV(fs) == [t |-> "rec", n |-> 0, fs |-> fs]      \* fs: sequence of [f, v], in field order
Fld(f, v) == [f |-> f, v |-> v]

HasField(v, f) == v.t = "rec" /\ \E i \in 1..Len(v.fs) : v.fs[i].f = f
FieldIx(v, f)  == CHOOSE i \in 1..Len(v.fs) : v.fs[i].f = f
\* Field reference: error("missing") when absent or when this is not a record.
Get(v, f) == IF HasField(v, f) THEN v.fs[FieldIx(v, f)].v ELSE ERR

Sign(d) == IF d < 0 THEN -1 ELSE IF d > 0 THEN 1 ELSE 0

\* ------------------------------------------------------------ comparators
\* A comparator is [f, desc, nf]: key field, direction, nulls first.
\*   sort op:            [f, desc XOR reverse, nullsFirst]         (sort.go)
\*   merge / join / group-by streaming:  nullsMax = TRUE with the operands
\*   swapped for desc, i.e. nulls last for asc and FIRST for desc = [f, desc, desc].
NoCmp == [f |-> "", desc |-> FALSE, nf |-> FALSE]
SortCmp(f, desc, nf) == [f |-> f, desc |-> desc, nf |-> nf]
MaxCmp(f, desc) == [f |-> f, desc |-> desc, nf |-> desc]

Nullish(k) == k.t # "int"          \* null, missing (and error values) tie as sort keys
CmpKey(c, kx, ky) ==
  IF Nullish(kx) /\ Nullish(ky) THEN 0
  ELSE IF Nullish(kx) THEN (IF c.nf THEN -1 ELSE 1)
  ELSE IF Nullish(ky) THEN (IF c.nf THEN 1 ELSE -1)
  ELSE IF c.desc THEN Sign(ky.n - kx.n) ELSE Sign(kx.n - ky.n)
Cmp(c, x, y) == CmpKey(c, Get(x, c.f), Get(y, c.f))

SortedBy(s, c) == \A i \in 1..Len(s) : \A j \in i+1..Len(s) : Cmp(c, s[i], s[j]) <= 0
TiesIdentical(s, c) == \A i \in 1..Len(s) : \A j \in i+1..Len(s) : Cmp(c, s[i], s[j]) = 0 => s[i] = s[j]

\* stable insertion sort
RECURSIVE InsertBefore(_, _, _)
InsertBefore(x, t, c) ==      \* x precedes every element it ties with
  IF t = <<>> THEN <<x>>
  ELSE IF Cmp(c, x, t[1]) <= 0 THEN <<x>> \o t
  ELSE <<t[1]>> \o InsertBefore(x, Tail(t), c)
RECURSIVE StableSort(_, _)
StableSort(s, c) == IF s = <<>> THEN <<>> ELSE InsertBefore(s[1], StableSort(Tail(s), c), c)

\* ---------------------------------------------------------------- streams
Ids(n) == [i \in 1..n |-> i]
Ones(n) == [i \in 1..n |-> 1]
\* w: the stream is handed over in a single batch (the output of a sort, possibly
\* passed through per-value operators); otherwise it may arrive value by value
Mk(s, cls, by) == [s |-> s, cls |-> cls, by |-> by, w |-> FALSE]
Whole(x) == [x EXCEPT !.w = TRUE]
Seqd(s) == Mk(s, Ids(Len(s)), NoCmp)          \* the sequence is defined
Bag(s)  == Mk(s, Ones(Len(s)), NoCmp)         \* only the multiset is defined
Ord(x) == \A i \in 1..Len(x.s) : \A j \in i+1..Len(x.s) : x.cls[i] = x.cls[j] => x.s[i] = x.s[j]
\* every admissible order is sorted by c
SortedAlways(x, c) == SortedBy(x.s, c) /\ \A i \in 1..Len(x.s) : \A j \in i+1..Len(x.s) :
                                            x.cls[i] = x.cls[j] => Cmp(c, x.s[i], x.s[j]) = 0
\* class ids after regrouping: element i joins the class of i-1 iff same(i-1, i)
ClsBy(n, same(_, _)) ==          \* same(i-1, i) => same class
  LET RECURSIVE F(_, _)
      F(i, prev) == IF i > n THEN <<>>
                    ELSE LET c == IF i > 1 /\ same(i - 1, i) THEN prev ELSE i IN <<c>> \o F(i + 1, c)
  IN F(1, 0)

RECURSIVE Concat(_)
Concat(ss) == IF ss = <<>> THEN <<>> ELSE ss[1] \o Concat(Tail(ss))

\* kernel compile(): an operator with several parents reads them through combine.New.
Combine(ps) == IF Len(ps) = 1 THEN ps[1] ELSE Bag(Concat([i \in 1..Len(ps) |-> ps[i].s]))

Count(x, s) == Cardinality({i \in 1..Len(s) : s[i] = x})
SeqRange(s) == {s[i] : i \in 1..Len(s)}
SameBag(s, t) == Len(s) = Len(t) /\ \A x \in SeqRange(s) : Count(x, s) = Count(x, t)

\* ------------------------------------------------------------- predicates
\* Predicates are three-valued plus "missing": "T", "F", "M" (error("missing")),
\* "E" (any other error, here: divide by zero).
\* Comparison with a literal (compileConstCompare -> expr.Comparison): a null
\* operand never matches (false), a missing operand is an error("missing").
\* 1/a: integer division; a null divisor counts as zero.
B3(b) == IF b THEN "T" ELSE "F"
Pred3(p, v) ==
  CASE p = "a>0"    -> LET x == Get(v, "a") IN IF x.t = "int" THEN B3(x.n > 0) ELSE IF x.t = "null" THEN "F" ELSE "M"
    [] p = "b<2"    -> LET x == Get(v, "b") IN IF x.t = "int" THEN B3(x.n < 2) ELSE IF x.t = "null" THEN "F" ELSE "M"
    [] p = "!(a>0)" -> LET x == Get(v, "a") IN IF x.t = "int" THEN B3(~(x.n > 0)) ELSE IF x.t = "null" THEN "T" ELSE "M"
    [] p = "1/a>0"  -> LET x == Get(v, "a") IN
                       IF x.t = "null" \/ (x.t = "int" /\ x.n = 0) THEN "E"
                       ELSE IF x.t = "int" THEN B3(x.n = 1) ELSE "M"
    [] p = "true"   -> "T"
PredT(p, v) == Pred3(p, v) = "T"
AllT(ps, v) == \A i \in 1..Len(ps) : PredT(ps[i], v)
ErrCapable(ps) == \E i \in 1..Len(ps) : ps[i] = "1/a>0"
DIVERR == [t |-> "errv", n |-> 1, fs |-> <<>>]      \* error("divide by zero")
\* The where operator (expr.filterApplier over the expr.And chain): the first
\* conjunct that is not true decides; false and missing drop the value, any
\* other error is passed downstream in place of the value.
RECURSIVE Conj3(_, _)
Conj3(ps, v) == IF ps = <<>> THEN "T"
                ELSE LET r == Pred3(ps[1], v) IN IF r = "T" THEN Conj3(Tail(ps), v) ELSE r
WhereOne(ps, v) == LET r == Conj3(ps, v) IN
                   IF r = "T" THEN <<v>> ELSE IF r = "E" THEN <<DIVERR>> ELSE <<>>

\* ---------------------------------------------------------- record helpers
SetField(v, l, x) ==       \* put: replace in place or append
  IF HasField(v, l) THEN RecV([i \in 1..Len(v.fs) |-> IF v.fs[i].f = l THEN Fld(l, x) ELSE v.fs[i]])
  ELSE RecV(Append(v.fs, Fld(l, x)))
DropField(v, f) == RecV(SelectSeq(v.fs, LAMBDA e : e.f # f))

\* one value through a stateless record operator; <<>> when the value is dropped.
\* Non-record values (error values) pass through the record operators as errors.
MapOne(op, v) ==
  IF v.t # "rec" THEN
       \* an error value: field references are missing; cut builds a record of them,
       \* put/drop/rename hand the value on unchanged
       CASE op.k = "where" -> WhereOne(op.ps, v)
         [] op.k = "cut"   -> <<RecV(<<Fld(op.l, ERR)>>)>>
         [] op.k = "yield" -> <<ERR>>
         [] OTHER -> <<v>>
  ELSE CASE op.k = "where"  -> WhereOne(op.ps, v)
    [] op.k = "cut"    -> <<RecV(<<Fld(op.l, Get(v, op.r))>>)>>
    [] op.k = "drop"   -> LET w == DropField(v, op.f) IN IF w.fs = <<>> THEN <<>> ELSE <<w>>
    [] op.k = "put"    -> <<SetField(v, op.l, Get(v, op.r))>>
    [] op.k = "rename" -> IF ~HasField(v, op.r) THEN <<v>>
                          ELSE IF HasField(v, op.l) THEN <<ErrOn(v)>>      \* error({message:"rename: duplicate field", on:v})
                          ELSE <<RecV([i \in 1..Len(v.fs) |-> IF v.fs[i].f = op.r THEN Fld(op.l, v.fs[i].v) ELSE v.fs[i]])>>
    [] op.k = "yield"  -> <<Get(v, op.f)>>
    [] op.k = "pass"   -> <<v>>

\* element-wise application keeping each survivor's class id: sequence of [v, c]
RECURSIVE MapPairs(_, _, _)
MapPairs(op, s, cls) ==
  IF s = <<>> THEN <<>>
  ELSE LET r == MapOne(op, s[1]) IN
       (IF r = <<>> THEN <<>> ELSE <<[v |-> r[1], c |-> cls[1]]>>) \o MapPairs(op, Tail(s), Tail(cls))

\* Does the record operator keep the sortedness claim by comparator c valid?
KeepsKey(op, c, s) ==
  \/ c = NoCmp
  \/ op.k = "pass"
  \/ op.k = "where" /\ \A i \in 1..Len(s) : Conj3(op.ps, s[i]) # "E"       \* no value turns into an error
  \/ op.k = "put" /\ op.l # c.f
  \/ op.k = "drop" /\ op.f # c.f
  \/ op.k = "rename" /\ op.r # c.f /\ op.l # c.f
       /\ \A i \in 1..Len(s) : ~(HasField(s[i], op.r) /\ HasField(s[i], op.l))     \* no value turns into an error
  \/ op.k = "cut" /\ op.l = c.f /\ op.r = c.f

RECURSIVE Uniq(_)
Uniq(s) == IF Len(s) <= 1 THEN s
           ELSE IF s[1] = s[2] THEN Uniq(Tail(s)) ELSE <<s[1]>> \o Uniq(Tail(s))

\* ------------------------------------------------------------- summarize
\* op = [k |-> "summ", agg |-> "count"|"sum", key |-> ""|name (LHS), kr |-> field (RHS), fn |-> ""|"floor",
\*       dir |-> -1|0|1 (InputSortDir), pin, pout |-> BOOLEAN]
\* The aggregated field is b; with partials-in the input records are partial
\* results {key, count|sum} which are summed (count's and sum's partial is a sum).
\* the group key of a value: the field kr, or fn(kr) -- floor of an int is that int, of null
\* null, of a missing operand an error value (not error("missing")); with partials-in the
\* key column of the partial result
FLOORERR == [t |-> "errv", n |-> 2, fs |-> <<>>]
KeyVal(op, v) ==
  IF op.pin THEN Get(v, op.key)
  ELSE LET x == Get(v, op.kr) IN IF op.fn # "" /\ x.t \notin {"int", "null"} THEN FLOORERR ELSE x
KeysOfOp(op, s) == [i \in 1..Len(s) |-> KeyVal(op, s[i])]
RECURSIVE DistinctSeq(_)
DistinctSeq(ks) ==      \* first-appearance order
  IF ks = <<>> THEN <<>>
  ELSE <<ks[1]>> \o DistinctSeq(SelectSeq(Tail(ks), LAMBDA k : k # ks[1]))
RECURSIVE SumInts(_, _)
SumInts(s, f) == IF s = <<>> THEN 0
                 ELSE (LET x == Get(s[1], f) IN IF x.t = "int" THEN x.n ELSE 0) + SumInts(Tail(s), f)
AnyInt(s, f) == \E i \in 1..Len(s) : Get(s[i], f).t = "int"
AggOf(op, grp) ==
  LET src == IF op.pin THEN op.agg ELSE "b" IN
  IF op.agg = "count" /\ ~op.pin THEN IntV(Len(grp))
  ELSE IF AnyInt(grp, src) THEN IntV(SumInts(grp, src)) ELSE NULL
Summ(op, s) ==
  IF op.key = "" THEN
       IF s = <<>> THEN <<>>
       ELSE IF op.pout THEN <<RecV(<<Fld(op.agg, AggOf(op, s))>>)>>     \* summarize partials-out; (yield follows the partials-in stage)
       ELSE <<AggOf(op, s)>>                                             \* summarize | yield count
  ELSE LET all == KeysOfOp(op, s)
           ks == DistinctSeq(all)
           grp(k) == LET ix == SelectSeq([i \in 1..Len(s) |-> i], LAMBDA i : all[i] = k) IN [j \in 1..Len(ix) |-> s[ix[j]]]
       IN [i \in 1..Len(ks) |-> RecV(<<Fld(op.key, ks[i]), Fld(op.agg, AggOf(op, grp(ks[i])))>>)]

\* groupby.go with InputSortDir # 0 (streaming release).  The aggregator tracks the
\* largest primary key seen (maxTableKey, under expr.NewValueCompareFn(o, nullsMax =
\* true): ints by value < error("missing") < null, operands swapped for desc); a row
\* remembers the maximum at its creation (groupval) and is released after a batch as
\* soon as groupval < maximum.  A key that shows up again after its row was released
\* starts a second row: the group is split.  Releasing after every value (1-value
\* batches) is the worst case -- coarser batches release at a subset of these points.
\* Over all admissible arrival orders this can happen iff some key k occurs at o1 and
\* again at o2 and a value e that can arrive between them has a key larger than k and
\* than everything that must have arrived before o1.
KAsc(x, y) ==
  IF x = y THEN 0
  ELSE IF x.t = "int" /\ y.t = "int" THEN Sign(x.n - y.n)
  ELSE IF x.t = "int" THEN -1
  ELSE IF y.t = "int" THEN 1
  ELSE IF x.t = "null" THEN 1 ELSE -1            \* err < null
KCmp(desc, x, y) == IF desc THEN KAsc(y, x) ELSE KAsc(x, y)
CanSplit(x, op, desc) ==
  LET ks == KeysOfOp(op, x.s)
      n == Len(ks)
  IN \E o1 \in 1..n : \E o2 \in 1..n : \E e \in 1..n :
        /\ o1 # o2 /\ e # o1 /\ e # o2
        /\ ks[o1] = ks[o2] /\ x.cls[o1] <= x.cls[o2]
        /\ x.cls[o1] <= x.cls[e] /\ x.cls[e] <= x.cls[o2]
        /\ KCmp(desc, ks[e], ks[o1]) > 0
        /\ \A p \in 1..n : x.cls[p] < x.cls[o1] => KCmp(desc, ks[e], ks[p]) > 0
\* a sort hands its whole output over in one batch: nothing is released in between
GroupedAlways(x, op, f, desc) ==
  \/ x.w /\ x.by # NoCmp /\ x.by.f = f /\ SortedBy(x.s, x.by)
  \/ ~CanSplit(x, op, desc)
\* input validity for declared sort keys (Rewrite.tla): equal keys are contiguous
Grouped(s, f) == \A i \in 1..Len(s) : \A j \in i+1..Len(s) :
                   Get(s[i], f) = Get(s[j], f) => \A m \in i..j : Get(s[m], f) = Get(s[i], f)

\* ------------------------------------------------------------------ join
\* op = [k |-> "join", style |-> "inner"|"left"|"anti"|"right", ldir, rdir |-> -1|0|1]
\* fixed clause: on a=a c:=b.  Transcribes join.New + Op.Pull.
Splice(l, r) ==
  LET name == IF HasField(l, "c") THEN "c_2" ELSE "c"
  IN RecV(l.fs \o <<Fld(name, Get(r, "b"))>>)
JoinRun(op, lp, rp) ==
  LET swap == op.style = "right"
      L0 == IF swap THEN rp ELSE lp
      R0 == IF swap THEN lp ELSE rp
      ld == IF swap THEN op.rdir ELSE op.ldir
      rd == IF swap THEN op.ldir ELSE op.rdir
      desc == IF ld # 0 THEN ld < 0 ELSE IF rd # 0 THEN rd < 0 ELSE FALSE
      has(d) == IF desc THEN d < 0 ELSE d > 0                    \* Direction.HasOrder
      ins == SortCmp("a", desc, FALSE)                            \* sort.New(..., nullsFirst=false, reverse=false)
      L == IF has(ld) THEN L0 ELSE StableSort(L0, ins)
      R1 == IF has(rd) THEN R0 ELSE StableSort(R0, ins)
      R == SelectSeq(R1, LAMBDA v : Get(v, "a") # ERR)            \* right records with a missing key are skipped
      c == MaxCmp("a", desc)                                      \* expr.NewValueCompareFn(o, true)
      \* state: [i (left pos), j (right pos), jk (joinKey or ERR), js (joinSet), out]
      RECURSIVE Run(_)
      Run(st) ==
        IF st.i > Len(L) THEN st.out
        ELSE LET lrec == L[st.i]
                 key == Get(lrec, "a")
             IN IF key = ERR THEN Run([st EXCEPT !.i = st.i + 1])
                ELSE
                  \* getJoinSet(key)
                  LET reuse == st.jk # ERR /\ CmpKey(c, key, st.jk) = 0
                      \* skip right records whose key is smaller than key
                      RECURSIVE Skip(_)
                      Skip(j) == IF j > Len(R) THEN j
                                 ELSE IF CmpKey(c, key, Get(R[j], "a")) > 0 THEN Skip(j + 1) ELSE j
                      j1 == IF reuse THEN st.j ELSE Skip(st.j)
                      match == ~reuse /\ j1 <= Len(R) /\ CmpKey(c, key, Get(R[j1], "a")) = 0
                      RECURSIVE Take(_)
                      Take(j) == IF j > Len(R) THEN j
                                 ELSE IF CmpKey(c, Get(R[j], "a"), key) = 0 THEN Take(j + 1) ELSE j
                      j2 == IF match THEN Take(j1) ELSE j1
                      set == IF reuse THEN st.js
                             ELSE IF match THEN SubSeq(R, j1, j2 - 1) ELSE <<>>
                      found == reuse \/ match
                      \* readJoinSet returning an empty slice (nil) counts as "nothing to join"
                      has2 == found /\ set # <<>>
                      add == IF ~has2 THEN (IF op.style # "inner" THEN <<lrec>> ELSE <<>>)
                             ELSE IF op.style = "anti" THEN <<>>
                             ELSE [m \in 1..Len(set) |-> Splice(lrec, set[m])]
                  IN Run([i |-> st.i + 1, j |-> j2,
                          jk |-> IF match THEN key ELSE st.jk,
                          js |-> IF match THEN set ELSE st.js,
                          out |-> st.out \o add])
  IN Run([i |-> 1, j |-> 1, jk |-> ERR, js |-> <<>>, out |-> <<>>])

\* ----------------------------------------------------------- the semantics
\* state: [ps (parent streams), det, poison]
St(ps, det, poison) == [ps |-> ps, det |-> det, poison |-> poison]

\* all elements of the class of position i are identical
ClassUniform(x, i) == \A j \in 1..Len(x.s) : x.cls[j] = x.cls[i] => x.s[j] = x.s[i]
SubCls(cls, a, b) == [i \in 1..(b - a + 1) |-> cls[a + i - 1]]

RECURSIVE SemSeq(_, _)
SemOp(op, st) ==
  CASE op.k = "fork" ->
         LET x == Combine(st.ps)
             legs == [i \in 1..Len(op.legs) |-> SemSeq(op.legs[i], St(<<x>>, TRUE, FALSE))]
         IN St([i \in 1..Len(legs) |-> Combine(legs[i].ps)],
               st.det /\ \A i \in 1..Len(legs) : legs[i].det,
               st.poison \/ \E i \in 1..Len(legs) : legs[i].poison)
    [] op.k = "switch" ->
         \* switcher: a value goes to the first case whose predicate is true
         LET x == Combine(st.ps)
             goes(v, i) == PredT(op.cases[i].p, v) /\ \A m \in 1..(i-1) : ~PredT(op.cases[m].p, v)
             sub(i) == LET ix == SelectSeq(Ids(Len(x.s)), LAMBDA j : goes(x.s[j], i))
                       IN Mk([j \in 1..Len(ix) |-> x.s[ix[j]]], [j \in 1..Len(ix) |-> x.cls[ix[j]]], x.by)
             legs == [i \in 1..Len(op.cases) |-> SemSeq(op.cases[i].path, St(<<sub(i)>>, TRUE, FALSE))]
         IN St([i \in 1..Len(legs) |-> Combine(legs[i].ps)],
               st.det /\ \A i \in 1..Len(legs) : legs[i].det,
               st.poison \/ \E i \in 1..Len(legs) : legs[i].poison)
    [] op.k = "merge" ->
         \* merge.Op with cmp = NewComparator(nullsMax=true, key, order).WithMissingAsNull()
         LET c == MaxCmp(op.f, op.desc)
             all == Concat([i \in 1..Len(st.ps) |-> st.ps[i].s])
             legsSorted == \A i \in 1..Len(st.ps) : SortedAlways(st.ps[i], c)
         IN IF legsSorted
            THEN LET m == StableSort(all, c)
                     \* which leg goes first among equal keys is not defined: one class per key
                 IN St(<<Mk(m, ClsBy(Len(m), LAMBDA i, j : Cmp(c, m[i], m[j]) = 0), c)>>, st.det, st.poison)
            ELSE St(<<Bag(all)>>, st.det, st.poison)     \* merge never drops values; the order is garbage
    [] op.k = "join" ->
         IF Len(st.ps) # 2 THEN St(<<Bag(<<>>)>>, FALSE, st.poison)
         ELSE St(<<Bag(JoinRun(op, st.ps[1].s, st.ps[2].s))>>, st.det, st.poison)
    [] OTHER ->
         LET x == Combine(st.ps)
             n == Len(x.s)
         IN
         CASE op.k \in {"where", "cut", "drop", "put", "rename", "yield", "pass"} ->
                LET pr == MapPairs(op, x.s, x.cls) IN
                St(<<[Mk([i \in 1..Len(pr) |-> pr[i].v], [i \in 1..Len(pr) |-> pr[i].c],
                         IF KeepsKey(op, x.by, x.s) THEN x.by ELSE NoCmp) EXCEPT !.w = x.w]>>, st.det, st.poison)
           [] op.k = "cutcount" ->      \* cut c:=count(): a running count, in emission order
                St(<<Seqd([i \in 1..n |-> RecV(<<Fld("c", IntV(i))>>)])>>, st.det, st.poison)
           [] op.k = "sort" ->
                \* stable: equal keys keep their arrival order, which is defined iff they
                \* arrived in different classes
                LET c == SortCmp(op.f, op.desc # op.rev, op.nf)
                    \* sort positions by the key of their value (insertion sort on indices)
                    RECURSIVE Ins(_, _), SortIx(_)
                    Ins(i, t) == IF t = <<>> THEN <<i>>
                                 ELSE IF Cmp(c, x.s[i], x.s[t[1]]) <= 0 THEN <<i>> \o t
                                 ELSE <<t[1]>> \o Ins(i, Tail(t))
                    SortIx(ix) == IF ix = <<>> THEN <<>> ELSE Ins(ix[1], SortIx(Tail(ix)))
                    ix == SortIx(Ids(n))
                    m == [i \in 1..n |-> x.s[ix[i]]]
                    oc == [i \in 1..n |-> x.cls[ix[i]]]
                IN St(<<Whole(Mk(m, ClsBy(n, LAMBDA i, j : Cmp(c, m[i], m[j]) = 0 /\ oc[i] = oc[j]), c))>>, st.det, st.poison)
           [] op.k = "head" ->
                LET k == IF op.n < n THEN op.n ELSE n IN
                St(<<[Mk(SubSeq(x.s, 1, k), SubCls(x.cls, 1, k), x.by) EXCEPT !.w = x.w]>>,
                   st.det /\ (n <= op.n \/ x.cls[k] # x.cls[k + 1] \/ ClassUniform(x, k)), st.poison)
           [] op.k = "tail" ->
                LET a == IF n > op.n THEN n - op.n + 1 ELSE 1 IN
                St(<<[Mk(SubSeq(x.s, a, n), SubCls(x.cls, a, n), x.by) EXCEPT !.w = x.w]>>,
                   st.det /\ (n <= op.n \/ x.cls[a - 1] # x.cls[a] \/ ClassUniform(x, a)), st.poison)
           [] op.k = "uniq" ->
                \* adjacent duplicates: defined when the sequence is
                LET u == Uniq(x.s) IN
                St(<<IF Ord(x) THEN Seqd(u) ELSE Bag(u)>>, st.det /\ Ord(x), st.poison)
           [] op.k = "summ" ->
                LET kf == IF op.pin THEN op.key ELSE op.kr
                    c == MaxCmp(kf, op.dir < 0)
                    \* with InputSortDir set and an input that really is sorted that way, groups are
                    \* released in key order (groupby.go sorts each released batch by the primary key)
                    sortedOut == op.dir # 0 /\ op.key # "" /\ SortedAlways(x, c)
                    out == Summ(op, x.s)
                    oc == MaxCmp(op.key, op.dir < 0)
                IN St(<<IF sortedOut THEN Mk(out, ClsBy(Len(out), LAMBDA i, j : Cmp(oc, out[i], out[j]) = 0), oc) ELSE Bag(out)>>,
                      st.det,
                      st.poison \/ (op.dir # 0 /\ op.key # "" /\ ~GroupedAlways(x, op, kf, op.dir < 0)))

SemSeq(ops, st) == IF ops = <<>> THEN st ELSE SemSeq(Tail(ops), SemOp(ops[1], st))

\* A program is [src |-> [filter |-> <<preds>>, sk |-> sort key], ops |-> <<...>>].
\* The source filter is the pushdown of zbuf.NewScanner: same evaluator as where,
\* but only values for which it is true are delivered (errors are not).
\* The declared sort key does not change what the source delivers.
Sem(prog, input) ==
  LET s0 == SelectSeq(input, LAMBDA v : AllT(prog.src.filter, v))
      r == SemSeq(prog.ops, St(<<Seqd(s0)>>, TRUE, FALSE))
      out == Combine(r.ps)
      ord == Ord(out)
  IN [s |-> out.s, cls |-> out.cls, ord |-> ord, by |-> IF ord THEN NoCmp ELSE out.by, det |-> r.det, poison |-> r.poison]

\* ref is the meaning of the program as analyzed, opt that of the rewritten one.
Equiv(ref, opt) ==
  /\ ~opt.poison
  /\ opt.det
  /\ SameBag(ref.s, opt.s)
  /\ ref.ord => (opt.ord /\ opt.s = ref.s)
  /\ (~ref.ord /\ ref.by # NoCmp) => SortedAlways(opt, ref.by)
=============================================================================
