------------------------------ MODULE Dataflow ------------------------------
(***************************************************************************)
(* C07 -- reference semantics of a bounded fragment of the Zed dataflow     *)
(* language, used to decide whether the optimizer's rewrites               *)
(* (specs/Rewrite.tla) preserve program meaning.                           *)
(*                                                                         *)
(* Sem(ops, input) is a denotational semantics over sequences of small     *)
(* values.  It is written next to the runtime code it abstracts:           *)
(*   where/cut/drop/put/rename/yield  runtime/sam/expr (filter.go, cutter, *)
(*                                    dropper, putter, renamer)            *)
(*   sort                             runtime/sam/op/sort (stable; null    *)
(*                                    and missing keys tie; they are last  *)
(*                                    unless -nulls first, for asc and     *)
(*                                    desc alike)                          *)
(*   head/tail/uniq                   runtime/sam/op/{head,tail,uniq}      *)
(*   summarize                        runtime/sam/op/groupby (incl. the    *)
(*                                    partials-in/out decomposition and    *)
(*                                    the streaming release controlled by  *)
(*                                    InputSortDir)                        *)
(*   fork / switch / implicit combine compiler/kernel/op.go compileFork,   *)
(*                                    compileSwitch, compile (default case *)
(*                                    combines several parents)            *)
(*   merge                            runtime/sam/op/merge with the        *)
(*                                    comparator built in kernel/op.go     *)
(*                                    (nullsMax, missing as null)          *)
(*   join                             runtime/sam/op/join/join.go: New     *)
(*                                    (inserted sorts, comparator) and     *)
(*                                    Pull/getJoinSet/readJoinSet, step by *)
(*                                    step                                 *)
(*                                                                         *)
(* A stream is [s, ord, by]: a representative sequence s, ord = TRUE iff   *)
(* the program defines exactly this sequence, and (when ord = FALSE) by =  *)
(* a comparator such that every admissible ordering is s permuted inside   *)
(* tie classes of that comparator (NoCmp: any permutation, i.e. a bag).    *)
(* Operators with several parents combine them in arrival order, which the *)
(* language leaves undefined: the result is a bag.  det = FALSE marks a    *)
(* program/input pair whose multiset of results is itself undefined (head, *)
(* tail or uniq applied to a stream whose order is undefined); such pairs  *)
(* are outside the property ("the same sequence wherever the program       *)
(* defines an order and the same multiset elsewhere").  poison = TRUE      *)
(* marks an execution in which an operator relies on an input order that   *)
(* the stream does not have (streaming group-by release on keys that are   *)
(* not contiguous).                                                        *)
(***************************************************************************)
EXTENDS Integers, Sequences, FiniteSets, TLC

\* ---------------------------------------------------------------- values
IntV(i) == [t |-> "int", n |-> i, fs |-> <<>>]
NULL    == [t |-> "null", n |-> 0, fs |-> <<>>]
ERR     == [t |-> "err", n |-> 0, fs |-> <<>>]     \* error("missing")
ErrOn(v) == [t |-> "errv", n |-> 0, fs |-> v.fs]  \* any other error value; it embeds the value it is about
RecV(fs) == [t |-> "rec", n |-> 0, fs |-> fs]      \* fs: sequence of [f, v], in field order
Fld(f, v) == [f |-> f, v |-> v]

HasField(v, f) == v.t = "rec" /\ \E i \in 1..Len(v.fs) : v.fs[i].f = f
FieldIx(v, f)  == CHOOSE i \in 1..Len(v.fs) : v.fs[i].f = f
\* Field reference: error("missing") when absent or when this is not a record.
Get(v, f) == IF HasField(v, f) THEN v.fs[FieldIx(v, f)].v ELSE ERR

Sign(d) == IF d < 0 THEN -1 ELSE IF d > 0 THEN 1 ELSE 0

\* ------------------------------------------------------------ comparators
\* A comparator is [f, desc, nf]: key field, direction, nulls first.
\*   sort op:            [f, desc XOR reverse, nullsFirst]         (sort.go)
\*   merge / join / group-by streaming:  nullsMax = TRUE with the operands
\*   swapped for desc, i.e. nulls last for asc and FIRST for desc = [f, desc, desc].
NoCmp == [f |-> "", desc |-> FALSE, nf |-> FALSE]
SortCmp(f, desc, nf) == [f |-> f, desc |-> desc, nf |-> nf]
MaxCmp(f, desc) == [f |-> f, desc |-> desc, nf |-> desc]

Nullish(k) == k.t # "int"          \* null, missing (and error values) tie as sort keys
CmpKey(c, kx, ky) ==
  IF Nullish(kx) /\ Nullish(ky) THEN 0
  ELSE IF Nullish(kx) THEN (IF c.nf THEN -1 ELSE 1)
  ELSE IF Nullish(ky) THEN (IF c.nf THEN 1 ELSE -1)
  ELSE IF c.desc THEN Sign(ky.n - kx.n) ELSE Sign(kx.n - ky.n)
Cmp(c, x, y) == CmpKey(c, Get(x, c.f), Get(y, c.f))

SortedBy(s, c) == \A i \in 1..Len(s) : \A j \in i+1..Len(s) : Cmp(c, s[i], s[j]) <= 0
TiesIdentical(s, c) == \A i \in 1..Len(s) : \A j \in i+1..Len(s) : Cmp(c, s[i], s[j]) = 0 => s[i] = s[j]

\* A stream known to be ordered by comparator b is also ordered by c when the two
\* differ only in null placement and there is no null/missing key.
Compat(b, c, s) == b = c \/ (b # NoCmp /\ b.f = c.f /\ b.desc = c.desc /\ \A i \in 1..Len(s) : ~Nullish(Get(s[i], c.f)))

\* stable insertion sort
RECURSIVE InsertBefore(_, _, _)
InsertBefore(x, t, c) ==      \* x precedes every element it ties with
  IF t = <<>> THEN <<x>>
  ELSE IF Cmp(c, x, t[1]) <= 0 THEN <<x>> \o t
  ELSE <<t[1]>> \o InsertBefore(x, Tail(t), c)
RECURSIVE StableSort(_, _)
StableSort(s, c) == IF s = <<>> THEN <<>> ELSE InsertBefore(s[1], StableSort(Tail(s), c), c)

\* ---------------------------------------------------------------- streams
Stream(s, ord, by) == [s |-> s, ord |-> ord \/ Len(s) <= 1, by |-> IF ord \/ Len(s) <= 1 THEN NoCmp ELSE by]
Bag(s) == Stream(s, FALSE, NoCmp)

RECURSIVE Concat(_)
Concat(ss) == IF ss = <<>> THEN <<>> ELSE ss[1] \o Concat(Tail(ss))

\* kernel compile(): an operator with several parents reads them through combine.New.
Combine(ps) == IF Len(ps) = 1 THEN ps[1] ELSE Bag(Concat([i \in 1..Len(ps) |-> ps[i].s]))

Count(x, s) == Cardinality({i \in 1..Len(s) : s[i] = x})
SeqRange(s) == {s[i] : i \in 1..Len(s)}
SameBag(s, t) == Len(s) = Len(t) /\ \A x \in SeqRange(s) : Count(x, s) = Count(x, t)

\* ------------------------------------------------------------- predicates
\* Predicates are three-valued plus "missing": "T", "F", "M" (error("missing")),
\* "E" (any other error, here: divide by zero).
\* Comparison with a literal (compileConstCompare -> expr.Comparison): a null
\* operand never matches (false), a missing operand is an error("missing").
\* 1/a: integer division; a null divisor counts as zero.
B3(b) == IF b THEN "T" ELSE "F"
Pred3(p, v) ==
  CASE p = "a>0"    -> LET x == Get(v, "a") IN IF x.t = "int" THEN B3(x.n > 0) ELSE IF x.t = "null" THEN "F" ELSE "M"
    [] p = "b<2"    -> LET x == Get(v, "b") IN IF x.t = "int" THEN B3(x.n < 2) ELSE IF x.t = "null" THEN "F" ELSE "M"
    [] p = "!(a>0)" -> LET x == Get(v, "a") IN IF x.t = "int" THEN B3(~(x.n > 0)) ELSE IF x.t = "null" THEN "T" ELSE "M"
    [] p = "1/a>0"  -> LET x == Get(v, "a") IN
                       IF x.t = "null" \/ (x.t = "int" /\ x.n = 0) THEN "E"
                       ELSE IF x.t = "int" THEN B3(x.n = 1) ELSE "M"
    [] p = "true"   -> "T"
PredT(p, v) == Pred3(p, v) = "T"
AllT(ps, v) == \A i \in 1..Len(ps) : PredT(ps[i], v)
ErrCapable(ps) == \E i \in 1..Len(ps) : ps[i] = "1/a>0"
DIVERR == [t |-> "errv", n |-> 1, fs |-> <<>>]      \* error("divide by zero")
\* The where operator (expr.filterApplier over the expr.And chain): the first
\* conjunct that is not true decides; false and missing drop the value, any
\* other error is passed downstream in place of the value.
RECURSIVE Conj3(_, _)
Conj3(ps, v) == IF ps = <<>> THEN "T"
                ELSE LET r == Pred3(ps[1], v) IN IF r = "T" THEN Conj3(Tail(ps), v) ELSE r
WhereOne(ps, v) == LET r == Conj3(ps, v) IN
                   IF r = "T" THEN <<v>> ELSE IF r = "E" THEN <<DIVERR>> ELSE <<>>

\* ---------------------------------------------------------- record helpers
SetField(v, l, x) ==       \* put: replace in place or append
  IF HasField(v, l) THEN RecV([i \in 1..Len(v.fs) |-> IF v.fs[i].f = l THEN Fld(l, x) ELSE v.fs[i]])
  ELSE RecV(Append(v.fs, Fld(l, x)))
DropField(v, f) == RecV(SelectSeq(v.fs, LAMBDA e : e.f # f))

\* one value through a stateless record operator; <<>> when the value is dropped.
\* Non-record values (error values) pass through the record operators as errors.
MapOne(op, v) ==
  IF v.t # "rec" THEN
       \* an error value: field references are missing; cut builds a record of them,
       \* put/drop/rename hand the value on unchanged
       CASE op.k = "where" -> WhereOne(op.ps, v)
         [] op.k = "cut"   -> <<RecV(<<Fld(op.l, ERR)>>)>>
         [] op.k = "yield" -> <<ERR>>
         [] OTHER -> <<v>>
  ELSE CASE op.k = "where"  -> WhereOne(op.ps, v)
    [] op.k = "cut"    -> <<RecV(<<Fld(op.l, Get(v, op.r))>>)>>
    [] op.k = "drop"   -> LET w == DropField(v, op.f) IN IF w.fs = <<>> THEN <<>> ELSE <<w>>
    [] op.k = "put"    -> <<SetField(v, op.l, Get(v, op.r))>>
    [] op.k = "rename" -> IF ~HasField(v, op.r) THEN <<v>>
                          ELSE IF HasField(v, op.l) THEN <<ErrOn(v)>>      \* error({message:"rename: duplicate field", on:v})
                          ELSE <<RecV([i \in 1..Len(v.fs) |-> IF v.fs[i].f = op.r THEN Fld(op.l, v.fs[i].v) ELSE v.fs[i]])>>
    [] op.k = "yield"  -> <<Get(v, op.f)>>
    [] op.k = "pass"   -> <<v>>

RECURSIVE MapSeq(_, _)
MapSeq(op, s) == IF s = <<>> THEN <<>> ELSE MapOne(op, s[1]) \o MapSeq(op, Tail(s))

\* Does the record operator keep the order by comparator c meaningful?
KeepsKey(op, c, s) ==
  \/ c = NoCmp
  \/ op.k \in {"where", "pass"}
  \/ op.k = "put" /\ op.l # c.f
  \/ op.k = "drop" /\ op.f # c.f
  \/ op.k = "rename" /\ op.r # c.f /\ op.l # c.f
       /\ \A i \in 1..Len(s) : ~(HasField(s[i], op.r) /\ HasField(s[i], op.l))     \* no value turns into an error
  \/ op.k = "cut" /\ op.l = c.f /\ op.r = c.f

RECURSIVE Uniq(_)
Uniq(s) == IF Len(s) <= 1 THEN s
           ELSE IF s[1] = s[2] THEN Uniq(Tail(s)) ELSE <<s[1]>> \o Uniq(Tail(s))

\* ------------------------------------------------------------- summarize
\* op = [k |-> "summ", agg |-> "count"|"sum", key |-> ""|name (LHS), kr |-> field (RHS),
\*       dir |-> -1|0|1 (InputSortDir), pin, pout |-> BOOLEAN]
\* The aggregated field is b; with partials-in the input records are partial
\* results {key, count|sum} which are summed (count's and sum's partial is a sum).
RECURSIVE DistinctKeys(_, _)
DistinctKeys(s, f) ==      \* group keys in first-appearance order
  IF s = <<>> THEN <<>>
  ELSE LET k == Get(s[1], f)
           rest == DistinctKeys(SelectSeq(Tail(s), LAMBDA v : Get(v, f) # k), f)
       IN <<k>> \o rest
RECURSIVE SumInts(_, _)
SumInts(s, f) == IF s = <<>> THEN 0
                 ELSE (LET x == Get(s[1], f) IN IF x.t = "int" THEN x.n ELSE 0) + SumInts(Tail(s), f)
AnyInt(s, f) == \E i \in 1..Len(s) : Get(s[i], f).t = "int"
AggOf(op, grp) ==
  LET src == IF op.pin THEN op.agg ELSE "b" IN
  IF op.agg = "count" /\ ~op.pin THEN IntV(Len(grp))
  ELSE IF AnyInt(grp, src) THEN IntV(SumInts(grp, src)) ELSE NULL
Summ(op, s) ==
  IF op.key = "" THEN
       IF s = <<>> THEN <<>>
       ELSE IF op.pout THEN <<RecV(<<Fld(op.agg, AggOf(op, s))>>)>>     \* summarize partials-out; (yield follows the partials-in stage)
       ELSE <<AggOf(op, s)>>                                             \* summarize | yield count
  ELSE LET kf == IF op.pin THEN op.key ELSE op.kr
           ks == DistinctKeys(s, kf)
       IN [i \in 1..Len(ks) |->
             RecV(<<Fld(op.key, ks[i]), Fld(op.agg, AggOf(op, SelectSeq(s, LAMBDA v : Get(v, kf) = ks[i])))>>)]

\* groupby.go: with InputSortDir # 0 a group is released as soon as a larger
\* primary key has been seen, so the result is right iff equal keys are
\* contiguous in every admissible arrival order.
\* (null and missing keys are different groups but tie under every comparator;
\* their interleaving inside a sorted run was not reproducible as a wrong result
\* on the real code and is not treated as one here.)
KC(k) == IF Nullish(k) THEN NULL ELSE k
GroupedC(s, f) == \A i \in 1..Len(s) : \A j \in i+1..Len(s) :
                   KC(Get(s[i], f)) = KC(Get(s[j], f)) => \A m \in i..j : KC(Get(s[m], f)) = KC(Get(s[i], f))
Grouped(s, f) == \A i \in 1..Len(s) : \A j \in i+1..Len(s) :
                   Get(s[i], f) = Get(s[j], f) => \A m \in i..j : Get(s[m], f) = Get(s[i], f)
GroupedAlways(x, f) ==
  \/ Cardinality({Get(x.s[i], f) : i \in 1..Len(x.s)}) <= 1
  \/ Cardinality({Get(x.s[i], f) : i \in 1..Len(x.s)}) = Len(x.s)      \* every key occurs once (e.g. the output of a summarize)
  \/ x.ord /\ GroupedC(x.s, f)
  \/ ~x.ord /\ x.by # NoCmp /\ x.by.f = f /\ SortedBy(x.s, x.by)

\* ------------------------------------------------------------------ join
\* op = [k |-> "join", style |-> "inner"|"left"|"anti"|"right", ldir, rdir |-> -1|0|1]
\* fixed clause: on a=a c:=b.  Transcribes join.New + Op.Pull.
Splice(l, r) ==
  LET name == IF HasField(l, "c") THEN "c_2" ELSE "c"
  IN RecV(l.fs \o <<Fld(name, Get(r, "b"))>>)
JoinRun(op, lp, rp) ==
  LET swap == op.style = "right"
      L0 == IF swap THEN rp ELSE lp
      R0 == IF swap THEN lp ELSE rp
      ld == IF swap THEN op.rdir ELSE op.ldir
      rd == IF swap THEN op.ldir ELSE op.rdir
      desc == IF ld # 0 THEN ld < 0 ELSE IF rd # 0 THEN rd < 0 ELSE FALSE
      has(d) == IF desc THEN d < 0 ELSE d > 0                    \* Direction.HasOrder
      ins == SortCmp("a", desc, FALSE)                            \* sort.New(..., nullsFirst=false, reverse=false)
      L == IF has(ld) THEN L0 ELSE StableSort(L0, ins)
      R1 == IF has(rd) THEN R0 ELSE StableSort(R0, ins)
      R == SelectSeq(R1, LAMBDA v : Get(v, "a") # ERR)            \* right records with a missing key are skipped
      c == MaxCmp("a", desc)                                      \* expr.NewValueCompareFn(o, true)
      \* state: [i (left pos), j (right pos), jk (joinKey or ERR), js (joinSet), out]
      RECURSIVE Run(_)
      Run(st) ==
        IF st.i > Len(L) THEN st.out
        ELSE LET lrec == L[st.i]
                 key == Get(lrec, "a")
             IN IF key = ERR THEN Run([st EXCEPT !.i = st.i + 1])
                ELSE
                  \* getJoinSet(key)
                  LET reuse == st.jk # ERR /\ CmpKey(c, key, st.jk) = 0
                      \* skip right records whose key is smaller than key
                      RECURSIVE Skip(_)
                      Skip(j) == IF j > Len(R) THEN j
                                 ELSE IF CmpKey(c, key, Get(R[j], "a")) > 0 THEN Skip(j + 1) ELSE j
                      j1 == IF reuse THEN st.j ELSE Skip(st.j)
                      match == ~reuse /\ j1 <= Len(R) /\ CmpKey(c, key, Get(R[j1], "a")) = 0
                      RECURSIVE Take(_)
                      Take(j) == IF j > Len(R) THEN j
                                 ELSE IF CmpKey(c, Get(R[j], "a"), key) = 0 THEN Take(j + 1) ELSE j
                      j2 == IF match THEN Take(j1) ELSE j1
                      set == IF reuse THEN st.js
                             ELSE IF match THEN SubSeq(R, j1, j2 - 1) ELSE <<>>
                      found == reuse \/ match
                      \* readJoinSet returning an empty slice (nil) counts as "nothing to join"
                      has2 == found /\ set # <<>>
                      add == IF ~has2 THEN (IF op.style # "inner" THEN <<lrec>> ELSE <<>>)
                             ELSE IF op.style = "anti" THEN <<>>
                             ELSE [m \in 1..Len(set) |-> Splice(lrec, set[m])]
                  IN Run([i |-> st.i + 1, j |-> j2,
                          jk |-> IF match THEN key ELSE st.jk,
                          js |-> IF match THEN set ELSE st.js,
                          out |-> st.out \o add])
  IN Run([i |-> 1, j |-> 1, jk |-> ERR, js |-> <<>>, out |-> <<>>])

\* ----------------------------------------------------------- the semantics
\* state: [ps (parent streams), det, poison]
St(ps, det, poison) == [ps |-> ps, det |-> det, poison |-> poison]

RECURSIVE SemSeq(_, _)
SemOp(op, st) ==
  CASE op.k = "fork" ->
         LET x == Combine(st.ps)
             legs == [i \in 1..Len(op.legs) |-> SemSeq(op.legs[i], St(<<x>>, TRUE, FALSE))]
         IN St([i \in 1..Len(legs) |-> Combine(legs[i].ps)],
               st.det /\ \A i \in 1..Len(legs) : legs[i].det,
               st.poison \/ \E i \in 1..Len(legs) : legs[i].poison)
    [] op.k = "switch" ->
         \* switcher: a value goes to the first case whose predicate is true
         LET x == Combine(st.ps)
             goes(v, i) == PredT(op.cases[i].p, v) /\ \A m \in 1..(i-1) : ~PredT(op.cases[m].p, v)
             legs == [i \in 1..Len(op.cases) |->
                        SemSeq(op.cases[i].path,
                               St(<<Stream(SelectSeq(x.s, LAMBDA v : goes(v, i)), x.ord, x.by)>>, TRUE, FALSE))]
         IN St([i \in 1..Len(legs) |-> Combine(legs[i].ps)],
               st.det /\ \A i \in 1..Len(legs) : legs[i].det,
               st.poison \/ \E i \in 1..Len(legs) : legs[i].poison)
    [] op.k = "merge" ->
         \* merge.Op with cmp = NewComparator(nullsMax=true, key, order).WithMissingAsNull()
         LET c == MaxCmp(op.f, op.desc)
             all == Concat([i \in 1..Len(st.ps) |-> st.ps[i].s])
             legsSorted == \A i \in 1..Len(st.ps) :
                              LET p == st.ps[i] IN
                              SortedBy(p.s, c) /\ (p.ord \/ Compat(p.by, c, p.s))
         IN IF legsSorted
            THEN LET m == StableSort(all, c) IN St(<<Stream(m, TiesIdentical(m, c), c)>>, st.det, st.poison)
            ELSE St(<<Bag(all)>>, st.det, st.poison)     \* merge never drops values; the order is garbage
    [] op.k = "join" ->
         IF Len(st.ps) # 2 THEN St(<<Bag(<<>>)>>, FALSE, st.poison)
         ELSE St(<<Bag(JoinRun(op, st.ps[1].s, st.ps[2].s))>>, st.det, st.poison)
    [] OTHER ->
         LET x == Combine(st.ps) IN
         CASE op.k \in {"where", "cut", "drop", "put", "rename", "yield", "pass"} ->
                St(<<Stream(MapSeq(op, x.s), x.ord, IF KeepsKey(op, x.by, x.s) THEN x.by ELSE NoCmp)>>, st.det, st.poison)
           [] op.k = "cutcount" ->      \* cut c:=count(): a running count, in emission order
                St(<<Stream([i \in 1..Len(x.s) |-> RecV(<<Fld("c", IntV(i))>>)], TRUE, NoCmp)>>, st.det, st.poison)
           [] op.k = "sort" ->
                LET c == SortCmp(op.f, op.desc # op.rev, op.nf)
                    m == StableSort(x.s, c)
                IN St(<<Stream(m, TiesIdentical(m, c), c)>>, st.det, st.poison)
           [] op.k = "head" ->
                St(<<Stream(SubSeq(x.s, 1, IF op.n < Len(x.s) THEN op.n ELSE Len(x.s)), x.ord, x.by)>>,
                   st.det /\ (x.ord \/ Len(x.s) <= op.n), st.poison)
           [] op.k = "tail" ->
                St(<<Stream(SubSeq(x.s, IF Len(x.s) > op.n THEN Len(x.s) - op.n + 1 ELSE 1, Len(x.s)), x.ord, x.by)>>,
                   st.det /\ (x.ord \/ Len(x.s) <= op.n), st.poison)
           [] op.k = "uniq" ->
                St(<<Stream(Uniq(x.s), x.ord, x.by)>>, st.det /\ x.ord, st.poison)
           [] op.k = "summ" ->
                LET kf == IF op.pin THEN op.key ELSE op.kr
                    c == MaxCmp(kf, op.dir < 0)
                    \* with InputSortDir set and an input that really is sorted that way, groups are
                    \* released in key order (groupby.go sorts each released batch by the primary key)
                    sortedOut == op.dir # 0 /\ op.key # "" /\ SortedBy(x.s, c) /\ (x.ord \/ Compat(x.by, c, x.s))
                    out == Summ(op, x.s)
                    oc == MaxCmp(op.key, op.dir < 0)
                IN St(<<IF sortedOut THEN Stream(out, TiesIdentical(out, oc), oc) ELSE Bag(out)>>, st.det,
                      st.poison \/ (op.dir # 0 /\ op.key # "" /\ ~GroupedAlways(x, kf)))

SemSeq(ops, st) == IF ops = <<>> THEN st ELSE SemSeq(Tail(ops), SemOp(ops[1], st))

\* A program is [src |-> [filter |-> <<preds>>, sk |-> sort key], ops |-> <<...>>].
\* The source filter is the pushdown of zbuf.NewScanner: same evaluator as where,
\* but only values for which it is true are delivered (errors are not).
\* The declared sort key does not change what the source delivers.
Sem(prog, input) ==
  LET s0 == SelectSeq(input, LAMBDA v : AllT(prog.src.filter, v))
      r == SemSeq(prog.ops, St(<<Stream(s0, TRUE, NoCmp)>>, TRUE, FALSE))
      out == Combine(r.ps)
  IN [s |-> out.s, ord |-> out.ord, by |-> out.by, det |-> r.det, poison |-> r.poison]

\* ref is the meaning of the program as analyzed, opt that of the rewritten one.
Equiv(ref, opt) ==
  /\ ~opt.poison
  /\ opt.det
  /\ SameBag(ref.s, opt.s)
  /\ ref.ord => (opt.ord /\ opt.s = ref.s)
  /\ (~ref.ord /\ ref.by # NoCmp) => (SortedBy(opt.s, ref.by) /\ (opt.ord \/ Compat(opt.by, ref.by, opt.s)))
=============================================================================
