------------------------------ MODULE SortSpill ------------------------------
(***************************************************************************)
(* C06 (part 2) -- the sort operator outputs the stable sort of its input  *)
(* whether or not the input fits in memory.                                *)
(*                                                                         *)
(* Transcription of                                                        *)
(*   runtime/sam/op/sort/sort.go   Op.run / append / send / sendSpills     *)
(*   runtime/sam/op/spill/merge.go MergeSort.Spill / Read / Less           *)
(*   runtime/sam/op/spill/peeker.go (one head value per run)               *)
(*                                                                         *)
(* A behaviour is fixed by its initial state: a sequence of n <= MaxN      *)
(* (or one of the larger inputs listed in InputFile)                       *)
(* values, value i (its arrival index is its identity) carrying the key    *)
(* class keys[i] \in 1..K of an abstract total preorder 1 < 2 < .. < K,    *)
(* cut into <= MaxB non-empty batches (sizes), and a memory limit counted  *)
(* in values (the harness pads every real record to the same byte length B *)
(* and sets sort.MemMaxBytes = limit * B).                                 *)
(*                                                                         *)
(* TLC checks for ALL such inputs and limits that the output is the stable *)
(* sort (Ref), that runs are stably sorted, that no value is lost or       *)
(* duplicated, and prints every finished behaviour                         *)
(*    <<keys, sizes, limit, runs, output>>  (as a string)                  *)
(* which the harness replays on the real operator: same number and sizes   *)
(* of spilled runs (reported by the spill.MergeSort.Spill hook), same      *)
(* output order.                                                           *)
(*                                                                         *)
(* TieBreak = "ordinal" is the code (MergeSort.Less: compare, then the run *)
(* ordinal).  TieBreak = "none" is a deliberately broken variant used by   *)
(* SortSpill.mut.cfg to show that the Final invariant is not vacuous (TLC  *)
(* must report a violation there).                                         *)
(***************************************************************************)
EXTENDS Integers, Sequences, FiniteSets, SequencesExt, TLC, Json

CONSTANTS MaxN,      \* max number of input values
          MaxB,      \* max number of input batches
          K,         \* number of key classes
          Limits,    \* memory limits (in values); a limit > MaxN never spills
          TieBreak,  \* "ordinal" | "none"
          Export,    \* TRUE: print finished behaviours
          InputFile  \* JSON array of [keys, sizes, limit]: further (larger, sampled) inputs

VARIABLES keys,      \* [1..n -> 1..K]   (constant along a behaviour)
          sizes,     \* batch sizes      (constant along a behaviour)
          limit,     \* sort.MemMaxBytes in values (constant along a behaviour)
          nb,        \* batches pulled so far
          buf,       \* `out` of Op.run: ids buffered in memory, arrival order
          nbytes,    \* `nbytes` of Op.run
          runs,      \* spilled runs, runs[r] has ordinal r-1; <<>> <=> spiller == nil
          pos,       \* pos[r]: index of run r's head (peeker.nextRecord) during the merge
          output,    \* ids sent downstream
          pc         \* "pull" | "spill" | "merge" | "done"
vars == <<keys, sizes, limit, nb, buf, nbytes, runs, pos, output, pc>>

n == Len(keys)
SumTo(s, m) == FoldLeft(LAMBDA acc, x : acc + x, 0, SubSeq(s, 1, m))
Comps(m) == IF m = 0 THEN {<<>>}
            ELSE {s \in UNION {[1..b -> 1..m] : b \in 1..MaxB} : SumTo(s, Len(s)) = m}
BatchIds(b) == LET start == SumTo(sizes, b - 1) IN [i \in 1..sizes[b] |-> start + i]

\* ---- expr.Comparator.SortStable / SortStableReader: a stable sort by key.
\* Transcribed as insertion after the last element whose key is <= the new key.
Ins(s, x) ==
  LET after == {i \in 1..Len(s) : keys[s[i]] > keys[x]}
      at    == IF after = {} THEN Len(s) + 1 ELSE CHOOSE i \in after : \A j \in after : i <= j
  IN  SubSeq(s, 1, at - 1) \o <<x>> \o SubSeq(s, at, Len(s))
StableSort(s) == FoldLeft(Ins, <<>>, s)

\* ---- reference: ids ordered by (key, arrival index)
Ref == SetToSortSeq(1..n, LAMBDA x, y : keys[x] < keys[y] \/ (keys[x] = keys[y] /\ x < y))

\* larger inputs chosen (seeded) by the harness; the spec predicts them too
Extra == ToSet(JsonDeserialize(InputFile))

Init ==
  /\ \/ /\ \E m \in 0..MaxN : keys \in [1..m -> 1..K]
        /\ sizes \in Comps(Len(keys))
        /\ limit \in Limits
     \/ \E x \in Extra : keys = x.keys /\ sizes = x.sizes /\ limit = x.limit
  /\ nb = 0 /\ buf = <<>> /\ nbytes = 0 /\ runs = <<>> /\ pos = <<>> /\ output = <<>>
  /\ pc = "pull"

\* Op.run: batch != nil: out = append(out, batch...); nbytes += delta;
\* if nbytes < MemMaxBytes { continue }  else spill
Consume ==
  /\ pc = "pull" /\ nb < Len(sizes)
  /\ nb' = nb + 1
  /\ buf' = buf \o BatchIds(nb + 1)
  /\ nbytes' = nbytes + sizes[nb + 1]
  /\ pc' = IF nbytes' < limit THEN "pull" ELSE "spill"
  /\ UNCHANGED <<keys, sizes, limit, runs, pos, output>>

\* spiller.Spill(out): stable sort, write the run file with ordinal nspill,
\* heap.Push; out = nil; nbytes = 0
Spill ==
  /\ pc = "spill"
  /\ runs' = Append(runs, StableSort(buf))
  /\ buf' = <<>> /\ nbytes' = 0 /\ pc' = "pull"
  /\ UNCHANGED <<keys, sizes, limit, nb, pos, output>>

\* batch == nil, spiller == nil: send(out) -- sort in memory
FinishMem ==
  /\ pc = "pull" /\ nb = Len(sizes) /\ runs = <<>>
  /\ output' = StableSort(buf)
  /\ buf' = <<>> /\ nbytes' = 0 /\ pc' = "done"
  /\ (Export => PrintT(ToString(<<keys, sizes, limit, runs, output'>>)))
  /\ UNCHANGED <<keys, sizes, limit, nb, runs, pos>>

\* batch == nil, spiller != nil: spill the remainder (if any), then sendSpills
StartMerge ==
  /\ pc = "pull" /\ nb = Len(sizes) /\ runs # <<>>
  /\ runs' = IF buf # <<>> THEN Append(runs, StableSort(buf)) ELSE runs
  /\ pos' = [r \in 1..Len(runs') |-> 1]
  /\ buf' = <<>> /\ nbytes' = 0 /\ pc' = "merge"
  /\ UNCHANGED <<keys, sizes, limit, nb, output>>

\* MergeSort.Read: the heap root is the run that is minimal under Less;
\* Less(i, j) = compare(head i, head j) < 0, or equal and ordinal i < ordinal j.
Live == {r \in 1..Len(runs) : pos[r] <= Len(runs[r])}
HeadOf(r) == runs[r][pos[r]]
Less(i, j) == \/ keys[HeadOf(i)] < keys[HeadOf(j)]
              \/ (keys[HeadOf(i)] = keys[HeadOf(j)] /\ TieBreak = "ordinal" /\ i < j)
MinRuns == {r \in Live : \A q \in Live \ {r} : ~Less(q, r)}

MergeStep ==
  /\ pc = "merge" /\ Live # {}
  /\ \E r \in MinRuns :
       /\ output' = Append(output, HeadOf(r))
       /\ pos' = [pos EXCEPT ![r] = @ + 1]
  /\ UNCHANGED <<keys, sizes, limit, nb, buf, nbytes, runs, pc>>

MergeDone ==
  /\ pc = "merge" /\ Live = {}
  /\ pc' = "done"
  /\ (Export => PrintT(ToString(<<keys, sizes, limit, runs, output>>)))
  /\ UNCHANGED <<keys, sizes, limit, nb, buf, nbytes, runs, pos, output>>

Next == Consume \/ Spill \/ FinishMem \/ StartMerge \/ MergeStep \/ MergeDone
Spec == Init /\ [][Next]_vars

\* ---------------------------------------------------------------- properties
Sorted(s) == \A i \in 1..Len(s), j \in 1..Len(s) : i < j =>
                \/ keys[s[i]] < keys[s[j]]
                \/ (keys[s[i]] = keys[s[j]] /\ s[i] < s[j])       \* stable
\* every run is stably sorted
RunsSorted == \A r \in 1..Len(runs) : Sorted(runs[r])
\* nothing lost, nothing duplicated: buffered + unread parts of runs + output = pulled
Consumed == 1..SumTo(sizes, nb)
Pending  == IF pos # <<>>                 \* merging (or merged): only the unread parts
            THEN UNION {{runs[r][i] : i \in pos[r]..Len(runs[r])} : r \in 1..Len(runs)}
            ELSE UNION {ToSet(runs[r]) : r \in 1..Len(runs)}
Conserved == /\ ToSet(buf) \cup Pending \cup ToSet(output) = Consumed
             /\ Len(buf) + Cardinality(Pending) + Len(output) = Cardinality(Consumed)
\* the output so far is in order; at the end it is THE stable sort
OutputSorted == Sorted(output)
Final == pc = "done" => output = Ref
\* a spill happens exactly when the buffered count reaches the limit
SpillRule == /\ pc = "pull" => nbytes < limit
             /\ \A r \in 1..Len(runs) : Len(runs[r]) >= 1

TypeOK == /\ pc \in {"pull", "spill", "merge", "done"}
          /\ nb \in 0..Len(sizes) /\ nbytes = Len(buf)

\* --------------------------------------------------------------- non-vacuity
ASSUME MaxN >= 3 /\ MaxB >= 2 /\ K >= 2
ASSUME \E l \in Limits : l > MaxN       \* the in-memory path is exercised
ASSUME \E l \in Limits : l <= 2         \* several runs are exercised
=============================================================================
