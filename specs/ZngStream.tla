------------------------------ MODULE ZngStream ------------------------------
(***************************************************************************)
(* C01 -- ZNG binary stream round trip is the identity: the wire protocol. *)
(*                                                                         *)
(* Writer side, transcribed from zio/zngio/writer.go (Writer.Write, flush, *)
(* EndStream, Close) and zio/zngio/types.go (Encoder.Encode/encode*/Reset/ *)
(* Flush/Lookup); reader side from zio/zngio/parser.go (parser.read) and   *)
(* types.go (Decoder.decode/readType*/reset) and scanner.go                *)
(* (worker.decodeVal).  docs/formats/zng.md defines the frame layout.      *)
(*                                                                         *)
(* Types are tokens with a fixed structure (TypeDef).  An *external* type  *)
(* is a pair <<ctx, token>>: structurally equal types that live in two     *)
(* zed.Contexts are different Go pointers, hence different keys of         *)
(* Encoder.encoded, and the typedef is emitted again without allocating a  *)
(* new id (LookupType* finds the existing internal type).  N1 and N2 bind  *)
(* the same name to different types (the name is re-bound mid-stream).     *)
(*                                                                         *)
(* Every value has the encoded size ValBytes(token) (the harness chooses   *)
(* the payloads accordingly), typedef sizes follow from the structure, so  *)
(* the byte threshold of Writer.Write is modelled exactly.                 *)
(*                                                                         *)
(* TLC explores every script of at most MaxOps operations for every        *)
(* threshold, checks that the reader reconstructs exactly the written      *)
(* sequence of (type, value) pairs, and prints one CASE line per script    *)
(* with the predicted wire; the harness replays each script on the real    *)
(* zngio.Writer and compares the real frames (independent frame walker).   *)
(***************************************************************************)
EXTENDS Integers, Sequences, FiniteSets, TLC, Json

CONSTANTS MaxOps,       \* script length (Write/EndStream operations before the final Close)
          Threshes,     \* set of WriterOpts.FrameThresh values in bytes
          ValSize,      \* encoded size of the padded values (see ValBytes)
          Emit          \* TRUE: print a CASE line per complete script

\* ------------------------------------------------------------------ types
Prims == {"int", "str"}
PrimId(t) == IF t = "int" THEN 9 ELSE 25          \* zed.IDInt64, zed.IDString
Complex == {"R", "A", "N1", "N2", "RN", "U", "E", "RE"}
TypeDef(t) ==
  CASE t = "R"  -> [kind |-> "record", kids |-> <<"int">>,       names |-> <<"a">>]
    [] t = "A"  -> [kind |-> "array",  kids |-> <<"R">>,         names |-> <<>>]
    [] t = "N1" -> [kind |-> "named",  kids |-> <<"R">>,         names |-> <<"n">>]
    [] t = "N2" -> [kind |-> "named",  kids |-> <<"int">>,       names |-> <<"n">>]
    [] t = "RN" -> [kind |-> "record", kids |-> <<"N1", "str">>, names |-> <<"f", "g">>]
    [] t = "U"  -> [kind |-> "union",  kids |-> <<"int", "str">>, names |-> <<>>]
    \* boundary typedefs: an enum whose LAST symbol is empty (the typedef, and with
    \* it the types frame, ends with a zero-length counted string) and a record
    \* whose last field name is empty
    [] t = "E"  -> [kind |-> "enum",   kids |-> <<>>,            names |-> <<"a", "">>]
    [] t = "RE" -> [kind |-> "record", kids |-> <<"int", "int">>, names |-> <<"a", "">>]
\* External types the scripts may write.  Context 2 holds structural copies.
Ext == ({1} \X (Complex \cup {"int"})) \cup ({2} \X {"R", "N1", "RN"})

IndexOf(t, defs) == CHOOSE i \in 1..Len(defs) : defs[i] = t
Defined(t, defs) == \E i \in 1..Len(defs) : defs[i] = t
IdOf(t, defs) == IF t \in Prims THEN PrimId(t) ELSE 29 + IndexOf(t, defs)   \* ids start at 30

\* The typedef as it appears on the wire: kind, names, referenced type ids.
Desc(t, defs) == [kind |-> TypeDef(t).kind, names |-> TypeDef(t).names,
                  ids |-> [i \in 1..Len(TypeDef(t).kids) |-> IdOf(TypeDef(t).kids[i], defs)]]
\* Bytes of a typedef (all ids < 128, all counts and string lengths < 128):
\* record 0x00 n (len name id)*, array 0x01 id, named 0x07 len name id,
\* union 0x04 n id*, enum 0x05 n (len symbol)*
SumLen(names) ==
  LET F[i \in 0..Len(names)] == IF i = 0 THEN 0 ELSE F[i - 1] + Len(names[i])
  IN  F[Len(names)]
DefBytes(t) == CASE TypeDef(t).kind = "record" -> 2 + 2 * Len(TypeDef(t).kids) + SumLen(TypeDef(t).names)
                 [] TypeDef(t).kind = "array"  -> 2
                 [] TypeDef(t).kind = "named"  -> 3 + SumLen(TypeDef(t).names)
                 [] TypeDef(t).kind = "union"  -> 2 + Len(TypeDef(t).kids)
                 [] TypeDef(t).kind = "enum"   -> 2 + Len(TypeDef(t).names) + SumLen(TypeDef(t).names)
\* Encoded size of a value: uvarint(id) + zcode tag + body.  The harness pads
\* every payload to ValSize bytes except the bare enum value (index < 2: 3 bytes).
ValBytes(t) == IF t = "E" THEN 3 ELSE ValSize

\* ----------------------------------------------------------------- writer
VARIABLES thresh,    \* WriterOpts.FrameThresh
          encoded,   \* Encoder.encoded: external types already encoded in this stream
          defs,      \* Encoder.zctx: structurally distinct complex types, in id order
          pendT,     \* Encoder.bytes: typedefs not yet flushed (descriptors)
          pendTB,    \* len(Encoder.bytes)
          pendV,     \* Writer.values: <<id, ctx, token>> not yet flushed
          wire,      \* frames written so far
          dirty,     \* Writer.flushed # Writer.position
          script,    \* history: the operations so far
          closed

vars == <<thresh, encoded, defs, pendT, pendTB, pendV, wire, dirty, script, closed>>

\* Encoder.Encode(ext): children first, then the internal lookup (no new id
\* if the structure is already known), then the typedef is appended -- always.
RECURSIVE Enc(_, _, _)
EncKids(st, c, kids) ==
  LET F[i \in 0..Len(kids)] == IF i = 0 THEN st ELSE Enc(F[i - 1], c, kids[i])
  IN  F[Len(kids)]
Enc(st, c, t) ==
  IF t \in Prims \/ <<c, t>> \in st.encoded THEN st
  ELSE LET st1 == EncKids(st, c, TypeDef(t).kids)
           defs2 == IF Defined(t, st1.defs) THEN st1.defs ELSE Append(st1.defs, t)
       IN  [encoded |-> st1.encoded \cup {<<c, t>>}, defs |-> defs2,
            pendT |-> Append(st1.pendT, Desc(t, defs2)), pendTB |-> st1.pendTB + DefBytes(t)]

TFrame(ds) == [k |-> "T", defs |-> ds, vals |-> <<>>]
VFrame(vs) == [k |-> "V", defs |-> <<>>, vals |-> vs]
EOSFrame   == [k |-> "EOS", defs |-> <<>>, vals |-> <<>>]

\* Writer.flush: the types frame strictly before the values frame.
Flushed(w, pt, pv) ==
  LET w1 == IF pt # <<>> THEN Append(w, TFrame(pt)) ELSE w
  IN  IF pv # <<>> THEN Append(w1, VFrame(pv)) ELSE w1

Write(c, t) ==
  /\ ~closed /\ Len(script) < MaxOps
  /\ LET st == Enc([encoded |-> encoded, defs |-> defs, pendT |-> pendT, pendTB |-> pendTB], c, t)
         pv == Append(pendV, <<IdOf(t, st.defs), c, t>>)
         vb == LET F[i \in 0..Len(pv)] == IF i = 0 THEN 0 ELSE F[i - 1] + ValBytes(pv[i][3]) IN F[Len(pv)]
         full == vb >= thresh \/ st.pendTB >= thresh
     IN  /\ encoded' = st.encoded /\ defs' = st.defs
         /\ IF full
            THEN /\ wire' = Flushed(wire, st.pendT, pv)
                 /\ pendT' = <<>> /\ pendTB' = 0 /\ pendV' = <<>> /\ dirty' = TRUE
            ELSE /\ pendT' = st.pendT /\ pendTB' = st.pendTB /\ pendV' = pv
                 /\ UNCHANGED <<wire, dirty>>
  /\ script' = Append(script, [op |-> "write", c |-> c, t |-> t])
  /\ UNCHANGED <<thresh, closed>>

\* Writer.EndStream: flush, EOS only if something was written since the last
\* EOS, then Encoder.Reset.
EndStreamTo(cl) ==
  /\ ~closed
  /\ LET w1 == Flushed(wire, pendT, pendV)
         d == dirty \/ pendT # <<>> \/ pendV # <<>>
     IN  wire' = IF d THEN Append(w1, EOSFrame) ELSE w1
  /\ dirty' = FALSE
  /\ pendT' = <<>> /\ pendTB' = 0 /\ pendV' = <<>>
  /\ encoded' = {} /\ defs' = <<>>
  /\ closed' = cl
  /\ UNCHANGED thresh

EndStream == Len(script) < MaxOps /\ EndStreamTo(FALSE)
             /\ script' = Append(script, [op |-> "eos", c |-> 0, t |-> ""])
Close == EndStreamTo(TRUE) /\ UNCHANGED script

\* ----------------------------------------------------------------- reader
\* parser.read + Decoder.decode + worker.decodeVal, sequentially: a local
\* context per stream (structural dedupe, ids from 30), reset at EOS.
\* Result: [ok, out] where out is the sequence of delivered <<ctx, token>>.
Resolve(d, local) ==       \* the token a typedef denotes, or "?" (malformed / unknown id)
  LET cands == {t \in Complex :
                  /\ TypeDef(t).kind = d.kind /\ TypeDef(t).names = d.names
                  /\ Len(TypeDef(t).kids) = Len(d.ids)
                  /\ \A i \in 1..Len(d.ids) :
                        LET k == TypeDef(t).kids[i]
                        IN  IF k \in Prims THEN d.ids[i] = PrimId(k)
                            ELSE Defined(k, local) /\ d.ids[i] = 29 + IndexOf(k, local)}
  IN  IF cands = {} THEN "?" ELSE CHOOSE t \in cands : TRUE
LookupLocal(id, local) ==
  IF id = 9 THEN "int" ELSE IF id = 25 THEN "str"
  ELSE IF id >= 30 /\ id - 29 <= Len(local) THEN local[id - 29] ELSE "?"

DecodeDefs(ds, local) ==
  LET F[i \in 0..Len(ds)] ==
        IF i = 0 THEN [ok |-> TRUE, local |-> local]
        ELSE LET p == F[i - 1]
                 t == Resolve(ds[i], p.local)
             IN  IF ~p.ok \/ t = "?" THEN [ok |-> FALSE, local |-> p.local]
                 ELSE [ok |-> TRUE, local |-> IF Defined(t, p.local) THEN p.local ELSE Append(p.local, t)]
  IN  F[Len(ds)]

ReadAll(w) ==
  LET F[i \in 0..Len(w)] ==
        IF i = 0 THEN [ok |-> TRUE, local |-> <<>>, out |-> <<>>]
        ELSE LET p == F[i - 1]
                 f == w[i]
             IN  IF ~p.ok THEN p
                 ELSE IF f.k = "EOS" THEN [p EXCEPT !.local = <<>>]
                 ELSE IF f.k = "T" THEN
                      LET r == DecodeDefs(f.defs, p.local)
                      IN  [ok |-> r.ok, local |-> r.local, out |-> p.out]
                 ELSE LET typs == [j \in 1..Len(f.vals) |-> LookupLocal(f.vals[j][1], p.local)]
                      IN  [ok |-> \A j \in 1..Len(f.vals) : typs[j] # "?",
                           local |-> p.local,
                           out |-> p.out \o [j \in 1..Len(f.vals) |-> <<typs[j], f.vals[j][3]>>]]
  IN  F[Len(w)]

\* What was written: the type token and the payload token of every write.
WrittenSeq ==
  LET ws == SelectSeq(script, LAMBDA o : o.op = "write")
  IN  [i \in 1..Len(ws) |-> <<ws[i].t, ws[i].t>>]

\* ------------------------------------------------------------- properties
\* The reader reconstructs exactly the written sequence: same order, same
\* types (resolved through the stream-local ids), same values.
RoundTrip == closed => LET r == ReadAll(wire) IN r.ok /\ r.out = WrittenSeq
\* Every prefix of the wire that ends at a frame boundary is readable and
\* yields a prefix of what was written (typedefs precede their first use).
DefBeforeUse ==
  LET r == ReadAll(wire)
  IN  /\ r.ok
      /\ Len(r.out) <= Len(WrittenSeq)
      /\ \A i \in 1..Len(r.out) : r.out[i] = WrittenSeq[i]
\* A types frame is immediately followed by the values frame that needs it;
\* the stream never ends on a dangling frame.
WellFramed ==
  /\ \A i \in 1..Len(wire) : wire[i].k = "T" => i < Len(wire) /\ wire[i + 1].k = "V"
  /\ closed /\ wire # <<>> => wire[Len(wire)].k = "EOS"
  /\ \A i \in 1..(Len(wire) - 1) : ~(wire[i].k = "EOS" /\ wire[i + 1].k = "EOS")

\* ------------------------------------------------------------------ spec
Init == /\ thresh \in Threshes
        /\ encoded = {} /\ defs = <<>> /\ pendT = <<>> /\ pendTB = 0 /\ pendV = <<>>
        /\ wire = <<>> /\ dirty = FALSE /\ script = <<>> /\ closed = FALSE

CaseLine == PrintT(<<"CASE", ToJson([thresh |-> thresh, script |-> script, wire |-> wire'])>>)

Next == \/ \E e \in Ext : Write(e[1], e[2])
        \/ EndStream
        \/ Close /\ (Emit => CaseLine)

Spec == Init /\ [][Next]_vars

\* Non-vacuity: the interesting situations occur in the explored scripts.
ASSUME ValSize \in Nat /\ ValSize > 0
=============================================================================
