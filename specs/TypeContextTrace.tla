-------------------------- MODULE TypeContextTrace --------------------------
(***************************************************************************)
(* C05 -- validation of histories recorded from the real zed.Context       *)
(* against TypeContext.tla (code -> spec).                                 *)
(*                                                                         *)
(* trace.ndjson holds many histories, each introduced by a "reset" event.  *)
(*   {"e":"reset"}                                                         *)
(*   {"e":"inv","p":P,"m":method,"ot":term,"nm":name,"b":buffer}           *)
(*   {"e":"resp","p":P,"r":type id (spec numbering),"rb":[tokens]}         *)
(*   {"e":"reuse","b":buffer}                                              *)
(* Between an invocation and its response the call's mutex sections are    *)
(* silent steps (TStep) that reuse Exec of TypeContext, so TLC searches    *)
(* for an interleaving of the sections of all pending calls that explains  *)
(* every logged result: for single-section calls this is a linearization   *)
(* of the history; for sequential histories it is a plain replay.  Every   *)
(* TypeContext invariant is evaluated in every state on the way.           *)
(* The trace is accepted iff some behaviour consumes all of it: TLC stops   *)
(* at the first such behaviour ("invariant" NotDone violated).  Otherwise   *)
(* the search is exhausted and the POSTCONDITION prints the high-water mark *)
(* kept with TLCSet, which names the first history that is not a behaviour  *)
(* of the spec.                                                             *)
(***************************************************************************)
EXTENDS TypeContext

Trace == ndJsonDeserialize("trace.ndjson")

VARIABLES l,      \* number of trace events consumed
          done,   \* per process: all sections of the pending call executed
          res     \* per process: result of the completed call

tvars == <<vars, l, done, res>>

NoRes == [r |-> 0, rb |-> <<>>]

TInit == /\ Init /\ l = 0
         /\ done = [p \in Procs |-> FALSE]
         /\ res = [p \in Procs |-> NoRes]
         /\ TLCSet(1, 0)

Mark(n) == IF n > TLCGet(1) THEN TLCSet(1, n) ELSE TRUE
Ev == Trace[l + 1]

TReset ==
  /\ l < Len(Trace) /\ Ev.e = "reset"
  /\ \A p \in Procs : Idle(p)
  /\ cx' = EmptyCx /\ live' = {} /\ aliases' = {} /\ ncalls' = 0 /\ h' = <<>>
  /\ l' = l + 1 /\ Mark(l + 1)
  /\ UNCHANGED <<prog, stk, cur, ldefs, racy, turn, done, res>>

TInv ==
  /\ l < Len(Trace) /\ Ev.e = "inv"
  /\ LET p == Ev.p
         call == [m |-> Ev.m, ot |-> Ev.ot, nm |-> Ev.nm]
         nrm == NormIds(cx) IN
     /\ p \in Procs /\ Idle(p) /\ call \in Calls
     /\ CallEnabled(nrm, call)
     /\ prog' = [prog EXCEPT ![p] = CallProg(nrm, call, Ev.b)]
     /\ stk' = [stk EXCEPT ![p] = <<>>]
     /\ cur' = [cur EXCEPT ![p] = [b |-> Ev.b] @@ call]
     /\ ldefs' = [ldefs EXCEPT ![p] = [x \in TypeNames |-> 0]]
     /\ racy' = [racy EXCEPT ![p] = FALSE]
     /\ done' = [done EXCEPT ![p] = FALSE]
  /\ ncalls' = ncalls + 1
  /\ l' = l + 1 /\ Mark(l + 1)
  /\ UNCHANGED <<cx, aliases, turn, h, res, live>>

\* One mutex section of a pending call (silent).
TStep(p) ==
  /\ ~Idle(p) /\ ~done[p]
  /\ LET r == Exec(cx, prog[p], stk[p], ldefs[p], cur[p].m # "fields", racy[p])
         fin == r.pr = <<>> IN
     /\ cx' = r.c
     /\ prog' = [prog EXCEPT ![p] = r.pr]
     /\ stk' = [stk EXCEPT ![p] = r.st]
     /\ ldefs' = [ldefs EXCEPT ![p] = r.ld]
     /\ racy' = [racy EXCEPT ![p] = @ \/ r.race]
     /\ aliases' = IF cur[p].m = "reset" THEN {} ELSE aliases \cup r.ak
     /\ done' = [done EXCEPT ![p] = fin]
     /\ res' = [res EXCEPT ![p] = IF fin THEN [r |-> r.st[Len(r.st)], rb |-> r.rb] ELSE @]
     /\ h' = IF fin THEN <<[e |-> "step", p |-> p, fin |-> TRUE, r |-> r.st[Len(r.st)], rb |-> r.rb,
                            racy |-> racy[p] \/ r.race, m |-> cur[p].m, ot |-> cur[p].ot]>>
             ELSE <<>>
     /\ live' = IF fin /\ UsesBuf(cur[p]) THEN live \cup {cur[p].b} ELSE live
  /\ UNCHANGED <<cur, ncalls, turn, l>>

TResp ==
  /\ l < Len(Trace) /\ Ev.e = "resp"
  /\ LET p == Ev.p IN
     /\ p \in Procs /\ ~Idle(p) /\ done[p]
     /\ res[p].r = Ev.r /\ res[p].rb = Ev.rb
     /\ cur' = [cur EXCEPT ![p] = NoCall]
     /\ done' = [done EXCEPT ![p] = FALSE]
     /\ res' = [res EXCEPT ![p] = NoRes]
  /\ l' = l + 1 /\ Mark(l + 1)
  /\ h' = <<>>
  /\ UNCHANGED <<cx, prog, stk, ldefs, racy, ncalls, live, aliases, turn>>

TReuse ==
  /\ l < Len(Trace) /\ Ev.e = "reuse" /\ Ev.b \in live
  /\ live' = live \ {Ev.b}
  /\ l' = l + 1 /\ Mark(l + 1)
  /\ h' = <<>>
  /\ UNCHANGED <<cx, aliases, prog, stk, cur, ldefs, racy, ncalls, turn, done, res>>

TNext == TReset \/ TInv \/ TResp \/ TReuse \/ \E p \in Procs : TStep(p)

TSpec == TInit /\ [][TNext]_tvars

TView == <<cx, prog, stk, cur, ldefs, racy, live, aliases, l, done, res>>

\* Acceptance: some behaviour consumed the whole trace.  The mark reached is
\* printed so that the harness can name the first history that is not a
\* behaviour of the spec.
\* Checked as an "invariant": its violation is the acceptance of the trace and
\* stops TLC at the first complete behaviour instead of enumerating all of them.
NotDone == l < Len(Trace)

\* Reached only when no behaviour consumed the whole trace.
Accepted == PrintT(<<"HW", TLCGet(1), Len(Trace)>>) /\ TLCGet(1) = Len(Trace)
=============================================================================
