------------------------------- MODULE VngEnc -------------------------------
(***************************************************************************)
(* C03 -- VNG columnar round trip is the identity for both read paths.     *)
(*                                                                         *)
(* Transcription of                                                        *)
(*   vng/{dynamic,nulls,primitive,record,array,map,union,encoder}.go       *)
(*        -> Enc / Col / Body / Runs   (the writer: column tree + metadata)*)
(*   vng/{builder,nulls,primitive,record,array,map,union,dynamic}.go       *)
(*        -> Dec / DecSeq              (the row-reconstructing reader)     *)
(*   runtime/vcache/{shadow,nulls,loader}.go + vector/*.go Serialize       *)
(*        -> LV / Ser / Materialize    (vector cache load + materializer)  *)
(*   runtime/vcache/{path,project}.go  -> InsertPath / Proj                *)
(* next to the reference semantics (identity, Cut).                        *)
(*                                                                         *)
(* Values are abstract: a datum is [k kind, n is-null, v payload, ...]; the *)
(* payload of a primitive is a small integer token, of a record the tuple  *)
(* of field data, of an array/set the tuple of elements, of a map the tuple *)
(* of <<key, value>> pairs, of a union <<tag, datum>>.  Named and error     *)
(* types are transparent for data.  A sequence element is [t, d] with t an  *)
(* index into the family's type table.                                      *)
(*                                                                         *)
(* The encoding of a primitive column is chosen from its statistics with   *)
(* CONSTANT DictMax (code: vng.MaxDictSize = 256): no values -> plain,     *)
(* one distinct value -> const, 2..DictMax -> dict, more -> plain; 8-bit   *)
(* types never keep a dictionary.                                          *)
(*                                                                         *)
(* TLC enumerates every sequence up to MaxLen over the family's alphabet   *)
(* (as states), checks RowOK / VecOK / ProjOK in each and exports the case *)
(* with the predicted column tree (encoding kinds, null runs, tag and      *)
(* length vectors) and the predicted results of both read paths.           *)
(***************************************************************************)
EXTENDS Integers, Sequences, SequencesExt, FiniteSets, FiniteSetsExt, TLC, Json

CONSTANTS DictMax,    \* 2 in the model, 256 in the code
          MaxLen,     \* longest value sequence
          Family,     \* which type table / alphabet / projections
          PrintMode   \* "case": print every sequence with its predictions; "none"

Eager(f) == f \o <<>>          \* force TLC's lazy function constructor into a tuple
NoMask == <<>>                 \* a nil *vector.Bool

\* ------------------------------------------------------------------ types
P(n)        == [k |-> "prim", s |-> <<n>>, c |-> <<>>]     \* "i","s": dictionary-capable; "b": 8-bit; "e": an enum type
Rec(ns, ts) == [k |-> "rec", s |-> ns, c |-> ts]
Arr(t)      == [k |-> "arr", s |-> <<>>, c |-> <<t>>]
SetOf(t)    == [k |-> "set", s |-> <<>>, c |-> <<t>>]
MapOf(a, b) == [k |-> "map", s |-> <<>>, c |-> <<a, b>>]
Un(ts)      == [k |-> "union", s |-> <<>>, c |-> ts]
Nm(n, t)    == [k |-> "named", s |-> <<n>>, c |-> <<t>>]
Err(t)      == [k |-> "err", s |-> <<>>, c |-> <<t>>]

RECURSIVE UnderT(_)
UnderT(T) == IF T.k \in {"named", "err"} THEN UnderT(T.c[1]) ELSE T

\* ------------------------------------------------------------------- data
\* A datum is self-describing so that comparisons are always between values
\* of one shape: k kind ("p" primitive, "r" record, "a" array/set, "m" map,
\* "u" union), n null flag, v payload, s field names (records), x marker
\* (0 a value, 1 error("missing"), 2 an out-of-range read in the model).
D(k, n, v, s) == [k |-> k, n |-> n, v |-> v, s |-> s, x |-> 0]
V(x)        == D("p", FALSE, x, <<>>)        \* primitive value (small integer token)
NP          == D("p", TRUE, 0, <<>>)
R(names, fs) == D("r", FALSE, fs, names)      \* record from the tuple of field data
NR(names)   == D("r", TRUE, <<>>, names)
A(es)       == D("a", FALSE, es, <<>>)        \* array / set
NA          == D("a", TRUE, <<>>, <<>>)
M(pairs)    == D("m", FALSE, pairs, <<>>)     \* map from the tuple of <<key, value>>
NM          == D("m", TRUE, <<>>, <<>>)
U(tag, d)   == D("u", FALSE, <<tag, d>>, <<>>) \* union (tag is 0-based as in the code)
NU          == D("u", TRUE, <<>>, <<>>)
MISSING     == [k |-> "x", n |-> FALSE, v |-> 0, s |-> <<>>, x |-> 1]
OOB         == [k |-> "x", n |-> FALSE, v |-> 0, s |-> <<>>, x |-> 2]
NullOf(T) == LET u == UnderT(T) IN
  CASE u.k = "prim" -> NP [] u.k = "rec" -> NR(u.s) [] u.k \in {"arr", "set"} -> NA
    [] u.k = "map" -> NM [] u.k = "union" -> NU

Sum(s) == FoldSeq(LAMBDA x, acc : x + acc, 0, s)
RECURSIVE Concat(_)
Concat(ss) == IF ss = <<>> THEN <<>> ELSE Head(ss) \o Concat(Tail(ss))
CountOf(s, x) == Len(SelectSeq(s, LAMBDA y : y = x))

\* A datum as a sequence of integers (type-safe equality).
RECURSIVE Flat(_)
Flat(d) ==
  IF d.x # 0 THEN <<0 - d.x>>
  ELSE IF d.n THEN <<0, CASE d.k = "p" -> 1 [] d.k = "r" -> 2 [] d.k = "a" -> 3 [] d.k = "m" -> 4 [] d.k = "u" -> 5>>
  ELSE CASE d.k = "p" -> <<1, d.v>>
         [] d.k = "r" -> <<2, Len(d.v)>> \o Concat(Eager([f \in 1..Len(d.v) |-> Flat(d.v[f])]))
         [] d.k = "a" -> <<3, Len(d.v)>> \o Concat(Eager([j \in 1..Len(d.v) |-> Flat(d.v[j])]))
         [] d.k = "m" -> <<4, Len(d.v)>> \o Concat(Eager([j \in 1..Len(d.v) |-> Flat(d.v[j][1]) \o Flat(d.v[j][2])]))
         [] d.k = "u" -> <<5, d.v[1]>> \o Flat(d.v[2])
PanicSeq == <<[t |-> 0, d |-> OOB]>>        \* the read path panics
IsPanicSeq(sq) == Len(sq) = 1 /\ sq[1].t = 0
FlatSeq(sq) == IF IsPanicSeq(sq) THEN <<-99>>
                ELSE Concat(Eager([i \in 1..Len(sq) |-> <<7, sq[i].t>> \o Flat(sq[i].d)]))

\* =================================================================== writer
\* vng.NullsEncoder: run lengths of alternating value / null runs, starting
\* with a (possibly empty) run of values; the last run is flushed by Encode.
RECURSIVE RunsFrom(_, _, _, _, _)
RunsFrom(ds, i, runs, run, null) ==
  IF i > Len(ds) THEN (IF run > 0 THEN Append(runs, run) ELSE runs)
  ELSE IF ds[i].n = null THEN RunsFrom(ds, i + 1, runs, run + 1, null)
  ELSE RunsFrom(ds, i + 1, Append(runs, run), 1, ds[i].n)
Runs(ds) == RunsFrom(ds, 1, <<>>, 0, FALSE)

IndexIn(seq, x) == CHOOSE j \in 1..Len(seq) : seq[j] = x

\* The encoding chosen from the number of distinct non-null values d
\* (PrimitiveEncoder.update drops the dictionary beyond MaxDictSize entries;
\* NewPrimitiveEncoder keeps none for 8-bit types; Metadata returns a Const
\* for a dictionary of one entry).
KindRule(d, dictable) ==
  IF ~dictable \/ d = 0 THEN "plain" ELSE IF d = 1 THEN "const" ELSE IF d <= DictMax THEN "dict" ELSE "plain"
RuleTable == [dictable |-> Eager([d \in 1..(DictMax + 60) |-> KindRule(d - 1, TRUE)]),
              eightbit |-> Eager([d \in 1..(DictMax + 60) |-> KindRule(d - 1, FALSE)])]
ASSUME PrintMode # "rule" \/ PrintT(ToJson(RuleTable))

\* vng.PrimitiveEncoder: update / Const / makeDict / makeDictVector / Metadata.
\* The dictionary is sorted by value; selectors are positions in it.
PrimBody(T, nn) ==
  LET vals == Eager([j \in 1..Len(nn) |-> nn[j].v])
      dset == ToSet(vals)
      dictable == T.s[1] # "b" IN
  IF KindRule(Cardinality(dset), dictable) = "const" THEN [k |-> "const", val |-> vals[1], cnt |-> Len(nn), pt |-> T.s[1]]
  ELSE IF KindRule(Cardinality(dset), dictable) = "dict" THEN
       LET dict == SetToSortSeq(dset, LAMBDA a, b : a < b) IN
       [k |-> "dict", dict |-> dict,
        counts |-> Eager([j \in 1..Len(dict) |-> CountOf(vals, dict[j])]),
        sel |-> Eager([j \in 1..Len(vals) |-> IndexIn(dict, vals[j]) - 1]), cnt |-> Len(nn), pt |-> T.s[1]]
  ELSE [k |-> "plain", vals |-> vals, cnt |-> Len(nn), pt |-> T.s[1]]

\* vng.NewEncoder: every type but named/error is wrapped in a NullsEncoder,
\* which disappears from the metadata when the column has no nulls.
RECURSIVE Col(_, _), Body(_, _)
Col(T, ds) ==
  CASE T.k = "named" -> [k |-> "named", name |-> T.s[1], in |-> Col(T.c[1], ds)]
    [] T.k = "err"   -> [k |-> "err", in |-> Col(T.c[1], ds)]
    [] OTHER ->
         LET nn == SelectSeq(ds, LAMBDA d : ~d.n)
             cnt == Len(ds) - Len(nn) IN
         IF cnt = 0 THEN Body(T, nn)
         ELSE [k |-> "nulls", runs |-> Runs(ds), cnt |-> cnt, in |-> Body(T, nn)]
Body(T, nn) ==
  CASE T.k = "prim" -> PrimBody(T, nn)
    [] T.k = "rec" ->
         [k |-> "rec", len |-> Len(nn), names |-> T.s,
          fields |-> Eager([f \in 1..Len(T.c) |-> Col(T.c[f], Eager([i \in 1..Len(nn) |-> nn[i].v[f]]))])]
    [] T.k \in {"arr", "set"} ->
         [k |-> T.k, len |-> Len(nn), lens |-> Eager([i \in 1..Len(nn) |-> Len(nn[i].v)]),
          in |-> Col(T.c[1], Concat(Eager([i \in 1..Len(nn) |-> nn[i].v])))]
    [] T.k = "map" ->
         LET pairs == Concat(Eager([i \in 1..Len(nn) |-> nn[i].v])) IN
         [k |-> "map", len |-> Len(nn), lens |-> Eager([i \in 1..Len(nn) |-> Len(nn[i].v)]),
          keys |-> Col(T.c[1], Eager([j \in 1..Len(pairs) |-> pairs[j][1]])),
          vals |-> Col(T.c[2], Eager([j \in 1..Len(pairs) |-> pairs[j][2]]))]
    [] T.k = "union" ->
         [k |-> "union", len |-> Len(nn), tags |-> Eager([i \in 1..Len(nn) |-> nn[i].v[1]]),
          vals |-> Eager([j \in 1..Len(T.c) |->
                     LET mine == SelectSeq(nn, LAMBDA d : d.v[1] = j - 1) IN
                     Col(T.c[j], Eager([i \in 1..Len(mine) |-> mine[i].v[2]]))])]

\* Number of values a column holds (vng.Metadata.Len).
RECURSIVE CLen(_)
CLen(col) ==
  CASE col.k \in {"named", "err"} -> CLen(col.in)
    [] col.k = "nulls" -> col.cnt + CLen(col.in)
    [] col.k \in {"const", "dict", "plain"} -> col.cnt
    [] OTHER -> col.len

\* ------------------------------------------------------------ type table
I == P("i")
S == P("s")
B == P("b")
RAB == Rec(<<"a", "b">>, <<I, S>>)
RN  == Rec(<<"a", "c">>, <<Rec(<<"b", "d">>, <<I, S>>), S>>)
UIS == Un(<<I, S>>)

Types == CASE Family = "prim"  -> <<I, B, S, P("e")>>
           [] Family = "rec"   -> <<RAB, I>>
           [] Family = "nest"  -> <<RN, Arr(I)>>
           [] Family = "arr"   -> <<Rec(<<"r", "c">>, <<Arr(RAB), I>>), SetOf(I), MapOf(I, S)>>
           [] Family = "union" -> <<UIS, Rec(<<"u", "b">>, <<UIS, I>>)>>
           [] Family = "wrap"  -> <<Nm("n", I), Err(S), Rec(<<"e", "a">>, <<Err(S), Nm("n", I)>>), Nm("r", Rec(<<"a">>, <<I>>))>>

\* The values each type ranges over (small, chosen to reach every encoding
\* kind, null runs at start/middle/end, empty containers, null at every level).
ab == <<"a", "b">>
ac == <<"a", "c">>
bd == <<"b", "d">>
Alpha ==
  CASE Family = "prim" ->
         << {V(0), V(1), V(2), NP}, {V(0), V(1), NP}, {V(0), NP}, {V(0), V(1)} >>
    [] Family = "rec" ->
         << {NR(ab), R(ab, <<V(0), V(0)>>), R(ab, <<V(1), NP>>), R(ab, <<NP, V(0)>>), R(ab, <<V(2), V(1)>>)}, {V(0), NP} >>
    [] Family = "nest" ->
         << {NR(ac), R(ac, <<NR(bd), V(0)>>), R(ac, <<R(bd, <<V(0), V(0)>>), NP>>),
             R(ac, <<R(bd, <<NP, V(0)>>), V(0)>>), R(ac, <<R(bd, <<V(1), NP>>), V(0)>>)},
            {NA, A(<<>>), A(<<V(0)>>), A(<<V(1), NP, V(2)>>)} >>
    [] Family = "arr" ->
         << {NR(<<"r", "c">>), R(<<"r", "c">>, <<NA, V(0)>>), R(<<"r", "c">>, <<A(<<>>), NP>>),
             R(<<"r", "c">>, <<A(<<R(ab, <<V(0), V(0)>>), NR(ab)>>), V(1)>>),
             R(<<"r", "c">>, <<A(<<R(ab, <<NP, V(1)>>)>>), V(0)>>)},
            {NA, A(<<V(0), V(1)>>), A(<<>>)},
            {NM, M(<<>>), M(<< <<V(0), V(0)>> >>), M(<< <<V(0), NP>>, <<V(1), V(0)>> >>)} >>
    [] Family = "union" ->
         << {NU, U(0, V(0)), U(1, V(0)), U(0, NP), U(0, V(1))},
            {NR(<<"u", "b">>), R(<<"u", "b">>, <<U(0, V(0)), V(0)>>), R(<<"u", "b">>, <<NU, V(1)>>), R(<<"u", "b">>, <<U(1, V(0)), NP>>)} >>
    [] Family = "wrap" ->
         << {V(0), V(1), NP}, {V(0), NP},
            {NR(<<"e", "a">>), R(<<"e", "a">>, <<V(0), V(0)>>), R(<<"e", "a">>, <<NP, NP>>), R(<<"e", "a">>, <<V(0), V(1)>>)},
            {NR(<<"a">>), R(<<"a">>, <<V(0)>>), R(<<"a">>, <<NP>>)} >>

\* Projections tried (sets of field paths, in the order given to the cache).
Projections ==
  CASE Family = "rec"   -> { << <<"a">> >>, << <<"b">> >>, << <<"a">>, <<"b">> >>, << <<"b">>, <<"a">> >>, << <<"x">> >>, << <<"a", "z">> >> }
    [] Family = "nest"  -> { << <<"a", "b">> >>, << <<"c">>, <<"a", "b">> >>, << <<"a">> >>, << <<"a", "x">>, <<"c">> >>, << <<"a", "b", "z">> >>, << <<"a", "d">>, <<"a", "b">> >> }
    [] Family = "arr"   -> { << <<"c">> >>, << <<"r">> >>, << <<"r">>, <<"c">> >>, << <<"r", "a">> >> }
    [] Family = "union" -> { << <<"b">> >>, << <<"u">> >>, << <<"u", "x">>, <<"b">> >> }
    [] Family = "wrap"  -> { << <<"a">> >>, << <<"e">> >>, << <<"a">>, <<"e">> >> }
    [] OTHER -> {}

\* vng.DynamicEncoder: types in order of first appearance, a tag per value;
\* a single type is written without the dynamic wrapper.
RECURSIVE FirstSeen(_, _, _)
FirstSeen(seq, i, acc) ==
  IF i > Len(seq) THEN acc
  ELSE FirstSeen(seq, i + 1, IF \E j \in 1..Len(acc) : acc[j] = seq[i].t THEN acc ELSE Append(acc, seq[i].t))
DataOf(seq, t) == LET mine == SelectSeq(seq, LAMBDA x : x.t = t) IN Eager([i \in 1..Len(mine) |-> mine[i].d])
Enc(seq) ==
  LET ts == FirstSeen(seq, 1, <<>>) IN
  IF Len(ts) = 1 THEN [k |-> "single", types |-> ts, col |-> Col(Types[ts[1]], DataOf(seq, ts[1]))]
  ELSE [k |-> "dynamic", len |-> Len(seq), types |-> ts,
        tags |-> Eager([i \in 1..Len(seq) |-> IndexIn(ts, seq[i].t) - 1]),
        cols |-> Eager([j \in 1..Len(ts) |-> Col(Types[ts[j]], DataOf(seq, ts[j]))])]

\* =============================================================== row reader
\* vng.NullsBuilder: starts in the "null" state with an exhausted run, so the
\* first run read is a run of values.
RECURSIVE MaskRow(_, _, _)
MaskRow(runs, i, null) ==
  IF i > Len(runs) THEN <<>>
  ELSE Eager([j \in 1..runs[i] |-> ~null]) \o MaskRow(runs, i + 1, ~null)
RowMask(runs) == MaskRow(runs, 1, TRUE)     \* element = TRUE iff that slot is null

\* Spread the values over the non-null slots of mask.
RECURSIVE Spread(_, _, _, _, _)
Spread(mask, vals, null, i, j) ==
  IF i > Len(mask) THEN <<>>
  ELSE IF mask[i] THEN <<null>> \o Spread(mask, vals, null, i + 1, j)
  ELSE <<vals[j]>> \o Spread(mask, vals, null, i + 1, j + 1)

\* Cut seq into pieces of the given lengths.
RECURSIVE Split(_, _, _)
Split(seq, lens, i) ==
  IF i > Len(lens) THEN <<>>
  ELSE <<SubSeq(seq, 1, lens[i])>> \o Split(SubSeq(seq, lens[i] + 1, Len(seq)), lens, i + 1)

\* Interleave per-tag value sequences according to the tag vector.
RECURSIVE Weave(_, _, _, _)
Weave(tags, vals, i, pos) ==
  IF i > Len(tags) THEN <<>>
  ELSE LET t == tags[i] + 1 IN
       <<vals[t][pos[t]]>> \o Weave(tags, vals, i + 1, [pos EXCEPT ![t] = @ + 1])

\* Dec(T, col, n): the n data the Builder tree for col produces.
RECURSIVE Dec(_, _, _)
Dec(T, col, n) ==
  CASE col.k \in {"named", "err"} -> Dec(T.c[1], col.in, n)
    [] col.k = "nulls" ->
         LET m == RowMask(col.runs)
             inner == Dec(T, col.in, Len(SelectSeq(m, LAMBDA x : ~x))) IN
         Spread(m, inner, NullOf(T), 1, 1)
    [] col.k = "const" -> Eager([j \in 1..col.cnt |-> V(col.val)])          \* ConstBuilder
    [] col.k = "dict"  -> Eager([j \in 1..Len(col.sel) |-> V(col.dict[col.sel[j] + 1])])  \* DictBuilder
    [] col.k = "plain" -> Eager([j \in 1..Len(col.vals) |-> V(col.vals[j])])  \* PrimitiveBuilder
    [] col.k = "rec" ->
         LET fs == Eager([f \in 1..Len(col.fields) |-> Dec(T.c[f], col.fields[f], n)]) IN
         Eager([i \in 1..n |-> R(col.names, Eager([f \in 1..Len(fs) |-> fs[f][i]]))])
    [] col.k \in {"arr", "set"} ->
         LET el == Dec(T.c[1], col.in, Sum(col.lens))
             parts == Split(el, col.lens, 1) IN
         Eager([i \in 1..Len(parts) |-> A(parts[i])])
    [] col.k = "map" ->
         LET ks == Dec(T.c[1], col.keys, Sum(col.lens))
             vs == Dec(T.c[2], col.vals, Sum(col.lens))
             pairs == Eager([j \in 1..Len(ks) |-> <<ks[j], vs[j]>>])
             parts == Split(pairs, col.lens, 1) IN
         Eager([i \in 1..Len(parts) |-> M(parts[i])])
    [] col.k = "union" ->
         LET per == Eager([j \in 1..Len(col.vals) |-> Dec(T.c[j], col.vals[j], CountOf(col.tags, j - 1))])
             woven == Weave(col.tags, per, 1, Eager([j \in 1..Len(per) |-> 1])) IN
         Eager([i \in 1..Len(woven) |-> U(col.tags[i], woven[i])])

\* vng.NewZedReader: vectorBuilder for a single type, dynamicBuilder otherwise.
DecSeq(e) ==
  IF e.k = "single" THEN
       LET ds == Dec(Types[e.types[1]], e.col, CLen(e.col)) IN
       Eager([i \in 1..Len(ds) |-> [t |-> e.types[1], d |-> ds[i]]])
  ELSE LET per == Eager([j \in 1..Len(e.cols) |-> Dec(Types[e.types[j]], e.cols[j], CLen(e.cols[j]))])
           woven == Weave(e.tags, per, 1, Eager([j \in 1..Len(per) |-> 1])) IN
       Eager([i \in 1..Len(woven) |-> [t |-> e.types[e.tags[i] + 1], d |-> woven[i]]])

\* ====================================================== vector cache + vam
Panic == [k |-> "panic"]
IsPanic(v) == v.k = "panic"

\* vcache.nulls.fetch: the mask of a Nulls node (TRUE = null), length
\* Count + Values.Len(); the first run is a run of values.
RECURSIVE MaskVec(_, _, _)
MaskVec(runs, i, null) ==
  IF i > Len(runs) THEN <<>>
  ELSE Eager([j \in 1..runs[i] |-> null]) \o MaskVec(runs, i + 1, ~null)
LocalMask(n) == IF n = NoMask THEN NoMask ELSE MaskVec(n, 1, FALSE)

\* vcache.convolve: expand the child's mask to the parent's slots.
RECURSIVE Convolve(_, _, _, _)
Convolve(parent, child, i, j) ==
  IF i > Len(parent) THEN <<>>
  ELSE IF parent[i] THEN <<TRUE>> \o Convolve(parent, child, i + 1, j)
  ELSE <<IF j <= Len(child) THEN child[j] ELSE FALSE>> \o Convolve(parent, child, i + 1, j + 1)
\* vcache.nulls.flatten
Flatten(local, parent) ==
  IF parent = NoMask THEN local
  ELSE IF local # NoMask THEN Convolve(parent, local, 1, 1)
  ELSE parent

NullAt(v, s) == v.nulls # NoMask /\ s <= Len(v.nulls) /\ v.nulls[s]

RECURSIVE VLen(_)
VLen(v) == IF v.k \in {"named", "err"} THEN VLen(v.in) ELSE v.len

\* Place the stored values in the slots that are not null (loader.loadVals).
RECURSIVE Place(_, _, _, _, _)
Place(len, flat, vals, i, j) ==
  IF i > len THEN <<>>
  ELSE IF flat # NoMask /\ i <= Len(flat) /\ flat[i] THEN <<0>> \o Place(len, flat, vals, i + 1, j)
  ELSE <<IF j <= Len(vals) THEN vals[j] ELSE -1>> \o Place(len, flat, vals, i + 1, j + 1)   \* -1: read past the segment

\* loader.loadOffsets
RECURSIVE Offsets(_, _, _, _, _, _)
Offsets(len, flat, lens, i, child, off) ==
  IF i > len THEN <<off>>
  ELSE IF flat # NoMask /\ i <= Len(flat) /\ flat[i] THEN <<off>> \o Offsets(len, flat, lens, i + 1, child, off)
  ELSE <<off>> \o Offsets(len, flat, lens, i + 1, child + 1, off + (IF child <= Len(lens) THEN lens[child] ELSE 0))

\* vcache path elements: a field name or a fork (vcache.NewProjection below).
El(name)   == [name |-> name, fork |-> <<>>]
Fk(paths)  == [name |-> "", fork |-> paths]
IsFk(e)    == e.name = ""
Unloaded   == [k |-> "unloaded"]       \* a leaf the loader skipped (nil vector)

\* newShadow + fetchNulls + flattenNulls + loadVector, fused: n = the runs of
\* the enclosing vng.Nulls (NoMask if none), nc = the nulls counted so far
\* (count.nulls), parent = the flattened nulls handed down, path = the
\* projection that decides which record fields are loaded (<<>> = everything).
RECURSIVE LV(_, _, _, _, _)
LV(col, n, nc, parent, path) ==
  CASE col.k = "nulls" ->
         IF n # NoMask THEN Panic                      \* "can't wrap nulls inside of nulls"
         ELSE LV(col.in, col.runs, nc + col.cnt, parent, path)
    [] col.k = "named" -> LET in == LV(col.in, n, nc, parent, path) IN
         IF IsPanic(in) THEN Panic ELSE [k |-> "named", name |-> col.name, in |-> in]
    [] col.k = "err" ->
         \* error_{vals: newShadow(m.Values, n, nc), nulls{meta: n}}; flattenNulls hands the
         \* parent's nulls on to the values (d09869412)
         LET flat == Flatten(LocalMask(n), parent)
             in == LV(col.in, n, nc, parent, path) IN
         IF IsPanic(in) THEN Panic ELSE [k |-> "err", nulls |-> flat, in |-> in]
    [] col.k \in {"plain", "const", "dict"} ->
         LET flat == Flatten(LocalMask(n), parent)
             len == col.cnt + nc IN
         \* (enum columns are loaded as unsigned vectors, 1f68c5df7)
         IF col.k = "plain" THEN
              IF col.cnt = 0 THEN [k |-> "plain", len |-> len, nulls |-> flat, vals |-> Eager([j \in 1..len |-> 0])]
              ELSE IF flat # NoMask /\ Len(flat) # len THEN Panic        \* "BAD NULLS LEN"
              ELSE [k |-> "plain", len |-> len, nulls |-> flat, vals |-> Place(len, flat, col.vals, 1, 1)]
         ELSE IF col.k = "const" THEN [k |-> "const", len |-> len, nulls |-> flat, val |-> col.val]
         ELSE \* dict: selectors are spread over the slots only when nulls were counted
              LET idx == IF nc > 0 THEN Place(len, flat, col.sel, 1, 1) ELSE col.sel IN
              [k |-> "dict", len |-> Len(idx), nulls |-> flat, dict |-> col.dict, index |-> idx]
    [] col.k = "rec" ->
         \* loadRecord: no path -> every field; a name -> that field with the rest
         \* of the path; a fork -> each named field with paths[1:] of the OUTER path
         LET flat == Flatten(LocalMask(n), parent)
             sub(f) == IF path = <<>> THEN <<TRUE, <<>>>>
                       ELSE IF ~IsFk(path[1]) THEN <<col.names[f] = path[1].name, Tail(path)>>
                       ELSE << \E q \in 1..Len(path[1].fork) : path[1].fork[q][1].name = col.names[f], Tail(path)>>
             fs == Eager([f \in 1..Len(col.fields) |->
                      IF sub(f)[1] THEN LV(col.fields[f], NoMask, nc, flat, sub(f)[2]) ELSE Unloaded]) IN
         IF \E f \in 1..Len(fs) : IsPanic(fs[f]) THEN Panic
         ELSE [k |-> "rec", len |-> col.len + nc, nulls |-> flat, names |-> col.names, fields |-> fs]
    [] col.k \in {"arr", "set"} ->
         LET flat == Flatten(LocalMask(n), parent)
             len == col.len + nc
             in == LV(col.in, NoMask, 0, NoMask, <<>>) IN      \* everything under a container is loaded whole (b8e7ab086)
         IF IsPanic(in) THEN Panic
         ELSE [k |-> col.k, len |-> len, nulls |-> flat, offs |-> Offsets(len, flat, col.lens, 1, 1, 0), in |-> in]
    [] col.k = "map" ->
         LET flat == Flatten(LocalMask(n), parent)
             len == col.len + nc
             ks == LV(col.keys, NoMask, 0, NoMask, <<>>)
             vs == LV(col.vals, NoMask, 0, NoMask, <<>>) IN
         IF IsPanic(ks) \/ IsPanic(vs) THEN Panic
         ELSE [k |-> "map", len |-> len, nulls |-> flat, offs |-> Offsets(len, flat, col.lens, 1, 1, 0), keys |-> ks, vals |-> vs]
    [] col.k = "union" ->
         \* the tags segment holds one entry per NON-null value; vector.Union
         \* takes its length from it and never consults the nulls
         LET flat == Flatten(LocalMask(n), parent)
             vs == Eager([j \in 1..Len(col.vals) |-> LV(col.vals[j], NoMask, 0, NoMask, <<>>)]) IN
         IF \E j \in 1..Len(vs) : IsPanic(vs[j]) THEN Panic
         ELSE [k |-> "union", len |-> Len(col.tags), nulls |-> flat, tags |-> col.tags, vals |-> vs]

\* vector.TagMap.Forward
Forward(tags, s) == CountOf(SubSeq(tags, 1, s), tags[s])

\* vector.*.Serialize(slot); OOB models an index-out-of-range panic.
NullOfVec(v) == CASE v.k \in {"plain", "const", "dict"} -> NP [] v.k = "rec" -> NR(v.names)
                  [] v.k \in {"arr", "set"} -> NA [] v.k = "map" -> NM [] v.k = "union" -> NU
                  [] v.k = "missing" -> NP
RECURSIVE Ser(_, _), NullUnder(_)
NullUnder(v) == IF v.k \in {"named", "err"} THEN NullUnder(v.in) ELSE NullOfVec(v)
Ser(v, s) ==
  CASE v.k = "plain" -> IF NullAt(v, s) THEN NP ELSE IF s > Len(v.vals) \/ s < 1 THEN OOB ELSE V(v.vals[s])
    [] v.k = "const" -> IF NullAt(v, s) THEN NP ELSE V(v.val)
    [] v.k = "dict"  -> IF NullAt(v, s) THEN NP ELSE IF s > Len(v.index) \/ s < 1 THEN OOB ELSE V(v.dict[v.index[s] + 1])
    [] v.k = "named" -> Ser(v.in, s)
    [] v.k = "err"   -> IF NullAt(v, s) THEN NullUnder(v.in) ELSE Ser(v.in, s)
    [] v.k = "rec"   -> IF NullAt(v, s) THEN NR(v.names)
                        ELSE R(v.names, Eager([f \in 1..Len(v.fields) |-> Ser(v.fields[f], s)]))
    [] v.k \in {"arr", "set"} ->
         IF NullAt(v, s) THEN NA
         ELSE IF s + 1 > Len(v.offs) THEN OOB
         ELSE A(Eager([j \in 1..(v.offs[s + 1] - v.offs[s]) |-> Ser(v.in, v.offs[s] + j)]))
    [] v.k = "map" ->
         IF NullAt(v, s) THEN NM
         ELSE IF s + 1 > Len(v.offs) THEN OOB
         ELSE M(Eager([j \in 1..(v.offs[s + 1] - v.offs[s]) |-> <<Ser(v.keys, v.offs[s] + j), Ser(v.vals, v.offs[s] + j)>>]))
    [] v.k = "union" -> IF s > Len(v.tags) \/ s < 1 THEN OOB
                        ELSE U(v.tags[s], Ser(v.vals[v.tags[s] + 1], Forward(v.tags, s)))   \* never consults v.nulls
    [] v.k = "missing" -> MISSING

\* Object.Fetch + vam.Materializer for the whole value.
LoadSeq(e) ==
  IF e.k = "single" THEN
       LET vec == LV(e.col, NoMask, 0, NoMask, <<>>) IN
       IF IsPanic(vec) THEN PanicSeq
       ELSE Eager([i \in 1..VLen(vec) |-> [t |-> e.types[1], d |-> Ser(vec, i)]])
  ELSE LET vs == Eager([j \in 1..Len(e.cols) |-> LV(e.cols[j], NoMask, 0, NoMask, <<>>)]) IN
       IF \E j \in 1..Len(vs) : IsPanic(vs[j]) THEN PanicSeq
       ELSE IF Sum(Eager([j \in 1..Len(vs) |-> VLen(vs[j])])) # Len(e.tags) THEN PanicSeq   \* "bad VNG tagmap"
       ELSE Eager([i \in 1..Len(e.tags) |->
                 [t |-> e.types[e.tags[i] + 1], d |-> Ser(vs[e.tags[i] + 1], Forward(e.tags, i))]])

\* ============================================================== projection
\* vcache.NewProjection / insertPath.  A path element is a field name or a
\* fork; both are records [name, fork] so that they can be compared.
Conv(path) == Eager([j \in 1..Len(path) |-> El(path[j])])
RECURSIVE InsertPath(_, _), AddToFork(_, _, _)
InsertPath(existing, add) ==
  IF add = <<>> THEN existing
  ELSE IF existing = <<>> THEN Conv(add)
  ELSE IF IsFk(existing[1]) THEN <<Fk(AddToFork(existing[1].fork, add, 1))>>
  ELSE IF existing[1].name = add[1] THEN <<existing[1]>> \o InsertPath(Tail(existing), Tail(add))
  ELSE <<Fk(<<existing, Conv(add)>>)>>
AddToFork(fork, add, k) ==
  IF k > Len(fork) THEN Append(fork, Conv(add))
  ELSE IF fork[k][1].name = add[1] THEN [fork EXCEPT ![k] = InsertPath(fork[k], add)]
  ELSE AddToFork(fork, add, k + 1)
RECURSIVE NewProjection(_, _, _)
NewProjection(paths, i, acc) == IF i > Len(paths) THEN acc ELSE NewProjection(paths, i + 1, InsertPath(acc, paths[i]))

MissingVec(len) == [k |-> "missing", len |-> len, nulls |-> NoMask]
FieldIdx(names, name) == IF \E j \in 1..Len(names) : names[j] = name
                         THEN CHOOSE j \in 1..Len(names) : names[j] = name ELSE 0

\* vcache.project / projectRecord on what was loaded.  Touching a leaf the
\* loader skipped is a nil dereference.
RECURSIVE Proj(_, _)
Proj(path, v) ==
  CASE v.k = "unloaded" -> Panic
    [] v.k = "rec" ->
         IF path = <<>> THEN
              LET fs == Eager([f \in 1..Len(v.fields) |-> Proj(<<>>, v.fields[f])]) IN
              IF \E f \in 1..Len(fs) : IsPanic(fs[f]) THEN Panic ELSE [v EXCEPT !.fields = fs]
         ELSE IF ~IsFk(path[1]) THEN
              LET k == FieldIdx(v.names, path[1].name)
                  val == IF k > 0 THEN Proj(Tail(path), v.fields[k]) ELSE MissingVec(v.len) IN
              IF IsPanic(val) THEN Panic ELSE [v EXCEPT !.names = <<path[1].name>>, !.fields = <<val>>]
         ELSE LET fk == path[1].fork
                  fs == Eager([j \in 1..Len(fk) |->
                            LET k == FieldIdx(v.names, fk[j][1].name) IN
                            IF k > 0 THEN Proj(Tail(fk[j]), v.fields[k]) ELSE MissingVec(v.len)]) IN
              IF \E f \in 1..Len(fs) : IsPanic(fs[f]) THEN Panic
              ELSE [v EXCEPT !.names = Eager([j \in 1..Len(fk) |-> fk[j][1].name]), !.fields = fs]
    [] v.k \in {"plain", "const", "dict"} -> IF path # <<>> THEN MissingVec(v.len) ELSE v
    [] v.k \in {"named", "err"} -> LET in == Proj(path, v.in) IN IF IsPanic(in) THEN Panic ELSE [v EXCEPT !.in = in]
    [] v.k \in {"arr", "set"} -> LET in == Proj(<<>>, v.in) IN IF IsPanic(in) THEN Panic ELSE [v EXCEPT !.in = in]
    [] v.k = "map" -> LET ks == Proj(<<>>, v.keys)  vs == Proj(<<>>, v.vals) IN
                      IF IsPanic(ks) \/ IsPanic(vs) THEN Panic ELSE [v EXCEPT !.keys = ks, !.vals = vs]
    [] v.k = "union" -> LET vs == Eager([j \in 1..Len(v.vals) |-> Proj(<<>>, v.vals[j])]) IN
                        IF \E j \in 1..Len(vs) : IsPanic(vs[j]) THEN Panic ELSE [v EXCEPT !.vals = vs]
    [] OTHER -> v

ProjSeq(paths, e) ==
  LET path == NewProjection(paths, 1, <<>>) IN
  IF e.k = "single" THEN
       LET vec == LV(e.col, NoMask, 0, NoMask, path)
           pv == IF IsPanic(vec) THEN Panic ELSE Proj(path, vec) IN
       IF IsPanic(pv) THEN PanicSeq
       ELSE Eager([i \in 1..VLen(pv) |-> [t |-> e.types[1], d |-> Ser(pv, i)]])
  ELSE LET vs == Eager([j \in 1..Len(e.cols) |-> LV(e.cols[j], NoMask, 0, NoMask, path)])
           pvs == Eager([j \in 1..Len(vs) |-> IF IsPanic(vs[j]) THEN Panic ELSE Proj(path, vs[j])]) IN
       IF \E j \in 1..Len(pvs) : IsPanic(pvs[j]) THEN PanicSeq
       ELSE IF Sum(Eager([j \in 1..Len(pvs) |-> VLen(pvs[j])])) # Len(e.tags) THEN PanicSeq
       ELSE Eager([i \in 1..Len(e.tags) |->
                 [t |-> e.types[e.tags[i] + 1], d |-> Ser(pvs[e.tags[i] + 1], Forward(e.tags, i))]])

\* Reference: the data at a path of a value (absent paths read as missing).
RECURSIVE Nav(_, _)
Nav(d, path) ==
  IF path = <<>> THEN d
  ELSE IF d.x # 0 \/ d.k # "r" \/ d.n THEN MISSING
  ELSE LET k == FieldIdx(d.s, path[1]) IN
       IF k = 0 THEN MISSING ELSE Nav(d.v[k], Tail(path))

\* ================================================================ behaviour
VARIABLE seq
Elems == UNION {[t : {j}, d : Alpha[j]] : j \in 1..Len(Types)}

\* ---- the one modelled defect of the real vector path that is still open
\* (known_findings.d/c03.jsonl, F-C03-1).  The guard follows the loader's own
\* bookkeeping: nc = count.nulls at the node.
\*  "union-nulls": a union vector whose slots include nulls (its own or those
\*     of an enclosing record): the tags hold one entry per non-null value
\*     and vector.Union never consults the nulls.
\* (Repaired and no longer guarded: error values under a nullable record
\* d09869412, enum columns 1f68c5df7, paths reaching into containers b8e7ab086.)
RECURSIVE Defects(_, _)
Defects(col, nc) ==
  CASE col.k = "nulls" -> Defects(col.in, nc + col.cnt)
    [] col.k \in {"named", "err"} -> Defects(col.in, nc)
    [] col.k = "rec"   -> UNION {Defects(col.fields[f], nc) : f \in 1..Len(col.fields)}
    [] col.k \in {"arr", "set"} -> Defects(col.in, 0)
    [] col.k = "map"   -> Defects(col.keys, 0) \cup Defects(col.vals, 0)
    [] col.k = "union" -> (IF nc > 0 THEN {"union-nulls"} ELSE {})
                          \cup UNION {Defects(col.vals[j], 0) : j \in 1..Len(col.vals)}
    [] OTHER -> {}
ColsOf(e) == IF e.k = "single" THEN <<e.col>> ELSE e.cols
DefectsOf(e) == UNION {Defects(ColsOf(e)[j], 0) : j \in 1..Len(ColsOf(e))}
Defect(e) == DefectsOf(e) # {}

RowOK == FlatSeq(DecSeq(Enc(seq))) = FlatSeq(seq)
VecOK == LET e == Enc(seq) IN Defect(e) \/ FlatSeq(LoadSeq(e)) = FlatSeq(seq)
ProjAt(e, paths) ==
  LET pr == ProjSeq(paths, e) IN
  /\ ~IsPanicSeq(pr) /\ Len(pr) = Len(seq)
  /\ \A i \in 1..Len(seq) : \A j \in 1..Len(paths) :
        Flat(Nav(pr[i].d, paths[j])) = Flat(Nav(seq[i].d, paths[j]))
ProjOK == LET e == Enc(seq) IN Defect(e) \/ \A paths \in Projections : ProjAt(e, paths)

\* The cache keeps what a projection loaded (shadow vectors with the nulls
\* they were built with) and a later fetch of the same object reuses it:
\* Warm(p, f) is the vector a full fetch builds on an object warmed by the
\* projection whose load produced p -- what p loaded, the rest from a fresh
\* load f.  The whole values read that way must be the written sequence.
RECURSIVE Warm(_, _)
Warm(p, f) ==
  CASE p.k = "unloaded" -> f
    [] p.k = "rec" -> [p EXCEPT !.fields = Eager([j \in 1..Len(p.fields) |-> Warm(p.fields[j], f.fields[j])])]
    [] p.k \in {"named", "err"} -> [p EXCEPT !.in = Warm(p.in, f.in)]
    [] OTHER -> p                      \* leaves, and containers (loaded whole)
WarmAt(e, paths) ==
  LET path == NewProjection(paths, 1, <<>>)
      cols == ColsOf(e)
      ws == Eager([j \in 1..Len(cols) |-> Warm(LV(cols[j], NoMask, 0, NoMask, path), LV(cols[j], NoMask, 0, NoMask, <<>>))])
      out == IF e.k = "single"
             THEN Eager([i \in 1..VLen(ws[1]) |-> [t |-> e.types[1], d |-> Ser(ws[1], i)]])
             ELSE Eager([i \in 1..Len(e.tags) |-> [t |-> e.types[e.tags[i] + 1], d |-> Ser(ws[e.tags[i] + 1], Forward(e.tags, i))]]) IN
  FlatSeq(out) = FlatSeq(seq)
WarmOK == LET e == Enc(seq) IN Defect(e) \/ \A paths \in Projections : WarmAt(e, paths)

\* ---- export: the case, the predicted column tree and both predicted reads
RECURSIVE Shape(_)
Shape(col) ==      \* what the harness can read off the real metadata
  CASE col.k \in {"named", "err"} -> [k |-> col.k, kids |-> <<Shape(col.in)>>, n |-> <<>>]
    [] col.k = "nulls" -> [k |-> "nulls", kids |-> <<Shape(col.in)>>, n |-> <<col.cnt>> \o col.runs]
    [] col.k = "const" -> [k |-> "const", kids |-> <<>>, n |-> <<col.cnt>>]
    [] col.k = "dict"  -> [k |-> "dict", kids |-> <<>>, n |-> <<col.cnt, Len(col.dict)>> \o col.sel]
    [] col.k = "plain" -> [k |-> "plain", kids |-> <<>>, n |-> <<col.cnt, Cardinality(ToSet(col.vals))>> \o col.vals]
    [] col.k = "rec"   -> [k |-> "rec", kids |-> Eager([f \in 1..Len(col.fields) |-> Shape(col.fields[f])]), n |-> <<col.len>>]
    [] col.k \in {"arr", "set"} -> [k |-> col.k, kids |-> <<Shape(col.in)>>, n |-> <<col.len>> \o col.lens]
    [] col.k = "map"   -> [k |-> "map", kids |-> <<Shape(col.keys), Shape(col.vals)>>, n |-> <<col.len>> \o col.lens]
    [] col.k = "union" -> [k |-> "union", kids |-> Eager([j \in 1..Len(col.vals) |-> Shape(col.vals[j])]), n |-> <<col.len>> \o col.tags]
Case(sq) ==
  LET e == Enc(sq) IN
  [seq |-> sq, ty |-> Types, types |-> e.types,
   tags |-> IF e.k = "single" THEN <<>> ELSE e.tags,
   cols |-> Eager([j \in 1..Len(ColsOf(e)) |-> Shape(ColsOf(e)[j])]),
   row |-> FlatSeq(DecSeq(e)), vec |-> FlatSeq(LoadSeq(e)), want |-> FlatSeq(sq), defects |-> DefectsOf(e),
   proj |-> LET ps == SetToSeq(Projections) IN
            Eager([q \in 1..Len(ps) |-> [paths |-> ps[q], res |-> FlatSeq(ProjSeq(ps[q], e))]])]

Init == seq = <<>>
Next == /\ Len(seq) < MaxLen
        /\ \E el \in Elems : seq' = Append(seq, el)
        /\ (PrintMode = "case" => PrintT(ToJson(Case(seq'))))
Spec == Init /\ [][Next]_seq

\* Non-vacuity: every encoding kind and wrapper is produced by some sequence.
RECURSIVE KindsIn(_)
KindsIn(col) ==
  {col.k} \cup (CASE col.k \in {"named", "err", "nulls", "arr", "set"} -> KindsIn(col.in)
                  [] col.k = "rec" -> UNION {KindsIn(col.fields[f]) : f \in 1..Len(col.fields)}
                  [] col.k = "map" -> KindsIn(col.keys) \cup KindsIn(col.vals)
                  [] col.k = "union" -> UNION {KindsIn(col.vals[j]) : j \in 1..Len(col.vals)}
                  [] OTHER -> {})
=============================================================================
