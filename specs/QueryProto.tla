----------------------------- MODULE QueryProto -----------------------------
(***************************************************************************)
(* C19 -- the response protocol of a lake-service query.                   *)
(*                                                                         *)
(* Transcribed from                                                        *)
(*   service/handlers.go   handleQuery (setup errors -> w.Error = HTTP     *)
(*                         error; errors after the flowgraph started ->    *)
(*                         handleError = writer.WriteError + status.setError*)
(*                         ; batches, EndOfChannel, progress)               *)
(*   api/queryio/writer.go Writer.WriteBatch / WhiteChannelEnd /           *)
(*                         WriteProgress / WriteError / WriteControl       *)
(*                         (control frames only if ctrl AND the format has *)
(*                         a controlWriter: zng, zjson)                    *)
(*   service/core.go       queryStatus (GET /query/status/{request id})    *)
(*   api/queryio/client.go scanner.Pull (QueryChannelSet sets the label,   *)
(*                         QueryChannelEnd, QueryStats, QueryError ->      *)
(*                         error), api/client Connection.Do (non-2xx ->    *)
(*                         error)                                          *)
(*                                                                         *)
(* The flowgraph is abstracted to prod[ch], the sequence of (unique)       *)
(* values each output channel yields, and cfg.fate: "ok", "setupfail" (the *)
(* query does not parse/compile: error before streaming) or "fail" (Pull   *)
(* returns an error at some point after streaming started).  The server    *)
(* appends frames to wire (the HTTP response, FIFO); the client consumes   *)
(* them in order.                                                          *)
(*                                                                         *)
(* Properties (checked exhaustively for all Prods x inband x ctrl x fate x *)
(* batchings x interleavings, and evaluated on recorded client traces by   *)
(* QueryProtoTrace.tla):                                                   *)
(*   ErrIff    the client reports an error iff the server hit one          *)
(*             (in-band QueryError when the response can carry control     *)
(*             frames, the HTTP status for setup errors, the query-status  *)
(*             endpoint otherwise)                                         *)
(*   Ordered   the values of a channel arrive in production order,         *)
(*             attributed to the right channel when labels are available   *)
(*   Complete  a response that ends without error carries every value      *)
(*   WireOK    status first, nothing but eof after an error frame          *)
(***************************************************************************)
EXTENDS Integers, Sequences, FiniteSets, TLC

CONSTANTS Prods,      \* set of functions [channel name -> Seq(value)] to explore
          MaxStats,   \* bound on timer-driven progress frames
          Bug         \* "none"; negative controls: "drop-error", "drop-status", "reorder", "truncate"

VARIABLES cfg,        \* [inband, ctrl : BOOLEAN, fate : {"ok","setupfail","fail"}]
          prod,       \* [channel -> Seq(value)]  what the flowgraph yields
          sstate,     \* server: "setup" | "streaming" | "failed" | "done"
          sent,       \* [channel -> number of values written]
          ended,      \* channels whose EndOfChannel was handled
          wchan,      \* queryio.Writer.channel
          nstats,     \* timer-driven progress frames so far
          qstatus,    \* queryStatus.error as served by /query/status/{id}: "" | "error"
          wire,       \* frames in flight (server -> client)
          whist,      \* every frame ever written (ghost)
          cstate,     \* client: "wait" | "reading" | "eof" | "done"
          cchan,      \* scanner.channel
          got,        \* [label -> Seq(value)] values delivered to the caller, by label
          ceoc,       \* channel ends seen by the client
          cerr        \* the client reported an error to its caller

svars == <<sstate, sent, ended, wchan, nstats, qstatus>>
cvars == <<cstate, cchan, got, ceoc, cerr>>
vars == <<cfg, prod, svars, wire, whist, cvars>>

Unlab == ""                      \* label of values that arrive without a channel-set frame
Chans == DOMAIN prod
\* control frames reach the client iff ctrl=T and the format's writer is a controlWriter
Labelled == cfg.inband /\ cfg.ctrl
Fates == {"ok", "setupfail", "fail"}

F(t, a) == [t |-> t, a |-> a, vs |-> <<>>]
FV(vs) == [t |-> "vals", a |-> "", vs |-> vs]

Emit(fs) == wire' = wire \o fs /\ whist' = whist \o fs

RevSeq(s) == [i \in 1..Len(s) |-> s[Len(s) + 1 - i]]

\* ---- server (handleQuery) -------------------------------------------------
\* parse / compile error: w.Error -> HTTP error status, JSON body, no stream
SetupFail ==
  /\ sstate = "setup" /\ cfg.fate = "setupfail"
  /\ sstate' = "done"
  /\ Emit(<<F("http", "err"), F("eof", "")>>)
  /\ UNCHANGED <<sent, ended, wchan, nstats, qstatus>>

\* the flowgraph compiled; from here on errors can only travel in-band
SetupOK ==
  /\ sstate = "setup" /\ cfg.fate # "setupfail"
  /\ sstate' = "streaming"
  /\ Emit(<<F("http", "ok")>>)
  /\ UNCHANGED <<sent, ended, wchan, nstats, qstatus>>

\* Writer.WriteBatch(label, batch): channel-set control frame when the label changes
SendVals(ch, n) ==
  /\ sstate = "streaming" /\ ch \in Chans \ ended
  /\ n >= 1 /\ sent[ch] + n <= Len(prod[ch])
  /\ LET vs0 == SubSeq(prod[ch], sent[ch] + 1, sent[ch] + n)
         vs == IF Bug = "reorder" THEN RevSeq(vs0) ELSE vs0
         set == IF wchan # ch /\ Labelled THEN <<F("cset", ch)>> ELSE <<>>
     IN  Emit(set \o <<FV(vs)>>)
  /\ wchan' = ch
  /\ sent' = [sent EXCEPT ![ch] = @ + n]
  /\ UNCHANGED <<sstate, ended, nstats, qstatus>>

\* zbuf.EndOfChannel -> Writer.WhiteChannelEnd
EndChan(ch) ==
  /\ sstate = "streaming" /\ ch \in Chans \ ended
  /\ sent[ch] = Len(prod[ch]) \/ (Bug = "truncate" /\ sent[ch] > 0)
  /\ ended' = ended \cup {ch}
  /\ Emit(IF Labelled THEN <<F("cend", ch)>> ELSE <<>>)
  /\ UNCHANGED <<sstate, sent, wchan, nstats, qstatus>>

\* timer.C -> Writer.WriteProgress
Stats ==
  /\ sstate = "streaming" /\ nstats < MaxStats
  /\ nstats' = nstats + 1
  /\ Emit(IF Labelled THEN <<F("stats", "")>> ELSE <<>>)
  /\ UNCHANGED <<sstate, sent, ended, wchan, qstatus>>

\* batch == nil: final progress, return, deferred writer.Close()
Finish ==
  /\ sstate = "streaming" /\ ended = Chans /\ cfg.fate = "ok"
  /\ sstate' = "done"
  /\ Emit((IF Labelled THEN <<F("stats", "")>> ELSE <<>>) \o <<F("eof", "")>>)
  /\ UNCHANGED <<sent, ended, wchan, nstats, qstatus>>

\* Pull returned an error: handleError = writer.WriteError(err); status.setError(err); return
Fail ==
  /\ sstate = "streaming" /\ cfg.fate = "fail"
  /\ sstate' = "failed"
  /\ qstatus' = IF Bug = "drop-status" THEN "" ELSE "error"
  /\ Emit((IF Labelled /\ Bug # "drop-error" THEN <<F("error", "")>> ELSE <<>>) \o <<F("eof", "")>>)
  /\ UNCHANGED <<sent, ended, wchan, nstats>>

Server == \/ SetupFail \/ SetupOK \/ Stats \/ Finish \/ Fail
          \/ \E ch \in Chans : EndChan(ch) \/ \E n \in 1..Len(prod[ch]) : SendVals(ch, n)

\* ---- client ---------------------------------------------------------------
Pop == wire' = Tail(wire) /\ UNCHANGED whist
HeadIs(t) == wire # <<>> /\ Head(wire).t = t

\* Connection.Do: a status outside 2xx is turned into an error
CHttp ==
  /\ cstate = "wait" /\ HeadIs("http") /\ Pop
  /\ IF Head(wire).a = "ok"
     THEN cstate' = "reading" /\ cerr' = cerr
     ELSE cstate' = "done" /\ cerr' = TRUE
  /\ UNCHANGED <<cchan, got, ceoc>>

\* scanner.Pull: *api.QueryChannelSet
CCset ==
  /\ cstate = "reading" /\ HeadIs("cset") /\ Pop
  /\ cchan' = Head(wire).a
  /\ UNCHANGED <<cstate, got, ceoc, cerr>>

\* scanner.Pull: a batch, labelled with the current channel
CVals ==
  /\ cstate = "reading" /\ HeadIs("vals") /\ Pop
  /\ got' = [got EXCEPT ![cchan] = @ \o Head(wire).vs]
  /\ UNCHANGED <<cstate, cchan, ceoc, cerr>>

\* scanner.Pull: *api.QueryChannelEnd
CCend ==
  /\ cstate = "reading" /\ HeadIs("cend") /\ Pop
  /\ ceoc' = ceoc \cup {Head(wire).a}
  /\ UNCHANGED <<cstate, cchan, got, cerr>>

\* scanner.Pull: *api.QueryStats
CStats ==
  /\ cstate = "reading" /\ HeadIs("stats") /\ Pop
  /\ UNCHANGED cvars

\* scanner.Pull: *api.QueryError -> errors.New(ctrl.Error)
CError ==
  /\ cstate = "reading" /\ HeadIs("error") /\ Pop
  /\ cerr' = TRUE
  /\ UNCHANGED <<cstate, cchan, got, ceoc>>

\* end of the response body
CEof ==
  /\ cstate = "reading" /\ HeadIs("eof") /\ Pop
  /\ cstate' = "eof"
  /\ UNCHANGED <<cchan, got, ceoc, cerr>>

\* GET /query/status/{X-Request-ID}: the only error channel of a response
\* without control frames
CPoll ==
  /\ cstate = "eof"
  /\ cerr' = (cerr \/ qstatus = "error")
  /\ cstate' = "done"
  /\ UNCHANGED <<wire, whist, cchan, got, ceoc>>

\* a client that reads control frames (lake/api remote) does not poll
CDone ==
  /\ cstate = "eof" /\ Labelled
  /\ cstate' = "done"
  /\ UNCHANGED <<wire, whist, cchan, got, ceoc, cerr>>

Client == CHttp \/ CCset \/ CVals \/ CCend \/ CStats \/ CError \/ CEof \/ CPoll \/ CDone

\* ---- specification --------------------------------------------------------
Labels == Chans \cup {Unlab}

InitWith(c, p) ==
  /\ cfg = c /\ prod = p
  /\ sstate = "setup" /\ sent = [ch \in DOMAIN p |-> 0] /\ ended = {}
  /\ wchan = Unlab /\ nstats = 0 /\ qstatus = ""
  /\ wire = <<>> /\ whist = <<>>
  /\ cstate = "wait" /\ cchan = Unlab
  /\ got = [x \in (DOMAIN p) \cup {Unlab} |-> <<>>]
  /\ ceoc = {} /\ cerr = FALSE

Init == \E ib \in BOOLEAN, ct \in BOOLEAN, f \in Fates, p \in Prods :
          InitWith([inband |-> ib, ctrl |-> ct, fate |-> f], p)

Next == (Server /\ UNCHANGED <<cfg, prod, cvars>>) \/ (Client /\ UNCHANGED <<cfg, prod, svars>>)

Spec == Init /\ [][Next]_vars

\* ---- properties -----------------------------------------------------------
TypeOK ==
  /\ cfg.fate \in Fates /\ cfg.inband \in BOOLEAN /\ cfg.ctrl \in BOOLEAN
  /\ sstate \in {"setup", "streaming", "failed", "done"}
  /\ cstate \in {"wait", "reading", "eof", "done"}
  /\ \A ch \in Chans : sent[ch] \in 0..Len(prod[ch])
  /\ ended \subseteq Chans /\ qstatus \in {"", "error"}

IsPrefix(s, t) == Len(s) <= Len(t) /\ \A i \in 1..Len(s) : s[i] = t[i]

\* the values of channel ch inside sequence s, in order (values are unique across channels)
Proj(s, ch) == SelectSeq(s, LAMBDA v : \E i \in 1..Len(prod[ch]) : prod[ch][i] = v)
AllVals == UNION {{prod[ch][i] : i \in 1..Len(prod[ch])} : ch \in Chans}

ServerErr == cfg.fate # "ok"

\* "the client reports an error iff the server hit one"
ErrIff == cstate = "done" => (cerr <=> ServerErr)

\* "batches of a channel arrive in production order" (and under the right label)
Ordered ==
  IF Labelled
  THEN /\ \A ch \in Chans : IsPrefix(got[ch], prod[ch])
       /\ (Unlab \notin Chans => got[Unlab] = <<>>)
  ELSE /\ \A ch \in Chans : ch # Unlab => got[ch] = <<>>
       /\ \A i \in 1..Len(got[Unlab]) : got[Unlab][i] \in AllVals
       /\ \A ch \in Chans : IsPrefix(Proj(got[Unlab], ch), prod[ch])

\* a response that ended and was reported as a success carries everything
Complete ==
  (cstate = "done" /\ ~cerr) =>
     IF Labelled THEN (\A ch \in Chans : got[ch] = prod[ch]) /\ ceoc = Chans
     ELSE \A ch \in Chans : Proj(got[Unlab], ch) = prod[ch]

\* status first; an error frame is followed by nothing but the end of the body
WireOK ==
  /\ whist # <<>> => whist[1].t = "http"
  /\ \A i \in 1..Len(whist) : \A j \in (i + 1)..Len(whist) :
        /\ whist[i].t = "error" => whist[j].t = "eof"
        /\ whist[i].t # "eof"
  /\ \A i \in 1..Len(whist) : whist[i].t \in {"cset", "cend", "stats", "error"} => Labelled

\* the run can always be driven to completion (no dead ends): checked as an
\* invariant on terminal states
Terminal == ~ENABLED Next
TerminalDone == Terminal => cstate = "done"

\* ---- model parameters for the exhaustive run (cfg files cannot hold functions) --
MCProds ==
  { [ch \in {"main"} |-> <<>>],
    [ch \in {"main"} |-> <<1, 2, 3>>],
    [ch \in {"a", "b"} |-> IF ch = "a" THEN <<1, 2>> ELSE <<3, 4>>],
    [ch \in {"a", "b"} |-> IF ch = "a" THEN <<1>> ELSE <<>>] }
MCProdsQuick ==
  { [ch \in {"main"} |-> <<>>],
    [ch \in {"main"} |-> <<1, 2>>],
    [ch \in {"a", "b"} |-> IF ch = "a" THEN <<1>> ELSE <<2>>] }
=============================================================================
