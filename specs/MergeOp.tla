------------------------------- MODULE MergeOp -------------------------------
(***************************************************************************)
(* C06 (part 3) -- merging inputs that are each sorted yields a sorted     *)
(* interleaving containing every input value exactly once.                 *)
(*                                                                         *)
(* Transcription of runtime/sam/op/merge/merge.go:                         *)
(*   Op.Pull   pop the parent with the smallest head; if it is the only    *)
(*             one, or its LAST buffered value <= the next parent's head,  *)
(*             emit all its buffered values as one batch and replenish it; *)
(*             otherwise push it back and build a batch value by value     *)
(*             with zbuf.NewPuller(o).Pull, i.e. up to PB (= zbuf.         *)
(*             PullerBatchValues) calls of                                 *)
(*   Op.Read   take the first value of the parent at the heap root,        *)
(*             replenish / drop the parent when its batch is used up,      *)
(*             heap.Fix.                                                   *)
(*   puller.replenish   next batch of that parent, or end of stream.       *)
(* The head-of-line heap is ordered by Less = cmp(head i, head j) < 0 only *)
(* (no tie-break), so among parents with equal heads the heap layout       *)
(* decides; the model leaves that choice nondeterministic.  The property   *)
(* does not depend on it.                                                  *)
(*                                                                         *)
(* A behaviour starts from an input: P parents, parent p a sequence of     *)
(* non-empty batches of keys (classes 1..K of an abstract total preorder), *)
(* non-decreasing along the parent.  A value is identified by              *)
(* <<parent, index in parent>>.                                            *)
(*                                                                         *)
(* TLC checks for ALL inputs within the bounds and ALL tie choices that    *)
(* the output is sorted, complete, duplicate-free and keeps each parent's  *)
(* order, and prints every finished behaviour                              *)
(*     <<parents, output batches>>   (as a string)                         *)
(* The harness runs the real merge.Op on each input and requires the real  *)
(* batch sequence to be one of the printed ones for that input.            *)
(*                                                                         *)
(* Rule = "code" is the code.  Rule = "first" compares the FIRST buffered  *)
(* value instead of the last one in Pull (a plausible slip); it is used by *)
(* MergeOp.mut.cfg to show the invariants are not vacuous.                 *)
(***************************************************************************)
EXTENDS Integers, Sequences, FiniteSets, SequencesExt, TLC

CONSTANTS Ps,        \* set of parent counts, e.g. {1,2,3}
          K,         \* number of key classes
          MaxPB,     \* max batches per parent
          MaxBS,     \* max values per batch
          MaxN,      \* max total number of values
          PB,        \* zbuf.PullerBatchValues
          Rule,      \* "code" | "first"
          Export

VARIABLES parents,   \* input: parents[p] = sequence of batches of keys (constant)
          nextb,     \* nextb[p]: number of batches of p already received (replenish)
          vals,      \* vals[p]: puller.vals -- indexes (into p's flattened values) still buffered
          hol,       \* set of parents in the head-of-line heap
          acc,       \* values read so far by the value-by-value puller of the current Pull
          flat,      \* flat[p]: parent p's keys without the batch structure (set once by Start)
          total,     \* number of input values so far (input construction only)
          out,       \* emitted batches: sequences of <<p, i>>
          pc         \* "build" | "pull" | "read" | "done"
vars == <<parents, nextb, vals, hol, acc, flat, total, out, pc>>

P == Len(parents)
Flat(p) == flat[p]
KeyOf(v) == Flat(v[1])[v[2]]
SumLen(bs, m) == FoldLeft(LAMBDA a, b : a + Len(b), 0, SubSeq(bs, 1, m))
\* the index sequence of batch b of parent p
BatchIdx(p, b) == LET start == SumLen(parents[p], b - 1) IN [i \in 1..Len(parents[p][b]) |-> start + i]

\* ------------------------------------------------------------------ inputs
SortedKeys(s) == \A i \in 1..Len(s) - 1 : s[i] <= s[i + 1]
Batches == UNION {[1..m -> 1..K] : m \in 1..MaxBS}
ParentSeqs == {bs \in UNION {[1..m -> Batches] : m \in 0..MaxPB} : SortedKeys(FlattenSeq(bs))}
\* the same with the number of values attached (constant: evaluated once)
ParentRecs == {[bs |-> bs, n |-> Len(FlattenSeq(bs))] : bs \in ParentSeqs}
MaxP == CHOOSE m \in Ps : \A q \in Ps : q <= m

\* replenish(p): the next batch or end of stream (p leaves the heap)
HasMore(p, nb) == nb[p] < Len(parents[p])

\* The input is built parent by parent (pc = "build") so that TLC's workers
\* share the enumeration of inputs; nothing of the operator runs before Start.
Init ==
  /\ parents = <<>> /\ nextb = <<>> /\ vals = <<>> /\ hol = {} /\ flat = <<>> /\ total = 0
  /\ acc = <<>> /\ out = <<>> /\ pc = "build"

AddParent ==
  /\ pc = "build" /\ Len(parents) < MaxP
  /\ \E r \in ParentRecs :
       /\ total + r.n <= MaxN
       /\ parents' = Append(parents, r.bs)
       /\ total' = total + r.n
  /\ UNCHANGED <<nextb, vals, hol, acc, flat, out, pc>>

\* start(): replenish every parent, heap.Init
Start ==
  /\ pc = "build" /\ Len(parents) \in Ps
  /\ nextb' = [p \in 1..P |-> IF Len(parents[p]) > 0 THEN 1 ELSE 0]
  /\ vals' = [p \in 1..P |-> IF Len(parents[p]) > 0 THEN BatchIdx(p, 1) ELSE <<>>]
  /\ hol' = {p \in 1..P : Len(parents[p]) > 0}
  /\ flat' = [p \in 1..P |-> FlattenSeq(parents[p])]
  /\ pc' = "pull"
  /\ UNCHANGED <<parents, acc, out, total>>

HeadK(p) == Flat(p)[vals[p][1]]
LastV(p) == Flat(p)[vals[p][Len(vals[p])]]
\* parents a heap ordered by Less may have at its root
MinOf(S) == {p \in S : \A q \in S : HeadK(p) <= HeadK(q)}

Replenish(p) ==
  IF HasMore(p, nextb)
  THEN /\ nextb' = [nextb EXCEPT ![p] = @ + 1]
       /\ vals' = [vals EXCEPT ![p] = BatchIdx(p, nextb[p] + 1)]
       /\ hol' = hol \cup {p}
  ELSE /\ nextb' = nextb
       /\ vals' = [vals EXCEPT ![p] = <<>>]
       /\ hol' = hol \ {p}

\* Op.Pull, Len() == 0: end of stream
PullEOS ==
  /\ pc = "pull" /\ hol = {}
  /\ pc' = "done"
  /\ (Export => PrintT(ToString(<<parents, out>>)))
  /\ UNCHANGED <<parents, nextb, vals, hol, acc, flat, total, out>>

\* Op.Pull: min := heap.Pop; whole-batch fast path or value-by-value mode
Pull ==
  /\ pc = "pull" /\ hol # {}
  /\ \E m \in MinOf(hol) :
       LET others == hol \ {m}
           probe  == IF Rule = "code" THEN LastV(m) ELSE HeadK(m)
           safe   == others = {} \/ \A q \in MinOf(others) : probe <= HeadK(q)
       IN  IF safe
           THEN /\ out' = Append(out, [i \in 1..Len(vals[m]) |-> <<m, vals[m][i]>>])
                /\ Replenish(m)
                /\ pc' = "pull" /\ acc' = <<>>
           ELSE /\ pc' = "read" /\ acc' = <<>>           \* heap.Push(o, min); NewPuller(o).Pull
                /\ UNCHANGED <<nextb, vals, hol, out>>
  /\ UNCHANGED <<parents, flat, total>>

\* Op.Read (called by the zbuf puller until PB values are collected or Read returns nil)
ReadStep ==
  /\ pc = "read" /\ hol # {} /\ Len(acc) < PB
  /\ \E u \in MinOf(hol) :
       /\ acc' = Append(acc, <<u, vals[u][1]>>)
       /\ IF Len(vals[u]) > 1
          THEN /\ vals' = [vals EXCEPT ![u] = Tail(@)]
               /\ UNCHANGED <<nextb, hol>>
          ELSE Replenish(u)
  /\ UNCHANGED <<parents, flat, total, out, pc>>

\* the zbuf puller returns its batch: full, or Read returned nil
ReadEnd ==
  /\ pc = "read" /\ (Len(acc) = PB \/ hol = {})
  /\ out' = IF acc # <<>> THEN Append(out, acc) ELSE out
  /\ acc' = <<>> /\ pc' = "pull"
  /\ UNCHANGED <<parents, flat, total, nextb, vals, hol>>

Next == AddParent \/ Start \/ PullEOS \/ Pull \/ ReadStep \/ ReadEnd
Spec == Init /\ [][Next]_vars

\* ---------------------------------------------------------------- properties
Emitted == FlattenSeq(out) \o acc
AllVals == UNION {{<<p, i>> : i \in 1..Len(Flat(p))} : p \in 1..P}
\* sorted so far
OutSorted == \A i \in 1..Len(Emitted) - 1 : KeyOf(Emitted[i]) <= KeyOf(Emitted[i + 1])
\* no duplicates, and each parent's values leave in the parent's order
NoDup == \A i \in 1..Len(Emitted), j \in 1..Len(Emitted) : i < j => Emitted[i] # Emitted[j]
ParentOrder == \A i \in 1..Len(Emitted), j \in 1..Len(Emitted) :
                 (i < j /\ Emitted[i][1] = Emitted[j][1]) => Emitted[i][2] < Emitted[j][2]
\* nothing emitted may exceed a value still waiting (no batch overtakes a head)
NoOvertake == \A p \in hol : Emitted # <<>> => KeyOf(Emitted[Len(Emitted)]) <= HeadK(p)
\* at the end every input value was emitted exactly once
Complete == pc = "done" => ToSet(Emitted) = AllVals /\ Len(Emitted) = Cardinality(AllVals)
NoEmptyBatch == \A b \in 1..Len(out) : out[b] # <<>>
TypeOK == pc \in {"build", "pull", "read", "done"} /\ hol \subseteq 1..P /\ Len(acc) <= PB

ASSUME PB >= 1 /\ K >= 2 /\ MaxBS >= 1 /\ MaxPB >= 1
=============================================================================
