------------------------------ MODULE PullProto ------------------------------
(***************************************************************************)
(* C08 (protocol part) -- the pull protocol that joins parallel legs.      *)
(*                                                                         *)
(* Implementation-shaped model of                                          *)
(*   runtime/sam/op/combine/combine.go  Op.Pull/next/unwait/block/         *)
(*                                      propagateDone, puller.run/wait     *)
(*   runtime/sam/op/merge/merge.go      Op.Pull/run/start/propagateDone,   *)
(*                                      puller.run/replenish               *)
(*   runtime/sam/op/mux.go              Mux.Pull, puller.run               *)
(*   runtime/sam/op/router.go           Router.run/sendEOS/Send/blocked/   *)
(*                                      unblock, route.Pull                *)
(*   runtime/sam/op/fork/fork.go        splitter.Forward (Send to every    *)
(*                                      exit in order)                     *)
(*   runtime/sam/op/head/head.go        the consumer shape "head": K       *)
(*                                      batches, then one Pull(true)       *)
(* with one goroutine per parent of a fan-in, the channels with their real *)
(* capacities (combine's queue: cap = number of parents; everything else   *)
(* unbuffered, i.e. a rendezvous of one sender arm and one receiver arm),  *)
(* Pull(false) / Pull(true), EOS per batch group, error delivery and       *)
(* context cancellation.  One action per channel operation / select arm.   *)
(*                                                                         *)
(* Topologies (Topo):                                                      *)
(*   "combine" | "merge" | "mux" : NLegs leaves -> fan-in -> consumer      *)
(*        (the scatter legs of a parallel scan joined by dag.Combine /     *)
(*        dag.Merge; the outputs of a flowgraph joined by Mux)             *)
(*   "fork-combine" | "fork-merge" : one leaf -> Router (NLegs exits,      *)
(*        fork's splitter) -> [Skew: exit 1 drops every batch] -> fan-in   *)
(* A leaf is a scripted source: its Pull(false) returns the next item of   *)
(* its script when the environment lets it (LeafReturn -- the "gate" of    *)
(* the harness), Pull(true) is immediate and closes it.                    *)
(* Consumers (Mode): "drain" | "head" (K batches, then Pull(true)) |       *)
(* "cancel" (K batches, then cancel the context); every consumer finally   *)
(* cancels the context (runtime.Context.Cancel at the end of a query).     *)
(*                                                                         *)
(* Items: n > 0 a batch (also its merge key), 0 EOS, -1 an upstream error, *)
(* -2 the context error, -10-p mux's end-of-channel marker of parent p.    *)
(*                                                                         *)
(* Deliberate deviations found while transcribing are named actions that   *)
(* set taint: RouterEosDropsError (Router.sendEOS ignores its err          *)
(* argument: the routes receive a plain EOS).                              *)
(***************************************************************************)
EXTENDS Integers, Sequences, FiniteSets, TLC, Json

CONSTANTS
  Topos,      \* subset of {"combine", "merge", "mux", "fork-combine", "fork-merge"}
  Widths,     \* fan-in widths, e.g. {1, 2, 3}
  Modes,      \* subset of {"drain", "head", "cancel"}
  Ks,         \* K of head / cancel, e.g. {0, 1}
  ScriptSel,  \* "clean" | "errors" | "both" : which leaf scripts
  Skews,      \* subset of BOOLEAN: exit 1 of a fork drops every batch
  Coarse,     \* TRUE: the environment (LeafReturn, consumer calls) moves only when no goroutine can
  EmitMod, EmitRem   \* export of finished behaviours (EmitMod = 0: none)

VARIABLES
  vTopo, vN, vMode, vK, vSkew,  \* the case
  vScr,                          \* vScr[i]: script of leaf i (sequence of items > 0 or -1)
  lpos, ldone, lclosed,          \* leaves: next script position, Pull(true) calls seen, closed
  ctx,                           \* the context is cancelled
  ppc, pitem,                    \* fan-in puller goroutines 1..vN: program counter, held item
  queue, blocked,                \* combine: o.queue (FIFO, cap vN), parent.blocked
  hol, hq,                       \* merge: head-of-line batch per parent (0 = none); o.hol, the heap array of parents
  nparents,                      \* mux: m.nparents
  opc, ocur, oidx, oret, oafter, \* the fan-in operator, running in the consumer's goroutine
  pdpc,                          \* combine.propagateDone: one goroutine per unblocked parent
  rpc, ritem, rk, rblocked,      \* the Router goroutine (fork topologies)
  cpc, cnt, delivered,           \* the consumer: state, batches received, everything returned to it
  taint,                         \* named deviations taken
  h                              \* history of environment moves <<"L", leaf>>, <<"C", 1 pull | 2 done | 3 cancel>> and consumer returns <<"R", item>>

vars == <<vTopo, vN, vMode, vK, vSkew, vScr, lpos, ldone, lclosed, ctx, ppc, pitem, queue, blocked, hol, hq, nparents,
          opc, ocur, oidx, oret, oafter, pdpc, rpc, ritem, rk, rblocked, cpc, cnt, delivered, taint, h>>
view == <<vTopo, vN, vMode, vK, vSkew, vScr, lpos, ldone, lclosed, ctx, ppc, pitem, queue, blocked, hol, hq, nparents,
          opc, ocur, oidx, oret, oafter, pdpc, rpc, ritem, rk, rblocked, cpc, cnt, delivered, taint>>

EOS == 0
ERR == -1
CTXERR == -2
EOC(p) == -10 - p
IsBatch(x) == x > 0

Fork == vTopo \in {"fork-combine", "fork-merge"}
FanKind == CASE vTopo \in {"combine", "fork-combine"} -> "combine"
             [] vTopo \in {"merge", "fork-merge"} -> "merge"
             [] OTHER -> "mux"
Pullers == 1..vN
Leaves == IF Fork THEN {1} ELSE 1..vN

\* ---------------------------------------------------------------- scripts
\* Batches are numbered so that a merge of the legs is the sequence 1, 2, 3 ...
\* leaf topologies: vN leaves share the batches 1..3 round robin (so the multiset
\* delivered must not depend on vN); fork topologies: one leaf with 1..2 (3 when skewed)
CleanScripts(tp, n, sk) ==
  IF tp \in {"fork-combine", "fork-merge"} THEN {<< <<1, 2>> >>}
  ELSE {[i \in 1..n |-> SelectSeq(<<1, 2, 3>>, LAMBDA b : ((b - 1) % n) + 1 = i)]}
\* one error: in place of the last batch of leaf 1, or as the only item of the last leaf
ErrScripts(tp, n, sk) ==
  IF tp \in {"fork-combine", "fork-merge"} THEN {<< <<1, ERR>> >>, << <<ERR>> >>}
  ELSE {[i \in 1..n |-> IF i = 1 THEN <<1, ERR>> ELSE <<i>>],
        [i \in 1..n |-> IF i = n THEN <<ERR>> ELSE <<i, i + 3>>]}
Scripts(tp, n, sk) == CASE ScriptSel = "clean" -> CleanScripts(tp, n, sk)
                        [] ScriptSel = "errors" -> ErrScripts(tp, n, sk)
                        [] OTHER -> CleanScripts(tp, n, sk) \cup ErrScripts(tp, n, sk)

AllBatches == {vScr[i][j] : <<i, j>> \in {<<i2, j2>> \in Leaves \X (1..3) : j2 <= Len(vScr[i2]) /\ vScr[i2][j2] > 0}}
HasErr == \E i \in Leaves : \E j \in 1..Len(vScr[i]) : vScr[i][j] = ERR

\* ---------------------------------------------------------------- leaves
LeafItem(i) == IF lclosed[i] \/ lpos[i] > Len(vScr[i]) THEN EOS ELSE vScr[i][lpos[i]]
\* what the goroutine does after its upstream Pull(false) / Pull(true) returned
AfterCall == CASE FanKind = "combine" -> "enq" [] FanKind = "merge" -> "sel" [] OTHER -> "send"
AfterDone == IF FanKind = "combine" THEN "waitd" ELSE "call"

Rec(e) == h' = Append(h, e)

\* ---------------------------------------------------------------- helpers on the state
NBlocked == Cardinality({p \in Pullers : blocked[p]})
PullerExited(p) == ppc[p] \in {"init", "exit"}
\* every goroutine has returned (or was never started)
AllExited == /\ \A p \in Pullers : PullerExited(p)
             /\ \A p \in Pullers : pdpc[p] \in {"none", "fin", "err"}
             /\ rpc \in {"init", "exit"}
             /\ opc = "idle"

\* ================================================================ fan-in pullers: the upstream call
\* Pull(false) on a leaf parks at the harness gate; on a route it is a select on
\* the route's resultCh and ctx.Done (rendezvous actions of the Router below).
PCall(p) ==
  /\ ppc[p] = "call"
  /\ ppc' = [ppc EXCEPT ![p] = IF Fork THEN "rrecv" ELSE "parked"]
  /\ UNCHANGED <<vTopo, vN, vMode, vK, vSkew, vScr, lpos, ldone, lclosed, ctx, pitem, queue, blocked, hol, hq, nparents,
                 opc, ocur, oidx, oret, oafter, pdpc, rpc, ritem, rk, rblocked, cpc, cnt, delivered, taint, h>>

\* Pull(true) on a leaf is immediate; on a route it is a select on doneCh <- and ctx.Done
PCallDone(p) ==
  /\ ppc[p] = "calldone"
  /\ IF Fork
     THEN ppc' = [ppc EXCEPT ![p] = "rdone"] /\ UNCHANGED <<ldone, lclosed>>
     ELSE /\ ppc' = [ppc EXCEPT ![p] = AfterDone]
          /\ ldone' = [ldone EXCEPT ![p] = @ + 1] /\ lclosed' = [lclosed EXCEPT ![p] = TRUE]
  /\ UNCHANGED <<vTopo, vN, vMode, vK, vSkew, vScr, lpos, ctx, pitem, queue, blocked, hol, hq, nparents,
                 opc, ocur, oidx, oret, oafter, pdpc, rpc, ritem, rk, rblocked, cpc, cnt, delivered, taint, h>>

\* route.Pull: case <-r.router.ctx.Done()
PRouteCtx(p) ==
  /\ ctx /\ ppc[p] \in {"rrecv", "rdone"}
  /\ IF ppc[p] = "rrecv"
     THEN ppc' = [ppc EXCEPT ![p] = AfterCall] /\ pitem' = [pitem EXCEPT ![p] = CTXERR]
     ELSE ppc' = [ppc EXCEPT ![p] = AfterDone] /\ UNCHANGED pitem
  /\ UNCHANGED <<vTopo, vN, vMode, vK, vSkew, vScr, lpos, ldone, lclosed, ctx, queue, blocked, hol, hq, nparents,
                 opc, ocur, oidx, oret, oafter, pdpc, rpc, ritem, rk, rblocked, cpc, cnt, delivered, taint, h>>

\* ================================================================ combine.go
\* puller.run: p.queue <- p
CBEnq(p) ==
  /\ FanKind = "combine" /\ ppc[p] = "enq" /\ Len(queue) < vN
  /\ queue' = Append(queue, p) /\ ppc' = [ppc EXCEPT ![p] = "sel"]
  /\ UNCHANGED <<vTopo, vN, vMode, vK, vSkew, vScr, lpos, ldone, lclosed, ctx, pitem, blocked, hol, hq, nparents,
                 opc, ocur, oidx, oret, oafter, pdpc, rpc, ritem, rk, rblocked, cpc, cnt, delivered, taint, h>>

\* Op.next: case parent := <-o.queue   (or everything is blocked: unwait and return EOS)
CBNext ==
  /\ FanKind = "combine" /\ opc = "next"
  /\ IF NBlocked >= vN
     THEN opc' = "unwait" /\ oidx' = 0 /\ UNCHANGED <<queue, ocur>>
     ELSE /\ queue # <<>>
          /\ ocur' = Head(queue) /\ queue' = Tail(queue) /\ opc' = "recv" /\ UNCHANGED oidx
  /\ UNCHANGED <<vTopo, vN, vMode, vK, vSkew, vScr, lpos, ldone, lclosed, ctx, ppc, pitem, blocked, hol, hq, nparents,
                 oret, oafter, pdpc, rpc, ritem, rk, rblocked, cpc, cnt, delivered, taint, h>>

\* puller.run: case p.resultCh <- Result  meets  Op.Pull: case result := <-next.resultCh
CBResult(p) ==
  /\ FanKind = "combine" /\ ppc[p] = "sel" /\ opc = "recv" /\ ocur = p
  /\ CASE pitem[p] < 0 ->      \* an error: the puller returns, Pull returns the error
            /\ opc' = "ret" /\ oret' = pitem[p] /\ ppc' = [ppc EXCEPT ![p] = "exit"] /\ UNCHANGED blocked
       [] pitem[p] = EOS ->    \* o.block(next); continue   and the puller goes to p.wait() (result ignored)
            /\ opc' = "next" /\ blocked' = [blocked EXCEPT ![p] = TRUE] /\ ppc' = [ppc EXCEPT ![p] = "waite"] /\ UNCHANGED oret
       [] OTHER ->
            /\ opc' = "ret" /\ oret' = pitem[p] /\ ppc' = [ppc EXCEPT ![p] = "call"] /\ UNCHANGED blocked
  /\ UNCHANGED <<vTopo, vN, vMode, vK, vSkew, vScr, lpos, ldone, lclosed, ctx, pitem, queue, hol, hq, nparents,
                 ocur, oidx, oafter, pdpc, rpc, ritem, rk, rblocked, cpc, cnt, delivered, taint, h>>

\* propagateDone goroutine: case parent.doneCh <- struct{}{}  meets  puller.run: case <-p.doneCh
CBDone(p) ==
  /\ FanKind = "combine" /\ ppc[p] = "sel" /\ pdpc[p] = "sel"
  /\ pdpc' = [pdpc EXCEPT ![p] = "fin"] /\ blocked' = [blocked EXCEPT ![p] = TRUE]
  \* `if batch == nil` is also true for a pending error: it is dropped like an EOS, no Pull(true)
  /\ ppc' = [ppc EXCEPT ![p] = IF pitem[p] <= 0 THEN "waitd" ELSE "calldone"]
  /\ UNCHANGED <<vTopo, vN, vMode, vK, vSkew, vScr, lpos, ldone, lclosed, ctx, pitem, queue, hol, hq, nparents,
                 opc, ocur, oidx, oret, oafter, rpc, ritem, rk, rblocked, cpc, cnt, delivered, taint, h>>

\* propagateDone goroutine: case <-o.queue (a waiting parent's queue entry is thrown away)
CBPdDrain(p) ==
  /\ FanKind = "combine" /\ pdpc[p] = "sel" /\ queue # <<>>
  /\ queue' = Tail(queue)
  /\ UNCHANGED <<vTopo, vN, vMode, vK, vSkew, vScr, lpos, ldone, lclosed, ctx, ppc, pitem, blocked, hol, hq, nparents,
                 opc, ocur, oidx, oret, oafter, pdpc, rpc, ritem, rk, rblocked, cpc, cnt, delivered, taint, h>>

\* puller.wait: case p.waitCh <- struct{}{}  meets  Op.unwait: case <-o.waitCh
CBWait(p) ==
  /\ FanKind = "combine" /\ ppc[p] \in {"waite", "waitd"} /\ opc = "unwait" /\ oidx < vN
  /\ oidx' = oidx + 1 /\ ppc' = [ppc EXCEPT ![p] = "call"]
  /\ UNCHANGED <<vTopo, vN, vMode, vK, vSkew, vScr, lpos, ldone, lclosed, ctx, pitem, queue, blocked, hol, hq, nparents,
                 opc, ocur, oret, oafter, pdpc, rpc, ritem, rk, rblocked, cpc, cnt, delivered, taint, h>>

\* Op.unwait finished: everything unblocked, Pull returns EOS
CBUnwaitEnd ==
  /\ FanKind = "combine" /\ opc = "unwait" /\ oidx = vN
  /\ blocked' = [p \in Pullers |-> FALSE] /\ opc' = "ret" /\ oret' = EOS
  /\ UNCHANGED <<vTopo, vN, vMode, vK, vSkew, vScr, lpos, ldone, lclosed, ctx, ppc, pitem, queue, hol, hq, nparents,
                 ocur, oidx, oafter, pdpc, rpc, ritem, rk, rblocked, cpc, cnt, delivered, taint, h>>

\* Op.propagateDone: one goroutine per parent that is not blocked
CBPdStart ==
  /\ FanKind = "combine" /\ opc = "pd_start"
  /\ pdpc' = [p \in Pullers |-> IF blocked[p] THEN "none" ELSE "sel"] /\ opc' = "pd_wait"
  /\ UNCHANGED <<vTopo, vN, vMode, vK, vSkew, vScr, lpos, ldone, lclosed, ctx, ppc, pitem, queue, blocked, hol, hq, nparents,
                 ocur, oidx, oret, oafter, rpc, ritem, rk, rblocked, cpc, cnt, delivered, taint, h>>
\* group.Wait(), then drain the queue without blocking, then unwait
CBPdJoin ==
  /\ FanKind = "combine" /\ opc = "pd_wait" /\ \A p \in Pullers : pdpc[p] \in {"none", "fin", "err"}
  /\ IF \E p \in Pullers : pdpc[p] = "err"
     THEN opc' = "ret" /\ oret' = CTXERR /\ UNCHANGED <<queue, oidx>>
     ELSE opc' = "unwait" /\ oidx' = 0 /\ queue' = <<>> /\ UNCHANGED oret
  /\ pdpc' = [p \in Pullers |-> "none"]
  /\ UNCHANGED <<vTopo, vN, vMode, vK, vSkew, vScr, lpos, ldone, lclosed, ctx, ppc, pitem, blocked, hol, hq, nparents,
                 ocur, oafter, rpc, ritem, rk, rblocked, cpc, cnt, delivered, taint, h>>

\* the ctx.Done arms of combine
CBCtx ==
  /\ FanKind = "combine" /\ ctx
  /\ \/ \E p \in Pullers : /\ ppc[p] \in {"sel", "waitd"} /\ ppc' = [ppc EXCEPT ![p] = "exit"]
                            /\ UNCHANGED <<opc, oret, pdpc>>
     \* after an EOS was delivered the result of p.wait() is not looked at: the loop goes on
     \* with one more Pull(false) on the parent, then p.queue <- p, then the select sees ctx.Done
     \/ \E p \in Pullers : /\ ppc[p] = "waite" /\ ppc' = [ppc EXCEPT ![p] = "call"]
                            /\ UNCHANGED <<opc, oret, pdpc>>
     \/ \E p \in Pullers : /\ pdpc[p] = "sel" /\ pdpc' = [pdpc EXCEPT ![p] = "err"]
                            /\ UNCHANGED <<opc, oret, ppc>>
     \/ /\ opc \in {"next", "recv", "unwait"} /\ (opc = "next" => NBlocked < vN)
        /\ opc' = "ret" /\ oret' = CTXERR /\ UNCHANGED <<ppc, pdpc>>
  /\ UNCHANGED <<vTopo, vN, vMode, vK, vSkew, vScr, lpos, ldone, lclosed, ctx, pitem, queue, blocked, hol, hq, nparents,
                 ocur, oidx, oafter, rpc, ritem, rk, rblocked, cpc, cnt, delivered, taint, h>>

\* ================================================================ merge.go
\* container/heap on o.hol (1-based here), Less(i, j) = key of hol[i] < key of hol[j]
HLess(a, i, j) == hol[a[i]] < hol[a[j]]
HSwap(a, i, j) == [a EXCEPT ![i] = a[j], ![j] = a[i]]
RECURSIVE HDown(_, _, _)
HDown(a, i, n) ==
  LET j1 == 2 * i IN
  IF j1 > n THEN a
  ELSE LET j == IF j1 + 1 <= n /\ HLess(a, j1 + 1, j1) THEN j1 + 1 ELSE j1
       IN IF ~HLess(a, j, i) THEN a ELSE HDown(HSwap(a, i, j), j, n)
RECURSIVE HInitFrom(_, _)
HInitFrom(a, i) == IF i < 1 THEN a ELSE HInitFrom(HDown(a, i, Len(a)), i - 1)
HInit(a) == HInitFrom(a, Len(a) \div 2)
\* heap.Pop: swap root and last, sift the new root down in the first n-1, remove the last
HPopMin(a) == a[1]
HPopRest(a) == LET n == Len(a) IN SubSeq(HDown(HSwap(a, 1, n), 1, n - 1), 1, n - 1)

\* Op.start: o.hol = o.hol[:0] (done by the caller below), replenish every parent in order,
\* heap.Push the ones that delivered a batch, heap.Init; oafter says what follows
MGStartStep ==
  /\ FanKind = "merge" /\ opc = "start"
  /\ IF oidx > vN
     THEN /\ opc' = oafter /\ hq' = HInit(hq) /\ UNCHANGED <<ocur, oidx>>
     ELSE /\ ocur' = oidx /\ opc' = "repl_s" /\ UNCHANGED <<oidx, hq>>
  /\ UNCHANGED <<vTopo, vN, vMode, vK, vSkew, vScr, lpos, ldone, lclosed, ctx, ppc, pitem, queue, blocked, hol, nparents,
                 oret, oafter, pdpc, rpc, ritem, rk, rblocked, cpc, cnt, delivered, taint, h>>

\* puller.run: case p.resultCh <- Result  meets  puller.replenish: case r := <-p.resultCh
MGResult(p) ==
  /\ FanKind = "merge" /\ ppc[p] = "sel" /\ opc \in {"repl_s", "repl_b"} /\ ocur = p
  /\ IF pitem[p] < 0
     THEN /\ opc' = "ret" /\ oret' = pitem[p] /\ ppc' = [ppc EXCEPT ![p] = "exit"] /\ UNCHANGED <<hol, hq, oidx>>
     ELSE /\ hol' = [hol EXCEPT ![p] = pitem[p]]            \* EOS: p.blocked = true, not pushed
          /\ hq' = IF pitem[p] > 0 THEN LET a == Append(hq, p) IN
                                         \* heap.Push(o, parent): Less looks at the new key
                                         LET RECURSIVE Up(_, _)
                                             Up(b, k) == IF k = 1 THEN b
                                                         ELSE LET i == k \div 2 IN
                                                              IF ~(hol'[b[k]] < hol'[b[i]]) THEN b ELSE Up(HSwap(b, i, k), i)
                                         IN Up(a, Len(a))
                    ELSE hq
          /\ ppc' = [ppc EXCEPT ![p] = "call"]
          /\ IF opc = "repl_s" THEN opc' = "start" /\ oidx' = oidx + 1 /\ UNCHANGED oret
             ELSE opc' = "ret" /\ UNCHANGED <<oidx, oret>>  \* the batch popped before is returned
  /\ UNCHANGED <<vTopo, vN, vMode, vK, vSkew, vScr, lpos, ldone, lclosed, ctx, pitem, queue, blocked, nparents,
                 ocur, oafter, pdpc, rpc, ritem, rk, rblocked, cpc, cnt, delivered, taint, h>>

\* Op.Pull after once.Do / start: EOS when nothing is head of line, else heap.Pop the minimum and replenish it
MGBody ==
  /\ FanKind = "merge" /\ opc = "body"
  /\ IF hq = <<>>
     THEN /\ opc' = "start" /\ oidx' = 1 /\ oafter' = "ret" /\ oret' = EOS /\ UNCHANGED <<hol, hq, ocur>>  \* return nil, o.start()
     ELSE LET m == HPopMin(hq) IN
          /\ oret' = hol[m] /\ hq' = HPopRest(hq) /\ hol' = [hol EXCEPT ![m] = 0]
          /\ ocur' = m /\ opc' = "repl_b" /\ UNCHANGED <<oidx, oafter>>
  /\ UNCHANGED <<vTopo, vN, vMode, vK, vSkew, vScr, lpos, ldone, lclosed, ctx, ppc, pitem, queue, blocked, nparents,
                 pdpc, rpc, ritem, rk, rblocked, cpc, cnt, delivered, taint, h>>

\* Op.propagateDone: for len(o.hol) > 0 { m := o.Pop() (the LAST element of the array); m.doneCh <- ... }; then start()
MGPdStep ==
  /\ FanKind = "merge" /\ opc = "pd"
  /\ IF hq = <<>>
     THEN opc' = "start" /\ oidx' = 1 /\ oafter' = "ret" /\ oret' = EOS /\ UNCHANGED <<ocur, hq>>
     ELSE ocur' = hq[Len(hq)] /\ hq' = SubSeq(hq, 1, Len(hq) - 1) /\ opc' = "pd_send" /\ UNCHANGED <<oidx, oafter, oret>>
  /\ UNCHANGED <<vTopo, vN, vMode, vK, vSkew, vScr, lpos, ldone, lclosed, ctx, ppc, pitem, queue, blocked, hol, nparents,
                 pdpc, rpc, ritem, rk, rblocked, cpc, cnt, delivered, taint, h>>
\* case m.doneCh <- struct{}{}  meets  puller.run: case <-p.doneCh (the pending batch is dropped, Pull(true) follows)
MGDone(p) ==
  /\ FanKind = "merge" /\ ppc[p] = "sel" /\ opc = "pd_send" /\ ocur = p
  /\ hol' = [hol EXCEPT ![p] = 0] /\ opc' = "pd"
  /\ ppc' = [ppc EXCEPT ![p] = "calldone"]
  /\ UNCHANGED <<vTopo, vN, vMode, vK, vSkew, vScr, lpos, ldone, lclosed, ctx, pitem, queue, blocked, hq, nparents,
                 ocur, oidx, oret, oafter, pdpc, rpc, ritem, rk, rblocked, cpc, cnt, delivered, taint, h>>
MGCtx ==
  /\ FanKind = "merge" /\ ctx
  /\ \/ \E p \in Pullers : /\ ppc[p] = "sel" /\ ppc' = [ppc EXCEPT ![p] = "exit"] /\ UNCHANGED <<opc, oret>>
     \/ /\ opc \in {"repl_s", "repl_b", "pd_send"} /\ opc' = "ret" /\ oret' = CTXERR /\ UNCHANGED ppc
  /\ UNCHANGED <<vTopo, vN, vMode, vK, vSkew, vScr, lpos, ldone, lclosed, ctx, pitem, queue, blocked, hol, hq, nparents,
                 ocur, oidx, oafter, pdpc, rpc, ritem, rk, rblocked, cpc, cnt, delivered, taint, h>>

\* ================================================================ mux.go
\* Mux.Pull: nparents == 0 -> Cancel, EOS
MXStart ==
  /\ FanKind = "mux" /\ opc = "mxstart"
  /\ IF nparents = 0 THEN ctx' = TRUE /\ opc' = "ret" /\ oret' = EOS
     ELSE opc' = "mxrecv" /\ UNCHANGED <<ctx, oret>>
  /\ UNCHANGED <<vTopo, vN, vMode, vK, vSkew, vScr, lpos, ldone, lclosed, ppc, pitem, queue, blocked, hol, hq, nparents,
                 ocur, oidx, oafter, pdpc, rpc, ritem, rk, rblocked, cpc, cnt, delivered, taint, h>>
\* puller.run: case p.ch <- result  meets  Mux.Pull: case res := <-m.ch
MXRecv(p) ==
  /\ FanKind = "mux" /\ ppc[p] = "send" /\ opc = "mxrecv"
  /\ opc' = "ret"
  /\ CASE pitem[p] < 0  -> ctx' = TRUE /\ oret' = pitem[p] /\ ppc' = [ppc EXCEPT ![p] = "exit"] /\ UNCHANGED nparents
       [] pitem[p] = EOS -> oret' = EOC(p) /\ nparents' = nparents - 1 /\ ppc' = [ppc EXCEPT ![p] = "exit"] /\ UNCHANGED ctx
       [] OTHER -> oret' = pitem[p] /\ ppc' = [ppc EXCEPT ![p] = "call"] /\ UNCHANGED <<ctx, nparents>>
  /\ UNCHANGED <<vTopo, vN, vMode, vK, vSkew, vScr, lpos, ldone, lclosed, pitem, queue, blocked, hol, hq,
                 ocur, oidx, oafter, pdpc, rpc, ritem, rk, rblocked, cpc, cnt, delivered, taint, h>>
MXCtx ==
  /\ FanKind = "mux" /\ ctx
  /\ \/ \E p \in Pullers : /\ ppc[p] = "send" /\ ppc' = [ppc EXCEPT ![p] = "exit"] /\ UNCHANGED <<opc, oret>>
     \/ /\ opc = "mxrecv" /\ opc' = "ret" /\ oret' = CTXERR /\ UNCHANGED ppc
  /\ UNCHANGED <<vTopo, vN, vMode, vK, vSkew, vScr, lpos, ldone, lclosed, ctx, pitem, queue, blocked, hol, hq, nparents,
                 ocur, oidx, oafter, pdpc, rpc, ritem, rk, rblocked, cpc, cnt, delivered, taint, h>>

\* ================================================================ router.go (fork)
\* Router.run top of loop: if everything is blocked, Pull(true) upstream and unblock
RTCheck ==
  /\ Fork /\ rpc = "check"
  /\ IF \A k \in Pullers : rblocked[k]
     THEN /\ ldone' = [ldone EXCEPT ![1] = @ + 1] /\ lclosed' = [lclosed EXCEPT ![1] = TRUE]
          /\ rblocked' = [k \in Pullers |-> FALSE]
     ELSE UNCHANGED <<ldone, lclosed, rblocked>>
  /\ rpc' = "parked"        \* r.parent.Pull(false) on the leaf
  /\ UNCHANGED <<vTopo, vN, vMode, vK, vSkew, vScr, lpos, ctx, ppc, pitem, queue, blocked, hol, hq, nparents,
                 opc, ocur, oidx, oret, oafter, pdpc, ritem, rk, cpc, cnt, delivered, taint, h>>

\* the caller of route k gets x from its Pull(false); a skewed exit 1 drops batches and pulls again
RouteDeliver(k, x) ==
  IF vSkew /\ k = 1 /\ x > 0
  THEN ppc' = [ppc EXCEPT ![k] = "call"] /\ UNCHANGED pitem
  ELSE ppc' = [ppc EXCEPT ![k] = AfterCall] /\ pitem' = [pitem EXCEPT ![k] = x]

\* splitter.Forward -> Router.Send to exit rk
RTFwd ==
  /\ Fork /\ rpc = "fwd"
  /\ IF rk > vN THEN rpc' = "check" /\ UNCHANGED <<rk, rblocked, ppc, pitem>>          \* batch.Unref()
     ELSE IF rblocked[rk] THEN rk' = rk + 1 /\ UNCHANGED <<rpc, rblocked, ppc, pitem>>   \* if to.blocked { b.Unref(); return true }
     ELSE \/ /\ ppc[rk] = "rrecv"                                                        \* case to.resultCh <- Result{Batch: b}
             /\ RouteDeliver(rk, ritem) /\ rk' = rk + 1 /\ UNCHANGED <<rpc, rblocked>>
          \/ /\ ppc[rk] = "rdone"                                                        \* case <-to.doneCh
             /\ rblocked' = [rblocked EXCEPT ![rk] = TRUE] /\ ppc' = [ppc EXCEPT ![rk] = AfterDone]
             /\ rk' = rk + 1 /\ UNCHANGED <<rpc, pitem>>
  /\ UNCHANGED <<vTopo, vN, vMode, vK, vSkew, vScr, lpos, ldone, lclosed, ctx, queue, blocked, hol, hq, nparents,
                 opc, ocur, oidx, oret, oafter, pdpc, ritem, cpc, cnt, delivered, taint, h>>

\* Router.sendEOS(err): an EOS to every unblocked route -- the err argument is not used
RTEos ==
  /\ Fork /\ rpc = "eos"
  /\ IF rk > vN THEN rpc' = "check" /\ rblocked' = [k \in Pullers |-> FALSE] /\ UNCHANGED <<rk, ppc, pitem, taint>>
     ELSE IF rblocked[rk] THEN rk' = rk + 1 /\ UNCHANGED <<rpc, rblocked, ppc, pitem, taint>>
     ELSE \/ /\ ppc[rk] = "rrecv"                                                        \* case p.resultCh <- Result{}
             /\ RouteDeliver(rk, EOS) /\ rblocked' = [rblocked EXCEPT ![rk] = TRUE]
             /\ rk' = rk + 1 /\ UNCHANGED rpc
             \* RouterEosDropsError: the upstream error is replaced by a plain EOS
             /\ taint' = IF ritem = ERR THEN taint \cup {"RouterEosDropsError"} ELSE taint
          \/ /\ ppc[rk] = "rdone"                                                        \* case <-p.doneCh
             /\ rblocked' = [rblocked EXCEPT ![rk] = TRUE] /\ ppc' = [ppc EXCEPT ![rk] = AfterDone]
             /\ rk' = rk + 1 /\ UNCHANGED <<rpc, pitem, taint>>
  /\ UNCHANGED <<vTopo, vN, vMode, vK, vSkew, vScr, lpos, ldone, lclosed, ctx, queue, blocked, hol, hq, nparents,
                 opc, ocur, oidx, oret, oafter, pdpc, ritem, cpc, cnt, delivered, h>>

RTCtx ==
  /\ Fork /\ ctx /\ rpc \in {"fwd", "eos"} /\ rk <= vN /\ ~rblocked[rk]
  /\ rpc' = "exit"
  /\ UNCHANGED <<vTopo, vN, vMode, vK, vSkew, vScr, lpos, ldone, lclosed, ctx, ppc, pitem, queue, blocked, hol, hq, nparents,
                 opc, ocur, oidx, oret, oafter, pdpc, ritem, rk, rblocked, cpc, cnt, delivered, taint, h>>

Internal ==
  \/ \E p \in Pullers : PCall(p) \/ PCallDone(p) \/ PRouteCtx(p)
  \/ \E p \in Pullers : CBEnq(p) \/ CBResult(p) \/ CBDone(p) \/ CBPdDrain(p) \/ CBWait(p)
  \/ CBNext \/ CBUnwaitEnd \/ CBPdStart \/ CBPdJoin \/ CBCtx
  \/ MGStartStep \/ MGBody \/ MGPdStep \/ MGCtx \/ \E p \in Pullers : MGResult(p) \/ MGDone(p)
  \/ MXStart \/ MXCtx \/ \E p \in Pullers : MXRecv(p)
  \/ RTCheck \/ RTFwd \/ RTEos \/ RTCtx

\* ================================================================ the environment: leaves and consumer
Quiet == ~Coarse \/ ~ENABLED Internal

\* a parked Pull(false) of leaf i returns its next item (the harness opens the gate)
LeafReturn(i) ==
  /\ Quiet
  /\ IF Fork THEN rpc = "parked" /\ i = 1 ELSE ppc[i] = "parked"
  /\ LET x == LeafItem(i) IN
     /\ lpos' = [lpos EXCEPT ![i] = IF x = EOS THEN @ ELSE @ + 1]
     /\ IF Fork
        THEN /\ ritem' = x /\ rk' = 1 /\ rpc' = IF x > 0 THEN "fwd" ELSE "eos"
             /\ UNCHANGED <<ppc, pitem>>
        ELSE /\ pitem' = [pitem EXCEPT ![i] = x] /\ ppc' = [ppc EXCEPT ![i] = AfterCall]
             /\ UNCHANGED <<ritem, rk, rpc>>
  /\ Rec(<<"L", i>>)
  /\ UNCHANGED <<vTopo, vN, vMode, vK, vSkew, vScr, ldone, lclosed, ctx, queue, blocked, hol, hq, nparents,
                 opc, ocur, oidx, oret, oafter, pdpc, rblocked, cpc, cnt, delivered, taint>>

\* once.Do of the fan-in (and of the router through the first route.Pull): goroutines start
Started == \E p \in Pullers : ppc[p] # "init"
StartedPcs == [p \in Pullers |-> "call"]

\* the consumer calls Pull(false)
ConsumerPull ==
  /\ Quiet /\ cpc = "idle" /\ opc = "idle"
  /\ ~(vMode \in {"head", "cancel"} /\ cnt >= vK)
  /\ cpc' = "called"
  /\ ppc' = IF Started THEN ppc ELSE StartedPcs
  /\ rpc' = IF Fork /\ rpc = "init" THEN "check" ELSE rpc
  /\ CASE FanKind = "combine" -> opc' = "next" /\ UNCHANGED <<oidx, oafter>>
       [] FanKind = "merge" -> IF Started THEN opc' = "body" /\ UNCHANGED <<oidx, oafter>>
                               ELSE opc' = "start" /\ oidx' = 1 /\ oafter' = "body"     \* o.once.Do(run): start()
       [] OTHER -> opc' = "mxstart" /\ UNCHANGED <<oidx, oafter>>
  /\ Rec(<<"C", 1>>)
  /\ UNCHANGED <<vTopo, vN, vMode, vK, vSkew, vScr, lpos, ldone, lclosed, ctx, pitem, queue, blocked, hol, hq, nparents,
                 ocur, oret, pdpc, ritem, rk, rblocked, cnt, delivered, taint>>

\* head: the limit is reached -> parent.Pull(true) once
ConsumerDone ==
  /\ Quiet /\ cpc = "idle" /\ opc = "idle" /\ vMode = "head" /\ cnt >= vK /\ Started
  /\ cpc' = "calleddone"
  /\ CASE FanKind = "combine" -> opc' = "pd_start"
       [] FanKind = "merge" -> opc' = "pd"
       [] OTHER -> opc' = "mxstart"            \* Mux.Pull ignores the flag
  /\ Rec(<<"C", 2>>)
  /\ UNCHANGED <<vTopo, vN, vMode, vK, vSkew, vScr, lpos, ldone, lclosed, ctx, ppc, pitem, queue, blocked, hol, hq, nparents,
                 ocur, oidx, oret, oafter, pdpc, rpc, ritem, rk, rblocked, cnt, delivered, taint>>

\* the consumer's Pull returns
Finishes(x) == \/ x <= EOS /\ x > -10          \* EOS or an error ends the stream
ConsumerReturn ==
  /\ opc = "ret" /\ cpc \in {"called", "calleddone"}
  /\ opc' = "idle"
  /\ delivered' = Append(delivered, oret)
  /\ cnt' = IF IsBatch(oret) THEN cnt + 1 ELSE cnt
  /\ cpc' = IF cpc = "calleddone" \/ Finishes(oret) THEN "finished" ELSE "idle"
  /\ Rec(<<"R", oret>>)
  /\ UNCHANGED <<vTopo, vN, vMode, vK, vSkew, vScr, lpos, ldone, lclosed, ctx, ppc, pitem, queue, blocked, hol, hq, nparents,
                 ocur, oidx, oret, oafter, pdpc, rpc, ritem, rk, rblocked, taint>>

\* cancel mode: after K batches the consumer cancels instead of pulling; and every
\* finished consumer cancels in the end (rctx.Cancel at the end of the query)
ConsumerCancel ==
  /\ Quiet /\ ~ctx /\ opc = "idle"
  /\ \/ cpc = "finished"
     \/ cpc = "idle" /\ vMode = "cancel" /\ cnt >= vK
  /\ ctx' = TRUE /\ cpc' = "finished"
  /\ Rec(<<"C", 3>>)
  /\ UNCHANGED <<vTopo, vN, vMode, vK, vSkew, vScr, lpos, ldone, lclosed, ppc, pitem, queue, blocked, hol, hq, nparents,
                 opc, ocur, oidx, oret, oafter, pdpc, rpc, ritem, rk, rblocked, cnt, delivered, taint>>

Done == cpc = "finished" /\ ctx /\ AllExited
Finished == Done /\ UNCHANGED vars      \* (so that TLC's deadlock check flags every other stuck state)

Env == (\E i \in 1..3 : i \in Leaves /\ LeafReturn(i)) \/ ConsumerPull \/ ConsumerDone \/ ConsumerReturn \/ ConsumerCancel

Next == Internal \/ Env \/ Finished

Init ==
  /\ vTopo \in Topos /\ vN \in Widths /\ vMode \in Modes /\ vK \in Ks /\ vSkew \in Skews
  /\ (vSkew => vTopo \in {"fork-combine", "fork-merge"} /\ vN >= 2)
  /\ (vTopo \in {"fork-combine", "fork-merge", "mux"} => vN >= 2)
  /\ (vMode = "drain" => vK = 0) /\ (vMode = "head" => vK >= 1)
  /\ vScr \in Scripts(vTopo, vN, vSkew)
  /\ lpos = [i \in 1..3 |-> 1] /\ ldone = [i \in 1..3 |-> 0] /\ lclosed = [i \in 1..3 |-> FALSE]
  /\ ctx = FALSE
  /\ ppc = [p \in 1..vN |-> "init"] /\ pitem = [p \in 1..vN |-> 0]
  /\ queue = <<>> /\ blocked = [p \in 1..vN |-> FALSE] /\ hol = [p \in 1..vN |-> 0] /\ hq = <<>> /\ nparents = vN
  /\ opc = "idle" /\ ocur = 0 /\ oidx = 0 /\ oret = 0 /\ oafter = ""
  /\ pdpc = [p \in 1..vN |-> "none"]
  /\ rpc = "init" /\ ritem = 0 /\ rk = 0 /\ rblocked = [p \in 1..vN |-> FALSE]
  /\ cpc = "idle" /\ cnt = 0 /\ delivered = <<>> /\ taint = {} /\ h = <<>>

Spec == Init /\ [][Next]_vars
FairSpec == Spec /\ WF_vars(Internal \/ Env)

\* ================================================================ properties
RECURSIVE BagCount(_, _)
BagCount(s, x) == IF s = <<>> THEN 0 ELSE (IF s[1] = x THEN 1 ELSE 0) + BagCount(Tail(s), x)
DeliveredBatches == SelectSeq(delivered, LAMBDA x : x > 0)
Drained == cpc = "finished" /\ vMode = "drain"
Copies == IF Fork THEN (IF vSkew THEN vN - 1 ELSE vN) ELSE 1

\* Complete: a draining consumer of legs without an error gets every batch a leg
\* produced exactly once (a fork: once per exit that does not drop) -- whatever the
\* width: the multiset does not depend on the number of legs
Complete ==
  (Drained /\ ~HasErr /\ taint = {}) =>
     /\ \A b \in AllBatches : BagCount(DeliveredBatches, b) = Copies
     /\ Len(DeliveredBatches) = Copies * Cardinality(AllBatches)
     /\ delivered[Len(delivered)] = EOS
\* merge delivers in key order
MergeOrdered ==
  (FanKind = "merge" /\ cpc = "finished") =>
     \A i \in 1..Len(DeliveredBatches) - 1 : DeliveredBatches[i] <= DeliveredBatches[i + 1]
\* nothing is delivered twice or invented, whatever the consumer does
NoDupNoInvent ==
  \A i \in 1..Len(DeliveredBatches) : /\ DeliveredBatches[i] \in AllBatches
                                       /\ BagCount(DeliveredBatches, DeliveredBatches[i]) <= Copies
\* ErrorDelivered: an upstream error is what a draining consumer gets in the end
\* (unless the named deviation RouterEosDropsError swallowed it)
ErrorDelivered ==
  (Drained /\ HasErr /\ taint = {}) => delivered[Len(delivered)] = ERR
\* DonePropagates (safety part): when Pull(true) has returned normally, every leaf
\* that was not at its end has seen exactly one Pull(true)
LeafAtEnd(i) == lpos[i] > Len(vScr[i])
DonePropagated ==
  (vMode = "head" /\ cpc = "finished" /\ FanKind # "mux" /\ ~Fork
     /\ Len(delivered) > 0 /\ delivered[Len(delivered)] = EOS /\ cnt >= vK) =>
     \A i \in Leaves : ldone[i] <= 1 /\ (ldone[i] = 1 \/ LeafAtEnd(i) \/ lclosed[i])
\* liveness: once the consumer is finished and the context cancelled every goroutine exits
Terminates == <>Done

\* ---------------------------------------------------------------- export
RECURSIVE SumSeq(_)
SumSeq(s) == IF s = <<>> THEN 0 ELSE s[1] + SumSeq(Tail(s))
\* (of the environment's moves only, so that every outcome of an exported schedule is exported)
HHash == SumSeq([i \in 1..Len(h) |-> IF h[i][1] = "L" THEN i * h[i][2] ELSE IF h[i][1] = "C" THEN i * 3 * h[i][2] ELSE 0])
Export ==
  (Done /\ EmitMod > 0 /\ HHash % EmitMod = EmitRem) =>
     PrintT(ToJson([topo |-> vTopo, n |-> vN, mode |-> vMode, k |-> vK, skew |-> vSkew, scripts |-> vScr,
                    h |-> h, delivered |-> delivered, ldone |-> [i \in 1..vN |-> ldone[i]], taint |-> taint]))
=============================================================================
