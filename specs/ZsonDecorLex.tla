---------------------------- MODULE ZsonDecorLex ----------------------------
(***************************************************************************)
(* C02, lexical layer below ZsonDecor.tla: the ZSON lexer's buffered read. *)
(* A text that the formatter wrote must read back wherever the lexer's     *)
(* buffer refills happen to fall in it ("alone or as part of a sequence"). *)
(*                                                                         *)
(* Transcription of zson/lexer.go: fill (compaction of the leftover bytes, *)
(* io.ReadAtLeast into the space behind them, growth with roundUp), check, *)
(* peek / readByte / skip, peekRune (refill when the cursor does not hold  *)
(* a full rune), and the scanners built on them: skipSpace, scanString     *)
(* (byte-wise), scanTypeName / scanIdentifier (rune-wise), peekPrimitive   *)
(* (scans ahead to the next space or comma with everything kept buffered,  *)
(* check(off + utf8.UTFMax) per rune).  The parser is reduced to a token   *)
(* loop.  Characters are abstract: a class and a byte length.              *)
(*                                                                         *)
(* TLC checks, for every short text over the alphabet, every leading pad,  *)
(* every small buffer capacity and two reader behaviours (a reader that    *)
(* fills all the space it is given / one that delivers the minimum), that  *)
(* the token stream equals the reference tokenization of the text, except  *)
(* on the named defect path "shortbuf", and that "shortbuf" is taken       *)
(* exactly when a primitive candidate needs a refill while at least half   *)
(* the buffer already holds it (PrimLemma, which the harness applies at    *)
(* the real buffer size).  It exports the refill situations (which kind of *)
(* lookahead met a refill with how many bytes in hand) that the harness    *)
(* must drive the real lexer into.                                         *)
(***************************************************************************)
EXTENDS Integers, Sequences, SequencesExt, FiniteSets, TLC, Json

CONSTANTS Caps,      \* buffer capacities (ReadSize), each >= 2 * UTFMax
          MaxBody,   \* max number of characters of a text after the pad
          MaxPrim,   \* max length of a primitive candidate in the long-token family
          FixedFill, \* TRUE: fill asks io.ReadAtLeast only for the bytes that are missing (the defect path
                     \* "shortbuf" is repaired in the tree under test; the harness probes the real lexer)
          OutFile

UTFMax == 4
\* characters: [c |-> class, n |-> bytes];  classes: id (letter), sp (space), comma, quote, digit
Ch(c, n) == [c |-> c, n |-> n]
Alphabet == {Ch("id", 1), Ch("id", 2), Ch("id", 4), Ch("sp", 1), Ch("sp", 3), Ch("comma", 1), Ch("quote", 1)}
Digit == Ch("digit", 1)

\* the bytes of a text: [ch |-> character, i |-> index of the byte in it]
RECURSIVE BytesOf(_)
BytesOf(cs) == IF cs = <<>> THEN <<>> ELSE [i \in 1..Head(cs).n |-> [ch |-> Head(cs), i |-> i]] \o BytesOf(Tail(cs))

\* ------------------------------------------------------------ reference tokenization (no buffer)
IsIdChar(ch) == ch.c \in {"id", "digit"}            \* typeChar: letters and digits
RECURSIVE RunNotQuote(_, _), RunDigit(_, _), RunId(_, _), RefTokens(_, _)
RunNotQuote(cs, i) == IF i <= Len(cs) /\ cs[i].c # "quote" THEN 1 + RunNotQuote(cs, i + 1) ELSE 0
RunDigit(cs, i) == IF i <= Len(cs) /\ cs[i].c = "digit" THEN 1 + RunDigit(cs, i + 1) ELSE 0
RunId(cs, i) == IF i <= Len(cs) /\ IsIdChar(cs[i]) THEN 1 + RunId(cs, i + 1) ELSE 0
\* tokens: [k |-> "str", b |-> bytes] | [k |-> "comma"] | [k |-> "num", n |-> length] | [k |-> "id", cs |-> characters]
\* "bad" = the text does not tokenize (unterminated string)
RefTokens(cs, i) ==
  IF i > Len(cs) THEN <<>>
  ELSE CASE cs[i].c = "sp"    -> RefTokens(cs, i + 1)
         [] cs[i].c = "comma" -> <<[k |-> "comma"]>> \o RefTokens(cs, i + 1)
         [] cs[i].c = "quote" -> LET n == RunNotQuote(cs, i + 1) IN
                                 IF i + 1 + n > Len(cs) THEN <<[k |-> "bad"]>>
                                 ELSE <<[k |-> "str", b |-> BytesOf(SubSeq(cs, i + 1, i + n))]>> \o RefTokens(cs, i + n + 2)
         [] cs[i].c = "digit" -> LET n == RunDigit(cs, i) IN
                                 <<[k |-> "num", n |-> n]>> \o RefTokens(cs, i + n)
         [] cs[i].c = "id"    -> LET n == RunId(cs, i) IN
                                 <<[k |-> "id", cs |-> SubSeq(cs, i, i + n - 1)]>> \o RefTokens(cs, i + n)
Tokenizes(cs) == \A j \in 1..Len(RefTokens(cs, 1)) : RefTokens(cs, 1)[j].k # "bad"

\* ------------------------------------------------------------ the lexer
\* e: the run: [b |-> bytes of the text, cap0 |-> ReadSize, mode |-> reader behaviour]
\* s: the lexer: pos/end = the cursor as offsets into the text (cursor = b[pos+1..end]), cap = cap(l.buffer),
\*    x = defect paths taken, sits = refill situations met
Min2(a, b) == IF a < b THEN a ELSE b
RECURSIVE RoundUp(_, _)
RoundUp(size, n) == IF size < n THEN RoundUp(2 * size, n) ELSE size

\* Lexer.fill(n), called by op with `have` bytes of the wanted item in hand
Fill(e, s, n, op) ==
  LET rem   == s.end - s.pos
      cap2  == IF n >= s.cap THEN RoundUp(e.cap0, n) ELSE s.cap
      space == cap2 - rem
      avail == Len(e.b) - s.end
      sit   == [op |-> op, rem |-> Min2(rem, UTFMax)]
      need  == IF FixedFill THEN (IF n - rem > 1 THEN n - rem ELSE 1) ELSE n
  IN IF space < need
     \* io.ReadAtLeast(reader, buffer[remaining:cap], n) with less than n bytes of room: io.ErrShortBuffer.
     \* fill asks for n NEW bytes although n - remaining would do: defect path "shortbuf"
     THEN [s |-> [s EXCEPT !.cap = cap2, !.x = @ \cup {"shortbuf"}, !.sits = @ \cup {sit}], err |-> "shortbuf"]
     ELSE LET cc == Min2(IF e.mode = "max" THEN space ELSE need, avail) IN
          [s |-> [s EXCEPT !.cap = cap2, !.end = @ + cc, !.sits = @ \cup {sit}],
           err |-> IF cc = 0 THEN "eof" ELSE "nil"]          \* ErrUnexpectedEOF with cc > 0 is dropped

\* Lexer.check(n)
Check(e, s, n, op) ==
  IF s.end - s.pos >= n THEN [s |-> s, err |-> "nil"]
  ELSE LET f == Fill(e, s, n, op) IN
       IF f.err # "nil" THEN f
       ELSE IF f.s.end - f.s.pos < n THEN [s |-> f.s, err |-> "unexpectedeof"] ELSE f
Advance(s, n) == [s EXCEPT !.pos = @ + n]

\* utf8.FullRune / utf8.DecodeRune on the cursor at offset off
ByteAt(e, s, off) == e.b[s.pos + off + 1]
FullRuneAt(e, s, off) ==
  s.end - s.pos > off /\ (ByteAt(e, s, off).i # 1 \/ s.end - s.pos - off >= ByteAt(e, s, off).ch.n)
DecodeAt(e, s, off) ==
  LET b == ByteAt(e, s, off) IN
  IF b.i = 1 /\ s.end - s.pos - off >= b.ch.n THEN [r |-> b.ch, n |-> b.ch.n] ELSE [r |-> Ch("runeerror", 1), n |-> 1]

\* Lexer.peekRune: [s, r, n, err]
PeekRune(e, s) ==
  LET f == IF FullRuneAt(e, s, 0) THEN [s |-> s, err |-> "nil"] ELSE Fill(e, s, UTFMax, "peekRune") IN
  IF f.s.end = f.s.pos THEN [s |-> f.s, r |-> Ch("none", 0), n |-> 0, err |-> IF f.err = "nil" THEN "eof" ELSE f.err]
  ELSE LET d == DecodeAt(e, f.s, 0) IN [s |-> f.s, r |-> d.r, n |-> d.n, err |-> "nil"]

Result(s, toks, err) == [s |-> s, toks |-> toks, err |-> err]

RECURSIVE SkipSpace(_, _), ScanString(_, _, _, _), ScanIdent(_, _, _, _), PeekPrimitive(_, _, _), LexFrom(_, _, _)
\* Lexer.skipSpace (comments left out)
SkipSpace(e, s) ==
  LET p == PeekRune(e, s) IN
  IF p.err # "nil" THEN [s |-> p.s, err |-> p.err]
  ELSE IF p.r.c = "sp" THEN SkipSpace(e, Advance(p.s, p.n)) ELSE [s |-> p.s, err |-> "nil"]

\* Lexer.scanString / scanToCloseQuote: byte by byte up to the closing quote
ScanString(e, s, acc, toks) ==
  LET c == Check(e, s, 1, "byte") IN
  IF c.err # "nil" THEN Result(c.s, toks, "string:" \o c.err)
  ELSE LET b == ByteAt(e, c.s, 0) IN
       IF b.ch.c = "quote" THEN LexFrom(e, Advance(c.s, 1), Append(toks, [k |-> "str", b |-> acc]))
       ELSE ScanString(e, Advance(c.s, 1), Append(acc, b), toks)

\* Lexer.scanTypeName (unquoted): rune by rune while typeChar
ScanIdent(e, s, acc, toks) ==
  LET p == PeekRune(e, s) IN
  IF p.err = "eof" \/ (p.err = "nil" /\ ~IsIdChar(p.r)) THEN
       IF acc = <<>> THEN Result(p.s, toks, "syntax") ELSE LexFrom(e, p.s, Append(toks, [k |-> "id", cs |-> acc]))
  ELSE IF p.err # "nil" THEN Result(p.s, toks, "ident:" \o p.err)
  ELSE ScanIdent(e, Advance(p.s, p.n), Append(acc, p.r), toks)

\* Lexer.peekPrimitive: s after the scan ahead, or an error other than end of input
PeekPrimitive(e, s, off) ==
  LET c == Check(e, s, off + UTFMax, "primitive")
      lem == c.s
  IN IF c.err \in {"eof", "unexpectedeof"} THEN [s |-> lem, err |-> "nil"]
     ELSE IF c.err # "nil" THEN [s |-> lem, err |-> c.err]
     ELSE LET d == DecodeAt(e, lem, off) IN
          IF d.r.c \in {"sp", "comma"} THEN [s |-> lem, err |-> "nil"] ELSE PeekPrimitive(e, lem, off + d.n)

RECURSIVE DigitRun(_, _, _)
DigitRun(e, s, off) == IF s.end - s.pos > off /\ ByteAt(e, s, off).ch.c = "digit" THEN 1 + DigitRun(e, s, off + 1) ELSE 0

\* the parser's token loop
LexFrom(e, s0, toks) ==
  LET sp == SkipSpace(e, s0) IN
  IF sp.err = "eof" THEN Result(sp.s, toks, "nil")
  ELSE IF sp.err # "nil" THEN Result(sp.s, toks, "space:" \o sp.err)
  ELSE LET s == sp.s  b == ByteAt(e, s, 0) IN
       CASE b.i = 1 /\ b.ch.c = "quote" -> ScanString(e, Advance(s, 1), <<>>, toks)
         [] b.i = 1 /\ b.ch.c = "comma" -> LexFrom(e, Advance(s, 1), Append(toks, [k |-> "comma"]))
         [] b.i = 1 /\ b.ch.c = "digit" ->
              LET pp == PeekPrimitive(e, s, 0) IN
              IF pp.err # "nil" THEN Result(pp.s, toks, "primitive:" \o pp.err)
              \* the regexp takes the longest literal at the head of the whole cursor
              ELSE LET n == DigitRun(e, pp.s, 0) IN LexFrom(e, Advance(pp.s, n), Append(toks, [k |-> "num", n |-> n]))
         [] OTHER -> ScanIdent(e, s, <<>>, toks)

Lex(cs, cap, mode) ==
  LexFrom([b |-> BytesOf(cs), cap0 |-> cap, mode |-> mode],
          [pos |-> 0, end |-> 0, cap |-> cap, x |-> {}, sits |-> {}], <<>>)

\* ------------------------------------------------------------ cases
RECURSIVE SeqsUpTo(_, _)
SeqsUpTo(S, n) == IF n = 0 THEN {<<>>} ELSE LET R == SeqsUpTo(S, n - 1) IN R \cup {Append(r, x) : r \in {q \in R : Len(q) = n - 1}, x \in S}
Pad(n) == [i \in 1..n |-> Ch("sp", 1)]
\* family A: a pad of 0..3 one-byte spaces, then every text of at most MaxBody characters that tokenizes
TextsA == {Pad(p) \o body : p \in 0..3, body \in {t \in SeqsUpTo(Alphabet, MaxBody) : t # <<>> /\ Tokenizes(t)}}
\* family B: a pad, a primitive candidate of n digits, optionally a comma and another digit
TextsB == {Pad(p) \o [i \in 1..n |-> Digit] \o tl : p \in 0..3, n \in 1..MaxPrim, tl \in {<<>>, <<Ch("comma", 1), Digit>>, <<Ch("sp", 1), Ch("id", 2)>>}}
Modes == {"max", "min"}

CaseOf(cs, cap, mode) ==
  LET r == Lex(cs, cap, mode) IN
  [ok |-> r.err = "nil" /\ r.toks = RefTokens(cs, 1), err |-> r.err, x |-> r.s.x, sits |-> r.s.sits]

AllCases == TLCEval({[cs |-> cs, cap |-> cap, mode |-> m, r |-> CaseOf(cs, cap, m)] : cs \in TextsA \cup TextsB, cap \in Caps, m \in Modes})
\* the longest run of digits of a text of family B
PrimLen(cs) == LET i == CHOOSE j \in 1..Len(cs) : cs[j].c = "digit" /\ (j = 1 \/ cs[j - 1].c # "digit") IN RunDigit(cs, i)

\* the token stream does not depend on where the refills fall, off the defect path;
\* the defect path is exactly PrimLemma's condition and always ends in the short-buffer error
Holds(C) ==
  /\ \A c \in C : c.r.x = {} => c.r.ok
  /\ \A c \in C : "shortbuf" \in c.r.x => c.r.err = "primitive:shortbuf" /\ c.cs \in TextsB
  \* PrimLemma (applied by the harness at the real buffer size): a primitive candidate that is longer than the
  \* buffer always runs into the short-buffer error, one that fits in half of it (less the lookahead) never does;
  \* in between it depends on where the candidate starts in the buffer
  /\ FixedFill \/ \A c \in C : c.cs \in TextsB /\ PrimLen(c.cs) >= c.cap + UTFMax => "shortbuf" \in c.r.x
  /\ \A c \in C : c.cs \in TextsB /\ 2 * (PrimLen(c.cs) + UTFMax) <= c.cap => c.r.x = {}
  /\ FixedFill \/ \E c, d \in C : c.cs \in TextsB /\ d.cs \in TextsB /\ PrimLen(c.cs) = PrimLen(d.cs) /\ c.cap = d.cap /\ c.r.x = {} /\ d.r.x # {}
\* every kind of lookahead meets a refill with every possible number of bytes in hand
Situations(C) == UNION {c.r.sits : c \in {d \in C : d.r.x = {}}}
NonVacuous(C) ==
  /\ \A h \in 1..3 : [op |-> "peekRune", rem |-> h] \in Situations(C)
  /\ [op |-> "byte", rem |-> 0] \in Situations(C)
  /\ FixedFill \/ \E c \in C : "shortbuf" \in c.r.x
  /\ \E c \in C : c.r.x = {} /\ \E st \in c.r.sits : st.op = "primitive" /\ st.rem > 0

CheckAll(C) == /\ PrintT(<<"lexer cases", Cardinality(C), "on the defect path", Cardinality({c \in C : c.r.x # {}})>>)
            /\ (Holds(C) \/ (PrintT("Holds fails") /\ FALSE))
            /\ (NonVacuous(C) \/ (PrintT("NonVacuous fails") /\ FALSE))
            /\ (OutFile = "" \/ JsonSerialize(OutFile, [situations |-> SetToSeq(Situations(C)), cases |-> Cardinality(C),
                                                        shortbuf |-> Cardinality({c \in C : c.r.x # {}})]))
ASSUME CheckAll(AllCases)

VARIABLE done
Init == done = FALSE
Next == done = FALSE /\ done' = TRUE
Spec == Init /\ [][Next]_done
=============================================================================
