----------------------------- MODULE BufferPool -----------------------------
(***************************************************************************)
(* C04 -- buffers recycled between ZNG frames never change what any value  *)
(* evaluates to.                                                           *)
(*                                                                         *)
(* zio/zngio/buffer.go keeps frame buffers in sync.Pools (smallBuffers /   *)
(* bigBuffers); zio/zngio/batch.go wraps the uncompressed buffer of a      *)
(* frame in a reference-counted batch whose zed.Values alias the buffer;   *)
(* batch.Unref frees the buffer when the count reaches zero, after which   *)
(* newBuffer may hand the same memory to the next frame.                   *)
(*                                                                         *)
(* Part 1 (Mode = "model"): the ownership protocol as a state machine --   *)
(* the parser obtains a buffer, a worker either rejects the frame (buffer  *)
(* filter) and frees it or wraps it in a batch; a downstream operator that *)
(* keeps values across pulls either holds a reference or copies the value; *)
(* TLC checks NoUseAfterFree / NoDoubleFree / RefsNonNegative over all     *)
(* interleavings for small bounds.                                         *)
(*                                                                         *)
(* Part 2 (Mode = "trace"): validation of traces recorded from the real    *)
(* code through the verif hooks zngio.buffer.new / zngio.buffer.free /     *)
(* zngio.batch.new / zngio.batch.unref against the same ownership rules    *)
(* (harness/props/c04).  Pointers are mapped to small integers by the      *)
(* harness; Ref() and the allocation of decompression targets are not      *)
(* hooked, so a reference count is known exactly only at the moment the    *)
(* buffer is freed (then it is zero) and a buffer may first be seen when   *)
(* a batch is built on it.                                                 *)
(***************************************************************************)
EXTENDS Integers, Sequences, FiniteSets, TLC, Json

CONSTANTS Mode,        \* "model" | "trace"
          NBuf, NBatch, MaxFrames,   \* model bounds
          Undisciplined,             \* model: TRUE lets the operator keep an alias without a reference (must be caught)
          TraceFile    \* trace mode: ndjson, one event per line

\* ======================================================================
\* Part 1: the protocol model
\* ======================================================================
Bufs == 1..NBuf
Batches == 1..NBatch
\* a downstream operator holds values; each value aliases a buffer or is a private copy
VARIABLES bstate,     \* bstate[b] \in {"free", "parser", "worker", "batch"}
          owner,      \* owner[b]: the batch wrapping b (0 = none)
          refs,       \* refs[ba]: reference count of batch ba (0 = idle)
          pullRef,    \* pullRef[ba]: the consumer of the pull has not yet called Unref
          held,       \* set of [buf |-> b or 0 (copy), ref |-> BOOLEAN]: values the operator still uses
          frames      \* frames read so far
mvars == <<bstate, owner, refs, pullRef, held, frames>>

MInit == /\ bstate = [b \in Bufs |-> "free"]
         /\ owner = [b \in Bufs |-> 0]
         /\ refs = [ba \in Batches |-> 0]
         /\ pullRef = [ba \in Batches |-> FALSE]
         /\ held = {}
         /\ frames = 0

\* release one reference of batch ba; at zero the buffer goes back to the pool (batch.Unref)
Release(ba) ==
  /\ refs' = [refs EXCEPT ![ba] = @ - 1]
  /\ IF refs[ba] = 1
     THEN /\ bstate' = [b \in Bufs |-> IF owner[b] = ba THEN "free" ELSE bstate[b]]
          /\ owner' = [b \in Bufs |-> IF owner[b] = ba THEN 0 ELSE owner[b]]
     ELSE UNCHANGED <<bstate, owner>>

\* parser.decodeValues: newBufferFromBytes (pool Get or fresh)
Get(b) == /\ bstate[b] = "free" /\ frames < MaxFrames
          /\ bstate' = [bstate EXCEPT ![b] = "parser"]
          /\ frames' = frames + 1
          /\ UNCHANGED <<owner, refs, pullRef, held>>
\* scanner: the frame is handed to a worker
HandToWorker(b) == /\ bstate[b] = "parser"
                   /\ bstate' = [bstate EXCEPT ![b] = "worker"]
                   /\ UNCHANGED <<owner, refs, pullRef, held, frames>>
\* scanBatch: the buffer filter says no (or no value survives): buf.free()
Reject(b) == /\ bstate[b] = "worker"
             /\ bstate' = [bstate EXCEPT ![b] = "free"]
             /\ UNCHANGED <<owner, refs, pullRef, held, frames>>
\* scanBatch: newBatch(buf), refs = 1; the batch is delivered downstream
NewBatch(b, ba) == /\ bstate[b] = "worker" /\ refs[ba] = 0
                   /\ bstate' = [bstate EXCEPT ![b] = "batch"]
                   /\ owner' = [owner EXCEPT ![b] = ba]
                   /\ refs' = [refs EXCEPT ![ba] = 1]
                   /\ pullRef' = [pullRef EXCEPT ![ba] = TRUE]
                   /\ UNCHANGED <<held, frames>>
\* while it has the pulled batch, the operator keeps a value beyond the pull:
\* it takes a reference (batch.Ref) ...
KeepRef(b) == /\ bstate[b] = "batch" /\ pullRef[owner[b]] /\ [buf |-> b, ref |-> TRUE] \notin held
              /\ refs' = [refs EXCEPT ![owner[b]] = @ + 1]
              /\ held' = held \cup {[buf |-> b, ref |-> TRUE]}
              /\ UNCHANGED <<bstate, owner, pullRef, frames>>
\* ... or copies the value (zed.Value.Copy): no alias remains ...
KeepCopy(b) == /\ bstate[b] = "batch" /\ pullRef[owner[b]]
               /\ held' = held \cup {[buf |-> 0, ref |-> FALSE]}
               /\ UNCHANGED <<bstate, owner, refs, pullRef, frames>>
\* ... or (only when Undisciplined) keeps the alias without a reference
KeepAlias(b) == /\ Undisciplined /\ bstate[b] = "batch" /\ pullRef[owner[b]]
                /\ held' = held \cup {[buf |-> b, ref |-> FALSE]}
                /\ UNCHANGED <<bstate, owner, refs, pullRef, frames>>
\* the consumer of the pull is done with the batch: batch.Unref
PullUnref(ba) == /\ pullRef[ba]
                 /\ pullRef' = [pullRef EXCEPT ![ba] = FALSE]
                 /\ Release(ba)
                 /\ UNCHANGED <<held, frames>>
\* the operator lets go of a kept value (and of its reference)
Drop(v) == /\ v \in held
           /\ held' = held \ {v}
           /\ IF v.ref THEN Release(owner[v.buf]) ELSE UNCHANGED <<refs, bstate, owner>>
           /\ UNCHANGED <<pullRef, frames>>
MNext == \/ \E b \in Bufs : Get(b) \/ HandToWorker(b) \/ Reject(b) \/ KeepRef(b) \/ KeepCopy(b) \/ KeepAlias(b)
         \/ \E b \in Bufs, ba \in Batches : NewBatch(b, ba)
         \/ \E ba \in Batches : PullUnref(ba)
         \/ \E v \in held : Drop(v)

\* a held value may be read at any time: its buffer must still belong to its batch
NoUseAfterFree == \A v \in held : v.buf # 0 => bstate[v.buf] = "batch"
RefsNonNegative == \A ba \in Batches : refs[ba] >= 0
OwnershipConsistent == \A b \in Bufs : (bstate[b] = "batch") <=> (owner[b] # 0 /\ refs[owner[b]] > 0)
\* the count is exactly the pull's reference plus the operator's
RefsExact == \A ba \in Batches : refs[ba] = (IF pullRef[ba] THEN 1 ELSE 0)
                 + Cardinality({v \in held : v.ref /\ v.buf # 0 /\ owner[v.buf] = ba})

\* ======================================================================
\* Part 2: trace validation
\* ======================================================================
Trace == IF Mode = "trace" THEN ndJsonDeserialize(TraceFile) ELSE <<>>
\* event: [e |-> "reset" | "bnew" | "bfree" | "banew" | "baunref", b |-> buffer id, ba |-> batch id]
VARIABLES pos,        \* next event
          live,       \* buffers currently allocated (seen new or implicitly, not yet freed)
          freed,      \* buffers seen freed and not re-allocated since
          bbuf,       \* bbuf[ba]: buffer of active batch ba (function with finite domain)
          lastUnref,  \* active batches whose most recent event was an unref
          released,   \* batches seen and released since the last reset
          compressed, \* the current run reads compressed frames (reset event with b = 1)
          verdict     \* "" or the rule violated at position pos-1
tvars == <<pos, live, freed, bbuf, lastUnref, released, compressed, verdict>>

TInit == /\ pos = 1 /\ live = {} /\ freed = {} /\ bbuf = <<>> /\ lastUnref = {} /\ released = {} /\ compressed = TRUE /\ verdict = ""

ActiveOn(b) == {ba \in DOMAIN bbuf : bbuf[ba] = b}
Step ==
  /\ pos <= Len(Trace) /\ verdict = ""
  /\ LET ev == Trace[pos] IN
     /\ pos' = pos + 1
     /\ CASE ev.e = "reset" ->      \* next recorded run: pools are process-wide, but ids are per run
               /\ live' = {} /\ freed' = {} /\ bbuf' = <<>> /\ lastUnref' = {} /\ released' = {} /\ compressed' = (ev.b = 1) /\ verdict' = ""
          [] ev.e = "bnew" ->       \* newBufferFromBytes
               /\ verdict' = IF ev.b \in live THEN "buffer handed out while still in use" ELSE ""
               /\ live' = live \cup {ev.b} /\ freed' = freed \ {ev.b}
               /\ UNCHANGED <<bbuf, lastUnref, released, compressed>>
          [] ev.e = "bfree" ->      \* buffer.free
               \* (with compression the decompression targets come from newBuffer, which has no
               \* hook: a buffer may have been handed out again unseen, so a second free proves nothing)
               /\ verdict' = IF ev.b \in freed /\ ~compressed THEN "double free"
                             ELSE IF \E ba \in ActiveOn(ev.b) : ba \notin lastUnref THEN "buffer freed while a batch still references it"
                             ELSE ""
               /\ live' = live \ {ev.b} /\ freed' = freed \cup {ev.b}
               \* the batches on this buffer are now released (their count reached zero)
               /\ bbuf' = [ba \in (DOMAIN bbuf) \ ActiveOn(ev.b) |-> bbuf[ba]]
               /\ lastUnref' = lastUnref \ ActiveOn(ev.b)
               /\ released' = released \cup ActiveOn(ev.b)
               /\ UNCHANGED compressed
          [] ev.e = "banew" ->      \* newBatch(buf)
               /\ verdict' = IF ev.ba \in DOMAIN bbuf THEN "batch reused while still referenced"
                             \* (a freed buffer may have been handed out again by newBuffer, which has no hook)
                             ELSE IF ActiveOn(ev.b) # {} THEN "two batches on one buffer"
                             ELSE ""
               /\ bbuf' = [ba \in (DOMAIN bbuf) \cup {ev.ba} |-> IF ba = ev.ba THEN ev.b ELSE bbuf[ba]]
               /\ live' = live \cup {ev.b}          \* decompression targets are first seen here
               /\ freed' = freed \ {ev.b}
               /\ lastUnref' = lastUnref \ {ev.ba}
               /\ released' = released \ {ev.ba}
               /\ UNCHANGED compressed
          [] ev.e = "baunref" ->    \* batch.Unref (logged before the decrement)
               \* a batch not seen since the reset may stem from before it (late event): accepted
               /\ verdict' = IF ev.ba \notin DOMAIN bbuf
                             THEN (IF ev.ba \in released THEN "unref of a batch that was already released" ELSE "")
                             ELSE IF bbuf[ev.ba] # ev.b THEN "batch/buffer association changed"
                             ELSE IF ev.b \in freed THEN "unref after the buffer was freed"
                             ELSE ""
               /\ lastUnref' = IF ev.ba \in DOMAIN bbuf THEN lastUnref \cup {ev.ba} ELSE lastUnref
               /\ UNCHANGED <<live, freed, bbuf, released, compressed>>
TDone == pos > Len(Trace) /\ UNCHANGED tvars

\* ======================================================================
Init == MInit /\ TInit
Next == IF Mode = "model" THEN MNext /\ UNCHANGED tvars ELSE (Step \/ TDone) /\ UNCHANGED mvars
Spec == Init /\ [][Next]_<<mvars, tvars>>
ModelInv == Mode = "model" => (NoUseAfterFree /\ RefsNonNegative /\ OwnershipConsistent /\ RefsExact)
\* The whole trace obeys the ownership rules; the position of the offending event is printed.
TraceOK == verdict = "" \/ (PrintT(<<"TRACE-VIOLATION", pos - 1, verdict>>) /\ FALSE)
\* acceptance: the end of the trace was reached
TraceEnd == (Mode = "trace" /\ pos > Len(Trace)) => PrintT(<<"TRACE-END", pos - 1>>)
=============================================================================
