----------------------------- MODULE ZsonDecor -----------------------------
(***************************************************************************)
(* C02 -- ZSON text round trip is the identity; JSON is a subset.          *)
(*                                                                         *)
(* Part 1.  The decoration decision and typedef scope logic of             *)
(*   zson/formatter.go   Formatter.FormatRecord/Format, formatValue,       *)
(*                       decorate, formatVector/elemHelper, formatUnion,   *)
(*                       formatMap, formatType(Body), hasName/nameOf/      *)
(*                       saveType, the stand-alone formatType used inside  *)
(*                       error types, formatTypeValue (zed.AppendTypeValue)*)
(*   zson/zson.go        Implied, SelfDescribing                           *)
(* against the parser's decorator chain (zson/parser-values.go decorate /  *)
(* parseDecorator) and the resolution logic of                             *)
(*   zson/analyzer.go    convertValue, convertAny, convertPrimitive/       *)
(*                       castType, convertRecord, convertArray/Set/Map,    *)
(*                       normalizeElems, convertUnion, convertEnum,        *)
(*                       convertTypeValue, convertError, convertType,      *)
(*                       enterTypeDef (+ Context.LookupTypeDef fallback)   *)
(*   zson/builder.go     buildEnum (type assertion on the enum type)       *)
(* over abstract syntax: values are trees, text is the tree of decorators  *)
(* the formatter would write.  TLC checks                                  *)
(*      Analyze(Parse(Format(s))) = s                                      *)
(* for every sequence s of one or two values of a small alphabet, every    *)
(* typedef scope (per value / per stream), persist setting and reader      *)
(* (one analyzer per stream / one per value), except on named defect       *)
(* paths, and exports every case with the predicted decorator skeleton.    *)
(*                                                                         *)
(* Part 2.  JSON is a subset: the typing of a JSON document by             *)
(* zio/jsonio (reader.go handleToken, builder.go endArray/endRecord)       *)
(* against the typing of the same text by the ZSON parser/analyzer         *)
(* (matchPrimitive's literal classes, matchFields' duplicate handling,     *)
(* normalizeElems), over all JSON trees of small depth.                    *)
(***************************************************************************)
EXTENDS Integers, Sequences, SequencesExt, FiniteSets, TLC, Json

CONSTANTS Level,          \* 1: small value alphabet, 2: large
          Shard, NShards, \* this process handles the cases with index % NShards = Shard
          Fixed,          \* subset of {"emptylost", "namedenum", "uint64", "dupkey"}: defect paths repaired in the tree
                          \* under test (the harness probes the real code)
          OutFile,        \* ndjson export of the round-trip cases ("" = none)
          JsonFile        \* ndjson export of the JSON cases ("" = none; only shard 0 writes it)

\* ------------------------------------------------------------- type terms
P(p)         == [k |-> "prim", p |-> p]
NullT        == P("null")
I64          == P("int64")
U8           == P("uint8")
Str          == P("string")
F64          == P("float64")
TypeT        == P("type")
Fld(n, t)    == [n |-> n, t |-> t]
Rec(fs)      == [k |-> "rec", fs |-> fs]
Arr(e)       == [k |-> "arr", e |-> e]
SetT(e)      == [k |-> "set", e |-> e]
MapT(kt, vt) == [k |-> "map", kt |-> kt, vt |-> vt]
Named(n, t)  == [k |-> "named", n |-> n, t |-> t]
Enum(syms)   == [k |-> "enum", syms |-> syms]
Err(t)       == [k |-> "err", t |-> t]
NONE         == [k |-> "none"]          \* no type (nil)

RECURSIVE Under(_)
Under(t) == IF t.k = "named" THEN Under(t.t) ELSE t      \* zed.TypeUnder

Sign(d) == IF d < 0 THEN -1 ELSE IF d > 0 THEN 1 ELSE 0
PrimID(p) == CASE p = "uint8" -> 0 [] p = "uint64" -> 3 [] p = "int64" -> 9 [] p = "float64" -> 16 [] p = "bool" -> 23
               [] p = "string" -> 25 [] p = "type" -> 28 [] p = "null" -> 29
KindRank(k) == CASE k = "prim" -> 0 [] k = "rec" -> 1 [] k = "arr" -> 2 [] k = "set" -> 3 [] k = "map" -> 4
                 [] k = "union" -> 5 [] k = "enum" -> 6 [] k = "err" -> 7
\* strings.Compare on the names used here
NameRank(n) == CASE n = "M" -> 1 [] n = "N" -> 2 [] n = "a" -> 4 [] n = "b" -> 5 [] n = "c" -> 6 [] n = "x" -> 7 [] n = "y" -> 8

\* zed.CompareTypes (the member order of a union: Context.LookupTypeUnion sorts with it)
RECURSIVE CmpT(_, _), CmpNames(_, _, _), CmpFieldTypes(_, _, _), CmpSeqT(_, _, _), CmpSyms(_, _, _)
CmpT(a, b) ==
  LET au == Under(a)  bu == Under(b) IN
  IF au = bu THEN
       IF a.k = "named" THEN (IF b.k = "named" THEN Sign(NameRank(a.n) - NameRank(b.n)) ELSE 1)
       ELSE IF b.k = "named" THEN -1 ELSE 0
  ELSE IF KindRank(au.k) # KindRank(bu.k) THEN Sign(KindRank(au.k) - KindRank(bu.k))
  ELSE CASE au.k = "prim"  -> Sign(PrimID(au.p) - PrimID(bu.p))
         [] au.k = "rec"   -> IF Len(au.fs) # Len(bu.fs) THEN Sign(Len(au.fs) - Len(bu.fs))
                              ELSE LET c == CmpNames(au.fs, bu.fs, 1) IN
                                   IF c # 0 THEN c ELSE CmpFieldTypes(au.fs, bu.fs, 1)
         [] au.k \in {"arr", "set"} -> CmpT(au.e, bu.e)
         [] au.k = "map"   -> LET c == CmpT(au.kt, bu.kt) IN IF c # 0 THEN c ELSE CmpT(au.vt, bu.vt)
         [] au.k = "union" -> IF Len(au.ts) # Len(bu.ts) THEN Sign(Len(au.ts) - Len(bu.ts))
                              ELSE CmpSeqT(au.ts, bu.ts, 1)
         [] au.k = "enum"  -> IF Len(au.syms) # Len(bu.syms) THEN Sign(Len(au.syms) - Len(bu.syms))
                              ELSE CmpSyms(au.syms, bu.syms, 1)
         [] au.k = "err"   -> CmpT(au.t, bu.t)
CmpNames(f, g, i) == IF i > Len(f) THEN 0
                     ELSE LET c == Sign(NameRank(f[i].n) - NameRank(g[i].n)) IN
                          IF c # 0 THEN c ELSE CmpNames(f, g, i + 1)
CmpFieldTypes(f, g, i) == IF i > Len(f) THEN 0
                          ELSE LET c == CmpT(f[i].t, g[i].t) IN
                               IF c # 0 THEN c ELSE CmpFieldTypes(f, g, i + 1)
CmpSeqT(s, u, i) == IF i > Len(s) THEN 0
                    ELSE LET c == CmpT(s[i], u[i]) IN IF c # 0 THEN c ELSE CmpSeqT(s, u, i + 1)
CmpSyms(s, u, i) == IF i > Len(s) THEN 0
                    ELSE LET c == Sign(NameRank(s[i]) - NameRank(u[i])) IN IF c # 0 THEN c ELSE CmpSyms(s, u, i + 1)

RECURSIVE InsertT(_, _), SortT(_), Dedup(_)
InsertT(s, x) == IF s = <<>> THEN <<x>>
                 ELSE IF CmpT(x, Head(s)) < 0 THEN <<x>> \o s
                 ELSE <<Head(s)>> \o InsertT(Tail(s), x)
SortT(s) == IF s = <<>> THEN <<>> ELSE InsertT(SortT(SubSeq(s, 1, Len(s) - 1)), s[Len(s)])
Uni(ts) == [k |-> "union", ts |-> SortT(ts)]
\* zed.UniqueTypes: sort, drop adjacent duplicates
Dedup(s) == IF Len(s) <= 1 THEN s
            ELSE IF s[1] = s[2] THEN Dedup(Tail(s)) ELSE <<s[1]>> \o Dedup(Tail(s))
UniqueTypes(s) == Dedup(SortT(s))
SeqHas(s, x) == \E i \in 1..Len(s) : s[i] = x

\* zson.Implied / zson.SelfDescribing
ImpliedPrims == {"int64", "float64", "string", "bool", "type", "null"}
RECURSIVE Implied(_), SelfDescribing(_)
Implied(t) ==
  CASE t.k = "prim" -> t.p \in ImpliedPrims
    [] t.k = "rec"  -> \A i \in 1..Len(t.fs) : Implied(t.fs[i].t)
    [] t.k \in {"arr", "set"} -> Implied(t.e)
    [] t.k = "map"  -> Implied(t.kt) /\ Implied(t.vt)
    [] t.k = "err"  -> Implied(t.t)
    [] OTHER -> FALSE                                   \* named, union, enum
SelfDescribing(t) ==
  \/ Implied(t)
  \/ t.k \in {"rec", "arr", "set", "map"}
  \/ t.k = "named" /\ SelfDescribing(t.t)

\* ------------------------------------------------------------ values
\* A value is [t |-> type, v |-> payload]; the payload of a component is typed by its context.
VNull        == [k |-> "null"]
VPrim        == [k |-> "prim"]                           \* a non-null primitive (its text is the harness's business)
VRec(kids)   == [k |-> "rec", kids |-> kids]
VSeq(kids)   == [k |-> "seq", kids |-> kids]             \* array or set elements
VMap(ents)   == [k |-> "map", ents |-> ents]             \* <<[key |-> payload, val |-> payload]>>
VUni(mt, kid) == [k |-> "union", mt |-> mt, kid |-> kid]  \* member type and the member's payload
VEnum(sym)   == [k |-> "enum", sym |-> sym]
VErr(kid)    == [k |-> "err", kid |-> kid]
VTv(ty)      == [k |-> "tv", ty |-> ty]                  \* a type value
Val(t, v)    == [t |-> t, v |-> v]

\* ------------------------------------------------------------ text (abstract syntax)
\* A node is what the formatter writes for one value: the bare value and the decorators after it.
Node(any, decs) == [any |-> any, decs |-> decs]
APrim(lit)   == [k |-> "prim", lit |-> lit]              \* lit: the type matchPrimitive gives the literal
ARec(fs)     == [k |-> "rec", fs |-> fs]                 \* <<[n |-> name, v |-> node]>>
ASeq(k, es)  == [k |-> k, es |-> es]                     \* k: "arr" | "set"
AMap(ents)   == [k |-> "map", ents |-> ents]             \* <<[key |-> node, val |-> node]>>
AEnum(sym)   == [k |-> "enum", sym |-> sym]
AErr(v)      == [k |-> "err", v |-> v]
ATv(ty)      == [k |-> "tv", ty |-> ty]
DDef(n)      == [k |-> "def", n |-> n]                   \* (=name)
DCast(ty)    == [k |-> "cast", ty |-> ty]                \* (type)
\* type syntax
TPrim(p)     == [k |-> "prim", p |-> p]
TRef(n)      == [k |-> "ref", n |-> n]
TDef(n, ty)  == [k |-> "tdef", n |-> n, ty |-> ty]
TRec(fs)     == [k |-> "rec", fs |-> fs]
TArr(e)      == [k |-> "arr", e |-> e]
TSet(e)      == [k |-> "set", e |-> e]
TMap(kt, vt) == [k |-> "map", kt |-> kt, vt |-> vt]
TUni(ts)     == [k |-> "union", ts |-> ts]
TEnum(syms)  == [k |-> "enum", syms |-> syms]
TErr(t)      == [k |-> "err", t |-> t]
\* the literal class of a primitive's text (matchPrimitive): decimal integers are int64
LitOf(p) == IF p \in {"uint8", "int64"} THEN "int64" ELSE p

\* ============================================================ the formatter
TypeNames == {"M", "N"}
EmptyTab == [n \in TypeNames |-> NONE]
\* Formatter state: typedefs, permanent.  persist: [on |-> a regexp was given, names |-> the names it matches]
PNone == [on |-> FALSE, names |-> {}]
POn(S) == [on |-> TRUE, names |-> S]
FState(td, pm, x) == [td |-> td, pm |-> pm, x |-> x]    \* x: named defect paths taken (DESIGN 2.4)
TaintF(st, xs) == FState(st.td, st.pm, st.x \cup xs)

HasName(st, persist, typ) ==                                       \* Formatter.hasName: looks at the NAME only
  typ.k = "named" /\ (st.td[typ.n] # NONE \/ (persist.on /\ st.pm[typ.n] # NONE))
NameOf(st, persist, typ) ==                                        \* Formatter.nameOf: "" unless bound to this very type
  IF typ.k # "named" THEN ""
  ELSE IF st.td[typ.n] = typ THEN typ.n
  ELSE IF persist.on /\ st.pm[typ.n] = typ THEN typ.n ELSE ""
SaveType(st, persist, named) ==                                    \* Formatter.saveType
  FState([st.td EXCEPT ![named.n] = named],
         IF persist.on /\ named.n \in persist.names THEN [st.pm EXCEPT ![named.n] = named] ELSE st.pm, st.x)

\* the package-level formatType(b, typedefs, typ) and zed.AppendTypeValue: a fresh table; a name is
\* defined at its first use and bound after its body (depth-first order)
RECURSIVE Standalone(_, _), StandaloneSeq(_, _, _, _), StandaloneFields(_, _, _, _)
Standalone(typ, tab) ==
  CASE typ.k = "named" ->
         IF tab[typ.n] = typ THEN [ty |-> TRef(typ.n), tab |-> tab]
         ELSE LET r == Standalone(typ.t, tab) IN [ty |-> TDef(typ.n, r.ty), tab |-> [r.tab EXCEPT ![typ.n] = typ]]
    [] typ.k = "prim" -> [ty |-> TPrim(typ.p), tab |-> tab]
    [] typ.k = "rec"  -> LET r == StandaloneFields(typ.fs, tab, 1, <<>>) IN [ty |-> TRec(r.fs), tab |-> r.tab]
    [] typ.k = "arr"  -> LET r == Standalone(typ.e, tab) IN [ty |-> TArr(r.ty), tab |-> r.tab]
    [] typ.k = "set"  -> LET r == Standalone(typ.e, tab) IN [ty |-> TSet(r.ty), tab |-> r.tab]
    [] typ.k = "map"  -> LET rk == Standalone(typ.kt, tab)  rv == Standalone(typ.vt, rk.tab) IN
                         [ty |-> TMap(rk.ty, rv.ty), tab |-> rv.tab]
    [] typ.k = "union" -> LET r == StandaloneSeq(typ.ts, tab, 1, <<>>) IN [ty |-> TUni(r.ts), tab |-> r.tab]
    [] typ.k = "enum" -> [ty |-> TEnum(typ.syms), tab |-> tab]
    [] typ.k = "err"  -> LET r == Standalone(typ.t, tab) IN [ty |-> TErr(r.ty), tab |-> r.tab]
StandaloneSeq(ts, tab, i, acc) ==
  IF i > Len(ts) THEN [ts |-> acc, tab |-> tab]
  ELSE LET r == Standalone(ts[i], tab) IN StandaloneSeq(ts, r.tab, i + 1, Append(acc, r.ty))
StandaloneFields(fs, tab, i, acc) ==
  IF i > Len(fs) THEN [fs |-> acc, tab |-> tab]
  ELSE LET r == Standalone(fs[i].t, tab) IN StandaloneFields(fs, r.tab, i + 1, Append(acc, Fld(fs[i].n, r.ty)))

\* the body of a named type mentions another type with the same name
RECURSIVE MentionsNameN(_, _)
MentionsNameN(t, n) ==
  CASE t.k = "named" -> t.n = n \/ MentionsNameN(t.t, n)
    [] t.k = "prim"  -> FALSE
    [] t.k = "rec"   -> \E i \in 1..Len(t.fs) : MentionsNameN(t.fs[i].t, n)
    [] t.k \in {"arr", "set"} -> MentionsNameN(t.e, n)
    [] t.k = "map"   -> MentionsNameN(t.kt, n) \/ MentionsNameN(t.vt, n)
    [] t.k = "union" -> \E i \in 1..Len(t.ts) : MentionsNameN(t.ts[i], n)
    [] t.k = "enum"  -> FALSE
    [] t.k = "err"   -> MentionsNameN(t.t, n)
\* F-C02 defect path "samename": saveType runs before the body is written, the reader binds the name after it,
\* so after N=[N=int64] the writer believes N is the inner type and the reader the outer one
SameNameTaint(typ) == IF typ.k = "named" /\ MentionsNameN(typ.t, typ.n) THEN {"samename"} ELSE {}

\* Formatter.formatType / formatTypeBody: the type inside a decorator, with the formatter's typedefs
RECURSIVE FType(_, _, _), FTypeSeq(_, _, _, _, _), FTypeFields(_, _, _, _, _)
FType(st, persist, typ) ==
  IF NameOf(st, persist, typ) # "" THEN [ty |-> TRef(typ.n), s |-> st]
  ELSE CASE typ.k = "named" ->
              \* saveType BEFORE the body is formatted
              LET r == FType(TaintF(SaveType(st, persist, typ), SameNameTaint(typ)), persist, typ.t) IN [ty |-> TDef(typ.n, r.ty), s |-> r.s]
         [] typ.k = "prim" -> [ty |-> TPrim(typ.p), s |-> st]
         [] typ.k = "rec"  -> LET r == FTypeFields(st, persist, typ.fs, 1, <<>>) IN [ty |-> TRec(r.fs), s |-> r.s]
         [] typ.k = "arr"  -> LET r == FType(st, persist, typ.e) IN [ty |-> TArr(r.ty), s |-> r.s]
         [] typ.k = "set"  -> LET r == FType(st, persist, typ.e) IN [ty |-> TSet(r.ty), s |-> r.s]
         [] typ.k = "map"  -> LET rk == FType(st, persist, typ.kt)  rv == FType(rk.s, persist, typ.vt) IN
                              [ty |-> TMap(rk.ty, rv.ty), s |-> rv.s]
         [] typ.k = "union" -> LET r == FTypeSeq(st, persist, typ.ts, 1, <<>>) IN [ty |-> TUni(r.ts), s |-> r.s]
         [] typ.k = "enum" -> [ty |-> TEnum(typ.syms), s |-> st]
         \* error types are written by the stand-alone formatter with a fresh table; nothing is saved
         [] typ.k = "err"  -> [ty |-> TErr(Standalone(typ.t, EmptyTab).ty), s |-> st]
FTypeSeq(st, persist, ts, i, acc) ==
  IF i > Len(ts) THEN [ts |-> acc, s |-> st]
  ELSE LET r == FType(st, persist, ts[i]) IN FTypeSeq(r.s, persist, ts, i + 1, Append(acc, r.ty))
FTypeFields(st, persist, fs, i, acc) ==
  IF i > Len(fs) THEN [fs |-> acc, s |-> st]
  ELSE LET r == FType(st, persist, fs[i].t) IN FTypeFields(r.s, persist, fs, i + 1, Append(acc, Fld(fs[i].n, r.ty)))

NoDec(st) == [ds |-> <<>>, s |-> st]
\* Formatter.decorate(typ, known, null)
Decorate(st, persist, typ, known, null) ==
  IF known \/ (~(null /\ typ # NullT) /\ Implied(typ)) THEN NoDec(st)
  ELSE IF NameOf(st, persist, typ) # "" THEN [ds |-> <<DCast(TRef(typ.n))>>, s |-> st]
  ELSE IF SelfDescribing(typ) /\ ~null THEN
       IF typ.k = "named" THEN [ds |-> <<DDef(typ.n)>>, s |-> TaintF(SaveType(st, persist, typ), SameNameTaint(typ))] ELSE NoDec(st)
  ELSE LET r == FType(st, persist, typ) IN [ds |-> <<DCast(r.ty)>>, s |-> r.s]

\* Formatter.formatValue(typ, bytes, parentKnown, parentImplied, decorate) -> [any, decs, s]
RECURSIVE FV(_, _, _, _, _, _, _), FFields(_, _, _, _, _, _, _, _), FElems(_, _, _, _, _, _, _, _, _), FEntries(_, _, _, _, _, _, _, _, _)
\* elemHelper.add: the type and payload an element is formatted with, and the union member it shows
ElemOf(et, kid) == LET u == Under(et) IN
  IF u.k # "union" THEN [t |-> et, v |-> kid, seen |-> {}]
  ELSE IF kid.k = "null" THEN [t |-> NullT, v |-> kid, seen |-> {}]
  ELSE [t |-> kid.mt, v |-> kid.kid, seen |-> {kid.mt}]
KnownUnionTaint(et, kid, known) ==
  IF known /\ Under(et).k = "union" /\ kid.k # "null" /\ ~Implied(kid.mt) THEN {"knownunion"} ELSE {}
\* elemHelper.needsDecoration
NeedsDecoration(et, seen) == LET u == Under(et) IN
  u.k = "union" /\ (et.k = "named" \/ Cardinality(seen) < Len(u.ts))

\* Defect paths of the writer, recorded in the state:
\*  "knownbyname"  hasName looks at the name only: a type whose name is bound to ANOTHER type counts as known,
\*                 which switches the decorators of its components off
\*  "namedenum"    a value of a named enum type is written %sym(name=enum(..)); zson.Build rejects it
\*  "emptylost"    an empty container is decorated as if it were not empty: at the top level (decorate gets
\*                 bytes == nil for null) and under a type name (the named case drops formatVector's result)
\*  "afterfull"    a container whose union elements do not show every member gets its full type as a decorator
\*                 (needsDecoration) and, being of a named type, a second decorator after it: (=name) -- for which
\*                 the parser builds DefValue{Of: nil} -- or (name), which typeCheck rejects against the first
\*  "refbeforedef" the full type a container gets (needsDecoration) refers by name to a type that one of its
\*                 elements defined ((=name) inside, (name) in the decorator after it): the reader resolves the
\*                 decorator before it looks at the elements
\*  "knownunion"   inside a value whose type name is known, the elements of an array / set / map of unions are
\*                 written without their member type; the reader can only guess it from the literal
\*  "tvbinds"      a type value mentions a type name that is bound to another type: the reader rebinds the
\*                 name (convertType enters typedefs), the writer does not know
RECURSIVE RefsIn(_)
RefsIn(ty) ==
  CASE ty.k = "ref"  -> {ty.n}
    [] ty.k = "tdef" -> RefsIn(ty.ty)
    [] ty.k = "rec"  -> UNION {RefsIn(ty.fs[i].t) : i \in 1..Len(ty.fs)}
    [] ty.k \in {"arr", "set"} -> RefsIn(ty.e)
    [] ty.k = "map"  -> RefsIn(ty.kt) \cup RefsIn(ty.vt)
    [] ty.k = "union" -> UNION {RefsIn(ty.ts[i]) : i \in 1..Len(ty.ts)}
    [] ty.k = "err"  -> RefsIn(ty.t)
    [] OTHER -> {}
\* d: the decoration of a container written after its elements; before / after: the writer's state around the elements
RefBeforeDef(d, before, after) ==
  IF d.ds # <<>> /\ d.ds[1].k = "cast" /\ \E n \in RefsIn(d.ds[1].ty) : before.td[n] # after.td[n]
  THEN [ds |-> d.ds, s |-> TaintF(d.s, {"refbeforedef"})] ELSE d
AfterFull(typ, decs) ==
  IF \E i \in 2..Len(decs) : decs[i].k = "def" \/ (decs[i].k = "cast" /\ decs[i - 1].k = "cast" /\ Under(typ).k # "union")
  THEN {"afterfull"} ELSE {}
RECURSIVE NamedIn(_)
NamedIn(t) ==
  CASE t.k = "named" -> {t} \cup NamedIn(t.t)
    [] t.k = "prim"  -> {}
    [] t.k = "rec"   -> UNION {NamedIn(t.fs[i].t) : i \in 1..Len(t.fs)}
    [] t.k \in {"arr", "set"} -> NamedIn(t.e)
    [] t.k = "map"   -> NamedIn(t.kt) \cup NamedIn(t.vt)
    [] t.k = "union" -> UNION {NamedIn(t.ts[i]) : i \in 1..Len(t.ts)}
    [] t.k = "enum"  -> {}
    [] t.k = "err"   -> NamedIn(t.t)
TvTaint(st, persist, ty) ==
  IF \E nt \in NamedIn(ty) : (st.td[nt.n] # NONE /\ st.td[nt.n] # nt) \/ (persist.on /\ st.pm[nt.n] # NONE /\ st.pm[nt.n] # nt)
  THEN {"tvbinds"} ELSE {}
KnownTaint(st, persist, typ, v) ==
  IF v.k # "null" /\ HasName(st, persist, typ) /\ NameOf(st, persist, typ) = "" THEN {"knownbyname"} ELSE {}
\* the decoration with the emptiness the code sees and with the real one
DecorateE(st, persist, typ, known, empty, emptyReal) ==
  LET d == Decorate(st, persist, typ, known, empty)  d2 == Decorate(st, persist, typ, known, emptyReal) IN
  IF d.ds = d2.ds THEN d ELSE [ds |-> d.ds, s |-> TaintF(d.s, {"emptylost"})]

FV(st, persist, typ, v, pk, pi, dec) ==
  LET known == pk \/ HasName(st, persist, typ) IN
  IF v.k = "null" THEN
       LET d == IF dec THEN Decorate(st, persist, typ, IF pi THEN FALSE ELSE pk, TRUE) ELSE NoDec(st)
       IN [any |-> APrim("null"), decs |-> d.ds, s |-> d.s, empty |-> FALSE]
  ELSE
  LET st1 == TaintF(st, KnownTaint(st, persist, typ, v)
                        \cup (IF typ.k = "named" /\ Under(typ).k = "enum" /\ "namedenum" \notin Fixed THEN {"namedenum"} ELSE {}))
      body ==
        CASE typ.k = "named" ->
               LET r == FV(st1, persist, typ.t, v, known, pi, FALSE) IN
               [any |-> r.any, decs |-> r.decs, s |-> r.s, empty |-> "emptylost" \in Fixed /\ r.empty, emptyReal |-> r.empty]
          [] typ.k = "prim" ->
               IF typ.p = "type" THEN [any |-> ATv(Standalone(v.ty, EmptyTab).ty), decs |-> <<>>, s |-> TaintF(st1, TvTaint(st1, persist, v.ty)), empty |-> FALSE, emptyReal |-> FALSE]
               ELSE [any |-> APrim(LitOf(typ.p)), decs |-> <<>>, s |-> st1, empty |-> FALSE, emptyReal |-> FALSE]
          [] typ.k = "rec" ->
               LET r == FFields(st1, persist, typ.fs, v.kids, 1, known, pi, <<>>) IN
               [any |-> ARec(r.fs), decs |-> <<>>, s |-> r.s, empty |-> FALSE, emptyReal |-> FALSE]
          [] typ.k \in {"arr", "set"} ->
               \* formatVector
               IF v.kids = <<>> THEN [any |-> ASeq(typ.k, <<>>), decs |-> <<>>, s |-> st1, empty |-> TRUE, emptyReal |-> TRUE]
               ELSE LET r == FElems(st1, persist, typ.e, v.kids, 1, known, pi, <<>>, {})
                        \* not all union members seen: the container gets its full type (decorate(val.Type(), false, true))
                        d == IF NeedsDecoration(typ.e, r.seen) THEN RefBeforeDef(Decorate(r.s, persist, typ, FALSE, TRUE), st1, r.s) ELSE NoDec(r.s)
                    IN [any |-> ASeq(typ.k, r.es), decs |-> d.ds, s |-> d.s, empty |-> FALSE, emptyReal |-> FALSE]
          [] typ.k = "union" ->
               \* formatUnion: the member is written with known = false, parentImplied = true, decorate = true
               LET r == FV(st1, persist, v.mt, v.kid, FALSE, TRUE, TRUE) IN
               [any |-> r.any, decs |-> r.decs, s |-> r.s, empty |-> FALSE, emptyReal |-> FALSE]
          [] typ.k = "map" ->
               LET r == FEntries(st1, persist, typ, v.ents, 1, known, pi, <<>>, [k |-> {}, v |-> {}])
                   need == NeedsDecoration(typ.kt, r.seen.k) \/ NeedsDecoration(typ.vt, r.seen.v)
                   d == IF need THEN RefBeforeDef(Decorate(r.s, persist, typ, FALSE, TRUE), st1, r.s) ELSE NoDec(r.s)
               IN [any |-> AMap(r.ents), decs |-> d.ds, s |-> d.s, empty |-> v.ents = <<>>, emptyReal |-> v.ents = <<>>]
          [] typ.k = "enum" -> [any |-> AEnum(v.sym), decs |-> <<>>, s |-> st1, empty |-> FALSE, emptyReal |-> FALSE]
          [] typ.k = "err" ->
               LET r == FV(st1, persist, typ.t, v.kid, known, pi, FALSE) IN
               [any |-> AErr(Node(r.any, r.decs)), decs |-> <<>>, s |-> r.s, empty |-> FALSE, emptyReal |-> FALSE]
      d == IF dec THEN DecorateE(body.s, persist, typ, pk, body.empty, body.emptyReal) ELSE NoDec(body.s)
      decs == body.decs \o d.ds
      s2 == TaintF(d.s, AfterFull(typ, decs))
  \* empty: this value is an empty container, whatever names wrap it (the caller that decorates needs it)
  IN [any |-> body.any, decs |-> decs, s |-> s2, empty |-> body.emptyReal]

FFields(st, persist, fs, kids, i, known, pi, acc) ==
  IF i > Len(fs) THEN [fs |-> acc, s |-> st]
  ELSE LET r == FV(st, persist, fs[i].t, kids[i], known, pi, TRUE) IN
       FFields(r.s, persist, fs, kids, i + 1, known, pi, Append(acc, [n |-> fs[i].n, v |-> Node(r.any, r.decs)]))
FElems(st, persist, et, kids, i, known, pi, acc, seen) ==
  IF i > Len(kids) THEN [es |-> acc, s |-> st, seen |-> seen]
  ELSE LET e == ElemOf(et, kids[i])
           r == FV(TaintF(st, KnownUnionTaint(et, kids[i], known)), persist, e.t, e.v, known, pi, TRUE)
       IN FElems(r.s, persist, et, kids, i + 1, known, pi, Append(acc, Node(r.any, r.decs)), seen \cup e.seen)
FEntries(st, persist, mt, ents, i, known, pi, acc, seen) ==
  IF i > Len(ents) THEN [ents |-> acc, s |-> st, seen |-> seen]
  ELSE LET ke == ElemOf(mt.kt, ents[i].key)
           rk == FV(TaintF(st, KnownUnionTaint(mt.kt, ents[i].key, known)), persist, ke.t, ke.v, known, pi, TRUE)
           ve == ElemOf(mt.vt, ents[i].val)
           rv == FV(TaintF(rk.s, KnownUnionTaint(mt.vt, ents[i].val, known)), persist, ve.t, ve.v, known, pi, TRUE)
       IN FEntries(rv.s, persist, mt, ents, i + 1, known, pi,
                   Append(acc, [key |-> Node(rk.any, rk.decs), val |-> Node(rv.any, rv.decs)]),
                   [k |-> seen.k \cup ke.seen, v |-> seen.v \cup ve.seen])

\* Formatter.FormatRecord (scope = "value": typedefs are reset) / Formatter.Format (scope = "stream")
FormatTop(st, persist, scope, val) ==
  LET st0 == IF scope = "value" THEN FState(EmptyTab, st.pm, st.x) ELSE st
      \* formatValueAndDecorate: decorate(typ, false, bytes == nil)
      r == FV(st0, persist, val.t, val.v, HasName(st0, persist, val.t), Implied(val.t), FALSE)
      d == DecorateE(r.s, persist, val.t, FALSE, val.v.k = "null" \/ ("emptylost" \in Fixed /\ r.empty), val.v.k = "null" \/ r.empty)
      decs == r.decs \o d.ds
      s2 == TaintF(d.s, AfterFull(val.t, decs))
  IN [node |-> Node(r.any, decs), s |-> s2]

\* ============================================================ the parser's decorator chain
\* parser-values.go decorate/parseDecorator: the first decorator wraps the bare value; every further
\* one wraps the chain so far -- except that a short-form (=name) in second or later position is built
\* from a nil value (DefValue{Of: nil}): the chain so far is dropped.
NIL == [k |-> "nil"]
Implicit(any) == [k |-> "implied", of |-> any]
RECURSIVE ToAST(_), AnyAST(_), Chain(_, _, _)
ToAST(node) ==
  LET any == AnyAST(node.any) IN
  IF node.decs = <<>> THEN Implicit(any)
  ELSE LET first == IF node.decs[1].k = "def" THEN [k |-> "def", of |-> any, n |-> node.decs[1].n]
                    ELSE [k |-> "cast", of |-> Implicit(any), ty |-> node.decs[1].ty]
       IN Chain(first, node.decs, 2)
Chain(val, decs, i) ==
  IF i > Len(decs) THEN val
  ELSE IF decs[i].k = "def" THEN Chain([k |-> "def", of |-> NIL, n |-> decs[i].n], decs, i + 1)
  ELSE Chain([k |-> "cast", of |-> val, ty |-> decs[i].ty], decs, i + 1)
AnyAST(any) ==
  CASE any.k = "rec" -> [k |-> "rec", fs |-> [i \in 1..Len(any.fs) |-> [n |-> any.fs[i].n, v |-> ToAST(any.fs[i].v)]]]
    [] any.k \in {"arr", "set"} -> [k |-> any.k, es |-> [i \in 1..Len(any.es) |-> ToAST(any.es[i])]]
    [] any.k = "map" -> [k |-> "map", ents |-> [i \in 1..Len(any.ents) |->
                           [key |-> ToAST(any.ents[i].key), val |-> ToAST(any.ents[i].val)]]]
    [] any.k = "err" -> [k |-> "err", v |-> ToAST(any.v)]
    [] OTHER -> any                                        \* prim, enum, tv

\* ============================================================ the analyzer
\* state: the analyzer's own table and the context's typedefs (Context.LookupTypeDef: last binding per name)
AState(tbl, ctx, x) == [tbl |-> tbl, ctx |-> ctx, x |-> x]   \* x: named defect paths taken
TaintA(s, xs) == AState(s.tbl, s.ctx, s.x \cup xs)
FAIL == [ok |-> FALSE]
OKV(v, s) == [ok |-> TRUE, v |-> v, s |-> s]
OKT(ty, s) == [ok |-> TRUE, ty |-> ty, s |-> s]
Enter(s, n, named) == AState([s.tbl EXCEPT ![n] = named], [s.ctx EXCEPT ![n] = named], s.x)   \* enterTypeDef

IsInt(p) == p \in {"uint8", "uint64", "int64"}
IsFloat(p) == p = "float64"
\* castType(typ, cast): typ is the literal's primitive type
CastOK(lit, cast) ==
  LET cu == Under(cast) IN
  \/ lit = "null"
  \/ cu.k = "prim" /\ (cu.p = lit \/ (IsInt(lit) /\ (IsInt(cu.p) \/ IsFloat(cu.p))) \/ (IsFloat(lit) /\ IsFloat(cu.p)))

\* Analyzer.convertType
RECURSIVE AT(_, _), ATSeq(_, _, _, _), ATFields(_, _, _, _)
AT(s, ty) ==
  CASE ty.k = "prim" -> OKT(P(ty.p), s)
    [] ty.k = "tdef" -> LET r == AT(s, ty.ty) IN
                        IF ~r.ok THEN FAIL ELSE LET named == Named(ty.n, r.ty) IN OKT(named, Enter(r.s, ty.n, named))
    [] ty.k = "ref"  -> IF s.tbl[ty.n] # NONE THEN OKT(s.tbl[ty.n], s)
                        ELSE IF s.ctx[ty.n] # NONE THEN OKT(s.ctx[ty.n], s) ELSE FAIL
    [] ty.k = "rec"  -> LET r == ATFields(s, ty.fs, 1, <<>>) IN IF ~r.ok THEN FAIL ELSE OKT(Rec(r.fs), r.s)
    [] ty.k = "arr"  -> LET r == AT(s, ty.e) IN IF ~r.ok THEN FAIL ELSE OKT(Arr(r.ty), r.s)
    [] ty.k = "set"  -> LET r == AT(s, ty.e) IN IF ~r.ok THEN FAIL ELSE OKT(SetT(r.ty), r.s)
    [] ty.k = "map"  -> LET rk == AT(s, ty.kt) IN IF ~rk.ok THEN FAIL ELSE
                        LET rv == AT(rk.s, ty.vt) IN IF ~rv.ok THEN FAIL ELSE OKT(MapT(rk.ty, rv.ty), rv.s)
    [] ty.k = "union" -> LET r == ATSeq(s, ty.ts, 1, <<>>) IN IF ~r.ok THEN FAIL ELSE OKT(Uni(r.ts), r.s)
    [] ty.k = "enum" -> OKT(Enum(ty.syms), s)
    [] ty.k = "err"  -> LET r == AT(s, ty.t) IN IF ~r.ok THEN FAIL ELSE OKT(Err(r.ty), r.s)
ATSeq(s, ts, i, acc) ==
  IF i > Len(ts) THEN [ok |-> TRUE, ts |-> acc, s |-> s]
  ELSE LET r == AT(s, ts[i]) IN IF ~r.ok THEN FAIL ELSE ATSeq(r.s, ts, i + 1, Append(acc, r.ty))
ATFields(s, fs, i, acc) ==
  IF i > Len(fs) THEN [ok |-> TRUE, fs |-> acc, s |-> s]
  ELSE LET r == AT(s, fs[i].t) IN IF ~r.ok THEN FAIL ELSE ATFields(r.s, fs, i + 1, Append(acc, Fld(fs[i].n, r.ty)))

\* Analyzer.convertUnion(v, union, cast)
ConvUnion(val, u, cast) ==
  IF val.t = NullT THEN [ok |-> TRUE, v |-> Val(cast, VNull)]
  ELSE IF SeqHas(u.ts, val.t) THEN [ok |-> TRUE, v |-> Val(cast, VUni(val.t, val.v))]
  ELSE FAIL

\* Analyzer.normalizeElems: the element type of an undecorated container and the re-tagged elements
NormalizeElems(vals) ==
  LET types == [i \in 1..Len(vals) |-> vals[i].t]
      unique == SelectSeq(UniqueTypes(types), LAMBDA t : t # NullT)
  IN IF Len(unique) = 1 THEN [ok |-> TRUE, inner |-> unique[1], kids |-> [i \in 1..Len(vals) |-> vals[i].v]]
     ELSE IF Len(unique) = 0 THEN [ok |-> TRUE, inner |-> NullT, kids |-> [i \in 1..Len(vals) |-> vals[i].v]]
     ELSE LET u == Uni(unique)
              cv == [i \in 1..Len(vals) |-> ConvUnion(vals[i], u, u)]
          IN IF \E i \in 1..Len(vals) : ~cv[i].ok THEN FAIL
             ELSE [ok |-> TRUE, inner |-> u, kids |-> [i \in 1..Len(vals) |-> cv[i].v.v]]

\* Analyzer.convertValue / convertAny.  parent / cast = NONE stands for nil.
RECURSIVE AV(_, _, _), AAny(_, _, _), AVSeq(_, _, _, _, _), AVFields(_, _, _, _, _), AVEntries(_, _, _, _, _, _)
AV(s, ast, parent) ==
  CASE ast.k = "implied" -> AAny(s, ast.of, parent)
    [] ast.k = "def" ->
         IF ast.of = NIL THEN FAIL                               \* convertAny(nil): "unknown ast type"
         ELSE LET r == AAny(s, ast.of, parent) IN
              IF ~r.ok THEN FAIL
              \* F-C02 defect path "defundercast": the value already got its (named) type from an enclosing
              \* decorator; enterTypeDef(name, v.TypeOf()) then binds name to a name of a name (N=N=int64)
              ELSE LET named == Named(ast.n, r.v.t)
                       x == IF r.v.t.k = "named" THEN {"defundercast"} ELSE {}
                   IN OKV(Val(named, r.v.v), TaintA(Enter(r.s, ast.n, named), x))
    [] ast.k = "cast" ->
         \* typedefs of the inner chain are entered first so that the cast type can see them
         LET pre == IF ast.of.k = "def" THEN (LET r0 == AV(s, ast.of, NONE) IN IF r0.ok THEN [ok |-> TRUE, s |-> r0.s] ELSE FAIL)
                    ELSE IF ast.of.k = "cast" THEN (LET r0 == AT(s, ast.of.ty) IN IF r0.ok THEN [ok |-> TRUE, s |-> r0.s] ELSE FAIL)
                    ELSE [ok |-> TRUE, s |-> s]
         IN IF ~pre.ok THEN FAIL ELSE
         LET c == AT(pre.s, ast.ty) IN
         IF ~c.ok THEN FAIL
         \* typeCheck(cast, parent)
         ELSE IF ~(parent = NONE \/ c.ty = parent \/ Under(parent).k = "union") THEN FAIL
         ELSE LET cu == Under(c.ty)
                  r1 == IF cu.k = "union"
                        THEN (LET r == AV(c.s, ast.of, NONE) IN
                              IF ~r.ok THEN FAIL
                              ELSE LET u == ConvUnion(r.v, cu, c.ty) IN IF ~u.ok THEN FAIL ELSE OKV(u.v, r.s))
                        ELSE AV(c.s, ast.of, c.ty)
              IN IF ~r1.ok THEN FAIL
                 ELSE IF parent # NONE /\ Under(parent).k = "union"
                      THEN (LET u == ConvUnion(r1.v, Under(parent), parent) IN IF ~u.ok THEN FAIL ELSE OKV(u.v, r1.s))
                      ELSE r1

AAny(s, any, cast) ==
  IF cast # NONE /\ Under(cast).k = "union" THEN
       LET r == AAny(s, any, NONE) IN
       IF ~r.ok THEN FAIL ELSE LET u == ConvUnion(r.v, Under(cast), cast) IN IF ~u.ok THEN FAIL ELSE OKV(u.v, r.s)
  ELSE
  CASE any.k = "prim" ->
         \* convertPrimitive
         IF cast = NONE THEN OKV(IF any.lit = "null" THEN Val(NullT, VNull)
                                 ELSE IF any.lit = "uint64" /\ "uint64" \in Fixed THEN Val(F64, VPrim)   \* repaired: as in JSON
                                 ELSE Val(P(any.lit), VPrim), s)
         ELSE IF ~CastOK(any.lit, cast) THEN FAIL
         ELSE OKV(Val(cast, IF any.lit = "null" THEN VNull ELSE VPrim), s)
    [] any.k = "rec" ->
         IF cast # NONE THEN
              LET cu == Under(cast) IN
              IF cu.k # "rec" \/ Len(cu.fs) # Len(any.fs) THEN FAIL
              ELSE LET r == AVFields(s, any.fs, cu.fs, 1, <<>>) IN
                   IF ~r.ok THEN FAIL ELSE OKV(Val(cast, VRec([i \in 1..Len(r.vals) |-> r.vals[i].v])), r.s)
         ELSE LET r == AVFields(s, any.fs, <<>>, 1, <<>>) IN
              IF ~r.ok THEN FAIL
              ELSE OKV(Val(Rec([i \in 1..Len(r.vals) |-> Fld(any.fs[i].n, r.vals[i].t)]),
                           VRec([i \in 1..Len(r.vals) |-> r.vals[i].v])), r.s)
    [] any.k \in {"arr", "set"} ->
         \* convertArray / convertSet
         LET cu == IF cast = NONE THEN NONE ELSE Under(cast) IN
         IF cast # NONE /\ cu.k # any.k THEN FAIL
         ELSE LET r == AVSeq(s, any.es, IF cast = NONE THEN NONE ELSE cu.e, 1, <<>>) IN
              IF ~r.ok THEN FAIL
              ELSE IF cast # NONE \/ Len(r.vals) = 0 THEN
                   OKV(Val(IF cast # NONE THEN cast ELSE IF any.k = "arr" THEN Arr(NullT) ELSE SetT(NullT),
                           VSeq([i \in 1..Len(r.vals) |-> r.vals[i].v])), r.s)
              ELSE LET n == NormalizeElems(r.vals) IN
                   IF ~n.ok THEN FAIL
                   ELSE OKV(Val(IF any.k = "arr" THEN Arr(n.inner) ELSE SetT(n.inner), VSeq(n.kids)), r.s)
    [] any.k = "map" ->
         LET cu == IF cast = NONE THEN NONE ELSE Under(cast) IN
         IF cast # NONE /\ cu.k # "map" THEN FAIL
         ELSE LET r == AVEntries(s, any.ents, IF cast = NONE THEN NONE ELSE cu.kt, IF cast = NONE THEN NONE ELSE cu.vt, 1, [k |-> <<>>, v |-> <<>>]) IN
              IF ~r.ok THEN FAIL
              ELSE IF cast # NONE THEN
                   OKV(Val(cast, VMap([i \in 1..Len(r.keys) |-> [key |-> r.keys[i].v, val |-> r.vals[i].v]])), r.s)
              ELSE IF Len(r.keys) = 0 THEN OKV(Val(MapT(NullT, NullT), VMap(<<>>)), r.s)
              ELSE LET nk == NormalizeElems(r.keys)  nv == NormalizeElems(r.vals) IN
                   IF ~nk.ok \/ ~nv.ok THEN FAIL
                   ELSE OKV(Val(MapT(nk.inner, nv.inner),
                                VMap([i \in 1..Len(r.keys) |-> [key |-> nk.kids[i], val |-> nv.kids[i]]])), r.s)
    [] any.k = "enum" ->
         \* convertEnum needs an enum decorator; zson.Build's buildEnum then asserts enum.Type.(*zed.TypeEnum),
         \* which fails for a NAMED enum type: F-C02 defect path "namedenum"
         IF cast = NONE \/ Under(cast).k # "enum" \/ ~SeqHas(Under(cast).syms, any.sym) THEN FAIL
         ELSE IF cast.k # "enum" /\ "namedenum" \notin Fixed THEN FAIL
         ELSE OKV(Val(cast, VEnum(any.sym)), s)
    [] any.k = "tv" ->
         IF cast # NONE /\ Under(cast) # TypeT THEN FAIL
         ELSE LET r == AT(s, any.ty) IN
              \* F-C02 defect path "tvbinds": a type value's typedefs enter the reader's table, the writer
              \* does not record them: a name that was bound before now means something else to the reader only
              IF ~r.ok THEN FAIL
              ELSE LET x == IF \E n \in TypeNames : s.tbl[n] # NONE /\ r.s.tbl[n] # s.tbl[n] THEN {"tvbinds"} ELSE {}
                   IN OKV(Val(IF cast = NONE THEN TypeT ELSE cast, VTv(r.ty)), TaintA(r.s, x))
    [] any.k = "err" ->
         LET cu == IF cast = NONE THEN NONE ELSE Under(cast) IN
         IF cast # NONE /\ cu.k # "err" THEN FAIL
         ELSE LET r == AV(s, any.v, IF cast = NONE THEN NONE ELSE cu.t) IN
              IF ~r.ok THEN FAIL
              ELSE OKV(Val(IF cast = NONE THEN Err(r.v.t) ELSE cast, VErr(r.v.v)), r.s)

AVSeq(s, es, cast, i, acc) ==
  IF i > Len(es) THEN [ok |-> TRUE, vals |-> acc, s |-> s]
  ELSE LET r == AV(s, es[i], cast) IN IF ~r.ok THEN FAIL ELSE AVSeq(r.s, es, cast, i + 1, Append(acc, r.v))
AVFields(s, fs, cfs, i, acc) ==
  IF i > Len(fs) THEN [ok |-> TRUE, vals |-> acc, s |-> s]
  ELSE LET r == AV(s, fs[i].v, IF cfs = <<>> THEN NONE ELSE cfs[i].t) IN
       IF ~r.ok THEN FAIL ELSE AVFields(r.s, fs, cfs, i + 1, Append(acc, r.v))
AVEntries(s, ents, kc, vc, i, acc) ==
  IF i > Len(ents) THEN [ok |-> TRUE, keys |-> acc.k, vals |-> acc.v, s |-> s]
  ELSE LET rk == AV(s, ents[i].key, kc) IN IF ~rk.ok THEN FAIL ELSE
       LET rv == AV(rk.s, ents[i].val, vc) IN IF ~rv.ok THEN FAIL ELSE
       AVEntries(rv.s, ents, kc, vc, i + 1, [k |-> Append(acc.k, rk.v), v |-> Append(acc.v, rv.v)])

\* ============================================================ Part 1: cases
N1  == Named("N", I64)
N2  == Named("N", Str)                                   \* the same name bound to another type
NU  == Named("N", U8)
M1  == Named("M", I64)
RI  == Rec(<<Fld("a", I64)>>)                            \* implied
RU  == Rec(<<Fld("a", U8)>>)                             \* not implied
UIS == Uni(<<I64, Str>>)
UUS == Uni(<<U8, Str>>)
EN  == Enum(<<"x", "y">>)

TypesSmall ==
  {I64, U8, Str, NullT, TypeT, RI, RU, Rec(<<Fld("a", I64), Fld("b", Str)>>), Rec(<<>>),
   Arr(I64), Arr(U8), SetT(I64), Arr(UIS), Arr(UUS), MapT(Str, I64), MapT(Str, UIS),
   UIS, UUS, Uni(<<I64, N1>>), EN, Err(Str), Err(U8),
   N1, N2, NU, M1, Named("N", RU), Named("N", Arr(UIS)), Named("N", UIS), Named("N", EN),
   Named("N", Arr(N1)), Named("M", Rec(<<Fld("a", N1)>>)),
   Rec(<<Fld("a", N1), Fld("b", N1)>>), Rec(<<Fld("a", N1), Fld("b", N2)>>), Arr(N1), Rec(<<Fld("a", UIS)>>),
   Rec(<<Fld("a", TypeT), Fld("b", N1)>>), Err(Rec(<<Fld("a", N1)>>)),
   Arr(Uni(<<N1, Str>>)), Named("N", Arr(UUS))}
TypesLarge == TypesSmall \cup
  {F64, Rec(<<Fld("a", U8), Fld("b", I64)>>), Rec(<<Fld("a", RU)>>), Arr(RU), Arr(Arr(U8)), SetT(U8), SetT(UIS),
   MapT(U8, Str), MapT(UUS, I64), MapT(Str, N1), Uni(<<RI, RU>>), Uni(<<Arr(I64), Arr(U8)>>), Uni(<<N1, M1>>),
   Named("N", MapT(Str, UIS)), Named("N", Err(U8)), Named("M", Arr(Named("N", UIS))),
   Named("N", Rec(<<Fld("a", M1)>>)), Rec(<<Fld("a", NU), Fld("b", N1)>>), Rec(<<Fld("a", Named("N", RU)), Fld("b", Named("N", RU))>>),
   Arr(Named("N", UIS)), Err(N1), Err(UIS), Rec(<<Fld("a", EN)>>), Arr(EN), Uni(<<EN, Str>>),
   Rec(<<Fld("a", Arr(UIS)), Fld("b", Arr(UIS))>>)}
Types == IF Level >= 2 THEN TypesLarge ELSE TypesSmall
\* the types a type value may denote
TvTypes == {I64, N1, N2, Rec(<<Fld("a", N1)>>)}

\* All values of a type (bounded: containers hold 0..2 elements drawn from a few element values)
RECURSIVE NonNull(_), Vals(_), ElemVals(_)
Vals(t) == {VNull} \cup NonNull(t)
\* element payloads of a container with element type t: null, the first non-null payloads (for a union: one per member)
ElemVals(t) == LET nn == NonNull(t) IN
  {VNull} \cup (IF Under(t).k = "union" THEN nn ELSE IF nn = {} THEN {} ELSE {CHOOSE x \in nn : TRUE})
NonNull(t) ==
  CASE t.k = "named" -> NonNull(t.t)
    [] t.k = "prim"  -> IF t.p = "null" THEN {} ELSE IF t.p = "type" THEN {VTv(ty) : ty \in TvTypes} ELSE {VPrim}
    [] t.k = "rec"   -> IF Len(t.fs) = 0 THEN {VRec(<<>>)}
                        ELSE IF Len(t.fs) = 1 THEN {VRec(<<x>>) : x \in Vals(t.fs[1].t)}
                        ELSE {VRec(<<x, y>>) : x \in Vals(t.fs[1].t), y \in Vals(t.fs[2].t)}
    [] t.k \in {"arr", "set"} ->
         LET E == ElemVals(t.e) IN
         {VSeq(<<>>)} \cup {VSeq(<<x>>) : x \in E} \cup {VSeq(<<x, y>>) : x \in E \ {VNull}, y \in E}
    [] t.k = "map"   ->
         LET K == ElemVals(t.kt) \ {VNull}  V == ElemVals(t.vt) IN
         {VMap(<<>>)} \cup {VMap(<<[key |-> k1, val |-> v1]>>) : k1 \in K, v1 \in V}
                      \cup {VMap(<<[key |-> k1, val |-> v1], [key |-> k2, val |-> v2]>>) : k1 \in K, v1 \in V \ {VNull}, k2 \in K, v2 \in V}
    [] t.k = "union" -> UNION {{VUni(t.ts[i], x) : x \in NonNull(t.ts[i])} : i \in 1..Len(t.ts)}
    [] t.k = "enum"  -> {VEnum(t.syms[i]) : i \in 1..Len(t.syms)}
    \* an error value's bytes are its inner value's bytes: error(null) IS the null error value
    [] t.k = "err"   -> {VErr(x) : x \in NonNull(t.t)}

AllValues == UNION {{Val(t, v) : v \in Vals(t)} : t \in Types}

RECURSIVE MentionsName(_)
MentionsName(t) ==
  CASE t.k = "named" -> TRUE
    [] t.k = "prim"  -> t.p = "type"
    [] t.k = "rec"   -> \E i \in 1..Len(t.fs) : MentionsName(t.fs[i].t)
    [] t.k \in {"arr", "set"} -> MentionsName(t.e)
    [] t.k = "map"   -> MentionsName(t.kt) \/ MentionsName(t.vt)
    [] t.k = "union" -> \E i \in 1..Len(t.ts) : MentionsName(t.ts[i])
    [] t.k = "enum"  -> FALSE
    [] t.k = "err"   -> MentionsName(t.t)
\* values through which two values of a stream can interact: those whose type (or type value) carries a type name;
\* one representative payload per shape is enough for the second position
NameValues == {x \in AllValues : MentionsName(x.t)}

\* configurations: typedef scope of the writer, persist names, reader
Cfg(scope, persist, reader) == [scope |-> scope, persist |-> persist, reader |-> reader]
PairCfgs == {Cfg("value", PNone, "stream"), Cfg("value", PNone, "pervalue"), Cfg("stream", PNone, "stream"), Cfg("value", POn({"N"}), "stream")}
\* Format the sequence with one formatter, parse each text, analyze with the configured reader.
\* res[i]: "ok" | "error" (the text is rejected) | "differs" (another type or value) | "skipped" (after an error)
RECURSIVE RunFrom(_, _, _, _, _, _, _)
RunFrom(seq, cfg, i, fst, ast, nodes, res) ==
  IF i > Len(seq) THEN [nodes |-> nodes, res |-> res, taint |-> fst.x \cup ast.x, fst |-> fst, ast |-> ast]
  ELSE LET f == FormatTop(fst, cfg.persist, cfg.scope, seq[i])
           a0 == IF cfg.reader = "pervalue" THEN AState(EmptyTab, ast.ctx, ast.x) ELSE ast    \* zson.ParseValue: a new Analyzer, the same context
           r == AV(a0, ToAST(f.node), NONE)
       IN IF ~r.ok
          THEN [nodes |-> nodes \o <<f.node>>, res |-> res \o <<"error">> \o [j \in 1..(Len(seq) - i) |-> "skipped"],
                taint |-> f.s.x \cup ast.x, fst |-> f.s, ast |-> ast]
          ELSE RunFrom(seq, cfg, i + 1, f.s, r.s, Append(nodes, f.node), Append(res, IF r.v = seq[i] THEN "ok" ELSE "differs"))
RunRaw(c) == RunFrom(c.seq, c.cfg, 1, FState(EmptyTab, EmptyTab, {}), AState(EmptyTab, EmptyTab, {}), <<>>, <<>>)
Run(c) == LET r == RunRaw(c)
          IN [seq |-> c.seq, cfg |-> [scope |-> c.cfg.scope, persist_on |-> c.cfg.persist.on, persist |-> SetToSeq(c.cfg.persist.names), reader |-> c.cfg.reader],
              nodes |-> r.nodes, asts |-> [i \in 1..Len(r.nodes) |-> ToAST(r.nodes[i])], res |-> r.res, taint |-> SetToSeq(r.taint)]

\* Two first values that leave the writer and the reader in the same states are interchangeable for what
\* follows: one representative per effect (and configuration) is paired with every second value.
Effect(x, c) == LET r == RunFrom(<<x>>, c, 1, FState(EmptyTab, EmptyTab, {}), AState(EmptyTab, EmptyTab, {}), <<>>, <<>>)
                IN <<r.fst.td, r.fst.pm, r.ast.tbl, r.ast.ctx, r.res>>
Firsts(c) == LET effs == {Effect(x, c) : x \in NameValues} IN {CHOOSE x \in NameValues : Effect(x, c) = e : e \in effs}
CaseSet == {[seq |-> <<x>>, cfg |-> Cfg("value", PNone, "stream")] : x \in AllValues}
           \cup UNION {{[seq |-> <<x, y>>, cfg |-> c] : x \in Firsts(c), y \in NameValues} : c \in PairCfgs}

Results == LET cs  == SetToSeq(CaseSet)
               idx == SetToSeq({j \in 1..Len(cs) : j % NShards = Shard})
           IN TLCEval([i \in 1..Len(idx) |-> Run(cs[idx[i]])])

AllOK(r) == \A i \in 1..Len(r.res) : r.res[i] = "ok"
\* The round trip is the identity wherever no named defect path was taken.
CaseHolds(r) == r.taint = <<>> => AllOK(r)
CheckRoundTrip(Rs) ==
  /\ PrintT(<<"roundtrip cases", Len(Rs), "failing", Cardinality({i \in 1..Len(Rs) : ~AllOK(Rs[i])}),
              "tainted", Cardinality({i \in 1..Len(Rs) : Rs[i].taint # <<>>}),
              "tainted but fine", Cardinality({i \in 1..Len(Rs) : Rs[i].taint # <<>> /\ AllOK(Rs[i])})>>)
  /\ (\A i \in 1..Len(Rs) : CaseHolds(Rs[i])) \/ (PrintT("CaseHolds fails") /\ FALSE)
  /\ \E i \in 1..Len(Rs) : Rs[i].taint = <<>> /\ Len(Rs[i].seq) = 2          \* non-vacuity
  /\ OutFile = "" \/ ndJsonSerialize(OutFile, Rs)
ASSUME CheckRoundTrip(Results)

\* ============================================================ Part 2: JSON is a subset
\* JSON documents: numbers by the class of their text
\*   "int"  fits int64            "uint" an integer in (MaxInt64, MaxUint64]
\*   "big"  an integer > MaxUint64 "frac" has a fraction or an exponent
JNum(c)   == [k |-> "num", c |-> c]
JStr      == [k |-> "str"]
JBool     == [k |-> "bool"]
JNull     == [k |-> "null"]
JArr(es)  == [k |-> "arr", es |-> es]
JObj(fs)  == [k |-> "obj", fs |-> fs]                    \* <<[n |-> name, v |-> document]>>, names may repeat

\* zio/jsonio: Reader.handleToken and builder.endArray / endRecord
RECURSIVE JsonVal(_), LastWins(_)
\* removeDuplicateItems: of several members with one name the LAST value stays, at the FIRST position
LastWins(fs) ==
  IF fs = <<>> THEN <<>>
  ELSE LET n == fs[1].n
           same == SelectSeq(fs, LAMBDA f : f.n = n)
           rest == SelectSeq(Tail(fs), LAMBDA f : f.n # n)
       IN <<same[Len(same)]>> \o LastWins(rest)
JsonVal(j) ==
  CASE j.k = "num"  -> IF j.c = "int" THEN Val(I64, VPrim) ELSE Val(F64, VPrim)       \* ParseInt64, else ParseFloat64
    [] j.k = "str"  -> Val(Str, VPrim)
    [] j.k = "bool" -> Val(P("bool"), VPrim)
    [] j.k = "null" -> Val(NullT, VNull)
    [] j.k = "arr"  ->
         LET kids == [i \in 1..Len(j.es) |-> JsonVal(j.es[i])]
             types == UniqueTypes(SelectSeq([i \in 1..Len(kids) |-> kids[i].t], LAMBDA t : t # NullT))
         IN IF Len(types) = 0 THEN Val(Arr(NullT), VSeq([i \in 1..Len(kids) |-> VNull]))
            ELSE IF Len(types) = 1 THEN Val(Arr(types[1]), VSeq([i \in 1..Len(kids) |-> kids[i].v]))
            ELSE Val(Arr(Uni(types)), VSeq([i \in 1..Len(kids) |-> IF kids[i].v = VNull THEN VNull ELSE VUni(kids[i].t, kids[i].v)]))
    [] j.k = "obj"  ->
         LET fs == LastWins(j.fs)
             kids == [i \in 1..Len(fs) |-> JsonVal(fs[i].v)]
         IN Val(Rec([i \in 1..Len(fs) |-> Fld(fs[i].n, kids[i].t)]), VRec([i \in 1..Len(fs) |-> kids[i].v]))

\* The same text read as ZSON: matchPrimitive's literal classes (ParseInt, then ParseUint, then ParseFloat),
\* matchFields drops every member whose name was seen before (the FIRST value stays), no decorators.
RECURSIVE JNode(_), FirstWins(_)
FirstWins(fs) ==
  IF fs = <<>> THEN <<>>
  ELSE <<fs[1]>> \o FirstWins(SelectSeq(Tail(fs), LAMBDA f : f.n # fs[1].n))
JNode(j) ==
  CASE j.k = "num"  -> Node(APrim(CASE j.c = "int" -> "int64" [] j.c = "uint" -> "uint64" [] OTHER -> "float64"), <<>>)
    [] j.k = "str"  -> Node(APrim("string"), <<>>)
    [] j.k = "bool" -> Node(APrim("bool"), <<>>)
    [] j.k = "null" -> Node(APrim("null"), <<>>)
    [] j.k = "arr"  -> Node(ASeq("arr", [i \in 1..Len(j.es) |-> JNode(j.es[i])]), <<>>)
    [] j.k = "obj"  -> LET fs == IF "dupkey" \in Fixed THEN LastWins(j.fs) ELSE FirstWins(j.fs) IN
                       Node(ARec([i \in 1..Len(fs) |-> [n |-> fs[i].n, v |-> JNode(fs[i].v)]]), <<>>)
ZsonOfJson(j) == AV(AState(EmptyTab, EmptyTab, {}), ToAST(JNode(j)), NONE)

\* Defect paths: "uint64" an integer beyond int64 is a uint64 for ZSON and a float64 for JSON;
\* "dupkey" of members with the same name ZSON keeps the first, JSON the last
RECURSIVE JTaint(_)
JTaint(j) ==
  CASE j.k = "num" -> IF j.c = "uint" /\ "uint64" \notin Fixed THEN {"uint64"} ELSE {}
    [] j.k = "arr" -> UNION {JTaint(j.es[i]) : i \in 1..Len(j.es)}
    [] j.k = "obj" -> (IF "dupkey" \notin Fixed /\ \E a, b \in 1..Len(j.fs) : a # b /\ j.fs[a].n = j.fs[b].n THEN {"dupkey"} ELSE {})
                      \cup UNION {JTaint(j.fs[i].v) : i \in 1..Len(j.fs)}
    [] OTHER -> {}

JLeaves == {JNum("int"), JNum("uint"), JNum("big"), JNum("frac"), JStr, JBool, JNull}
Fields2(S, n1, n2) == {<<[n |-> n1, v |-> x], [n |-> n2, v |-> y]>> : x \in S, y \in S}
JD1 == JLeaves \cup {JArr(<<>>), JObj(<<>>)}
       \cup {JArr(<<x>>) : x \in JLeaves} \cup {JArr(<<x, y>>) : x \in JLeaves, y \in JLeaves}
       \cup {JObj(<<[n |-> "a", v |-> x]>>) : x \in JLeaves}
       \cup {JObj(f) : f \in Fields2(JLeaves, "a", "b") \cup Fields2(JLeaves, "a", "a")}
JE2 == {JNum("int"), JStr, JNull, JArr(<<>>), JObj(<<>>), JArr(<<JNum("int")>>), JArr(<<JStr>>), JArr(<<JNum("int"), JStr>>),
        JObj(<<[n |-> "a", v |-> JNum("int")]>>), JObj(<<[n |-> "a", v |-> JStr]>>), JObj(<<[n |-> "b", v |-> JNum("int")]>>)}
JD2 == JD1 \cup {JArr(<<x>>) : x \in JE2} \cup {JArr(<<x, y>>) : x \in JE2, y \in JE2}
           \cup {JObj(<<[n |-> "a", v |-> x]>>) : x \in JE2}
           \cup {JObj(f) : f \in Fields2(JE2, "a", "b") \cup Fields2(JE2, "b", "a") \cup Fields2(JE2, "a", "a")}
JDocs == IF Level >= 2 THEN JD2 \cup {JArr(<<x, y, z>>) : x \in JE2, y \in JE2, z \in JE2} ELSE JD2

JCase(j) == LET z == ZsonOfJson(j)  jv == JsonVal(j) IN
            [doc |-> j, json |-> jv, zson_ok |-> z.ok, zson |-> IF z.ok THEN z.v ELSE jv,
             \* primitives are opaque here: two members with one name hold different values in the rendered text,
             \* so keeping the first or the last one is a different result even when the types agree
             same |-> z.ok /\ z.v = jv /\ "dupkey" \notin JTaint(j), taint |-> SetToSeq(JTaint(j))]
JResults == IF Shard # 0 THEN <<>> ELSE TLCEval(LET ds == SetToSeq(JDocs) IN [i \in 1..Len(ds) |-> JCase(ds[i])])
CheckJson(Js) ==
  /\ Shard # 0 \/ PrintT(<<"json cases", Len(Js), "differing", Cardinality({i \in 1..Len(Js) : ~Js[i].same})>>)
  \* every JSON text is accepted as ZSON and denotes the same value, off the defect paths; each defect path is real
  /\ \A i \in 1..Len(Js) : Js[i].taint = <<>> => Js[i].same
  /\ \A i \in 1..Len(Js) : Js[i].zson_ok
  /\ Shard # 0 \/ (\E i \in 1..Len(Js) : Js[i].taint = <<>> /\ Js[i].json.t.k = "arr" /\ Js[i].json.t.e.k = "union")
  /\ Shard # 0 \/ JsonFile = "" \/ ndJsonSerialize(JsonFile, Js)
ASSUME CheckJson(JResults)

VARIABLE done
Init == done = FALSE
Next == done = FALSE /\ done' = TRUE
Spec == Init /\ [][Next]_done
=============================================================================
