-------------------------- MODULE ZngScannerTrace --------------------------
(***************************************************************************)
(* Trace validation for C01: hook traces of the real threaded zngio        *)
(* scanner (zngio.dispatch / zngio.worker.done / zngio.deliver, build tag  *)
(* verif) are checked against the actions of ZngScanner.tla.               *)
(*                                                                         *)
(* events: begin(threads, nframes, eos) | dispatch(f, w, ep) | done(f, w)  *)
(*         | deliver(f) (f = 0: the end-of-input result) | end             *)
(* f is the ordinal of the values frame (order of dispatch), w the worker  *)
(* (numbered by first appearance), ep the ordinal of the local type        *)
(* context handed to the worker (numbered by first appearance).            *)
(*                                                                         *)
(* The hooks run after the dispatch and after the receive, so a recorded   *)
(* trace may show one more undelivered frame than resultChCh can hold:     *)
(* qcap is threads + 2 here (threads + 1 in the design check).  The        *)
(* parser's end-of-input step has no hook and is a silent step.            *)
(*                                                                         *)
(* A trace that no behaviour of the specification explains is reported     *)
(* with a REFUSED line and skipped; at "end" a VERDICT line is printed.    *)
(***************************************************************************)
EXTENDS ZngScanner

VARIABLES l, tr

Trace == ndJsonDeserialize("trace.ndjson")
tvars == <<vars, l, tr>>
Ev == Trace[l]
IsEvent(e) == l <= Len(Trace) /\ Ev.e = e

TInit == /\ l = 1 /\ tr = 0
         /\ Start([nframes |-> 0, threads |-> 1, qcap |-> 3, eos |-> {}, err |-> 0])
         /\ TLCSet(1, 0)

Step == l' = l + 1 /\ TLCSet(1, IF TLCGet(1) < l THEN l ELSE TLCGet(1))

BeginB ==
  /\ IsEvent("begin")
  /\ LET p == [nframes |-> Ev.nframes, threads |-> Ev.threads, qcap |-> Ev.threads + 2,
               eos |-> {Ev.eos[i] : i \in 1..Len(Ev.eos)}, err |-> 0]
     IN  /\ par' = p
         /\ next' = 1 /\ pepoch' = 1 /\ parserExit' = FALSE
         /\ busy' = [w \in 1..p.threads |-> 0]
         /\ handed' = [f \in 1..p.nframes |-> 0]
         /\ queue' = <<>>
         /\ res' = [f \in 1..p.nframes |-> "none"]
         /\ cwait' = -1 /\ cstate' = "run" /\ cancelled' = FALSE
         /\ delivered' = <<>> /\ doneOrder' = <<>>
  /\ tr' = Ev.t

DispatchB ==
  /\ IsEvent("dispatch")
  /\ Ev.w \in Workers /\ Ev.f = next
  /\ Ev.ep = Epoch(Ev.f)          \* the context handed over is the one of the frame's stream
  /\ Dispatch(Ev.w) /\ tr' = tr

DoneB ==
  /\ IsEvent("done")
  /\ Ev.w \in Workers /\ busy[Ev.w] = Ev.f
  /\ WorkerDone(Ev.w) /\ tr' = tr

\* The deliver hook runs after both `ch := <-s.resultChCh` and `<-ch`.
DeliverB ==
  /\ IsEvent("deliver")
  /\ cstate = "run" /\ cwait = -1 /\ queue # <<>> /\ Head(queue) = Ev.f
  /\ queue' = Tail(queue)
  /\ IF Ev.f = 0
     THEN /\ cstate' = "done" /\ cancelled' = TRUE /\ UNCHANGED <<res, delivered>>
     ELSE /\ res[Ev.f] = "full"
          /\ res' = [res EXCEPT ![Ev.f] = "taken"]
          /\ delivered' = Append(delivered, Ev.f)
          /\ UNCHANGED <<cstate, cancelled>>
  /\ UNCHANGED <<par, next, pepoch, parserExit, busy, handed, cwait, doneOrder>>
  /\ tr' = tr

EndB == IsEvent("end") /\ cstate = "done" /\ UNCHANGED vars /\ tr' = tr

\* Unlogged step of the parser goroutine.
Silent == l <= Len(Trace) /\ ParserEOF /\ UNCHANGED <<l, tr>>

Normal == BeginB \/ DispatchB \/ DoneB \/ DeliverB \/ EndB \/ Silent

Verdict == PrintT(<<"VERDICT", tr, InOrder /\ Complete /\ HandedOK, Len(delivered)>>)

NextBegin(i) ==
  LET later == {j \in (i + 1)..Len(Trace) : Trace[j].e = "begin"}
  IN  IF later = {} THEN Len(Trace) + 1 ELSE CHOOSE j \in later : \A m \in later : j <= m

Refuse ==
  /\ l <= Len(Trace)
  /\ ~ENABLED Normal
  /\ PrintT(<<"REFUSED", tr, l>>)
  /\ l' = NextBegin(l) /\ TLCSet(1, l' - 1)
  /\ tr' = tr /\ UNCHANGED vars

TNext ==
  \/ (BeginB \/ DispatchB \/ DoneB \/ DeliverB) /\ Step
  \/ EndB /\ Verdict /\ Step
  \/ Silent
  \/ Refuse

TSpec == TInit /\ [][TNext]_tvars

HighWater == PrintT(<<"HIGHWATER", TLCGet(1), Len(Trace)>>)
Post == HighWater /\ TLCGet(1) = Len(Trace)
=============================================================================
