---------------------------- MODULE TypeContext ----------------------------
(***************************************************************************)
(* C05 -- types are canonical within a context and portable across         *)
(* contexts.                                                               *)
(*                                                                         *)
(* Implementation-shaped model of zed.Context (context.go) together with   *)
(* the type order zed.CompareTypes and the type-value serializer           *)
(* zed.AppendTypeValue (type.go).  One TLA+ step of a process = one mutex  *)
(* section of the real code:                                               *)
(*                                                                         *)
(*   LookupTypeRecord/Array/Set/Map/Union/Enum/Named/Error  -> LookupNode  *)
(*   LookupTypeDef                                          -> "tdef"/"ref"*)
(*   LookupTypeValue                                        -> "tval"      *)
(*   LookupByValue      = "check" section, then the NON-atomic             *)
(*                        DecodeTypeValue, then the "enter" section        *)
(*   TranslateType(ext) = LookupByValue(EncodeTypeValue(ext))              *)
(*   DecodeTypeValue    = a per-process program (postfix walk of the       *)
(*                        serialized term) whose every instruction is one  *)
(*                        Lookup* call; a NameDef rebinds the context-     *)
(*                        global typedefs (LookupTypeNamed) AND the        *)
(*                        decoder's own map; a NameRef reads only the      *)
(*                        decoder's own map (scoped to the type value).    *)
(*   ReuseBuffer(b)     = environment: the caller overwrites a byte slice  *)
(*                        it passed to LookupByValue earlier.              *)
(*                                                                         *)
(* The context state is the four fields of zed.Context: byID, toType,      *)
(* toValue (bytes + an owner tag: 0 = owned by the context; since commit   *)
(* a51bcc8de LookupByValue clones the caller's bytes and keeps the value   *)
(* the context already owns, so no other tag occurs), typedefs.            *)
(*                                                                         *)
(* Serialized type values are sequences of string tokens which the Go      *)
(* harness maps 1:1 to the real bytes ("rec" -> 30, counts -> uvarint,     *)
(* names -> length-prefixed, "p1" -> int64, "p2" -> string, "def" -> 37,   *)
(* "ref" -> 38 ...).                                                       *)
(*                                                                         *)
(* The defects this spec once carried behind a taint variable are repaired  *)
(* in the repository (LookupByValue a51bcc8de, decoder-local typedefs       *)
(* e3c8e5c33, CompareTypes a432f329d); the transcription follows the        *)
(* repaired code and every invariant is unconditional.                      *)
(***************************************************************************)
EXTENDS Integers, Sequences, SequencesExt, FiniteSets, FiniteSetsExt, TLC, Json

CONSTANTS
  Procs,      \* set of process ids, e.g. {1} or {1,2}
  MaxCalls,   \* total number of API calls in a behaviour
  Family,     \* which set of target types the calls range over (string)
  Methods,    \* subset of {"fields","value","translate","decode","raw","tval","tdef","reset"}
  Gran,       \* "lock": preemption between any two mutex sections (design check)
              \* "hook": preemption only where the real code has the verif hook
              \*         (after a NameDef inside DecodeTypeValue) and between calls
  Reuse,      \* TRUE: the ReuseBuffer environment action is enabled
  PrintMode   \* "edge": print the history at every transition (transition tour)
              \* "final": print only complete behaviours; "none"

NP == 2                          \* two primitive types: id 1 = p1 (int64), id 2 = p2 (string)
TypeNames == {"m", "n"}
NoT == [k |-> "none", s |-> <<>>, c |-> <<>>]
\* TLC evaluates [j \in 1..n |-> e] lazily on every application; concatenation
\* forces it into an explicit tuple once.
Eager(f) == f \o <<>>

\* ------------------------------------------------------------------ terms
\* An (ordered) type term: k kind, s strings (field names / enum symbols /
\* <<type name>> / <<primitive token>>), c children (union: in listed order).
P(i)        == [k |-> "prim", s |-> <<IF i = 1 THEN "p1" ELSE "p2">>, c |-> <<>>]
Rec(ns, ts) == [k |-> "rec", s |-> ns, c |-> ts]
Arr(t)      == [k |-> "arr", s |-> <<>>, c |-> <<t>>]
SetOf(t)    == [k |-> "set", s |-> <<>>, c |-> <<t>>]
Err(t)      == [k |-> "err", s |-> <<>>, c |-> <<t>>]
MapOf(a, b) == [k |-> "map", s |-> <<>>, c |-> <<a, b>>]
Un(ts)      == [k |-> "union", s |-> <<>>, c |-> ts]
En(syms)    == [k |-> "enum", s |-> syms, c |-> <<>>]
Nm(n, t)    == [k |-> "named", s |-> <<n>>, c |-> <<t>>]

\* Byte order of the strings used (strings.Compare / primitive id order).
Rank(x) == CASE x = "a" -> 1 [] x = "b" -> 2 [] x = "m" -> 3 [] x = "n" -> 4
             [] x = "s" -> 5 [] x = "t" -> 6 [] x = "p1" -> 1 [] x = "p2" -> 2
Sgn(x) == IF x < 0 THEN -1 ELSE IF x > 0 THEN 1 ELSE 0

\* ------------------------------------------------- zed.CompareTypes (type.go)
RECURSIVE UnderT(_)
UnderT(t) == IF t.k = "named" THEN UnderT(t.c[1]) ELSE t       \* zed.TypeUnder
KindRank(t) == LET u == UnderT(t) IN                             \* zed.Kind
  CASE u.k = "prim" -> 0 [] u.k = "rec" -> 1 [] u.k = "arr" -> 2 [] u.k = "set" -> 3
    [] u.k = "map" -> 4 [] u.k = "union" -> 5 [] u.k = "enum" -> 6 [] u.k = "err" -> 7

RECURSIVE CmpNames(_, _, _)
CmpNames(a, b, i) == IF i > Len(a) THEN 0
                     ELSE IF a[i] # b[i] THEN Sgn(Rank(a[i]) - Rank(b[i]))
                     ELSE CmpNames(a, b, i + 1)

\* a.ID() == b.ID() holds exactly when both have the same underlying type
\* object; inside a canonical context that is equality of the ordered terms.
\* Named types sharing an underlying type are ordered by name, then by the
\* type the name is bound to.
RECURSIVE CmpT(_, _), CmpSeqT(_, _, _)
CmpT(a, b) ==
  IF UnderT(a) = UnderT(b) THEN
       IF a.k = "named" THEN (IF b.k = "named"
                               THEN (IF a.s[1] # b.s[1] THEN Sgn(Rank(a.s[1]) - Rank(b.s[1])) ELSE CmpT(a.c[1], b.c[1]))
                               ELSE 1)
       ELSE IF b.k = "named" THEN -1 ELSE 0
  ELSE IF KindRank(a) # KindRank(b) THEN Sgn(KindRank(a) - KindRank(b))
  ELSE LET ua == UnderT(a)  ub == UnderT(b) IN
    CASE ua.k = "prim"  -> Sgn(Rank(ua.s[1]) - Rank(ub.s[1]))
      [] ua.k = "rec"   -> IF Len(ua.s) # Len(ub.s) THEN Sgn(Len(ua.s) - Len(ub.s))
                           ELSE LET n == CmpNames(ua.s, ub.s, 1) IN
                                IF n # 0 THEN n ELSE CmpSeqT(ua.c, ub.c, 1)
      [] ua.k \in {"arr", "set", "err"} -> CmpT(ua.c[1], ub.c[1])
      [] ua.k = "map"   -> CmpSeqT(ua.c, ub.c, 1)
      [] ua.k = "union" -> IF Len(ua.c) # Len(ub.c) THEN Sgn(Len(ua.c) - Len(ub.c))
                           ELSE CmpSeqT(ua.c, ub.c, 1)
      [] ua.k = "enum"  -> IF Len(ua.s) # Len(ub.s) THEN Sgn(Len(ua.s) - Len(ub.s))
                           ELSE CmpNames(ua.s, ub.s, 1)
CmpSeqT(a, b, i) == IF i > Len(a) THEN 0
                    ELSE LET x == CmpT(a[i], b[i]) IN IF x # 0 THEN x ELSE CmpSeqT(a, b, i + 1)

\* sort.SliceStable for short slices = insertion sort: an element moves left
\* while it is strictly less than its predecessor.
\* Elements are [id, t]: sorted by the term t, the id is carried along.
RECURSIVE InsPos(_, _, _)
InsPos(sorted, x, j) == IF j > 0 /\ CmpT(x.t, sorted[j].t) < 0 THEN InsPos(sorted, x, j - 1) ELSE j
RECURSIVE SortFrom(_, _, _)
SortFrom(acc, seq, i) ==
  IF i > Len(seq) THEN acc
  ELSE LET j == InsPos(acc, seq[i], Len(acc)) IN
       SortFrom(SubSeq(acc, 1, j) \o <<seq[i]>> \o SubSeq(acc, j + 1, Len(acc)), seq, i + 1)
SortT(seq) == LET r == SortFrom(<<>>, Eager([j \in 1..Len(seq) |-> [id |-> 0, t |-> seq[j]]]), 1) IN
              Eager([j \in 1..Len(r) |-> r[j].t])

\* The term as a context that built it bottom-up stores it (unions sorted).
RECURSIVE SortDeep(_)
SortDeep(t) == LET kids == Eager([j \in 1..Len(t.c) |-> SortDeep(t.c[j])]) IN
               [t EXCEPT !.c = IF t.k = "union" THEN SortT(kids) ELSE kids]

\* Structure proper: union members form a set.
RECURSIVE Norm(_)
Norm(t) == [k |-> t.k, s |-> t.s,
            c |-> IF t.k = "union" THEN <<>> ELSE Eager([j \in 1..Len(t.c) |-> Norm(t.c[j])]),
            m |-> IF t.k = "union" THEN {Norm(t.c[j]) : j \in 1..Len(t.c)} ELSE {}]

\* ------------------------------------ zed.appendTypeValue (type.go) + decoder
\* Ser(t, d) walks t depth first with the typedefs map d (name -> inner term
\* last bound) and yields the tokens (out), the decoder's program for those
\* tokens (prog: the Lookup* calls DecodeTypeValue performs, in order) and the
\* updated map.  An instruction is [op, s, n]: n operands are popped.
Ins(op, s, n) == [op |-> op, s |-> s, n |-> n]
NoDefs == [x \in TypeNames |-> NoT]

RECURSIVE Ser(_, _), SerKids(_, _, _, _)
Ser(t, d) ==
  CASE t.k = "prim" -> [out |-> t.s, prog |-> <<Ins("push", t.s, 0)>>, d |-> d]
    [] t.k = "named" ->
         IF d[t.s[1]] = t.c[1]                                  \* previous == t.Type
         THEN [out |-> <<"ref", t.s[1]>>, prog |-> <<Ins("ref", t.s, 0)>>, d |-> d]
         ELSE LET r == Ser(t.c[1], d) IN                        \* bind after the child
              [out |-> <<"def", t.s[1]>> \o r.out, prog |-> r.prog \o <<Ins("named", t.s, 1)>>,
               d |-> [r.d EXCEPT ![t.s[1]] = t.c[1]]]
    [] t.k = "rec" -> LET r == SerKids(t.c, t.s, d, 1) IN
         [out |-> <<"rec", ToString(Len(t.c))>> \o r.out,
          prog |-> r.prog \o <<Ins("rec", t.s, Len(t.c))>>, d |-> r.d]
    [] t.k = "union" -> LET r == SerKids(t.c, <<>>, d, 1) IN
         [out |-> <<"union", ToString(Len(t.c))>> \o r.out,
          prog |-> r.prog \o <<Ins("union", <<>>, Len(t.c))>>, d |-> r.d]
    [] t.k \in {"arr", "set", "err", "map"} -> LET r == SerKids(t.c, <<>>, d, 1) IN
         [out |-> <<t.k>> \o r.out, prog |-> r.prog \o <<Ins(t.k, <<>>, Len(t.c))>>, d |-> r.d]
    [] t.k = "enum" ->
         [out |-> <<"enum", ToString(Len(t.s))>> \o t.s, prog |-> <<Ins("enum", t.s, 0)>>, d |-> d]
SerKids(kids, names, d, i) ==
  IF i > Len(kids) THEN [out |-> <<>>, prog |-> <<>>, d |-> d]
  ELSE LET r == Ser(kids[i], d)
           rest == SerKids(kids, names, r.d, i + 1) IN
       [out |-> (IF names # <<>> THEN <<names[i]>> ELSE <<>>) \o r.out \o rest.out,
        prog |-> r.prog \o rest.prog, d |-> rest.d]

TV(t) == Ser(t, NoDefs).out                                     \* zed.EncodeTypeValue

\* ----------------------------------------------------------- context state
VARIABLES
  cx,       \* [byID, toType, toValue, typedefs]  -- the fields of zed.Context
  prog,     \* per process: remaining instructions of its current call
  stk,      \* per process: operand stack of type ids (Go: locals of the decoder recursion)
  cur,      \* per process: the call in progress (or NoCall)
  ldefs,    \* per process: the decoder's own typedefs map (name -> id bound by this type value)
  racy,     \* ghost, per process: a reference of the current call was resolved while the context-global
            \* binding of the name differed (another call had rebound it): non-vacuity of the schedules
  ncalls,   \* calls started so far (also numbers the caller buffers)
  live,     \* caller buffers that were passed to LookupByValue and not yet overwritten
  aliases,  \* ghost: keys of toType that are other encodings of their type (entered by LookupByValue)
  turn,     \* 0, or the process that must move next (Gran = "hook")
  h         \* history (hidden by VIEW): the events so far

vars == <<cx, prog, stk, cur, ldefs, racy, ncalls, live, aliases, turn, h>>
View == <<cx, prog, stk, cur, ldefs, racy, ncalls, live, aliases, turn>>

NoCall == [m |-> "none", ot |-> NoT, nm |-> "", b |-> 0]
EmptyCx == [byID |-> <<>>, toType |-> <<>>, toValue |-> <<>>, typedefs |-> [x \in TypeNames |-> 0]]

Ids(c) == (NP + 1)..(NP + Len(c.byID))

\* The ordered term of a type id (following the pointers of the real types).
RECURSIVE OS(_, _)
OS(nodes, id) == IF id <= NP THEN P(id)
                 ELSE LET nd == nodes[id - NP] IN
                      [k |-> nd.k, s |-> nd.s, c |-> Eager([j \in 1..Len(nd.c) |-> OS(nodes, nd.c[j])])]

\* zed.appendTypeValue applied to a type of the context: the same walk as Ser
\* but over the stored types, following pointers; `previous == t.Type` is
\* pointer equality, i.e. equality of ids.  d: name -> id of the inner type
\* last bound (0 = none).
NoIdDefs == [x \in TypeNames |-> 0]
RECURSIVE SerId(_, _, _), SerIdKids(_, _, _, _, _)
SerId(nodes, id, d) ==
  IF id <= NP THEN [out |-> P(id).s, d |-> d]
  ELSE LET nd == nodes[id - NP] IN
    CASE nd.k = "named" ->
           IF d[nd.s[1]] = nd.c[1] THEN [out |-> <<"ref", nd.s[1]>>, d |-> d]
           ELSE LET r == SerId(nodes, nd.c[1], d) IN
                [out |-> <<"def", nd.s[1]>> \o r.out, d |-> [r.d EXCEPT ![nd.s[1]] = nd.c[1]]]
      [] nd.k = "rec" -> LET r == SerIdKids(nodes, nd.c, nd.s, d, 1) IN
           [out |-> <<"rec", ToString(Len(nd.c))>> \o r.out, d |-> r.d]
      [] nd.k = "union" -> LET r == SerIdKids(nodes, nd.c, <<>>, d, 1) IN
           [out |-> <<"union", ToString(Len(nd.c))>> \o r.out, d |-> r.d]
      [] nd.k \in {"arr", "set", "err", "map"} -> LET r == SerIdKids(nodes, nd.c, <<>>, d, 1) IN
           [out |-> <<nd.k>> \o r.out, d |-> r.d]
      [] nd.k = "enum" -> [out |-> <<"enum", ToString(Len(nd.s))>> \o nd.s, d |-> d]
SerIdKids(nodes, kids, names, d, i) ==
  IF i > Len(kids) THEN [out |-> <<>>, d |-> d]
  ELSE LET r == SerId(nodes, kids[i], d)
           rest == SerIdKids(nodes, kids, names, r.d, i + 1) IN
       [out |-> (IF names # <<>> THEN <<names[i]>> ELSE <<>>) \o r.out \o rest.out, d |-> rest.d]
TVid(nodes, id) == SerId(nodes, id, NoIdDefs).out

HasDup(s) == \E i, j \in 1..Len(s) : i < j /\ s[i] = s[j]        \* duplicateField

\* The critical section shared by all LookupTypeX methods: key = canonical
\* serialization of the would-be type; hit -> existing type; miss -> next id,
\* enterWithLock.  LookupTypeNamed also (re)binds the name in both cases.
\* LookupTypeRecord checks for duplicate fields only on a miss.
LookupNode(c, nd) ==
  LET key == TVid(Append(c.byID, nd), NP + Len(c.byID) + 1)
      hit == key \in DOMAIN c.toType
      id  == IF hit THEN c.toType[key] ELSE NP + Len(c.byID) + 1
      bind(t) == IF nd.k = "named" THEN [t EXCEPT ![nd.s[1]] = id] ELSE t IN
  IF hit THEN [c |-> [c EXCEPT !.typedefs = bind(@)], id |-> id]
  ELSE IF nd.k = "rec" /\ HasDup(nd.s) THEN [c |-> c, id |-> 0]
  ELSE [c |-> [byID |-> Append(c.byID, nd),
               toType |-> (key :> id) @@ c.toType,
               toValue |-> (id :> [b |-> key, o |-> 0]) @@ c.toValue,
               typedefs |-> bind(c.typedefs)],
        id |-> id]

\* LookupTypeUnion sorts the caller's slice by CompareTypes (stable) first.
SortIds(c, ids) ==
  LET r == SortFrom(<<>>, Eager([j \in 1..Len(ids) |-> [id |-> ids[j], t |-> OS(c.byID, ids[j])]]), 1) IN
  Eager([j \in 1..Len(r) |-> r[j].id])

PrimId(tok) == IF tok = "p1" THEN 1 ELSE 2

\* Leading pushes are local to the goroutine: they are folded into the step.
RECURSIVE SkipPushes(_, _)
SkipPushes(pr, st) ==
  IF pr # <<>> /\ pr[1].op = "push" THEN SkipPushes(Tail(pr), Append(st, PrimId(pr[1].s[1])))
  ELSE IF pr # <<>> /\ pr[1].op = "pushid" THEN SkipPushes(Tail(pr), Append(st, pr[1].n))
  ELSE [pr |-> pr, st |-> st]

\* ------------------------------------------------------------------- calls
Level1 ==
  {Rec(<<f>>, <<P(i)>>) : f \in {"a", "b"}, i \in 1..NP}
  \cup {Rec(<<"a", "b">>, <<P(i), P(j)>>) : i, j \in 1..NP}
  \cup {Rec(<<"b", "a">>, <<P(1), P(2)>>)}
  \cup {Arr(P(i)) : i \in 1..NP} \cup {SetOf(P(i)) : i \in 1..NP} \cup {Err(P(i)) : i \in 1..NP}
  \cup {MapOf(P(1), P(2)), MapOf(P(2), P(1)), MapOf(P(1), P(1))}
  \cup {Un(<<P(1), P(2)>>), Un(<<P(2), P(1)>>)}
  \cup {En(<<"s">>), En(<<"s", "t">>), En(<<"t", "s">>)}
  \cup {Nm(n, P(i)) : n \in TypeNames, i \in 1..NP}

A1 == Nm("n", P(1))
A2 == Nm("n", P(2))
RA == Rec(<<"a">>, <<P(1)>>)
NN == Nm("n", Rec(<<"a">>, <<A1>>))            \* n bound to a record that uses an earlier n
XY == Nm("n", Nm("m", P(1)))                    \* same name, same underlying type as A1

\* Named types: same name bound to different types, def followed by ref,
\* rebinding inside one value, nested reference to an earlier binding.
NamedFam ==
  {A1, A2, Nm("m", A1),
   Rec(<<"a", "b">>, <<A1, A1>>),               \* def .. ref
   Rec(<<"a", "b">>, <<A1, A2>>),               \* def .. def (rebinding)
   MapOf(A1, A1), MapOf(A2, A1),
   Un(<<A1, A2>>), Un(<<A2, A1>>),
   NN, Rec(<<"a", "b">>, <<NN, A1>>), Rec(<<"a", "b">>, <<NN, NN>>),
   Arr(Rec(<<"a", "b">>, <<A1, A1>>))}

\* Nesting and union order over containers.
NestFam ==
  {RA, Arr(RA), SetOf(RA), Err(RA), Rec(<<"a", "b">>, <<RA, Arr(RA)>>), Rec(<<"b">>, <<RA>>),
   Un(<<RA, Arr(RA)>>), Un(<<Arr(RA), RA>>),
   Un(<<P(1), RA, En(<<"s">>)>>), Un(<<En(<<"s">>), P(1), RA>>), Un(<<Rec(<<"b">>, <<P(2)>>), P(1), RA>>),
   En(<<"s">>), MapOf(RA, Un(<<P(1), P(2)>>)), MapOf(RA, Un(<<P(2), P(1)>>)),
   Un(<<P(1), P(2)>>), Un(<<P(2), P(1)>>), Un(<<A1, P(1)>>), Un(<<P(1), A1>>), A1,
   Rec(<<"a", "a">>, <<P(1), P(2)>>)}           \* duplicate field: an error, no state change

\* Sub-families for longer histories.
NamedSmall == {A1, A2, Rec(<<"a", "b">>, <<A1, A1>>), Rec(<<"a", "b">>, <<A1, A2>>), NN,
               Rec(<<"a", "b">>, <<NN, A1>>), Rec(<<"a", "b">>, <<NN, NN>>), Un(<<A2, A1>>)}
NestSmall == {RA, Arr(RA), Un(<<RA, Arr(RA)>>), Un(<<Arr(RA), RA>>), Un(<<P(1), P(2)>>), Un(<<Rec(<<"b">>, <<P(2)>>), P(1), RA>>),
              MapOf(RA, Un(<<P(2), P(1)>>)), En(<<"s">>)}

\* Two named types CompareTypes cannot tell apart, listed in both orders.
TieFam == {A1, Nm("m", P(1)), XY, Un(<<XY, A1>>), Un(<<A1, XY>>), Un(<<A1, P(1)>>), Un(<<P(1), A1>>)}

\* zed.CompareTypes: pairs of members of the same kind that differ in exactly
\* one aspect, each pair listed in both orders.
CmpPairs ==
  {<<Rec(<<"a">>, <<P(1)>>), Rec(<<"b">>, <<P(1)>>)>>,                       \* field name
   <<Rec(<<"a">>, <<P(1)>>), Rec(<<"a">>, <<P(2)>>)>>,                       \* field type
   <<Rec(<<"b">>, <<P(1)>>), Rec(<<"a", "b">>, <<P(1), P(1)>>)>>,            \* number of fields
   <<Rec(<<"a", "b">>, <<P(1), P(2)>>), Rec(<<"b", "a">>, <<P(1), P(2)>>)>>, \* field order
   <<Arr(P(1)), Arr(P(2))>>, <<SetOf(P(1)), SetOf(P(2))>>, <<Err(P(1)), Err(P(2))>>,
   <<Arr(P(1)), SetOf(P(1))>>, <<SetOf(P(2)), Err(P(1))>>,                   \* kinds
   <<MapOf(P(1), P(2)), MapOf(P(2), P(1))>>, <<MapOf(P(1), P(1)), MapOf(P(1), P(2))>>,
   <<En(<<"s">>), En(<<"t">>)>>, <<En(<<"t">>), En(<<"s", "t">>)>>, <<En(<<"s", "t">>), En(<<"t", "s">>)>>,
   <<Un(<<P(1), P(2)>>), Un(<<P(1), Arr(P(1))>>)>>, <<Un(<<P(1), P(2)>>), Un(<<P(1), P(2), Arr(P(1))>>)>>,
   <<Nm("m", P(1)), Nm("n", P(1))>>, <<Nm("n", P(1)), P(1)>>, <<Nm("n", P(1)), P(2)>>,
   <<Nm("n", P(2)), Nm("m", Arr(P(1)))>>, <<Nm("m", Rec(<<"a">>, <<P(1)>>)), Rec(<<"a">>, <<P(1)>>)>>,
   <<Nm("n", Rec(<<"a">>, <<P(1)>>)), Nm("n", Rec(<<"b">>, <<P(1)>>))>>,
   <<Arr(Nm("n", P(1))), Arr(Nm("m", P(1)))>>, <<P(1), P(2)>>}
CmpFam == {Un(pr) : pr \in CmpPairs} \cup {Un(<<pr[2], pr[1]>>) : pr \in CmpPairs}

\* Concurrent decoders that use the same type name.
ConcFam == {A1, A2, Rec(<<"a", "b">>, <<A1, A1>>), Rec(<<"a", "b">>, <<A2, A2>>), MapOf(A1, A1),
            Rec(<<"a", "b">>, <<NN, NN>>)}
ConcSmall == {A2, Rec(<<"a", "b">>, <<A1, A1>>), Rec(<<"a", "b">>, <<NN, NN>>)}

\* The local types of the ZNG streams read through one zed.Mapper /
\* MapperLookupCache (TypeMapper.tla): stream s assigns local id j to
\* Streams[s][j]; the same local id denotes different types in the streams.
Streams == << <<RA, Rec(<<"b">>, <<RA>>)>>,
              <<Rec(<<"b">>, <<P(2)>>), Rec(<<"a">>, <<Rec(<<"b">>, <<P(2)>>)>>)>>,
              <<Arr(P(1)), RA>> >>
MapperFam == UNION {{Streams[s][j] : j \in 1..Len(Streams[s])} : s \in 1..Len(Streams)}

Targets == CASE Family = "level1" -> Level1
             [] Family = "mapper" -> MapperFam
             [] Family = "named"  -> NamedFam
             [] Family = "nest"   -> NestFam
             [] Family = "tie"    -> TieFam
             [] Family = "named-small" -> NamedSmall
             [] Family = "nest-small"  -> NestSmall
             [] Family = "cmp"    -> CmpFam
             [] Family = "conc"   -> ConcFam
             [] Family = "conc-small" -> ConcSmall
             [] Family = "all"    -> Level1 \cup NamedFam \cup NestFam \cup TieFam \cup CmpFam \cup ConcFam \cup MapperFam

Calls == [m : Methods \ {"tdef", "reset"}, ot : Targets, nm : {""}]
         \cup (IF "tdef" \in Methods THEN [m : {"tdef"}, ot : {NoT}, nm : TypeNames] ELSE {})
         \cup (IF "reset" \in Methods THEN {[m |-> "reset", ot |-> NoT, nm |-> ""]} ELSE {})

\* Per-call constants (evaluated once by TLC): the term as its source context
\* stores it, its serialization/decoder program, its structure.
InfoL == [call \in Calls |->
           IF call.m \in {"tdef", "reset"} THEN [sd |-> NoT, ser |-> Ser(P(1), NoDefs), raw |-> Ser(P(1), NoDefs), norm |-> NoT, kids |-> <<>>]
           ELSE [sd   |-> SortDeep(call.ot),
                 ser  |-> Ser(SortDeep(call.ot), NoDefs),
                 raw  |-> Ser(call.ot, NoDefs),
                 norm |-> Norm(call.ot),
                 kids |-> Eager([j \in 1..Len(call.ot.c) |-> Norm(call.ot.c[j])])]]

Info == InfoL @@ <<>>          \* force: one evaluation per call, not per use

\* nrm = [i \in Ids(c) |-> Norm(OS(c.byID, i))], computed once per state.
NormIds(c) == [i \in Ids(c) |-> Norm(OS(c.byID, i))] @@ <<>>
FindId(nrm, nt) == LET S == {i \in DOMAIN nrm : nrm[i] = nt} IN IF S = {} THEN 0 ELSE Min(S)
KidId(nrm, nt) == IF nt.k = "prim" THEN PrimId(nt.s[1]) ELSE FindId(nrm, nt)

\* A call is enabled when the caller can hold the arguments it passes.
CallEnabled(nrm, call) ==
  CASE call.m = "fields" -> \A j \in 1..Len(Info[call].kids) : KidId(nrm, Info[call].kids[j]) # 0
    [] call.m = "tval"   -> FindId(nrm, Info[call].norm) # 0
    [] call.m = "raw"    -> Info[call].sd # call.ot          \* a non-canonical encoding exists
    [] OTHER -> TRUE

\* The smallest caller-buffer name not in use.
FreeBuf(c, lv, busy) == Min((1..(MaxCalls + 1)) \ (lv \cup busy \cup {c.toValue[i].o : i \in Ids(c)}))

\* The program of a call; b names the caller's buffer.
CallProg(nrm, call, b) ==
  LET t == call.ot  inf == Info[call] IN
  CASE call.m = "fields" ->
         Eager([j \in 1..Len(t.c) |-> Ins("pushid", <<>>, KidId(nrm, inf.kids[j]))]) \o <<Ins(t.k, t.s, Len(t.c))>>
    [] call.m = "decode" -> inf.ser.prog
    [] call.m = "value"  -> <<Ins("check", inf.ser.out, 0)>> \o inf.ser.prog \o <<Ins("enter", inf.ser.out, b)>>
    [] call.m = "translate" ->                                 \* EncodeTypeValue: a fresh heap slice
         <<Ins("check", inf.ser.out, 0)>> \o inf.ser.prog \o <<Ins("enter", inf.ser.out, -1)>>
    [] call.m = "raw"    ->                                    \* union members as listed
         <<Ins("check", inf.raw.out, 0)>> \o inf.raw.prog \o <<Ins("enter", inf.raw.out, b)>>
    [] call.m = "tval"   -> <<Ins("tval", <<>>, FindId(nrm, inf.norm))>>
    [] call.m = "tdef"   -> <<Ins("tdef", <<call.nm>>, 0)>>
    [] call.m = "reset"  -> <<Ins("reset", <<>>, 0)>>

\* ------------------------------------------------------------- one section
\* Exec runs the pushes and then one mutex section.  Result: new context,
\* stack, remaining program, returned bytes (tval), ghost updates.
Exec(c, pr0, st0, ld, decoding, wasRacy) ==
  LET sk == SkipPushes(pr0, st0)
      ins == sk.pr[1]
      rest == Tail(sk.pr)
      st == sk.st
      base == [c |-> c, st |-> st, pr |-> rest, rb |-> <<>>, ld |-> ld, race |-> FALSE, ak |-> {}] IN
  CASE ins.op \in {"rec", "arr", "set", "err", "map", "union", "enum", "named"} ->
         LET args == SubSeq(st, Len(st) - ins.n + 1, Len(st))
             kids == IF ins.op = "union" THEN SortIds(c, args) ELSE args
             r == LookupNode(c, [k |-> ins.op, s |-> ins.s, c |-> kids]) IN
         IF r.id = 0 THEN [base EXCEPT !.st = <<0>>, !.pr = <<>>]   \* error: the whole call fails (nil, nil)
         ELSE
         [base EXCEPT !.c = r.c, !.st = Append(SubSeq(st, 1, Len(st) - ins.n), r.id),
                      !.ld = IF ins.op = "named" /\ decoding THEN [ld EXCEPT ![ins.s[1]] = r.id] ELSE ld]
    [] ins.op = "ref" ->                                  \* (*typedefs)[name]: the decoder's own map
         LET id == ld[ins.s[1]] IN
         IF id = 0 THEN [base EXCEPT !.st = <<0>>, !.pr = <<>>]   \* reference without a definition: nil, nil
         ELSE [base EXCEPT !.st = Append(st, id), !.race = (c.typedefs[ins.s[1]] # id)]
    [] ins.op = "tdef" -> [base EXCEPT !.st = Append(st, c.typedefs[ins.s[1]])]
    [] ins.op = "reset" -> [base EXCEPT !.c = EmptyCx, !.st = <<0>>]        \* Context.Reset
    [] ins.op = "tval" -> [base EXCEPT !.st = Append(st, ins.n), !.rb = c.toValue[ins.n].b]
    [] ins.op = "check" ->                                \* first section of LookupByValue
         IF ins.s \in DOMAIN c.toType THEN [base EXCEPT !.st = <<c.toType[ins.s]>>, !.pr = <<>>]
         ELSE base
    [] ins.op = "enter" ->                                \* last section of LookupByValue
         LET typ == st[Len(st)] IN
         \* if _, ok := c.toValue[typ]; !ok { c.toValue[typ] = slices.Clone(tv) }
         \* c.toType[string(tv)] = typ
         \* -- the value the context owns is kept (tv may be another valid
         \* encoding of the same type: it only becomes an alias key) and the
         \* caller's slice is never retained.
         [base EXCEPT !.c = [c EXCEPT !.toValue = IF typ \in DOMAIN @ THEN @ ELSE (typ :> [b |-> ins.s, o |-> 0]) @@ @,
                                       !.toType = (ins.s :> typ) @@ @],
                      !.ak = IF TVid(c.byID, typ) # ins.s THEN {ins.s} ELSE {}]

\* A whole call without preemption (Gran = "call").
RECURSIVE RunAll(_, _, _, _, _, _, _)
RunAll(c, pr, st, ld, decoding, race, ak) ==
  LET r == Exec(c, pr, st, ld, decoding, race) IN
  IF r.pr = <<>> THEN [r EXCEPT !.race = race \/ r.race, !.ak = ak \cup r.ak]
  ELSE RunAll(r.c, r.pr, r.st, r.ld, decoding, race \/ r.race, ak \cup r.ak)

\* --------------------------------------------------------------- behaviour
Snap(c) == [nodes |-> c.byID,
            tv   |-> Eager([i \in 1..Len(c.byID) |-> c.toValue[i + NP].b]),
            own  |-> Eager([i \in 1..Len(c.byID) |-> c.toValue[i + NP].o]),
            defs |-> c.typedefs]

Emit(hh, c) == CASE PrintMode = "edge" -> PrintT(ToJson([h |-> hh, cx |-> Snap(c)]))
                     [] OTHER -> TRUE

Init ==
  /\ cx = EmptyCx
  /\ prog = [p \in Procs |-> <<>>] /\ stk = [p \in Procs |-> <<>>]
  /\ cur = [p \in Procs |-> NoCall]
  /\ ldefs = [p \in Procs |-> [x \in TypeNames |-> 0]]
  /\ racy = [p \in Procs |-> FALSE]
  /\ ncalls = 0 /\ live = {} /\ aliases = {} /\ turn = 0 /\ h = <<>>

Idle(p) == cur[p] = NoCall
UsesBuf(call) == call.m \in {"value", "raw"}

\* Gran = "call": a complete call as one step (sequential histories).
Call(p, call, nrm) ==
  /\ Gran = "call" /\ ncalls < MaxCalls
  /\ CallEnabled(nrm, call)
  /\ LET b == IF UsesBuf(call) THEN FreeBuf(cx, live, {}) ELSE 0
         r == RunAll(cx, CallProg(nrm, call, b), <<>>, [x \in TypeNames |-> 0], call.m # "fields", FALSE, {})
         ev == [e |-> "call", p |-> p, m |-> call.m, ot |-> call.ot, nm |-> call.nm, b |-> b,
                fin |-> TRUE, r |-> r.st[Len(r.st)], rb |-> r.rb, racy |-> r.race] IN
     /\ cx' = r.c
     /\ ncalls' = ncalls + 1
     /\ live' = IF UsesBuf(call) THEN live \cup {b} ELSE live
     /\ aliases' = IF call.m = "reset" THEN {} ELSE aliases \cup r.ak
     /\ h' = Append(h, ev)
     /\ Emit(h', cx')
  /\ UNCHANGED <<prog, stk, cur, ldefs, racy, turn>>

\* Invocation: no shared state is touched.
Start(p, call, nrm) ==
  /\ Gran # "call" /\ turn = 0 /\ Idle(p) /\ ncalls < MaxCalls
  /\ CallEnabled(nrm, call)
  /\ LET b == IF UsesBuf(call) THEN FreeBuf(cx, live, {cur[q].b : q \in Procs}) ELSE 0 IN
     /\ prog' = [prog EXCEPT ![p] = CallProg(nrm, call, b)]
     /\ cur' = [cur EXCEPT ![p] = [b |-> b] @@ call]
     /\ h' = Append(h, [e |-> "start", p |-> p, m |-> call.m, ot |-> call.ot, nm |-> call.nm, b |-> b])
  /\ ncalls' = ncalls + 1
  /\ stk' = [stk EXCEPT ![p] = <<>>]
  /\ ldefs' = [ldefs EXCEPT ![p] = [x \in TypeNames |-> 0]]
  /\ racy' = [racy EXCEPT ![p] = FALSE]
  /\ turn' = IF Gran = "hook" THEN p ELSE 0
  /\ UNCHANGED <<cx, aliases, live>>

\* One mutex section of process p.
Step(p) ==
  /\ Gran # "call" /\ turn \in {0, p} /\ ~Idle(p)
  /\ LET r == Exec(cx, prog[p], stk[p], ldefs[p], cur[p].m # "fields", racy[p])
         fin == r.pr = <<>>
         \* the real code can be parked only in the hook after a NameDef of a decode
         yield == fin \/ Gran = "lock" \/ (Head(SkipPushes(prog[p], <<>>).pr).op = "named" /\ cur[p].m # "fields")
         ev == [e |-> "step", p |-> p, fin |-> fin, yield |-> yield,
                r |-> IF fin THEN r.st[Len(r.st)] ELSE 0, rb |-> r.rb,
                racy |-> racy[p] \/ r.race, m |-> cur[p].m, ot |-> cur[p].ot] IN
     /\ cx' = r.c
     /\ prog' = [prog EXCEPT ![p] = r.pr]
     /\ stk' = [stk EXCEPT ![p] = IF fin THEN <<>> ELSE r.st]
     /\ cur' = [cur EXCEPT ![p] = IF fin THEN NoCall ELSE @]
     /\ ldefs' = [ldefs EXCEPT ![p] = r.ld]
     /\ racy' = [racy EXCEPT ![p] = IF fin THEN FALSE ELSE @ \/ r.race]
     /\ aliases' = IF cur[p].m = "reset" THEN {} ELSE aliases \cup r.ak
     /\ turn' = IF yield THEN 0 ELSE p
     /\ h' = Append(h, ev)
     \* the real state can be observed (and compared) only where the call is parked or done
     /\ IF yield THEN Emit(h', cx') ELSE TRUE
     \* the caller may reuse its buffer only after the call has returned
     /\ live' = IF fin /\ UsesBuf(cur[p]) THEN live \cup {cur[p].b} ELSE live
  /\ UNCHANGED ncalls

\* The caller reuses a byte slice it handed to LookupByValue.  The context
\* holds no reference to it (owner tags are all 0), so nothing changes; the
\* harness overwrites the real buffer and re-reads every type value.
ReuseBuffer(b) ==
  /\ Reuse /\ turn = 0 /\ b \in live
  /\ live' = live \ {b}
  /\ LET hit == {i \in Ids(cx) : cx.toValue[i].o = b} IN
     /\ cx' = [cx EXCEPT !.toValue = [i \in DOMAIN @ |-> IF i \in hit THEN [@[i] EXCEPT !.b = <<"garbage">>] ELSE @[i]]]
  /\ h' = Append(h, [e |-> "reuse", b |-> b, fin |-> FALSE])
  /\ Emit(h', cx')
  /\ UNCHANGED <<prog, stk, cur, ldefs, racy, ncalls, turn, aliases>>

Next == LET nrm == NormIds(cx) IN
        \/ \E p \in Procs, call \in Calls : Call(p, call, nrm) \/ Start(p, call, nrm)
        \/ \E p \in Procs : Step(p)
        \/ \E b \in live : ReuseBuffer(b)

Spec == Init /\ [][Next]_vars

\* ---------------------------------------------------------------- properties
\* Ids are dense and every table agrees on which types exist.
WellFormed ==
  /\ DOMAIN cx.toValue = Ids(cx)
  /\ \A key \in DOMAIN cx.toType : cx.toType[key] \in Ids(cx)
  /\ \A i \in Ids(cx) : \A j \in 1..Len(cx.byID[i - NP].c) : cx.byID[i - NP].c[j] \in 1..(i - 1)
  /\ \A n \in TypeNames : cx.typedefs[n] = 0 \/
        (cx.typedefs[n] \in Ids(cx) /\ cx.byID[cx.typedefs[n] - NP].k = "named" /\ cx.byID[cx.typedefs[n] - NP].s = <<n>>)

\* Same structure <=> same object (same id).
Canonical ==
  \A i, j \in Ids(cx) : i # j => Norm(OS(cx.byID, i)) # Norm(OS(cx.byID, j))

\* A union is identified by its member set, whatever order it was listed in.
UnionOrderInsensitive ==
  \A i, j \in Ids(cx) :
        (cx.byID[i - NP].k = "union" /\ cx.byID[j - NP].k = "union"
           /\ ToSet(cx.byID[i - NP].c) = ToSet(cx.byID[j - NP].c)) => i = j

\* The type value the context hands out is the serialization of the type's
\* structure -- always, in particular after ReuseBuffer and after lookups by
\* value in any encoding.
ValuePure == \A i \in Ids(cx) : cx.toValue[i].o = 0 /\ cx.toValue[i].b = TVid(cx.byID, i)

\* Every key of toType denotes its type: it is the serialization of the type
\* or an alias entered by LookupByValue for another encoding of it (whose
\* decoding to that type is what DecodeCorrect checked when it was entered).
KeysDenote ==
  \A key \in DOMAIN cx.toType : key \in aliases \/ TVid(cx.byID, cx.toType[key]) = key

\* RoundTrip / DecodeCorrect: every finished call that denotes a type returned
\* a type of exactly that structure -- by fields, by value, by translation and
\* by bare decoding, in any context state ("anywhere"), unless that very call
\* read a typedef rebound by a concurrent call (the modelled race).
Denotes(ev) ==
  \/ ~ev.fin \/ ev.m \in {"tval", "tdef", "reset"}
  \/ (ev.r = 0 /\ HasDup(ev.ot.s))
  \/ (ev.r \in Ids(cx) /\ Norm(OS(cx.byID, ev.r)) = Norm(ev.ot))
\* byID only grows, so it suffices to look at the event just appended.
DecodeCorrect == (h # <<>> /\ h[Len(h)].e \in {"step", "call"}) => Denotes(h[Len(h)])

\* LookupTypeValue returns the serialization of the structure.
TvalCorrect ==
  (h # <<>> /\ h[Len(h)].e \in {"step", "call"} /\ h[Len(h)].m = "tval") =>
        h[Len(h)].rb = TVid(cx.byID, h[Len(h)].r)

\* Complete behaviours for PrintMode = "final".
Quiescent == ncalls = MaxCalls /\ \A p \in Procs : Idle(p)
FinalPrint == (PrintMode = "final" /\ Quiescent) => PrintT(ToJson([h |-> h, cx |-> Snap(cx)]))
=============================================================================
