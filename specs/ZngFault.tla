------------------------------ MODULE ZngFault ------------------------------
(***************************************************************************)
(* C11 (a) -- termination / no blocked goroutine of the concurrent ZNG     *)
(* reader under input faults.                                              *)
(*                                                                         *)
(* Transcription of the goroutine / channel protocol of                    *)
(* zio/zngio/scanner.go:                                                   *)
(*   scanner.start  (the parser goroutine: parser.read, sendControl,       *)
(*                   workerCh / resultChCh / workCh selects, deferred      *)
(*                   close(resultChCh)),                                   *)
(*   worker.run     (workerCh <- w, <-workCh, decompress, scanBatch,       *)
(*                   resultCh send + close),                               *)
(*   scanner.Pull   (once.Do(start), Pull(true) = cancel + drain,          *)
(*                   eof/err latch, select{resultChCh, ctx.Done},          *)
(*                   receive on the per-work resultCh, cancel on error),   *)
(* with channel capacities as coded (workerCh and resultChCh: Threads+1,   *)
(* resultCh: 1, workCh: unbuffered = rendezvous).                          *)
(*                                                                         *)
(* The input is an abstract frame sequence.  Types frames and EOS markers  *)
(* are consumed inside parser.read and do not touch the protocol, so an    *)
(* item is one of                                                          *)
(*   "V"  values frame that yields a batch                                 *)
(*   "E"  values frame that yields no batch (resultCh closed, nothing sent)*)
(*   "C"  control frame (sendControl, parser continues)                    *)
(* or a faulted frame, classified by the code path that detects the fault  *)
(* (FaultPath below maps the concrete fault classes to these paths):       *)
(*   "P"  parser.read returns an error         (sendControl(err); return)  *)
(*   "PT" truncation: parser.read returns an error or io.EOF               *)
(*   "A"  worker: frame.decompress fails  (result sent, resultCh NOT       *)
(*        closed, `continue`)                                              *)
(*   "B"  worker: scanBatch fails         (result sent, resultCh closed)   *)
(*                                                                         *)
(* TLC checks, for every stream up to MaxLen with at most one fault at     *)
(* every position, every number of workers in Threads, every interleaving  *)
(* and every consumer (drain / stop early with Pull(true) at any point /   *)
(* parent context cancelled at any point, then keep pulling or walk away): *)
(* all goroutines reach their final pc, resultChCh is closed, no deadlock, *)
(* nothing is sent on a closed or full channel, results are delivered in   *)
(* order and a draining consumer receives exactly Expected(stream), i.e.   *)
(* the error is delivered.                                                 *)
(*                                                                         *)
(* History: the spec used to carry the defect F-C11-1 ("nilchan": Pull's   *)
(* `case ch := <-s.resultChCh` did not test for a closed channel, got      *)
(* ch = nil after a parent cancellation and blocked forever) as a tainting *)
(* disjunct.  Repaired in the repository by b58d2dd66 (`ch, ok := <-...;   *)
(* if !ok { return nil, s.ctx.Err() }`); PullRecvClosed below transcribes  *)
(* the repaired code and the properties hold without any exemption.        *)
(***************************************************************************)
EXTENDS Integers, Sequences, FiniteSets, TLC

CONSTANTS MaxLen,        \* maximal number of items in a stream
          Threads,       \* set of worker counts, e.g. {2,3}
          Modes          \* consumer behaviours explored, subset of {"drain", "stop", "cancel"}:
                         \*   drain : Pull(false) until end / error (then optionally Close)
                         \*   stop  : additionally Pull(true) at any point
                         \*   cancel: the parent context is cancelled at any point; the consumer keeps
                         \*           pulling, closes, or walks away

NoFault   == {"V", "E", "C"}
ParserErr == {"P", "PT"}
WorkerErr == {"A", "B"}
Items     == NoFault \cup ParserErr \cup WorkerErr
Dispatched == {"V", "E", "A", "B"}          \* items handed to a worker

\* Concrete fault classes -> detecting code path.  Exported to the harness,
\* which builds real byte streams per class and compares the real outcome.
FaultPath == [ eof_mid_header    |-> "PT",   \* binary.ReadUvarint / ReadByte hit EOF
               eof_mid_body      |-> "PT",   \* peeker.Read: ErrTruncated or EOF
               bad_version       |-> "P",    \* code & 0x80
               bad_frame_type    |-> "P",    \* (code>>4)&3 == 3
               length_gt_max     |-> "P",    \* readFrame: size > maxSize
               bad_typedef       |-> "P",    \* Decoder.decode fails in the parser goroutine
               bad_comp_format   |-> "A",    \* frame.decompress: unknown format (worker)
               decompress_error  |-> "A",    \* lz4 error / size mismatch (worker)
               unknown_type_id   |-> "B",    \* worker.decodeVal: type ID not in context
               bad_value_tag     |-> "B",    \* worker.decodeVal: errBadFormat
               control           |-> "C" ]   \* control frame: delivered in order, not fatal

NumFaults(s) == Cardinality({i \in 1..Len(s) : s[i] \notin NoFault})

SeqsUpTo(S, n) == UNION {[1..k -> S] : k \in 0..n}

\* at most one fault; nothing follows a fatal parser error (it is unreachable)
StreamsUpTo(n) == {s \in SeqsUpTo(Items, n) :
                     /\ NumFaults(s) <= 1
                     /\ \A i \in 1..Len(s) : s[i] \in ParserErr => i = Len(s)}
Streams == StreamsUpTo(MaxLen)

\* What a draining consumer must observe.  For "PT" both endings are legal.
RECURSIVE ExpFrom(_, _, _)
ExpFrom(s, i, ptIsErr) ==
  IF i > Len(s) THEN <<"end">>
  ELSE CASE s[i] = "V" -> <<"b">> \o ExpFrom(s, i + 1, ptIsErr)
         [] s[i] = "E" -> ExpFrom(s, i + 1, ptIsErr)
         [] s[i] = "C" -> <<"c">> \o ExpFrom(s, i + 1, ptIsErr)
         [] s[i] \in {"P", "A", "B"} -> <<"err">>
         [] s[i] = "PT" -> IF ptIsErr THEN <<"err">> ELSE <<"end">>
Expected(s) == {ExpFrom(s, 1, TRUE), ExpFrom(s, 1, FALSE)}

IsPrefix(a, b) == Len(a) <= Len(b) /\ \A i \in 1..Len(a) : a[i] = b[i]

NIL == 0      \* the nil channel

VARIABLES
  stream, nthreads, mode,
  started,          \* once.Do(s.start) has run
  ctxDone,          \* the scanner's context is done (parent cancel or s.cancel())
  parentCancelled,
  \* parser goroutine
  ppc, pos, pw,
  \* channels
  workerCh,         \* Seq of worker ids, cap nthreads+1
  rcc, rccClosed,   \* resultChCh: Seq of channel ids, cap nthreads+1
  chbuf, chclosed,  \* per-work resultCh (cap 1), indexed by stream position (Len+1 = final control)
  \* workers
  wpc, wwork,
  \* consumer (the caller of Pull)
  cpc, cch, cres, cstate, eof, err, obs, stopped,
  \* ghosts
  bad               \* "none" or the name of a Go runtime failure (send on closed channel ...)

vars == <<stream, nthreads, mode, started, ctxDone, parentCancelled, ppc, pos, pw, workerCh, rcc, rccClosed,
          chbuf, chclosed, wpc, wwork, cpc, cch, cres, cstate, eof, err, obs, stopped, bad>>

Workers == 1..nthreads
Cap     == nthreads + 1
ChanIds == 1..(MaxLen + 1)

InitWith(s, n, m) ==
  /\ stream = s /\ nthreads = n /\ mode = m
  /\ started = FALSE /\ ctxDone = FALSE /\ parentCancelled = FALSE
  /\ ppc = "notstarted" /\ pos = 1 /\ pw = 0
  /\ workerCh = <<>> /\ rcc = <<>> /\ rccClosed = FALSE
  /\ chbuf = [i \in ChanIds |-> <<>>] /\ chclosed = [i \in ChanIds |-> FALSE]
  /\ wpc = [w \in 1..n |-> "notstarted"] /\ wwork = [w \in 1..n |-> 0]
  /\ cpc = "idle" /\ cch = NIL /\ cres = "none" /\ cstate = "active"
  /\ eof = FALSE /\ err = "none" /\ obs = <<>> /\ stopped = FALSE
  /\ bad = "none"

Init == \E s \in Streams, n \in Threads, m \in Modes : InitWith(s, n, m)

\* ------------------------------------------------------------ channel ops
\* send r on resultCh id (capacity 1); a send on a closed or full channel is a Go-level failure
SendOn(id, r) ==
  /\ chbuf' = [chbuf EXCEPT ![id] = Append(@, r)]
  /\ bad' = IF chclosed[id] THEN "send-on-closed-resultCh"
            ELSE IF Len(chbuf[id]) >= 1 THEN "send-on-full-resultCh" ELSE bad
CloseCh(id) ==
  chclosed' = [chclosed EXCEPT ![id] = TRUE]

\* -------------------------------------------------------- parser goroutine
\* `frame, err := s.parser.read()` and the branch on its result
ParserRead ==
  /\ ppc = "read"
  /\ IF pos > Len(stream)
       THEN ppc' = "ctlfinal_end"                         \* io.EOF -> sendControl(nil); return
       ELSE CASE stream[pos] = "C"  -> ppc' = "ctl"       \* *zbuf.Control -> sendControl; continue
              [] stream[pos] = "P"  -> ppc' = "ctlfinal_err"
              [] stream[pos] = "PT" -> ppc' \in {"ctlfinal_err", "ctlfinal_end"}
              [] OTHER              -> ppc' = "getworker"
  /\ UNCHANGED <<stream, nthreads, mode, started, ctxDone, parentCancelled, pos, pw, workerCh, rcc, rccClosed, chbuf, chclosed,
                 wpc, wwork, cpc, cch, cres, cstate, eof, err, obs, stopped, bad>>

CtlResult == CASE ppc = "ctl" -> "c" [] ppc = "ctlfinal_err" -> "err" [] OTHER -> "end"
CtlId     == IF pos > Len(stream) THEN Len(stream) + 1 ELSE pos

\* sendControl: ch := make(chan, 1); ch <- result; select { case s.resultChCh <- ch: ... }
ParserCtlSend ==
  /\ ppc \in {"ctl", "ctlfinal_err", "ctlfinal_end"}
  /\ Len(rcc) < Cap
  /\ SendOn(CtlId, CtlResult)
  /\ rcc' = Append(rcc, CtlId)
  /\ IF ppc = "ctl" THEN ppc' = "read" /\ pos' = pos + 1 ELSE ppc' = "closing" /\ pos' = pos
  /\ UNCHANGED <<stream, nthreads, mode, started, ctxDone, parentCancelled, pw, workerCh, rccClosed, chclosed,
                 wpc, wwork, cpc, cch, cres, cstate, eof, err, obs, stopped>>

\* sendControl: ... case <-s.ctx.Done(): return false   (the caller ignores the result for control frames)
ParserCtlCancel ==
  /\ ppc \in {"ctl", "ctlfinal_err", "ctlfinal_end"}
  /\ ctxDone
  /\ IF ppc = "ctl" THEN ppc' = "read" /\ pos' = pos + 1 ELSE ppc' = "closing" /\ pos' = pos
  /\ UNCHANGED <<stream, nthreads, mode, started, ctxDone, parentCancelled, pw, workerCh, rcc, rccClosed, chbuf, chclosed,
                 wpc, wwork, cpc, cch, cres, cstate, eof, err, obs, stopped, bad>>

\* select { case worker := <-s.workerCh: ... case <-s.ctx.Done(): return }
ParserGetWorker ==
  /\ ppc = "getworker" /\ workerCh # <<>>
  /\ pw' = Head(workerCh) /\ workerCh' = Tail(workerCh)
  /\ ppc' = "enqueue"
  /\ UNCHANGED <<stream, nthreads, mode, started, ctxDone, parentCancelled, pos, rcc, rccClosed, chbuf, chclosed,
                 wpc, wwork, cpc, cch, cres, cstate, eof, err, obs, stopped, bad>>

\* select { case s.resultChCh <- w.resultCh: ... case <-s.ctx.Done(): return }
ParserEnqueue ==
  /\ ppc = "enqueue" /\ Len(rcc) < Cap
  /\ rcc' = Append(rcc, pos)
  /\ ppc' = "dispatch"
  /\ UNCHANGED <<stream, nthreads, mode, started, ctxDone, parentCancelled, pos, pw, workerCh, rccClosed, chbuf, chclosed,
                 wpc, wwork, cpc, cch, cres, cstate, eof, err, obs, stopped, bad>>

ParserCancelReturn ==        \* the ctx.Done() arms of the first two selects
  /\ ppc \in {"getworker", "enqueue"} /\ ctxDone
  /\ ppc' = "closing" /\ pw' = 0
  /\ UNCHANGED <<stream, nthreads, mode, started, ctxDone, parentCancelled, pos, workerCh, rcc, rccClosed, chbuf, chclosed,
                 wpc, wwork, cpc, cch, cres, cstate, eof, err, obs, stopped, bad>>

\* select { case worker.workCh <- w: (rendezvous with the worker's receive) ... }
ParserDispatch ==
  /\ ppc = "dispatch" /\ wpc[pw] = "waitwork"
  /\ wpc' = [wpc EXCEPT ![pw] = "gotwork"]
  /\ wwork' = [wwork EXCEPT ![pw] = pos]
  /\ ppc' = "hook"
  /\ UNCHANGED <<stream, nthreads, mode, started, ctxDone, parentCancelled, pos, pw, workerCh, rcc, rccClosed, chbuf, chclosed,
                 cpc, cch, cres, cstate, eof, err, obs, stopped, bad>>

\* ... case <-s.ctx.Done(): close(w.resultCh); return
ParserDispatchCancel ==
  /\ ppc = "dispatch" /\ ctxDone
  /\ CloseCh(pos)
  /\ ppc' = "closing" /\ pw' = 0
  /\ UNCHANGED <<stream, nthreads, mode, started, ctxDone, parentCancelled, pos, workerCh, rcc, rccClosed, chbuf,
                 wpc, wwork, cpc, cch, cres, cstate, eof, err, obs, stopped, bad>>

\* verif.At("zngio.dispatch", ...) -- the logged point after the workCh send
ParserHook ==
  /\ ppc = "hook"
  /\ ppc' = "read" /\ pos' = pos + 1 /\ pw' = 0
  /\ UNCHANGED <<stream, nthreads, mode, started, ctxDone, parentCancelled, workerCh, rcc, rccClosed, chbuf, chclosed,
                 wpc, wwork, cpc, cch, cres, cstate, eof, err, obs, stopped, bad>>

\* defer close(s.resultChCh)
ParserClose ==
  /\ ppc = "closing"
  /\ rccClosed' = TRUE /\ ppc' = "done"
  /\ UNCHANGED <<stream, nthreads, mode, started, ctxDone, parentCancelled, pos, pw, workerCh, rcc, chbuf, chclosed,
                 wpc, wwork, cpc, cch, cres, cstate, eof, err, obs, stopped, bad>>

\* ----------------------------------------------------------------- workers
\* select { case workerCh <- w: case <-w.ctx.Done(): return }
\* Workers are interchangeable: of several workers at the same pc with no work in hand only the
\* lowest-numbered one is allowed to move (a pure symmetry reduction).
Lowest(w) == \A v \in Workers : (v < w) => wpc[v] # wpc[w]

WorkerReady(w) ==
  /\ wpc[w] = "idle" /\ Len(workerCh) < Cap /\ Lowest(w)
  /\ workerCh' = Append(workerCh, w)
  /\ wpc' = [wpc EXCEPT ![w] = "waitwork"]
  /\ UNCHANGED <<stream, nthreads, mode, started, ctxDone, parentCancelled, ppc, pos, pw, rcc, rccClosed, chbuf, chclosed,
                 wwork, cpc, cch, cres, cstate, eof, err, obs, stopped, bad>>

WorkerCancel(w) ==           \* the ctx.Done() arm of either select in worker.run
  /\ wpc[w] \in {"idle", "waitwork"} /\ ctxDone
  /\ wpc[w] = "idle" => Lowest(w)
  /\ wpc' = [wpc EXCEPT ![w] = "done"]
  /\ UNCHANGED <<stream, nthreads, mode, started, ctxDone, parentCancelled, ppc, pos, pw, workerCh, rcc, rccClosed, chbuf, chclosed,
                 wwork, cpc, cch, cres, cstate, eof, err, obs, stopped, bad>>

\* frame.decompress() fails: `work.resultCh <- op.Result{Err: err}; continue` (no close, no hook)
WorkerFailA(w) ==
  /\ wpc[w] = "gotwork" /\ stream[wwork[w]] = "A"
  /\ SendOn(wwork[w], "err")
  /\ wpc' = [wpc EXCEPT ![w] = "idle"] /\ wwork' = [wwork EXCEPT ![w] = 0]
  /\ UNCHANGED <<stream, nthreads, mode, started, ctxDone, parentCancelled, ppc, pos, pw, workerCh, rcc, rccClosed, chclosed,
                 cpc, cch, cres, cstate, eof, err, obs, stopped>>

\* batch, err := w.scanBatch(...); verif.At("zngio.worker.done", ...)
WorkerScan(w) ==
  /\ wpc[w] = "gotwork" /\ stream[wwork[w]] # "A"
  /\ wpc' = [wpc EXCEPT ![w] = "scanned"]
  /\ UNCHANGED <<stream, nthreads, mode, started, ctxDone, parentCancelled, ppc, pos, pw, workerCh, rcc, rccClosed, chbuf, chclosed,
                 wwork, cpc, cch, cres, cstate, eof, err, obs, stopped, bad>>

\* if batch != nil || err != nil { work.resultCh <- ... }; close(work.resultCh)
WorkerSend(w) ==
  /\ wpc[w] = "scanned"
  /\ LET id == wwork[w] k == stream[id] IN
       /\ IF k = "E" THEN chbuf' = chbuf /\ bad' = bad
                     ELSE SendOn(id, IF k = "V" THEN "b" ELSE "err")
       /\ chclosed' = [chclosed EXCEPT ![id] = TRUE]
  /\ wpc' = [wpc EXCEPT ![w] = "idle"] /\ wwork' = [wwork EXCEPT ![w] = 0]
  /\ UNCHANGED <<stream, nthreads, mode, started, ctxDone, parentCancelled, ppc, pos, pw, workerCh, rcc, rccClosed,
                 cpc, cch, cres, cstate, eof, err, obs, stopped>>

\* ---------------------------------------------------------------- consumer
Start ==   \* s.once.Do(s.start)
  /\ started' = TRUE
  /\ IF started THEN ppc' = ppc /\ wpc' = wpc
     ELSE ppc' = "read" /\ wpc' = [w \in Workers |-> "idle"]

\* Pull(false) up to the select
CallPull ==
  /\ cpc = "idle" /\ cstate = "active"
  /\ Start
  /\ IF err # "none" \/ eof
       THEN cpc' = "ret" /\ cres' = IF err # "none" THEN err ELSE "end"
       ELSE cpc' = "select" /\ cres' = cres
  /\ UNCHANGED <<stream, nthreads, mode, ctxDone, parentCancelled, pos, pw, workerCh, rcc, rccClosed, chbuf, chclosed,
                 wwork, cch, cstate, eof, err, obs, stopped, bad>>

\* Pull(true): s.cancel(); for range s.resultChCh {}; s.eof = true
CallPullDone ==
  /\ cpc = "idle" /\ cstate \in {"active", "ended"}
  /\ cstate = "active" => (mode = "stop" \/ parentCancelled)
  /\ Start
  /\ ctxDone' = TRUE
  /\ cpc' = "draining"
  /\ stopped' = (stopped \/ cstate = "active")
  /\ UNCHANGED <<stream, nthreads, mode, parentCancelled, pos, pw, workerCh, rcc, rccClosed, chbuf, chclosed,
                 wwork, cch, cres, cstate, eof, err, obs, bad>>

DrainOne ==
  /\ cpc = "draining" /\ rcc # <<>>
  /\ rcc' = Tail(rcc)
  /\ UNCHANGED <<stream, nthreads, mode, started, ctxDone, parentCancelled, ppc, pos, pw, workerCh, rccClosed, chbuf, chclosed,
                 wpc, wwork, cpc, cch, cres, cstate, eof, err, obs, stopped, bad>>

DrainEnd ==
  /\ cpc = "draining" /\ rcc = <<>> /\ rccClosed
  /\ eof' = TRUE
  /\ cpc' = "idle" /\ cstate' = "closed"
  /\ UNCHANGED <<stream, nthreads, mode, started, ctxDone, parentCancelled, ppc, pos, pw, workerCh, rcc, rccClosed, chbuf, chclosed,
                 wpc, wwork, cch, cres, err, obs, stopped, bad>>

\* select { case ch := <-s.resultChCh: ...
PullRecv ==
  /\ cpc = "select" /\ rcc # <<>>
  /\ cch' = Head(rcc) /\ rcc' = Tail(rcc)
  /\ cpc' = "recv"
  /\ UNCHANGED <<stream, nthreads, mode, started, ctxDone, parentCancelled, ppc, pos, pw, workerCh, rccClosed, chbuf, chclosed,
                 wpc, wwork, cres, cstate, eof, err, obs, stopped, bad>>

\* ... the same arm on a closed, drained resultChCh: `ch, ok := <-s.resultChCh; if !ok { return nil, s.ctx.Err() }`
\* (s.ctx.Err() is nil if the context is not done; ClosedOnlyAfterCancel says that cannot happen here)
PullRecvClosed ==
  /\ cpc = "select" /\ rcc = <<>> /\ rccClosed
  /\ cpc' = "ret" /\ cres' = (IF ctxDone THEN "ctxerr" ELSE "end")
  /\ UNCHANGED <<stream, nthreads, mode, started, ctxDone, parentCancelled, ppc, pos, pw, workerCh, rcc, rccClosed, chbuf, chclosed,
                 wpc, wwork, cch, cstate, eof, err, obs, stopped, bad>>

\* ... case <-s.ctx.Done(): return nil, s.ctx.Err() }
PullCtxDone ==
  /\ cpc = "select" /\ ctxDone
  /\ cpc' = "ret" /\ cres' = "ctxerr"
  /\ UNCHANGED <<stream, nthreads, mode, started, ctxDone, parentCancelled, ppc, pos, pw, workerCh, rcc, rccClosed, chbuf, chclosed,
                 wpc, wwork, cch, cstate, eof, err, obs, stopped, bad>>

\* result, ok := <-ch  with ok = true ; verif.At("zngio.deliver", ch, true); eof/err latch and s.cancel()
PullGot ==
  /\ cpc = "recv" /\ cch # NIL /\ chbuf[cch] # <<>>
  /\ LET r == Head(chbuf[cch]) IN
       /\ chbuf' = [chbuf EXCEPT ![cch] = Tail(@)]
       /\ cres' = r
       /\ IF r \in {"err", "end"}
            THEN eof' = TRUE /\ err' = (IF r = "err" THEN "err" ELSE "none") /\ ctxDone' = TRUE
            ELSE eof' = eof /\ err' = err /\ ctxDone' = ctxDone
  /\ cpc' = "ret" /\ cch' = NIL
  /\ UNCHANGED <<stream, nthreads, mode, started, parentCancelled, ppc, pos, pw, workerCh, rcc, rccClosed, chclosed,
                 wpc, wwork, cstate, obs, stopped, bad>>

\* ok = false: closed without a result -> continue with the select
PullClosedEmpty ==
  /\ cpc = "recv" /\ cch # NIL /\ chbuf[cch] = <<>> /\ chclosed[cch]
  /\ cpc' = "select" /\ cch' = NIL
  /\ UNCHANGED <<stream, nthreads, mode, started, ctxDone, parentCancelled, ppc, pos, pw, workerCh, rcc, rccClosed, chbuf, chclosed,
                 wpc, wwork, cres, cstate, eof, err, obs, stopped, bad>>

\* Pull(false) returns cres to the caller
PullReturn ==
  /\ cpc = "ret"
  /\ obs' = Append(obs, cres)
  /\ cpc' = "idle"
  /\ cstate' = IF cres \in {"err", "end", "ctxerr"} THEN "ended" ELSE cstate
  /\ cres' = "none"
  /\ UNCHANGED <<stream, nthreads, mode, started, ctxDone, parentCancelled, ppc, pos, pw, workerCh, rcc, rccClosed, chbuf, chclosed,
                 wpc, wwork, cch, eof, err, stopped, bad>>

\* The consumer is finished: it drained to the end / an error (with or without Close), it
\* closed the scanner, or its context was cancelled and it walks away.
Finish ==
  /\ cpc = "idle"
  /\ cstate \in {"ended", "closed"} \/ (cstate = "active" /\ parentCancelled)
  /\ cstate' = "finished"
  /\ UNCHANGED <<stream, nthreads, mode, started, ctxDone, parentCancelled, ppc, pos, pw, workerCh, rcc, rccClosed, chbuf, chclosed,
                 wpc, wwork, cpc, cch, cres, eof, err, obs, stopped, bad>>

\* ------------------------------------------------------------ environment
ParentCancel ==
  /\ mode = "cancel" /\ ~parentCancelled /\ cstate # "finished"
  /\ parentCancelled' = TRUE /\ ctxDone' = TRUE
  /\ UNCHANGED <<stream, nthreads, mode, started, ppc, pos, pw, workerCh, rcc, rccClosed, chbuf, chclosed,
                 wpc, wwork, cpc, cch, cres, cstate, eof, err, obs, stopped, bad>>

\* ------------------------------------------------------------- next-state
ParserStep == \/ ParserRead \/ ParserCtlSend \/ ParserCtlCancel \/ ParserGetWorker \/ ParserEnqueue
              \/ ParserCancelReturn \/ ParserDispatch \/ ParserDispatchCancel \/ ParserHook \/ ParserClose
WorkerStep(w) == WorkerReady(w) \/ WorkerCancel(w) \/ WorkerFailA(w) \/ WorkerScan(w) \/ WorkerSend(w)
ConsumerStep == \/ CallPull \/ CallPullDone \/ DrainOne \/ DrainEnd \/ PullRecv \/ PullRecvClosed
                \/ PullCtxDone \/ PullGot \/ PullClosedEmpty \/ PullReturn \/ Finish

GoroutinesDone ==
  /\ ppc \in {"notstarted", "done"}
  /\ \A w \in Workers : wpc[w] \in {"notstarted", "done"}

Terminated == GoroutinesDone /\ cstate = "finished"

Done == Terminated /\ UNCHANGED vars

Next == ParserStep \/ (\E w \in Workers : WorkerStep(w)) \/ ConsumerStep \/ ParentCancel \/ Done

Fairness ==
  /\ WF_vars(ParserStep)
  /\ \A n \in Threads : \A w \in 1..n : WF_vars(w \in Workers /\ WorkerStep(w))
  /\ WF_vars(ConsumerStep)

Spec == Init /\ [][Next]_vars /\ Fairness

\* -------------------------------------------------------------- properties
TypeOK ==
  /\ nthreads \in Threads /\ mode \in Modes
  /\ ppc \in {"notstarted", "read", "ctl", "ctlfinal_err", "ctlfinal_end", "getworker", "enqueue", "dispatch", "hook", "closing", "done"}
  /\ \A w \in Workers : wpc[w] \in {"notstarted", "idle", "waitwork", "gotwork", "scanned", "done"}
  /\ cpc \in {"idle", "select", "recv", "ret", "draining"}
  /\ cstate \in {"active", "ended", "closed", "finished"}
  /\ Len(rcc) <= Cap /\ Len(workerCh) <= Cap
  /\ pos \in 1..(Len(stream) + 1)

\* no Go-level channel failure: send on a closed / full resultCh, double close
NoChannelFailure == bad = "none"

\* a per-work resultCh never holds more than its capacity
ChanCap == \A i \in ChanIds : Len(chbuf[i]) <= 1

\* results are delivered in stream order: what the consumer saw (minus a trailing ctxerr)
\* is a prefix of what a draining consumer must see.  (After a parent cancellation the code may
\* drop a control frame -- `s.sendControl(err); continue` ignores the false return -- and still
\* queue a later result, so nothing is claimed about order once the context is cancelled.)
Core(o) == IF o # <<>> /\ o[Len(o)] = "ctxerr" THEN SubSeq(o, 1, Len(o) - 1) ELSE o
InOrder == ~parentCancelled => \E e \in Expected(stream) : IsPrefix(Core(obs), e)

\* a consumer that drains (never stops early, context never cancelled) receives exactly the
\* expected sequence -- in particular the error of a faulted frame is delivered, at its position
ErrorDelivered ==
  (cstate \in {"ended", "closed", "finished"} /\ ~stopped /\ ~parentCancelled)
     => obs \in Expected(stream)

\* the closed-channel arm of Pull is reachable only once the context is done (so it returns ctx.Err() # nil)
ClosedOnlyAfterCancel == (cpc = "select" /\ rcc = <<>> /\ rccClosed) => ctxDone
\* Pull never receives from the nil channel
NeverNilChannel == cpc = "recv" => cch # NIL

\* when everything is over the parser has closed resultChCh
ClosedAtEnd == (GoroutinesDone /\ started) => rccClosed

\* every terminal state is a proper termination (TLC deadlock checking is on: Done is the only
\* stuttering step, so any other state without successor is reported as deadlock)
Termination == <>[]Terminated
\* parser and workers always exit, whatever the consumer does, once it is finished / stuck
GoroutinesExit == <>[]GoroutinesDone

\* ------------------------------------------------------------ non-vacuity
\* (constant-level ASSUMEs, written as membership tests so that they stay cheap for large MaxLen)
ASSUME MaxLen >= 1 /\ [i \in 1..MaxLen |-> "V"] \in Streams
ASSUME \A k \in ParserErr \cup WorkerErr : <<k>> \in Streams
ASSUME MaxLen >= 2 => (<<"P", "V">> \notin Streams /\ <<"A", "V">> \in Streams /\ <<"A", "B">> \notin Streams)
ASSUME \A c \in DOMAIN FaultPath : FaultPath[c] \in Items
ASSUME \A k \in (ParserErr \cup WorkerErr) : \E c \in DOMAIN FaultPath : FaultPath[c] = k
ASSUME Expected(<<"V", "E", "C", "B", "V">>) = {<<"b", "c", "err">>}
ASSUME Expected(<<"V", "PT">>) = {<<"b", "err">>, <<"b", "end">>}
=============================================================================
