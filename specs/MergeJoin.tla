------------------------------ MODULE MergeJoin ------------------------------
(***************************************************************************)
(* C10 (join half) -- a join emits exactly the pairs a nested-loop join    *)
(* would, for every kind, key multiplicity, input order and declared       *)
(* direction.                                                              *)
(*                                                                         *)
(* Transcription of runtime/sam/op/join/join.go:                           *)
(*   join.New       choice of the merge direction o from the declared      *)
(*                  directions, insertion of sort.New(.., nullsFirst=false)*)
(*                  on every side whose declared direction is not o,       *)
(*                  compare = expr.NewValueCompareFn(o, true);             *)
(*   Op.Pull        one left record at a time: getJoinSet, then emit the   *)
(*                  left record alone (left/anti, no match), nothing       *)
(*                  (anti with a match, inner without) or one spliced      *)
(*                  record per member of the join set;                     *)
(*   getJoinSet     cached joinKey/joinSet; skip right records while the   *)
(*                  left key is greater, stop when it is smaller;          *)
(*   readJoinSet    collect the run of right records equal to the key;     *)
(* and of compiler/kernel/op.go (dag.Join): a right join is a left join    *)
(* with the parents, keys and declared directions swapped.                 *)
(*                                                                         *)
(* Keys are tokens ordered by the comparator (numbers numerically across   *)
(* types, nulls max).  Rows whose key is missing are outside the claim     *)
(* (the operator drops them) and are not modelled.  Key equality of the    *)
(* reference nested-loop join is the comparator's equality, which is what  *)
(* the operator implements for ascending input (null joins null).          *)
(*                                                                         *)
(* How a side's order is declared:                                         *)
(*   "none"      undeclared, rows in arbitrary order                       *)
(*   "asc"/"desc"  `file f order k asc|desc`: the rows are in the order of *)
(*               a pool / merge with that direction (nulls max, so nulls   *)
(*               come FIRST for desc)                                      *)
(*   "sortasc"/"sortdesc"  the leg ends in `sort k` / `sort -r k`: rows in *)
(*               the sort operator's order (nulls LAST in both directions) *)
(***************************************************************************)
EXTENDS Integers, Sequences, FiniteSets, TLC, Json

CONSTANTS Toks,      \* key tokens used
          MaxL, MaxR,  \* up to MaxL left rows and MaxR right rows
          Kinds,     \* subset of {"inner","left","right","anti"}
          Decls,     \* subset of {"none","asc","desc","sortasc","sortdesc"}
          Emit

NONE == "NONE"
AllToks == {"I1", "U1", "F1", "I2", "I3", "S", "NI", "NS"}
ASSUME Toks \subseteq AllToks
ASSUME Kinds \subseteq {"inner", "left", "right", "anti"}
ASSUME Decls \subseteq {"none", "asc", "desc", "sortasc", "sortdesc"}

Rank(t) == CASE t \in {"I1", "U1", "F1"} -> 1
             [] t = "I2" -> 2
             [] t = "I3" -> 3
             [] t = "S"  -> 4
             [] t \in {"NI", "NS"} -> 6
Sgn(d) == IF d < 0 THEN -1 ELSE IF d > 0 THEN 1 ELSE 0
\* expr.NewValueCompareFn(o, true): operands swapped for desc, nulls max
Cmp(a, b, desc) == IF desc THEN Sgn(Rank(b) - Rank(a)) ELSE Sgn(Rank(a) - Rank(b))
\* sort.Op with nullsFirst = false: nulls last in both directions
SortOpRank(t, desc) == IF Rank(t) = 6 THEN 99 ELSE IF desc THEN 0 - Rank(t) ELSE Rank(t)
EQ(a, b) == Rank(a) = Rank(b)      \* key equality of the reference nested-loop join

RECURSIVE InsSortOp(_, _, _)
InsSortOp(s, x, desc) ==
  IF s = << >> THEN <<x>>
  ELSE IF SortOpRank(x.key, desc) < SortOpRank(Head(s).key, desc) THEN <<x>> \o s
  ELSE <<Head(s)>> \o InsSortOp(Tail(s), x, desc)
RECURSIVE SortOp(_, _)    \* stable
SortOp(s, desc) == IF s = << >> THEN << >> ELSE InsSortOp(SortOp(SubSeq(s, 1, Len(s) - 1), desc), s[Len(s)], desc)

DeclDir(d) == IF d \in {"asc", "sortasc"} THEN 1 ELSE IF d \in {"desc", "sortdesc"} THEN -1 ELSE 0
\* what the side delivers before join.New looks at it
Phys(rows, d) == IF d \in {"sortasc", "sortdesc"} THEN SortOp(rows, d = "sortdesc") ELSE rows

VARIABLES cs,       \* [kind, ld, rd, L, R]: L, R sequences of [key, id] as written in the files
          stage,    \* "build" | "done"
          ls, rs,   \* the streams the merge read (after the swap for a right join and the inserted sorts)
          desc,     \* the merge direction o
          out,      \* emitted records as <<left id or 0, right id or 0>> in terms of the ORIGINAL sides, in order
          taint

vars == <<cs, stage, ls, rs, desc, out, taint>>

Seeds == {[kind |-> k, ld |-> a, rd |-> b, L |-> << >>, R |-> << >>] : k \in Kinds, a \in Decls, b \in Decls}

Init ==
  /\ cs \in Seeds /\ stage = "build"
  /\ ls = << >> /\ rs = << >> /\ desc = FALSE /\ out = << >> /\ taint = {}

\* a file declared `order k asc|desc` must be in that (pool) order
Fits(rows, d, k) == d \in {"asc", "desc"} /\ rows # << >> => Cmp(rows[Len(rows)].key, k, d = "desc") <= 0

\* build the case row by row: left rows first, then right rows
AddL ==
  /\ stage = "build" /\ Len(cs.L) < MaxL /\ cs.R = << >>
  /\ \E k \in Toks : Fits(cs.L, cs.ld, k) /\ cs' = [cs EXCEPT !.L = Append(@, [key |-> k, id |-> Len(@) + 1])]
  /\ UNCHANGED <<stage, ls, rs, desc, out, taint>>
AddR ==
  /\ stage = "build" /\ Len(cs.R) < MaxR
  /\ \E k \in Toks : Fits(cs.R, cs.rd, k) /\ cs' = [cs EXCEPT !.R = Append(@, [key |-> k, id |-> Len(@) + 1])]
  /\ UNCHANGED <<stage, ls, rs, desc, out, taint>>

IsSortedFor(s, d) == \A i \in 1..(Len(s) - 1) : Cmp(s[i].key, s[i + 1].key, d) <= 0

\* getJoinSet's loop: first right position at or after i whose key is not below the left key
RECURSIVE Seek(_, _, _, _)
Seek(R, o, key, i) == IF i > Len(R) \/ Cmp(key, R[i].key, o) <= 0 THEN i ELSE Seek(R, o, key, i + 1)
\* readJoinSet: length of the run of right records equal to the key
RECURSIVE RunLen(_, _, _, _)
RunLen(R, o, key, i) == IF i > Len(R) \/ Cmp(R[i].key, key, o) # 0 THEN 0 ELSE 1 + RunLen(R, o, key, i + 1)

Pair(l, r) == IF cs.kind = "right" THEN <<r, l>> ELSE <<l, r>>

\* Op.Pull: the left records one at a time.  State of the operator: li, ri
\* (next left / right position), jk / js (Op.joinKey / Op.joinSet), o (emitted).
RECURSIVE Merge(_, _, _, _, _, _, _, _)
Merge(L, R, d, li, ri, jk, js, o) ==
  IF li > Len(L) THEN o
  ELSE LET l == L[li]
           inner == cs.kind = "inner"
           anti  == cs.kind = "anti"
           cached == jk # NONE /\ Cmp(l.key, jk, d) = 0                       \* getJoinSet: cached set
           i == IF cached THEN ri ELSE Seek(R, d, l.key, ri)
           found == ~cached /\ i <= Len(R) /\ Cmp(l.key, R[i].key, d) = 0
           n == IF found THEN RunLen(R, d, l.key, i) ELSE 0
           set == IF cached THEN js ELSE IF found THEN SubSeq(R, i, i + n - 1) ELSE << >>
           hit == cached \/ found
           o2 == IF ~hit THEN (IF inner THEN o ELSE Append(o, Pair(l.id, 0)))  \* outer: left record alone
                 ELSE IF anti THEN o
                 ELSE o \o [x \in 1..Len(set) |-> Pair(l.id, set[x].id)]
       IN Merge(L, R, d, li + 1, i + n, IF found THEN l.key ELSE jk, IF found THEN set ELSE js, o2)

Summary == [kind |-> cs.kind, ld |-> cs.ld, rd |-> cs.rd, L |-> [i \in 1..Len(cs.L) |-> cs.L[i].key], R |-> [i \in 1..Len(cs.R) |-> cs.R[i].key],
            out |-> out', desc |-> desc', taint |-> taint']

\* kernel (dag.Join) + join.New + Op.Pull to the end
Run ==
  /\ stage = "build"
  /\ LET swap == cs.kind = "right"
         lrows == IF swap THEN Phys(cs.R, cs.rd) ELSE Phys(cs.L, cs.ld)
         rrows == IF swap THEN Phys(cs.L, cs.ld) ELSE Phys(cs.R, cs.rd)
         ldir  == IF swap THEN DeclDir(cs.rd) ELSE DeclDir(cs.ld)
         rdir  == IF swap THEN DeclDir(cs.ld) ELSE DeclDir(cs.rd)
         o     == IF ldir # 0 THEN ldir < 0 ELSE IF rdir # 0 THEN rdir < 0 ELSE FALSE
         has(dir) == (dir = 1 /\ ~o) \/ (dir = -1 /\ o)                 \* Direction.HasOrder
         l2    == IF has(ldir) THEN lrows ELSE SortOp(lrows, o)         \* inserted sort
         r2    == IF has(rdir) THEN rrows ELSE SortOp(rrows, o)
     IN /\ ls' = l2 /\ rs' = r2 /\ desc' = o
        \* known defect: for o = desc the sort operator puts nulls last while
        \* compare expects them first, so a stream may not be ordered for the merge
        /\ taint' = IF IsSortedFor(l2, o) /\ IsSortedFor(r2, o) THEN {} ELSE {"descnulls"}
        /\ out' = Merge(l2, r2, o, 1, 1, NONE, << >>, << >>)
  /\ stage' = "done"
  /\ Emit => PrintT(ToJson(Summary))
  /\ UNCHANGED cs

Next == AddL \/ AddR \/ Run
Spec == Init /\ [][Next]_vars

\* ------------------------------------------------------- reference join
Matches(l) == {r \in 1..Len(cs.R) : EQ(cs.L[l].key, cs.R[r].key)}
InnerPairs == {<<l, r>> : l \in 1..Len(cs.L), r \in 1..Len(cs.R)} \cap {p \in (1..Len(cs.L)) \X (1..Len(cs.R)) : EQ(cs.L[p[1]].key, cs.R[p[2]].key)}
LeftOnly  == {<<l, 0>> : l \in {x \in 1..Len(cs.L) : Matches(x) = {}}}
RightOnly == {<<0, r>> : r \in {y \in 1..Len(cs.R) : \A l \in 1..Len(cs.L) : ~EQ(cs.L[l].key, cs.R[y].key)}}
NestedLoop == CASE cs.kind = "inner" -> InnerPairs
                [] cs.kind = "left"  -> InnerPairs \cup LeftOnly
                [] cs.kind = "right" -> InnerPairs \cup RightOnly
                [] cs.kind = "anti"  -> LeftOnly

OutSet == {out[i] : i \in 1..Len(out)}
\* nothing wrong, nothing twice, nothing missing
Sound == taint = {} /\ stage = "done" => OutSet \subseteq NestedLoop /\ Cardinality(OutSet) = Len(out)
Complete == taint = {} /\ stage = "done" => OutSet = NestedLoop
\* non-vacuity of the known-defect path: when it is taken the result really can differ

\* the only known way to break the merge: direction desc with a null key next to a non-null key
HasNull    == (\E i \in 1..Len(cs.L) : Rank(cs.L[i].key) = 6) \/ (\E i \in 1..Len(cs.R) : Rank(cs.R[i].key) = 6)
HasNonNull == (\E i \in 1..Len(cs.L) : Rank(cs.L[i].key) # 6) \/ (\E i \in 1..Len(cs.R) : Rank(cs.R[i].key) # 6)
TaintJustified == taint # {} => desc /\ HasNull /\ HasNonNull
=============================================================================
