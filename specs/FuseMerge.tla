----------------------------- MODULE FuseMerge -----------------------------
(***************************************************************************)
(* C20 -- fuse is uniform, order-preserving and lossless.                  *)
(*                                                                         *)
(* Part 1 (constant level): transcription, as pure functions over type     *)
(* terms, of                                                               *)
(*   runtime/sam/expr/agg/schema.go   merge, appendIfAbsent,               *)
(*                                    mergeAllRecords, Schema.Mixin        *)
(*   type.go / context.go             CompareTypes + LookupTypeUnion (the  *)
(*                                    canonical member order of a union)   *)
(*   runtime/sam/expr/shaper.go       ConstShaper.Eval, shaperType,        *)
(*                                    shaperFields, bestUnionTag, newStep, *)
(*                                    newRecordStep (Cast|Fill|Order, the  *)
(*                                    transform the Fuser uses)            *)
(* next to the intended properties WellFormed / Uniform / Lossless /       *)
(* Embeds / Idempotent.  TLC enumerates all singletons, ordered pairs and  *)
(* triples of distinct type terms of a small alphabet, checks the          *)
(* properties on every case that does not run through a named defect path  *)
(* (DESIGN 2.4: the defect paths set a taint), and exports every case with *)
(* the predicted fused type and the predicted type of each shaped input.   *)
(*                                                                         *)
(* Part 2 (behaviour level): the two-pass state machine of                 *)
(* runtime/sam/op/fuse/fuser.go (Write / stash / spill, then Read with the *)
(* shaper built from the final schema).  TLC checks that the output is one *)
(* value per input, in input order, shaped to the fuse of all input types, *)
(* for every memory limit, i.e. that spilling is invisible, and that the   *)
(* spill happens exactly where the closed form SpillIndex says; SpillIndex *)
(* is exported and compared with the real Fuser (hook fuse.Fuser.spill).   *)
(***************************************************************************)
EXTENDS Integers, Sequences, SequencesExt, FiniteSets, TLC, Json

CONSTANTS Level,       \* 1: depth-1 alphabet; 2: + reduced depth-2 alphabet; 3: + full depth-2 alphabet
          TripleLevel, \* 1: small triple alphabet; 2: large
          Shard, NShards, \* this TLC process handles the type cases with index % NShards = Shard;
                          \* Shard = NShards: no type cases, only Part 2 (Part 2 also runs when NShards = 1); MaxLen = 0: no Part 2
          Fixed,       \* subset of {"dup", "map", "unionhome"}: defect paths repaired in the tree under test (the
                       \* harness probes the real code): "dup" = merge returns a when a = b; "map" = maps are not
                       \* merged structurally (two different map types fuse to a union of both); "unionhome" = the
                       \* shaper shapes a record/array/set to the first union member it can be shaped to and tags it
          OutFile,     \* ndjson file for the type cases ("" = no export)
          SpillFile,   \* ndjson file for the spill cases ("" = no export)
          MaxLen,      \* state machine: max number of input values
          Mems,        \* state machine: set of memMaxBytes values
          Sizes        \* state machine: set of byte sizes of non-null values

Part2 == (Shard >= NShards \/ NShards = 1) /\ MaxLen > 0   \* this process checks the Fuser state machine and the side lemmas

\* ------------------------------------------------------------- type terms
P(p)         == [k |-> "prim", p |-> p]
NullT        == P("null")
I64          == P("int64")
Str          == P("string")
F64          == P("float64")
Fld(n, t)    == [n |-> n, t |-> t]
Rec(fs)      == [k |-> "rec", fs |-> fs]
Arr(e)       == [k |-> "arr", e |-> e]
SetT(e)      == [k |-> "set", e |-> e]
MapT(kt, vt) == [k |-> "map", kt |-> kt, vt |-> vt]
Named(n, t)  == [k |-> "named", n |-> n, t |-> t]
ERR          == [k |-> "ERR"]
ERRFS        == <<ERR>>            \* error marker of shaperFields (a field list)

RECURSIVE Under(_)
Under(t) == IF t.k = "named" THEN Under(t.t) ELSE t      \* zed.TypeUnder

Sign(d) == IF d < 0 THEN -1 ELSE IF d > 0 THEN 1 ELSE 0

\* zed.ID* of the primitives used here
PrimID(p) == CASE p = "uint8" -> 0 [] p = "int64" -> 9 [] p = "time" -> 13 [] p = "float64" -> 16 [] p = "bool" -> 23
               [] p = "string" -> 25 [] p = "ip" -> 26 [] p = "null" -> 29
\* zed.Kind
KindRank(k) == CASE k = "prim" -> 0 [] k = "rec" -> 1 [] k = "arr" -> 2 [] k = "set" -> 3 [] k = "map" -> 4 [] k = "union" -> 5
\* strings.Compare on the names used here ("M" < "N" < "R" < "a" < "b" < "c")
NameRank(n) == CASE n = "M" -> 1 [] n = "N" -> 2 [] n = "R" -> 3 [] n = "a" -> 4 [] n = "b" -> 5 [] n = "c" -> 6

\* zed.CompareTypes.  "aID == bID" holds exactly when the underlying types are
\* the same type (types are interned per context; a named type has the ID of
\* its underlying type).
RECURSIVE CmpT(_, _), CmpNames(_, _, _), CmpFieldTypes(_, _, _), CmpSeqT(_, _, _)
CmpT(a, b) ==
  LET au == Under(a)  bu == Under(b) IN
  IF au = bu THEN
       IF a.k = "named" THEN (IF b.k = "named" THEN Sign(NameRank(a.n) - NameRank(b.n)) ELSE 1)
       ELSE IF b.k = "named" THEN -1 ELSE 0
  ELSE IF KindRank(au.k) # KindRank(bu.k) THEN Sign(KindRank(au.k) - KindRank(bu.k))
  ELSE CASE au.k = "prim"  -> Sign(PrimID(au.p) - PrimID(bu.p))
         [] au.k = "rec"   -> IF Len(au.fs) # Len(bu.fs) THEN Sign(Len(au.fs) - Len(bu.fs))
                              ELSE LET c == CmpNames(au.fs, bu.fs, 1) IN
                                   IF c # 0 THEN c ELSE CmpFieldTypes(au.fs, bu.fs, 1)
         [] au.k \in {"arr", "set"} -> CmpT(au.e, bu.e)
         [] au.k = "map"   -> LET c == CmpT(au.kt, bu.kt) IN IF c # 0 THEN c ELSE CmpT(au.vt, bu.vt)
         [] au.k = "union" -> IF Len(au.ts) # Len(bu.ts) THEN Sign(Len(au.ts) - Len(bu.ts))
                              ELSE CmpSeqT(au.ts, bu.ts, 1)
CmpNames(f, g, i) == IF i > Len(f) THEN 0
                     ELSE LET c == Sign(NameRank(f[i].n) - NameRank(g[i].n)) IN
                          IF c # 0 THEN c ELSE CmpNames(f, g, i + 1)
CmpFieldTypes(f, g, i) == IF i > Len(f) THEN 0
                          ELSE LET c == CmpT(f[i].t, g[i].t) IN
                               IF c # 0 THEN c ELSE CmpFieldTypes(f, g, i + 1)
CmpSeqT(s, u, i) == IF i > Len(s) THEN 0
                    ELSE LET c == CmpT(s[i], u[i]) IN IF c # 0 THEN c ELSE CmpSeqT(s, u, i + 1)

\* sort.SliceStable by CompareTypes (Context.LookupTypeUnion)
RECURSIVE InsertT(_, _), SortT(_)
InsertT(s, x) == IF s = <<>> THEN <<x>>
                 ELSE IF CmpT(x, Head(s)) < 0 THEN <<x>> \o s
                 ELSE <<Head(s)>> \o InsertT(Tail(s), x)
SortT(s) == IF s = <<>> THEN <<>> ELSE InsertT(SortT(SubSeq(s, 1, Len(s) - 1)), s[Len(s)])
Uni(ts) == [k |-> "union", ts |-> SortT(ts)]

IsRecT(t) == Under(t).k = "rec"                          \* zed.IsRecordType
IndexOfField(fs, n) == IF \E i \in 1..Len(fs) : fs[i].n = n
                       THEN CHOOSE i \in 1..Len(fs) : fs[i].n = n ELSE 0
SeqHas(s, x) == \E i \in 1..Len(s) : s[i] = x
AppendIfAbsent(s, x) == IF SeqHas(s, x) THEN s ELSE Append(s, x)
RECURSIVE AppendAllIfAbsent(_, _, _)
AppendAllIfAbsent(s, u, i) == IF i > Len(u) THEN s ELSE AppendAllIfAbsent(AppendIfAbsent(s, u[i]), u, i + 1)

\* A result with a taint set (DESIGN 2.4): x names the defect paths taken.
R(t, x) == [t |-> t, x |-> x]

\* ------------------------------------------------- agg.merge (schema.go)
RECURSIVE MergeR(_, _), MergeFieldsR(_, _, _), MergeAllRecordsR(_, _, _, _)
MergeR(a, b) ==
  LET au == Under(a)  bu == Under(b) IN
  IF "dup" \in Fixed /\ a = b THEN R(a, {})
  ELSE IF au = NullT THEN R(b, {})
  ELSE IF bu = NullT THEN R(a, {})
  ELSE IF au.k = "rec" /\ bu.k = "rec" THEN
       LET m == MergeFieldsR(au.fs, bu.fs, 1) IN R(Rec(m.t), m.x)
  ELSE IF au.k = "arr" /\ bu.k \in {"arr", "set"} THEN
       LET m == MergeR(au.e, bu.e) IN R(Arr(m.t), m.x)
  ELSE IF au.k = "set" /\ bu.k = "arr" THEN
       LET m == MergeR(au.e, bu.e) IN R(Arr(m.t), m.x)
  ELSE IF au.k = "set" /\ bu.k = "set" THEN
       LET m == MergeR(au.e, bu.e) IN R(SetT(m.t), m.x)
  ELSE IF au.k = "map" /\ bu.k = "map" /\ "map" \notin Fixed THEN
       LET mk == MergeR(au.kt, bu.kt)  mv == MergeR(au.vt, bu.vt) IN R(MapT(mk.t, mv.t), mk.x \cup mv.x)
  ELSE IF au.k = "union" THEN
       LET types1 == IF bu.k = "union" THEN AppendAllIfAbsent(au.ts, bu.ts, 1) ELSE AppendIfAbsent(au.ts, b)
           m == MergeAllRecordsR(types1, 1, <<>>, 0)
       IN IF Len(m.t) = 1 THEN R(m.t[1], m.x) ELSE R(Uni(m.t), m.x)
  ELSE IF bu.k = "union" THEN MergeR(b, a)
  ELSE IF a = b THEN R(Uni(<<a, b>>), {"dup"})   \* F-C20-1 defect path: merge(t,t) for equal non-record types
  ELSE R(Uni(<<a, b>>), {})

\* the loop over b.Fields in the record case
MergeFieldsR(fields, bfs, i) ==
  IF i > Len(bfs) THEN R(fields, {})
  ELSE LET f == bfs[i]  j == IndexOfField(fields, f.n) IN
       IF j = 0 THEN MergeFieldsR(Append(fields, f), bfs, i + 1)
       ELSE IF fields[j] = f THEN MergeFieldsR(fields, bfs, i + 1)
       ELSE LET m == MergeR(fields[j].t, f.t)
                rest == MergeFieldsR([fields EXCEPT ![j] = Fld(f.n, m.t)], bfs, i + 1)
            IN R(rest.t, m.x \cup rest.x)

\* mergeAllRecords: all record members of a union are merged into the first one
MergeAllRecordsR(types, i, out, recIndex) ==
  IF i > Len(types) THEN R(out, {})
  ELSE LET t == types[i] IN
       IF IsRecT(t) /\ recIndex # 0 THEN
            LET m == MergeR(out[recIndex], t)
                rest == MergeAllRecordsR(types, i + 1, [out EXCEPT ![recIndex] = m.t], recIndex)
            IN R(rest.t, m.x \cup rest.x)
       ELSE MergeAllRecordsR(types, i + 1, Append(out, t), IF IsRecT(t) THEN Len(out) + 1 ELSE recIndex)

\* Schema.Mixin over the distinct input types in order of first appearance
\* (Fuser.Write and agg.fuse.Result both do exactly this).
RECURSIVE FuseFromR(_, _, _)
FuseFromR(acc, S, i) == IF i > Len(S) THEN acc
                        ELSE LET m == MergeR(acc.t, S[i]) IN FuseFromR(R(m.t, acc.x \cup m.x), S, i + 1)
FuseAllR(S) == FuseFromR(R(S[1], {}), S, 2)

\* Every value of type t has a home in f that keeps every leaf at its path with its primitive type.
RECURSIVE Embeds(_, _)
Embeds(t, f) ==
  LET tu == Under(t)  fu == Under(f) IN
  \/ tu = NullT
  \/ tu = fu
  \/ tu.k = "union" /\ \A i \in 1..Len(tu.ts) : Embeds(tu.ts[i], f)
  \/ fu.k = "union" /\ \E i \in 1..Len(fu.ts) : Embeds(t, fu.ts[i])
  \/ tu.k = "rec" /\ fu.k = "rec" /\ \A i \in 1..Len(tu.fs) :
        LET j == IndexOfField(fu.fs, tu.fs[i].n) IN j # 0 /\ Embeds(tu.fs[i].t, fu.fs[j].t)
  \/ tu.k = "arr" /\ fu.k = "arr" /\ Embeds(tu.e, fu.e)
  \/ tu.k = "set" /\ fu.k \in {"arr", "set"} /\ Embeds(tu.e, fu.e)
  \/ tu.k = "map" /\ fu.k = "map" /\ Embeds(tu.kt, fu.kt) /\ Embeds(tu.vt, fu.vt)

\* --------------------------------------------- expr.shaperType (shaper.go)
HasInner(u) == u.k \in {"arr", "set"}                     \* zed.InnerType(u) != nil
\* bestUnionTag(in, out) > -1
BestUnionTag(in, out) == LET ou == Under(out) IN
                         ou.k = "union" /\ \E i \in 1..Len(ou.ts) : Under(ou.ts[i]) = Under(in)
\* A non-union value type that has no exact home (same underlying type) in a union although one
\* of the members could house it after further shaping (a widened record or container):
\* F-C20-3 defect path -- merge widens a record/array/set/map that is (or later becomes) a union
\* member, castToUnion only knows exact members.  (Embeds is defined below.)
UnionHomeTaint(in, out) ==
  LET ou == Under(out) IN
  IF Under(in).k # "union" /\ ou.k = "union" /\ ~BestUnionTag(in, out) /\ \E i \in 1..Len(ou.ts) : Embeds(in, ou.ts[i])
  THEN {"unionhome"} ELSE {}

RECURSIVE ShaperTypeR(_, _), ShaperFieldsR(_, _, _, _), UnionMembersR(_, _, _, _), SortedByName(_)
RECURSIVE NewStepR(_, _), ShapeableTo(_, _)
\* shapeableUnionTag(in, out) > -1 (only in a tree with "unionhome" repaired), and the member it picks
Shapeable(in, out) == LET ou == Under(out) IN
  "unionhome" \in Fixed /\ ou.k = "union" /\ Under(in).k # "union" /\ \E i \in 1..Len(ou.ts) : ShapeableTo(in, ou.ts[i])
ShapeMember(in, out) == LET ou == Under(out)
                            i == CHOOSE i \in 1..Len(ou.ts) : ShapeableTo(in, ou.ts[i]) /\ \A j \in 1..(i - 1) : ~ShapeableTo(in, ou.ts[j])
                        IN ou.ts[i]
ShaperTypeR(in, out) ==
  LET iu == Under(in)  ou == Under(out) IN
  IF iu = ou \/ iu = NullT THEN R(out, {})
  ELSE IF ou.k = "map" THEN R(ERR, {"map"})              \* F-C20-2 defect path: "cannot yet use maps in shaping functions"
  ELSE IF iu.k = "prim" /\ ou.k = "prim" THEN R(out, {}) \* primitive cast (never arises from merge)
  ELSE IF iu.k = "union" THEN UnionMembersR(iu.ts, out, 1, R(out, {}))
  ELSE IF BestUnionTag(in, ou) THEN R(out, {})
  ELSE IF Shapeable(in, out) THEN R(out, {})
  ELSE IF iu.k = "rec" /\ ou.k = "rec" THEN
       LET fr == ShaperFieldsR(iu.fs, ou.fs, 1, R(<<>>, {})) IN
       IF fr.t = ERRFS THEN R(ERR, fr.x)
       ELSE LET extra == SortedByName(SelectSeq(iu.fs, LAMBDA f : IndexOfField(ou.fs, f.n) = 0))
                fields == fr.t \o extra
            IN IF fields = ou.fs THEN R(out, fr.x) ELSE R(Rec(fields), fr.x)
  ELSE IF HasInner(iu) /\ HasInner(ou) THEN
       LET r == ShaperTypeR(iu.e, ou.e) IN
       IF r.t = ERR THEN r
       ELSE IF r.t = ou.e THEN R(out, r.x)
       ELSE IF ou.k = "arr" THEN R(Arr(r.t), r.x) ELSE R(SetT(r.t), r.x)
  ELSE R(in, UnionHomeTaint(in, out))                     \* `return in, nil`: the value is left as it is

\* union input: every member must shape without error; what the members shape to is ignored, the result is out
UnionMembersR(ts, out, i, acc) ==
  IF i > Len(ts) THEN acc
  ELSE LET r == ShaperTypeR(ts[i], out) IN
       IF r.t = ERR THEN R(ERR, acc.x \cup r.x) ELSE UnionMembersR(ts, out, i + 1, acc)

\* shaperFields with Cast|Fill|Order: out's fields in out's order (shaped if present in in, else filled)
ShaperFieldsR(ifs, ofs, i, acc) ==
  IF i > Len(ofs) THEN acc
  ELSE LET of == ofs[i]  j == IndexOfField(ifs, of.n) IN
       IF j = 0 THEN ShaperFieldsR(ifs, ofs, i + 1, R(Append(acc.t, of), acc.x))
       ELSE LET r == ShaperTypeR(ifs[j].t, of.t) IN
            IF r.t = ERR THEN R(ERRFS, acc.x \cup r.x)
            ELSE ShaperFieldsR(ifs, ofs, i + 1, R(Append(acc.t, Fld(of.n, r.t)), acc.x \cup r.x))
\* fields of in unknown to out are appended in lexicographic order
SortedByName(fs) == IF Len(fs) <= 1 THEN fs
                    ELSE LET m == CHOOSE i \in 1..Len(fs) : \A j \in 1..Len(fs) : NameRank(fs[i].n) <= NameRank(fs[j].n)
                         IN <<fs[m]>> \o SortedByName(SubSeq(fs, 1, m - 1) \o SubSeq(fs, m + 1, Len(fs)))

\* ---------------------------------------------------- expr.newStep (shaper.go)
OKR(x)   == [ok |-> TRUE, x |-> x]
FAILR(x) == [ok |-> FALSE, x |-> x]
RECURSIVE RecordStepR(_, _, _, _), UnionStepR(_, _, _, _)
TagStepR(in, out, x) == IF BestUnionTag(in, out) \/ Shapeable(in, out) THEN OKR(x) ELSE FAILR(x \cup UnionHomeTaint(in, out))
NewStepR(in, out) ==
  LET iu == Under(in)  ou == Under(out) IN
  IF iu = NullT THEN OKR({})                                  \* null step
  ELSE IF iu = ou THEN OKR({})                                \* copyOp
  ELSE IF iu.k = "rec" /\ ou.k = "rec" THEN RecordStepR(iu.fs, ou.fs, 1, {})
  ELSE IF iu.k = "prim" /\ ou.k = "prim" THEN OKR({})         \* castPrimitive
  ELSE IF HasInner(iu) THEN
       IF HasInner(ou) THEN NewStepR(iu.e, ou.e) ELSE TagStepR(in, out, {})
  ELSE IF iu.k = "union" THEN
       LET r == UnionStepR(iu.ts, out, 1, {}) IN
       IF r.ok THEN r                                         \* castFromUnion
       ELSE IF BestUnionTag(in, out) THEN OKR({})             \* break Switch: the union as a whole is a member of out
       ELSE FAILR(r.x \cup UnionHomeTaint(in, out))
  ELSE TagStepR(in, out, {})
\* newRecordStep: one child per out field; in fields unknown to out are dropped
RecordStepR(ifs, ofs, i, x) ==
  IF i > Len(ofs) THEN OKR(x)
  ELSE LET j == IndexOfField(ifs, ofs[i].n) IN
       IF j = 0 THEN RecordStepR(ifs, ofs, i + 1, x)
       ELSE LET r == NewStepR(ifs[j].t, ofs[i].t) IN
            IF r.ok THEN RecordStepR(ifs, ofs, i + 1, x \cup r.x) ELSE FAILR(x \cup r.x)
UnionStepR(ts, out, i, x) ==
  IF i > Len(ts) THEN OKR(x)
  ELSE LET r == NewStepR(ts[i], out) IN
       IF r.ok THEN UnionStepR(ts, out, i + 1, x \cup r.x) ELSE FAILR(x \cup r.x)

\* one member t of a union can take a value of type in after shaping (shapeableUnionTag's loop body)
ShapeableTo(in, t) ==
  LET iu == Under(in)  tu == Under(t) IN
  /\ (iu.k = "rec" /\ tu.k = "rec") \/ (HasInner(iu) /\ HasInner(tu) /\ (tu.k = "arr" \/ iu.k # "arr"))
  /\ ShaperTypeR(in, t).t = t
  /\ NewStepR(in, t).ok

\* ConstShaper.Eval on a non-null, non-error value of type in, shaping to out:
\* the type of the result (ERR = an error value replaces the input value).
\* With the types merge produces, step.build returns step.toType, so the result
\* type does not depend on the value.
EvalR(in, out) ==
  IF Under(in) = Under(out) THEN R(out, {})                   \* id == shapeToID
  ELSE LET st == ShaperTypeR(in, out) IN
       IF st.t = ERR THEN st
       ELSE LET ns == NewStepR(in, st.t) IN
            IF ns.ok THEN R(st.t, st.x \cup ns.x) ELSE R(ERR, st.x \cup ns.x)

\* ------------------------------------------------------ intended properties
\* A type of the Zed data model (docs/formats/zed.md 2.5): a union has two or more unique types.
RECURSIVE WellFormed(_)
WellFormed(t) ==
  CASE t.k = "prim"  -> TRUE
    [] t.k = "named" -> WellFormed(t.t)
    [] t.k = "rec"   -> \A i \in 1..Len(t.fs) : WellFormed(t.fs[i].t)
    [] t.k \in {"arr", "set"} -> WellFormed(t.e)
    [] t.k = "map"   -> WellFormed(t.kt) /\ WellFormed(t.vt)
    [] t.k = "union" -> /\ Len(t.ts) >= 2
                        /\ \A i, j \in 1..Len(t.ts) : i # j => t.ts[i] # t.ts[j]
                        /\ \A i \in 1..Len(t.ts) : WellFormed(t.ts[i])

\* The steps newStep builds from in to typ lose nothing.
RECURSIVE StepLossless(_, _)
StepLossless(in, typ) ==
  LET iu == Under(in)  ou == Under(typ) IN
  \/ iu = NullT
  \/ iu = ou
  \/ iu.k = "rec" /\ ou.k = "rec" /\ \A i \in 1..Len(iu.fs) :
        LET j == IndexOfField(ou.fs, iu.fs[i].n) IN j # 0 /\ StepLossless(iu.fs[i].t, ou.fs[j].t)
  \/ iu.k = "arr" /\ ou.k = "arr" /\ StepLossless(iu.e, ou.e)
  \/ iu.k = "set" /\ HasInner(ou) /\ StepLossless(iu.e, ou.e)
  \/ iu.k = "union" /\ \A i \in 1..Len(iu.ts) : StepLossless(iu.ts[i], typ)
  \/ BestUnionTag(in, typ)
  \/ Shapeable(in, typ) /\ StepLossless(in, ShapeMember(in, typ))

\* Record field order is the only thing merge(a,b) and merge(b,a) may differ in.
RECURSIVE NormFields(_)
NormFields(t) ==
  CASE t.k = "prim"  -> t
    [] t.k = "named" -> Named(t.n, NormFields(t.t))
    [] t.k = "rec"   -> Rec(SortedByName([i \in 1..Len(t.fs) |-> Fld(t.fs[i].n, NormFields(t.fs[i].t))]))
    [] t.k = "arr"   -> Arr(NormFields(t.e))
    [] t.k = "set"   -> SetT(NormFields(t.e))
    [] t.k = "map"   -> MapT(NormFields(t.kt), NormFields(t.vt))
    [] t.k = "union" -> Uni([i \in 1..Len(t.ts) |-> NormFields(t.ts[i])])

\* ------------------------------------------------------------- alphabet
Prims == {I64, Str}
L0 == Prims \cup {NullT}
RecsOver(S) == {Rec(<<>>)}
               \cup {Rec(<<Fld("a", t)>>) : t \in S} \cup {Rec(<<Fld("b", t)>>) : t \in S}
               \cup {Rec(<<Fld("a", t), Fld("b", u)>>) : t \in S, u \in S}
               \cup {Rec(<<Fld("b", u), Fld("a", t)>>) : t \in S, u \in S}
L1 == L0 \cup RecsOver(L0)
      \cup {Arr(t) : t \in L0} \cup {SetT(t) : t \in L0}
      \cup {MapT(kt, vt) : kt \in Prims, vt \in L0}
      \cup {Uni(<<I64, Str>>), Named("N", I64), Named("M", Str)}

RA == Rec(<<Fld("a", I64)>>)
RB == Rec(<<Fld("b", I64)>>)
RAs == Rec(<<Fld("a", Str)>>)
\* inner terms of the depth-2 alphabet: reduced (Level 2) and full (Level 3)
I2small == {RA, RB, Arr(I64), SetT(I64), Uni(<<I64, Str>>), Named("N", I64), MapT(I64, I64)}
I2full  == I2small \cup {RAs, Rec(<<>>), Rec(<<Fld("a", I64), Fld("b", Str)>>), Arr(Str), SetT(Str), MapT(Str, I64), Named("R", RA), F64}
I2 == IF Level >= 3 THEN I2full ELSE I2small
NonUnion(S) == {t \in S : t.k # "union"}
L2 == {Rec(<<Fld("a", t)>>) : t \in I2}
      \cup (IF Level >= 3 THEN {Rec(<<Fld("a", t), Fld("b", I64)>>) : t \in I2} ELSE {})
      \cup {Arr(t) : t \in I2}
      \cup {SetT(t) : t \in IF Level >= 3 THEN I2 ELSE {RA, Arr(I64), SetT(I64)}}
      \cup ({Uni(<<t, u>>) : t \in NonUnion(I2) \cup Prims,
                             u \in IF Level >= 3 THEN NonUnion(I2) \cup {Str} ELSE {Str, RB}}
            \ {Uni(<<t, t>>) : t \in I2 \cup L0})
      \cup {Named("R", RA), MapT(I64, RA), MapT(Str, Arr(I64)), F64}
Terms == IF Level >= 2 THEN L1 \cup L2 ELSE L1

T3small == {I64, Str, NullT, RA, RB, RAs, Arr(I64), SetT(I64), Arr(Str), Uni(<<I64, Str>>), Named("N", I64), MapT(I64, I64)}
T3large == T3small \cup {Rec(<<>>), Rec(<<Fld("a", I64), Fld("b", Str)>>), Rec(<<Fld("b", Str), Fld("a", I64)>>), Rec(<<Fld("a", RA)>>),
                         Rec(<<Fld("a", Arr(I64))>>), Rec(<<Fld("a", SetT(I64))>>), Rec(<<Fld("a", Arr(Str))>>),
                         Arr(RA), Arr(RB), SetT(Str), MapT(Str, I64), Uni(<<I64, RA>>), Uni(<<Str, RB>>),
                         Named("R", RA), Arr(NullT), Rec(<<Fld("a", NullT)>>), F64, Rec(<<Fld("a", Uni(<<I64, Str>>))>>),
                         \* depth 3
                         Rec(<<Fld("a", Arr(RA))>>), Rec(<<Fld("a", Arr(RB))>>), Rec(<<Fld("a", Uni(<<I64, RA>>))>>),
                         Arr(Arr(I64)), Arr(SetT(I64)), Arr(Arr(Str))}
T3 == IF TripleLevel >= 2 THEN T3large ELSE T3small

\* A case is the sequence of distinct input types in order of first appearance.
CaseSeqs == {<<a>> : a \in Terms}
            \cup ({<<a, b>> : a \in Terms, b \in Terms} \ {<<a, a>> : a \in Terms})
            \cup {s \in {<<a, b, c>> : a \in T3, b \in T3, c \in T3} : s[1] # s[2] /\ s[1] # s[3] /\ s[2] # s[3]}
\* ------------------------------------------------------ per-case prediction
\* ConstShaper.shapers is keyed by the type ID, which a named type shares with its underlying type:
\* a value is shaped by the shaper built for the first value with the same underlying type.
FirstSameUnder(S, i) == CHOOSE j \in 1..i : Under(S[j]) = Under(S[i]) /\ \A h \in 1..(j - 1) : Under(S[h]) # Under(S[i])
Case(S) ==
  LET f == FuseAllR(S)
      outs == [i \in 1..Len(S) |-> EvalR(S[FirstSameUnder(S, i)], f.t)]
      taint == f.x \cup UNION {outs[i].x : i \in 1..Len(S)}
  IN [ins      |-> S,
      fused    |-> f.t,
      outs     |-> [i \in 1..Len(S) |-> outs[i].t],
      taint    |-> SetToSeq(taint),
      wf       |-> WellFormed(f.t),
      uniform  |-> \A i \in 1..Len(S) : outs[i].t = f.t,
      lossless |-> \A i \in 1..Len(S) : outs[i].t # ERR /\ StepLossless(S[i], outs[i].t),
      embeds   |-> \A i \in 1..Len(S) : Embeds(S[i], f.t)]

\* The table is evaluated once (TLCEval) and handed to the checks as a value.
Predictions == LET cs  == SetToSeq(CaseSeqs)
                   idx == SetToSeq({j \in 1..Len(cs) : j % NShards = Shard})
               IN TLCEval([i \in 1..Len(idx) |-> Case(cs[idx[i]])])

\* The property holds on the transcription wherever no named defect path was taken,
\* and the result of merge can house every input whatever the shaper does.
CaseHolds(c) == /\ c.embeds
                /\ c.taint = <<>> => c.wf /\ c.uniform /\ c.lossless
\* The defect paths are real: each taint goes with the failure it stands for.
TaintPrecise(c) == /\ SeqHas(c.taint, "dup") => ~c.wf
                   /\ SeqHas(c.taint, "map") => ~c.lossless
                   /\ SeqHas(c.taint, "unionhome") => ~c.uniform \/ ~c.lossless
AllHold(Pr) == \A i \in 1..Len(Pr) : CaseHolds(Pr[i]) /\ TaintPrecise(Pr[i])

\* Non-vacuity: untainted cases really exercise union casting, filling and container merging.
NonVacuous(Pr) == IF Shard >= NShards THEN TRUE ELSE
  /\ \E i \in 1..Len(Pr) : Pr[i].taint = <<>> /\ Pr[i].fused.k = "union"
  /\ \E i \in 1..Len(Pr) : Pr[i].taint = <<>> /\ Pr[i].fused.k = "rec"
                             /\ Len(Pr[i].fused.fs) = 2 /\ Pr[i].ins[1].k = "rec" /\ Len(Pr[i].ins[1].fs) = 1
  /\ \E i \in 1..Len(Pr) : Pr[i].taint = <<>> /\ Pr[i].fused.k = "arr" /\ Pr[i].ins[1].k = "set"
  /\ Fixed # {} \/ \E i \in 1..Len(Pr) : Pr[i].taint # <<>>      \* the defect paths are reached (unless repaired)
  /\ Len(Pr) * NShards >= Cardinality(CaseSeqs) - NShards

ExportCases(Pr) == OutFile = "" \/ ndJsonSerialize(OutFile, Pr)

CheckCases(Pr) == /\ AllHold(Pr) \/ (PrintT("AllHold fails") /\ FALSE)
                  /\ NonVacuous(Pr) \/ (PrintT("NonVacuous fails") /\ FALSE)
                  /\ ExportCases(Pr)
ASSUME CheckCases(Predictions)

\* merge is commutative up to record field order (not needed by the property; documents the transcription)
\* (TLC evaluates every constant definition at startup, so the shard guard is inside the definitions.)
CommSet == T3small \cup {Rec(<<Fld("a", I64), Fld("b", Str)>>), Rec(<<Fld("b", Str), Fld("a", I64)>>), MapT(Str, I64), Uni(<<I64, RA>>)}
Commutes == ~Part2 \/ \A a \in CommSet, b \in CommSet : NormFields(MergeR(a, b).t) = NormFields(MergeR(b, a).t)
\* merge(t,t) = t (up to names and field order) off the defect path, except that a union with several
\* record members collapses them by design (mergeAllRecords); on the defect path the result is ill-formed.
RECURSIVE MultiRecUnion(_)
MultiRecUnion(t) ==
  CASE t.k = "prim"  -> FALSE
    [] t.k = "named" -> MultiRecUnion(t.t)
    [] t.k = "rec"   -> \E i \in 1..Len(t.fs) : MultiRecUnion(t.fs[i].t)
    [] t.k \in {"arr", "set"} -> MultiRecUnion(t.e)
    [] t.k = "map"   -> MultiRecUnion(t.kt) \/ MultiRecUnion(t.vt)
    [] t.k = "union" -> \/ Cardinality({i \in 1..Len(t.ts) : IsRecT(t.ts[i])}) >= 2
                        \/ \E i \in 1..Len(t.ts) : MultiRecUnion(t.ts[i])
\* names are dropped when named records are merged: compare modulo names
RECURSIVE StripNames(_)
StripNames(t) ==
  CASE t.k = "prim"  -> t
    [] t.k = "named" -> StripNames(t.t)
    [] t.k = "rec"   -> Rec([i \in 1..Len(t.fs) |-> Fld(t.fs[i].n, StripNames(t.fs[i].t))])
    [] t.k = "arr"   -> Arr(StripNames(t.e))
    [] t.k = "set"   -> SetT(StripNames(t.e))
    [] t.k = "map"   -> MapT(StripNames(t.kt), StripNames(t.vt))
    [] t.k = "union" -> Uni([i \in 1..Len(t.ts) |-> StripNames(t.ts[i])])
Idempotent == ~Part2 \/ \A t \in Terms : LET m == MergeR(t, t) IN
                 IF m.x # {} THEN ~WellFormed(m.t)
                 ELSE /\ Embeds(t, m.t)
                      /\ MultiRecUnion(t) \/ NormFields(StripNames(m.t)) = NormFields(StripNames(t))

ASSUME Commutes /\ Idempotent

\* =================================================== Part 2: fuse.Fuser
\* Values: [t: type term, sz: len(rec.Bytes()), null: the value is null]
FTypes == {RA, RAs, RB, Rec(<<Fld("b", Str), Fld("a", I64)>>)}
Vals == [t : FTypes, sz : Sizes, null : {FALSE}] \cup [t : {NullT, RA}, sz : {0}, null : {TRUE}]
RECURSIVE SeqsUpTo(_)
SeqsUpTo(n) == IF n = 0 THEN {<<>>} ELSE LET S == SeqsUpTo(n - 1) IN S \cup {Append(s, v) : s \in {q \in S : Len(q) = n - 1}, v \in Vals}
Inputs == SeqsUpTo(MaxLen)

\* distinct types in order of first appearance
RECURSIVE DistinctTypes(_, _, _)
DistinctTypes(in, i, acc) == IF i > Len(in) THEN acc
                             ELSE DistinctTypes(in, i + 1, AppendIfAbsent(acc, in[i].t))
FusedOf(in) == FuseAllR(DistinctTypes(in, 1, <<>>)).t
\* ConstShaper.Eval on a value: null values take the target type
EvalV(v, f) == IF v.null THEN f ELSE EvalR(v.t, f).t
Expected(in) == IF in = <<>> THEN <<>> ELSE LET f == FusedOf(in) IN [i \in 1..Len(in) |-> [idx |-> i, typ |-> EvalV(in[i], f)]]
\* closed form: the index of the Write that creates the spill file (0 = never)
RECURSIVE SpillFrom(_, _, _, _)
SpillFrom(in, mem, i, nbytes) == IF i > Len(in) THEN 0
                                 ELSE IF nbytes + in[i].sz >= mem THEN i ELSE SpillFrom(in, mem, i + 1, nbytes + in[i].sz)
SpillIndex(in, mem) == SpillFrom(in, mem, 1, 0)

NONE == [k |-> "none"]
VARIABLES input, mem,      \* chosen initially
          pc,              \* "write" | "read" | "done"
          wi,              \* index of the next input value to Write
          vals,            \* Fuser.vals (indices of buffered values)
          file,            \* contents of the spill file (indices), in file order
          spilled,         \* Fuser.spiller != nil
          nbytes,          \* Fuser.nbytes
          seen,            \* Fuser.types
          schema,          \* Fuser.uberSchema.typ
          rp,              \* read position in the spill file after Rewind
          out,             \* values returned by Read
          spillAt          \* index of the Write during which the hook fuse.Fuser.spill fired
vars == <<input, mem, pc, wi, vals, file, spilled, nbytes, seen, schema, rp, out, spillAt>>

Init == /\ input \in Inputs /\ mem \in Mems
        /\ pc = "write" /\ wi = 1 /\ vals = <<>> /\ file = <<>> /\ spilled = FALSE /\ nbytes = 0
        /\ seen = {} /\ schema = NONE /\ rp = 1 /\ out = <<>> /\ spillAt = 0

\* Fuser.Write (+ stash)
Write == /\ pc = "write" /\ wi <= Len(input)
         /\ LET rec == input[wi] IN
            /\ IF rec.t \in seen THEN UNCHANGED <<seen, schema>>
               ELSE /\ seen' = seen \cup {rec.t}
                    /\ schema' = IF schema = NONE THEN rec.t ELSE MergeR(schema, rec.t).t      \* Schema.Mixin
            /\ IF spilled THEN /\ file' = Append(file, wi)
                               /\ UNCHANGED <<vals, nbytes, spilled, spillAt>>
               ELSE /\ nbytes' = nbytes + rec.sz
                    /\ IF nbytes + rec.sz >= mem
                       THEN /\ spilled' = TRUE /\ spillAt' = wi                                 \* spill.NewTempFile; hook
                            /\ file' = vals \o <<wi>> /\ vals' = <<>>
                       ELSE /\ vals' = Append(vals, wi)
                            /\ UNCHANGED <<file, spilled, spillAt>>
         /\ wi' = wi + 1
         /\ UNCHANGED <<input, mem, pc, rp, out>>

\* the operator stops writing (fuse.Op.pullInput saw EOS) and starts reading
StartRead == /\ pc = "write" /\ wi > Len(input)
             /\ pc' = "read" /\ rp' = 1                                                         \* spiller.Rewind
             /\ UNCHANGED <<input, mem, wi, vals, file, spilled, nbytes, seen, schema, out, spillAt>>

\* Fuser.Read (+ next): the shaper is built from the final schema
Read == /\ pc = "read"
        /\ IF spilled
           THEN IF rp <= Len(file)
                THEN /\ out' = Append(out, [idx |-> file[rp], typ |-> EvalV(input[file[rp]], schema)])
                     /\ rp' = rp + 1 /\ UNCHANGED <<vals, pc>>
                ELSE pc' = "done" /\ UNCHANGED <<out, rp, vals>>
           ELSE IF vals # <<>>
                THEN /\ out' = Append(out, [idx |-> Head(vals), typ |-> EvalV(input[Head(vals)], schema)])
                     /\ vals' = Tail(vals) /\ UNCHANGED <<rp, pc>>
                ELSE pc' = "done" /\ UNCHANGED <<out, rp, vals>>
        /\ UNCHANGED <<input, mem, wi, file, spilled, nbytes, seen, schema, spillAt>>

Next == Write \/ StartRead \/ Read
Spec == Init /\ [][Next]_vars

\* ---- invariants
\* while writing, everything written so far is buffered exactly once, in input order,
\* either in memory or in the file
BufferInv == pc = "write" => /\ (IF spilled THEN vals = <<>> ELSE file = <<>>)
                              /\ vals \o file = [i \in 1..(wi - 1) |-> i]
SchemaInv == wi > 1 => schema = FusedOf(SubSeq(input, 1, wi - 1))
\* one output per input, in input order, all shaped to the fuse of all inputs, whatever mem is
DoneInv == pc = "done" => /\ out = Expected(input)
                          /\ spillAt = SpillIndex(input, mem)
                          /\ \A i \in 1..Len(out) : out[i].typ = schema
SpillNonVacuous == IF ~Part2 \/ MaxLen < 2 THEN TRUE ELSE
                   /\ \E in \in Inputs, m \in Mems : SpillIndex(in, m) = 0 /\ Len(in) >= 2
                   /\ \E in \in Inputs, m \in Mems : SpillIndex(in, m) = 1 /\ Len(in) >= 2
                   /\ \E in \in Inputs, m \in Mems : SpillIndex(in, m) >= 2
                   /\ \E in \in Inputs : Len(in) >= 2 /\ FusedOf(in).k = "rec" /\ Len(FusedOf(in).fs) = 2
ASSUME SpillNonVacuous

SpillCase(in, m) == LET ex == Expected(in) IN
                    [input |-> in, mem |-> m, spillAt |-> SpillIndex(in, m), fused |-> FusedOf(in),
                     outs |-> [i \in 1..Len(in) |-> ex[i].typ]]
SpillCases == IF ~Part2 THEN {} ELSE {SpillCase(in, m) : in \in {q \in Inputs : Len(q) >= 1}, m \in Mems}
ASSUME ~Part2 \/ SpillFile = "" \/ ndJsonSerialize(SpillFile, SetToSeq(SpillCases))
=============================================================================
