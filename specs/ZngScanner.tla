----------------------------- MODULE ZngScanner -----------------------------
(***************************************************************************)
(* C01 -- ZNG round trip: the goroutine/channel protocol of the threaded   *)
(* reader, transcribed from zio/zngio/scanner.go.                          *)
(*                                                                         *)
(*   parser goroutine (scanner.start): reads frames in stream order; for a *)
(*     values frame it takes a free worker from workerCh, creates the      *)
(*     frame's resultCh (cap 1), queues it on resultChCh (cap Threads+1)   *)
(*     BEFORE handing the work (local context, frame) to the worker; at    *)
(*     end of input / error it queues a control result and exits, closing  *)
(*     resultChCh; it also exits whenever the context is cancelled.        *)
(*   worker goroutines (worker.run): decode the frame with the local       *)
(*     context they were handed and send the batch on the frame's resultCh *)
(*     (never blocks), then close it.                                      *)
(*   consumer (scanner.Pull): takes the next resultCh from resultChCh,     *)
(*     then waits for its result; Pull(true) cancels and drains            *)
(*     resultChCh until the parser has closed it.                          *)
(*                                                                         *)
(* workerCh is not modelled as a queue: a worker is available iff it is    *)
(* not busy (the order in which idle workers are picked is irrelevant).    *)
(* Frames are 1..par.nframes; Epoch(f) is the stream (local type context)  *)
(* the frame belongs to; par.err (0 = none) is a frame whose decoding fails.*)
(*                                                                         *)
(* TLC explores every interleaving and checks in-order, complete delivery, *)
(* that each worker decodes with the context of its frame's stream, the    *)
(* channel bounds, absence of deadlock, and that Pull(true) returns only   *)
(* after the parser goroutine has exited.  The complete behaviours yield   *)
(* the worker completion orders (doneOrder) that the harness forces on the *)
(* real scanner through the zngio.worker.done hook.                        *)
(***************************************************************************)
EXTENDS Integers, Sequences, FiniteSets, TLC, Json

CONSTANTS ParamSet,     \* the parameter records explored by the design check (QuickParams / ThoroughParams)
          AllowCancel,  \* the consumer may call Pull(true) at any time
          Emit          \* print an ORDER line for each complete behaviour

\* A parameter record:
\*   nframes  values frames in the input
\*   threads  ReaderOpts.Threads (>= 2: the threaded scanner)
\*   qcap     capacity of resultChCh: threads + 1 (+ 1 in recorded traces, see ZngScannerTrace)
\*   eos      set of frames followed by an end-of-stream marker
\*   err      frame whose decoding fails (0 = none)
P(n, t, eos, err) == [nframes |-> n, threads |-> t, qcap |-> t + 1, eos |-> eos, err |-> err]
QuickParams    == {P(5, 3, {2}, 0), P(4, 2, {1, 3}, 0), P(4, 2, {2}, 3)}
ThoroughParams == QuickParams \cup {P(6, 3, {1, 4}, 0), P(6, 4, {3}, 0), P(5, 3, {2}, 1), P(5, 3, {3}, 5)}

\* The parameters are kept in a variable so that ZngScannerTrace can replay
\* recorded executions with different parameters in one TLC run; the design
\* check initialises it from the constants and never changes it.
VARIABLE par   \* [nframes, threads, qcap, eos, err]
Workers == 1..par.threads
Frames  == 1..par.nframes
Epoch(f) == 1 + Cardinality({e \in par.eos : e < f})

VARIABLES next,        \* next frame the parser will read
          pepoch,      \* parser's current local context (Decoder.local), as a stream number
          parserExit,  \* the parser goroutine has returned (resultChCh closed)
          busy,        \* [Workers -> 0..NFrames]: frame the worker is decoding (0 = idle)
          handed,      \* [Frames -> Nat]: local context handed over with the work (0 = not dispatched)
          queue,       \* resultChCh: frames in queue order, 0 = the control/EOF result
          res,         \* [Frames -> {"none", "full", "taken"}]: the frame's resultCh
          cwait,       \* channel the consumer has taken and is waiting on (-1 = none, 0 = control)
          cstate,      \* "run" | "done" (EOF or error returned) | "cancel" (draining) | "closed"
          cancelled,   \* the scanner's context is cancelled
          delivered,   \* frames whose batches Pull has returned, in order
          doneOrder    \* history: order in which workers completed frames

vars == <<par, next, pepoch, parserExit, busy, handed, queue, res, cwait, cstate, cancelled, delivered, doneOrder>>

Start(p) ==
  /\ par = p
  /\ next = 1 /\ pepoch = 1 /\ parserExit = FALSE
  /\ busy = [w \in Workers |-> 0]
  /\ handed = [f \in Frames |-> 0]
  /\ queue = <<>>
  /\ res = [f \in Frames |-> "none"]
  /\ cwait = -1 /\ cstate = "run" /\ cancelled = FALSE
  /\ delivered = <<>> /\ doneOrder = <<>>
Init == \E p \in ParamSet : Start(p)

\* ----------------------------------------------------------------- parser
\* s.parser.read() returned values frame `next` (EOS markers before it have
\* reset the local context); `worker := <-s.workerCh`; `s.resultChCh <-
\* w.resultCh`; `worker.workCh <- w` with local = s.parser.types.local.
Dispatch(w) ==
  /\ ~parserExit /\ ~cancelled
  /\ next <= par.nframes
  /\ busy[w] = 0
  /\ Len(queue) < par.qcap
  /\ pepoch' = Epoch(next)
  /\ queue' = Append(queue, next)
  /\ busy' = [busy EXCEPT ![w] = next]
  /\ handed' = [handed EXCEPT ![next] = Epoch(next)]
  /\ next' = next + 1
  /\ UNCHANGED <<par, parserExit, res, cwait, cstate, cancelled, delivered, doneOrder>>

\* io.EOF (or a framing error): sendControl queues the result, the goroutine
\* returns and the deferred close(resultChCh) runs.
ParserEOF ==
  /\ ~parserExit /\ ~cancelled
  /\ next = par.nframes + 1
  /\ Len(queue) < par.qcap
  /\ queue' = Append(queue, 0)
  /\ parserExit' = TRUE
  /\ UNCHANGED <<par, next, pepoch, busy, handed, res, cwait, cstate, cancelled, delivered, doneOrder>>

\* Every blocking point of the parser also selects on ctx.Done().
ParserCancelled ==
  /\ ~parserExit /\ cancelled
  /\ parserExit' = TRUE
  /\ UNCHANGED <<par, next, pepoch, busy, handed, queue, res, cwait, cstate, cancelled, delivered, doneOrder>>

\* ---------------------------------------------------------------- workers
\* scanBatch finished: `work.resultCh <- op.Result{...}; close(work.resultCh)`.
\* The send never blocks (capacity 1, one send per channel).
WorkerDone(w) ==
  /\ busy[w] # 0
  /\ res' = [res EXCEPT ![busy[w]] = "full"]
  /\ doneOrder' = Append(doneOrder, busy[w])
  /\ busy' = [busy EXCEPT ![w] = 0]
  /\ UNCHANGED <<par, next, pepoch, parserExit, handed, queue, cwait, cstate, cancelled, delivered>>

\* --------------------------------------------------------------- consumer
\* Pull(false): `case ch := <-s.resultChCh`
TakeCh ==
  /\ cstate = "run" /\ cwait = -1
  /\ queue # <<>>
  /\ cwait' = Head(queue)
  /\ queue' = Tail(queue)
  /\ UNCHANGED <<par, next, pepoch, parserExit, busy, handed, res, cstate, cancelled, delivered, doneOrder>>

\* `result, ok := <-ch`: a batch, or the end of input / an error, on which
\* Pull records eof and cancels the context.
Finish == cstate' = "done" /\ cancelled' = TRUE
RecvRes ==
  /\ cstate = "run" /\ cwait >= 0
  /\ \/ /\ cwait = 0
        /\ Finish /\ UNCHANGED <<res, delivered>>
     \/ /\ cwait > 0 /\ res[cwait] = "full"
        /\ res' = [res EXCEPT ![cwait] = "taken"]
        /\ IF cwait = par.err
           THEN Finish /\ UNCHANGED delivered
           ELSE delivered' = Append(delivered, cwait) /\ UNCHANGED <<cstate, cancelled>>
  /\ cwait' = -1
  /\ UNCHANGED <<par, next, pepoch, parserExit, busy, handed, queue, doneOrder>>

\* Pull(true): cancel, then `for range s.resultChCh {}` until it is closed.
CancelPull ==
  /\ AllowCancel
  /\ cstate = "run" /\ cwait = -1
  /\ cstate' = "cancel" /\ cancelled' = TRUE
  /\ UNCHANGED <<par, next, pepoch, parserExit, busy, handed, queue, res, cwait, delivered, doneOrder>>
DrainOne ==
  /\ cstate = "cancel" /\ queue # <<>>
  /\ queue' = Tail(queue)
  /\ UNCHANGED <<par, next, pepoch, parserExit, busy, handed, res, cwait, cstate, cancelled, delivered, doneOrder>>
DrainEnd ==
  /\ cstate = "cancel" /\ queue = <<>> /\ parserExit
  /\ cstate' = "closed"
  /\ UNCHANGED <<par, next, pepoch, parserExit, busy, handed, queue, res, cwait, cancelled, delivered, doneOrder>>

Quiescent == cstate \in {"done", "closed"} /\ parserExit /\ \A w \in Workers : busy[w] = 0
OrderLine == PrintT(<<"ORDER", ToJson([threads |-> par.threads, frames |-> par.nframes, eos |-> par.eos, order |-> doneOrder])>>)
Terminated == Quiescent /\ UNCHANGED vars

Next ==
  \/ \E w \in Workers : Dispatch(w)
  \/ ParserEOF \/ ParserCancelled
  \/ \E w \in Workers : WorkerDone(w)
  \/ TakeCh \/ RecvRes \/ CancelPull \/ DrainOne \/ DrainEnd
  \/ Terminated

Spec == Init /\ [][Next]_vars

\* ------------------------------------------------------------- properties
\* Batches leave in stream order without gaps or repetitions.
InOrder == \A i \in 1..Len(delivered) : delivered[i] = i
\* At the end of input everything was delivered (up to the failing frame).
Complete ==
  cstate = "done" =>
     Len(delivered) = IF par.err = 0 THEN par.nframes ELSE par.err - 1
\* A worker decodes with the local context of its frame's stream, not with
\* whatever the parser has moved on to.
HandedOK == \A f \in Frames : handed[f] # 0 => handed[f] = Epoch(f)
Bounds ==
  /\ Len(queue) <= par.qcap
  /\ Cardinality({w \in Workers : busy[w] # 0}) <= par.threads
  /\ \A f \in Frames : res[f] # "none" => handed[f] # 0
\* "Close guarantees that the underlying io.Reader is not read after it
\* returns": Pull(true) returns only after the parser goroutine has exited.
ClosedMeansParserGone == cstate = "closed" => parserExit
\* For the export: print the completion order of each finished behaviour.
EmitInv == (Emit /\ Quiescent /\ cstate = "done" /\ par.err = 0) => OrderLine
=============================================================================
