------------------------------ MODULE LakeAbs ------------------------------
(***************************************************************************)
(* Sequential reference model of one lake pool (C13, C14, C15, C19, and    *)
(* the abstract state that Lake.tla refines for C12/C17).                  *)
(*                                                                         *)
(* One atomic action per API operation, defined AS CODED at the level of   *)
(* commit objects and data objects:                                        *)
(*   lake/branch.go      Load Delete DeleteWhere CommitCompact AddVectors  *)
(*                       DeleteVectors Revert mergeInto/buildMergeObject   *)
(*   lake/commits/*.go   Snapshot (Fold), PatchOfPath, Patch.Revert, Diff  *)
(*   lake/pool.go        Vacuum (commits.Store.Vacuumable)                 *)
(*   lake/writer.go      Writer (object per threshold), SortedWriter       *)
(* next to the "simple model" the properties talk about: live[b], the set  *)
(* of values a branch should contain (everything loaded minus everything   *)
(* deleted), maintained directly at the value level.                       *)
(*                                                                         *)
(* Values are ids 1..N with a key KeyOf[v]; key NullKey is null/missing    *)
(* (the largest key).  Objects are sequences of value ids in key order.    *)
(* ObjMode abstracts the pool threshold: "single" = threshold of 1 byte    *)
(* (Writer: one object per value; SortedWriter: one object per distinct    *)
(* key), "all" = default threshold (one object per write).                 *)
(*                                                                         *)
(* hist records every operation with its arguments, the predicted result   *)
(* and the predicted observable state; TLC prints each complete history    *)
(* and the Go harness replays it on the real lake (lake/api.Interface).    *)
(***************************************************************************)
EXTENDS Integers, Sequences, SequencesExt, FiniteSets, FiniteSetsExt, Bags, TLC, Json

CONSTANTS MaxOps,       \* length of the generated histories
          KeyOf,        \* <<k1,...,kN>>: key of value id i
          NullKey,      \* the key standing for null / missing (largest)
          Batches,      \* sequence of disjoint sequences of value ids
          ObjMode,      \* "single" | "all"
          BranchNames,  \* e.g. {"main", "b1"}
          OpKinds,      \* subset of AllOpKinds
          PredKeys,     \* <<S1,...>>: predicate i is true of v iff KeyOf[v] \in Si
          CompactSplit, \* TRUE iff compaction starts a new object at every key change (see SortedWriterObjs)
          Shape,        \* <<K1,...>>: the i-th operation must have a kind in Ki (<<>> = unconstrained);
                        \* directs the exhaustive generation to history shapes of interest, inside Next
          Export        \* TRUE: print complete histories

AllOpKinds == {"load", "delete", "deletewhere", "compact", "addvec", "delvec",
               "branch", "merge", "revert", "vacuum"}
ASSUME OpKinds \subseteq AllOpKinds
ASSUME ObjMode \in {"single", "all"}

VARIABLES tip,      \* [BranchNames -> commit id | 0 (empty) | -1 (no such branch)]
          commits,  \* sequence of [parent, adds, dels, addv, delv]; id = index
          objs,     \* sequence of objects (each a sequence of value ids); id = index
          present,  \* object ids whose data files exist
          live,     \* [BranchNames -> bag of value ids]   (the simple model; a bag because an
                    \* object-level revert can legitimately restore a second copy of a value)
          loaded,   \* batches already loaded
          hist      \* history of operations with predictions
vars == <<tip, commits, objs, present, live, loaded, hist>>

Allowed(kind) == /\ kind \in OpKinds
                 /\ (Shape = <<>> \/ (Len(hist) < Len(Shape) /\ kind \in Shape[Len(hist) + 1]))

Values == 1..Len(KeyOf)
\* sort key: null (NullKey) and missing (NullKey + 1) are equal and largest
SK(v) == IF KeyOf[v] >= NullKey THEN NullKey ELSE KeyOf[v]
ValLess(a, b) == SK(a) < SK(b) \/ (SK(a) = SK(b) /\ a < b)
SortVals(S) == SetToSortSeq(S, ValLess)
\* the values of a set of objects as one sequence, with multiplicity (after an object-level revert
\* two live objects can hold the same value), and its sort in pool-key order
SeqOfObjs(O) == LET ids == SetToSeq(O) IN FlattenSeq([i \in 1..Len(ids) |-> objs[ids[i]]])
SortSeqVals(q) == SortSeq(q, ValLess)
SeqBag(q) == [v \in ToSet(q) |-> Cardinality({i \in 1..Len(q) : q[i] = v})]
Vals(o) == ToSet(objs[o])
ValsOf(O) == UNION {Vals(o) : o \in O}

\* ---- commits.Store.Snapshot: replay of the action log from the root ----
Bad == [ok |-> FALSE, o |-> {}, v |-> {}]
RECURSIVE Fold(_)
Fold(c) ==
  IF c = 0 THEN [ok |-> TRUE, o |-> {}, v |-> {}]
  ELSE LET p == Fold(commits[c].parent)  cm == commits[c] IN
       IF ~p.ok THEN Bad
       ELSE IF ~(cm.dels \subseteq p.o) THEN Bad                       \* delete of a non-existent data object
       ELSE IF (cm.adds \cap (p.o \ cm.dels)) # {} THEN Bad            \* add of a duplicate data object
       ELSE IF ~(cm.delv \subseteq p.v) THEN Bad
       ELSE IF (cm.addv \cap (p.v \ cm.delv)) # {} THEN Bad
       ELSE [ok |-> TRUE, o |-> (p.o \ cm.dels) \cup cm.adds, v |-> (p.v \ cm.delv) \cup cm.addv]

Data(c) == ValsOf(Fold(c).o)
\* the values a scan of a set of objects returns, with multiplicity
BagOfObjs(O) == SeqBag(SeqOfObjs(O))
DataBag(c) == BagOfObjs(Fold(c).o)
\* a commit can be read iff its log replays and all its objects' files exist
Readable(c) == Fold(c).ok /\ Fold(c).o \subseteq present

RECURSIVE Path(_)
Path(c) == IF c = 0 THEN <<>> ELSE <<c>> \o Path(commits[c].parent)     \* tip first, as commits.Store.Path

Exists(b) == tip[b] # -1
Branches == {b \in BranchNames : Exists(b)}

\* ---- object layouts -----------------------------------------------------
\* lake.Writer (load, delete-where): sorted buffer, flushed every Threshold bytes.
WriterObjsSeq(q) ==      \* q sorted
  IF q = <<>> THEN <<>>
  ELSE IF ObjMode = "all" THEN <<q>>
  ELSE [i \in 1..Len(q) |-> <<q[i]>>]
WriterObjs(S) == WriterObjsSeq(SortVals(S))
\* lake.SortedWriter (compaction): a new object is started when the key changes
\* AND data.Writer.BytesWritten() has reached the threshold.  BytesWritten only
\* counts flushed ZNG frames, so for the few small values of this model nothing
\* has been flushed before Close and compaction always yields ONE object, whatever
\* the threshold (observed on the real code; the split rule itself is exercised by
\* the harness' large-value runs, where the observed partition is checked to be
\* contiguous in key order and never to split equal keys).
RECURSIVE GroupByKey(_)
GroupByKey(s) ==
  IF s = <<>> THEN <<>>
  ELSE LET k == SK(Head(s))
           n == Cardinality({i \in 1..Len(s) : SK(s[i]) = k}) IN
       <<SubSeq(s, 1, n)>> \o GroupByKey(SubSeq(s, n + 1, Len(s)))
\* With a seek stride of a few bytes every value ends a frame, BytesWritten reaches a 1-byte
\* threshold at once, and the split rule is observable: CompactSplit = TRUE (object per distinct key).
SortedWriterObjsSeq(q) ==   \* q sorted
  IF q = <<>> THEN <<>> ELSE IF CompactSplit THEN GroupByKey(q) ELSE <<q>>

NewIds(n) == (Len(objs) + 1)..(Len(objs) + n)

\* Commit a new commit object on branch b and record the step.
\* rec carries op-specific fields; the observable predictions are added here.
Record(rec, tip2, commits2, objs2, present2) ==
  LET fold(c) == \* Fold over commits2 (the post-state)
        LET RECURSIVE F(_)
            F(x) == IF x = 0 THEN [ok |-> TRUE, o |-> {}, v |-> {}]
                    ELSE LET p == F(commits2[x].parent)  cm == commits2[x] IN
                         IF ~p.ok THEN Bad
                         ELSE IF ~(cm.dels \subseteq p.o) THEN Bad
                         ELSE IF (cm.adds \cap (p.o \ cm.dels)) # {} THEN Bad
                         ELSE IF ~(cm.delv \subseteq p.v) THEN Bad
                         ELSE IF (cm.addv \cap (p.v \ cm.delv)) # {} THEN Bad
                         ELSE [ok |-> TRUE, o |-> (p.o \ cm.dels) \cup cm.adds, v |-> (p.v \ cm.delv) \cup cm.addv]
        IN F(c)
      bs == {b \in BranchNames : tip2[b] # -1}
  IN rec @@ [tips  |-> [b \in bs |-> tip2[b]],
             \* the values a scan returns, as a bag (a sequence in no particular order):
             \* an object-level revert can legitimately make two live objects overlap
             data  |-> [b \in bs |-> LET ids == SetToSeq(fold(tip2[b]).o) IN
                                      FlattenSeq([i \in 1..Len(ids) |-> objs2[ids[i]]])],
             objsOf |-> [b \in bs |-> fold(tip2[b]).o],
             vecsOf |-> [b \in bs |-> fold(tip2[b]).v \cap fold(tip2[b]).o],
             readable |-> [b \in bs |-> fold(tip2[b]).ok /\ fold(tip2[b]).o \subseteq present2],
             ncommits |-> Len(commits2), nobjs |-> Len(objs2)]

Step(rec, tip2, commits2, objs2, present2, live2, loaded2) ==
  /\ tip' = tip2 /\ commits' = commits2 /\ objs' = objs2 /\ present' = present2
  /\ live' = live2 /\ loaded' = loaded2
  /\ hist' = Append(hist, Record(rec, tip2, commits2, objs2, present2))

Fail(rec) == Step(rec @@ [res |-> "err"], tip, commits, objs, present, live, loaded)

NewCommit(parent, adds, dels, addv, delv) ==
  Append(commits, [parent |-> parent, adds |-> adds, dels |-> dels, addv |-> addv, delv |-> delv])

\* Successful commit of a new commit object on branch b.
Commit(rec, b, adds, dels, addv, delv, newobjs, live2, loaded2) ==
  LET commits2 == NewCommit(tip[b], adds, dels, addv, delv)
      c == Len(commits2)
      objs2 == objs \o newobjs
      present2 == present \cup NewIds(Len(newobjs)) IN
  Step(rec @@ [res |-> "ok", commit |-> c, newobjs |-> [i \in 1..Len(newobjs) |-> newobjs[i]],
               newids |-> [i \in 1..Len(newobjs) |-> Len(objs) + i]],
       [tip EXCEPT ![b] = c], commits2, objs2, present2, live2, loaded2)

\* ---- operations ----------------------------------------------------------
Load(b, i) ==
  /\ Allowed("load") /\ Exists(b) /\ i \notin loaded
  /\ LET S == ToSet(Batches[i])  newobjs == WriterObjs(S) IN
     Commit([op |-> "load", b |-> b, batch |-> i], b,
            NewIds(Len(newobjs)), {}, {}, {}, newobjs,
            [live EXCEPT ![b] = @ (+) SetToBag(S)], loaded \cup {i})

Delete(b, o) ==
  /\ Allowed("delete") /\ Exists(b) /\ o \in 1..Len(objs)
  /\ LET rec == [op |-> "delete", b |-> b, obj |-> o] IN
     IF o \in Fold(tip[b]).o
     THEN Commit(rec, b, {}, {o}, {}, {}, <<>>, [live EXCEPT ![b] = @ (-) SeqBag(objs[o])], loaded)
     ELSE Fail(rec)

Matches(p, v) == KeyOf[v] \in PredKeys[p]

DeleteWhere(b, p) ==
  /\ Allowed("deletewhere") /\ Exists(b) /\ p \in 1..Len(PredKeys)
  /\ LET rec == [op |-> "deletewhere", b |-> b, pred |-> p]
         snap == Fold(tip[b]).o
         hit == {o \in snap : \E v \in Vals(o) : Matches(p, v)}
         rest == SelectSeq(SeqOfObjs(hit), LAMBDA v : ~Matches(p, v))
         newobjs == WriterObjsSeq(SortSeqVals(rest)) IN
     IF hit = {} THEN Fail(rec)                                         \* empty transaction
     ELSE Commit(rec, b, NewIds(Len(newobjs)), hit, {}, {}, newobjs,
                 [live EXCEPT ![b] = LET old == @ IN [v \in {x \in DOMAIN old : ~Matches(p, x)} |-> old[v]]], loaded)

\* exec.Compact: objects S (>= 2) of the tip are merge-scanned into new objects.
Compact(b, S, vec) ==
  /\ Allowed("compact") /\ Exists(b)
  /\ S \subseteq Fold(tip[b]).o /\ Cardinality(S) >= 2
  /\ LET newobjs == SortedWriterObjsSeq(SortSeqVals(SeqOfObjs(S)))  ids == NewIds(Len(newobjs)) IN
     Commit([op |-> "compact", b |-> b, objs |-> S, vec |-> vec], b,
            ids, S, IF vec THEN ids ELSE {}, {}, newobjs, live, loaded)

AddVec(b, S) ==
  /\ Allowed("addvec") /\ Exists(b) /\ S # {} /\ S \subseteq 1..Len(objs)
  /\ LET rec == [op |-> "addvec", b |-> b, objs |-> S]  f == Fold(tip[b]) IN
     IF S \subseteq f.o /\ S \cap f.v = {} /\ S \subseteq present
     THEN Commit(rec, b, {}, {}, S, {}, <<>>, live, loaded)
     ELSE Fail(rec)

DelVec(b, S) ==
  /\ Allowed("delvec") /\ Exists(b) /\ S # {} /\ S \subseteq 1..Len(objs)
  /\ LET rec == [op |-> "delvec", b |-> b, objs |-> S]  f == Fold(tip[b]) IN
     IF S \subseteq f.o /\ S \subseteq f.v
     THEN Commit(rec, b, {}, {}, {}, S, <<>>, live, loaded)
     ELSE Fail(rec)

CreateBranch(n, b) ==
  /\ Allowed("branch") /\ Exists(b) /\ ~Exists(n)
  /\ Step([op |-> "branch", b |-> n, from |-> b, at |-> tip[b], res |-> "ok"],
          [tip EXCEPT ![n] = tip[b]], commits, objs, present, [live EXCEPT ![n] = live[b]], loaded)

\* branch.go commonAncestor(parentPath, childPath): first commit of the child's
\* path (from its tip) that lies on the parent's path.
CommonAncestor(pp, cp) ==
  LET hits == {i \in 1..Len(cp) : cp[i] \in ToSet(pp)} IN
  IF hits = {} THEN 0 ELSE cp[Min(hits)]

\* mergeInto / buildMergeObject / commits.Diff
Merge(child, parent) ==
  /\ Allowed("merge") /\ Exists(child) /\ Exists(parent) /\ child # parent
  /\ LET base == CommonAncestor(Path(tip[parent]), Path(tip[child]))
         rec == [op |-> "merge", b |-> parent, child |-> child, base |-> base]
         B == Fold(base).o  C == Fold(tip[child]).o  P == Fold(tip[parent]).o
         cAdds == C \ B   cDels == B \ C                 \* child patch over the base snapshot
         pAdds == P \ B   pDels == B \ P                 \* parent patch
         adds == cAdds \ pAdds                           \* child objects not in the parent
         dels == cDels
         baseBag == BagOfObjs(B) IN
     IF base = 0 THEN Fail(rec)                          \* cannot locate common ancestor
     ELSE IF dels \cap pDels # {} THEN Fail(rec)         \* delete conflict
     ELSE IF adds = {} /\ dels = {} THEN Fail(rec)       \* difference is empty
     ELSE Commit(rec, parent, adds, dels, {}, {}, <<>>,
                 \* the property: parent' = parent + (child added since base) - (child deleted since base)
                 \* (bags: what the child added and the parent has not itself added since the base is added once --
                 \*  for duplicate-free data this is parent \cup (child \ base) \ (base \ child))
                 [live EXCEPT ![parent] = (@ (+) ((live[child] (-) baseBag) (-) (@ (-) baseBag))) (-) (baseBag (-) live[child])],
                 loaded)

\* Branch.Revert / Patch.Revert of commit c on branch b
Revert(b, c) ==
  /\ Allowed("revert") /\ Exists(b) /\ c \in 1..Len(commits)
  /\ LET rec == [op |-> "revert", b |-> b, target |-> c]
         T == Fold(tip[b]).o
         before == Fold(commits[c].parent).o
         dels == {o \in commits[c].adds : o \in T}                      \* added by c and still present
         adds == {o \in (commits[c].dels \cap before) : o \notin T}     \* deleted by c and still absent
     IN
     IF dels = {} /\ adds = {} THEN Fail(rec)                           \* revert commit is empty
     ELSE Commit(rec, b, adds, dels, {}, {}, <<>>,
                 [live EXCEPT ![b] = (@ (-) BagOfObjs(dels)) (+) BagOfObjs(adds)], loaded)

\* Pool.Vacuum(tip of b): objects added on the path (leaf excluded) and absent from the tip
Vacuum(b) ==
  /\ Allowed("vacuum") /\ Exists(b) /\ tip[b] # 0
  /\ LET path == Path(tip[b])
         onPath == UNION {commits[path[i]].adds : i \in 2..Len(path)}
         V == {o \in onPath : o \notin Fold(tip[b]).o} IN
     Step([op |-> "vacuum", b |-> b, res |-> "ok", removed |-> V \cap present],
          tip, commits, objs, present \ V, live, loaded)

Init ==
  /\ tip = [b \in BranchNames |-> IF b = "main" THEN 0 ELSE -1]
  /\ commits = <<>> /\ objs = <<>> /\ present = {}
  /\ live = [b \in BranchNames |-> EmptyBag]
  /\ loaded = {} /\ hist = <<>>

Next ==
  /\ Len(hist) < MaxOps
  /\ \/ \E b \in BranchNames, i \in 1..Len(Batches) : Load(b, i)
     \/ \E b \in BranchNames, o \in 1..Len(objs) : Delete(b, o)
     \/ \E b \in BranchNames, p \in 1..Len(PredKeys) : DeleteWhere(b, p)
     \/ \E b \in BranchNames :
          LET O == IF Exists(b) THEN Fold(tip[b]).o ELSE {} IN
          \E S \in {O} \cup {{x, y} : x, y \in O} : \E vec \in BOOLEAN : Compact(b, S, vec)
     \/ \E b \in BranchNames : \E S \in {{o} : o \in 1..Len(objs)} : AddVec(b, S) \/ DelVec(b, S)
     \/ \E n, b \in BranchNames : CreateBranch(n, b)
     \/ \E c, p \in BranchNames : Merge(c, p)
     \/ \E b \in BranchNames, c \in 1..Len(commits) : Revert(b, c)
     \/ \E b \in BranchNames : Vacuum(b)

Spec == Init /\ [][Next]_vars

\* ---- properties ------------------------------------------------------------
TypeOK == /\ \A b \in BranchNames : tip[b] \in -1..Len(commits)
          /\ present \subseteq 1..Len(objs)

\* C12/C15/C17: the action log of every branch replays without error.
Replayable == \A b \in Branches : Fold(tip[b]).ok

\* C14/C15: branch contents equal the simple model.
ContentsEqualLive == \A b \in Branches : Fold(tip[b]).ok => DataBag(tip[b]) = live[b]

\* C14: no value is ever in two live objects, objects are key-sorted.
\* (Not an invariant once revert is allowed: reverting a delete whose object was
\* meanwhile compacted into another object re-adds it next to the compacted copy --
\* object-level "restores what it deleted (if still absent)" as coded and as the
\* property words it; TLC finds load; compact; delete; revert; revert.  Recorded in
\* DESIGN.md as a design observation, not flagged.)
ObjectsDisjoint == \A b \in Branches : \A o1, o2 \in Fold(tip[b]).o :
                      o1 # o2 => Vals(o1) \cap Vals(o2) = {}
ObjectsSorted == \A o \in 1..Len(objs) : IsSorted(objs[o], LAMBDA a, b : SK(a) <= SK(b))

\* C13: a commit is immutable (its data never changes while its files exist).
Immutable == [][\A c \in 1..Len(commits) :
                  /\ commits'[c] = commits[c]
                  /\ \A o \in 1..Len(objs) : objs'[o] = objs[o]]_vars

\* C14: without vacuum every tip stays readable; with vacuum the vacuumed branch does.
TipsReadable == ("vacuum" \notin OpKinds) => \A b \in Branches : Readable(tip[b])
VacuumKeepsTip == \A i \in 1..Len(hist) : hist[i].op = "vacuum" => hist[i].readable[hist[i].b]

\* C15: a failed operation leaves every tip unchanged.
FailedUntouched == \A i \in 1..Len(hist) :
   hist[i].res = "err" => hist[i].tips = (IF i = 1 THEN [b \in {"main"} |-> 0] ELSE hist[i - 1].tips)

\* C15: reverting a revert restores the contents before the first revert.
RevertRevert ==
  \A i \in 1..(Len(hist) - 1) :
    (/\ hist[i].op = "revert" /\ hist[i].res = "ok"
     /\ hist[i + 1].op = "revert" /\ hist[i + 1].res = "ok"
     /\ hist[i + 1].b = hist[i].b /\ hist[i + 1].target = hist[i].commit)
    => (i > 1 /\ ToBag(hist[i + 1].data[hist[i].b]) = ToBag(hist[i - 1].data[hist[i].b]))

\* ---- export ------------------------------------------------------------------
ExportInv == (Export /\ Len(hist) = MaxOps) => PrintT(<<"HIST", ToJson(hist)>>)
=============================================================================
