------------------------------- MODULE Rewrite -------------------------------
(***************************************************************************)
(* C07 -- the optimizer's rules as term rewrites, as coded in              *)
(* compiler/optimizer/{optimizer,op,parallelize,demand}.go, applied in the *)
(* order of Optimizer.Optimize:                                            *)
(*     mergeFilters; removePassOps; optimizeParallels; mergeFilters;       *)
(*     optimizeSourcePaths (propagateSortKey + matchFilter lift);          *)
(*     removePassOps; insertDemand; removePassOps                          *)
(* over the operator algebra of Dataflow.tla.  TLC explores programs       *)
(* (built one operator at a time) x inputs x declared sort keys and checks *)
(*     Preserved:  Sem(Optimize(p), in) ~ Sem(p, in)                       *)
(* in every state; every state is exported as a case (program text, input, *)
(* sort key, predicted result of the program as analyzed, the rewritten    *)
(* plan in canonical form and its predicted result) which the Go harness   *)
(* (harness/props/c07) replays on the real compiler, optimizer and runtime.*)
(*                                                                         *)
(* Defects of the real optimizer that were reproduced on the real code and *)
(* are not repaired are transcribed faithfully; the rule instance that is  *)
(* wrong adds a tag to the ghost set taint, and Preserved is required of   *)
(* untainted rewrites only (DESIGN 2.4).  The harness checks over the      *)
(* exported cases that every tag is witnessed by a non-equivalent case.    *)
(***************************************************************************)
EXTENDS Dataflow, Json

CONSTANTS MaxOps,      \* programs have at most MaxOps top-level operators
          Level,       \* 1: core operator set, 2: extended operator set
          InputSet,    \* "quick" | "curated" | "mid" | "full"
          Emit,        \* TRUE: print JSON cases
          EmitPlain    \* states in which no rule fires are printed only for the curated inputs with these indices

\* ------------------------------------------------------------- sort keys
\* As seen by the code: [f, desc] (order.SortKey, single key).  Ghost fields,
\* invisible to the transcribed rules and used only to decide taint:
\*   nf    -- the stream really has its null/missing keys first
\*   multi -- the key was unified over several parents (the stream is their combine)
\*   lost  -- the stream is in fact no longer sorted by f
\*   strm  -- the stream reaches this point from the enclosing fork without a blocking
\*            operator (sort), i.e. the fork hands it over batch by batch
\*   werr  -- a where whose predicate can fail has replaced values by error values (their key is missing)
\*   inc   -- the stream is produced incrementally by a merge: null and missing keys, which
\*            tie in every comparator, may interleave although they are different groups
Key(f, desc, nf) == [f |-> f, desc |-> desc, nf |-> nf, multi |-> FALSE, lost |-> FALSE, strm |-> FALSE, inc |-> FALSE, werr |-> FALSE]
NoKey == Key("", FALSE, FALSE)
KeyEq(a, b) == a.f = b.f /\ a.desc = b.desc           \* order.SortKeys.Equal
IsNil(k) == k.f = ""
DirOf(k) == IF k.desc THEN -1 ELSE 1

Acc(seq, taint, rules) == [seq |-> seq, taint |-> taint, rules |-> rules]

\* ----------------------------------------------- mergeFilters / removePassOps
\* one sequence, from the next-to-last element toward the first; result [seq, taint].
\* `where A | where B` drops an error produced by A (B sees the error value, whose
\* fields are missing) while `where A and B` passes it on: not an equivalence when
\* A can yield an error.
RECURSIVE MergeFiltersSeq(_)
MergeFiltersSeq(seq) ==
  IF Len(seq) <= 1 THEN [seq |-> seq, taint |-> {}]
  ELSE LET rest == MergeFiltersSeq(Tail(seq)) IN
       IF seq[1].k = "where" /\ rest.seq[1].k = "where"
       THEN [seq |-> <<[k |-> "where", ps |-> seq[1].ps \o rest.seq[1].ps]>> \o Tail(rest.seq),
             taint |-> rest.taint \cup (IF ErrCapable(seq[1].ps) THEN {"merge-filters-error"} ELSE {})]
       ELSE [seq |-> <<seq[1]>> \o rest.seq, taint |-> rest.taint]

RemovePassSeq(seq) ==
  LET r == SelectSeq(seq, LAMBDA o : o.k # "pass")
  IN IF r = <<>> THEN <<[k |-> "pass"]>> ELSE r

\* ------------------------------------------------------- liftIntoParPaths
KeyOfSort(op) == Key(op.f, op.desc # op.rev, op.nf)     \* sortKeysOfSort
AppendToLegs(fork, op) == [fork EXCEPT !.legs = [m \in 1..Len(fork.legs) |-> Append(fork.legs[m], op)]]

Lift(r, i) ==       \* liftIntoParPaths(ops) with ops = r.seq[i..]
  LET seq == r.seq IN
  IF i + 1 > Len(seq) \/ seq[i].k # "fork" THEN r
  ELSE
    LET hasMerge == seq[i+1].k = "merge"
        eg == IF hasMerge THEN i + 2 ELSE i + 1
    IN IF eg > Len(seq) THEN r
       ELSE LET op == seq[eg] IN
         CASE op.k = "summ" ->
                IF op.pin \/ op.pout THEN r
                ELSE Acc([seq EXCEPT ![i] = AppendToLegs(seq[i], [op EXCEPT !.pout = TRUE]),
                                     ![eg] = [op EXCEPT !.pin = TRUE, !.kr = op.key, !.fn = ""]],
                         r.taint, r.rules \cup {"lift-summarize"})
           [] op.k = "sort" ->
                \* only an ascending, nulls-last, non-reversed sort is lifted: the merge that takes
                \* its place orders by the key with nulls as the largest value (fix 5fd9cea92)
                IF op.rev \/ op.nf \/ op.desc THEN r
                ELSE IF hasMerge /\ ~KeyEq(KeyOfSort(op), Key(seq[i+1].f, seq[i+1].desc, FALSE)) THEN r
                ELSE Acc([seq EXCEPT ![i] = AppendToLegs(seq[i], op),
                                     ![eg] = IF hasMerge THEN [k |-> "pass"]
                                             ELSE [k |-> "merge", f |-> op.f, desc |-> op.desc]],
                         r.taint,
                         r.rules \cup {IF hasMerge THEN "lift-sort-under-merge" ELSE "lift-sort-new-merge"})
           [] op.k \in {"head", "tail"} ->
                Acc([seq EXCEPT ![i] = AppendToLegs(seq[i], op)], r.taint, r.rules \cup {"lift-head-tail"})
           [] op.k \in {"cut", "drop", "put", "rename", "where", "cutcount"} ->
                \* with a merge: propagateSortKeyOp(merge, {nil}) yields nil for every merge => bail
                IF hasMerge THEN r
                ELSE Acc([seq EXCEPT ![i] = AppendToLegs(seq[i], op), ![eg] = [k |-> "pass"]],
                         \* a cut whose expression is stateful (count()) is copied like any other
                         r.taint \cup (IF op.k = "cutcount" THEN {"lift-stateful-expr"} ELSE {}),
                         r.rules \cup {"lift-stateless"})
           [] OTHER -> r

\* optimizeParallels on one sequence: for ops := seq; len(ops) >= 2; ops = ops[1:]
RECURSIVE LiftFrom(_, _)
LiftFrom(r, i) == IF i + 1 > Len(r.seq) THEN r ELSE LiftFrom(Lift(r, i), i + 1)

\* --------------------------------------------------------------- the walk
\* optimizer.walk: post-order over Fork legs (not over Switch cases).
ApplyNamed(name, r, top) ==
  CASE name = "mergeFilters" ->
         LET m == MergeFiltersSeq(r.seq) IN
         Acc(m.seq, r.taint \cup m.taint, IF m.seq # r.seq THEN r.rules \cup {"merge-filters"} ELSE r.rules)
    [] name = "removePass" ->
         \* the top-level sequence contains the source, so it never becomes empty in the code
         LET s == IF top THEN SelectSeq(r.seq, LAMBDA o : o.k # "pass") ELSE RemovePassSeq(r.seq) IN
         Acc(s, r.taint, IF s # r.seq THEN r.rules \cup {"remove-pass"} ELSE r.rules)
    [] name = "parallels" -> LiftFrom(r, 1)

RECURSIVE WalkLegs(_, _, _, _), WalkNamed(_, _, _)
WalkNamed(name, r, top) == ApplyNamed(name, WalkLegs(name, r, 1, 1), top)
WalkLegs(name, r, i, m) ==
  IF i > Len(r.seq) THEN r
  ELSE IF r.seq[i].k # "fork" \/ m > Len(r.seq[i].legs) THEN WalkLegs(name, r, i + 1, 1)
  ELSE LET sub == WalkNamed(name, Acc(r.seq[i].legs[m], r.taint, r.rules), FALSE)
       IN WalkLegs(name,
                   Acc([r.seq EXCEPT ![i] = [r.seq[i] EXCEPT !.legs = [r.seq[i].legs EXCEPT ![m] = sub.seq]]],
                       sub.taint, sub.rules),
                   i, m + 1)

\* ------------------------------------------------------ propagateSortKey
\* analyzeSortKeys (op.go) for the single-parent operators
AnalyzeKeys(op, in) ==
  IF op.k = "sort" THEN KeyOfSort(op)
  ELSE IF IsNil(in) THEN NoKey
  ELSE CASE op.k \in {"where", "head", "pass", "uniq", "tail"} -> in
    [] op.k = "cut" ->
         \* analyzeCuts with one assignment l := r and scoreboard {key}: a field of known order
         \* reaches the output only if it is assigned (fix 3427a6655), so the key survives -- under
         \* the name l -- iff r is the key field
         IF op.r = in.f THEN [in EXCEPT !.f = op.l] ELSE NoKey
    [] op.k = "cutcount" -> NoKey                                      \* FieldsOf(call) fails
    [] op.k = "drop" -> IF op.f = in.f THEN NoKey ELSE in
    [] op.k = "rename" -> IF op.r = in.f THEN [in EXCEPT !.f = op.l] ELSE in
    [] op.k = "put" -> IF op.l = in.f THEN NoKey ELSE in
    [] OTHER -> NoKey

\* ghost: does the stream really stay sorted by in.f through op?
ReallyKeeps(op, in) ==
  \/ op.k \in {"where", "head", "pass", "uniq", "tail"}
  \/ op.k = "cut" /\ op.r = in.f
  \/ op.k = "drop" /\ op.f # in.f
  \/ op.k = "put" /\ op.l # in.f
  \/ op.k = "rename" /\ ((op.r = in.f) \/ (op.l # in.f /\ op.r # in.f))

RECURSIVE PSK(_, _, _)
\* acc = [taint, rules]; returns [op, keys, taint, rules]
PSKOp(op, parents, acc) ==
  IF op.k = "join" THEN
       LET l == parents[1]
           rr == parents[Len(parents)]
           ld == IF ~IsNil(l) /\ l.f = "a" THEN DirOf(l) ELSE op.ldir
           rd == IF ~IsNil(rr) /\ rr.f = "a" THEN DirOf(rr) ELSE op.rdir
           \* join.New compares with nullsMax (nulls first iff desc); the stream has them first iff nf
           bad(k) == ~IsNil(k) /\ k.f = "a" /\ (k.nf # k.desc \/ k.lost \/ k.multi)
           \* A side whose sort is skipped is read incrementally; when that side streams from
           \* the fork that also feeds the other side, the fork (which hands every batch to all
           \* of its exits before the next one) and the join wait for each other.
           hang(k) == ~IsNil(k) /\ k.f = "a" /\ k.strm
       IN [op |-> [op EXCEPT !.ldir = ld, !.rdir = rd], keys |-> <<NoKey>>,
           taint |-> acc.taint \cup (IF bad(l) \/ bad(rr) THEN {"join-dir-nulls"} ELSE {})
                                \cup (IF hang(l) \/ hang(rr) THEN {"join-lockstep"} ELSE {}),
           rules |-> acc.rules \cup (IF ld # 0 \/ rd # 0 THEN {"join-dir"} ELSE {})]
  ELSE
    \* "condense sort order into a single parent"
    LET uni == IF \A m \in 1..Len(parents) : KeyEq(parents[m], parents[1]) THEN parents[1] ELSE NoKey
        parent == IF Len(parents) > 1 /\ ~IsNil(uni) THEN [uni EXCEPT !.multi = TRUE] ELSE uni
    IN CASE op.k = "summ" ->
              \* groupByKey (the output column) must be the sort key, and the key expression either
              \* that field itself or an order-preserving call (floor, ceil, round, bucket) whose
              \* first argument is that field (orderPreservingCall)
              IF IsNil(parent) \/ op.key = "" \/ op.key # parent.f
                 \/ ~((op.fn = "" /\ op.kr = parent.f) \/ (op.fn # "" /\ op.kr = op.key))
              THEN [op |-> op, keys |-> <<NoKey>>, taint |-> acc.taint, rules |-> acc.rules]
              ELSE [op |-> [op EXCEPT !.dir = DirOf(parent)], keys |-> <<parent>>,
                    taint |-> acc.taint \cup (IF parent.multi THEN {"fork-sortkey"} ELSE {})
                                         \cup (IF parent.lost THEN {"stale-sortkey"} ELSE {})
                                         \cup (IF parent.inc THEN {"sortdir-null-missing"} ELSE {})
                                         \cup (IF parent.werr THEN {"where-error-sortkey"} ELSE {}),
                    rules |-> acc.rules \cup {"summarize-sort-dir"}]
         [] op.k = "fork" ->
              LET RECURSIVE Legs(_, _)
                  Legs(m, a) ==      \* a = [legs, keys, taint, rules]
                    IF m > Len(op.legs) THEN a
                    ELSE LET sub == PSK(op.legs[m], <<IF IsNil(parent) THEN parent ELSE [parent EXCEPT !.strm = TRUE]>>, [taint |-> a.taint, rules |-> a.rules])
                         IN Legs(m + 1, [legs |-> Append(a.legs, sub.seq), keys |-> a.keys \o sub.keys,
                                         taint |-> sub.taint, rules |-> sub.rules])
                  res == Legs(1, [legs |-> <<>>, keys |-> <<>>, taint |-> acc.taint, rules |-> acc.rules])
              IN [op |-> [op EXCEPT !.legs = res.legs], keys |-> res.keys, taint |-> res.taint, rules |-> res.rules]
         [] op.k = "merge" ->
              LET k == Key(op.f, op.desc, op.desc) IN
              [op |-> op,
               keys |-> <<IF ~IsNil(parent) /\ KeyEq(k, parent) THEN [k EXCEPT !.lost = parent.lost \/ parent.nf # op.desc, !.inc = TRUE] ELSE NoKey>>,
               taint |-> acc.taint, rules |-> acc.rules]
         [] OTHER ->
              LET out == AnalyzeKeys(op, parent)
                  res == IF IsNil(out) THEN NoKey
                         ELSE IF op.k = "sort" THEN out
                         ELSE [out EXCEPT !.lost = parent.lost \/ ~ReallyKeeps(op, parent), !.multi = parent.multi, !.nf = parent.nf, !.strm = parent.strm, !.inc = parent.inc,
                                          !.werr = parent.werr \/ (op.k = "where" /\ ErrCapable(op.ps))]
              IN [op |-> op, keys |-> <<res>>, taint |-> acc.taint, rules |-> acc.rules]

PSK(seq, parents, acc) ==
  LET RECURSIVE Go(_, _)
      Go(i, a) ==    \* a = [seq, keys, taint, rules]
        IF i > Len(seq) THEN a
        ELSE LET o == PSKOp(seq[i], a.keys, [taint |-> a.taint, rules |-> a.rules])
             IN Go(i + 1, [seq |-> Append(a.seq, o.op), keys |-> o.keys, taint |-> o.taint, rules |-> o.rules])
  IN Go(1, [seq |-> <<>>, keys |-> parents, taint |-> acc.taint, rules |-> acc.rules])

\* -------------------------------------------------- optimizeSourcePaths
\* walkEntries calls the callback on every fork leg first (post-order).  For a
\* leg the only effect is propagateSortKey(leg, {nil}) when it has >= 2 operators.
RECURSIVE LegEntries(_, _, _)
LegEntries(r, i, m) ==
  IF i > Len(r.seq) THEN r
  ELSE IF r.seq[i].k # "fork" \/ m > Len(r.seq[i].legs) THEN LegEntries(r, i + 1, 1)
  ELSE LET leg == r.seq[i].legs[m]
           sub == IF Len(leg) >= 2 THEN PSK(leg, <<NoKey>>, [taint |-> r.taint, rules |-> r.rules])
                  ELSE [seq |-> leg, taint |-> r.taint, rules |-> r.rules]
       IN LegEntries(Acc([r.seq EXCEPT ![i] = [r.seq[i] EXCEPT !.legs = [r.seq[i].legs EXCEPT ![m] = sub.seq]]],
                         sub.taint, sub.rules), i, m + 1)

SrcKey(sk) == IF sk = "a:asc" THEN [Key("a", FALSE, FALSE) EXCEPT !.strm = TRUE]
              ELSE IF sk = "a:desc" THEN [Key("a", TRUE, TRUE) EXCEPT !.strm = TRUE]     \* a truthful desc key: nulls first (nullsMax)
              ELSE NoKey

\* ------------------------------------------------------------ insertDemand
\* inferDemandSeqOutWith (demand.go) over the top-level sequence, from the last
\* operator to the source; a demand is [all |-> BOOLEAN, fs |-> set of fields].
\* The result is the demand on the source's output (SeqScan.Fields for a pool).
DAll == [all |-> TRUE, fs |-> {}]
DKeys(fs) == [all |-> FALSE, fs |-> fs]
PredField(p) == IF p = "b<2" THEN "b" ELSE "a"
DemandIn(op, out) ==
  CASE op.k = "where" -> IF out.all THEN DAll ELSE DKeys(out.fs \cup {PredField(op.ps[i]) : i \in 1..Len(op.ps)})
    [] op.k = "summ"  -> IF op.fn # "" THEN DAll          \* a call in the key expression: inferDemandExprIn's default
                         ELSE DKeys((IF op.key = "" THEN {} ELSE {op.kr}) \cup (IF op.agg = "sum" THEN {"b"} ELSE {}))
    [] op.k = "yield" -> IF ~out.all /\ out.fs = {} THEN out ELSE DKeys({op.f})
    [] OTHER -> DAll           \* "conservatively assume that op uses its entire input"
RECURSIVE DemandFrom(_, _)
DemandFrom(ops, out) == IF ops = <<>> THEN out ELSE DemandFrom(SubSeq(ops, 1, Len(ops) - 1), DemandIn(ops[Len(ops)], out))
\* a keyless summarize is `summarize | yield <agg>` in the real plan
DemandAtSource(ops) == DemandFrom(ops, DAll)
Project(v, d) == IF d.all \/ v.t # "rec" THEN v ELSE RecV(SelectSeq(v.fs, LAMBDA e : e.f \in d.fs))
DemandStr(d) == IF d.all \/ d.fs = {} THEN "*"        \* demand.Fields: nil = no projection
                ELSE IF d.fs = {"a"} THEN "a" ELSE IF d.fs = {"b"} THEN "b" ELSE "a,b"

\* Optimize: result [src, ops, taint, rules, demand]
Optimize(prog) ==
  LET r1 == WalkNamed("mergeFilters", Acc(prog.ops, {}, {}), TRUE)
      r2 == WalkNamed("removePass", r1, TRUE)
      r3 == WalkNamed("parallels", r2, TRUE)
      r4 == WalkNamed("mergeFilters", r3, TRUE)
      \* optimizeSourcePaths
      r5 == LegEntries(r4, 1, 1)
      p6 == PSK(r5.seq, <<SrcKey(prog.src.sk)>>, [taint |-> r5.taint, rules |-> r5.rules])
      lift == p6.seq # <<>> /\ p6.seq[1].k = "where"        \* matchFilter
      src7 == IF lift THEN [prog.src EXCEPT !.filter = p6.seq[1].ps] ELSE prog.src
      \* the scanner delivers only values for which the filter is true; the where
      \* operator it replaces also passes on error results
      r7 == Acc(IF lift THEN Tail(p6.seq) ELSE p6.seq,
                p6.taint \cup (IF lift /\ ErrCapable(p6.seq[1].ps) THEN {"pushdown-error"} ELSE {}),
                IF lift THEN p6.rules \cup {"filter-into-source"} ELSE p6.rules)
      \* removePassOps; insertDemand; removePassOps.  The pass operators are removed first
      \* because every placeholder written by liftIntoParPaths is the one shared dag.PassOp
      \* and InferDemandSeqOut requires distinct operators (fix 665e9a798).
      r8 == WalkNamed("removePass", r7, TRUE)
  IN [src |-> src7, ops |-> r8.seq, taint |-> r8.taint, rules |-> r8.rules,
      demand |-> DemandAtSource(r8.seq)]

\* ------------------------------------------------------ operator alphabet
W(p) == [k |-> "where", ps |-> <<p>>]
CutOp(l, r) == [k |-> "cut", l |-> l, r |-> r]
PutOp(l, r) == [k |-> "put", l |-> l, r |-> r]
RenOp(l, r) == [k |-> "rename", l |-> l, r |-> r]
SortOp(f, desc, rev, nf) == [k |-> "sort", f |-> f, desc |-> desc, rev |-> rev, nf |-> nf]
\* key expression: the field kr, or fn(kr) with fn = "floor" (on the integer keys used here floor is the identity)
SummOp(agg, key, kr) == [k |-> "summ", agg |-> agg, key |-> key, kr |-> kr, fn |-> "", dir |-> 0, pin |-> FALSE, pout |-> FALSE]
SummFn(agg, key, kr, fn) == [SummOp(agg, key, kr) EXCEPT !.fn = fn]
KeyExprText(op) == IF op.fn = "" THEN op.kr ELSE op.fn \o "(" \o op.kr \o ")"
ForkOp(l1, l2) == [k |-> "fork", legs |-> <<l1, l2>>]
SwOp(p1, s1, p2, s2) == [k |-> "switch", cases |-> <<[p |-> p1, path |-> s1], [p |-> p2, path |-> s2]>>]
JoinOp(style) == [k |-> "join", style |-> style, ldir |-> 0, rdir |-> 0]
PassOp == [k |-> "pass"]

SimpleOps1 ==
  { W("a>0"), W("b<2"), W("!(a>0)"), W("1/a>0"),
    CutOp("a", "a"), CutOp("b", "b"), [k |-> "cutcount"],
    [k |-> "drop", f |-> "a"],
    PutOp("c", "a"), PutOp("a", "b"),
    RenOp("c", "a"), RenOp("a", "b"),
    SortOp("a", FALSE, FALSE, FALSE), SortOp("a", FALSE, TRUE, FALSE), SortOp("a", TRUE, FALSE, FALSE),
    SortOp("a", FALSE, FALSE, TRUE), SortOp("b", FALSE, FALSE, FALSE),
    [k |-> "head", n |-> 1], [k |-> "head", n |-> 2], [k |-> "tail", n |-> 1],
    [k |-> "uniq"], PassOp,
    SummOp("count", "a", "a"), SummOp("sum", "a", "a"), SummOp("count", "a", "b"), SummOp("count", "", ""),
    SummFn("count", "a", "b", "floor") }
SimpleOps2 == SimpleOps1 \cup
  { CutOp("c", "a"), CutOp("a", "b"), [k |-> "drop", f |-> "b"], PutOp("b", "a"),
    SortOp("a", TRUE, TRUE, FALSE), SortOp("a", TRUE, FALSE, TRUE), SortOp("b", TRUE, FALSE, FALSE),
    [k |-> "tail", n |-> 2], SummOp("sum", "a", "b"), SummOp("count", "b", "b"), SummFn("count", "a", "a", "floor") }
SimpleOps == IF Level >= 2 THEN SimpleOps2 ELSE SimpleOps1
Terminal == { [k |-> "yield", f |-> "a"] } \cup (IF Level >= 2 THEN { [k |-> "yield", f |-> "b"] } ELSE {})

ForkOps1 ==
  { ForkOp(<<PassOp>>, <<PassOp>>),
    ForkOp(<<W("a>0")>>, <<W("!(a>0)")>>),
    ForkOp(<<W("b<2")>>, <<PassOp>>),
    ForkOp(<<SortOp("a", FALSE, FALSE, FALSE)>>, <<SortOp("a", FALSE, FALSE, FALSE)>>),
    ForkOp(<<SortOp("a", TRUE, FALSE, FALSE)>>, <<W("b<2"), SortOp("a", TRUE, FALSE, FALSE)>>),
    ForkOp(<<SortOp("a", FALSE, FALSE, TRUE)>>, <<SortOp("a", FALSE, FALSE, TRUE)>>),
    ForkOp(<<PutOp("c", "a")>>, <<PassOp, W("a>0"), W("b<2")>>),
    ForkOp(<<SortOp("a", FALSE, FALSE, FALSE)>>, <<PassOp>>) }
ForkOps2 == ForkOps1 \cup
  { ForkOp(<<SortOp("a", FALSE, TRUE, FALSE)>>, <<SortOp("a", FALSE, TRUE, FALSE)>>),
    ForkOp(<<SortOp("a", FALSE, FALSE, FALSE), SummOp("count", "a", "a")>>, <<PassOp>>),
    ForkOp(<<[k |-> "head", n |-> 1]>>, <<W("a>0"), SortOp("b", FALSE, FALSE, FALSE)>>) }
ForkOps == IF Level >= 2 THEN ForkOps2 ELSE ForkOps1
SwitchOps ==
  { SwOp("a>0", <<PassOp>>, "b<2", <<PutOp("c", "a")>>),
    SwOp("a>0", <<PassOp>>, "true", <<PassOp>>),
    SwOp("!(a>0)", <<W("b<2"), W("a>0"), PassOp>>, "true", <<SortOp("a", FALSE, FALSE, FALSE), SummOp("count", "a", "a")>>) }
JoinOps == { JoinOp("inner"), JoinOp("left"), JoinOp("right") } \cup (IF Level >= 2 THEN { JoinOp("anti") } ELSE {})
MergeOps == { [k |-> "merge", f |-> "a", desc |-> FALSE] }

\* (a floor key over a missing operand is a non-missing error value inside a field; nothing
\* follows such a summarize here, so that error-valued fields stay out of the predicates)
IsTerminal(op) == op.k = "yield" \/ (op.k = "summ" /\ (op.key = "" \/ op.fn # ""))
NextOps(prog) ==
  IF prog # <<>> /\ IsTerminal(prog[Len(prog)]) THEN {}
  ELSE SimpleOps \cup Terminal \cup ForkOps \cup SwitchOps
       \cup (IF prog # <<>> /\ prog[Len(prog)].k = "fork" THEN JoinOps ELSE {})
       \* merge reads its parents head-of-line; behind a fork whose legs stream (no sort) the
       \* real fork/merge pair can stall even as analyzed, which is not this property's concern
       \cup (IF prog # <<>> /\ prog[Len(prog)].k = "fork"
                /\ \A m \in 1..Len(prog[Len(prog)].legs) :
                      LET leg == prog[Len(prog)].legs[m] IN leg[Len(leg)].k = "sort"
             THEN MergeOps ELSE {})

\* ------------------------------------------------------------------ inputs
\* R(a, b): -1 = null, -2 = field absent
FV(n) == IF n = -1 THEN NULL ELSE IntV(n)
R(a, b) == RecV((IF a = -2 THEN <<>> ELSE <<Fld("a", FV(a))>>) \o (IF b = -2 THEN <<>> ELSE <<Fld("b", FV(b))>>))
AVals == {0, 1, 2, -1, -2}
BVals == {0, 1, 2, -1, -2}
AllRecs == {R(a, b) : a \in AVals, b \in BVals} \ {RecV(<<>>)}

QuickInputs == <<
  <<>>,
  <<R(1, 0)>>,
  <<R(-2, 1)>>,
  <<R(0, 1), R(1, 0)>>,
  <<R(1, 0), R(0, 1)>>,
  <<R(1, 1), R(1, 1)>>,
  <<R(-1, 0), R(1, 2)>>,
  <<R(1, 2), R(-1, 0)>>,
  <<R(0, 1), R(1, 0), R(2, 2)>>,
  <<R(2, 2), R(1, 0), R(0, 1)>>,
  <<R(1, 0), R(0, 1), R(2, 2)>>,
  <<R(0, 0), R(1, 1), R(0, 2)>>,
  <<R(1, 0), R(1, 1), R(2, 0)>>,
  <<R(0, 1), R(1, 0), R(-1, 2)>>,
  <<R(-1, 2), R(1, 0), R(0, 1)>>,
  <<R(1, 0), R(-1, 1), R(0, 2)>>,
  <<R(1, -1), R(-2, 1), R(0, -2)>>,
  <<R(0, 2), R(-2, 0), R(-1, 1)>>,
  <<R(0, 0), R(0, 0), R(1, 0), R(1, 0)>>,
  <<R(0, 1), R(1, 0), R(1, 2), R(2, 1)>>,
  <<R(2, 1), R(1, 0), R(1, 2), R(0, 1)>>,
  <<R(1, 0), R(0, 1), R(2, 0), R(0, 2)>>,
  <<R(0, 0), R(1, 1), R(-1, 2), R(-1, 0)>>,
  <<R(-1, 1), R(-1, 0), R(2, 2), R(1, 1)>>,
  <<R(2, 0), R(-1, 1), R(1, 2), R(-2, 0)>>,
  <<R(1, 2), R(-2, 1), R(-1, 0), R(1, -1), R(0, 0)>>,
  <<R(0, 1), R(0, 2), R(1, 0), R(2, 1), R(2, 0), R(-1, 1)>> >>

RECURSIVE SeqsUpTo(_, _)
SeqsUpTo(S, n) == IF n = 0 THEN {<<>>}
                  ELSE LET prev == SeqsUpTo(S, n - 1) IN prev \cup {Append(s, x) : s \in {t \in prev : Len(t) = n - 1}, x \in S}
MidRecs == {R(a, b) : a \in {0, 1, -1, -2}, b \in {0, 2, -1}}
\* "quick": six of the curated inputs (sorted asc, asc with nulls, desc with nulls first,
\* unsorted with null and missing in either field, sorted with adjacent duplicate keys)
CoreIx == {9, 17, 18, 23, 24, 27}
InputsOf ==
  IF InputSet = "quick" THEN {QuickInputs[i] : i \in CoreIx}
  ELSE IF InputSet = "curated" THEN SeqRange(QuickInputs)
  ELSE IF InputSet = "mid" THEN SeqRange(QuickInputs) \cup SeqsUpTo(MidRecs, 2) \cup SeqsUpTo({R(0, 1), R(1, 0), R(-1, 2), R(-2, 0)}, 3)
  ELSE SeqRange(QuickInputs) \cup SeqsUpTo(AllRecs, 2) \cup SeqsUpTo(MidRecs, 3)

\* A declared sort key is truthful: the input is sorted the way the lake sorts
\* (nullsMax: nulls last for asc, first for desc) and equal keys are contiguous.
SortKeysOf(inp) ==
  {""} \cup (IF SortedBy(inp, MaxCmp("a", FALSE)) /\ Grouped(inp, "a") THEN {"a:asc"} ELSE {})
       \cup (IF SortedBy(inp, MaxCmp("a", TRUE)) /\ Grouped(inp, "a") THEN {"a:desc"} ELSE {})

\* --------------------------------------------------------------- rendering
RECURSIVE JoinStr(_, _)
JoinStr(ss, sep) == IF ss = <<>> THEN "" ELSE IF Len(ss) = 1 THEN ss[1] ELSE ss[1] \o sep \o JoinStr(Tail(ss), sep)

RECURSIVE ValStr(_)
ValStr(v) ==
  CASE v.t = "int" -> ToString(v.n)
    [] v.t = "null" -> "null"
    [] v.t = "err" -> "err"
    [] v.t = "errv" -> "errv"
    [] v.t = "rec" -> "{" \o JoinStr([i \in 1..Len(v.fs) |-> v.fs[i].f \o ":" \o ValStr(v.fs[i].v)], ",") \o "}"
ValStrs(s) == [i \in 1..Len(s) |-> ValStr(s[i])]

\* Zed source text of an operator
RECURSIVE OpText(_), SeqText(_)
SeqText(seq) == JoinStr([i \in 1..Len(seq) |-> OpText(seq[i])], " | ")
OpText(op) ==
  CASE op.k = "where" -> "where " \o JoinStr(op.ps, " and ")
    [] op.k = "cut" -> "cut " \o op.l \o ":=" \o op.r
    [] op.k = "cutcount" -> "cut c:=count()"
    [] op.k = "drop" -> "drop " \o op.f
    [] op.k = "put" -> "put " \o op.l \o ":=" \o op.r
    [] op.k = "rename" -> "rename " \o op.l \o ":=" \o op.r
    [] op.k = "yield" -> "yield " \o op.f
    [] op.k = "sort" -> "sort" \o (IF op.rev THEN " -r" ELSE "") \o (IF op.nf THEN " -nulls first" ELSE "")
                         \o " " \o op.f \o (IF op.desc THEN " desc" ELSE "")
    [] op.k = "head" -> "head " \o ToString(op.n)
    [] op.k = "tail" -> "tail " \o ToString(op.n)
    [] op.k = "uniq" -> "uniq"
    [] op.k = "pass" -> "pass"
    [] op.k = "summ" -> IF op.key = "" THEN "count()"
                        ELSE (IF op.agg = "count" THEN "count()" ELSE "sum(b)") \o " by " \o op.key \o ":=" \o KeyExprText(op)
    [] op.k = "fork" -> "fork (" \o JoinStr([i \in 1..Len(op.legs) |-> "=> " \o SeqText(op.legs[i])], " ") \o ")"
    [] op.k = "switch" -> "switch (" \o JoinStr([i \in 1..Len(op.cases) |->
                              (IF op.cases[i].p = "true" THEN "default" ELSE "case " \o op.cases[i].p)
                              \o " => " \o SeqText(op.cases[i].path)], " ") \o ")"
    [] op.k = "merge" -> "merge " \o op.f
    [] op.k = "join" -> (IF op.style = "inner" THEN "" ELSE op.style \o " ") \o "join on a=a c:=b"

\* canonical form of a plan; the harness renders the real optimized DAG the same way
RECURSIVE OpCanon(_), SeqCanon(_)
SeqCanon(seq) == JoinStr([i \in 1..Len(seq) |-> OpCanon(seq[i])], " | ")
B01(b) == IF b THEN "1" ELSE "0"
OpCanon(op) ==
  CASE op.k = "where" -> "where " \o JoinStr(op.ps, " and ")
    [] op.k = "cut" -> "cut " \o op.l \o ":=" \o op.r
    [] op.k = "cutcount" -> "cut c:=count()"
    [] op.k = "drop" -> "drop " \o op.f
    [] op.k = "put" -> "put " \o op.l \o ":=" \o op.r
    [] op.k = "rename" -> "rename " \o op.l \o ":=" \o op.r
    [] op.k = "yield" -> "yield " \o op.f
    [] op.k = "sort" -> "sort " \o op.f \o (IF op.desc THEN " desc" ELSE " asc") \o " r=" \o B01(op.rev) \o " nf=" \o B01(op.nf)
    [] op.k = "head" -> "head " \o ToString(op.n)
    [] op.k = "tail" -> "tail " \o ToString(op.n)
    [] op.k = "uniq" -> "uniq"
    [] op.k = "pass" -> "pass"
    [] op.k = "summ" ->
         LET flags == " dir=" \o ToString(op.dir) \o " pin=" \o B01(op.pin) \o " pout=" \o B01(op.pout) IN
         IF op.key = "" THEN "summ count:=count()" \o flags \o (IF op.pout THEN "" ELSE " | yield count")
         ELSE "summ " \o op.agg \o ":=" \o (IF op.agg = "count" THEN "count()" ELSE "sum(b)")
              \o " by " \o op.key \o ":=" \o KeyExprText(op) \o flags
    [] op.k = "fork" -> "fork(" \o JoinStr([i \in 1..Len(op.legs) |-> SeqCanon(op.legs[i])], " => ") \o ")"
    [] op.k = "switch" -> "switch(" \o JoinStr([i \in 1..Len(op.cases) |->
                              op.cases[i].p \o " -> " \o SeqCanon(op.cases[i].path)], " => ") \o ")"
    [] op.k = "merge" -> "merge " \o op.f \o (IF op.desc THEN " desc" ELSE " asc")
    [] op.k = "join" -> "join " \o op.style \o " a=a c:=b ldir=" \o ToString(op.ldir) \o " rdir=" \o ToString(op.rdir)
PlanCanon(src, ops) ==
  "reader" \o (IF src.filter = <<>> THEN "" ELSE " filter(" \o JoinStr(src.filter, " and ") \o ")")
  \o (IF ops = <<>> THEN "" ELSE " | " \o SeqCanon(ops))

CmpStr(c) == IF c = NoCmp THEN "" ELSE c.f \o (IF c.desc THEN ":desc" ELSE ":asc") \o (IF c.nf THEN ":nf" ELSE ":nl")
\* ---------------------------------------------------------- state machine
VARIABLES prog, inp, sk
vars == <<prog, inp, sk>>

\* Besides the empty program, exploration starts from a few two-operator prefixes
\* (which may be extended by one more operator whatever MaxOps is) so that rules
\* needing three operators are reached exhaustively.
StartProgs == { <<>>,
                <<ForkOp(<<SortOp("a", FALSE, FALSE, FALSE)>>, <<SortOp("a", FALSE, FALSE, FALSE)>>), [k |-> "merge", f |-> "a", desc |-> FALSE]>>,
                <<ForkOp(<<W("b<2"), SortOp("a", FALSE, FALSE, FALSE)>>, <<SortOp("a", FALSE, FALSE, FALSE)>>), [k |-> "merge", f |-> "a", desc |-> FALSE]>>,
                <<CutOp("b", "b"), RenOp("a", "b")>>,
                <<PutOp("c", "a"), W("1/a>0")>>,
                <<ForkOp(<<PassOp>>, <<PassOp>>), W("a>0"), ForkOp(<<W("b<2")>>, <<PassOp>>)>> }
Init == /\ prog \in StartProgs
        /\ inp \in InputsOf
        /\ sk \in SortKeysOf(inp)
Next == /\ (Len(prog) < MaxOps \/ prog \in (StartProgs \ {<<>>}))
        /\ \E op \in NextOps(prog) : prog' = Append(prog, op)
        /\ UNCHANGED <<inp, sk>>
Spec == Init /\ [][Next]_vars

Program == [src |-> [filter |-> <<>>, sk |-> sk], ops |-> prog]

ResJson(x) == [s |-> ValStrs(x.s), cls |-> x.cls, ord |-> x.ord, by |-> CmpStr(x.by), det |-> x.det, poison |-> x.poison]

\* One evaluation per state: the meaning as analyzed (ref), the rewrite (rw), the
\* meaning of the rewritten plan (opt).
\*   Preserved: an untainted rewrite preserves the meaning of every program/input
\*              pair whose meaning is defined.
\*   RefSane:   the program as analyzed never relies on an order it does not have.
\*   DemandSound: pruning the source's output to the inferred demand does not change
\*              the result of the rewritten plan.
\* The case is printed (Emit) before the verdict so that a counterexample is visible.
Check ==
  LET ref == Sem(Program, inp)
      rw  == Optimize(Program)
      opt == Sem([src |-> rw.src, ops |-> rw.ops], inp)
      eq  == Equiv(ref, opt)
      \* demand pruning: a scanner that delivers only the demanded fields (after its
      \* own filter) must not change the result of the rewritten plan
      d == rw.demand
      pruned == Sem([src |-> [rw.src EXCEPT !.filter = <<>>], ops |-> rw.ops],
                    [i \in 1..Len(SelectSeq(inp, LAMBDA v : AllT(rw.src.filter, v))) |->
                       Project(SelectSeq(inp, LAMBDA v : AllT(rw.src.filter, v))[i], d)])
      demandOK == (d.all \/ d.fs = {} \/ opt.poison \/ ~opt.det) \/ (SameBag(pruned.s, opt.s) /\ (opt.ord => pruned.s = opt.s))
      case == [ops |-> [i \in 1..Len(prog) |-> OpText(prog[i])], input |-> ValStrs(inp), sk |-> sk,
               ref |-> ResJson(ref), plan |-> PlanCanon(rw.src, rw.ops), opt |-> ResJson(opt),
               taint |-> rw.taint, rules |-> rw.rules, eq |-> eq, demand |-> DemandStr(d)]
      \* Emit: every program of <= 1 operator, every state in which a rule fired (the plan
      \* changed), and for the rest the states over the curated inputs with an index in EmitPlain.
      ok == ~ref.poison /\ ((ref.det /\ rw.taint = {}) => eq) /\ demandOK       \* RefSane /\ Preserved /\ DemandSound
      \* ... and every extension of a start prefix (they exist for the rules that need three operators)
      fromPrefix == \E sp \in StartProgs \ {<<>>} : Len(prog) > Len(sp) /\ SubSeq(prog, 1, Len(sp)) = sp
      emit == Emit /\ (Len(prog) <= 1 \/ rw.rules # {} \/ ~ok \/ fromPrefix \/ \E i \in EmitPlain : i <= Len(QuickInputs) /\ inp = QuickInputs[i])
  IN (emit => PrintT(ToJson(case))) /\ ok
=============================================================================
