------------------------------- MODULE Pruner -------------------------------
(***************************************************************************)
(* C16 -- pool-key pruning never changes a query's result.                 *)
(*                                                                         *)
(* Transcription of compiler/optimizer/optimizer.go: buildRangePruner,     *)
(* rangePrunerPred, literalComparison, reverseComparator and compare(),    *)
(* next to the evaluator's comparison semantics                            *)
(* (runtime/sam/expr/eval.go Compare.Eval / Equal.Eval / And / Or / Not)   *)
(* and the nulls-max total order of runtime/sam/expr/sort.go compareValues *)
(* which defines an object's [min,max] and the compare() function the      *)
(* pruner expression calls.                                                *)
(*                                                                         *)
(* The key domain is a small ordered set with cross-type members: ints,    *)
(* one float strictly between two ints, strings, null and missing.         *)
(* Numbers are scaled by 2 so that 1.5 is the integer 3.                   *)
(*                                                                         *)
(* TLC checks Sound exhaustively over all predicates up to Depth and all   *)
(* ranges, and exports the case table (Cases) that the Go harness replays  *)
(* on the real optimizer / expression compiler / lake.                     *)
(***************************************************************************)
EXTENDS Integers, Sequences, SequencesExt, FiniteSets, TLC, Json

CONSTANTS Depth,        \* 1: atoms only; 2: and/or/not over atoms
          OutFile       \* file the case table is written to ("" = no export)

\* ---------------------------------------------------------------- values
NULL    == [t |-> "null", n |-> 0]
NULLI   == [t |-> "nullint", n |-> 0]       \* null(int64): a typed null key
MISSING == [t |-> "missing", n |-> 0]
IntV(i)  == [t |-> "int", n |-> 2 * i]
Flt15   == [t |-> "float", n |-> 3]        \* 1.5
Str(i)  == [t |-> "str", n |-> i]          \* "a" < "b"

Lits  == {IntV(0), IntV(1), IntV(2), IntV(3), Flt15, Str(0), Str(1), NULL}
Keys  == Lits \cup {NULLI}                   \* stored key values (non-missing)
AllK  == Keys \cup {MISSING}                \* what a record's key may evaluate to

IsNum(v) == v.t \in {"int", "float"}
IsNullish(v) == v.t \in {"null", "nullint", "missing"}
IsNullV(v) == v.t \in {"null", "nullint"}
Sign(d) == IF d < 0 THEN -1 ELSE IF d > 0 THEN 1 ELSE 0
\* order of type ids for values of different, non-numeric-compatible types
TypeRank(v) == IF IsNum(v) THEN 0 ELSE IF v.t = "str" THEN 1 ELSE 2

\* compareValues(a, b, nullsMax = TRUE); missing is treated as null by the
\* lake's import comparator and by compare().
TOrd(a, b) ==
  IF IsNullish(a) /\ IsNullish(b) THEN 0
  ELSE IF IsNullish(a) THEN 1
  ELSE IF IsNullish(b) THEN -1
  ELSE IF IsNum(a) /\ IsNum(b) THEN Sign(a.n - b.n)
  ELSE IF TypeRank(a) # TypeRank(b) THEN Sign(TypeRank(a) - TypeRank(b))
  ELSE Sign(a.n - b.n)

Conv(op, s) == CASE op = "<"  -> s < 0
                 [] op = "<=" -> s <= 0
                 [] op = ">"  -> s > 0
                 [] op = ">=" -> s >= 0
                 [] op = "==" -> s = 0
                 [] op = "!=" -> s # 0

\* Three-valued evaluator result: "T", "F", "E" (error, incl. missing).
B(b) == IF b THEN "T" ELSE "F"

\* Generic path (compiler/kernel compileBinary -> expr.Compare / expr.Equal):
\* used when the right operand is not a compile-time literal, i.e. "lit op k".
EvalGen(op, a, b) ==
  IF a.t = "missing" \/ b.t = "missing" THEN "E"
  ELSE IF op \in {"==", "!="} THEN
       \* coerce.Equal: null == null is true; numbers numerically; else same type & bytes
       LET eq == IF IsNullV(a) \/ IsNullV(b) THEN IsNullV(a) /\ IsNullV(b)
                 ELSE IF IsNum(a) /\ IsNum(b) THEN a.n = b.n
                 ELSE a.t = b.t /\ a.n = b.n
       IN B(IF op = "==" THEN eq ELSE ~eq)
  ELSE IF IsNullV(a) /\ IsNullV(b) THEN B(Conv(op, 0))
  ELSE IF IsNullV(a) \/ IsNullV(b) THEN "F"
  ELSE IF IsNum(a) /\ IsNum(b) THEN B(Conv(op, Sign(a.n - b.n)))
  ELSE IF a.t # b.t THEN "F"
  ELSE B(Conv(op, Sign(a.n - b.n)))

\* Literal fast path (compileConstCompare -> expr.Comparison): "k op lit".
\* A value whose type the literal's comparator does not handle yields false
\* for every operator, "!=" included.  A null literal supports only == and !=
\* (CompareNull); for the other operators Comparison fails and the generic
\* path is used.
EvalLit(op, kv, lit) ==
  IF lit.t = "null" THEN
       IF op \in {"==", "!="} THEN
            IF kv.t = "missing" THEN "E" ELSE B(IsNullV(kv) = (op = "=="))
       ELSE EvalGen(op, kv, lit)
  ELSE IF kv.t = "missing" THEN "E"
  ELSE IF IsNullV(kv) THEN "F"             \* a null value never matches a non-null literal
  ELSE IF IsNum(lit) THEN IF IsNum(kv) THEN B(Conv(op, Sign(kv.n - lit.n))) ELSE "F"
  ELSE IF kv.t = "str" THEN B(Conv(op, Sign(kv.n - lit.n))) ELSE "F"

\* ------------------------------------------------------------ predicates
Ops == {"==", "!=", "<", "<=", ">", ">="}
Atoms == [k : {"cmp"}, op : Ops, lit : Lits, side : {"kl", "lk"}]   \* k op lit | lit op k
           \cup {[k |-> "opaque"]}                                   \* a non-key predicate
Preds1 == Atoms
Preds2 == Atoms
          \cup [k : {"and", "or"}, l : Atoms, r : Atoms]
          \cup [k : {"not"}, e : Atoms]
Preds == IF Depth >= 2 THEN Preds2 ELSE Preds1

\* Evaluate pred on a record whose key evaluates to kv and whose opaque
\* predicate is o.
RECURSIVE Eval(_, _, _)
Eval(p, kv, o) ==
  CASE p.k = "cmp" -> IF p.side = "kl" THEN EvalLit(p.op, kv, p.lit) ELSE EvalGen(p.op, p.lit, kv)
    [] p.k = "opaque" -> B(o)
    [] p.k = "not" -> LET v == Eval(p.e, kv, o) IN IF v = "E" THEN "E" ELSE IF v = "T" THEN "F" ELSE "T"
    [] p.k = "and" -> LET l == Eval(p.l, kv, o) IN
                      IF l = "E" THEN "E" ELSE IF l = "F" THEN "F" ELSE Eval(p.r, kv, o)
    [] p.k = "or"  -> LET l == Eval(p.l, kv, o) IN
                      IF l = "T" THEN "T"
                      \* Or.Eval: a non-missing error on the left is returned; missing falls through.
                      \* In this domain the only error is missing, so fall through.
                      ELSE Eval(p.r, kv, o)

\* ----------------------------------------------------------- the pruner
\* reverseComparator: mirrors the operator when the literal is on the left.
MirrorOp(op) == CASE op = "==" -> "=="
                 [] op = "!=" -> "!="
                 [] op = "<"  -> ">"
                 [] op = "<=" -> ">="
                 [] op = ">"  -> "<"
                 [] op = ">=" -> "<="

\* compare(op, lhs, rhs) == (compare(lhs, rhs, true) op 0)
CmpExpr(op, a, b) == Conv(op, TOrd(a, b))

\* rangePrunerPred(op, literal, min, max)   ["key op literal"]
RangePred(op, lit, mn, mx) ==
  CASE op = "<"  -> CmpExpr("<=", lit, mn)
    [] op = "<=" -> CmpExpr("<", lit, mn)
    [] op = ">"  -> CmpExpr(">=", lit, mx)
    [] op = ">=" -> CmpExpr(">", lit, mx)
    [] op = "==" -> CmpExpr(">", mn, lit) \/ CmpExpr("<", mx, lit)

\* buildRangePruner: "none" (nil) | "T" | "F"
RECURSIVE Prune(_, _, _)
Prune(p, mn, mx) ==
  CASE p.k = "cmp" ->
         LET op == IF p.side = "kl" THEN p.op ELSE MirrorOp(p.op) IN
         IF op = "!=" THEN "none" ELSE B(RangePred(op, p.lit, mn, mx))
    [] p.k = "and" ->
         LET l == Prune(p.l, mn, mx)  r == Prune(p.r, mn, mx) IN
         IF l = "none" THEN r ELSE IF r = "none" THEN l ELSE B(l = "T" \/ r = "T")
    [] p.k = "or" ->
         LET l == Prune(p.l, mn, mx)  r == Prune(p.r, mn, mx) IN
         IF l = "none" \/ r = "none" THEN "none" ELSE B(l = "T" /\ r = "T")
    [] OTHER -> "none"

\* ------------------------------------------------------------- property
Ranges == {<<mn, mx>> \in Keys \X Keys : TOrd(mn, mx) <= 0}
InRange(kv, mn, mx) == TOrd(mn, kv) <= 0 /\ TOrd(kv, mx) <= 0

SoundAt(p, mn, mx) ==
  Prune(p, mn, mx) = "T" =>
     \A kv \in AllK : InRange(kv, mn, mx) => \A o \in BOOLEAN : Eval(p, kv, o) # "T"

Sound == \A p \in Preds : \A r \in Ranges : SoundAt(p, r[1], r[2])

\* Non-vacuity: the pruner does prune something and does decline something.
NonVacuous ==
  /\ \E p \in Preds, r \in Ranges : Prune(p, r[1], r[2]) = "T"
  /\ \E p \in Preds, r \in Ranges : Prune(p, r[1], r[2]) = "F"
  /\ \E p \in Preds, r \in Ranges : Prune(p, r[1], r[2]) = "none"

\* ------------------------------------------------------- case export
KeySeq == <<IntV(0), IntV(1), Flt15, IntV(2), IntV(3), Str(0), Str(1), NULL, NULLI, MISSING>>
\* One record per predicate: the decision for each (i,j) range, the evaluation for each key.
PruneRow(p) == [i \in 1..9 |-> [j \in 1..9 |->
                  IF TOrd(KeySeq[i], KeySeq[j]) <= 0 THEN Prune(p, KeySeq[i], KeySeq[j]) ELSE "-"]]
Row(p) == [pred |-> p, prune |-> PruneRow(p),
           evalT |-> [i \in 1..10 |-> Eval(p, KeySeq[i], TRUE)],
           evalF |-> [i \in 1..10 |-> Eval(p, KeySeq[i], FALSE)]]

Export == OutFile = "" \/ ndJsonSerialize(OutFile, SetToSeq({Row(p) : p \in Preds}))

ASSUME Sound
ASSUME NonVacuous
ASSUME Export

\* A trivial behaviour spec so that TLC has something to run after the ASSUMEs.
VARIABLE done
Init == done = FALSE
Next == done = FALSE /\ done' = TRUE
Spec == Init /\ [][Next]_done
=============================================================================
