------------------------------ MODULE Pushdown ------------------------------
(***************************************************************************)
(* C04 -- filters pushed into the ZNG scanner never change which values    *)
(* match.                                                                  *)
(*                                                                         *)
(* worker.scanBatch (zio/zngio/scanner.go) first runs the BufferFilter on  *)
(* the raw bytes of a whole frame and skips the frame when it is false;    *)
(* only then are the values decoded and the real predicate evaluated.  So  *)
(* the buffer filter must over-approximate the predicate:                  *)
(*        (\E v \in frame : Eval(pred, v))  =>  BF(pred, frame)            *)
(*                                                                         *)
(* This module transcribes                                                 *)
(*   kernel.CompileBufferFilter / isFieldEqualOrIn / newBufferFilterFor-   *)
(*   Literal (compiler/kernel/bufferfilter.go),                            *)
(*   expr.BufferFilter.Eval, expr.FieldNameFinder.Find and FieldNameIter   *)
(*   (runtime/sam/expr/bufferfilter.go, fieldnamefinder.go)                *)
(* as BF(pred, v) over abstract value trees, next to the evaluator         *)
(* semantics Eval(pred, v) of                                              *)
(*   expr.searchString.Eval / searchType (keyword search: field names and  *)
(*   string values, over zed.Walk), expr.filter with Comparison("==")      *)
(*   (field == literal) and expr.In.Eval (literal in field, over Walk).    *)
(*                                                                         *)
(* A frame's filter result is at least the disjunction over its values     *)
(* (the string finders scan the whole buffer, the field name finder every  *)
(* value's type), so the property is checked per value.                    *)
(*                                                                         *)
(* TLC checks OverApprox over all predicates of depth <= PredDepth and all *)
(* value trees of depth <= ValDepth, and exports the case table that the   *)
(* Go harness (harness/props/c04) replays on the real expression compiler, *)
(* the real buffer filter over real ZNG frames, and the real scanner.      *)
(***************************************************************************)
EXTENDS Integers, Sequences, SequencesExt, FiniteSets, TLC, Json

CONSTANTS Small,        \* TRUE: fewer field names and container kinds (quick tier)
          ValDepth,     \* nesting depth of the field value below the top-level record (1..2)
          PredDepth,    \* 1: atoms, 2: and/or/not over atoms
          OutFile,      \* ndjson file for the case table ("" = none)
          FoldFile,     \* ndjson file for the case-folding table ("" = none)
          FoldLen       \* case-folding table: texts of length 2..FoldLen

\* ---------------------------------------------------------------- values
\* [k, s, n, cs]: kind, string payload, int payload, children <<[n |-> field name or "", v |-> value]>>
Val(k, s, n, cs) == [k |-> k, s |-> s, n |-> n, cs |-> cs]
Str(s)   == Val("str", s, 0, <<>>)
IntV(n)  == Val("int", "", n, <<>>)
Null     == Val("null", "", 0, <<>>)
TypeV(f) == Val("type", f, 0, <<>>)                  \* a type value <{f:int64}>
Ch(n, v) == [n |-> n, v |-> v]
Rec1(f, v) == Val("rec", "", 0, <<Ch(f, v)>>)
Rec2(f, v, g, w) == Val("rec", "", 0, <<Ch(f, v), Ch(g, w)>>)
Arr(v)   == Val("arr", "", 0, <<Ch("", v)>>)
ArrEmpty(f) == Val("arr0", f, 0, <<>>)               \* [] of type [{f:int64}]: the record type has no instance
SetOf(v) == Val("set", "", 0, <<Ch("", v)>>)
MapVal(v) == Val("map", "", 0, <<Ch("", Str("bar")), Ch("", v)>>)   \* |{"bar":v}|
MapKey(v) == Val("map", "", 0, <<Ch("", v), Ch("", IntV(1))>>)      \* |{v:1}|
UArr(v)  == Val("arr", "", 0, <<Ch("", Val("union", "", 0, <<Ch("", v)>>)), Ch("", Val("union", "", 0, <<Ch("", IntV(7))>>))>>)  \* [v,7]
Named(v) == Val("named", "", 0, <<Ch("", v)>>)
ErrV(v)  == Val("err", "", 0, <<Ch("", v)>>)

\* the search term is "foo" (ASCII, so the case-insensitive finder is used)
MatchS(s) == s \in {"foo", "xFOOx", "xfoo"}          \* stringSearch(s, "foo"): case-insensitive substring
ExactS(s) == s = "foo"

Leaves == {Str("foo"), Str("xFOOx"), Str("bar"), IntV(1), Null, TypeV("foo")}
Names  == IF Small THEN {"foo", "k"} ELSE {"foo", "k", "xfoo"}
\* (an empty array is not given a type name: its ZSON text is not stable; no name of a name)
NamedOf(v) == IF v.k \in {"arr0", "named"} THEN {} ELSE {Named(v)}
Wraps(v) == IF Small THEN {Arr(v), MapVal(v), UArr(v), ErrV(v)} \cup NamedOf(v)
            ELSE {Arr(v), SetOf(v), MapVal(v), MapKey(v), UArr(v), ErrV(v)} \cup NamedOf(v)
RECURSIVE Level(_)
Level(d) == IF d = 0 THEN Leaves \cup {ArrEmpty("foo")}
            ELSE LET p == Level(d - 1) IN
                 Leaves \cup {Rec1(f, v) : f \in Names, v \in p} \cup UNION {Wraps(v) : v \in p}
\* top-level values: records {k: x}, {foo: x}, {k: x, z: "bar"} and a few non-record values
Tops == LET inner == Level(ValDepth) IN
        {Rec1("k", x) : x \in inner} \cup {Rec1("foo", x) : x \in Level(0)}
        \cup {Rec2("z", Str("bar"), "k", x) : x \in Level(1)}
        \cup {Named(Rec1("k", x)) : x \in Level(1)}
        \cup {Arr(Rec1("foo", IntV(1))), Str("foo"), UArr(Rec1("foo", IntV(1)))}

\* ------------------------------------------------------------- tree walks
Under(v) == IF v.k = "named" THEN v.cs[1].v ELSE v     \* zed.TypeUnder (one level of naming is enough here)
IsRec(v) == Under(v).k = "rec"

\* zed.Walk: pre-order over the value, stepping into named, record, array, set, union, map, error
RECURSIVE Nodes(_)
Nodes(v) == {v} \cup UNION {Nodes(v.cs[i].v) : i \in 1..Len(v.cs)}

\* FieldNameIter over a record TYPE: the (dotted) names reachable by stepping into
\* fields whose type is itself a record (zed.TypeUnder(field.Type).(*TypeRecord)); no
\* stepping into arrays, sets, maps, unions or errors.  A name matches when any of
\* its components does (substring match on the dotted name; the term has no dot).
RECURSIVE RecNames(_)
RecNames(v) ==     \* v is a record (possibly named)
  LET r == Under(v) IN
  UNION {{r.cs[i].n} \cup (IF IsRec(r.cs[i].v) THEN RecNames(r.cs[i].v) ELSE {}) : i \in 1..Len(r.cs)}
TypeHasName(v) == IsRec(v) /\ \E nm \in RecNames(v) : MatchS(nm)

\* ------------------------------------------------------------- predicates
Atoms == {"search", "eqk", "ink", "inthis", "eq1", "glob"}
\*   search : keyword search  foo
\*   eqk    : k=="foo"      ink : "foo" in k      inthis : "foo" in this
\*   eq1    : k==1 (numeric literal: no buffer filter)   glob : grep(/fo+x/) (no buffer filter)
A(a) == [op |-> "atom", a |-> a, l |-> <<>>, r |-> <<>>]
Not(p) == [op |-> "not", a |-> "", l |-> <<p>>, r |-> <<>>]
And(p, q) == [op |-> "and", a |-> "", l |-> <<p>>, r |-> <<q>>]
Or(p, q) == [op |-> "or", a |-> "", l |-> <<p>>, r |-> <<q>>]
Preds1 == {A(a) : a \in Atoms}
Preds2 == Preds1 \cup {Not(p) : p \in Preds1}
          \cup {And(p, q) : p \in Preds1, q \in {A("search"), A("eqk"), A("eq1")}}
          \cup {Or(p, q) : p \in Preds1, q \in {A("search"), A("eqk"), A("eq1")}}
Preds == IF PredDepth >= 2 THEN Preds2 ELSE Preds1

\* ---------------------------------------------------------- the evaluator
Field(v, f) ==      \* this.f ; "missing" when absent
  LET r == Under(v) IN
  IF r.k = "rec" /\ \E i \in 1..Len(r.cs) : r.cs[i].n = f
  THEN r.cs[CHOOSE i \in 1..Len(r.cs) : r.cs[i].n = f].v
  ELSE Val("missing", "", 0, <<>>)

\* Evaluation results: "T", "F", "M" (error("missing")), "E" (another error value).
\* The scanner keeps a value iff the result is "T" (zngio check()).
T3(b) == IF b THEN "T" ELSE "F"
\* searchString.Eval: searchType(val.Type()) or, over Walk, searchType(node type) or a
\* string node containing the term
EvalSearch(v) == T3(TypeHasName(v) \/ \E nd \in Nodes(v) : TypeHasName(nd) \/ (nd.k = "str" /\ MatchS(nd.s)))
\* expr.filter + Comparison("==", literal): an error operand is returned as is; otherwise the
\* operand must be a string (possibly of a named type) / an int
OperandErr(x) == IF x.k = "missing" THEN "M" ELSE IF Under(x).k = "err" THEN "E" ELSE ""
EvalEqk(v) == LET x == Field(v, "k") IN
              IF OperandErr(x) # "" THEN OperandErr(x) ELSE T3(Under(x).k = "str" /\ ExactS(Under(x).s))
EvalEq1(v) == LET x == Field(v, "k") IN
              IF OperandErr(x) # "" THEN OperandErr(x) ELSE T3(Under(x).k = "int" /\ Under(x).n = 1)
\* In.Eval: an error container (missing included) is returned as is; otherwise
\* coerce.Equal(elem, node) for every node of the container's walk (root included)
EvalIn(x) == IF OperandErr(x) # "" THEN OperandErr(x)
             ELSE T3(\E nd \in Nodes(x) : nd.k = "str" /\ ExactS(nd.s))
\* grep(/fo+x/): matches string values only, case-sensitively; no value here matches
EvalGlob(v) == "F"

\* expr.Not / And / Or (eval.go): a non-boolean operand is returned as is, except that
\* Or moves on to its right operand when the left one is false or missing
RECURSIVE Eval3(_, _)
Eval3(p, v) ==
  CASE p.op = "atom" ->
         (CASE p.a = "search" -> EvalSearch(v)
            [] p.a = "eqk" -> EvalEqk(v)
            [] p.a = "ink" -> EvalIn(Field(v, "k"))
            [] p.a = "inthis" -> EvalIn(v)
            [] p.a = "eq1" -> EvalEq1(v)
            [] p.a = "glob" -> EvalGlob(v))
    [] p.op = "not" -> LET x == Eval3(p.l[1], v) IN IF x = "T" THEN "F" ELSE IF x = "F" THEN "T" ELSE x
    [] p.op = "and" -> LET l == Eval3(p.l[1], v) IN
                       IF l # "T" THEN l ELSE Eval3(p.r[1], v)
    [] p.op = "or" -> LET l == Eval3(p.l[1], v) IN
                      IF l = "T" \/ l = "E" THEN l ELSE Eval3(p.r[1], v)
Eval(p, v) == Eval3(p, v) = "T"

\* ------------------------------------------------------- the buffer filter
\* "nil" (no filter: every frame is decoded), "T", "F"
\* stringsearch.CaseFinder over the frame bytes: string payloads are stored verbatim;
\* a type value stores its field names
CaseFind(v) == \E nd \in Nodes(v) : (nd.k = "str" /\ MatchS(nd.s)) \/ (nd.k = "type" /\ MatchS(nd.s))
\* stringsearch.Finder for the tagged encoding of the literal "foo": a complete string value "foo"
ExactFind(v) == \E nd \in Nodes(v) : nd.k = "str" /\ ExactS(nd.s)
\* FieldNameFinder.Find: per value message, the type looked up by id; not a record => true;
\* otherwise findInType(tr, true) (fix f4f1b882f): the qualified-name iteration on the top-level
\* record and on every record reached through an array, set, map (key and value), union or
\* error -- records that are fields are covered by their parent's qualified names --
\* recursing through the fields.  This works on TYPES: an empty array of records still has
\* its element type (arr0).  The value tree stands for its type here.
RECURSIVE FindInType(_, _)
FindInType(v, checkNames) ==
  LET u == Under(v) IN
  CASE u.k = "rec" -> (checkNames /\ TypeHasName(u)) \/ \E i \in 1..Len(u.cs) : FindInType(u.cs[i].v, FALSE)
    [] u.k \in {"arr", "set", "map", "union", "err"} -> \E i \in 1..Len(u.cs) : FindInType(u.cs[i].v, TRUE)
    [] u.k = "arr0" -> MatchS(u.s)                    \* [] of type [{f:int64}]
    [] OTHER -> FALSE
FieldNameFind(v) == ~IsRec(v) \/ FindInType(v, TRUE)

B(b) == IF b THEN "T" ELSE "F"
RECURSIVE BF(_, _)
BF(p, v) ==
  CASE p.op = "atom" ->
         (CASE p.a = "search" -> B(CaseFind(v) \/ FieldNameFind(v))     \* NewOrBufferFilter(stringCase, fieldName)
            [] p.a \in {"eqk", "ink", "inthis"} -> B(ExactFind(v))     \* isFieldEqualOrIn -> newBufferFilterForLiteral
            [] OTHER -> "nil")                                          \* number literal; regexp
    [] p.op = "and" ->
         LET l == BF(p.l[1], v)  r == BF(p.r[1], v) IN
         IF l = "nil" THEN r ELSE IF r = "nil" THEN l ELSE B(l = "T" /\ r = "T")
    [] p.op = "or" ->
         LET l == BF(p.l[1], v)  r == BF(p.r[1], v) IN
         IF l = "nil" \/ r = "nil" THEN "nil" ELSE B(l = "T" \/ r = "T")
    [] OTHER -> "nil"                                                   \* not: *dag.UnaryExpr => default

\* ------------------------------------------------------------- the property
Sound(p, v) == Eval(p, v) => BF(p, v) # "F"

\* (Until f4f1b882f FieldNameFinder looked only at the value's top-level record type and the
\* property was false for records below arrays, sets, maps, unions and errors.)
OverApprox == \A p \in Preds : \A v \in Tops : Sound(p, v)
\* the shapes of that defect are in the table and are matched through the field-name finder
HiddenCovered == \E v \in Tops : Eval(A("search"), v) /\ ~CaseFind(v) /\ ~TypeHasName(v) /\ BF(A("search"), v) = "T"
NonVacuous ==
  /\ \E p \in Preds, v \in Tops : BF(p, v) = "F" /\ ~Eval(p, v)        \* frames are skipped
  /\ \E p \in Preds, v \in Tops : BF(p, v) = "T" /\ ~Eval(p, v)        \* strictly an over-approximation
  /\ \E p \in Preds, v \in Tops : BF(p, v) = "nil"

\* --------------------------------------------------------------- rendering
RECURSIVE JoinStr(_, _)
JoinStr(ss, sep) == IF ss = <<>> THEN "" ELSE IF Len(ss) = 1 THEN ss[1] ELSE ss[1] \o sep \o JoinStr(Tail(ss), sep)
\* a type name per type shape, so that one name never denotes two types in a stream
RECURSIVE TypeSig(_)
TypeSig(v) ==
  CASE v.k = "str" -> "s" [] v.k = "int" -> "i" [] v.k = "null" -> "n" [] v.k = "type" -> "t" [] v.k = "arr0" -> "e"
    [] v.k = "rec" -> "R" \o JoinStr([i \in 1..Len(v.cs) |-> v.cs[i].n \o TypeSig(v.cs[i].v)], "") \o "_"
    [] v.k = "named" -> "N" \o TypeSig(v.cs[1].v)
    [] OTHER -> (CASE v.k = "arr" -> "A" [] v.k = "set" -> "S" [] v.k = "map" -> "M" [] v.k = "union" -> "U" [] v.k = "err" -> "E")
                \o JoinStr([i \in 1..Len(v.cs) |-> TypeSig(v.cs[i].v)], "") \o "_"
RECURSIVE ZSON(_)
ZSON(v) ==
  CASE v.k = "str" -> "\"" \o v.s \o "\""
    [] v.k = "int" -> ToString(v.n)
    [] v.k = "null" -> "null"
    [] v.k = "type" -> "<{" \o v.s \o ":int64}>"
    [] v.k = "rec" -> "{" \o JoinStr([i \in 1..Len(v.cs) |-> v.cs[i].n \o ":" \o ZSON(v.cs[i].v)], ",") \o "}"
    [] v.k = "arr" -> "[" \o JoinStr([i \in 1..Len(v.cs) |-> ZSON(v.cs[i].v)], ",") \o "]"
    [] v.k = "arr0" -> "[]([{" \o v.s \o ":int64}])"
    [] v.k = "set" -> "|[" \o ZSON(v.cs[1].v) \o "]|"
    [] v.k = "map" -> "|{" \o ZSON(v.cs[1].v) \o ":" \o ZSON(v.cs[2].v) \o "}|"
    [] v.k = "union" -> ZSON(v.cs[1].v)
    [] v.k = "named" -> ZSON(v.cs[1].v) \o "(=nm_" \o TypeSig(v.cs[1].v) \o ")"
    [] v.k = "err" -> "error(" \o ZSON(v.cs[1].v) \o ")"
\* the body of a `search ...` operator (search boolean expression)
RECURSIVE PText(_)
PText(p) ==
  CASE p.op = "atom" ->
         (CASE p.a = "search" -> "foo"
            [] p.a = "eqk" -> "k==\"foo\""
            [] p.a = "ink" -> "\"foo\" in k"
            [] p.a = "inthis" -> "\"foo\" in this"
            [] p.a = "eq1" -> "k==1"
            [] p.a = "glob" -> "grep(/fo+x/)")
    [] p.op = "not" -> "not (" \o PText(p.l[1]) \o ")"
    [] p.op = "and" -> "(" \o PText(p.l[1]) \o ") and (" \o PText(p.r[1]) \o ")"
    [] p.op = "or" -> "(" \o PText(p.l[1]) \o ") or (" \o PText(p.r[1]) \o ")"
RECURSIVE PShape(_)
PShape(p) == IF p.op = "atom" THEN p.a
             ELSE IF p.op = "not" THEN "not(" \o PShape(p.l[1]) \o ")"
             ELSE p.op \o "(" \o PShape(p.l[1]) \o "," \o PShape(p.r[1]) \o ")"

\* one row per predicate: its text and, per value, eval/bf as a compact string "E B"
ValSeq == SetToSeq(Tops)
Row(p) == [pred |-> PText(p), shape |-> PShape(p),
           cells |-> [i \in 1..Len(ValSeq) |->
                        (IF Eval(p, ValSeq[i]) THEN "1" ELSE "0") \o BF(p, ValSeq[i])]]
Export == OutFile = "" \/
          ( /\ ndJsonSerialize(OutFile, <<[values |-> [i \in 1..Len(ValSeq) |-> ZSON(ValSeq[i])]]>> \o SetToSeq({Row(p) : p \in Preds})) )

\* ======================================================================
\* Case folding of the keyword search (pkg/stringsearch CaseFinder vs the
\* evaluator's stringSearch / strings.EqualFold)
\* ======================================================================
\* The keyword's buffer filter is NewBufferFilterForStringCase(term) for string values and
\* FieldNameFinder (the same CaseFinder) for field names; the evaluator compares with
\* strings.EqualFold.  Both sides are transcribed over bytes: the letters at the two ends
\* of the alphabet and the non-letters next to them.
\*     '@' 64   'A' 65   'Z' 90   '[' 91   '`' 96   'a' 97   'z' 122   '{' 123
FoldBytes == {64, 65, 90, 91, 96, 97, 122, 123}
Chr(b) == CASE b = 64 -> "@" [] b = 65 -> "A" [] b = 90 -> "Z" [] b = 91 -> "["
            [] b = 96 -> "`" [] b = 97 -> "a" [] b = 122 -> "z" [] b = 123 -> "{"
\* stringsearch.tolower: if b-'A' < 26 { b += 'a'-'A' }   (byte arithmetic: 'A' <= b <= 'Z')
ToLowerByte(b) == IF b >= 65 /\ b - 65 < 26 THEN b + 32 ELSE b
\* strings.ToLower on an ASCII pattern (NewCaseFinder lowers the pattern with the standard library)
StdLower(b) == IF b >= 65 /\ b <= 90 THEN b + 32 ELSE b
\* strings.EqualFold on two ASCII bytes
IsLetter(b) == (b >= 65 /\ b <= 90) \/ (b >= 97 /\ b <= 122)
EqualFoldByte(x, y) == x = y \/ (IsLetter(x) /\ IsLetter(y) /\ StdLower(x) = StdLower(y))
\* CaseFinder.Next(text) # -1: some window of text equals the lowered pattern after tolower
CaseFinds(term, text) ==
  \E off \in 0..(Len(text) - Len(term)) : \A j \in 1..Len(term) : ToLowerByte(text[off + j]) = StdLower(term[j])
\* expr.stringSearch(text, term): some window of text is EqualFold to the term
FoldContains(term, text) ==
  \E off \in 0..(Len(text) - Len(term)) : \A j \in 1..Len(term) : EqualFoldByte(text[off + j], term[j])
FoldTerms == {<<x, y>> : x \in FoldBytes, y \in FoldBytes}           \* >= 2 bytes, ASCII: the case finder is used
RECURSIVE FoldTextsOf(_)
FoldTextsOf(n) == IF n = 2 THEN FoldTerms
                  ELSE LET p == FoldTextsOf(n - 1) IN p \cup {Append(t, x) : t \in {u \in p : Len(u) = n - 1}, x \in FoldBytes}
FoldTexts == FoldTextsOf(FoldLen)
\* the buffer filter of `search term` over a frame holding {k:text} (string value) or {text:1}
\* (field name) is CaseFinds; the evaluator says FoldContains
FoldSound == \A term \in FoldTerms : \A text \in FoldTexts : FoldContains(term, text) => CaseFinds(term, text)
FoldNonVacuous == /\ \E term \in FoldTerms, text \in FoldTexts : FoldContains(term, text) /\ term # text    \* a case variant matches
                  /\ \E term \in FoldTerms, text \in FoldTexts : ~CaseFinds(term, text)                     \* frames are skipped
RECURSIVE BytesStr(_)
BytesStr(t) == IF t = <<>> THEN "" ELSE Chr(t[1]) \o BytesStr(Tail(t))
FoldTextSeq == SetToSeq(FoldTexts)
FoldRow(term) == [term |-> BytesStr(term),
                  cells |-> [i \in 1..Len(FoldTextSeq) |->
                               (IF FoldContains(term, FoldTextSeq[i]) THEN "1" ELSE "0") \o (IF CaseFinds(term, FoldTextSeq[i]) THEN "T" ELSE "F")]]
FoldExport == FoldFile = "" \/
              ndJsonSerialize(FoldFile, <<[texts |-> [i \in 1..Len(FoldTextSeq) |-> BytesStr(FoldTextSeq[i])]]>> \o SetToSeq({FoldRow(t) : t \in FoldTerms}))

ASSUME FoldSound
ASSUME FoldNonVacuous
ASSUME FoldExport

ASSUME OverApprox
ASSUME HiddenCovered
ASSUME NonVacuous
ASSUME Export

VARIABLE done
Init == done = FALSE
Next == done = FALSE /\ done' = TRUE
Spec == Init /\ [][Next]_done
=============================================================================
