----------------------------- MODULE ValueShape -----------------------------
(***************************************************************************)
(* C11, last clause: "with validation enabled, every value a binary reader *)
(* hands out is structurally consistent with its type".                    *)
(*                                                                         *)
(* Reference definition Consistent(v, T) of structural consistency of an   *)
(* encoded value (docs/formats/zng.md: container = sequence of tagged      *)
(* elements, record = one element per field, union = selector + value,     *)
(* enum = selector below the number of symbols, set = strictly increasing  *)
(* elements, map = key/value pairs) over a small type alphabet, and the    *)
(* enumeration of value bodies around every bound of the encoding          *)
(* (bound-1, bound, bound+1, huge): enum selector vs number of symbols,     *)
(* union selector vs number of members (and negative), record arity vs     *)
(* number of fields, map parity, set order / duplicates, an element that   *)
(* overruns its container, and the width of a fixed-width primitive (bool  *)
(* 1, float16/32/64 2/4/8, ip 4|16, net 8|32 bytes; Validate's checkWidth   *)
(* since 80d4082b3) at width-1, width, width+1.                            *)
(*                                                                         *)
(* TLC evaluates Consistent on every (type, body) pair and exports the     *)
(* table; the harness encodes each pair, asks the real zed.Value.Validate  *)
(* (value.go, walk.go, zcode/iter.go) and reads it through a validating    *)
(* zngio reader: the real code accepting a pair that is not Consistent is  *)
(* a violation, rejecting a Consistent one is drift.                       *)
(***************************************************************************)
EXTENDS Integers, Sequences, FiniteSets, TLC, Json, SequencesExt

CONSTANT OutFile

\* ------------------------------------------------------------------ types
I        == [k |-> "int"]
En(n)    == [k |-> "enum", n |-> n]
Rec(f)   == [k |-> "rec", f |-> f]
Un(m)    == [k |-> "union", m |-> m]
Arr(e)   == [k |-> "arr", e |-> e]
SetOf(e) == [k |-> "set", e |-> e]
MapOf(a, b) == [k |-> "map", key |-> a, val |-> b]

\* fixed-width primitives: ws = the legal body lengths in bytes
Fx(name, ws) == [k |-> "fixed", name |-> name, ws |-> ws]
Bool == Fx("bool", <<1>>)
F16  == Fx("float16", <<2>>)
F32  == Fx("float32", <<4>>)
F64  == Fx("float64", <<8>>)
IPt  == Fx("ip", <<4, 16>>)
Net  == Fx("net", <<8, 32>>)
Widths(T) == {T.ws[i] : i \in 1..Len(T.ws)}

E2 == En(2)
Types == << E2, En(1), En(3),
            Bool, F16, F32, F64, IPt, Net,
            Rec(<<I, IPt>>), Arr(F64), Un(<<I, Bool>>), MapOf(IPt, Net), SetOf(Bool), SetOf(E2), SetOf(Rec(<<E2>>)),
            Rec(<<I, E2>>), Un(<<I, E2>>), Arr(E2), SetOf(I), MapOf(I, E2),
            Rec(<<Un(<<I, E2>>)>>), Arr(Rec(<<E2>>)), Un(<<E2, Arr(E2)>>), MapOf(I, Un(<<I, E2>>)),
            Un(<<I, E2, En(3)>>) >>

\* ----------------------------------------------------------------- bodies
Null      == [k |-> "null"]
Leaf(n)   == [k |-> "leaf", n |-> n]          \* a scalar / selector with integer value n
Raw(n)    == [k |-> "bytes", len |-> n]       \* a primitive body of n bytes
Cont(es)  == [k |-> "cont", es |-> es, over |-> FALSE]
Over(es)  == [k |-> "cont", es |-> es, over |-> TRUE]   \* the last element's tag claims more bytes than the container holds

Huge == 200

RECURSIVE Consistent(_, _), Why(_, _)
AllIdx(es, P(_)) == \A i \in 1..Len(es) : P(i)

\* rank of a set element of type int in the byte order of its encoding (null < 0 < 1 < 2 ...)
Rank(e) == IF e.k = "null" THEN -1 ELSE IF e.k = "leaf" THEN e.n ELSE 0

Consistent(v, T) ==
  IF v.k = "null" THEN TRUE
  ELSE CASE T.k = "int"  -> v.k = "leaf"
         [] T.k = "enum" -> v.k = "leaf" /\ v.n >= 0 /\ v.n < T.n
         [] T.k = "fixed" -> v.k = "bytes" /\ v.len \in Widths(T)
         [] T.k = "rec"  -> /\ v.k = "cont" /\ ~v.over
                            /\ Len(v.es) = Len(T.f)
                            /\ \A i \in 1..Len(v.es) : Consistent(v.es[i], T.f[i])
         [] T.k = "arr"  -> /\ v.k = "cont" /\ ~v.over
                            /\ \A i \in 1..Len(v.es) : Consistent(v.es[i], T.e)
         [] T.k = "set"  -> /\ v.k = "cont" /\ ~v.over
                            /\ \A i \in 1..Len(v.es) : Consistent(v.es[i], T.e)
                            /\ \A i \in 1..(Len(v.es) - 1) : Rank(v.es[i]) < Rank(v.es[i + 1])
         [] T.k = "map"  -> /\ v.k = "cont" /\ ~v.over
                            /\ Len(v.es) % 2 = 0
                            /\ \A i \in 1..Len(v.es) : Consistent(v.es[i], IF i % 2 = 1 THEN T.key ELSE T.val)
         [] T.k = "union" -> /\ v.k = "cont" /\ ~v.over
                             /\ Len(v.es) = 2
                             \* a null selector is decoded as 0 by every decoder
                             /\ LET sel == IF v.es[1].k = "null" THEN 0 ELSE v.es[1].n IN
                                  /\ v.es[1].k \in {"null", "leaf"}
                                  /\ sel >= 0 /\ sel < Len(T.m)
                                  /\ Consistent(v.es[2], T.m[sel + 1])

\* the (outermost, first) clause that fails, for signatures
Why(v, T) ==
  IF Consistent(v, T) THEN "ok"
  ELSE CASE T.k = "enum" -> "enum-selector"
         [] T.k = "fixed" -> "width"
         [] T.k = "int"  -> "scalar"
         [] v.k # "cont" -> "not-a-container"
         [] v.over       -> "container-encoding"
         [] T.k = "rec"  -> IF Len(v.es) # Len(T.f) THEN "record-arity"
                            ELSE LET i == CHOOSE i \in 1..Len(v.es) : ~Consistent(v.es[i], T.f[i]) IN Why(v.es[i], T.f[i])
         [] T.k = "arr"  -> LET i == CHOOSE i \in 1..Len(v.es) : ~Consistent(v.es[i], T.e) IN Why(v.es[i], T.e)
         [] T.k = "set"  -> IF \E i \in 1..Len(v.es) : ~Consistent(v.es[i], T.e) THEN "set-element" ELSE "set-normal-form"
         [] T.k = "map"  -> IF Len(v.es) % 2 # 0 THEN "map-parity"
                            ELSE LET i == CHOOSE i \in 1..Len(v.es) : ~Consistent(v.es[i], IF i % 2 = 1 THEN T.key ELSE T.val)
                                 IN Why(v.es[i], IF i % 2 = 1 THEN T.key ELSE T.val)
         [] T.k = "union" -> IF Len(v.es) # 2 THEN "union-arity"
                             ELSE LET sel == IF v.es[1].k = "null" THEN 0 ELSE v.es[1].n IN
                                  IF v.es[1].k = "cont" \/ sel < 0 \/ sel >= Len(T.m) THEN "union-selector"
                                  ELSE Why(v.es[2], T.m[sel + 1])

\* --------------------------------------------- enumeration around each bound
RECURSIVE Gen(_), Few(_)

\* a reduced set for nested positions: null, one valid body, and the bodies at the bounds of T itself
Few(T) ==
  CASE T.k = "int"  -> {Null, Leaf(1)}
    [] T.k = "enum" -> {Leaf(T.n - 1), Leaf(T.n), Leaf(T.n + 1)}
    [] T.k = "fixed" -> {Raw(T.ws[1]), Raw(T.ws[1] - 1), Raw(T.ws[Len(T.ws)] + 1)}
    [] T.k = "rec"  -> {Cont([i \in 1..Len(T.f) |-> Leaf(0)]), Cont([i \in 1..(Len(T.f) + 1) |-> Leaf(0)])}
    [] T.k = "arr"  -> IF T.e.k = "enum" THEN {Cont(<<>>), Cont(<<Leaf(T.e.n - 1)>>), Cont(<<Leaf(T.e.n)>>)} ELSE {Cont(<<>>)}
    [] T.k = "union" -> {Cont(<<Leaf(0), Leaf(1)>>), Cont(<<Leaf(Len(T.m) - 1), Leaf(1)>>), Cont(<<Leaf(Len(T.m)), Leaf(1)>>)}
    [] OTHER -> {Null}

Seqs(S, n) == [1..n -> S]

Gen(T) ==
  {Null} \cup
  CASE T.k = "int"  -> {Leaf(1)}
    [] T.k = "enum" -> {Leaf(i) : i \in 0..(T.n + 1)} \cup {Leaf(Huge)}
    [] T.k = "fixed" -> {Raw(0)} \cup UNION {{Raw(w - 1), Raw(w), Raw(w + 1)} : w \in Widths(T)}
    [] T.k = "rec"  ->
         LET k == Len(T.f)
             full == {es \in Seqs(UNION {Few(T.f[i]) : i \in 1..k}, k) : \A i \in 1..k : es[i] \in Few(T.f[i])}
         IN {Cont(es) : es \in full}
            \cup {Cont(SubSeq(es, 1, k - 1)) : es \in full}             \* one field short
            \cup {Cont(Append(es, Leaf(0))) : es \in full}              \* one element too many
            \cup {Over(es) : es \in full}
    [] T.k = "arr"  -> {Cont(es) : es \in UNION {Seqs(Few(T.e), n) : n \in 0..2}}
                       \cup {Over(es) : es \in Seqs(Few(T.e), 1)}
    [] T.k = "set"  -> IF T.e.k = "int"
                       THEN {Cont(es) : es \in UNION {Seqs({Null, Leaf(0), Leaf(1), Leaf(2)}, n) : n \in 0..2}}
                            \cup {Cont(<<Leaf(0), Leaf(1), Leaf(1)>>), Cont(<<Leaf(0), Leaf(1), Leaf(2)>>), Over(<<Leaf(1)>>)}
                       ELSE {Cont(<<>>)} \cup {Cont(<<e>>) : e \in Few(T.e)}      \* one element: order is not at stake
    [] T.k = "map"  -> {Cont(es) : es \in UNION {{s \in Seqs(Few(T.key) \cup Few(T.val), n) :
                                                     \A i \in 1..n : s[i] \in (IF i % 2 = 1 THEN Few(T.key) ELSE Few(T.val))}
                                                  : n \in 0..3}}
    [] T.k = "union" ->
         LET n == Len(T.m) IN
         UNION {{Cont(<<Leaf(s), v>>) : v \in Few(T.m[s + 1])} : s \in 0..(n - 1)}   \* every member, bodies at its bounds
         \cup {Cont(<<Leaf(s), Leaf(0)>>) : s \in {-1, n, n + 1, Huge}}              \* selector = bound, bound+1, huge, negative
         \cup {Cont(<<Null, Leaf(1)>>), Cont(<<Leaf(0)>>), Cont(<<Leaf(0), Leaf(1), Leaf(1)>>), Over(<<Leaf(0), Leaf(1)>>)}

Rows == UNION {{[type |-> Types[t], body |-> v, consistent |-> Consistent(v, Types[t]), why |-> Why(v, Types[t])]
                 : v \in Gen(Types[t])} : t \in 1..Len(Types)}

\* ------------------------------------------------------------ sanity / non-vacuity
ASSUME \A t \in 1..Len(Types) : (\E v \in Gen(Types[t]) : v # Null /\ Consistent(v, Types[t]))
                                /\ (\E v \in Gen(Types[t]) : ~Consistent(v, Types[t]))
\* the bound itself is on the wrong side, bound-1 on the right side
ASSUME \A n \in 1..3 : Consistent(Leaf(n - 1), En(n)) /\ ~Consistent(Leaf(n), En(n)) /\ ~Consistent(Leaf(Huge), En(n))
ASSUME LET U == Un(<<I, E2>>) IN
         /\ Consistent(Cont(<<Leaf(1), Leaf(1)>>), U) /\ ~Consistent(Cont(<<Leaf(1), Leaf(2)>>), U)
         /\ ~Consistent(Cont(<<Leaf(2), Leaf(0)>>), U) /\ ~Consistent(Cont(<<Leaf(-1), Leaf(0)>>), U)
         /\ Consistent(Cont(<<Null, Leaf(1)>>), U)
ASSUME ~Consistent(Cont(<<Leaf(1), Leaf(0), Leaf(0)>>), Rec(<<I, E2>>)) /\ ~Consistent(Cont(<<Leaf(1)>>), Rec(<<I, E2>>))
ASSUME ~Consistent(Cont(<<Leaf(1), Leaf(1)>>), SetOf(I)) /\ ~Consistent(Cont(<<Leaf(2), Leaf(1)>>), SetOf(I))
       /\ Consistent(Cont(<<Null, Leaf(0)>>), SetOf(I))
ASSUME Consistent(Raw(4), IPt) /\ Consistent(Raw(16), IPt) /\ ~Consistent(Raw(5), IPt) /\ ~Consistent(Raw(15), IPt)
       /\ ~Consistent(Raw(0), Bool) /\ Consistent(Raw(1), Bool) /\ ~Consistent(Raw(2), Bool) /\ Consistent(Null, Bool)
ASSUME ~Consistent(Cont(<<Leaf(2)>>), SetOf(E2)) /\ Consistent(Cont(<<Leaf(1)>>), SetOf(E2))
ASSUME \A r \in Rows : (r.why = "ok") = r.consistent
ASSUME OutFile = "" \/ ndJsonSerialize(OutFile, SetToSeq(Rows))
ASSUME PrintT(<<"rows", Cardinality(Rows), Cardinality({r \in Rows : ~r.consistent})>>)

VARIABLE done
Init == done = FALSE
Next == done = FALSE /\ done' = TRUE
Spec == Init /\ [][Next]_done
=============================================================================
