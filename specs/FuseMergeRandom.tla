-------------------------- MODULE FuseMergeRandom --------------------------
(***************************************************************************)
(* C20, "randomly beyond" the exhaustive alphabet: the harness generates   *)
(* (seeded) sequences of deeper and wider type terms -- depth <= 3, fields *)
(* a,b,c, primitives uint8/time/float64/bool/string/ip/int64, named types  *)
(* M,N,R, mutated copies of one another so that they share structure --    *)
(* and writes them to FuseCasesGen.tla (GenCases).  TLC evaluates the same *)
(* transcription (Case of FuseMerge.tla) on them, checks the same          *)
(* property (every case off the named defect paths is well-formed, uniform *)
(* and lossless; Embeds always) and exports the predictions, which the     *)
(* harness replays on the real code exactly like the enumerated cases.     *)
(* Run with Shard = NShards (no enumerated cases) and MaxLen = 0.          *)
(***************************************************************************)
EXTENDS FuseCasesGen   \* generated per run; it EXTENDS FuseMerge and defines GenCases

RandomPredictions == TLCEval([i \in 1..Len(GenCases) |-> Case(GenCases[i])])

CheckRandom(Pr) == /\ AllHold(Pr) \/ (PrintT("AllHold fails on a generated case") /\ FALSE)
                   /\ \E i \in 1..Len(Pr) : Pr[i].taint = <<>> /\ ~(\A j \in 1..Len(Pr[i].ins) : Pr[i].ins[j] = Pr[i].fused)
                   /\ ndJsonSerialize("random.ndjson", Pr)
ASSUME CheckRandom(RandomPredictions)
=============================================================================
