------------------------------ MODULE AnyDetect ------------------------------
(***************************************************************************)
(* C11 (b) -- the format auto-detection skeleton terminates with a reader  *)
(* or an error.                                                            *)
(*                                                                         *)
(* Transcription of zio/anyio/reader.go NewReaderWithOpts (Format = ""),   *)
(* track.go (Track.Read / Reset / Reader) and recorder.go (Recorder.ReadAt *)
(* / Read): readers are tried in a fixed order on a recorded (or seekable) *)
(* prefix of the input; the track is rewound between attempts; the first   *)
(* reader that decodes the required number of values wins and is handed a  *)
(* reader positioned at the start of the input; if none wins the errors of *)
(* all attempts are joined.                                                *)
(*                                                                         *)
(* Whether a given reader accepts a given input is the business of that    *)
(* reader (covered by the fault enumeration over real readers); here it is *)
(* a free boolean vector m, so TLC checks the skeleton for every detection *)
(* outcome, for seekable and non-seekable inputs.                          *)
(***************************************************************************)
EXTENDS Integers, Sequences, FiniteSets, TLC, Json, SequencesExt

CONSTANTS OutFile      \* decision table export ("" = none)

\* order of attempts as coded
SeekOnly == <<"parquet", "vng">>                  \* tried first, only on an io.ReadSeeker
Tracked  == <<"arrows", "zeek", "zjson", "json", "zson", "zng", "csv", "tsv">>
Order(seekable) == IF seekable THEN SeekOnly \o Tracked ELSE Tracked
Formats == {"parquet", "vng", "arrows", "zeek", "zjson", "json", "zson", "zng", "csv", "tsv"}
\* formats listed in the joined error (joinErrs): all of the above plus line
ErrFormats == Formats \cup {"line"}

MaxOff == 2        \* abstract read positions 0..MaxOff (0 = start of input)

VARIABLES
  seekable,        \* the input is an io.ReadSeeker whose Seek works
  m,               \* m[f]: reader f accepts the input (decodes the wanted number of values from offset 0)
  i,               \* index into Order(seekable) of the current attempt
  pc,              \* "try" | "rewind" | "done"
  off,             \* current read offset of the track / seeker
  zngOpen,         \* the probing zngio reader has been created and not yet closed
  outcome,         \* "none" | <<"reader", f, offset>> | <<"error", set of formats reported>>
  tried            \* formats attempted so far, in order

vars == <<seekable, m, i, pc, off, zngOpen, outcome, tried>>

Init ==
  /\ seekable \in BOOLEAN
  /\ m \in [Formats -> BOOLEAN]
  /\ i = 1 /\ pc = "try" /\ off = 0 /\ zngOpen = FALSE
  /\ outcome = "none" /\ tried = <<>>

Cur == Order(seekable)[i]

\* One attempt: construct the probing reader over the track and read from it.
\* The probe consumes an arbitrary amount of the prefix (off' is free).
\* (parquet / vng: XNewReader(zctx, rs); arrows: isArrowStream; zeek..zson: match(NewReader(track), n);
\*  zng: match + zngReader.Close(); csv / tsv: isCSVStream.)
Try ==
  /\ pc = "try" /\ i <= Len(Order(seekable))
  /\ tried' = Append(tried, Cur)
  /\ \E o \in 0..MaxOff : off' = o
  /\ IF m[Cur]
       THEN \* success: hand out a reader over track.Reader(), which rewinds (Track.Reader: t.Reset(); return t.rs /
            \* return t.recorder, whose Read serves the recorded prefix first).  parquet and vng keep using rs
            \* through their own ReaderAt / Seek, i.e. also from the start.
            /\ outcome' = <<"reader", Cur, 0>>
            /\ pc' = "done" /\ zngOpen' = FALSE /\ UNCHANGED <<i>>
       ELSE /\ pc' = "rewind" /\ outcome' = outcome
            /\ zngOpen' = FALSE            \* zngReader.Close() is called before the decision
            /\ UNCHANGED i
  /\ UNCHANGED <<seekable, m>>

\* rs.Seek(n, io.SeekStart) / track.Reset() after a failed attempt
Rewind ==
  /\ pc = "rewind"
  /\ off' = 0
  /\ i' = i + 1
  /\ pc' = "try"
  /\ UNCHANGED <<seekable, m, zngOpen, outcome, tried>>

\* all attempts failed: joinErrs
Fail ==
  /\ pc = "try" /\ i > Len(Order(seekable))
  /\ outcome' = <<"error", ErrFormats>>
  /\ pc' = "done"
  /\ UNCHANGED <<seekable, m, i, off, zngOpen, tried>>

Done == pc = "done" /\ UNCHANGED vars

Next == Try \/ Rewind \/ Fail \/ Done
Spec == Init /\ [][Next]_vars /\ WF_vars(Try \/ Rewind \/ Fail)

\* -------------------------------------------------------------- properties
\* reference: the first accepted format in the coded order, or none
FirstMatch(sk, mm) ==
  LET o == Order(sk)
      idx == {k \in 1..Len(o) : mm[o[k]]}
  IN IF idx = {} THEN "none" ELSE o[CHOOSE k \in idx : \A j \in idx : k <= j]

Terminates == <>(pc = "done")

\* every attempt starts at the beginning of the input
AttemptFromStart == pc = "try" => off = 0

\* exactly one outcome, and it is the reference one
OutcomeOK ==
  pc = "done" =>
    IF FirstMatch(seekable, m) = "none"
      THEN outcome = <<"error", ErrFormats>>
      ELSE outcome = <<"reader", FirstMatch(seekable, m), 0>>

\* no probing reader is left open when the function returns
NoProbeLeft == pc = "done" => ~zngOpen

\* formats are tried at most once and in the coded order
TriedInOrder == IsPrefix(tried, Order(seekable))

\* ------------------------------------------------------------ export
Bits(mm) == [k \in 1..Len(SeekOnly \o Tracked) |-> mm[(SeekOnly \o Tracked)[k]]]
Table == {[seekable |-> sk, m |-> Bits(mm), choice |-> FirstMatch(sk, mm)] : sk \in BOOLEAN, mm \in [Formats -> BOOLEAN]}
ASSUME OutFile = "" \/ ndJsonSerialize(OutFile, SetToSeq(Table))
ASSUME OutFile = "" \/ JsonSerialize("order.json", [seek |-> Order(TRUE), noseek |-> Order(FALSE)])
\* non-vacuity
ASSUME \E mm \in [Formats -> BOOLEAN] : FirstMatch(FALSE, mm) = "none" /\ FirstMatch(TRUE, mm) = "vng"
ASSUME \A f \in Formats : \E mm \in [Formats -> BOOLEAN] : FirstMatch(TRUE, mm) = f
=============================================================================
