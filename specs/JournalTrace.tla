---------------------------- MODULE JournalTrace ----------------------------
(***************************************************************************)
(* Trace validation (code -> spec) for Journal.tla.                        *)
(*                                                                         *)
(* The harness runs real lake clients under a seeded random scheduler at   *)
(* the storage gate and records, for every granted storage operation on a  *)
(* shared metadata path, [c, lbl, n, r]: client, Journal.tla step label,   *)
(* entry number / HEAD value (relative to the start of the run) and the    *)
(* outcome of a put-if-absent.  Journal.tla records exactly the same       *)
(* tuple in its variable sched, so a recorded execution is a behaviour of  *)
(* the specification iff Next can be taken such that the tuple it appends  *)
(* to sched is the next line of the trace.  Unlogged state (tables, caches,*)
(* retry counters, commit ids) is inferred by TLC.  Every safety invariant *)
(* of Journal.tla is evaluated in every state of the observed execution.   *)
(* Many traces of one scenario are concatenated, separated by "reset".     *)
(***************************************************************************)
EXTENDS Journal

VARIABLE l          \* position in Trace
Trace == ndJsonDeserialize("trace.ndjson")

tvars == <<vars, l>>

Matches(e, t) == e.c = t.c /\ e.lbl = t.lbl /\ e.r = t.r /\ (t.lbl = "wh" \/ e.n = t.n)

TraceInit == Init /\ l = 1

TraceStep ==
  /\ l <= Len(Trace) /\ Trace[l].lbl # "reset"
  /\ Next
  /\ Len(sched') = Len(sched) + 1
  /\ Matches(sched'[Len(sched')], Trace[l])
  /\ l' = l + 1

\* between two recorded runs everything returns to the initial state
TraceReset ==
  /\ l <= Len(Trace) /\ Trace[l].lbl = "reset"
  /\ Done
  /\ entries' = <<>> /\ tabs' = <<InitTable>> /\ head' = 0 /\ cobjs' = {}
  /\ pc' = [c \in Clients |-> "idle"] /\ opi' = [c \in Clients |-> 1]
  /\ at' = [c \in Clients |-> -1] /\ tbl' = [c \in Clients |-> InitTable]
  /\ loc' = [c \in Clients |-> NoLoc]
  /\ fresh' = 100 /\ resp' = <<>> /\ last' = 0 /\ budget' = 0 /\ crashes' = 0 /\ sched' = <<>>
  /\ l' = l + 1

TraceNext == TraceStep \/ TraceReset
TraceSpec == TraceInit /\ [][TraceNext]_tvars

\* "violated" exactly when the whole trace has been consumed and every client is done:
\* the run is accepted iff TLC reports this invariant as violated.
NotAccepted == ~(l = Len(Trace) + 1 /\ Done)
=============================================================================
