----------------------------- MODULE TypeMapper -----------------------------
(***************************************************************************)
(* C05 -- portability of types across contexts through zed.Mapper and      *)
(* zed.MapperLookupCache (mapper.go), on top of TypeContext.tla.           *)
(*                                                                         *)
(* A reader of several ZNG streams keeps one shared context (cx), one      *)
(* Mapper per stream (local type id -> type of the shared context, filled  *)
(* by Mapper.Enter = TranslateType of the local type) and ONE lookup       *)
(* cache that is Reset with the new Mapper at every stream boundary.       *)
(*   mp     Mapper.types of the current stream: local id -> shared id (0 = nil)  *)
(*   mc     the cache: arr = the backing array of the slice, len = its     *)
(*          length.  Lookup re-extends the slice with                      *)
(*          slices.Grow(cache[:0], id+1)[:id+1], which keeps whatever the  *)
(*          backing array holds; Reset therefore clears it (clear(m.cache))*)
(*          before truncating.                                             *)
(*   sidx   the current stream                                             *)
(* Property: the cache always agrees with the current mapper               *)
(* (CacheCoherent) and every lookup denotes the local type (LookupDenotes).*)
(***************************************************************************)
EXTENDS TypeContext

VARIABLES mp, mc, sidx
mvars == <<mp, mc, sidx>>
allvars == <<vars, mvars>>
MView == <<View, mp, mc, sidx>>

MaxLocal == 2
\* the stream table for the harness
ASSUME PrintMode = "none" \/ PrintT(ToJson([streams |-> Streams]))
NoMap == [k \in 1..MaxLocal |-> 0]

MInit == Init /\ mp = NoMap /\ mc = [len |-> 0, arr |-> <<>>] /\ sidx = 1

Local(k) == Streams[sidx][k]

\* Mapper.Enter(ext): TranslateType into the shared context, then EnterType.
MEnter(k) ==
  /\ ncalls < MaxCalls /\ k \in 1..Len(Streams[sidx])
  /\ LET call == [m |-> "translate", ot |-> Local(k), nm |-> ""]
         nrm == NormIds(cx)
         r == RunAll(cx, CallProg(nrm, call, 0), <<>>, [x \in TypeNames |-> 0], TRUE, FALSE, {})
         id == r.st[Len(r.st)] IN
     /\ cx' = r.c
     /\ aliases' = aliases \cup r.ak
     /\ mp' = [mp EXCEPT ![k] = id]
     /\ h' = Append(h, [e |-> "menter", k |-> k, s |-> sidx, ot |-> Local(k), r |-> id, fin |-> TRUE])
  /\ ncalls' = ncalls + 1
  /\ Emit(h', cx')
  /\ UNCHANGED <<prog, stk, cur, ldefs, racy, live, turn, mc, sidx>>

Zeros(n) == [j \in 1..n |-> 0] \o <<>>

\* MapperLookupCache.Lookup(id)
MLookup(k) ==
  /\ ncalls < MaxCalls /\ k \in 1..MaxLocal
  /\ LET hit == k <= mc.len /\ mc.arr[k] # 0
         typ == IF hit THEN mc.arr[k] ELSE mp[k]                  \* m.mapper.Lookup(id)
         \* slices.Grow(m.cache[:0], id+1)[:id+1]: the old backing contents survive
         grown == IF k > Len(mc.arr) THEN mc.arr \o Zeros(k - Len(mc.arr)) ELSE mc.arr
         nlen == IF k > mc.len THEN k ELSE mc.len IN
     /\ mc' = IF hit \/ typ = 0 THEN mc                            \* unknown id: the cache does not grow
              ELSE [len |-> nlen, arr |-> [grown EXCEPT ![k] = typ]]
     /\ h' = Append(h, [e |-> "mlookup", k |-> k, s |-> sidx, r |-> typ, fin |-> TRUE])
  /\ ncalls' = ncalls + 1
  /\ Emit(h', cx)
  /\ UNCHANGED <<cx, prog, stk, cur, ldefs, racy, live, aliases, turn, mp, sidx>>

\* End of stream: a new Mapper, MapperLookupCache.Reset(mapper):
\*   clear(m.cache); m.cache = m.cache[:0]; m.mapper = mapper
MReset ==
  /\ ncalls < MaxCalls /\ sidx < Len(Streams)
  /\ sidx' = sidx + 1
  /\ mp' = NoMap
  /\ mc' = [len |-> 0, arr |-> [j \in 1..Len(mc.arr) |-> IF j <= mc.len THEN 0 ELSE mc.arr[j]] \o <<>>]
  /\ h' = Append(h, [e |-> "mreset", s |-> sidx + 1, fin |-> FALSE])
  /\ ncalls' = ncalls + 1
  /\ Emit(h', cx)
  /\ UNCHANGED <<cx, prog, stk, cur, ldefs, racy, live, aliases, turn>>

MNext == (\E k \in 1..MaxLocal : MEnter(k) \/ MLookup(k)) \/ MReset
MSpec == MInit /\ [][MNext]_allvars

\* Whatever the slice can ever expose again agrees with the current mapper:
\* inside the length it is the mapper's entry, beyond it nothing is left.
CacheCoherent ==
  \A j \in 1..Len(mc.arr) :
     mc.arr[j] = 0 \/ (j <= mc.len /\ j <= MaxLocal /\ mc.arr[j] = mp[j])

\* A lookup returns nil or the shared type with the structure of the local type.
LookupDenotes ==
  (h # <<>> /\ h[Len(h)].e = "mlookup" /\ h[Len(h)].r # 0) =>
     /\ h[Len(h)].k <= Len(Streams[sidx])
     /\ Norm(OS(cx.byID, h[Len(h)].r)) = Norm(Local(h[Len(h)].k))
EnterDenotes ==
  (h # <<>> /\ h[Len(h)].e = "menter") =>
     Norm(OS(cx.byID, h[Len(h)].r)) = Norm(h[Len(h)].ot)
=============================================================================
