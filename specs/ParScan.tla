------------------------------- MODULE ParScan -------------------------------
(***************************************************************************)
(* C08 -- lake query results are independent of the degree of parallelism. *)
(*                                                                         *)
(* Transcription of                                                        *)
(*   compiler/optimizer/optimizer.go   optimizeSourcePaths (filter pushed  *)
(*                                     into the scan, Slicer iff order is  *)
(*                                     required), Parallelize              *)
(*   compiler/optimizer/parallelize.go parallelizeSeqScan, concurrentPath, *)
(*                                     liftIntoParPaths                    *)
(*   compiler/optimizer/op.go          analyzeSortKeys, analyzeCuts,       *)
(*                                     isKeyOfSummarize                    *)
(*   runtime/sam/op/meta/lister.go     Lister.Pull, sortObjects            *)
(*   runtime/sam/op/meta/slicer.go     Slicer.Pull, stash, nextPartition   *)
(*   runtime/sam/op/meta/sequence.go   SequenceScanner (merge inside a     *)
(*                                     partition with ImportComparator)    *)
(*   compiler/kernel/op.go             dag.Merge comparator (nullsMax,     *)
(*                                     missing as null), dag.Combine       *)
(*   runtime/sam/op/groupby + expr/agg partials-out / partials-in          *)
(* next to a reference semantics of a small operator alphabet.             *)
(*                                                                         *)
(* One behaviour = one case (pool layout, direction, program, leg count)   *)
(* chosen in Init, followed by one Pull step per critical section of the   *)
(* shared Lister/Slicer (the mutex), taken by ANY leg that is not done.    *)
(* In the terminal state the parallel result (legs -> merge|combine ->     *)
(* tail) is compared with the sequential result.                           *)
(***************************************************************************)
EXTENDS Integers, Sequences, SequencesExt, FiniteSets, TLC, Json

CONSTANTS
  LayoutSel,   \* "curated" | "few" | "quick" | "pairs" | "triples" : layout universe
  ProgSel,     \* "core" | "len1" | "len2"
  LegCounts,   \* e.g. {2, 3}
  Dirs,        \* subset of {"asc", "desc"}
  EmitMod,     \* 0: no export; else terminal states with Hash % EmitMod = EmitRem are printed
  EmitRem

\* ================================================================ values
V(t, n) == [t |-> t, n |-> n]
I(n)    == V("int", n)
U(n)    == V("uint", n)
Str(n)  == V("str", n)          \* 1 = "a", 2 = "b", 19 = "s"
NULL    == V("null", 0)
ABS     == V("abs", 0)          \* the field is not present
EMISS   == V("emiss", 0)        \* error("missing") as a value
Nullish(v) == v.t = "null" \/ v.t = "abs" \/ v.t = "emiss" \/ v.t = "nt"     \* "nt": null(time)

Fields == {"k", "g", "u", "x", "y", "z", "a", "_"}
Row0   == TLCEval([f \in Fields |-> ABS])
Get(r, f) == IF r[f].t = "abs" THEN EMISS ELSE r[f]

Sign(d) == IF d < 0 THEN -1 ELSE IF d > 0 THEN 1 ELSE 0

\* runtime/sam/expr/sort.go compareValues(a, b, nullsMax) (missing as null):
\* nulls tie and are largest (nullsMax) or smallest; numbers sort before strings.
Code(v, nmax) == IF Nullish(v) THEN (IF nmax THEN 9999 ELSE -9999) ELSE IF v.t = "str" THEN 1000 + v.n ELSE v.n
CmpV(a, b, nmax) == Sign(Code(a, nmax) - Code(b, nmax))

\* A comparator: key field, direction (operands swapped for desc, as
\* Comparator.Compare does), nullsMax, and tb = TRUE for the lake's
\* ImportComparator which appends the value's bytes as a last key.
C(f, desc, nmax, tb) == [f |-> f, desc |-> desc, nmax |-> nmax, tb |-> tb]
NoCmp == C("", FALSE, TRUE, FALSE)
MergeC(f, desc) == C(f, desc, TRUE, FALSE)               \* kernel/op.go case *dag.Merge
SortC(f, desc)  == C(f, desc, ~desc, FALSE)               \* sort.go setComparator, nullsFirst = FALSE
PoolC(desc)     == C("k", desc, TRUE, TRUE)               \* zbuf.NewComparatorNullsMax

\* Byte order of two base rows with equal keys: a null key (one 0 byte) sorts
\* before a missing key (the record starts with the next field), then g, then u.
TB(r) == <<IF r["k"].t = "abs" THEN 1 ELSE 0, r["g"].n, r["u"].n>>
Lex3(a, b) == IF a[1] # b[1] THEN Sign(a[1] - b[1]) ELSE IF a[2] # b[2] THEN Sign(a[2] - b[2]) ELSE Sign(a[3] - b[3])

Cmp(c, x, y) ==
  LET a == Get(x, c.f)  b == Get(y, c.f)
      p == IF c.desc THEN CmpV(b, a, c.nmax) ELSE CmpV(a, b, c.nmax)
  IN IF p # 0 \/ ~c.tb THEN p
     ELSE IF c.desc THEN Lex3(TB(y), TB(x)) ELSE Lex3(TB(x), TB(y))

SortedBy(s, c) == \A i \in 1..Len(s) - 1 : Cmp(c, s[i], s[i+1]) <= 0
Distinct(s, c) == \A i \in 1..Len(s) : \A j \in i+1..Len(s) : Cmp(c, s[i], s[j]) # 0

\* TLC keeps [i \in S |-> e] lazy and re-evaluates e at every application;
\* TLCEval forces the explicit function / sequence once.  (It is applied
\* directly: TLC does not cache a constant definition whose body applies a
\* user-defined wrapper around it.)

RECURSIVE InsertBefore(_, _, _)
InsertBefore(x, t, c) ==
  IF t = <<>> THEN <<x>>
  ELSE IF Cmp(c, x, t[1]) <= 0 THEN <<x>> \o t
  ELSE <<t[1]>> \o InsertBefore(x, Tail(t), c)
RECURSIVE StableSortR(_, _)
StableSortR(s, c) == IF s = <<>> THEN <<>> ELSE InsertBefore(s[1], StableSortR(Tail(s), c), c)
StableSort(s, c) == StableSortR(TLCEval(s), c)

RECURSIVE Concat(_)
Concat(ss) == IF ss = <<>> THEN <<>> ELSE ss[1] \o Concat(Tail(ss))

SeqRange(s) == {s[i] : i \in 1..Len(s)}
Count(x, s) == Cardinality({i \in 1..Len(s) : s[i] = x})
SameBag(s, t) == Len(s) = Len(t) /\ \A x \in SeqRange(s) : Count(x, s) = Count(x, t)

\* ================================================================ layouts
\* A layout is a sequence of loads; each load becomes one data object (the
\* harness loads with the default threshold) or, with thresh = 1, one object
\* per value -- which is the layout of singletons.  A load is a sequence of
\* key values; the other fields are derived from the global position u.
K1 == I(1)  K2 == I(2)  K3 == I(3)  KS == Str(19)  KN == NULL  KM == ABS

MkRow(k, u) == [Row0 EXCEPT !["k"] = k, !["g"] = Str(IF u % 2 = 1 THEN 1 ELSE 2), !["u"] = I(u),
                            !["x"] = IF u % 3 = 0 THEN ABS ELSE I(u % 3)]

RECURSIVE Offsets(_, _)
Offsets(lay, acc) == IF lay = <<>> THEN <<>> ELSE <<acc>> \o Offsets(Tail(lay), acc + Len(lay[1]))

\* rows of every object, each object sorted by the pool's ImportComparator
ObjRows(lay, desc) ==
  LET off == Offsets(lay, 0)
  IN TLCEval([i \in 1..Len(lay) |-> StableSort(TLCEval([j \in 1..Len(lay[i]) |-> MkRow(lay[i][j], off[i] + j)]), PoolC(desc))])

\* lake/data/writer.go: Min/Max are the first/last key (missing as null), swapped
\* for desc pools: Min <= Max in the ascending nulls-max order.
KeyOf(r) == IF Nullish(r["k"]) THEN NULL ELSE r["k"]
Metas(lay, desc) ==
  LET rows == ObjRows(lay, desc)
  IN TLCEval([i \in 1..Len(lay) |->
        LET f == KeyOf(rows[i][1])  l == KeyOf(rows[i][Len(rows[i])])
        IN IF desc THEN [mn |-> l, mx |-> f] ELSE [mn |-> f, mx |-> l]])

Curated == <<
  << <<K1>>, <<K2>>, <<K3>> >>,                      \* disjoint
  << <<K1, K3>>, <<K2, K3>> >>,                      \* overlapping
  << <<K1, K2>>, <<K2, K3>> >>,                      \* equal boundary
  << <<K1, K2>>, <<K1, K2>> >>,                      \* identical ranges
  << <<K1, K3>>, <<K2>> >>,                          \* contained
  << <<K1, KN>>, <<K2, KM>> >>,                      \* null / missing keys
  << <<K1, KS>>, <<K2, KN>>, <<KM>> >>,              \* mixed types
  << <<K1, K2>>, <<K2, K3>>, <<K3, KS>> >>,          \* chain of overlaps
  << <<K1>>, <<K1>>, <<K2>>, <<KN>> >>,              \* four singletons (thresh = 1)
  << <<K2, K2>>, <<K2>> >>,                          \* one key everywhere
  << <<KN>>, <<KM>>, <<KN, KM>> >>,                  \* only null-ish keys
  << <<K1>>, <<K3>>, <<K2>>, <<K1, K3>> >>,          \* load order # key order, late overlap
  << <<K3, KS, KN>>, <<K1, K2, K3>>, <<K2, KM>> >>,  \* three rows per object
  << <<K1, K1>>, <<K2, K2>>, <<K3, K3>> >>           \* three disjoint two-row objects whose x ranges overlap ([1,2] [1,-] [2,-])
>>

\* Layout universes, built as SEQUENCES with plain arithmetic (a constant
\* definition that goes through a community-module operator such as SetToSeq
\* is not pre-evaluated by TLC and would be recomputed at every use).
KeyDom == <<K1, K2, K3, KS, KN, KM>>
Pairs(objs) == [i \in 1..(Len(objs) * Len(objs)) |-> <<objs[((i - 1) \div Len(objs)) + 1], objs[((i - 1) % Len(objs)) + 1]>>]
Triples(objs) == [i \in 1..(Len(objs) * Len(objs) * Len(objs)) |->
                    <<objs[((i - 1) \div (Len(objs) * Len(objs))) + 1], objs[(((i - 1) \div Len(objs)) % Len(objs)) + 1], objs[((i - 1) % Len(objs)) + 1]>>]
\* all objects of one or two keys
ObjUniverse == [i \in 1..6 |-> <<KeyDom[i]>>] \o [i \in 1..36 |-> <<KeyDom[((i - 1) \div 6) + 1], KeyDom[((i - 1) % 6) + 1]>>]
\* quick: 8 objects
QuickObjs == << <<K1>>, <<K2>>, <<K3>>, <<KN>>, <<KM>>, <<K1, K3>>, <<K2, KN>>, <<KS, KM>> >>
\* three objects: singletons and a few pairs
SmallObjs == [i \in 1..6 |-> <<KeyDom[i]>>] \o << <<K1, K3>>, <<K2, KN>>, <<K2, K3>> >>

LAYOUTS == TLCEval(
  CASE LayoutSel = "curated" -> Curated
    [] LayoutSel = "few"     -> <<Curated[1], Curated[9]>>
    [] LayoutSel = "quick"   -> Pairs(QuickObjs) \o Curated
    [] LayoutSel = "pairs"   -> Pairs(ObjUniverse) \o Curated
    [] LayoutSel = "triples" -> Triples(SmallObjs) \o Curated)

\* ================================================================ Lister
\* lister.go sortObjects lessFunc (bytes.Equal on keys = equality here: every
\* null-ish min/max is stored as null).
LCmp(desc, p, q) == IF desc THEN CmpV(q, p, TRUE) ELSE CmpV(p, q, TRUE)
ListerLess(desc, a, b) ==
  LET aF == IF desc THEN a.mx ELSE a.mn   aT == IF desc THEN a.mn ELSE a.mx
      bF == IF desc THEN b.mx ELSE b.mn   bT == IF desc THEN b.mn ELSE b.mx
  IN IF LCmp(desc, aF, bF) < 0 THEN TRUE
     ELSE IF aF # bF THEN FALSE
     ELSE IF aT = bT THEN FALSE
     ELSE LCmp(desc, aT, bT) < 0

\* snapshot.Select iterates a Go map and the sort is stable: every order without
\* an inversion is possible.
Perms(n) == {p \in [1..n -> 1..n] : \A i \in 1..n : \E j \in 1..n : p[j] = i}
ListerOrders(metas, desc) ==
  {p \in Perms(Len(metas)) : \A i \in 1..Len(metas) : \A j \in i+1..Len(metas) : ~ListerLess(desc, metas[p[j]], metas[p[i]])}

\* ================================================================ Slicer
NONE == [some |-> FALSE, v |-> NULL]
Some(v) == [some |-> TRUE, v |-> v]

\* One Slicer.Pull: pull objects from the Lister until stash() returns a
\* partition or the Lister is drained (nextPartition).  s.cmp is ascending
\* nulls-max whatever the pool direction.
RECURSIVE SlicerRun(_, _, _, _, _, _)
SlicerRun(metas, lo, stash, smin, smax, pulled) ==
  IF lo = <<>> THEN
       [part |-> stash, lo |-> lo, stash |-> <<>>, smin |-> smin, smax |-> smax, pulled |-> pulled]
  ELSE LET o == Head(lo)  m == metas[o]
           split == stash # <<>> /\ (CmpV(m.mx, smin.v, TRUE) < 0 \/ CmpV(m.mn, smax.v, TRUE) > 0)
           min0 == IF split THEN NONE ELSE smin
           max0 == IF split THEN NONE ELSE smax
           nmin == IF ~min0.some \/ CmpV(min0.v, m.mn, TRUE) > 0 THEN Some(m.mn) ELSE min0
           nmax == IF ~max0.some \/ CmpV(max0.v, m.mx, TRUE) < 0 THEN Some(m.mx) ELSE max0
       IN IF split
          THEN [part |-> stash, lo |-> Tail(lo), stash |-> <<o>>, smin |-> nmin, smax |-> nmax, pulled |-> Append(pulled, o)]
          ELSE SlicerRun(metas, Tail(lo), Append(stash, o), nmin, nmax, Append(pulled, o))

\* All partitions of a Lister order (the sequential plan: one consumer).
RECURSIVE SlicerAll(_, _, _, _, _)
SlicerAll(metas, lo, stash, smin, smax) ==
  IF lo = <<>> /\ stash = <<>> THEN <<>>
  ELSE LET r == SlicerRun(metas, lo, stash, smin, smax, <<>>)
       IN <<r.part>> \o SlicerAll(metas, r.lo, r.stash, r.smin, r.smax)

\* ================================================================ programs
\* The operator alphabet (program text in the Go harness, OpText there):
\*   WG where g=="a"      WK where k>=2
\*   CK cut k,u,g         CU cut u,g          CZ cut z:=k,u
\*   PY put y:=u+10       PK put k:=u         RZ rename z:=k
\*   DK drop k            DX drop x
\*   SU sort u            SR sort -r u        SG sort g     SX sort x     SXR sort -r x
\*   H1 head 1  H2 head 2  T1 tail 1  T2 tail 2             UQ uniq       YU yield u
\*   AG count() by g      AK count() by k     XG sum(x) by g  XK sum(x) by k
\*   VG avg(x) by g       LG collect(u) by g  UK union(g) by k
\*   A0 count()           X0 sum(x)           (compiled to summarize | yield)
\*   AB count() by k:=bucket(k,2)   (group key = an order-preserving, many-to-one function of the pool key,
\*                                   under the key's own name: every int key falls into one bucket)
Kind(op) ==
  CASE op \in {"WG", "WK"} -> "filter"
    [] op \in {"CK", "CU", "CZ"} -> "cut"
    [] op \in {"PY", "PK"} -> "put"
    [] op = "RZ" -> "rename"
    [] op \in {"DK", "DX"} -> "drop"
    [] op \in {"SU", "SR", "SG", "SX", "SXR"} -> "sort"
    [] op \in {"H1", "H2"} -> "head"
    [] op \in {"T1", "T2"} -> "tail"
    [] op = "UQ" -> "uniq"
    [] op \in {"YU", "Ya"} -> "yield"
    [] op \in {"AG", "AK", "AB", "XG", "XK", "VG", "LG", "UK", "A0s", "X0s"} -> "summarize"

SortKeyOf(op) ==
  CASE op = "SU" -> [f |-> "u", desc |-> FALSE]
    [] op = "SR" -> [f |-> "u", desc |-> TRUE]
    [] op = "SG" -> [f |-> "g", desc |-> FALSE]
    [] op = "SX" -> [f |-> "x", desc |-> FALSE]
    [] op = "SXR" -> [f |-> "x", desc |-> TRUE]
GroupKey(op) == CASE op \in {"AG", "XG", "VG", "LG"} -> "g" [] op \in {"AK", "AB", "XK", "UK"} -> "k" [] OTHER -> ""
Limit(op) == IF op \in {"H1", "T1"} THEN 1 ELSE 2

\* cut assignments <<lhs, rhs>>
CutArgs(op) == CASE op = "CK" -> << <<"k", "k">>, <<"u", "u">>, <<"g", "g">> >>
                 [] op = "CU" -> << <<"u", "u">>, <<"g", "g">> >>
                 [] op = "CZ" -> << <<"z", "k">>, <<"u", "u">> >>

\* count() / sum(x) without keys compile to summarize followed by yield
RECURSIVE Expand(_)
Expand(p) == IF p = <<>> THEN <<>>
             ELSE (CASE p[1] = "A0" -> <<"A0s", "Ya">> [] p[1] = "X0" -> <<"X0s", "Ya">> [] OTHER -> <<p[1]>>) \o Expand(Tail(p))

\* Well-formedness: an operator only refers to fields its input has.
Needs(op) ==
  CASE op \in {"WG", "SG", "AG"} -> {"g"}
    [] op \in {"WK", "RZ", "DK", "AK", "AB"} -> {"k"}
    [] op = "CK" -> {"k", "u", "g"}
    [] op = "CU" -> {"u", "g"}
    [] op = "CZ" -> {"k", "u"}
    [] op \in {"PY", "PK", "SU", "SR", "YU"} -> {"u"}
    [] op \in {"DX", "SX", "SXR", "X0"} -> {"x"}
    [] op \in {"XG", "VG"} -> {"g", "x"}
    [] op = "XK" -> {"k", "x"}
    [] op = "LG" -> {"g", "u"}
    [] op = "UK" -> {"k", "g"}
    [] OTHER -> {}
Schema(op, sc) ==
  CASE op = "CK" -> {"k", "u", "g"}
    [] op = "CU" -> {"u", "g"}
    [] op = "CZ" -> {"z", "u"}
    [] op = "PY" -> sc \cup {"y"}
    [] op = "PK" -> sc \cup {"k"}
    [] op = "RZ" -> (sc \ {"k"}) \cup {"z"}
    [] op = "DK" -> sc \ {"k"}
    [] op = "DX" -> sc \ {"x"}
    [] op \in {"AG", "XG", "VG", "LG"} -> {"g", "a"}
    [] op \in {"AK", "AB", "XK", "UK"} -> {"k", "a"}
    [] op \in {"A0", "X0", "YU"} -> {"_"}
    [] OTHER -> sc
RECURSIVE WellFormedFrom(_, _)
WellFormedFrom(p, sc) ==
  p = <<>> \/ (/\ Needs(p[1]) \subseteq sc
               /\ ("_" \in sc => p[1] \in {"H1", "H2", "T1", "T2", "UQ"})
               /\ WellFormedFrom(Tail(p), Schema(p[1], sc)))
WellFormed(p) == WellFormedFrom(p, {"k", "g", "u", "x"})

AllOps == <<"WG", "WK", "CK", "CU", "CZ", "PY", "PK", "RZ", "DK", "DX", "SU", "SR", "SG", "SX", "SXR",
           "H1", "H2", "T1", "T2", "UQ", "YU", "AG", "AK", "AB", "XG", "XK", "VG", "LG", "UK", "A0", "X0">>
CoreProgs == << <<>>, <<"WG">>, <<"WK">>, <<"CK", "H2">>, <<"PY", "T2">>, <<"H1">>, <<"H2">>, <<"T2">>, <<"SU">>, <<"SG">>,
               <<"AG">>, <<"AK">>, <<"XG">>, <<"VG">>, <<"LG">>, <<"A0">>, <<"WK", "AK">>, <<"UQ">>, <<"AG", "SG">>,
               <<"SR", "H2">>, <<"RZ", "T1">>, <<"DK", "H2">>,
               <<"CU">>, <<"CU", "H2">>, <<"CZ", "T2">>, <<"SXR">>, <<"SX">>, <<"AB">>, <<"WG", "AB">> >>      \* cuts without / renaming the pool key; a descending sort over nulls
Len1Progs == << <<>> >> \o [i \in 1..Len(AllOps) |-> <<AllOps[i]>>]
Len2Progs == Len1Progs \o [i \in 1..(Len(AllOps) * Len(AllOps)) |-> <<AllOps[((i - 1) \div Len(AllOps)) + 1], AllOps[((i - 1) % Len(AllOps)) + 1]>>]
PROGS == TLCEval(
  CASE ProgSel = "core" -> CoreProgs
    [] ProgSel = "len1" -> SelectSeq(Len1Progs, WellFormed)
    [] ProgSel = "len2" -> SelectSeq(Len2Progs, WellFormed))
Progs == {PROGS[i] : i \in 1..Len(PROGS)}

\* ================================================================ planner
NoKey == [f |-> "", desc |-> FALSE]

\* op.go analyzeCuts: the scoreboard starts with the input key; an assignment whose
\* right-hand side is on the scoreboard puts its left-hand side there (and marks it
\* assigned), any other assignment removes its left-hand side; in the end only
\* assigned fields stay (cut emits only the assigned fields), and exactly one field
\* must remain.
RECURSIVE CutBoard(_, _, _)
CutBoard(args, board, asg) ==
  IF args = <<>> THEN board \cap asg
  ELSE LET l == args[1][1]  r == args[1][2]
       IN IF r \in board THEN CutBoard(Tail(args), board \cup {l}, asg \cup {l})
          ELSE CutBoard(Tail(args), board \ {l}, asg)
AnalyzeCuts(args, key) ==
  LET board == CutBoard(args, {key.f}, {})
  IN IF Cardinality(board) # 1 THEN NoKey ELSE [f |-> CHOOSE x \in board : TRUE, desc |-> key.desc]

\* op.go analyzeSortKeys
AnalyzeKey(op, key) ==
  IF Kind(op) = "sort" THEN SortKeyOf(op)
  ELSE IF key = NoKey THEN NoKey
  ELSE CASE Kind(op) \in {"filter", "head", "tail", "uniq"} -> key
         [] Kind(op) = "cut" -> AnalyzeCuts(CutArgs(op), key)
         [] op = "DK" -> IF key.f = "k" THEN NoKey ELSE key
         [] op = "DX" -> IF key.f = "x" THEN NoKey ELSE key
         [] op = "RZ" -> IF key.f = "k" THEN [f |-> "z", desc |-> key.desc] ELSE key
         [] op = "PY" -> IF key.f = "y" THEN NoKey ELSE key
         [] op = "PK" -> IF key.f = "k" THEN NoKey ELSE key
         [] Kind(op) = "summarize" -> IF GroupKey(op) # "" /\ GroupKey(op) = key.f THEN key ELSE NoKey
         [] OTHER -> NoKey

\* parallelize.go concurrentPath(ops, sortKeys); the path ends at the latest at
\* the dag.Output that terminates every program.
RECURSIVE ConcPath(_, _, _)
ConcPath(ops, k, key) ==
  IF k > Len(ops) THEN [n |-> Len(ops), key |-> key, ord |-> TRUE, mrg |-> TRUE]
  ELSE LET op == ops[k] IN
    CASE Kind(op) = "summarize" ->
           IF GroupKey(op) # "" /\ key # NoKey /\ GroupKey(op) = key.f
           THEN [n |-> k - 1, key |-> key, ord |-> TRUE, mrg |-> TRUE]
           ELSE [n |-> k - 1, key |-> NoKey, ord |-> FALSE, mrg |-> FALSE]
      [] Kind(op) = "sort" -> [n |-> k - 1, key |-> SortKeyOf(op), ord |-> FALSE, mrg |-> TRUE]
      [] Kind(op) \in {"head", "tail", "uniq"} -> [n |-> k - 1, key |-> key, ord |-> TRUE, mrg |-> TRUE]
      [] OTHER -> LET next == AnalyzeKey(op, key)
                  IN IF key # NoKey /\ next = NoKey THEN [n |-> k - 1, key |-> key, ord |-> TRUE, mrg |-> TRUE]
                     ELSE ConcPath(ops, k + 1, next)

\* leading filters are merged (mergeFilters) and pushed into the scan (matchFilter)
RECURSIVE LeadFilters(_)
LeadFilters(ops) == IF ops # <<>> /\ Kind(ops[1]) = "filter" THEN <<ops[1]>> \o LeadFilters(Tail(ops)) ELSE <<>>

\* an operator of a plan: part = "" | "out" | "in" (partials); sd = InputSortDir of a summarize
\* (optimizer.go propagateSortKeyOp: the input is known to be sorted on the field the group
\* key is -- or is an order-preserving function of: bucket, ceil, floor, round, every)
NoSd == [on |-> FALSE, desc |-> FALSE]
PO(op, part) == [op |-> op, part |-> part, sd |-> NoSd]
RECURSIVE AnnotFrom(_, _)
AnnotFrom(ops, key) ==
  IF ops = <<>> THEN <<>>
  ELSE LET op == ops[1]
           on == Kind(op) = "summarize" /\ key # NoKey /\ GroupKey(op) # "" /\ GroupKey(op) = key.f
       IN <<[op |-> op, part |-> "", sd |-> [on |-> on, desc |-> key.desc]]>> \o AnnotFrom(Tail(ops), AnalyzeKey(op, key))
Annot(ops, desc) == AnnotFrom(ops, [f |-> "k", desc |-> desc])

\* optimizer.go optimizeSourcePaths + Parallelize + parallelizeSeqScan + one
\* liftIntoParPaths at the scatter (optimizeParallels visits each position once).
PlanOf(prog, desc) ==
  LET ops    == Expand(prog)
      filter == LeadFilters(ops)
      chain  == SubSeq(ops, Len(filter) + 1, Len(ops))
      cp     == ConcPath(chain, 1, [f |-> "k", desc |-> desc])
      ann    == Annot(chain, desc)
      legs0  == SubSeq(ann, 1, cp.n)
      tail0  == SubSeq(ann, cp.n + 1, Len(chain))
      mc0    == IF cp.mrg THEN MergeC(cp.key.f, cp.key.desc) ELSE NoCmp
      base   == [slicer |-> cp.ord, filter |-> filter, legs |-> legs0, fan |-> IF cp.mrg THEN "merge" ELSE "combine",
                 mc |-> mc0, tail |-> tail0, nullsmax |-> TRUE]
  IN IF tail0 = <<>> THEN base
     ELSE LET op == tail0[1].op IN
       CASE Kind(op) = "summarize" ->
              [base EXCEPT !.legs = Append(legs0, [tail0[1] EXCEPT !.part = "out"]), !.tail = <<[tail0[1] EXCEPT !.part = "in"]>> \o Tail(tail0)]
         [] Kind(op) = "sort" ->
              \* only an ascending, nulls-last sort is lifted: the merge that replaces it
              \* orders by the key with nulls as the largest value (op.Reverse ||
              \* op.NullsFirst || Order == Desc => return); a merge inserted by
              \* parallelizeSeqScan for the sort key then stays in front of the sort
              IF SortKeyOf(op).desc THEN base
              ELSE IF cp.mrg
              THEN IF SortKeyOf(op) = cp.key
                   THEN [base EXCEPT !.legs = Append(legs0, PO(op, "")), !.tail = Tail(tail0)]
                   ELSE base
              ELSE \* combine replaced by a merge on the sort expression
                   [base EXCEPT !.legs = Append(legs0, PO(op, "")), !.tail = Tail(tail0), !.fan = "merge",
                                !.mc = MergeC(SortKeyOf(op).f, FALSE)]
         [] Kind(op) \in {"head", "tail"} -> [base EXCEPT !.legs = Append(legs0, PO(op, ""))]
         [] Kind(op) \in {"cut", "drop", "put", "rename", "filter"} ->
              \* with a merge, propagateSortKeyOp(merge, {nil}) is always nil: never lifted (as coded)
              IF cp.mrg THEN base
              ELSE [base EXCEPT !.legs = Append(legs0, PO(op, "")), !.tail = Tail(tail0)]
         [] OTHER -> base

PlanText(pl) ==
  [slicer |-> pl.slicer, filter |-> pl.filter,
   legs |-> TLCEval([i \in 1..Len(pl.legs) |-> pl.legs[i].op \o (IF pl.legs[i].part = "" THEN "" ELSE ":" \o pl.legs[i].part)]),
   fan |-> pl.fan, mkey |-> pl.mc.f, mdesc |-> pl.mc.desc,
   tail |-> TLCEval([i \in 1..Len(pl.tail) |-> pl.tail[i].op \o (IF pl.tail[i].part = "" THEN "" ELSE ":" \o pl.tail[i].part)])]

\* ================================================================ semantics
\* A stream is [s, ex, by, det]: a representative sequence; ex = the program
\* defines exactly this sequence; by = a comparator such that every admissible
\* sequence is s permuted inside tie classes of by (NoCmp: any permutation);
\* det = FALSE: even the multiset is undefined (head/tail/uniq across an
\* undefined order) -- such program/pool pairs are outside the property.
Stream(s, ex, by, det) == [s |-> s, ex |-> ex \/ Len(s) <= 1, by |-> by, det |-> det]

PredT(op, r) == CASE op = "WG" -> Get(r, "g") = Str(1)
                  [] op = "WK" -> Get(r, "k").t = "int" /\ Get(r, "k").n >= 2
Keep(filter, r) == \A i \in 1..Len(filter) : PredT(filter[i], r)

MapRow(op, r) ==
  CASE op = "CK" -> [Row0 EXCEPT !["k"] = Get(r, "k"), !["u"] = Get(r, "u"), !["g"] = Get(r, "g")]
    [] op = "CU" -> [Row0 EXCEPT !["u"] = Get(r, "u"), !["g"] = Get(r, "g")]
    [] op = "CZ" -> [Row0 EXCEPT !["z"] = Get(r, "k"), !["u"] = Get(r, "u")]
    [] op = "PY" -> [r EXCEPT !["y"] = IF Get(r, "u").t = "int" THEN I(Get(r, "u").n + 10) ELSE EMISS]
    [] op = "PK" -> [r EXCEPT !["k"] = Get(r, "u")]
    [] op = "RZ" -> IF r["k"].t = "abs" THEN r ELSE [r EXCEPT !["z"] = r["k"], !["k"] = ABS]
    [] op = "DK" -> [r EXCEPT !["k"] = ABS]
    [] op = "DX" -> [r EXCEPT !["x"] = ABS]
    [] op = "YU" -> [Row0 EXCEPT !["_"] = Get(r, "u")]
    [] op = "Ya" -> [Row0 EXCEPT !["_"] = Get(r, "a")]

\* what a per-row operator does to the known order of the stream
MapBy(op, by0) ==
  LET by == [by0 EXCEPT !.tb = FALSE] IN
  IF by0 = NoCmp THEN NoCmp
  ELSE CASE op = "CU" -> IF by.f \in {"u", "g"} THEN by ELSE NoCmp
         [] op = "CK" -> IF by.f \in {"k", "u", "g"} THEN by ELSE NoCmp
         [] op = "CZ" -> IF by.f = "k" THEN [by EXCEPT !.f = "z"] ELSE IF by.f = "u" THEN by ELSE NoCmp
         [] op = "PY" -> IF by.f = "y" THEN NoCmp ELSE by
         [] op = "PK" -> IF by.f = "k" THEN NoCmp ELSE by
         [] op = "RZ" -> IF by.f = "k" THEN [by EXCEPT !.f = "z"] ELSE IF by.f = "z" THEN NoCmp ELSE by
         [] op = "DK" -> IF by.f = "k" THEN NoCmp ELSE by
         [] op = "DX" -> IF by.f = "x" THEN NoCmp ELSE by
         [] OTHER -> NoCmp

\* ---- aggregates.  The value of an aggregate is kept in a form that is both
\* its result and its partial (agg.Function.ResultAsPartial): count uint;
\* sum int or null; avg <<sum, count>>; collect a bag (sorted); union a set.
RECURSIVE SumSeq(_)
SumSeq(s) == IF s = <<>> THEN 0 ELSE s[1] + SumSeq(Tail(s))
RECURSIVE InsertInt(_, _)
InsertInt(x, t) == IF t = <<>> THEN <<x>> ELSE IF x <= t[1] THEN <<x>> \o t ELSE <<t[1]>> \o InsertInt(x, Tail(t))
RECURSIVE SortInts(_)
SortInts(s) == IF s = <<>> THEN <<>> ELSE InsertInt(s[1], SortInts(Tail(s)))

AggKind(op) == CASE op \in {"AG", "AK", "AB", "A0s"} -> "count" [] op \in {"XG", "XK", "X0s"} -> "sum"
                 [] op = "VG" -> "avg" [] op = "LG" -> "collect" [] op = "UK" -> "union"
Ints(rows, f) == LET sel == SelectSeq(rows, LAMBDA r : Get(r, f).t = "int") IN TLCEval([i \in 1..Len(sel) |-> Get(sel[i], f).n])
AggOf(op, rows) ==
  CASE AggKind(op) = "count"   -> U(Len(rows))
    [] AggKind(op) = "sum"     -> LET xs == Ints(rows, "x") IN IF xs = <<>> THEN NULL ELSE I(SumSeq(xs))
    [] AggKind(op) = "avg"     -> LET xs == Ints(rows, "x") IN V("avg", <<SumSeq(xs), Len(xs)>>)
    [] AggKind(op) = "collect" -> V("bag", SortInts(Ints(rows, "u")))
    [] AggKind(op) = "union"   -> V("set", {Get(rows[i], "g") : i \in 1..Len(rows)} \ {EMISS, NULL})
\* agg.Function.ConsumeAsPartial over the partial values of one group
AggCombine(op, parts) ==
  CASE AggKind(op) = "count"   -> U(SumSeq(TLCEval([i \in 1..Len(parts) |-> parts[i].n])))
    [] AggKind(op) = "sum"     -> LET xs == SelectSeq(parts, LAMBDA p : p.t = "int")
                                  IN IF xs = <<>> THEN NULL ELSE I(SumSeq(TLCEval([i \in 1..Len(xs) |-> xs[i].n])))
    [] AggKind(op) = "avg"     -> V("avg", <<SumSeq(TLCEval([i \in 1..Len(parts) |-> parts[i].n[1]])), SumSeq(TLCEval([i \in 1..Len(parts) |-> parts[i].n[2]]))>>)
    [] AggKind(op) = "collect" -> V("bag", SortInts(Concat(TLCEval([i \in 1..Len(parts) |-> parts[i].n]))))
    [] AggKind(op) = "union"   -> V("set", UNION {parts[i].n : i \in 1..Len(parts)})

\* the group key of a row: AB buckets the pool key (every int into one bucket t0, null
\* into null(time)); the partials-in stage groups on the field itself
BK(v) == CASE v.t = "int" -> V("t0", 0) [] v.t = "null" -> V("nt", 0) [] OTHER -> V("bad", 0)
KeyVal(o, r) == IF o.op = "AB" /\ o.part # "in" THEN BK(Get(r, "k")) ELSE Get(r, GroupKey(o.op))

\* distinct group keys in order of first appearance
RECURSIVE FirstKeys(_, _, _)
FirstKeys(rows, o, seen) ==
  IF rows = <<>> THEN <<>>
  ELSE LET k == KeyVal(o, rows[1])
       IN IF k \in seen THEN FirstKeys(Tail(rows), o, seen) ELSE <<k>> \o FirstKeys(Tail(rows), o, seen \cup {k})

GroupRow(o, k, grp) ==
  [Row0 EXCEPT ![GroupKey(o.op)] = k,
               !["a"] = IF o.part = "in" THEN AggCombine(o.op, TLCEval([j \in 1..Len(grp) |-> grp[j]["a"]]))
                        ELSE AggOf(o.op, grp)]

\* groupby.Op with InputSortDir (o.sd.on): after a value whose key is larger than
\* every key so far (Aggregator.updateMaxTableKey) the groups below that maximum are
\* complete and are released at once, in key order (readTable(flush = false) +
\* SortStableFunc); the rest at EOS.  This is only sound when the input really is
\* sorted on the key: otherwise a released group comes back as a second row.
KCmp(o, a, b) == IF o.sd.desc THEN CmpV(b, a, TRUE) ELSE CmpV(a, b, TRUE)
RECURSIVE SFold(_, _, _, _, _)
SFold(o, rows, groups, maxk, acc) ==      \* groups: sequence of [k, rs]; maxk: [some, v]
  IF rows = <<>> THEN acc \o TLCEval([i \in 1..Len(groups) |-> GroupRow(o, groups[i].k, groups[i].rs)])
  ELSE LET r  == rows[1]
           k  == KeyVal(o, r)
           nm == IF ~maxk.some \/ KCmp(o, k, maxk.v) > 0 THEN Some(k) ELSE maxk
           ix == {i \in 1..Len(groups) : groups[i].k = k}
           g2 == IF ix = {} THEN Append(groups, [k |-> k, rs |-> <<r>>])
                 ELSE [groups EXCEPT ![CHOOSE i \in ix : TRUE] = [k |-> k, rs |-> Append(@.rs, r)]]
           rel  == SelectSeq(g2, LAMBDA g : KCmp(o, g.k, nm.v) < 0)
           keep == SelectSeq(g2, LAMBDA g : KCmp(o, g.k, nm.v) >= 0)
           relrows == TLCEval([i \in 1..Len(rel) |-> GroupRow(o, rel[i].k, rel[i].rs)])
       IN SFold(o, Tail(rows), keep, nm, acc \o StableSort(relrows, C(GroupKey(o.op), o.sd.desc, TRUE, FALSE)))

\* groupby.Op: part = "" (values in, results out), "out" (values in, partials
\* out) or "in" (partials in).  Without InputSortDir the rows come out in map order.
Summarize(o, st) ==
  LET kf   == GroupKey(o.op)
      rows == st.s
      bad  == o.op = "AB" /\ o.part # "in" /\ \E i \in 1..Len(rows) : KeyVal(o, rows[i]).t = "bad"   \* bucket() of a non-time: not modelled
      byk  == C(kf, o.sd.desc, TRUE, FALSE)
  IN IF kf = "" THEN
          Stream(IF rows = <<>> THEN <<>>
                 ELSE <<[Row0 EXCEPT !["a"] = IF o.part = "in" THEN AggCombine(o.op, TLCEval([i \in 1..Len(rows) |-> rows[i]["a"]]))
                                                ELSE AggOf(o.op, rows)]>>, FALSE, NoCmp, st.det)
     ELSE IF o.sd.on THEN
          LET out == SFold(o, rows, <<>>, NONE, <<>>)
              sortedIn == st.by # NoCmp /\ st.by.f = kf /\ st.by.desc = o.sd.desc
          IN Stream(out, sortedIn /\ Distinct(out, byk), IF sortedIn THEN byk ELSE NoCmp, st.det /\ ~bad)
     ELSE LET ks == FirstKeys(rows, o, {})
          IN Stream(TLCEval([i \in 1..Len(ks) |-> GroupRow(o, ks[i], SelectSeq(rows, LAMBDA r : KeyVal(o, r) = ks[i]))]),
                    FALSE, NoCmp, st.det /\ ~bad)

Uniq(s) == SelectSeq(TLCEval([i \in 1..Len(s) |-> [r |-> s[i], keep |-> i = 1 \/ s[i] # s[i-1]]]), LAMBDA e : e.keep)

ApplyOp(o, st) ==
  LET op == o.op  s == st.s IN
  CASE Kind(op) = "filter" -> Stream(SelectSeq(s, LAMBDA r : PredT(op, r)), st.ex, st.by, st.det)
    [] Kind(op) \in {"cut", "put", "rename", "drop", "yield"} ->
         Stream(TLCEval([i \in 1..Len(s) |-> MapRow(op, s[i])]), st.ex, MapBy(op, st.by), st.det)
    [] Kind(op) = "sort" ->
         LET c == SortC(SortKeyOf(op).f, SortKeyOf(op).desc)  t == StableSort(s, c)
         IN Stream(t, Distinct(t, c), c, st.det)
    [] Kind(op) = "head" ->
         LET n == Limit(op)
             cutok == st.ex \/ Len(s) <= n \/ (st.by # NoCmp /\ Cmp(st.by, s[n], s[n+1]) # 0)
         IN Stream(SubSeq(s, 1, IF Len(s) < n THEN Len(s) ELSE n), st.ex, st.by, st.det /\ cutok)
    [] Kind(op) = "tail" ->
         LET n == Limit(op)  m == Len(s)
             cutok == st.ex \/ m <= n \/ (st.by # NoCmp /\ Cmp(st.by, s[m-n], s[m-n+1]) # 0)
         IN Stream(SubSeq(s, IF m <= n THEN 1 ELSE m - n + 1, m), st.ex, st.by, st.det /\ cutok)
    [] Kind(op) = "uniq" ->
         LET t == Uniq(s) IN Stream(TLCEval([i \in 1..Len(t) |-> t[i].r]), st.ex, st.by, st.det /\ st.ex)
    [] Kind(op) = "summarize" -> Summarize(o, st)

RECURSIVE ApplyOps(_, _)
ApplyOps(ops, st) == IF ops = <<>> THEN st ELSE ApplyOps(Tail(ops), ApplyOp(ops[1], st))

\* ---- scanning.  A partition's objects are merged with the ImportComparator
\* (sequence.go newObjectsScanner); the pushed-down filter is applied in the scan.
PartRows(rows, part, desc, filter) ==
  SelectSeq(StableSort(Concat(TLCEval([i \in 1..Len(part) |-> rows[part[i]]])), PoolC(desc)), LAMBDA r : Keep(filter, r))

\* the input of one consumer that received the partitions ps, in that order
ScanStream(rows, ps, desc, filter, slicer) ==
  Stream(Concat(TLCEval([i \in 1..Len(ps) |-> PartRows(rows, ps[i], desc, filter)])), slicer, IF slicer THEN PoolC(desc) ELSE NoCmp, TRUE)

\* the Lister's range pruner for the pushed-down filter (optimizer newRangePruner,
\* decided on min/max only): "k >= 2" prunes an object iff 2 > max.
Pruned(filter, m) == \E i \in 1..Len(filter) : filter[i] = "WK" /\ CmpV(I(2), m.mx, TRUE) > 0

\* ---- fan-in
RECURSIVE MergeK(_, _)
MergeK(ss, c) ==          \* merge.Op: repeatedly the smallest head, ties to the lowest parent
  LET live == {i \in 1..Len(ss) : ss[i] # <<>>}
  IN IF live = {} THEN <<>>
     ELSE LET best == CHOOSE i \in live : \A j \in live : Cmp(c, ss[i][1], ss[j][1]) < 0 \/ (Cmp(c, ss[i][1], ss[j][1]) = 0 /\ i <= j)
          IN <<ss[best][1]>> \o MergeK([ss EXCEPT ![best] = Tail(ss[best])], c)

MergeStreams(sts, c) ==
  LET ss     == TLCEval([i \in 1..Len(sts) |-> sts[i].s])
      sorted == \A i \in 1..Len(sts) : SortedBy(ss[i], c)
      cross  == \E i \in 1..Len(sts) : \E j \in i+1..Len(sts) : \E a \in 1..Len(ss[i]) : \E b \in 1..Len(ss[j]) : Cmp(c, ss[i][a], ss[j][b]) = 0
      allex  == \A i \in 1..Len(sts) : sts[i].ex
  IN Stream(MergeK(ss, c), sorted /\ allex /\ ~cross, IF sorted THEN c ELSE NoCmp, \A i \in 1..Len(sts) : sts[i].det)

CombineStreams(sts) == Stream(Concat(TLCEval([i \in 1..Len(sts) |-> sts[i].s])), FALSE, NoCmp, \A i \in 1..Len(sts) : sts[i].det)

\* comparison of a result with the reference
ClassesEq(s, t, c) == Len(s) = Len(t) /\ \A i \in 1..Len(s) : Cmp(c, s[i], t[i]) = 0
Equiv(par, seq) ==
  IF seq.ex THEN par.s = seq.s /\ par.ex
  ELSE IF seq.by # NoCmp THEN SameBag(par.s, seq.s) /\ SortedBy(par.s, seq.by) /\ ClassesEq(par.s, seq.s, seq.by)
  ELSE SameBag(par.s, seq.s)
Mode(seq) == IF seq.ex THEN "exact" ELSE IF seq.by # NoCmp THEN "cls" ELSE "bag"

\* ================================================================ the scan as a state machine
\* Everything that depends only on the case is tabulated at constant level
\* (TLC evaluates constant definitions once); the state holds the case and
\* the Lister / Slicer / leg state only.
\* layouts and programs are numbered so that the tables are sequences (TLC
\* indexes a sequence in constant time; applying a function whose domain is a
\* set of nested values is slow)
DescSet == {d = "desc" : d \in Dirs}
DI(d) == IF d THEN 2 ELSE 1
PlanTab == TLCEval([p \in 1..Len(PROGS) |-> TLCEval([d \in 1..2 |-> PlanOf(PROGS[p], d = 2)])])
RowsTab == TLCEval([l \in 1..Len(LAYOUTS) |-> TLCEval([d \in 1..2 |-> ObjRows(LAYOUTS[l], d = 2)])])
MetaTab == TLCEval([l \in 1..Len(LAYOUTS) |-> TLCEval([d \in 1..2 |-> Metas(LAYOUTS[l], d = 2)])])

\* lister.go initObjectScan: stable sort of the snapshot's objects.  Objects with
\* identical [min,max] tie (the snapshot is a Go map, so their relative order is
\* arbitrary); the model takes load order for them -- they always share a partition.
ListerSort(n, m, d) ==
  \* (no LAMBDA here: TLC does not pre-evaluate constant definitions that contain one)
  LET rank == TLCEval([a \in 1..n |-> 1 + Cardinality({b \in 1..n : ListerLess(d, m[b], m[a]) \/ (~ListerLess(d, m[a], m[b]) /\ b < a)})])
  IN TLCEval([p \in 1..n |-> CHOOSE a \in 1..n : rank[a] = p])
\* the Lister order by [layout][desc]; the range pruner of a pushed-down
\* "k >= 2" then skips the objects whose max is below 2
LorderOf(lay, d) == ListerSort(Len(lay), Metas(lay, d), d)
LorderTab == TLCEval([l \in 1..Len(LAYOUTS) |-> TLCEval([d \in 1..2 |-> LorderOf(LAYOUTS[l], d = 2)])])
PruneOrder(lor, m, wk) == IF wk THEN SelectSeq(lor, LAMBDA o : CmpV(I(2), m[o].mx, TRUE) <= 0) ELSE lor

\* ---------------------------------------------------------------- pure step functions
\* (shared by the Next relation below and by the trace replay of ParScanTrace.tla)
ScanState(lor, n) == [lo |-> lor, stash |-> <<>>, smin |-> NONE, smax |-> NONE,
                      parts |-> TLCEval([l \in 1..n |-> <<>>]), done |-> TLCEval([l \in 1..n |-> FALSE])]
ExhaustedS(st) == st.lo = <<>> /\ st.stash = <<>>
TerminalS(st) == ExhaustedS(st) \/ \A l \in DOMAIN st.done : st.done[l]

\* leg operators before a lifted head (the head counts their output)
LegHeadOf(pl) == IF pl.legs # <<>> /\ Kind(pl.legs[Len(pl.legs)].op) = "head" THEN Limit(pl.legs[Len(pl.legs)].op) ELSE 0
\* number of values that reach the lifted head of a leg holding the partitions
\* ps: the operators in front of it are per-row, only filters drop rows
HeadFeed(pl, rw, ps) ==
  LET lf == SelectSeq(TLCEval([i \in 1..Len(pl.legs) |-> pl.legs[i].op]), LAMBDA o : Kind(o) = "filter")
      n(o) == Cardinality({j \in 1..Len(rw[o]) : Keep(pl.filter, rw[o][j]) /\ Keep(lf, rw[o][j])})
  IN SumSeq(Concat(TLCEval([i \in 1..Len(ps) |-> TLCEval([j \in 1..Len(ps[i]) |-> n(ps[i][j])])])))

\* leg l may pull: it is not done, the source is not drained, and (legs being
\* interchangeable copies, named in order of first service) leg l-1 was served
CanPull(st, l) == /\ ~TerminalS(st) /\ ~st.done[l]
                  /\ IF l = 1 THEN TRUE ELSE st.parts[l-1] # <<>>

\* One Lister.Pull / Slicer.Pull critical section by leg l: the new state and
\* the objects taken from the Lister inside it.
PullStep(pl, m, rw, st, l) ==
  LET r == IF pl.slicer THEN SlicerRun(m, st.lo, st.stash, st.smin, st.smax, <<>>)
           ELSE [part |-> <<Head(st.lo)>>, lo |-> Tail(st.lo), stash |-> <<>>, smin |-> NONE, smax |-> NONE, pulled |-> <<Head(st.lo)>>]
      np == Append(st.parts[l], r.part)
  IN [st |-> [lo |-> r.lo, stash |-> r.stash, smin |-> r.smin, smax |-> r.smax,
              parts |-> [st.parts EXCEPT ![l] = np],
              done |-> [st.done EXCEPT ![l] = LegHeadOf(pl) > 0 /\ HeadFeed(pl, rw, np) >= LegHeadOf(pl)]],
      pulled |-> r.pulled]

LegOutOf(pl, rw, d, ps) == ApplyOps(pl.legs, ScanStream(rw, ps, d, pl.filter, pl.slicer))
ParResultOf(pl, rw, d, prts) ==
  LET outs == TLCEval([l \in DOMAIN prts |-> LegOutOf(pl, rw, d, prts[l])])
      fan  == IF pl.fan = "merge" THEN MergeStreams(outs, pl.mc) ELSE CombineStreams(outs)
  IN ApplyOps(pl.tail, fan)
SeqResultOf(pl, rw, m, lor, d, pg) ==
  LET ps == IF pl.slicer THEN SlicerAll(m, lor, <<>>, NONE, NONE) ELSE TLCEval([i \in 1..Len(lor) |-> <<lor[i]>>])
      ops == Expand(pg)
  IN ApplyOps(Annot(SubSeq(ops, Len(pl.filter) + 1, Len(ops)), d), ScanStream(rw, ps, d, pl.filter, pl.slicer))

\* Is the key-ordered merge load-bearing in this terminal state?  The tail starts with a
\* streaming group-by (sd.on) and there is an order of the legs in which their outputs,
\* joined by an unordered combine instead of the merge, make that group-by release a
\* group that comes back (a different result than the sequential one).  Such cases are
\* always exported: they are the ones on which concurrentPath's choice of the fan-in and
\* propagateSortKeyOp's InputSortDir have to agree.
LegPerms(n) == {p \in [1..n -> 1..n] : \A i \in 1..n : \A j \in 1..n : p[i] = p[j] => i = j}
SensOf(pl, rw, d, prts, seq) ==
  /\ pl.fan = "merge" /\ pl.tail # <<>> /\ pl.tail[1].sd.on /\ seq.det
  /\ LET outs == TLCEval([l \in DOMAIN prts |-> LegOutOf(pl, rw, d, prts[l])])
     IN \E p \in LegPerms(Len(prts)) :
          ~Equiv(ApplyOps(pl.tail, CombineStreams(TLCEval([i \in 1..Len(prts) |-> outs[p[i]]]))), seq)

\* Known defects of the tree, modelled as coded, would be named here and exempted
\* from ResultOK (DESIGN 2.4).  None at present: F1 (a cut that does not assign the
\* pool key kept it as the merge key) and F2 (a lifted descending sort against the
\* nulls-max merge) were repaired in the repository and the transcription above
\* follows the repaired code.
TaintOf(pl, rw, d, prts) == {}

RowJson(r) == TLCEval([f \in {g \in Fields : r[g].t # "abs"} |-> r[f]])
RowsJson(s) == TLCEval([i \in 1..Len(s) |-> RowJson(s[i])])

VARIABLES
  vLay, vDesc, vProg, vLegs,      \* the case: layout number, direction, program number, legs (constant along a behaviour)
  vScan,                      \* the scan state: Lister (sLo), Slicer (sStash, smin, smax), legs (sParts, sDone)
  vServed                   \* history: <<leg, objects pulled from the Lister during that Pull>>

vars == <<vLay, vDesc, vProg, vLegs, vScan, vServed>>
cLay == LAYOUTS[vLay]
cProg == PROGS[vProg]

cPlan == PlanTab[vProg][DI(vDesc)]
cRows == RowsTab[vLay][DI(vDesc)]
cMeta == MetaTab[vLay][DI(vDesc)]
HasWK(pl) == \E i \in 1..Len(pl.filter) : pl.filter[i] = "WK"
cLorder == PruneOrder(LorderTab[vLay][DI(vDesc)], cMeta, HasWK(cPlan))
sLo == vScan.lo
sStash == vScan.stash
sParts == vScan.parts
sDone == vScan.done
LegSet == 1..vLegs
Exhausted == ExhaustedS(vScan)
Terminal == TerminalS(vScan)

Init ==
  /\ vLay \in 1..Len(LAYOUTS)
  /\ vDesc \in DescSet
  /\ vProg \in 1..Len(PROGS)
  /\ vLegs \in LegCounts
  /\ vScan = ScanState(PruneOrder(LorderTab[vLay][DI(vDesc)], MetaTab[vLay][DI(vDesc)], HasWK(PlanTab[vProg][DI(vDesc)])), vLegs)
  /\ vServed = <<>>

Pull(l) ==
  /\ CanPull(vScan, l)
  /\ LET r == PullStep(cPlan, cMeta, cRows, vScan, l)
     IN vScan' = r.st /\ vServed' = Append(vServed, <<l, r.pulled>>)
  /\ UNCHANGED <<vLay, vDesc, vProg, vLegs>>

Next == \E l \in LegSet : Pull(l)
Spec == Init /\ [][Next]_vars

\* ---------------------------------------------------------------- results
SeqResult == SeqResultOf(cPlan, cRows, cMeta, cLorder, vDesc, cProg)
ParResult == ParResultOf(cPlan, cRows, vDesc, sParts)
Taint == TaintOf(cPlan, cRows, vDesc, sParts)
LegInput(ps) == ScanStream(cRows, ps, vDesc, cPlan.filter, cPlan.slicer)
LegOut(ps) == LegOutOf(cPlan, cRows, vDesc, ps)

\* ---------------------------------------------------------------- properties
AllObjs == {cLorder[i] : i \in 1..Len(cLorder)}
Handed == UNION {UNION {SeqRange(sParts[l][i]) : i \in 1..Len(sParts[l])} : l \in LegSet}
\* every object is in exactly one place: still listed, stashed, or in exactly one partition of one leg
HandedOnce ==
  /\ Handed \cup SeqRange(sStash) \cup SeqRange(sLo) = AllObjs
  /\ Len(sLo) + Len(sStash) + SumSeq(Concat(TLCEval([l \in LegSet |-> TLCEval([i \in 1..Len(sParts[l]) |-> Len(sParts[l][i])])]))) = Len(cLorder)

\* Slicer (checked once per layout and direction, at constant level): consecutive
\* partitions have disjoint, increasing key spans in pool direction, and the
\* sequential scan through the Slicer yields the pool in ImportComparator order.
SpanOf(m, p) == [mn |-> CHOOSE v \in {m[o].mn : o \in SeqRange(p)} : \A w \in {m[o].mn : o \in SeqRange(p)} : CmpV(v, w, TRUE) <= 0,
                 mx |-> CHOOSE v \in {m[o].mx : o \in SeqRange(p)} : \A w \in {m[o].mx : o \in SeqRange(p)} : CmpV(v, w, TRUE) >= 0]
SlicerProps(l, d) ==
  LET m   == MetaTab[l][DI(d)]
      rw  == RowsTab[l][DI(d)]
      lor == LorderTab[l][DI(d)]
      ps  == SlicerAll(m, lor, <<>>, NONE, NONE)
      sp  == TLCEval([i \in 1..Len(ps) |-> SpanOf(m, ps[i])])
  IN /\ \A i \in 1..Len(ps) - 1 :
          IF d THEN CmpV(sp[i].mn, sp[i+1].mx, TRUE) > 0 ELSE CmpV(sp[i].mx, sp[i+1].mn, TRUE) < 0
     /\ Concat(TLCEval([i \in 1..Len(ps) |-> PartRows(rw, ps[i], d, <<>>)]))
          = StableSort(Concat(TLCEval([i \in 1..Len(lor) |-> rw[lor[i]]])), PoolC(d))
     /\ Len(Concat(ps)) = Len(LAYOUTS[l])
ASSUME \A l \in 1..Len(LAYOUTS) : \A d \in DescSet : SlicerProps(l, d)

\* partial aggregation cRows are combined exactly once: for a split count the
\* final counts add up to the number of cRows the legs scanned
CountConserved ==
  (Terminal /\ Exhausted /\ cPlan.tail # <<>> /\ cPlan.tail[1].part = "in" /\ AggKind(cPlan.tail[1].op) = "count") =>
     LET fin == ApplyOp(cPlan.tail[1], IF cPlan.fan = "merge" THEN MergeStreams(TLCEval([l \in LegSet |-> LegOut(sParts[l])]), cPlan.mc)
                                      ELSE CombineStreams(TLCEval([l \in LegSet |-> LegOut(sParts[l])])))
     IN SumSeq(TLCEval([i \in 1..Len(fin.s) |-> fin.s[i]["a"].n])) = SumSeq(TLCEval([l \in LegSet |-> Len(LegInput(sParts[l]).s)]))

CaseJson(seq, par) ==
  [lay |-> cLay, objs |-> TLCEval([i \in 1..Len(cLay) |-> RowsJson(cRows[i])]),
   desc |-> vDesc, prog |-> cProg, n |-> vLegs, plan |-> PlanText(cPlan), lorder |-> cLorder,
   served |-> TLCEval([i \in 1..Len(vServed) |-> [leg |-> vServed[i][1], objs |-> vServed[i][2]]]),
   seq |-> [rows |-> RowsJson(seq.s), mode |-> Mode(seq), det |-> seq.det, byf |-> seq.by.f],
   parrows |-> RowsJson(par.s), taint |-> Taint, sens |-> SensOf(cPlan, cRows, vDesc, sParts, seq)]

Hash == Len(vServed) + SumSeq(TLCEval([i \in 1..Len(vServed) |-> vServed[i][1] * i])) + Len(cProg) * 7 + Len(cLay) * 3 + vLegs + (IF vDesc THEN 1 ELSE 0)
           + SumSeq(TLCEval([i \in 1..Len(cLorder) |-> cLorder[i] * i])) + SumSeq(TLCEval([i \in 1..Len(cLay) |-> Len(cLay[i]) * i * 5]))

\* Checked in every terminal state: the case is printed first (Emit) so that a
\* counterexample is visible, then the property.
ResultOK ==
  Terminal =>
    LET seq == SeqResult  par == ParResult
        emit == EmitMod > 0 /\ (Hash % EmitMod = EmitRem \/ SensOf(cPlan, cRows, vDesc, sParts, seq))
    IN /\ emit => PrintT(ToJson(CaseJson(seq, par)))
       /\ (seq.det /\ Taint = {}) => (par.det /\ Equiv(par, seq))

\* non-vacuity of the cPlan space (the dynamic features -- a leg with several
\* partitions, a partition with several objects, a leg stopped by its head --
\* are counted by the harness on the exported cases)
ASSUME \E p \in Progs : \E d \in BOOLEAN : LET pl == PlanOf(p, d) IN pl.slicer /\ pl.fan = "merge"
ASSUME \E p \in Progs : PlanOf(p, FALSE).fan = "combine"
ASSUME \E p \in Progs : LET pl == PlanOf(p, FALSE) IN pl.tail # <<>> /\ pl.tail[1].part = "in"
ASSUME \E p \in Progs : LET pl == PlanOf(p, FALSE) IN ~pl.slicer /\ pl.fan = "merge"
=============================================================================
