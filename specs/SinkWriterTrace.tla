-------------------------- MODULE SinkWriterTrace --------------------------
(***************************************************************************)
(* Trace validation for C18: event traces recorded from the real format    *)
(* writers over the harness's faulty sinks are checked against the actions *)
(* of SinkWriter.tla.  Many traces are concatenated in trace.ndjson; each  *)
(* is bracketed by a "begin" event (profile, fault, length of the          *)
(* reference stream per sink) and an "end" event at which the property is  *)
(* evaluated on the reached state and printed as a VERDICT line.           *)
(*                                                                         *)
(* events:  begin | call(op) | sink(s,off,len,n,err) | sclose(s) |         *)
(*          ret(op,err) | end                                              *)
(* Guards that make TLC refuse a trace (REFUSED line, rest of it skipped): event order (call/ret bracketing), *)
(* a sink write outside an API call, after the sink was closed or after a  *)
(* sticky layer kept an error (L2), a payload that is not the continuation *)
(* of the reference stream while nothing has failed, a sink outcome (n,    *)
(* err) different from the fault model's, an error returned although no    *)
(* sink call failed.  Rules L1/L3/L4 are evaluated on the observed return  *)
(* values and end up in broken/taint; the property itself is evaluated at  *)
(* "end".                                                                  *)
(***************************************************************************)
EXTENDS SinkWriter

VARIABLES l,       \* position in Trace (1-based index of the next event)
          tr       \* number of the trace being replayed

Trace == ndJsonDeserialize("trace.ndjson")

tvars == <<vars, l, tr>>

Ev == Trace[l]
IsEvent(e) == l <= Len(Trace) /\ Ev.e = e

Idle0 == [latch |-> FALSE, defects |-> {}, ns |-> 1]
NoFault == [k |-> 0, mode |-> "none"]

TInit == /\ l = 1 /\ tr = 0
         /\ Start(Idle0, NoFault, Zero)
         /\ TLCSet(1, 0)

Step == l' = l + 1 /\ TLCSet(1, IF TLCGet(1) < l THEN l ELSE TLCGet(1))

\* "begin": (re)initialise all variables for the next trace.
BeginB ==
  /\ IsEvent("begin")
  /\ (tr = 0 /\ phase = "idle") \/ phase = "done"
  /\ LET p == [latch |-> Ev.lat, defects |-> {Ev.def[i] : i \in 1..Len(Ev.def)}, ns |-> Ev.s]
         f == [k |-> Ev.k, mode |-> Ev.mode]
         tot == [s \in Sinks |-> Ev.tot[s]]
     IN  /\ prof' = p /\ fault' = f
         /\ phase' = "idle" /\ writes' = 0 /\ ncall' = 0
         /\ produced' = tot /\ offered' = Zero /\ accepted' = Zero
         /\ contig' = AllT /\ sclosed' = AllF /\ latched' = AllF
         /\ calls' = 0 /\ failed' = FALSE /\ mustReport' = FALSE /\ reported' = FALSE
         /\ broken' = {} /\ taint' = {}
  /\ tr' = Ev.t

CallB   == IsEvent("call") /\ Call(Ev.op, Zero) /\ tr' = tr
SinkB   == IsEvent("sink") /\ SinkWrite(Ev.s, Ev.off, Ev.len, Ev.n, Ev.err) /\ tr' = tr
SCloseB == IsEvent("sclose") /\ SinkClose(Ev.s) /\ tr' = tr
RetB    == IsEvent("ret") /\ Ret(Ev.op, Ev.err) /\ tr' = tr
\* "end": the trace must have reached the state after Close returned.
EndB    == IsEvent("end") /\ Done /\ UNCHANGED vars /\ tr' = tr

Normal == BeginB \/ CallB \/ SinkB \/ SCloseB \/ RetB \/ EndB

\* At "end" the property is evaluated on the state the real execution reached.
Verdict == PrintT(<<"VERDICT", tr, failed, reported, Reported, Complete,
                    SetToSeq(broken), SetToSeq(taint)>>)

\* An event that no action of the specification explains: the trace is not a
\* behaviour of SinkWriter.  It is reported and the rest of it is skipped, so
\* that one TLC run validates the whole batch.
NextBegin(i) ==
  LET later == {j \in (i + 1)..Len(Trace) : Trace[j].e = "begin"}
  IN  IF later = {} THEN Len(Trace) + 1 ELSE CHOOSE j \in later : \A m \in later : j <= m

Refuse ==
  /\ l <= Len(Trace)
  /\ ~ENABLED Normal
  /\ PrintT(<<"REFUSED", tr, l>>)
  /\ l' = NextBegin(l) /\ TLCSet(1, l' - 1)
  /\ phase' = "done" /\ tr' = tr
  /\ UNCHANGED <<prof, fault, writes, ncall, produced, offered, accepted, contig, sclosed,
                 latched, calls, failed, mustReport, reported, broken, taint>>

TNext ==
  \/ (BeginB \/ CallB \/ SinkB \/ SCloseB \/ RetB) /\ Step
  \/ EndB /\ Verdict /\ Step
  \/ Refuse

TSpec == TInit /\ [][TNext]_tvars

\* The whole file was consumed.
Accepted == TLCGet(1) = Len(Trace)
\* Printed so that the harness can tell which event was refused.
HighWater == PrintT(<<"HIGHWATER", TLCGet(1), Len(Trace)>>)
Post == HighWater /\ Accepted
=============================================================================
