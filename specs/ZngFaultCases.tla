--------------------------- MODULE ZngFaultCases ---------------------------
(***************************************************************************)
(* C11: ZngFault.tla plus the export of its predictions for the replay on  *)
(* the real reader (R2).  The model-checking run itself is the one of      *)
(* ZngFault (SPECIFICATION Spec and its invariants).  Exported, for every  *)
(* abstract stream up to ExportLen: what a draining consumer must observe  *)
(* (ZngFault!ErrorDelivered, checked over all interleavings, says that the *)
(* protocol delivers exactly this), and the table that maps concrete fault *)
(* classes to the detecting code path.                                     *)
(***************************************************************************)
EXTENDS ZngFault, Json, SequencesExt

CONSTANT ExportLen

CaseRow(s) == [stream |-> s, expected |-> SetToSeq(Expected(s))]

ASSUME ndJsonSerialize("cases.ndjson", SetToSeq({CaseRow(s) : s \in StreamsUpTo(ExportLen)}))
ASSUME JsonSerialize("faultpath.json", FaultPath)
=============================================================================
