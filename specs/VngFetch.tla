------------------------------ MODULE VngFetch ------------------------------
(***************************************************************************)
(* C03 -- repeated Fetch of one cached VNG object (vcache.Object) when     *)
(* the storage fails once.                                                 *)
(*                                                                         *)
(* The object keeps what it has loaded (runtime/vcache: nulls.fetch keeps  *)
(* the run lengths and clears nulls.meta only after the whole segment has  *)
(* been read; loadPrimitive / loadOffsets / loadUint32 store a vector only *)
(* after a successful read).  One Fetch (loader.load) reads, in this       *)
(* order of phases,                                                        *)
(*   phase 1 (fetchNulls): every null run-length segment not yet kept,     *)
(*   phase 2 (loadVector): every tag / length / value segment not yet kept *)
(* and a phase is entered only when the previous one succeeded; inside a   *)
(* phase all reads are issued (errgroup) and the ones that succeed are     *)
(* kept even when another one fails.                                       *)
(* Segs(e) lists the non-empty segments of the object in FILE order (the   *)
(* order in which the writer emits them), each with its phase; the harness *)
(* identifies a segment by its rank among the offsets of the real file.    *)
(*                                                                         *)
(* Behaviours: build a sequence (as in VngEnc), then arm a one-shot        *)
(* failure of the ReadAt of one segment and fetch the SAME object up to    *)
(* MaxFetch times.  Property (FetchOK): a fetch fails exactly when the     *)
(* armed read is issued in it, a fetch that succeeds returns the written   *)
(* sequence -- in particular the fetch after a failed one.                 *)
(***************************************************************************)
EXTENDS VngEnc

CONSTANT MaxFetch

VARIABLES phase,    \* "build" | "fetch"
          kept,     \* segments (indices into Segs) the object holds in memory
          armed,    \* segment whose next ReadAt fails (0: none)
          fired,    \* the failure has been delivered
          log       \* outcome of every fetch so far: [ok, reads]

fvars == <<seq, phase, kept, armed, fired, log>>

RECURSIVE SegsOf(_), SegsOfAll(_, _)
SegsOfAll(cols, i) == IF i > Len(cols) THEN <<>> ELSE SegsOf(cols[i]) \o SegsOfAll(cols, i + 1)
SegsOf(col) ==
  CASE col.k \in {"named", "err"} -> SegsOf(col.in)
    [] col.k = "nulls" -> SegsOf(col.in) \o <<1>>          \* NullsEncoder.Emit: values, then the run lengths
    [] col.k = "const" -> <<>>                              \* a Const lives in the metadata
    [] col.k = "dict"  -> <<2>>                             \* the selectors
    [] col.k = "plain" -> IF col.cnt > 0 THEN <<2>> ELSE <<>>
    [] col.k = "rec"   -> SegsOfAll(col.fields, 1)
    [] col.k \in {"arr", "set"} -> (IF col.len > 0 THEN <<2>> ELSE <<>>) \o SegsOf(col.in)      \* lengths, values
    [] col.k = "map"   -> (IF col.len > 0 THEN <<2>> ELSE <<>>) \o SegsOf(col.keys) \o SegsOf(col.vals)
    [] col.k = "union" -> (IF col.len > 0 THEN <<2>> ELSE <<>>) \o SegsOfAll(col.vals, 1)        \* tags, members
Segs(e) == IF e.k = "single" THEN SegsOf(e.col)
           ELSE (IF Len(e.types) > 1 THEN <<2>> ELSE <<>>) \o SegsOfAll(e.cols, 1)              \* type tags, columns

FInit == seq = <<>> /\ phase = "build" /\ kept = {} /\ armed = 0 /\ fired = FALSE /\ log = <<>>

Build == /\ phase = "build" /\ Len(seq) < MaxLen
         /\ \E el \in Elems : seq' = Append(seq, el)
         /\ UNCHANGED <<phase, kept, armed, fired, log>>

\* Close the object and choose the read that will fail once (0: none).
Arm == /\ phase = "build" /\ seq # <<>> /\ ~Defect(Enc(seq))
       /\ \E s \in 0..Len(Segs(Enc(seq))) : armed' = s
       /\ phase' = "fetch"
       /\ UNCHANGED <<seq, kept, fired, log>>

\* loader.load on the cached object.
Fetch ==
  /\ phase = "fetch" /\ Len(log) < MaxFetch
  /\ LET segs == Segs(Enc(seq))
         need1 == {i \in 1..Len(segs) : segs[i] = 1 /\ i \notin kept}
         fail1 == ~fired /\ armed \in need1
         kept1 == kept \cup (need1 \ (IF fail1 THEN {armed} ELSE {}))
         need2 == IF fail1 THEN {} ELSE {i \in 1..Len(segs) : segs[i] = 2 /\ i \notin kept1}
         fail2 == ~fired /\ ~fail1 /\ armed \in need2
         kept2 == kept1 \cup (need2 \ (IF fail2 THEN {armed} ELSE {})) IN
     /\ kept' = kept2
     /\ fired' = (fired \/ fail1 \/ fail2)
     /\ log' = Append(log, [ok |-> ~(fail1 \/ fail2), reads |-> Cardinality(need1) + Cardinality(need2)])
  /\ UNCHANGED <<seq, phase, armed>>

FNext == Build \/ Arm \/ Fetch
FSpec == FInit /\ [][FNext]_fvars

\* A fetch that succeeded holds every segment, so what it materializes is
\* the written sequence (LoadSeq of VngEnc); a failed fetch is followed by
\* one that succeeds; nothing is read twice.
FetchOK ==
  /\ \A i \in 1..Len(log) : log[i].ok => \A j \in (i + 1)..Len(log) : log[j].ok /\ log[j].reads = 0
  /\ (log # <<>> /\ log[Len(log)].ok) =>
        /\ kept = 1..Len(Segs(Enc(seq)))
        /\ FlatSeq(LoadSeq(Enc(seq))) = FlatSeq(seq)
  /\ Cardinality({i \in 1..Len(log) : ~log[i].ok}) <= 1

FCase == [seq |-> seq, ty |-> Types, segs |-> Segs(Enc(seq)), armed |-> armed, log |-> log]
FExport == (PrintMode = "case" /\ phase = "fetch" /\ Len(log) = MaxFetch) => PrintT(ToJson(FCase))
=============================================================================
