--------------------------- MODULE PullProtoTrace ---------------------------
(***************************************************************************)
(* C08 (protocol part) -- validation of executions of the REAL operators   *)
(* (combine.New / merge.New / op.NewMux / fork.New built from Go over      *)
(* scripted, gated leaf pullers; harness/props/c08/proto.go) against       *)
(* PullProto.tla.                                                          *)
(*                                                                         *)
(* ptraces.ndjson: one record per execution                                *)
(*   [id, topo, n, mode, k, skew, scripts, ev, ldone]                      *)
(* ev is the sequence of the environment's moves and of what the consumer  *)
(* got back, in the order observed: <<"L", i>> the gate let leaf i's       *)
(* Pull(false) return, <<"C", 1|2|3>> the consumer called Pull(false) /    *)
(* Pull(true) / cancelled the context, <<"R", x>> a consumer call returned *)
(* item x.  The harness moves only when the process is quiescent, so the   *)
(* trace must be a behaviour of PullProto with Coarse = TRUE: between two  *)
(* recorded events any number of goroutine steps (Internal) may happen.    *)
(* A trace is accepted when its last event has been taken and the leaves'  *)
(* Pull(true) counts agree; accepted ids are printed.                      *)
(***************************************************************************)
EXTENDS PullProto

Traces == ndJsonDeserialize("ptraces.ndjson")
VARIABLES ti, tp
tvars == <<vars, ti, tp>>

CaseIs(t) == vTopo = t.topo /\ vN = t.n /\ vMode = t.mode /\ vK = t.k /\ vSkew = t.skew /\ vScr = t.scripts /\ lpos = [i \in 1..3 |-> 1] /\ ldone = [i \in 1..3 |-> 0] /\ lclosed = [i \in 1..3 |-> FALSE] /\ ctx = FALSE /\ ppc = [p \in 1..t.n |-> "init"] /\ pitem = [p \in 1..t.n |-> 0] /\ queue = <<>> /\ blocked = [p \in 1..t.n |-> FALSE] /\ hol = [p \in 1..t.n |-> 0] /\ hq = <<>> /\ nparents = t.n /\ opc = "idle" /\ ocur = 0 /\ oidx = 0 /\ oret = 0 /\ oafter = "" /\ pdpc = [p \in 1..t.n |-> "none"] /\ rpc = "init" /\ ritem = 0 /\ rk = 0 /\ rblocked = [p \in 1..t.n |-> FALSE] /\ cpc = "idle" /\ cnt = 0 /\ delivered = <<>> /\ taint = {} /\ h = <<>>

\* every trace is an initial state of its own: a rejected trace does not affect the others
TInit == ti \in 1..Len(Traces) /\ tp = 1 /\ CaseIs(Traces[ti])

Cur == Traces[ti]
\* a recorded context error stands for any error that wraps context.Canceled
Matches(x, want) == x = want

TakeEvent ==
  /\ tp <= Len(Cur.ev)
  /\ LET e == Cur.ev[tp] IN
       \/ e[1] = "L" /\ LeafReturn(e[2])
       \/ e[1] = "C" /\ e[2] = 1 /\ ConsumerPull
       \/ e[1] = "C" /\ e[2] = 2 /\ ConsumerDone
       \/ e[1] = "C" /\ e[2] = 3 /\ ConsumerCancel
       \/ e[1] = "R" /\ opc = "ret" /\ Matches(oret, e[2]) /\ ConsumerReturn
  /\ tp' = tp + 1 /\ ti' = ti

Accepted == /\ tp > Len(Cur.ev)
            /\ \A i \in 1..Len(Cur.ldone) : ldone[i] = Cur.ldone[i]

Done1 == Accepted /\ PrintT(<<"ACCEPT", Cur.id>>) /\ UNCHANGED tvars

TNext == (Internal /\ UNCHANGED <<ti, tp>>) \/ TakeEvent \/ Done1
TSpec == TInit /\ [][TNext]_tvars
=============================================================================
