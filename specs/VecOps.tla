------------------------------- MODULE VecOps -------------------------------
(***************************************************************************)
(* C09 -- whole programs on the vector runtime: two boundary families that *)
(* the column configurations of VecAgg.tla do not reach.                   *)
(*                                                                         *)
(* (A) Stateful operators inside a re-entered scope.  The body of          *)
(*     `over this => ( ... )` runs once per input value: the operator sees *)
(*     one sub-sequence per value, each ended by EOS, and must start       *)
(*     afresh for the next one.  runtime/vam/op/head.go Head.Pull and   *)
(*     tail.go Tail.Pull are transcribed as state machines with their   *)
(*     resets (head: count = 0 when the limit was reached, on done, and on *)
(*     the parent's EOS; tail: vecs/eos cleared after the last vector)     *)
(*     next to the per-sub-sequence reference (what the sequential runtime *)
(*     does: runtime/sam/op/head, tail reset on every EOS).  TLC checks    *)
(*     vam = reference for every sequence of <= MaxSubs sub-sequences of   *)
(*     lengths 0..MaxLen (i.e. 0, 1, N-1, N, N+1 for the limits used) and  *)
(*     exports the cases.                                                  *)
(* (B) Index expressions container[index] at the bounds.  The sequential   *)
(*     semantics (runtime/sam/expr Index on arrays and sets: 0-based, a    *)
(*     negative index counts from the end, anything out of range is        *)
(*     error("missing")) next to runtime/vam/expr/index.go indexArrayOrSet *)
(*     as coded over the FLATTENED values vector of a multi-row column     *)
(*     (offsets; the slot start+idx -- so an off-by-one reads the          *)
(*     neighbour row).  TLC checks them equal for containers of length     *)
(*     0..2, every index in -len-1..len+1, with a neighbour row before or  *)
(*     after, and exports the cases.                                       *)
(***************************************************************************)
EXTENDS Integers, Sequences, FiniteSets, TLC, Json

CONSTANTS MaxSubs,        \* sub-sequences per input (3)
          MaxLen,         \* longest sub-sequence (3)
          HeadResetAtEos, \* TRUE as coded: Head.Pull resets count when the parent returns EOS
          IndexUpperStrict, \* TRUE as coded: idx < len (FALSE would be idx <= len)
          OutFile

RECURSIVE Concat(_)
Concat(ss) == IF ss = <<>> THEN <<>> ELSE ss[1] \o Concat(Tail(ss))
RECURSIVE SumSeq(_)
SumSeq(s) == IF s = <<>> THEN 0 ELSE s[1] + SumSeq(Tail(s))
Prefix(s, n) == SubSeq(s, 1, IF Len(s) < n THEN Len(s) ELSE n)
Suffix(s, n) == SubSeq(s, IF Len(s) <= n THEN 1 ELSE Len(s) - n + 1, Len(s))

\* ---------------------------------------------------------------- (A) scoped operators
\* all sequences of 1..MaxSubs lengths in 0..MaxLen
RECURSIVE Shapes(_)
Shapes(k) == IF k = 0 THEN {<<>>} ELSE {Append(s, n) : s \in Shapes(k - 1), n \in 0..MaxLen}
AllShapes == UNION {Shapes(k) : k \in 1..MaxSubs}
\* the input arrays: elements numbered consecutively from 1
RECURSIVE Offs(_, _)
Offs(shape, acc) == IF shape = <<>> THEN <<>> ELSE <<acc>> \o Offs(Tail(shape), acc + shape[1])
Arrays(shape) == LET o == Offs(shape, 0) IN [i \in 1..Len(shape) |-> [j \in 1..shape[i] |-> o[i] + j]]

\* programs: body of `over this => ( body )`
ScopedProgs == {"head1", "head2", "head3", "tail1", "tail2", "sortr", "inc_head2", "gt2_head2", "tail2_head1"}
Limit(p) == CASE p \in {"head1", "tail1"} -> 1 [] p \in {"head2", "tail2", "inc_head2", "gt2_head2"} -> 2 [] OTHER -> 3

RECURSIVE Rev(_)
Rev(s) == IF s = <<>> THEN <<>> ELSE Append(Rev(Tail(s)), s[1])
\* reference: the operator applied to each sub-sequence on its own (ints in increasing order)
RefSub(p, sub) ==
  CASE p \in {"head1", "head2", "head3"} -> Prefix(sub, Limit(p))
    [] p \in {"tail1", "tail2"} -> Suffix(sub, Limit(p))
    [] p = "sortr" -> Rev(sub)
    [] p = "inc_head2" -> Prefix([j \in 1..Len(sub) |-> sub[j] + 1], 2)
    [] p = "gt2_head2" -> Prefix(SelectSeq(sub, LAMBDA x : x > 2), 2)
    [] p = "tail2_head1" -> Prefix(Suffix(sub, 2), 1)
Ref(p, shape) == LET a == Arrays(shape) IN Concat([i \in 1..Len(a) |-> RefSub(p, a[i])])

\* Head.Pull as coded, driven by a consumer that pulls until EOS for every
\* sub-sequence.  The parent hands each (non-empty) sub-sequence as one vector,
\* then EOS; Pull(true) makes it skip to the end of the current sub-sequence.
\* State: count.  Returns [out, count].
HeadSub(limit, count0, vec) ==
  \* first Pull of the sub-sequence
  IF count0 >= limit THEN
       \* `if h.count >= h.limit { h.count = 0; return nil, nil }`: the stale count eats
       \* this sub-sequence's first Pull: the consumer sees EOS at once
       [out |-> <<>>, count |-> 0]
  ELSE IF vec = <<>> THEN [out |-> <<>>, count |-> IF HeadResetAtEos THEN 0 ELSE count0]      \* parent EOS
  ELSE LET remaining == limit - count0 IN
       IF Len(vec) < remaining
       THEN \* all of it; the next Pull gets the parent's EOS
            [out |-> vec, count |-> IF HeadResetAtEos THEN 0 ELSE count0 + Len(vec)]
       ELSE \* parent.Pull(true); count = limit; the next Pull resets and returns EOS
            [out |-> Prefix(vec, remaining), count |-> 0]
RECURSIVE HeadRun(_, _, _)
HeadRun(limit, count, subs) ==
  IF subs = <<>> THEN <<>>
  ELSE LET r == HeadSub(limit, count, subs[1]) IN r.out \o HeadRun(limit, r.count, Tail(subs))

\* Tail.Pull as coded: tail() drains the parent to EOS and keeps the last limit
\* values; after the last vector eos = true, the next Pull clears the state.
TailSub(limit, vec) == Suffix(vec, limit)

Vam(p, shape) ==
  LET a == Arrays(shape) IN
  CASE p \in {"head1", "head2", "head3"} -> HeadRun(Limit(p), 0, a)
    [] p = "inc_head2" -> HeadRun(2, 0, [i \in 1..Len(a) |-> [j \in 1..Len(a[i]) |-> a[i][j] + 1]])
    [] p = "gt2_head2" -> HeadRun(2, 0, [i \in 1..Len(a) |-> SelectSeq(a[i], LAMBDA x : x > 2)])
    [] p = "tail2_head1" -> HeadRun(1, 0, [i \in 1..Len(a) |-> TailSub(2, a[i])])
    [] p \in {"tail1", "tail2"} -> Concat([i \in 1..Len(a) |-> TailSub(Limit(p), a[i])])
    [] OTHER -> Ref(p, shape)

ScopedOK == \A shape \in AllShapes : \A p \in ScopedProgs : Vam(p, shape) = Ref(p, shape)
\* non-vacuity: some sub-sequence ends below the limit and is followed by a longer one
ScopedNonVacuous == \E shape \in AllShapes : Len(shape) >= 2 /\ shape[1] = 1 /\ shape[2] = 3

\* ---------------------------------------------------------------- (B) index at the bounds
MISSING == -1000
Containers == {<<>>, <<10>>, <<20, 21>>}
IdxOf(c) == (-(Len(c) + 1))..(Len(c) + 1)
\* sequential semantics
IndexRef(c, i) ==
  LET n == Len(c)  j == IF i < 0 THEN n + i ELSE i
  IN IF j >= 0 /\ j < n THEN c[j + 1] ELSE MISSING
\* indexArrayOrSet as coded over the flattened values of a column of containers
Flat(col) == Concat(col)
StartOf(col, r) == SumSeq([k \in 1..(r - 1) |-> Len(col[k])])
IndexVam(col, idxs, r) ==
  LET n == Len(col[r])  i == idxs[r]  j == IF i < 0 THEN n + i ELSE i
      inrange == j >= 0 /\ (IF IndexUpperStrict THEN j < n ELSE j <= n)
      slot == StartOf(col, r) + j + 1
  IN IF ~inrange THEN MISSING
     ELSE IF slot > Len(Flat(col)) THEN -2000        \* out of the values vector: the query panics
     ELSE Flat(col)[slot]
\* a boundary row (c, i) with a neighbour row (<<30, 31>> with index 0, or <<>> with 0) before or after it
Neighbours == {<< <<30, 31>>, 0 >>, << <<>>, 0 >>}
IndexCases == {[col |-> IF first THEN <<c, nb[1]>> ELSE <<nb[1], c>>,
                idx |-> IF first THEN <<i, nb[2]>> ELSE <<nb[2], i>>] :
                   c \in Containers, i \in -3..3, nb \in Neighbours, first \in BOOLEAN}
IndexCasesOK == {x \in IndexCases : \A r \in 1..2 : x.idx[r] \in IdxOf(x.col[r])}
IndexOK == \A x \in IndexCasesOK : \A r \in 1..2 : IndexVam(x.col, x.idx, r) = IndexRef(x.col[r], x.idx[r])

\* ---------------------------------------------------------------- export
RECURSIVE SetToSeq2(_)
SetToSeq2(S) == IF S = {} THEN <<>> ELSE LET x == CHOOSE y \in S : TRUE IN <<x>> \o SetToSeq2(S \ {x})
ScopedRows == {[kind |-> "scoped", prog |-> p, arrays |-> Arrays(shape), expect |-> Ref(p, shape), col |-> <<>>, idx |-> <<>>] : shape \in AllShapes, p \in ScopedProgs}
IndexRows == {[kind |-> "index", prog |-> "index", arrays |-> <<>>, col |-> x.col, idx |-> x.idx,
               expect |-> [r \in 1..2 |-> IndexRef(x.col[r], x.idx[r])]] : x \in IndexCasesOK}
Export == OutFile = "" \/ ndJsonSerialize(OutFile, SetToSeq2(ScopedRows \cup IndexRows))

ASSUME ScopedOK
ASSUME ScopedNonVacuous
ASSUME IndexOK
ASSUME Cardinality(IndexCasesOK) > 50
ASSUME Export

VARIABLE fin
Init == fin = FALSE
Next == fin = FALSE /\ fin' = TRUE
Spec == Init /\ [][Next]_fin
=============================================================================
