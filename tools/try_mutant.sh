#!/bin/bash
# usage: tools/try_mutant.sh <patch.diff> <Cxx> [tier]   -> prints "CAUGHT"/"MISSED"/"INCONCLUSIVE" and the first VIOLATION lines
# Applies the patch in a scratch worktree of /repo (never in /repo), runs the check against it, cleans up.
set -u
patch="$1"; prop="$2"; tier="${3:-quick}"
wt=$(mktemp -d /var/tmp/wt-mut.XXXXXX); rmdir "$wt"
git -C /repo worktree add -q "$wt" HEAD || exit 3
if ! git -C "$wt" apply "$patch"; then echo "PATCH-DOES-NOT-APPLY"; git -C /repo worktree remove --force "$wt"; exit 3; fi
if ! (cd "$wt" && go build ./... 2>&1 | tail -3); then echo "DOES-NOT-BUILD"; fi
before=$(ls /verif/replays 2>/dev/null | sort)
out=$(cd /verif && VERIF_REPO="$wt" VERIF_SEED="${VERIF_SEED:-0}" ./check "$prop" "$tier" 2>&1); rc=$?
echo "$out" | grep -E "^VIOLATION|signature:|what:" | head -9
case $rc in 0) echo "RESULT $prop MISSED (exit 0)";; 1) echo "RESULT $prop CAUGHT (exit 1)";; *) echo "RESULT $prop INCONCLUSIVE (exit $rc)"; echo "$out" | tail -5;; esac
# remove replay files created by this run and restore evidence from /repo later
for f in $(ls /verif/replays 2>/dev/null | sort); do echo "$before" | grep -qx "$f" || rm -f "/verif/replays/$f"; done
git -C /repo worktree remove --force "$wt"
git -C /verif checkout -- "evidence/$prop.json" 2>/dev/null
exit $rc
