#!/usr/bin/env python3
"""Generate MANIFEST.json from tools/manifest_src.json (one entry per claimed property)
and properties.jsonl (every property not claimed goes to not_applicable with its reason)."""
import json,sys
src=json.load(open('/verif/tools/manifest_src.json'))
props=[json.loads(l)['id'] for l in open('/verif/properties.jsonl')]
checks=[]
for pid in props:
    e=src['checks'].get(pid)
    if not e: continue
    checks.append({
        "property_id":pid,
        "quick_cmd":f"./check {pid} quick",
        "thorough_cmd":f"./check {pid} thorough",
        "evidence_file":f"/verif/evidence/{pid}.json",
        "replay_cmd_template":f"./check {pid} --replay {{path}}",
        "engine":e["engine"],
        "level_claimed":{"category":e["category"],"text":e["text"],"design_ref":e["design_ref"]},
        "level_note":e["note"],
        "technique":e["technique"],
    })
na=[{"property_id":p,"reason":src['not_applicable'].get(p,"check not built yet in this round; see DESIGN.md section 7")} for p in props if p not in src['checks']]
m={"version":1,
   "setup_cmd":"./check --setup",
   "hooks":src["hooks"],
   "engines":src["engines"],
   "checks":checks,
   "notes":src["notes"],
   "not_applicable":na}
json.dump(m,open('/verif/MANIFEST.json','w'),indent=1)
print("claimed:",len(checks),"not_applicable:",len(na))
