#!/bin/bash
# Run the repository's pinned test suite with the verif guard OFF and compare with BASELINE.json.
# usage: tools/run_suite.sh [outfile]
out="${1:-/var/tmp/suite.json}"
cd /repo && go test -mod=mod -json -vet=off -count=1 -timeout 25m ./... > "$out" 2>/var/tmp/suite.err
python3 - "$out" <<'PY'
import json,sys
base=json.load(open('/root/.vp/BASELINE.json'))
stable=set(base['stable_pass'])
res={}
for l in open(sys.argv[1]):
    try: e=json.loads(l)
    except: continue
    if e.get('Action') in('pass','fail','skip') and e.get('Test'):
        res[e['Package']+'::'+e['Test']]=e['Action']
bad=[t for t in stable if res.get(t)!='pass']
print("stable tests:",len(stable),"passing now:",len(stable)-len(bad))
for t in sorted(bad)[:40]: print("NOT PASSING:",t,res.get(t))
sys.exit(1 if bad else 0)
PY
