#!/usr/bin/env python3
import json,sys,glob
import jsonschema
jsonschema.validate(json.load(open('/verif/MANIFEST.json')),json.load(open('/root/.vp/MANIFEST.schema.json')))
es=json.load(open('/root/.vp/EVIDENCE.schema.json'))
m=json.load(open('/verif/MANIFEST.json'))
bad=0
for c in m['checks']:
    f=c['evidence_file']
    try:
        ev=json.load(open(f)); jsonschema.validate(ev,es)
        assert ev['level']==c['level_claimed']['category'],(ev['level'],c['level_claimed']['category'])
        assert ev['property_id']==c['property_id']
    except Exception as e:
        bad+=1; print("BAD",f,str(e)[:300])
print("manifest ok; evidence files bad:",bad)
sys.exit(1 if bad else 0)
