#!/bin/bash
# usage: tools/confirm_mutant.sh <seed-id> <srcdir> <demo-dest-relative-to-worktree> <demo-run-cmd...>
# Confirms an independently produced seeded defect in a scratch worktree of /repo:
#   demo passes at HEAD, patch applies and builds, demo fails with the patch,
#   tests of the touched packages still pass with the patch.  Writes /verif/seeded/<seed-id>/.
set -u
id="$1"; src="$2"; dest="$3"; shift 3; runcmd="$*"
export GOFLAGS=-mod=mod GOPROXY=off GOSUMDB=off GOTOOLCHAIN=local
wt=$(mktemp -d /var/tmp/wt-conf.XXXXXX); rmdir "$wt"
git -C /repo worktree add -q "$wt" HEAD || exit 3
log=$(mktemp /var/tmp/confirm.XXXXXX)
cd "$wt"
mkdir -p "$(dirname "$dest")"; cp "$src/demo_test.go" "$dest"
[ -f "$src/helper_test.go" ] && cp "$src/helper_test.go" "$(dirname "$dest")/helper_test.go"
echo "## demo at HEAD: $runcmd" >>"$log"
if bash -c "$runcmd" >>"$log" 2>&1; then base=pass; else base=FAIL; fi
if ! git apply "$src/patch.diff" 2>>"$log"; then echo "$id PATCH-DOES-NOT-APPLY"; cd /; git -C /repo worktree remove --force "$wt"; exit 3; fi
echo "## build with patch" >>"$log"
if go build ./... >>"$log" 2>&1; then build=ok; else build=FAIL; fi
echo "## demo with patch" >>"$log"
if bash -c "$runcmd" >>"$log" 2>&1; then mut=pass; else mut=FAIL; fi
rm -f "$dest"; [ -f "$src/helper_test.go" ] && rm -f "$(dirname "$dest")/helper_test.go"; rmdir "$(dirname "$dest")" 2>/dev/null
pkgs=$(grep '^+++ b/' "$src/patch.diff" | sed 's#^+++ b/##' | xargs -n1 dirname | sort -u | sed 's#^#./#' | tr '\n' ' ')
echo "## existing tests of touched packages with patch: go test -count=1 $pkgs" >>"$log"
if go test -count=1 $pkgs >>"$log" 2>&1; then tests=pass; else tests=FAIL; fi
cd /; git -C /repo worktree remove --force "$wt"
echo "$id base=$base build=$build demo_with_patch=$mut touched_pkg_tests=$tests"
if [ "$base" = pass ] && [ "$build" = ok ] && [ "$mut" = FAIL ] && [ "$tests" = pass ]; then
  d=/verif/seeded/$id; mkdir -p "$d"
  cp "$src/patch.diff" "$d/patch.diff"; cp "$src/demo_test.go" "$d/demo_test.go"; cp "$src/notes.md" "$d/notes.md" 2>/dev/null; cp "$src/helper_test.go" "$d/helper_test.go" 2>/dev/null
  tail -c 6000 "$log" > "$d/confirm.log"
  python3 - "$id" "$dest" "$runcmd" "$pkgs" <<'PY'
import json,sys,re
id,dest,run,pkgs=sys.argv[1:5]
prop=id.split('-')[0]
notes=open(f'/verif/seeded/{id}/notes.md').read() if True else ''
needs=''
m=re.search(r'(?is)(trigger|what it needs|needs)[^\n]*\n(.{0,900})',notes)
if m: needs=m.group(2).strip()[:900]
meta={"id":id,"property":prop,"breaks":prop,"needs_to_manifest":needs,
 "demo":{"place_at":dest,"run":run,"fails_with_patch":True,"passes_at_head":True},
 "confirmed":{"by":"tools/confirm_mutant.sh in a scratch worktree of /repo","build":"go build ./... ok","existing_tests":"go test -count=1 "+pkgs+" pass with the patch","note":"the producing agent additionally ran the wider suites listed in notes.md"},
 "detected_by":{}}
json.dump(meta,open(f'/verif/seeded/{id}/meta.json','w'),indent=1)
PY
  echo "$id KEPT"
else
  echo "$id NOT-CONFIRMED (see $log)"
fi
