#!/bin/bash
# usage: tools/sweep_mutants.sh [Cxx ...]   -- re-evaluates every seeded change of the given properties (default: all)
# against the registered quick check of its property; one property at a time per worker, PAR workers in parallel.
# Writes /var/tmp/sweep/<id>.txt and prints a summary table.
PAR=${PAR:-3}
mkdir -p /var/tmp/sweep
props="$*"
[ -z "$props" ] && props=$(ls /verif/seeded | sed 's/-.*//' | sort -u)
one() {
  p=$1
  for d in /verif/seeded/$p-*/; do
    id=$(basename $d)
    /verif/tools/try_mutant.sh $d/patch.diff $p > /var/tmp/sweep/$id.txt 2>&1
    echo "$id $(grep -m1 '^RESULT' /var/tmp/sweep/$id.txt) $(grep -m1 'signature:' /var/tmp/sweep/$id.txt | cut -c1-120)"
  done
}
export -f one
echo $props | tr ' ' '\n' | xargs -P $PAR -I{} bash -c 'one {}'
