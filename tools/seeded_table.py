#!/usr/bin/env python3
"""Fill detected_by in seeded/*/meta.json from tools/seeded_results.json and print the DESIGN.md table."""
import json,glob,os,re
res=json.load(open('/verif/tools/seeded_results.json'))
rows=[]
for d in sorted(glob.glob('/verif/seeded/*/')):
    id=os.path.basename(d.rstrip('/'))
    mp=d+'meta.json'
    meta=json.load(open(mp))
    meta['detected_by']=res.get(id,{})
    json.dump(meta,open(mp,'w'),indent=1)
    title=''
    for l in open(d+'notes.md'):
        if l.startswith('#'):
            title=re.sub(r'^#+\s*','',l.strip()); title=re.sub(r'^(C\d\d\s*/\s*)?((seeded )?defect|Seeded defect|Defect|C\d\d seeded defect)\s*\d+\s*[—:-]+\s*','',title,flags=re.I); break
    det='; '.join(f"{k}: {v}" for k,v in res.get(id,{}).items()) or 'not evaluated yet'
    rows.append(f"| {id} | {title} | {det} |")
print("| seeded change | what it is | detected by (quick tier) |\n|---|---|---|")
print('\n'.join(rows))
