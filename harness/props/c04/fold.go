package main

import (
	"fmt"
	"strings"
	"sync"

	zed "github.com/brimdata/super"
	"github.com/brimdata/super/runtime/sam/expr"

	"verif/core"
)

// Case folding of the keyword search: Pushdown.tla (section "Case folding")
// transcribes stringsearch.CaseFinder/tolower next to strings.EqualFold over the
// bytes at both ends of the alphabet and the non-letters next to them, checks
// EqualFold-contains => CaseFinder-finds for every 2-byte term and every text,
// and exports the table.  Here every cell is replayed on the real code: the
// real evaluator and the real buffer filter of `search "<term>"` on the frame
// holding {k:"<text>"} (string value: the string case finder) and {"<text>":1}
// (field name: FieldNameFinder), and every term is run over all those values
// as ZSON and as ZNG with one value per frame.

type foldLine struct {
	Texts []string `json:"texts"`
	Term  string   `json:"term"`
	Cells []string `json:"cells"`
}

const (
	sigFoldFn  = "bf-underapprox:search:case-fold"
	sigFoldSys = "encoding-differs:zng:search:case-fold"
)

func zsonString(s string) string { return `"` + s + `"` } // the alphabet has no character that needs escaping

func (h *harness) foldLevel(lines []foldLine) error {
	c := h.c
	var texts []string
	var rows []foldLine
	for _, l := range lines {
		if l.Texts != nil {
			texts = l.Texts
		} else {
			rows = append(rows, l)
		}
	}
	if len(texts) == 0 || len(rows) == 0 {
		return fmt.Errorf("Pushdown.tla exported no case-folding table")
	}
	// two values per text: the text as a string value and as a field name
	var zs []string
	for _, t := range texts {
		zs = append(zs, "{k:"+zsonString(t)+"}", "{"+zsonString(t)+":1}")
	}
	zctx := zed.NewContext()
	vals, err := readValues(zctx, strings.Join(zs, "\n"))
	if err != nil || len(vals) != len(zs) {
		return fmt.Errorf("case-folding values: %v (%d of %d)", err, len(vals), len(zs))
	}
	frames := make([][]byte, len(vals))
	for i, v := range vals {
		frames[i] = frameOf(v)
	}
	cells, skipped, caseOnly := 0, 0, 0
	for _, row := range rows {
		prog := "search " + zsonString(row.Term)
		cp, err := h.compile(zctx, prog)
		if err != nil {
			c.Drift("case folding: %q does not compile to a reader filter: %v", prog, err)
			continue
		}
		if cp.bf == nil {
			c.Drift("case folding: %q has no buffer filter (Pushdown.tla expects the case finder)", prog)
			continue
		}
		ectx := expr.NewContext()
		for i, v := range vals {
			spec := row.Cells[i/2]
			specEval, specBF := spec[0] == '1', spec[1] == 'T'
			realEval := isTrue(cp.eval.Eval(ectx, v))
			realBF := cp.bf.Eval(zctx, frames[i])
			cells++
			c.Eval(fmt.Sprintf("fold|%s|%s", row.Term, zs[i]), !realBF)
			if !realBF {
				skipped++
			}
			if realEval && texts[i/2] != row.Term && !strings.Contains(texts[i/2], row.Term) {
				caseOnly++
			}
			if realEval != specEval {
				c.Drift("case folding evaluator: `%s` on %s: real %v, Pushdown.tla %v", prog, zs[i], realEval, specEval)
			}
			if realBF != specBF {
				c.Drift("case folding buffer filter: `%s` on %s: real %v, Pushdown.tla %v", prog, zs[i], realBF, specBF)
			}
			if realEval && !realBF {
				c.Violate(sigFoldFn, fmt.Sprintf("`%s` is true on %s (case-insensitive match) but its buffer filter rejects the ZNG frame holding that value", prog, zs[i]),
					witness{Kind: "function", Program: prog, Value: zs[i]})
			}
		}
	}
	c.Set("case_fold_cells", cells)
	c.Set("case_fold_frames_rejected", skipped)
	c.Set("case_fold_matches_by_case_only", caseOnly)
	if caseOnly == 0 || skipped == 0 {
		c.Inconclusive("vacuous: the case-folding table has no match that differs in case only (%d) or no rejected frame (%d)", caseOnly, skipped)
	}
	c.Add("traces_validated_against_impl", int64(len(rows)))

	// end to end: every term over all values, ZSON vs ZNG with one value per frame
	in := &sysInput{name: "fold", zson: strings.Join(zs, "\n") + "\n"}
	enc := encoding{name: "zng", zng: &zngOpts{Compress: false, Thresh: 1, Threads: 1}}
	enc2 := encoding{name: "zng", zng: &zngOpts{Compress: true, Thresh: 1, EOSEvery: 7, Threads: 2}}
	if err := h.prepare(in, []encoding{enc, enc2}); err != nil {
		return err
	}
	encs := []encoding{enc, enc2}
	if c.Quick() {
		encs = encs[:1]
	}
	var wg sync.WaitGroup
	ch := make(chan foldLine, len(rows))
	for ti, row := range rows {
		if c.Quick() && ti%2 != int(c.Seed%2) && !strings.ContainsAny(row.Term, "azAZ") {
			continue // quick tier: every term with a letter, half of the others
		}
		ch <- row
	}
	close(ch)
	for i := 0; i < 12; i++ {
		wg.Add(1)
		go func() {
			defer wg.Done()
			for row := range ch {
				p := sysProgram{text: "search " + zsonString(row.Term), mode: "seq"}
				base, err := h.runOne(p, in, encoding{name: "zson"})
				if err != nil {
					c.Drift("case folding: `%s` fails on ZSON: %v", p.text, err)
					continue
				}
				for _, e := range encs {
					got, err := h.runOne(p, in, e)
					h.mu.Lock()
					h.sysRuns++
					h.mu.Unlock()
					c.Eval(fmt.Sprintf("sys|%s|fold|%s", p.text, e), true)
					w := witness{Kind: "system", Program: p.text, Input: in.zson, Encoding: e.String(), Zng: e.zng, Mode: "seq", Baseline: base, Got: got}
					if err != nil {
						w.Err = err.Error()
						c.Violate("encoding-error:zng:search:case-fold", fmt.Sprintf("`%s` succeeds on ZSON but fails on %s: %v", p.text, e, err), w)
						continue
					}
					h.mu.Lock()
					h.sysCompared++
					h.mu.Unlock()
					if !sameSeq(got, base) {
						c.Violate(sigFoldSys, fmt.Sprintf("`%s` over the case-folding values: ZSON gives %d values %s, %s gives %d values %s", p.text, len(base), short(base), e, len(got), short(got)), w)
					}
				}
			}
		}()
	}
	wg.Wait()
	return nil
}

var _ = core.NDJSON[int]
