package main

import (
	"bytes"
	"fmt"
	"math/rand"
	"strings"

	zed "github.com/brimdata/super"
	"github.com/brimdata/super/zio"
	"github.com/brimdata/super/zio/zjsonio"
	"github.com/brimdata/super/zson"
)

func zjsonReader(zctx *zed.Context, b []byte) zio.Reader {
	return zjsonio.NewReader(zctx, bytes.NewReader(b))
}

func formatValue(v zed.Value) string { return zson.FormatValue(v) }

// Programs beyond the searches of the table: type functions, shaping and
// aggregations from the property's quantifier, and operators that hold values
// across pulls (so that a value still aliasing a recycled -- poisoned -- frame
// buffer changes the result).  mode "bag": the order of the result is not
// defined by the language (group-by output), compared as a multiset.
var otherPrograms = []sysProgram{
	{text: "pass", mode: "seq"},
	{text: "yield typeof(this)", mode: "seq"},
	{text: "yield typeof(k)", mode: "seq"},
	{text: "yield len(k)", mode: "seq"},
	{text: "yield is(k, <string>)", mode: "seq"},
	{text: "yield is(this, <{k:string}>)", mode: "seq"},
	{text: "yield under(this)", mode: "seq"},
	{text: "yield under(k)", mode: "seq"},
	{text: "yield nameof(this)", mode: "seq"},
	{text: "yield nameof(k)", mode: "seq"},
	{text: "yield fields(this)", mode: "seq"},
	{text: "yield kind(k)", mode: "seq"},
	{text: "put t:=typeof(k)", mode: "seq"},
	{text: "put t:=typeof(this) | cut t", mode: "seq"},
	{text: "cut k", mode: "seq"},
	{text: "yield {a:k,b:this}", mode: "seq"},
	{text: "sort this", mode: "seq"},
	{text: "sort k", mode: "seq"},
	{text: "sort -r typeof(this), this", mode: "seq"},
	{text: "head 7", mode: "seq"},
	{text: "tail 7", mode: "seq"},
	{text: "uniq", mode: "seq"},
	{text: "fuse", mode: "seq"},
	{text: "shape(<{k:string}>)", mode: "seq"},
	{text: "collect(k)", mode: "seq"},
	{text: "collect(typeof(this))", mode: "seq"},
	{text: "union(typeof(k))", mode: "seq"},
	{text: "count() by k | sort this", mode: "seq"},
	{text: "count() by t:=typeof(this) | sort this", mode: "seq"},
	{text: "count() by t:=typeof(k) | sort this", mode: "seq"},
	{text: "count() by k", mode: "bag"},
	{text: "any(k), count(), min(len(k)), max(len(k))", mode: "seq"},
	{text: "where is(k, <string>) | count() by k | sort this", mode: "seq"},
	{text: "where typeof(k)==<string> | sort k | head 3", mode: "seq"},
	{text: `where k=="foo" | yield this`, mode: "seq"},
	{text: `where nameof(this)=="nm" | count()`, mode: "seq"},
	{text: "over k | sort this | head 5", mode: "seq"},
	{text: "fork (=> sort this | head 2 => sort -r this | head 2) | sort this", mode: "seq"},
	{text: `yield typeof(this) | sort this | uniq`, mode: "seq"},
	{text: `search foo | sort this | tail 4`, mode: "seq"},
	{text: `search "foo" in this | collect(this)`, mode: "seq"},
}

// mixedInput: heterogeneous records (nested records inside arrays, maps and
// unions, type values, named types, errors, nulls) with long enough strings that
// a recycled frame buffer is actually overwritten by later frames.
func mixedInput(rng *rand.Rand, n int) string {
	leaves := []string{`"foo"`, `"bar"`, `"xFOOx"`, `"a somewhat longer string value number %d"`, "1", "2", "-7", "null", "1.5", "true",
		"<int64>", "<{foo:int64}>", "<{a:string,b:[int64]}>", "10.0.0.1", "2020-01-01T00:00:00Z", "1m30s", "0x0102"}
	leaf := func() string {
		l := leaves[rng.Intn(len(leaves))]
		if strings.Contains(l, "%d") {
			l = fmt.Sprintf(l, rng.Intn(1000))
		}
		return l
	}
	var val func(d int) string
	val = func(d int) string {
		if d == 0 || rng.Intn(3) == 0 {
			return leaf()
		}
		switch rng.Intn(8) {
		case 0:
			return "{foo:" + val(d-1) + "}"
		case 1:
			return "{k:" + val(d-1) + ",z:" + leaf() + "}"
		case 2:
			return "[" + val(d-1) + "," + val(d-1) + "]"
		case 3:
			return "|[" + val(d-1) + "]|"
		case 4:
			return `|{"bar":` + val(d-1) + "}|"
		case 5:
			inner := val(d - 1)
			if strings.HasSuffix(inner, ")") || strings.HasSuffix(inner, ">") {
				return inner
			}
			return fmt.Sprintf("%s(=n%d)", inner, rng.Intn(1000000))
		case 6:
			return "error(" + val(d-1) + ")"
		default:
			return "[" + val(d-1) + `,7]`
		}
	}
	one := func(i int) string {
		switch rng.Intn(6) {
		case 0:
			return fmt.Sprintf("{k:%s}", val(2))
		case 1:
			return fmt.Sprintf("{k:%s,s:%q}", val(2), fmt.Sprintf("padding-%04d-%s", i, strings.Repeat("x", rng.Intn(40))))
		case 2:
			return fmt.Sprintf("{foo:%s,k:%s}", leaf(), val(1))
		case 3:
			return fmt.Sprintf("{k:%s}(=m%d)", val(1), rng.Intn(1000000))
		case 4:
			return fmt.Sprintf("{z:%s,k:%s,t:%s}", leaf(), val(2), []string{"<int64>", "<{foo:int64}>", "<nm2={k:string}>"}[rng.Intn(3)])
		default:
			return val(2)
		}
	}
	// keep only values that are valid ZSON and keep every type name bound to one type
	var b strings.Builder
	zctx := zed.NewContext()
	for i := 0; i < n; {
		v := one(i)
		if _, err := readValues(zctx, b.String()+v+"\n"); err != nil {
			continue
		}
		b.WriteString(v + "\n")
		i++
	}
	return b.String()
}

// typeValueInput: a fixed input in which type values (in k, and as whole values)
// alternate with strings long enough to overwrite a recycled frame buffer.
func typeValueInput() string {
	types := []string{"<{foo:int64}>", "<{a:string,b:[int64]}>", "<[{foo:string}]>", "<nt={k:string}>", "<int64>", "<|{string:{foo:int64}}|>", "<(int64,string)>", "<error({foo:int64})>"}
	var b strings.Builder
	for i := 0; i < 32; i++ {
		t := types[i%len(types)]
		switch i % 4 {
		case 0:
			fmt.Fprintf(&b, "{k:%s}\n", t)
		case 1:
			fmt.Fprintf(&b, "{k:%q,z:%d}\n", strings.Repeat(fmt.Sprintf("filler-%d-", i), 6), i)
		case 2:
			fmt.Fprintf(&b, "{z:%d,k:%s,t:%s}\n", i, t, types[(i+3)%len(types)])
		default:
			fmt.Fprintf(&b, "{k:{foo:%d,s:%q}}\n", i, strings.Repeat("y", 10+i))
		}
	}
	return b.String()
}
