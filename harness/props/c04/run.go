package main

import (
	"bytes"
	"context"
	"fmt"
	"io"
	"strings"
	"sync"
	"time"

	zed "github.com/brimdata/super"
	"github.com/brimdata/super/compiler"
	"github.com/brimdata/super/compiler/ast"
	"github.com/brimdata/super/compiler/data"
	"github.com/brimdata/super/compiler/optimizer/demand"
	"github.com/brimdata/super/pkg/storage"
	"github.com/brimdata/super/runtime"
	"github.com/brimdata/super/zbuf"
	"github.com/brimdata/super/zio"
	"github.com/brimdata/super/zio/vngio"
	"github.com/brimdata/super/zio/zjsonio"
	"github.com/brimdata/super/zio/zngio"
	"github.com/brimdata/super/zio/zsonio"
	"github.com/brimdata/super/zson"
)

var fileSource = data.NewSource(storage.NewLocalEngine(), nil)

var (
	parseMu    sync.Mutex
	parseCache = map[string]ast.Seq{}
)

func parseCached(program string) (ast.Seq, error) {
	parseMu.Lock()
	seq, ok := parseCache[program]
	parseMu.Unlock()
	if ok {
		return seq, nil
	}
	seq, _, err := compiler.Parse(program)
	if err != nil {
		return nil, err
	}
	parseMu.Lock()
	parseCache[program] = seq
	parseMu.Unlock()
	return seq, nil
}

// runReader runs program the way the product does (NewJob -> Optimize -> Build,
// i.e. with the filter pushed into the reader's scanner) over one zio.Reader
// whose types live in zctx, and returns the output values formatted as ZSON.
func runReader(ctx context.Context, program string, zctx *zed.Context, r zio.Reader, timeout time.Duration) (rows []string, plan string, err error) {
	ctx, cancel := context.WithTimeout(ctx, timeout)
	defer cancel()
	defer func() {
		if p := recover(); p != nil {
			err = fmt.Errorf("panic: %v", p)
		}
	}()
	seq, err := parseCached(program)
	if err != nil {
		return nil, "", fmt.Errorf("parse: %w", err)
	}
	rctx := runtime.NewContext(ctx, zctx)
	defer rctx.Cancel()
	job, err := compiler.NewJob(rctx, seq, fileSource, nil)
	if err != nil {
		return nil, "", fmt.Errorf("analyze: %w", err)
	}
	if err := job.Optimize(); err != nil {
		return nil, "", fmt.Errorf("optimize: %w", err)
	}
	if err := job.Build(r); err != nil {
		return nil, "", fmt.Errorf("build: %w", err)
	}
	p := job.Puller()
	if p == nil {
		return nil, "", fmt.Errorf("no output")
	}
	for {
		batch, err := p.Pull(false)
		if err != nil {
			p.Pull(true)
			return rows, "", err
		}
		if batch == nil {
			return rows, "", nil
		}
		for _, v := range batch.Values() {
			rows = append(rows, zson.FormatValue(v))
		}
		batch.Unref()
	}
}

// readValues parses ZSON text into values owned by the caller.
func readValues(zctx *zed.Context, text string) ([]zed.Value, error) {
	r := zsonio.NewReader(zctx, strings.NewReader(text))
	var out []zed.Value
	for {
		v, err := r.Read()
		if err != nil {
			return nil, err
		}
		if v == nil {
			return out, nil
		}
		out = append(out, v.Copy())
	}
}

type nopCloser struct{ io.Writer }

func (nopCloser) Close() error { return nil }

// zngOpts describes one physical ZNG presentation of an input.
type zngOpts struct {
	Compress bool `json:"compress"`
	Thresh   int  `json:"thresh"`   // writer frame threshold in bytes (1: every value its own frame)
	EOSEvery int  `json:"eos"`      // end-of-stream marker after every n values (0: none)
	Threads  int  `json:"threads"`  // reader threads
	ReadSize int  `json:"readsize"` // reader buffer size (0: default)
	Chunk    int  `json:"chunk"`    // bytes delivered per Read of the underlying stream (0: all)
}

func (o zngOpts) String() string {
	return fmt.Sprintf("zng(compress=%v,thresh=%d,eos=%d,threads=%d,readsize=%d,chunk=%d)", o.Compress, o.Thresh, o.EOSEvery, o.Threads, o.ReadSize, o.Chunk)
}

func encodeZNG(vals []zed.Value, o zngOpts) ([]byte, error) {
	var buf bytes.Buffer
	w := zngio.NewWriterWithOpts(nopCloser{&buf}, zngio.WriterOpts{Compress: o.Compress, FrameThresh: o.Thresh})
	for i, v := range vals {
		if err := w.Write(v); err != nil {
			return nil, err
		}
		if o.EOSEvery > 0 && (i+1)%o.EOSEvery == 0 {
			if err := w.EndStream(); err != nil {
				return nil, err
			}
		}
	}
	if err := w.Close(); err != nil {
		return nil, err
	}
	return buf.Bytes(), nil
}

func encodeZJSON(vals []zed.Value) ([]byte, error) {
	var buf bytes.Buffer
	w := zjsonio.NewWriter(nopCloser{&buf})
	for _, v := range vals {
		if err := w.Write(v); err != nil {
			return nil, err
		}
	}
	if err := w.Close(); err != nil {
		return nil, err
	}
	return buf.Bytes(), nil
}

func encodeVNG(vals []zed.Value) (b []byte, err error) {
	defer func() {
		if p := recover(); p != nil {
			err = fmt.Errorf("vng writer panic: %v", p)
		}
	}()
	var buf bytes.Buffer
	w := vngio.NewWriter(nopCloser{&buf})
	for _, v := range vals {
		if err := w.Write(v); err != nil {
			return nil, err
		}
	}
	if err := w.Close(); err != nil {
		return nil, err
	}
	return buf.Bytes(), nil
}

// chunkReader hands out at most n bytes per Read (stream segmentation).
type chunkReader struct {
	r io.Reader
	n int
}

func (c *chunkReader) Read(p []byte) (int, error) {
	if len(p) > c.n {
		p = p[:c.n]
	}
	return c.r.Read(p)
}

func zngReader(zctx *zed.Context, b []byte, o zngOpts) zio.Reader {
	var r io.Reader = bytes.NewReader(b)
	if o.Chunk > 0 {
		r = &chunkReader{r, o.Chunk}
	}
	return zngio.NewReaderWithOpts(zctx, r, zngio.ReaderOpts{Threads: o.Threads, Size: o.ReadSize})
}

func vngReader(zctx *zed.Context, b []byte) (zio.Reader, error) {
	return vngio.NewReader(zctx, bytes.NewReader(b), demand.All())
}

var _ = zbuf.PullerBatchValues
