// C04 -- query results do not depend on the physical encoding of the input.
//
// specs/Pushdown.tla transcribes kernel.CompileBufferFilter + expr.BufferFilter /
// FieldNameFinder as BF(pred, value) next to the evaluator semantics Eval(pred,
// value); TLC checks that BF over-approximates Eval for every predicate of a
// bounded family and every value tree of bounded depth and exports the case
// table.  specs/BufferPool.tla is the ownership protocol of the ZNG scanner's
// pooled frame buffers (checked as a model) and the acceptor for traces
// recorded from the real code through the verif hooks.
//
// The harness
//  1. replays the table on the real code: the real evaluator on every value,
//     the real buffer filter on the real ZNG encoding of a frame holding that
//     value (function level), spec vs real cell by cell;
//  2. runs every program (the table's predicates as searches, plus type
//     functions, shaping and aggregations) over the same logical input presented
//     as ZSON, ZJSON, VNG and ZNG x {compression, frame threshold, end-of-stream
//     positions, reader threads, read size, stream segmentation}, with freed ZNG
//     buffers poisoned (verif.PoisonFreed), and compares the outputs;
//  3. records zngio.buffer.new/free and zngio.batch.new/unref events of real
//     scans and lets TLC validate them against BufferPool.tla.
package main

import (
	"context"
	"encoding/binary"
	"encoding/json"
	"fmt"
	"math/rand"
	"os"
	"reflect"
	"sort"
	"strings"
	"sync"
	"time"

	zed "github.com/brimdata/super"
	"github.com/brimdata/super/compiler"
	"github.com/brimdata/super/pkg/verif"
	"github.com/brimdata/super/runtime"
	"github.com/brimdata/super/runtime/sam/expr"
	"github.com/brimdata/super/zio"
	"github.com/brimdata/super/zio/zsonio"

	"verif/core"
)

const runTimeout = 30 * time.Second

type tableLine struct {
	Values []string `json:"values"`
	Pred   string   `json:"pred"`
	Shape  string   `json:"shape"`
	Cells  []string `json:"cells"`
}

type cell struct {
	eval    bool
	bf      string // "T" | "F" | "nil"
	tainted bool
}

func parseCell(s string) cell {
	c := cell{eval: s[0] == '1'}
	s = s[1:]
	if strings.HasSuffix(s, "!") {
		c.tainted = true
		s = strings.TrimSuffix(s, "!")
	}
	c.bf = s
	return c
}

type harness struct {
	c   *core.Ctx
	ctx context.Context
	mu  sync.Mutex

	values []string
	rows   []tableLine

	fnChecked, fnSkippedFrames, fnTaintObserved, fnTaintPredicted int
	sysRuns, sysCompared                                          int
	traceEvents, traceRuns                                        int
}

type witness struct {
	Kind     string   `json:"kind"` // "function" | "system"
	Program  string   `json:"program"`
	Value    string   `json:"value,omitempty"`
	Input    string   `json:"input,omitempty"`
	Encoding string   `json:"encoding,omitempty"`
	Zng      *zngOpts `json:"zng,omitempty"`
	Mode     string   `json:"mode,omitempty"`
	Baseline []string `json:"zson_result,omitempty"`
	Got      []string `json:"result,omitempty"`
	Err      string   `json:"error,omitempty"`
}

// ---------------------------------------------------------------- function level

// compiled is the real pushdown of `search <pred>`: what zbuf.NewScanner hands to the ZNG scanner.
type compiled struct {
	eval expr.Evaluator
	bf   *expr.BufferFilter
}

func (h *harness) compile(zctx *zed.Context, program string) (*compiled, error) {
	seq, err := parseCached(program)
	if err != nil {
		return nil, err
	}
	rctx := runtime.NewContext(h.ctx, zctx)
	defer rctx.Cancel()
	job, err := compiler.NewJob(rctx, seq, fileSource, nil)
	if err != nil {
		return nil, err
	}
	if err := job.Optimize(); err != nil {
		return nil, err
	}
	scan, ok := job.DefaultScan()
	if !ok || scan.Filter == nil {
		return nil, fmt.Errorf("the optimizer did not push the filter of %q into the reader", program)
	}
	f := job.Builder().PushdownOf(scan.Filter)
	ev, err := f.AsEvaluator()
	if err != nil {
		return nil, err
	}
	bf, err := f.AsBufferFilter()
	if err != nil {
		return nil, err
	}
	return &compiled{eval: ev, bf: bf}, nil
}

func isTrue(v zed.Value) bool { return v.Type() == zed.TypeBool && !v.IsNull() && v.Bool() }

// frameOf is the ZNG values-frame payload holding exactly val (zngio.Writer.Write).
func frameOf(val zed.Value) []byte {
	buf := binary.AppendUvarint(nil, uint64(zed.TypeID(val.Type())))
	return val.Encode(buf)
}

const knownHidden = "bf-underapprox:search:record-below-container"

func (h *harness) functionLevel() error {
	c := h.c
	zctx := zed.NewContext()
	vals, err := readValues(zctx, strings.Join(h.values, "\n"))
	if err != nil {
		return fmt.Errorf("table values: %w", err)
	}
	if len(vals) != len(h.values) {
		return fmt.Errorf("table has %d values, parsed %d", len(h.values), len(vals))
	}
	frames := make([][]byte, len(vals))
	for i, v := range vals {
		frames[i] = frameOf(v)
	}
	for _, row := range h.rows {
		prog := "search " + row.Pred
		cp, err := h.compile(zctx, prog)
		if err != nil {
			c.Drift("predicate %q of the table does not compile to a reader filter: %v", prog, err)
			continue
		}
		ectx := expr.NewContext()
		for i, v := range vals {
			spec := parseCell(row.Cells[i])
			realEval := isTrue(cp.eval.Eval(ectx, v))
			realBF := "nil"
			if cp.bf != nil {
				realBF = "F"
				if cp.bf.Eval(zctx, frames[i]) {
					realBF = "T"
				}
			}
			h.fnChecked++
			c.Eval(fmt.Sprintf("fn|%s|%s", row.Pred, h.values[i]), realBF == "F")
			if realBF == "F" {
				h.fnSkippedFrames++
			}
			if spec.tainted && spec.eval && spec.bf == "F" {
				h.fnTaintPredicted++
			}
			if realEval != spec.eval {
				c.Drift("evaluator: `%s` on %s: real %v, Pushdown.tla %v", prog, h.values[i], realEval, spec.eval)
			}
			if realBF != spec.bf {
				c.Drift("buffer filter: `%s` on %s: real %s, Pushdown.tla %s", prog, h.values[i], realBF, spec.bf)
			}
			if realEval && realBF == "F" {
				// the scanner would skip a frame that holds a matching value
				sig := "bf-underapprox:" + row.Shape
				if spec.tainted {
					sig = knownHidden
					h.fnTaintObserved++
				}
				c.Violate(sig, fmt.Sprintf("`%s` is true on %s but its buffer filter rejects the ZNG frame holding that value: the ZNG scanner drops a value that every other encoding delivers", prog, h.values[i]),
					witness{Kind: "function", Program: prog, Value: h.values[i]})
			}
		}
	}
	c.Add("traces_validated_against_impl", int64(len(h.rows)))
	return nil
}

// ---------------------------------------------------------------- system level

type encoding struct {
	name string
	zng  *zngOpts
}

func (h *harness) encodings() []encoding {
	encs := []encoding{
		{name: "zjson"}, {name: "vng"},
		{name: "zng", zng: &zngOpts{Compress: false, Thresh: 1, Threads: 1}},
		{name: "zng", zng: &zngOpts{Compress: true, Thresh: 1, EOSEvery: 3, Threads: 2}},
		{name: "zng", zng: &zngOpts{Compress: true, Thresh: 512 * 1024, Threads: 16, Chunk: 7}},
		{name: "zng", zng: &zngOpts{Compress: false, Thresh: 64, EOSEvery: 5, Threads: 2, ReadSize: 64}},
	}
	if !h.c.Quick() {
		for _, comp := range []bool{false, true} {
			for _, th := range []int{1, 40, 512 * 1024} {
				for _, eos := range []int{0, 1, 4} {
					for _, thr := range []int{1, 16} {
						encs = append(encs, encoding{name: "zng", zng: &zngOpts{Compress: comp, Thresh: th, EOSEvery: eos, Threads: thr,
							ReadSize: []int{0, 32}[(th+eos+thr)%2], Chunk: []int{0, 5, 4096}[(th+eos)%3]}})
					}
				}
			}
		}
	}
	return encs
}

func (e encoding) String() string {
	if e.zng != nil {
		return e.zng.String()
	}
	return e.name
}

type sysProgram struct {
	text string
	mode string // "seq": same sequence, "bag": same multiset (aggregation order is not defined)
	pred *tableLine
}

type sysInput struct {
	name   string
	zson   string
	vals   []zed.Value // parsed once, in their own context, for the encoders
	ixs    []int       // for table inputs: index of each value in the table
	zjson  []byte
	vng    []byte
	vngErr error
	zng    map[string][]byte
}

func multiset(rows []string) []string {
	out := append([]string(nil), rows...)
	sort.Strings(out)
	return out
}

func sameSeq(a, b []string) bool {
	if len(a) != len(b) {
		return false
	}
	for i := range a {
		if a[i] != b[i] {
			return false
		}
	}
	return true
}

func short(rows []string) string {
	if len(rows) > 8 {
		return fmt.Sprintf("%v ... (%d values)", rows[:8], len(rows))
	}
	return fmt.Sprint(rows)
}

func (h *harness) prepare(in *sysInput, encs []encoding) error {
	zctx := zed.NewContext()
	vals, err := readValues(zctx, in.zson)
	if err != nil {
		return fmt.Errorf("input %s: %w", in.name, err)
	}
	in.vals = vals
	if in.zjson, err = encodeZJSON(vals); err != nil {
		return fmt.Errorf("input %s: zjson: %w", in.name, err)
	}
	in.vng, in.vngErr = encodeVNG(vals)
	in.zng = map[string][]byte{}
	for _, e := range encs {
		if e.zng == nil {
			continue
		}
		key := fmt.Sprintf("%v/%d/%d", e.zng.Compress, e.zng.Thresh, e.zng.EOSEvery)
		if _, ok := in.zng[key]; !ok {
			b, err := encodeZNG(vals, *e.zng)
			if err != nil {
				return fmt.Errorf("input %s: zng: %w", in.name, err)
			}
			in.zng[key] = b
		}
	}
	return nil
}

func (in *sysInput) reader(zctx *zed.Context, e encoding) (zio.Reader, error) {
	switch {
	case e.zng != nil:
		return zngReader(zctx, in.zng[fmt.Sprintf("%v/%d/%d", e.zng.Compress, e.zng.Thresh, e.zng.EOSEvery)], *e.zng), nil
	case e.name == "zjson":
		return zjsonReader(zctx, in.zjson), nil
	case e.name == "vng":
		if in.vngErr != nil {
			return nil, in.vngErr
		}
		return vngReader(zctx, in.vng)
	}
	return zsonio.NewReader(zctx, strings.NewReader(in.zson)), nil
}

func (h *harness) runOne(p sysProgram, in *sysInput, e encoding) (rows []string, err error) {
	defer func() {
		if x := recover(); x != nil { // e.g. a reader that panics on its own metadata
			err = fmt.Errorf("panic: %v", x)
		}
	}()
	zctx := zed.NewContext()
	r, err := in.reader(zctx, e)
	if err != nil {
		return nil, err
	}
	rows, _, err = runReader(h.ctx, p.text, zctx, r, runTimeout)
	return rows, err
}

func (h *harness) compareOne(p sysProgram, in *sysInput, e encoding, base []string) {
	c := h.c
	got, err := h.runOne(p, in, e)
	h.mu.Lock()
	h.sysRuns++
	h.mu.Unlock()
	w := witness{Kind: "system", Program: p.text, Input: in.zson, Encoding: e.String(), Zng: e.zng, Mode: p.mode, Baseline: base, Got: got}
	if e.name == "vng" && in.vngErr != nil {
		return // the VNG writer does not take this input (not this property's concern)
	}
	nontrivial := e.zng != nil
	c.Eval(fmt.Sprintf("sys|%s|%s|%s", p.text, in.name, e), nontrivial)
	if err != nil {
		w.Err = err.Error()
		c.Violate("encoding-error:"+e.name+":"+progClass(p), fmt.Sprintf("`%s` over input %s succeeds on ZSON but fails on %s: %v", p.text, in.name, e, err), w)
		return
	}
	h.mu.Lock()
	h.sysCompared++
	h.mu.Unlock()
	ok := sameSeq(got, base)
	if !ok && p.mode == "bag" {
		ok = sameSeq(multiset(got), multiset(base))
	}
	if ok {
		return
	}
	sig := h.classify(p, in, e, base, got)
	c.Violate(sig, fmt.Sprintf("`%s` over input %s: ZSON gives %s, %s gives %s", p.text, in.name, short(base), e, short(got)), w)
}

// Signatures of the two defects found so far that are specific to the ZNG scanner.  Both were repaired
// in /repo (f4f1b882f, a51bcc8de) and are listed as "fixed": they suppress nothing, a recurrence is a VIOLATION.
const (
	knownHiddenSys = "encoding-differs:zng:search:record-below-container"
	knownTypeCache = "zng-frame-alias:type-value-cache"
)

// typeValueFuncs call zed.Context.LookupByValue on a type value taken from the input.
var typeValueFuncs = []string{"under(", "nameof(", "kind(", "len(", "fields(", "is(", "typeunder(", "shape(", "cast(", "fuse"}

func usesTypeValueFunc(text string) bool {
	for _, f := range typeValueFuncs {
		if strings.Contains(text, f) {
			return true
		}
	}
	return false
}

// classify names a difference between a ZSON run and another encoding's run.
func (h *harness) classify(p sysProgram, in *sysInput, e encoding, base, got []string) string {
	class := progClass(p)
	if e.zng == nil {
		return "encoding-differs:" + e.name + ":" + class
	}
	// (1) the field-name-finder defect: a pure search whose ZNG result only lacks
	// values that Pushdown.tla marks as that defect
	if row := h.searchRow(p); row != nil && in.ixs != nil {
		pb, pg := base, got
		if p.pred == nil { // search followed by other operators: look at the search alone
			sp := sysProgram{text: "search " + row.Pred, mode: "seq", pred: row}
			var err1, err2 error
			pb, err1 = h.runOne(sp, in, encoding{name: "zson"})
			pg, err2 = h.runOne(sp, in, e)
			if err1 != nil || err2 != nil {
				return "encoding-differs:zng:" + class
			}
		}
		if h.onlyTaintedMissing(row, in, pb, pg) {
			return knownHiddenSys
		}
	}
	// (2) values (or type values) that still alias a recycled frame buffer: the
	// difference vanishes when every value is copied out of the frame on arrival
	zctx := zed.NewContext()
	cr := &copyReader{r: zngReader(zctx, in.zng[fmt.Sprintf("%v/%d/%d", e.zng.Compress, e.zng.Thresh, e.zng.EOSEvery)], *e.zng)}
	copied, _, err := runReader(h.ctx, p.text, zctx, cr, runTimeout)
	if err == nil && (sameSeq(copied, base) || p.mode == "bag" && sameSeq(multiset(copied), multiset(base))) {
		if strings.Contains(in.zson, "<") && usesTypeValueFunc(p.text) {
			return knownTypeCache
		}
		return "zng-frame-alias:" + class
	}
	return "encoding-differs:zng:" + class
}

// searchRow: the table row of the search a program starts with.
func (h *harness) searchRow(p sysProgram) *tableLine {
	if p.pred != nil {
		return p.pred
	}
	if !strings.HasPrefix(p.text, "search ") {
		return nil
	}
	body := strings.TrimSpace(strings.SplitN(strings.TrimPrefix(p.text, "search "), "|", 2)[0])
	for i := range h.rows {
		if h.rows[i].Pred == body {
			return &h.rows[i]
		}
	}
	return nil
}

// copyReader reads a ZNG stream value by value and copies every value, so that
// nothing downstream aliases a frame buffer (and no buffer filter is involved).
type copyReader struct{ r zio.Reader }

func (c *copyReader) Read() (*zed.Value, error) {
	v, err := c.r.Read()
	if v == nil || err != nil {
		return nil, err
	}
	return v.Copy().Ptr(), nil
}

// onlyTaintedMissing: the ZNG result is the ZSON result minus values for which the
// spec marks (pred, value) as the known field-name-finder defect.
func (h *harness) onlyTaintedMissing(row *tableLine, in *sysInput, base, got []string) bool {
	have := map[string]int{}
	for _, g := range got {
		have[g]++
	}
	taintedOut := map[string]bool{}
	zctx := zed.NewContext()
	for _, ix := range in.ixs {
		if parseCell(row.Cells[ix]).tainted {
			if v, err := readValues(zctx, h.values[ix]); err == nil && len(v) == 1 {
				taintedOut[formatValue(v[0])] = true
			}
		}
	}
	missing := 0
	for _, b := range base {
		if have[b] > 0 {
			have[b]--
			continue
		}
		if !taintedOut[b] {
			return false
		}
		missing++
	}
	for _, n := range have {
		if n > 0 {
			return false // ZNG has values ZSON does not
		}
	}
	return missing > 0
}

func progClass(p sysProgram) string {
	if p.pred != nil {
		return "search:" + p.pred.Shape
	}
	f := strings.FieldsFunc(p.text, func(r rune) bool { return r == ' ' || r == '(' || r == '|' })
	if len(f) == 0 {
		return "?"
	}
	return f[0]
}

func (h *harness) systemLevel() error {
	c := h.c
	rng := rand.New(rand.NewSource(c.Seed + 4))
	encs := h.encodings()
	c.Set("encodings", len(encs)+1)

	// inputs: the whole table (every value its own frame when thresh = 1), seeded
	// samples of it, and a richer mix for the type functions and aggregations
	var inputs []*sysInput
	all := &sysInput{name: "table"}
	for i, v := range h.values {
		all.ixs = append(all.ixs, i)
		all.zson += v + "\n"
	}
	inputs = append(inputs, all)
	nSamples := 3
	if !c.Quick() {
		nSamples = 12
	}
	for s := 0; s < nSamples; s++ {
		in := &sysInput{name: fmt.Sprintf("sample%d", s)}
		n := 4 + rng.Intn(12)
		for i := 0; i < n; i++ {
			ix := rng.Intn(len(h.values))
			in.ixs = append(in.ixs, ix)
			in.zson += h.values[ix] + "\n"
		}
		inputs = append(inputs, in)
	}
	mixed := &sysInput{name: "mixed", zson: mixedInput(rng, 60)}
	inputs = append(inputs, mixed, &sysInput{name: "mixed-typevals", zson: typeValueInput()})
	for _, in := range inputs {
		if err := h.prepare(in, encs); err != nil {
			return err
		}
	}

	var progs []sysProgram
	for i := range h.rows {
		row := &h.rows[i]
		progs = append(progs, sysProgram{text: "search " + row.Pred, mode: "seq", pred: row})
		if i%4 == int(c.Seed%4) || !c.Quick() {
			progs = append(progs, sysProgram{text: "search " + row.Pred + " | count()", mode: "seq", pred: nil})
		}
	}
	for _, t := range otherPrograms {
		progs = append(progs, t)
	}

	type job struct {
		p  sysProgram
		in *sysInput
	}
	var jobs []job
	for _, p := range progs {
		for _, in := range inputs {
			isSearch := strings.HasPrefix(p.text, "search")
			if strings.HasPrefix(in.name, "mixed") && isSearch {
				continue // the known buffer-filter defect is classified through the table only
			}
			if !isSearch && !strings.HasPrefix(in.name, "mixed") && (in.name != "table" || c.Quick()) {
				continue
			}
			if c.Quick() && isSearch && in.name == "table" && len(jobs)%2 != int(c.Seed%2) {
				continue // quick tier: the whole table for half of the searches, the samples for all
			}
			jobs = append(jobs, job{p, in})
		}
	}
	var wg sync.WaitGroup
	ch := make(chan job, 64)
	for i := 0; i < 12; i++ {
		wg.Add(1)
		go func() {
			defer wg.Done()
			for j := range ch {
				base, err := h.runOne(j.p, j.in, encoding{name: "zson"})
				if err != nil {
					// the program does not run on this input at all: nothing to compare
					c.Add("programs_failing_on_zson", 1)
					continue
				}
				for _, e := range encs {
					h.compareOne(j.p, j.in, e, base)
				}
			}
		}()
	}
	for _, j := range jobs {
		ch <- j
	}
	close(ch)
	wg.Wait()
	c.Set("system_programs", len(progs))
	c.Set("system_inputs", len(inputs))
	c.Set("system_runs", h.sysRuns)
	c.Set("system_runs_compared_with_zson", h.sysCompared)
	return nil
}

// ---------------------------------------------------------------- buffer traces

type event struct {
	E  string `json:"e"`
	B  int    `json:"b"`
	Ba int    `json:"ba"`
}

type recorder struct {
	mu   sync.Mutex
	evs  []event
	bufs map[uintptr]int
	bats map[uintptr]int
	// Every object seen is kept reachable: a buffer or batch that a cancelled scan
	// drops without releasing it must not be collected, or its address could come
	// back as a different object and pointer identity would lie.
	pin []any
}

func ptrOf(x any) uintptr {
	v := reflect.ValueOf(x)
	if v.Kind() != reflect.Pointer || v.IsNil() {
		return 0
	}
	return v.Pointer()
}

func (r *recorder) id(m map[uintptr]int, p uintptr) int {
	if p == 0 {
		return 0
	}
	if id, ok := m[p]; ok {
		return id
	}
	m[p] = len(m) + 1
	return m[p]
}

func (r *recorder) reset(compressed bool) {
	r.mu.Lock()
	e := event{E: "reset"}
	if compressed {
		e.B = 1
	}
	r.evs = append(r.evs, e)
	r.bufs, r.bats = map[uintptr]int{}, map[uintptr]int{}
	r.mu.Unlock()
}

func (r *recorder) hook(site string, args ...any) {
	var e event
	switch site {
	case "zngio.buffer.new":
		e.E = "bnew"
	case "zngio.buffer.free":
		e.E = "bfree"
	case "zngio.batch.new":
		e.E = "banew"
	case "zngio.batch.unref":
		e.E = "baunref"
	default:
		return
	}
	r.mu.Lock()
	defer r.mu.Unlock()
	r.pin = append(r.pin, args...)
	switch e.E {
	case "bnew", "bfree":
		e.B = r.id(r.bufs, ptrOf(args[0]))
	default:
		e.Ba = r.id(r.bats, ptrOf(args[0]))
		e.B = r.id(r.bufs, ptrOf(args[1]))
	}
	r.evs = append(r.evs, e)
}

// bufferTraces runs scans one at a time with the hooks recording and lets TLC
// validate the concatenated trace against BufferPool.tla.
func (h *harness) bufferTraces() error {
	c := h.c
	rec := &recorder{bufs: map[uintptr]int{}, bats: map[uintptr]int{}}
	verif.SetHook(rec.hook)
	defer verif.SetHook(nil)
	rng := rand.New(rand.NewSource(c.Seed + 44))
	in := &sysInput{name: "trace", zson: mixedInput(rng, 40)}
	encs := []encoding{
		{name: "zng", zng: &zngOpts{Compress: false, Thresh: 1, Threads: 1}},
		{name: "zng", zng: &zngOpts{Compress: true, Thresh: 1, EOSEvery: 4, Threads: 2}},
		{name: "zng", zng: &zngOpts{Compress: true, Thresh: 64, Threads: 16}},
		{name: "zng", zng: &zngOpts{Compress: false, Thresh: 512 * 1024, Threads: 2}},
	}
	if err := h.prepare(in, encs); err != nil {
		return err
	}
	progs := []string{"pass", "search foo", `search k=="foo"`, "sort k", "head 3", "tail 3", "count() by k", "collect(k)", "fuse", "yield typeof(this)", "uniq", `search "foo" in this | sort this`}
	for _, p := range progs {
		for _, e := range encs {
			rec.reset(e.zng.Compress)
			if _, err := h.runOne(sysProgram{text: p}, in, e); err != nil {
				c.Logf("traced run `%s` on %s: %v", p, e, err)
			}
			h.traceRuns++
			time.Sleep(2 * time.Millisecond) // let the scanner's goroutines finish; late events are tolerated by the spec
		}
	}
	verif.SetHook(nil)
	rec.mu.Lock()
	evs := rec.evs
	rec.mu.Unlock()
	h.traceEvents = len(evs)
	if f := os.Getenv("C04_SAVE_TRACE"); f != "" { // development aid
		os.WriteFile(f, core.NDJSON(evs), 0o644)
	}
	c.Set("buffer_trace_events", len(evs))
	c.Set("buffer_traced_runs", h.traceRuns)
	if len(evs) < 50 {
		c.Inconclusive("only %d buffer events were recorded (are the verif hooks compiled in?)", len(evs))
		return nil
	}
	return h.validateTrace(evs, true)
}

func (h *harness) validateTrace(evs []event, report bool) error {
	c := h.c
	res, err := c.RunTLC(core.TLCRun{Module: "BufferPool", Cfg: "BufferPool.trace.cfg", Files: map[string][]byte{"trace.ndjson": core.NDJSON(evs)}, Workers: 1, Timeout: 10 * time.Minute})
	if err != nil {
		return err
	}
	end, viol := -1, ""
	for _, p := range res.Prints {
		var n int
		var msg string
		if _, err := fmt.Sscanf(p, `<<"TRACE-END", %d>>`, &n); err == nil {
			end = n
		}
		if strings.HasPrefix(p, `<<"TRACE-VIOLATION"`) {
			fmt.Sscanf(p, `<<"TRACE-VIOLATION", %d,`, &n)
			msg = p[strings.LastIndex(p, `, "`)+3:]
			viol = fmt.Sprintf("event %d: %s", n, strings.TrimSuffix(msg, `">>`))
		}
	}
	switch {
	case viol != "":
		if report {
			c.Violate("buffer-protocol:"+viol[strings.Index(viol, ": ")+2:], "a trace of the real ZNG scanner's buffer events breaks the ownership rules of BufferPool.tla at "+viol, map[string]any{"kind": "trace", "events": evs})
		}
		return fmt.Errorf("trace rejected: %s", viol)
	case end == len(evs):
		c.Add("traces_validated_against_impl", int64(h.traceRuns))
		c.Logf("TLC accepted the buffer trace: %d events of %d scans", len(evs), h.traceRuns)
	default:
		c.Inconclusive("trace validation ended at event %d of %d without a verdict (%s)", end, len(evs), res.Status)
	}
	return nil
}

// ---------------------------------------------------------------- run

func run(c *core.Ctx) error {
	h := &harness{c: c, ctx: context.Background()}
	c.Trust("TLC 1.8; zson parser/formatter (values are written from ZSON and results compared as ZSON); the ZSON reader as baseline encoding; zngio/zjsonio/vngio writers to produce the other encodings (C01-C03 check them)")
	c.Assume("predicates: keyword search foo, k==\"foo\", \"foo\" in k, \"foo\" in this, k==1, grep(/fo+x/) and not/and/or over them; values: records whose field k holds trees of depth <= 2 over strings, ints, null, type values, records, arrays, sets, maps, unions, named types, errors; programs as listed in progs.go; ZNG framing options as listed in encodings()")
	c.Rule("cases = (predicate, value) cells of the table exported by Pushdown.tla, each evaluated with the real evaluator and the real buffer filter on the real frame bytes (non-trivial: the real buffer filter rejects the frame), plus (program, input, encoding) runs compared with the ZSON run (non-trivial: ZNG encodings, where buffer filter, frame buffers and reader threads are involved); distinct = distinct cells / distinct (program, input, encoding)")
	if c.Replay != "" {
		return h.replay()
	}
	verif.PoisonFreed.Store(true)

	// ---- TLC: the ownership protocol as a model, and its non-vacuity
	if res := c.MustHold(core.TLCRun{Module: "BufferPool", Cfg: "BufferPool.model.cfg", Workers: 4}); res == nil {
		return nil
	}
	und, err := c.RunTLC(core.TLCRun{Module: "BufferPool", Cfg: "BufferPool.undisciplined.cfg", Workers: 4})
	if err != nil {
		return err
	}
	if und.Status != "invariant" {
		c.Inconclusive("vacuous: BufferPool.tla does not reject an operator that keeps aliases without references (status %s)", und.Status)
	}

	// ---- TLC: the buffer filter over-approximates the evaluator; case table
	cfg := "Pushdown.quick.cfg"
	if !c.Quick() {
		cfg = "Pushdown.thorough.cfg"
	}
	t0 := time.Now()
	res := c.MustHold(core.TLCRun{Module: "Pushdown", Cfg: cfg, Keep: []string{"cases.ndjson", "fold.ndjson"}, Workers: 4, Timeout: 15 * time.Minute})
	if res == nil {
		return nil
	}
	lines, err := core.ReadNDJSON[tableLine](res, "cases.ndjson")
	if err != nil {
		return err
	}
	for _, l := range lines {
		if l.Values != nil {
			h.values = l.Values
		} else {
			h.rows = append(h.rows, l)
		}
	}
	sort.Slice(h.rows, func(i, j int) bool { return h.rows[i].Pred < h.rows[j].Pred })
	if len(h.values) == 0 || len(h.rows) == 0 {
		return fmt.Errorf("Pushdown.tla exported no table")
	}
	c.Logf("TLC: OverApprox holds; table of %d predicates x %d values (%.1fs)", len(h.rows), len(h.values), time.Since(t0).Seconds())
	c.Set("predicates", len(h.rows))
	c.Set("values", len(h.values))
	c.Set("exhaustive", true)

	t0 = time.Now()
	if err := h.functionLevel(); err != nil {
		return err
	}
	c.Set("function_level_cells", h.fnChecked)
	c.Set("frames_rejected_by_real_buffer_filter", h.fnSkippedFrames)
	c.Logf("function level: %d cells, the real buffer filter rejects %d frames, %d violations (%.1fs)", h.fnChecked, h.fnSkippedFrames, c.Violations(), time.Since(t0).Seconds())
	t0 = time.Now()
	foldLines, err := core.ReadNDJSON[foldLine](res, "fold.ndjson")
	if err != nil {
		return err
	}
	if err := h.foldLevel(foldLines); err != nil {
		return err
	}
	c.Logf("case folding: %d cells replayed on the real evaluator and buffer filter, terms run as ZSON vs ZNG (%.1fs)", c.Count("evaluations")-int64(h.fnChecked), time.Since(t0).Seconds())
	if h.fnSkippedFrames == 0 {
		c.Inconclusive("vacuous: the real buffer filter never rejected a frame")
	}
	for i := 0; i < len(h.rows); i += 9 {
		c.Sample(map[string]any{"predicate": "search " + h.rows[i].Pred, "value": h.values[(i*37)%len(h.values)], "spec_cell(eval,bf,taint)": h.rows[i].Cells[(i*37)%len(h.values)]})
	}

	t0 = time.Now()
	if err := h.systemLevel(); err != nil {
		return err
	}
	c.Logf("system level: %d runs compared with the ZSON run (%.1fs)", h.sysCompared, time.Since(t0).Seconds())

	t0 = time.Now()
	if err := h.bufferTraces(); err != nil {
		c.Logf("buffer traces: %v", err)
	}
	return nil
}

func (h *harness) replay() error {
	var w witness
	raw, err := os.ReadFile(h.c.Replay)
	if err != nil {
		return err
	}
	var r struct {
		Signature string          `json:"signature"`
		Witness   json.RawMessage `json:"witness"`
	}
	if err := json.Unmarshal(raw, &r); err != nil {
		return err
	}
	if err := json.Unmarshal(r.Witness, &w); err != nil {
		return err
	}
	verif.PoisonFreed.Store(os.Getenv("C04_NOPOISON") == "")
	switch w.Kind {
	case "function":
		zctx := zed.NewContext()
		vals, err := readValues(zctx, w.Value)
		if err != nil || len(vals) != 1 {
			return fmt.Errorf("witness value: %v", err)
		}
		cp, err := h.compile(zctx, w.Program)
		if err != nil {
			return err
		}
		ev := isTrue(cp.eval.Eval(expr.NewContext(), vals[0]))
		bf := cp.bf == nil || cp.bf.Eval(zctx, frameOf(vals[0]))
		fmt.Printf("%s on %s: evaluator %v, buffer filter %v\n", w.Program, w.Value, ev, bf)
		if ev && !bf {
			h.c.Violate(r.Signature, "replayed: the buffer filter rejects a frame holding a matching value", w)
		}
	case "system":
		in := &sysInput{name: "replay", zson: w.Input}
		e := encoding{name: w.Encoding, zng: w.Zng}
		if w.Zng != nil {
			e.name = "zng"
		}
		if err := h.prepare(in, []encoding{e}); err != nil {
			return err
		}
		p := sysProgram{text: w.Program, mode: w.Mode}
		base, err := h.runOne(p, in, encoding{name: "zson"})
		if err != nil {
			return err
		}
		got, err := h.runOne(p, in, e)
		fmt.Printf("%s\nzson: %v\n%s: %v err=%v\n", w.Program, base, e, got, err)
		ok := err == nil && (sameSeq(got, base) || (w.Mode == "bag" && sameSeq(multiset(got), multiset(base))))
		if !ok {
			h.c.Violate(r.Signature, "replayed: the result depends on the encoding", w)
		}
	default:
		var tw struct {
			Events []event `json:"events"`
		}
		if err := json.Unmarshal(r.Witness, &tw); err != nil {
			return err
		}
		if err := h.validateTrace(tw.Events, false); err != nil {
			h.c.Violate(r.Signature, "replayed: "+err.Error(), map[string]any{"kind": "trace"})
		}
	}
	return nil
}

func main() { core.Main("C04", "model_checking", run) }
