package main

import (
	"bufio"
	"bytes"
	"context"
	"encoding/json"
	"fmt"
	"os"
	"os/exec"
	"path/filepath"
	"strings"
	"sync"
	"time"

	"github.com/brimdata/super/compiler/data"
	"github.com/brimdata/super/pkg/storage"
	"github.com/brimdata/super/pkg/verif"
	"github.com/brimdata/super/runtime/sam/op/fuse"

	"verif/core"
)

// The poisoned-input stage.  The input values are written to a ZNG stream
// and read back by the real zngio scanner with verif.PoisonFreed on: when
// the fuse operator releases an input batch, the batch's buffer is
// overwritten.  An operator that still refers to the released batch then
// reads garbage, which shows as a wrong output or as a panic inside the
// operator's own goroutine.  Such a panic cannot be recovered by the
// harness, so this stage runs in a child process (this binary again, with
// C20_CHILD_IN set); a child that dies is a crash of the real code on the
// case it was working on.

type childCase struct {
	Idx     int      `json:"idx"`
	TC      typeCase `json:"tc"`
	Seed    int64    `json:"seed"`
	Mems    []int    `json:"mems"`
	ZNG     bool     `json:"zng,omitempty"`     // also (default memory limit) with the input read through zngio
	ZNGOnly bool     `json:"zngonly,omitempty"` // replay of a zng witness: only that run
	NoBind  bool     `json:"nobind,omitempty"`  // replay: there is no prediction to compare with
}

type childLine struct {
	Start  *int    `json:"start,omitempty"` // about to run case Idx
	Idx    int     `json:"idx"`
	Report *report `json:"report,omitempty"`
	Err    string  `json:"err,omitempty"`
	// last line of a child that ran to the end
	End        bool  `json:"end,omitempty"`
	WantSpills int64 `json:"want_spills,omitempty"`
	GotSpills  int64 `json:"got_spills,omitempty"`
}

func childMain() {
	var cases []childCase
	b, err := os.ReadFile(os.Getenv("C20_CHILD_IN"))
	if err == nil {
		err = json.Unmarshal(b, &cases)
	}
	out, err2 := os.Create(os.Getenv("C20_CHILD_OUT"))
	if err != nil || err2 != nil {
		fmt.Fprintln(os.Stderr, "c20 child:", err, err2)
		os.Exit(3)
	}
	defer out.Close()
	enc := json.NewEncoder(out)
	e := &env{ctx: context.Background(), defMem: fuse.MemMaxBytes, src: data.NewSource(storage.NewLocalEngine(), nil)}
	verif.PoisonFreed.Store(true)
	verif.SetHook(func(site string, args ...any) {
		if site == "fuse.Fuser.spill" {
			e.spills.Add(1)
		}
	})
	var want int64
	for i := range cases {
		cc := &cases[i]
		enc.Encode(childLine{Start: &cc.Idx, Idx: cc.Idx})
		r := &report{}
		var err error
		func() {
			// a panic on this goroutine is the harness's own (runFlow recovers those of the flow it pulls)
			defer func() {
				if p := recover(); p != nil {
					err = fmt.Errorf("harness panic: %v", p)
				}
			}()
			if !cc.ZNGOnly {
				var w int64
				r, w, err = e.checkCase(&cc.TC, cc.Idx, cc.Seed, cc.Mems, false)
				want += w
			}
			if cc.ZNG && err == nil {
				var r2 *report
				r2, _, err = e.checkCase(&cc.TC, cc.Idx, cc.Seed, cc.Mems[:1], true)
				if r2 != nil {
					r.Acts = append(r.Acts, r2.Acts...)
				}
			}
		}()
		line := childLine{Idx: cc.Idx, Report: r}
		if err != nil {
			line.Err = err.Error()
		}
		if cc.NoBind && r != nil {
			var acts []act
			for _, a := range r.Acts {
				if a.Kind == "violate" {
					acts = append(acts, a)
				}
			}
			r.Acts = acts
		}
		enc.Encode(line)
	}
	enc.Encode(childLine{End: true, Idx: -1, WantSpills: want, GotSpills: e.spills.Load()})
}

// childStage replays the cases in nproc child processes at a time and flushes their reports in case order.
func (e *env) childStage(cases []childCase, nproc int) error {
	c := e.c
	chunks := make([][]childCase, nproc)
	for i := range cases {
		chunks[i%nproc] = append(chunks[i%nproc], cases[i])
	}
	reports := map[int]*report{}
	var mu sync.Mutex
	var want, got int64
	crashed := false
	errs := make([]error, nproc)
	var wg sync.WaitGroup
	for p := range chunks {
		wg.Add(1)
		go func(p int) {
			defer wg.Done()
			errs[p] = e.runChunk(p, chunks[p], func(idx int, r *report) {
				mu.Lock()
				reports[idx] = r
				mu.Unlock()
			}, func(w, g int64, crash bool) {
				mu.Lock()
				want += w
				got += g
				crashed = crashed || crash
				mu.Unlock()
			})
		}(p)
	}
	wg.Wait()
	for _, err := range errs {
		if err != nil {
			return err
		}
	}
	for i := range cases {
		if r := reports[cases[i].Idx]; r != nil {
			r.flush(c)
		}
	}
	c.Add("spilled_runs", got)
	if !crashed && got != want {
		c.Drift("spill: the spec (SpillIndex) says %d of the runs with MemMaxBytes=1 create a spill file, the hook fuse.Fuser.spill fired %d times", want, got)
	}
	return nil
}

// runChunk runs one chunk of cases in a child process, restarting after the case on which a child died.
func (e *env) runChunk(p int, cases []childCase, deliver func(int, *report), tally func(want, got int64, crash bool)) error {
	c := e.c
	for round := 0; len(cases) > 0; round++ {
		in := filepath.Join(c.Scratch, fmt.Sprintf("child-in-%d-%d.json", p, round))
		outPath := filepath.Join(c.Scratch, fmt.Sprintf("child-out-%d-%d.ndjson", p, round))
		b, err := json.Marshal(cases)
		if err != nil {
			return err
		}
		if err := os.WriteFile(in, b, 0o644); err != nil {
			return err
		}
		ctx, cancel := context.WithTimeout(e.ctx, 20*time.Minute)
		cmd := exec.CommandContext(ctx, os.Args[0])
		cmd.Env = append(os.Environ(), "C20_CHILD_IN="+in, "C20_CHILD_OUT="+outPath)
		var stderr bytes.Buffer
		cmd.Stderr = &stderr
		runErr := cmd.Run()
		timedOut := ctx.Err() != nil
		cancel()
		// read what the child managed to write
		done := map[int]bool{}
		started := -1
		ended := false
		if f, err := os.Open(outPath); err == nil {
			sc := bufio.NewScanner(f)
			sc.Buffer(make([]byte, 1<<20), 256<<20)
			for sc.Scan() {
				var l childLine
				if json.Unmarshal(sc.Bytes(), &l) != nil {
					continue
				}
				switch {
				case l.Start != nil:
					started = *l.Start
				case l.End:
					ended = true
					tally(l.WantSpills, l.GotSpills, false)
				default:
					done[l.Idx] = true
					if l.Err != "" {
						f.Close()
						return fmt.Errorf("case %d: %s", l.Idx, l.Err)
					}
					deliver(l.Idx, l.Report)
				}
			}
			f.Close()
		}
		os.Remove(in)
		os.Remove(outPath)
		if runErr == nil && ended {
			return nil
		}
		if timedOut || started < 0 || done[started] {
			return fmt.Errorf("replay child failed: %v\n%s", runErr, tail(stderr.String(), 2000))
		}
		// the child died while running case `started`: a crash of the code under test
		var crashedCase *childCase
		rest := cases[:0:0]
		for i := range cases {
			if cases[i].Idx == started {
				crashedCase = &cases[i]
			} else if !done[cases[i].Idx] {
				rest = append(rest, cases[i])
			}
		}
		if crashedCase == nil {
			return fmt.Errorf("replay child failed: %v\n%s", runErr, tail(stderr.String(), 2000))
		}
		tally(0, 0, true)
		r := &report{}
		r.violate("crash", fmt.Sprintf("fuse over values of types %s crashes the process: %s", crashedCase.TC.key(), panicSummary(stderr.String())),
			witness{Kind: "types", Ins: crashedCase.TC.Ins, Seed: crashedCase.Seed, Mem: crashedCase.Mems[0], Mems: crashedCase.Mems, ZNG: crashedCase.ZNG})
		deliver(crashedCase.Idx, r)
		if round >= 3 {
			c.Note(fmt.Sprintf("replay chunk %d stopped after %d crashes; %d cases not run", p, round+1, len(rest)))
			return nil
		}
		cases = rest
	}
	return nil
}

func tail(s string, n int) string {
	if len(s) > n {
		return s[len(s)-n:]
	}
	return s
}

// panicSummary extracts the panic message and the first frames in the repository's packages.
func panicSummary(stderr string) string {
	lines := strings.Split(stderr, "\n")
	var out []string
	for i, l := range lines {
		if strings.HasPrefix(l, "panic:") || strings.HasPrefix(l, "fatal error:") {
			out = append(out, l)
			for _, m := range lines[i+1:] {
				if strings.HasPrefix(m, "github.com/brimdata/super/") && len(out) < 5 {
					out = append(out, strings.TrimSpace(m))
				}
			}
			break
		}
	}
	if len(out) == 0 {
		return tail(stderr, 300)
	}
	return strings.Join(out, " <- ")
}

var _ = core.VerifDir
