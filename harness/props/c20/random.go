package main

import (
	"fmt"
	"math/rand"
	"strings"
)

// Random type cases beyond the exhaustive alphabet (FuseMergeRandom.tla).
// The generator only proposes inputs; TLC evaluates the transcription on
// them and the predictions come back through random.ndjson.

var (
	randPrims  = []string{"int64", "string", "float64", "ip", "time", "uint8"}
	randFields = []string{"a", "b", "c"}
	randNames  = []string{"M", "N", "R"}
)

type termGen struct {
	rng   *rand.Rand
	named map[string]*term // a type name is bound to one type per case
}

func prim(p string) *term { return &term{K: "prim", P: p} }

func (g *termGen) term(depth int) *term {
	k := g.rng.Intn(20)
	if depth <= 0 && k >= 6 {
		k = g.rng.Intn(6)
	}
	switch {
	case k < 5:
		return prim(randPrims[g.rng.Intn(len(randPrims))])
	case k < 6:
		return prim("null")
	case k < 11:
		t := &term{K: "rec"}
		perm := g.rng.Perm(len(randFields))
		for _, fi := range perm[:g.rng.Intn(len(randFields)+1)] {
			t.Fs = append(t.Fs, field{N: randFields[fi], T: *g.term(depth - 1)})
		}
		return t
	case k < 13:
		return &term{K: "arr", E: g.term(depth - 1)}
	case k < 15:
		return &term{K: "set", E: g.term(depth - 1)}
	case k < 16:
		return &term{K: "map", Kt: prim(randPrims[g.rng.Intn(2)]), Vt: g.term(depth - 1)}
	case k < 18:
		return g.union(depth)
	default:
		name := randNames[g.rng.Intn(len(randNames))]
		if t, ok := g.named[name]; ok {
			return t
		}
		u := g.term(depth - 1)
		for u.K == "named" {
			u = u.T
		}
		t := &term{K: "named", N: name, T: u}
		g.named[name] = t
		return t
	}
}

// union returns a union of 2-3 distinct non-union, non-null members.
func (g *termGen) union(depth int) *term {
	t := &term{K: "union"}
	seen := map[string]bool{}
	for tries := 0; len(t.Ts) < 2+g.rng.Intn(2) && tries < 20; tries++ {
		m := g.term(depth - 1)
		if m.K == "union" || (m.K == "prim" && m.P == "null") || seen[m.String()] {
			continue
		}
		seen[m.String()] = true
		t.Ts = append(t.Ts, *m)
	}
	if len(t.Ts) < 2 {
		return prim("int64")
	}
	return t
}

func clone(t *term) *term {
	c := *t
	if t.E != nil {
		c.E = clone(t.E)
	}
	if t.Kt != nil {
		c.Kt = clone(t.Kt)
	}
	if t.Vt != nil {
		c.Vt = clone(t.Vt)
	}
	if t.T != nil && t.K != "named" {
		c.T = clone(t.T)
	}
	c.Fs = nil
	for _, f := range t.Fs {
		c.Fs = append(c.Fs, field{N: f.N, T: *clone(&f.T)})
	}
	c.Ts = nil
	for i := range t.Ts {
		c.Ts = append(c.Ts, *clone(&t.Ts[i]))
	}
	return &c
}

// mutate returns a copy of t changed in one place, so that the two types
// share structure: another leaf primitive, a field more or less or moved, an
// array for a set, an element widened to a union, a subterm replaced.
func (g *termGen) mutate(t *term, depth int) *term {
	c := clone(t)
	switch c.K {
	case "rec":
		switch op := g.rng.Intn(5); {
		case op == 0 || len(c.Fs) == 0:
			for _, n := range randFields {
				has := false
				for _, f := range c.Fs {
					has = has || f.N == n
				}
				if !has {
					c.Fs = append(c.Fs, field{N: n, T: *g.term(depth - 1)})
					break
				}
			}
		case op == 1:
			i := g.rng.Intn(len(c.Fs))
			c.Fs = append(c.Fs[:i:i], c.Fs[i+1:]...)
		case op == 2 && len(c.Fs) > 1:
			c.Fs[0], c.Fs[len(c.Fs)-1] = c.Fs[len(c.Fs)-1], c.Fs[0]
		default:
			i := g.rng.Intn(len(c.Fs))
			c.Fs[i].T = *g.mutate(&c.Fs[i].T, depth-1)
		}
	case "arr", "set":
		switch g.rng.Intn(3) {
		case 0:
			if c.K == "arr" {
				c.K = "set"
			} else {
				c.K = "arr"
			}
		default:
			c.E = g.mutate(c.E, depth-1)
		}
	case "map":
		if g.rng.Intn(2) == 0 {
			c.Kt = prim(randPrims[g.rng.Intn(3)])
		} else {
			c.Vt = g.mutate(c.Vt, depth-1)
		}
	case "union":
		i := g.rng.Intn(len(c.Ts))
		m := g.mutate(&c.Ts[i], depth-1)
		if m.K != "union" && !(m.K == "prim" && m.P == "null") {
			dup := false
			for j := range c.Ts {
				dup = dup || (j != i && c.Ts[j].String() == m.String())
			}
			if !dup {
				c.Ts[i] = *m
			}
		}
	case "named":
		return c.T // the underlying type
	default:
		return g.term(depth)
	}
	return c
}

// randomCases returns n sequences of 2-4 pairwise different types.
func randomCases(seed int64, n int) [][]term {
	rng := rand.New(rand.NewSource(seed))
	var out [][]term
	for len(out) < n {
		g := &termGen{rng: rng, named: map[string]*term{}}
		var seq []term
		seen := map[string]bool{}
		want := 2 + rng.Intn(3)
		for tries := 0; len(seq) < want && tries < 30; tries++ {
			var t *term
			if len(seq) > 0 && rng.Intn(10) < 7 {
				t = g.mutate(&seq[rng.Intn(len(seq))], 2)
			} else {
				t = g.term(3)
			}
			if seen[t.String()] || !g.namesConsistent(t) {
				continue
			}
			seen[t.String()] = true
			seq = append(seq, *t)
		}
		if len(seq) >= 2 {
			out = append(out, seq)
		}
	}
	return out
}

// namesConsistent checks that every named type inside t is the one its name
// is bound to in this case (mutation may have changed a copy).
func (g *termGen) namesConsistent(t *term) bool {
	switch t.K {
	case "named":
		b, ok := g.named[t.N]
		return ok && b.T.String() == t.T.String() && g.namesConsistent(t.T)
	case "rec":
		for i := range t.Fs {
			if !g.namesConsistent(&t.Fs[i].T) {
				return false
			}
		}
	case "arr", "set":
		return g.namesConsistent(t.E)
	case "map":
		return g.namesConsistent(t.Kt) && g.namesConsistent(t.Vt)
	case "union":
		for i := range t.Ts {
			if !g.namesConsistent(&t.Ts[i]) {
				return false
			}
		}
	}
	return true
}

// tla renders a term in the constructors of FuseMerge.tla.
func (t *term) tla() string {
	switch t.K {
	case "prim":
		return fmt.Sprintf("P(%q)", t.P)
	case "rec":
		var fs []string
		for i := range t.Fs {
			fs = append(fs, fmt.Sprintf("Fld(%q, %s)", t.Fs[i].N, t.Fs[i].T.tla()))
		}
		return "Rec(<<" + strings.Join(fs, ", ") + ">>)"
	case "arr":
		return "Arr(" + t.E.tla() + ")"
	case "set":
		return "SetT(" + t.E.tla() + ")"
	case "map":
		return "MapT(" + t.Kt.tla() + ", " + t.Vt.tla() + ")"
	case "union":
		var ts []string
		for i := range t.Ts {
			ts = append(ts, t.Ts[i].tla())
		}
		return "Uni(<<" + strings.Join(ts, ", ") + ">>)"
	case "named":
		return fmt.Sprintf("Named(%q, %s)", t.N, t.T.tla())
	}
	panic("tla: " + t.K)
}

// genModule is the generated constant module FuseCasesGen.tla.
func genModule(cases [][]term) []byte {
	var b strings.Builder
	b.WriteString("---- MODULE FuseCasesGen ----\n\\* generated by harness/props/c20 (random.go)\nEXTENDS FuseMerge\n")
	b.WriteString("GenCases == <<\n")
	for i, seq := range cases {
		var ts []string
		for j := range seq {
			ts = append(ts, seq[j].tla())
		}
		sep := ","
		if i == len(cases)-1 {
			sep = ""
		}
		fmt.Fprintf(&b, "  <<%s>>%s\n", strings.Join(ts, ", "), sep)
	}
	b.WriteString(">>\n====\n")
	return []byte(b.String())
}
