package main

import (
	"fmt"
	"math/rand"
	"net/netip"
	"sort"
	"strings"

	zed "github.com/brimdata/super"
	"github.com/brimdata/super/pkg/nano"
	"github.com/brimdata/super/zcode"
)

// term is a type term of FuseMerge.tla (JSON as written by ndJsonSerialize).
type term struct {
	K  string  `json:"k"`            // prim | rec | arr | set | map | union | named | ERR
	P  string  `json:"p,omitempty"`  // primitive name
	N  string  `json:"n,omitempty"`  // type name (named)
	Fs []field `json:"fs,omitempty"` // record fields, in order
	E  *term   `json:"e,omitempty"`  // array / set element type
	Kt *term   `json:"kt,omitempty"` // map key type
	Vt *term   `json:"vt,omitempty"` // map value type
	T  *term   `json:"t,omitempty"`  // named: underlying
	Ts []term  `json:"ts,omitempty"` // union members
}

type field struct {
	N string `json:"n"`
	T term   `json:"t"`
}

func (t *term) String() string {
	switch t.K {
	case "prim":
		return t.P
	case "rec":
		var fs []string
		for _, f := range t.Fs {
			fs = append(fs, f.N+":"+f.T.String())
		}
		return "{" + strings.Join(fs, ",") + "}"
	case "arr":
		return "[" + t.E.String() + "]"
	case "set":
		return "|[" + t.E.String() + "]|"
	case "map":
		return "|{" + t.Kt.String() + ":" + t.Vt.String() + "}|"
	case "union":
		var ts []string
		for i := range t.Ts {
			ts = append(ts, t.Ts[i].String())
		}
		return "(" + strings.Join(ts, ",") + ")"
	case "named":
		return t.N + "=" + t.T.String()
	case "ERR":
		return "ERR"
	}
	return "?" + t.K
}

// toType interns the term in zctx.  ERR maps to nil.
func toType(zctx *zed.Context, t *term) (zed.Type, error) {
	switch t.K {
	case "prim":
		typ := zed.LookupPrimitive(t.P)
		if typ == nil {
			return nil, fmt.Errorf("unknown primitive %q", t.P)
		}
		return typ, nil
	case "rec":
		fields := make([]zed.Field, 0, len(t.Fs))
		for i := range t.Fs {
			ft, err := toType(zctx, &t.Fs[i].T)
			if err != nil {
				return nil, err
			}
			fields = append(fields, zed.NewField(t.Fs[i].N, ft))
		}
		return zctx.LookupTypeRecord(fields)
	case "arr", "set":
		e, err := toType(zctx, t.E)
		if err != nil {
			return nil, err
		}
		if t.K == "arr" {
			return zctx.LookupTypeArray(e), nil
		}
		return zctx.LookupTypeSet(e), nil
	case "map":
		k, err := toType(zctx, t.Kt)
		if err != nil {
			return nil, err
		}
		v, err := toType(zctx, t.Vt)
		if err != nil {
			return nil, err
		}
		return zctx.LookupTypeMap(k, v), nil
	case "union":
		var types []zed.Type
		for i := range t.Ts {
			m, err := toType(zctx, &t.Ts[i])
			if err != nil {
				return nil, err
			}
			types = append(types, m)
		}
		return zctx.LookupTypeUnion(types), nil
	case "named":
		u, err := toType(zctx, t.T)
		if err != nil {
			return nil, err
		}
		return zctx.LookupTypeNamed(t.N, u)
	case "ERR":
		return nil, nil
	}
	return nil, fmt.Errorf("unknown term kind %q", t.K)
}

// ---------------------------------------------------------------- values

// gen builds values of a given type.  Leaves are numbered by a shared
// counter so that no two leaves of a case are equal (a swapped, duplicated
// or dropped value is then visible to the oracle).  It records the leaves it
// wrote in the same notation as the independent walker of oracle.go.
type gen struct {
	rng     *rand.Rand
	counter *int
	member  int  // every union takes its member number (member mod n)
	random  bool // nulls, empty and short containers, random union members
	leaves  []string
}

func (g *gen) next() int {
	*g.counter++
	return *g.counter
}

// value appends one value of typ to b and records its leaves under path.
func (g *gen) value(b *zcode.Builder, typ zed.Type, path string, nullable bool) {
	if nullable && g.random && g.rng.Intn(5) == 0 {
		b.Append(nil)
		return
	}
	switch t := typ.(type) {
	case *zed.TypeNamed:
		g.value(b, t.Type, path, false)
	case *zed.TypeRecord:
		b.BeginContainer()
		for _, f := range t.Fields {
			g.value(b, f.Type, path+"."+f.Name, true)
		}
		b.EndContainer()
	case *zed.TypeArray:
		b.BeginContainer()
		for i, n := 0, g.count(); i < n; i++ {
			g.value(b, t.Type, fmt.Sprintf("%s[%d]", path, i), true)
		}
		b.EndContainer()
	case *zed.TypeSet:
		b.BeginContainer()
		n := g.count()
		if zed.TypeUnder(t.Type) == zed.TypeNull && n > 1 {
			n = 1
		}
		for i := 0; i < n; i++ {
			// set elements are never null here: equal (null) elements would be merged by NormalizeSet
			g.value(b, t.Type, path+"[*]", false)
		}
		b.TransformContainer(zed.NormalizeSet)
		b.EndContainer()
	case *zed.TypeMap:
		b.BeginContainer()
		n := g.count()
		if zed.TypeUnder(t.KeyType) == zed.TypeNull && n > 1 {
			n = 1
		}
		for i := 0; i < n; i++ {
			kg := &gen{rng: g.rng, counter: g.counter, member: g.member, random: g.random}
			kg.value(b, t.KeyType, "", false)
			sort.Strings(kg.leaves)
			for _, l := range kg.leaves {
				g.leaves = append(g.leaves, path+"{key}"+l)
			}
			g.value(b, t.ValType, path+"{"+strings.Join(kg.leaves, ";")+"}", true)
		}
		b.TransformContainer(zed.NormalizeMap)
		b.EndContainer()
	case *zed.TypeUnion:
		tag := g.member % len(t.Types)
		if g.random {
			tag = g.rng.Intn(len(t.Types))
		}
		var b2 zcode.Builder
		g.value(&b2, t.Types[tag], path, false)
		// a null member value cannot be told from a null union value
		zed.BuildUnion(b, tag, b2.Bytes().Body())
	default:
		switch typ {
		case zed.TypeNull:
			b.Append(nil)
		case zed.TypeInt64:
			v := zed.EncodeInt(int64(g.next()))
			b.Append(v)
			g.leaf(path, typ, v)
		case zed.TypeString:
			v := zed.EncodeString(fmt.Sprintf("s%d", g.next()))
			b.Append(v)
			g.leaf(path, typ, v)
		case zed.TypeFloat64:
			v := zed.EncodeFloat64(float64(g.next()) + 0.5)
			b.Append(v)
			g.leaf(path, typ, v)
		case zed.TypeBool:
			v := zed.EncodeBool(g.next()%2 == 0)
			b.Append(v)
			g.leaf(path, typ, v)
		case zed.TypeUint8:
			v := zed.EncodeUint(uint64(g.next() % 256))
			b.Append(v)
			g.leaf(path, typ, v)
		case zed.TypeTime:
			v := zed.EncodeTime(nano.Ts(1700000000000000000 + int64(g.next())))
			b.Append(v)
			g.leaf(path, typ, v)
		case zed.TypeIP:
			n := g.next()
			v := zed.EncodeIP(netip.AddrFrom4([4]byte{10, byte(n >> 16), byte(n >> 8), byte(n)}))
			b.Append(v)
			g.leaf(path, typ, v)
		default:
			panic("gen: unsupported primitive " + typ.Kind().String())
		}
	}
}

func (g *gen) count() int {
	if !g.random {
		return 2
	}
	return g.rng.Intn(3)
}

func (g *gen) leaf(path string, typ zed.Type, v zcode.Bytes) {
	g.leaves = append(g.leaves, leafString(path, typ, v))
}

// make returns one value of typ.
func (g *gen) make(typ zed.Type) (zed.Value, []string) {
	if zed.TypeUnder(typ) == zed.TypeNull {
		return zed.NewValue(typ, nil), nil
	}
	g.leaves = nil
	var b zcode.Builder
	g.value(&b, typ, "", false)
	leaves := g.leaves
	sort.Strings(leaves)
	return zed.NewValue(typ, b.Bytes().Body()).Copy(), leaves
}

// input is one input value with what the generator knows about it.
type input struct {
	val    zed.Value
	typeIx int // index of its type in the case
	leaves []string
}

// instantiate builds the input sequence of a case: for every type one full
// value per union member number (at least one), a random variant with nulls
// and short containers, and sometimes a null of that type; interleaved
// round-robin so that the types first appear in case order and values of
// different types alternate.
func instantiate(types []zed.Type, seed int64) []input {
	rng := rand.New(rand.NewSource(seed))
	counter := 0
	perType := make([][]input, len(types))
	for i, typ := range types {
		for m := 0; m < max(1, maxUnionWidth(typ)); m++ {
			g := &gen{rng: rng, counter: &counter, member: m}
			val, leaves := g.make(typ)
			perType[i] = append(perType[i], input{val, i, leaves})
		}
		g := &gen{rng: rng, counter: &counter, random: true}
		val, leaves := g.make(typ)
		perType[i] = append(perType[i], input{val, i, leaves})
		if rng.Intn(3) == 0 {
			perType[i] = append(perType[i], input{zed.NewValue(typ, nil), i, nil})
		}
	}
	var out []input
	for round := 0; ; round++ {
		any := false
		for i := range perType {
			if round < len(perType[i]) {
				out = append(out, perType[i][round])
				any = true
			}
		}
		if !any {
			return out
		}
	}
}

func maxUnionWidth(typ zed.Type) int {
	switch t := typ.(type) {
	case *zed.TypeNamed:
		return maxUnionWidth(t.Type)
	case *zed.TypeRecord:
		w := 0
		for _, f := range t.Fields {
			w = max(w, maxUnionWidth(f.Type))
		}
		return w
	case *zed.TypeArray:
		return maxUnionWidth(t.Type)
	case *zed.TypeSet:
		return maxUnionWidth(t.Type)
	case *zed.TypeMap:
		return max(maxUnionWidth(t.KeyType), maxUnionWidth(t.ValType))
	case *zed.TypeUnion:
		w := len(t.Types)
		for _, m := range t.Types {
			w = max(w, maxUnionWidth(m))
		}
		return w
	}
	return 0
}
