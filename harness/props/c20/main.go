// C20 -- fuse is uniform, order-preserving and lossless.
//
// TLC (specs/FuseMerge.tla) transcribes agg.merge / mergeAllRecords and the
// shaper (ConstShaper.Eval, shaperType, newStep) as pure functions over type
// terms, checks WellFormed / Uniform / Lossless / Embeds on every singleton,
// ordered pair and triple of distinct terms of a small alphabet that does not
// run through a named defect path, model-checks the two-pass Fuser state
// machine for every memory limit, and exports (a) every type case with the
// predicted fused type and the predicted type of every shaped input and (b)
// every Fuser case with the predicted spill point and output types.
//
// This harness instantiates every type case to values (built with
// zcode.Builder, leaves numbered so that they are pairwise distinct), runs the
// real `fuse` operator and `fuse()` aggregate with fuse.MemMaxBytes in
// {default, 1} (hook fuse.Fuser.spill confirms the spill path), compares the
// real fused type and the real type of every output with the spec's
// prediction (binding; a disagreement is drift), and evaluates the property's
// own oracle on the real output: one output per input, in order, one type,
// equal to the aggregate's type, a type of the data model, every non-null
// leaf of the input at the same path with the same primitive type and value
// and nothing else, same result with and without spilling.  The Fuser cases
// are replayed on fuse.NewFuser directly with values of exactly the byte
// sizes TLC chose.
package main

import (
	"bytes"
	"context"
	"errors"
	"fmt"
	"os"
	"path/filepath"
	"regexp"
	"runtime/pprof"
	"sort"
	"strings"
	"sync"
	"sync/atomic"
	"time"

	zed "github.com/brimdata/super"
	"github.com/brimdata/super/compiler"
	"github.com/brimdata/super/compiler/data"
	"github.com/brimdata/super/pkg/storage"
	"github.com/brimdata/super/pkg/verif"
	"github.com/brimdata/super/runtime"
	"github.com/brimdata/super/runtime/sam/op/fuse"
	"github.com/brimdata/super/zbuf"
	"github.com/brimdata/super/zio"
	"github.com/brimdata/super/zio/zngio"
	"github.com/brimdata/super/zson"

	"verif/core"
)

// typeCase is one line of cases.ndjson (Case(S) of FuseMerge.tla).
type typeCase struct {
	Ins      []term   `json:"ins"`
	Fused    term     `json:"fused"`
	Outs     []term   `json:"outs"`
	Taint    []string `json:"taint"`
	WF       bool     `json:"wf"`
	Uniform  bool     `json:"uniform"`
	Lossless bool     `json:"lossless"`
	Embeds   bool     `json:"embeds"`
	Random   bool     `json:"-"` // from FuseMergeRandom.tla (generated beyond the exhaustive alphabet)
}

func (tc *typeCase) key() string {
	var s []string
	for i := range tc.Ins {
		s = append(s, tc.Ins[i].String())
	}
	return strings.Join(s, " ")
}

type env struct {
	c       *core.Ctx
	ctx     context.Context
	spills  atomic.Int64 // hook fuse.Fuser.spill
	defMem  int
	buildMu sync.Mutex // fuse.MemMaxBytes is read when the operator is built
	src     *data.Source
}

// report collects what one case has to tell core.Ctx.  Cases are replayed by
// several goroutines (and, for the poisoned ZNG input stage, by a child
// process); their reports are flushed in case order so that the run (which
// witness is kept per signature, the samples, the drift list) is
// deterministic for a seed.
type act struct {
	Kind string  `json:"kind"` // violate | drift | inconclusive | eval | add | sample
	Sig  string  `json:"sig,omitempty"`
	Msg  string  `json:"msg,omitempty"`
	W    witness `json:"w,omitempty"`
	Flag bool    `json:"flag,omitempty"`
	N    int64   `json:"n,omitempty"`
	V    any     `json:"v,omitempty"`
}

type report struct {
	Acts  []act `json:"acts"`
	nviol int
}

func (r *report) violate(sig, what string, w witness) {
	r.nviol++
	r.Acts = append(r.Acts, act{Kind: "violate", Sig: sig, Msg: what, W: w})
}
func (r *report) drift(format string, a ...any) {
	r.Acts = append(r.Acts, act{Kind: "drift", Msg: fmt.Sprintf(format, a...)})
}
func (r *report) inconclusive(format string, a ...any) {
	r.Acts = append(r.Acts, act{Kind: "inconclusive", Msg: fmt.Sprintf(format, a...)})
}
func (r *report) eval(key string, nontrivial bool) {
	r.Acts = append(r.Acts, act{Kind: "eval", Msg: key, Flag: nontrivial})
}
func (r *report) add(key string, n int64) {
	r.Acts = append(r.Acts, act{Kind: "add", Msg: key, N: n})
}
func (r *report) sample(v any) {
	r.Acts = append(r.Acts, act{Kind: "sample", V: v})
}
func (r *report) flush(c *core.Ctx) {
	for _, a := range r.Acts {
		switch a.Kind {
		case "violate":
			c.Violate(a.Sig, a.Msg, a.W)
		case "drift":
			c.Drift("%s", a.Msg)
		case "inconclusive":
			c.Inconclusive("%s", a.Msg)
		case "eval":
			c.Eval(a.Msg, a.Flag)
		case "add":
			c.Add(a.Msg, a.N)
		case "sample":
			c.Sample(a.V)
		}
	}
	r.Acts = nil
}

// runFlow runs program over vals on the real runtime (compiled and optimized
// as the product does) and returns copies of the output values.
func (e *env) runFlow(zctx *zed.Context, program string, vals []zed.Value, mem int, viaZNG bool) (out []zed.Value, err error) {
	ctx, cancel := context.WithTimeout(e.ctx, 60*time.Second)
	defer cancel()
	defer func() {
		if r := recover(); r != nil {
			err = fmt.Errorf("panic: %v", r)
		}
	}()
	seq, _, err := compiler.Parse(program)
	if err != nil {
		return nil, err
	}
	rctx := runtime.NewContext(ctx, zctx)
	defer rctx.Cancel()
	job, err := compiler.NewJob(rctx, seq, e.src, nil)
	if err != nil {
		return nil, err
	}
	if err := job.Optimize(); err != nil {
		return nil, err
	}
	// The input is either an in-memory array of values, or a ZNG stream read by the real
	// zngio scanner, whose buffers are recycled and (verif.PoisonFreed) overwritten when a
	// batch is released -- an operator that keeps a reference into a released batch shows.
	var reader zio.Reader = zbuf.NewArray(append([]zed.Value(nil), vals...))
	if viaZNG {
		var buf bytes.Buffer
		w := zngio.NewWriter(zio.NopCloser(&buf))
		for _, v := range vals {
			if err := w.Write(v); err != nil {
				return nil, fmt.Errorf("harness: zng write: %w", err)
			}
		}
		if err := w.Close(); err != nil {
			return nil, fmt.Errorf("harness: zng close: %w", err)
		}
		zr := zngio.NewReader(zctx, bytes.NewReader(buf.Bytes()))
		defer zr.Close()
		reader = zr
	}
	e.buildMu.Lock()
	fuse.MemMaxBytes = mem // read by fuse.New while the flow graph is built
	err = job.Build(reader)
	fuse.MemMaxBytes = e.defMem
	e.buildMu.Unlock()
	if err != nil {
		return nil, err
	}
	p := job.Puller()
	if p == nil {
		return nil, errors.New("no output")
	}
	for {
		batch, err := p.Pull(false)
		if err != nil {
			p.Pull(true)
			return out, err
		}
		if batch == nil {
			return out, nil
		}
		for _, v := range batch.Values() {
			out = append(out, v.Copy())
		}
		batch.Unref()
	}
}

// observation is what one run of a case on the real code showed.
type observation struct {
	outs    []zed.Value
	aggType zed.Type
}

func (e *env) observe(zctx *zed.Context, ins []input, mem int, viaZNG bool) (*observation, error) {
	vals := make([]zed.Value, len(ins))
	for i := range ins {
		vals[i] = ins[i].val
	}
	outs, err := e.runFlow(zctx, "fuse", vals, mem, viaZNG)
	if err != nil {
		return nil, fmt.Errorf("fuse: %w", err)
	}
	o := &observation{outs: outs}
	agg, err := e.runFlow(zctx, "fuse(this)", vals, mem, viaZNG)
	if err != nil {
		return nil, fmt.Errorf("fuse(this): %w", err)
	}
	if len(agg) != 1 || agg[0].Type() != zed.TypeType {
		return nil, fmt.Errorf("fuse(this) returned %d values (%v)", len(agg), agg)
	}
	o.aggType, err = zctx.LookupByValue(agg[0].Bytes())
	if err != nil {
		return nil, fmt.Errorf("fuse(this) type value: %w", err)
	}
	return o, nil
}

type witness struct {
	Kind  string      `json:"kind"` // "types" | "fuser"
	Ins   []term      `json:"ins,omitempty"`
	Seed  int64       `json:"seed"`
	Mem   int         `json:"mem"`
	Mems  []int       `json:"mems,omitempty"` // crash witness: all the runs of the case (any of them may have crashed)
	ZNG   bool        `json:"zng,omitempty"` // input read through zngio (buffers poisoned on release)
	Input []fuserItem `json:"input,omitempty"`
	// informational
	Values  []string `json:"values,omitempty"`
	Outputs []string `json:"outputs,omitempty"`
	AggType string   `json:"agg_type,omitempty"`
}

// format renders a value; an output whose bytes do not fit its type can make the formatter panic.
func format(v zed.Value) (s string) {
	defer func() {
		if r := recover(); r != nil {
			s = fmt.Sprintf("<unformattable value of type %s, bytes %x: %v>", zson.FormatType(v.Type()), []byte(v.Bytes()), r)
		}
	}()
	return zson.FormatValue(v)
}

func formatAll(vals []zed.Value) []string {
	var out []string
	for _, v := range vals {
		out = append(out, format(v))
	}
	return out
}

// oracle evaluates the property on one real run.  It returns the number of
// violations it reported (known findings included).
func (e *env) oracle(r *report, ins []input, inTypes []zed.Type, o *observation, w witness) int {
	n := 0
	w.AggType = zson.FormatType(o.aggType)
	for i := range ins {
		w.Values = append(w.Values, format(ins[i].val))
	}
	w.Outputs = formatAll(o.outs)
	violate := func(sig, what string) {
		n++
		r.violate(sig, what, w)
	}
	if len(o.outs) != len(ins) {
		violate("count", fmt.Sprintf("fuse emitted %d values for %d input values (types %s)", len(o.outs), len(ins), typeList(inTypes)))
		return n
	}
	// one type, the aggregate's type, a type of the data model
	if duplicateUnionMember(o.aggType) {
		violate("ill-formed-type:duplicate-union-member",
			fmt.Sprintf("fuse() of types %s reports %s, a union that lists the same type twice", typeList(inTypes), zson.FormatType(o.aggType)))
	}
	allSame := true
	for i := range o.outs {
		if o.outs[i].Type() != o.outs[0].Type() {
			allSame = false
		}
	}
	if allSame && len(o.outs) > 0 && o.outs[0].Type() != o.aggType && !o.outs[0].IsError() {
		violate("agg-type-differs", fmt.Sprintf("fuse shapes the inputs of types %s to %s but fuse() reports %s",
			typeList(inTypes), zson.FormatType(o.outs[0].Type()), zson.FormatType(o.aggType)))
	} else {
		for i := range o.outs {
			if o.outs[i].Type() != o.aggType {
				inT := ins[i].val.Type()
				violate("nonuniform:"+sigClass(inT, o.aggType),
					fmt.Sprintf("output %d of fuse has type %s, not the fused type %s (input value %s of type %s)",
						i, zson.FormatType(o.outs[i].Type()), zson.FormatType(o.aggType), format(ins[i].val), zson.FormatType(inT)))
				break
			}
		}
	}
	for i := range o.outs {
		if duplicateUnionMember(o.outs[i].Type()) && !duplicateUnionMember(o.aggType) {
			violate("ill-formed-type:duplicate-union-member:output",
				fmt.Sprintf("output %d of fuse has type %s, a union that lists the same type twice", i, zson.FormatType(o.outs[i].Type())))
			break
		}
	}
	// lossless and in order: out[i] carries exactly the leaves of in[i]
	for i := range o.outs {
		inLeaves, inShape, inSets := leavesOfAs(ins[i].val, nil)
		if !equalStrings(inLeaves, ins[i].leaves) {
			r.inconclusive("harness: generator and walker disagree on the leaves of %s: %v vs %v", format(ins[i].val), ins[i].leaves, inLeaves)
			return n
		}
		outLeaves, outShape, _, malformed := safeLeaves(o.outs[i], inSets)
		if malformed != "" {
			violate("malformed-output", fmt.Sprintf("output %d of fuse (input %s) cannot be decoded as a value of its type %s: %s",
				i, format(ins[i].val), zson.FormatType(o.outs[i].Type()), malformed))
			break
		}
		if !equalStrings(inLeaves, outLeaves) {
			lost, extra := diffStrings(inLeaves, outLeaves, 3)
			inT := ins[i].val.Type()
			sig := "lossy:" + sigClass(inT, o.aggType)
			if o.outs[i].IsError() {
				sig = "lossy:error-output:" + sigClass(inT, o.aggType)
			}
			violate(sig, fmt.Sprintf("output %d of fuse, %s, does not carry the leaves of input %d, %s: missing %v, not from this input %v",
				i, format(o.outs[i]), i, format(ins[i].val), lost, extra))
			break
		}
		if !equalStrings(inShape, outShape) {
			r.drift("structure: input %s became %s (same leaves, different empty containers/records)", format(ins[i].val), format(o.outs[i]))
		}
	}
	return n
}

// safeLeaves walks an output value; bytes that do not fit the type make the walk panic.
func safeLeaves(v zed.Value, asSets map[string]bool) (leaves, shape []string, sets map[string]bool, malformed string) {
	defer func() {
		if r := recover(); r != nil {
			malformed = fmt.Sprint(r)
		}
	}()
	leaves, shape, sets = leavesOfAs(v, asSets)
	for _, l := range leaves {
		if strings.Contains(l, "|!short-record|") || strings.Contains(l, "|!odd-map|") {
			return leaves, shape, sets, l
		}
	}
	return leaves, shape, sets, ""
}

// sigClass gives the signature class of a value type against the fused type.
func sigClass(in, fused zed.Type) string {
	if m := misfit(in, fused); m != "" {
		return m
	}
	return "shapeable:" + kindName(in) + "->" + kindName(fused)
}

func typeList(types []zed.Type) string {
	var s []string
	for _, t := range types {
		s = append(s, zson.FormatType(t))
	}
	return strings.Join(s, " ")
}

// checkCase replays one TLC case on the real code and returns its report.
// wantSpills is the number of runs of this case in which the spec says the
// Fuser creates a spill file.
func (e *env) checkCase(tc *typeCase, idx int, seed int64, mems []int, viaZNG bool) (r *report, wantSpills int64, err error) {
	r = &report{}
	zctx := zed.NewContext()
	var inTypes []zed.Type
	for i := range tc.Ins {
		t, err := toType(zctx, &tc.Ins[i])
		if err != nil {
			return r, 0, err
		}
		inTypes = append(inTypes, t)
	}
	ins := instantiate(inTypes, seed)
	anyBytes := false
	for i := range ins {
		if len(ins[i].val.Bytes()) > 0 {
			anyBytes = true
		}
	}
	var first *observation
	for _, mem := range mems {
		o, err := e.observe(zctx, ins, mem, viaZNG)
		w := witness{Kind: "types", Ins: tc.Ins, Seed: seed, Mem: mem, ZNG: viaZNG}
		if err != nil {
			var pe *os.PathError
			if errors.As(err, &pe) || errors.Is(err, context.DeadlineExceeded) {
				return r, wantSpills, err
			}
			r.violate("query-error", fmt.Sprintf("fuse over values of types %s fails: %v", typeList(inTypes), err), w)
			continue
		}
		nontrivial := false
		for _, t := range inTypes {
			if t != o.aggType {
				nontrivial = true
			}
		}
		// Fuser.stash: the spill file is created by the first Write that brings nbytes to memMaxBytes
		if mem <= 1 && anyBytes {
			wantSpills++
		} else if mem <= 1 {
			nontrivial = false
		}
		r.eval(fmt.Sprintf("types|%s|%d|%d|%v", tc.key(), seed, mem, viaZNG), nontrivial)
		before := r.nviol
		e.oracle(r, ins, inTypes, o, w)
		e.bind(r, zctx, tc, ins, o, r.nviol-before)
		if first == nil {
			first = o
		} else if len(first.outs) == len(o.outs) {
			for i := range o.outs {
				if first.outs[i].Type() != o.outs[i].Type() || string(first.outs[i].Bytes()) != string(o.outs[i].Bytes()) ||
					(first.outs[i].Bytes() == nil) != (o.outs[i].Bytes() == nil) {
					r.violate("spill-differs", fmt.Sprintf("output %d of fuse over types %s is %s with MemMaxBytes=%d but %s with MemMaxBytes=%d",
						i, typeList(inTypes), format(first.outs[i]), mems[0], format(o.outs[i]), mem), w)
					break
				}
			}
		}
	}
	if first != nil && idx%1000 == 7 {
		r.sample(map[string]any{"types": tc.key(), "spec_fused": tc.Fused.String(), "spec_taint": tc.Taint,
			"real_fused": zson.FormatType(first.aggType), "inputs": formatInputs(ins), "outputs": formatAll(first.outs)})
	}
	return r, wantSpills, nil
}

func formatInputs(ins []input) []string {
	var out []string
	for i := range ins {
		out = append(out, format(ins[i].val))
	}
	return out
}

// bind compares the spec's predictions with the real run.  A disagreement is
// drift of the transcription, never a verdict.
func (e *env) bind(r *report, zctx *zed.Context, tc *typeCase, ins []input, o *observation, nviol int) {
	predFused, err := toType(zctx, &tc.Fused)
	if err != nil {
		r.inconclusive("harness: predicted fused type of %s: %v", tc.key(), err)
		return
	}
	ok := true
	if predFused != o.aggType {
		ok = false
		r.drift("fused type: %s: spec %s real %s", tc.key(), tc.Fused.String(), zson.FormatType(o.aggType))
	}
	if len(o.outs) == len(ins) {
		for i := range ins {
			pred := predFused
			if !ins[i].val.IsNull() {
				pred, err = toType(zctx, &tc.Outs[ins[i].typeIx])
				if err != nil {
					r.inconclusive("harness: predicted output type of %s: %v", tc.key(), err)
					return
				}
			}
			if pred == nil {
				if !o.outs[i].IsError() {
					ok = false
					r.drift("output type: %s: spec predicts an error value for %s, real output %s", tc.key(), format(ins[i].val), format(o.outs[i]))
				}
			} else if o.outs[i].Type() != pred {
				ok = false
				r.drift("output type: %s: spec predicts %s for %s, real output %s", tc.key(), zson.FormatType(pred), format(ins[i].val), format(o.outs[i]))
			}
		}
	}
	// the spec's verdict on the case against the oracle's
	specClean := tc.WF && tc.Uniform && tc.Lossless
	if specClean != (nviol == 0) {
		ok = false
		r.drift("verdict: %s: spec says wf=%v uniform=%v lossless=%v taint=%v, the oracle reported %d violations on the real run",
			tc.key(), tc.WF, tc.Uniform, tc.Lossless, tc.Taint, nviol)
	}
	if ok {
		r.add("predictions_confirmed", 1)
	}
}

func run(c *core.Ctx) error {
	e := &env{c: c, ctx: context.Background(), defMem: fuse.MemMaxBytes, src: data.NewSource(storage.NewLocalEngine(), nil)}
	if !verif.Enabled {
		return errors.New("harness built without -tags verif")
	}
	verif.SetHook(func(site string, args ...any) {
		if site == "fuse.Fuser.spill" {
			e.spills.Add(1)
		}
	})
	c.Trust("TLC 1.8; zcode.Builder / zed.BuildUnion / NormalizeSet / NormalizeMap to build inputs; TypeUnion.Untag and zcode.Iter in the leaf walker; zed.Context interning (type identity is pointer identity); hook fuse.Fuser.spill")
	c.Assume("type alphabet: int64, string (float64 at depth 2), null, records over fields a,b, arrays, sets, maps, unions, named types, depth <= 2 (see FuseMerge.tla L1/L2/T3); input values are not error values")
	c.Assume("docs/formats/zed.md 2.5: a union type lists two or more unique types; a fused type with a duplicated member is not 'one type'")
	c.Rule("cases = every singleton, ordered pair and triple of distinct type terms enumerated by TLC from FuseMerge.tla, instantiated to 2-6 values per type (seeded: union members, nulls, empty containers) and run through the real fuse operator and fuse() aggregate with MemMaxBytes in {default,1}, plus every Fuser case (value sizes x memory limit) of the state machine replayed on fuse.NewFuser; non-trivial = some input type differs from the real fused type (a value had to be shaped) and, for MemMaxBytes=1 / Fuser cases, the spill hook fired")

	if c.Replay != "" {
		return e.replay()
	}
	if f := os.Getenv("C20_CPUPROFILE"); f != "" {
		pf, _ := os.Create(f)
		defer pf.Close()
		defer func() { pprof.StopCPUProfile() }()
		defer func() {}()
		startProfile = func() { pprof.StartCPUProfile(pf) }
	}
	cases, spillCases, err := e.runTLC()
	if err != nil || cases == nil {
		return err
	}
	nrand := 0
	for i := range cases {
		if cases[i].Random {
			nrand++
		}
	}
	// Self-test of the binding (C20_CORRUPT=1): falsify one predicted fused type and one predicted
	// spill point; the conformance step must report both as drift.
	if os.Getenv("C20_CORRUPT") != "" {
		for i := len(cases) / 2; i < len(cases); i++ {
			if len(cases[i].Ins) == 2 && cases[i].Fused.String() != cases[i].Ins[0].String() && len(cases[i].Taint) == 0 {
				c.Logf("C20_CORRUPT: predicted fused type of %s changed from %s to %s", cases[i].key(), cases[i].Fused.String(), cases[i].Ins[0].String())
				cases[i].Fused = cases[i].Ins[0]
				break
			}
		}
		if k := len(spillCases) / 2; k < len(spillCases) {
			c.Logf("C20_CORRUPT: predicted spill point of fuser case %s changed from %d to %d", spillCases[k].key(), spillCases[k].SpillAt, spillCases[k].SpillAt+1)
			spillCases[k].SpillAt++
		}
	}
	c.Set("type_cases", len(cases)-nrand)
	c.Set("random_type_cases", nrand)
	c.Set("fuser_cases", len(spillCases))
	// every enumerated type case is replayed with the default memory limit in both tiers; the spill and
	// poisoned-input variants of every case only in the thorough tier
	c.Set("exhaustive", !c.Quick())
	c.Set("exhaustive_at_default_memory_limit", true)
	tainted := map[string]int{}
	for i := range cases {
		for _, t := range cases[i].Taint {
			tainted[t]++
		}
	}
	c.Set("spec_tainted_cases", tainted)
	c.Logf("TLC exported %d enumerated + %d generated type cases (%v on a defect path) and %d Fuser cases", len(cases)-nrand, nrand, tainted, len(spillCases))

	startProfile()
	// Replay the type cases in child processes (a panic in one of the operator's own goroutines
	// cannot be recovered; a child that dies is a crash of the code under test on that case).
	jobs := make([]childCase, len(cases))
	nzng := 0
	for i := range cases {
		j := childCase{Idx: i, TC: cases[i], Seed: caseSeed(c.Seed, i), Mems: []int{e.defMem}}
		// thorough: every case also through the spill file and, every other one, through poisoned ZNG input;
		// quick: one in three / one in four
		if !c.Quick() || (int64(i)+c.Seed)%3 == 0 {
			j.Mems = append(j.Mems, 1)
		}
		if (!c.Quick() && (int64(i)+c.Seed)%2 == 1) || (int64(i)+c.Seed)%4 == 1 {
			j.ZNG = true
			nzng++
		}
		jobs[i] = j
	}
	c.Set("zng_poisoned_input_cases", nzng)
	if err := e.childStage(jobs, 8); err != nil {
		return err
	}
	c.Add("traces_validated_against_impl", int64(len(cases)))
	c.Logf("type cases replayed: %d evaluations, %d predictions confirmed, %d drift", c.Count("evaluations"), c.Count("predictions_confirmed"), c.Count("drift_count"))
	for i := range spillCases {
		if err := e.checkFuserSafe(&spillCases[i], c.Seed+int64(i)); err != nil {
			return fmt.Errorf("fuser case %d: %w", i, err)
		}
	}
	c.Add("traces_validated_against_impl", int64(len(spillCases)))
	c.Logf("Fuser cases replayed: %d", len(spillCases))
	return nil
}

var startProfile = func() {}

var reMaxLen = regexp.MustCompile(`\n  MaxLen = \d+`)

// probeFixed tells which of the named defect paths of FuseMerge.tla the tree under test still has
// (constant Fixed), so that the transcription follows a repaired tree.  It decides no verdict: the
// oracle judges the real outputs whatever the spec predicts.
func (e *env) probeFixed() (string, error) {
	zctx := zed.NewContext()
	fusedOf := func(terms ...*term) (zed.Type, error) {
		var vals []zed.Value
		n := 0
		for _, t := range terms {
			typ, err := toType(zctx, t)
			if err != nil {
				return nil, err
			}
			v, _ := (&gen{counter: &n}).make(typ)
			vals = append(vals, v)
		}
		out, err := e.runFlow(zctx, "fuse(this)", vals, e.defMem, false)
		if err != nil || len(out) != 1 || out[0].Type() != zed.TypeType {
			return nil, fmt.Errorf("probe: fuse(this): %v %v", out, err)
		}
		return zctx.LookupByValue(out[0].Bytes())
	}
	var fixed []string
	t, err := fusedOf(&term{K: "arr", E: prim("int64")}, &term{K: "set", E: prim("int64")})
	if err != nil {
		return "", err
	}
	if !duplicateUnionMember(t) {
		fixed = append(fixed, `"dup"`)
	}
	t, err = fusedOf(&term{K: "map", Kt: prim("int64"), Vt: prim("int64")}, &term{K: "map", Kt: prim("string"), Vt: prim("int64")})
	if err != nil {
		return "", err
	}
	if zed.IsUnionType(t) {
		fixed = append(fixed, `"map"`)
	}
	// `1 {b:1} {c:1}`: are the records shaped into the fused union?
	{
		var vals []zed.Value
		n := 0
		for _, t := range []*term{prim("int64"), {K: "rec", Fs: []field{{N: "b", T: *prim("int64")}}}, {K: "rec", Fs: []field{{N: "c", T: *prim("int64")}}}} {
			typ, err := toType(zctx, t)
			if err != nil {
				return "", err
			}
			v, _ := (&gen{counter: &n}).make(typ)
			vals = append(vals, v)
		}
		out, err := e.runFlow(zctx, "fuse", vals, e.defMem, false)
		if err != nil || len(out) != 3 {
			return "", fmt.Errorf("probe: fuse: %v %v", out, err)
		}
		if out[0].Type() == out[1].Type() && out[1].Type() == out[2].Type() {
			fixed = append(fixed, `"unionhome"`)
		}
	}
	e.c.Set("spec_defect_paths_repaired_in_tree", fixed)
	if len(fixed) > 0 {
		e.c.Logf("probe: the tree under test no longer has the defect path(s) %s; FuseMerge.tla is checked with Fixed = {%s}", strings.Join(fixed, ","), strings.Join(fixed, ","))
	}
	return "{" + strings.Join(fixed, ", ") + "}", nil
}

// runTLC checks FuseMerge.tla (sharded over several TLC processes, the cases
// are constant-level and TLC evaluates ASSUMEs on one thread) and returns the
// exported tables.
func (e *env) runTLC() ([]typeCase, []fuserCase, error) {
	c := e.c
	nshards, cfgName, timeout := 3, "FuseMerge.quick.cfg", 8*time.Minute
	if !c.Quick() {
		nshards, cfgName, timeout = 8, "FuseMerge.thorough.cfg", 45*time.Minute
	}
	// several JVMs run side by side: keep each one's GC pool small; the runs are short, C1 code is fast enough and compiles sooner
	os.Setenv("JAVA_TOOL_OPTIONS", "-XX:ParallelGCThreads=2 -XX:TieredStopAtLevel=1")
	if n := os.Getenv("C20_CFG"); n != "" { // development: e.g. FuseMerge.tiny.cfg
		cfgName = n
	}
	cfgBytes, err := os.ReadFile(filepath.Join(core.VerifDir, "specs", "cfg", cfgName))
	if err != nil {
		return nil, nil, err
	}
	fixed, err := e.probeFixed()
	if err != nil {
		return nil, nil, err
	}
	cfgBytes = bytes.Replace(cfgBytes, []byte("\n  Fixed = {}"), []byte("\n  Fixed = "+fixed), 1)
	type result struct {
		cases []typeCase
		spill []fuserCase
		err   error
		ok    bool
	}
	// shards 0..nshards-1 evaluate the type cases; one more process (Shard = NShards) model-checks the
	// Fuser state machine and the side lemmas
	results := make([]result, nshards+2)
	done := make(chan int)
	// "randomly beyond": seeded deeper/wider type sequences, evaluated by TLC on the same transcription
	nrandom := 400
	if !c.Quick() {
		nrandom = 8000
	}
	go func() {
		i := nshards + 1
		defer func() { done <- i }()
		cfg := fmt.Sprintf("SPECIFICATION Spec\nCONSTANTS\n  Level = 1\n  TripleLevel = 1\n  Fixed = "+fixed+"\n  Shard = %d\n  NShards = %d\n  OutFile = \"\"\n  SpillFile = \"\"\n  MaxLen = 0\n  Mems = {1}\n  Sizes = {3}\n", nshards, nshards)
		res := c.MustHold(core.TLCRun{Module: "FuseMergeRandom", Cfg: cfg, Files: map[string][]byte{"FuseCasesGen.tla": genModule(randomCases(c.Seed+2020, nrandom))},
			Keep: []string{"random.ndjson"}, Workers: 1, Timeout: timeout, HeapMB: 3072})
		if res == nil {
			return
		}
		r := &results[i]
		r.cases, r.err = core.ReadNDJSON[typeCase](res, "random.ndjson")
		for j := range r.cases {
			r.cases[j].Random = true
		}
		r.ok = r.err == nil
	}()
	for i := 0; i <= nshards; i++ {
		go func(i int) {
			defer func() { done <- i }()
			shard, nworkers := i, 1
			cfg := string(cfgBytes)
			if i == nshards {
				shard, nworkers = nshards, 4
			} else {
				cfg = reMaxLen.ReplaceAllString(cfg, "\n  MaxLen = 0")
				cfg = strings.Replace(cfg, "\nINVARIANTS BufferInv SchemaInv DoneInv", "\n", 1)
			}
			cfg = strings.Replace(cfg, "\n  Shard = 0", fmt.Sprintf("\n  Shard = %d", shard), 1)
			cfg = strings.Replace(cfg, "\n  NShards = 1", fmt.Sprintf("\n  NShards = %d", nshards), 1)
			res := c.MustHold(core.TLCRun{Module: "FuseMerge", Cfg: cfg, Keep: []string{"cases.ndjson", "spill.ndjson"}, Workers: nworkers, Timeout: timeout, HeapMB: 3072})
			if res == nil {
				return
			}
			r := &results[i]
			if shard < nshards {
				r.cases, r.err = core.ReadNDJSON[typeCase](res, "cases.ndjson")
			} else {
				r.spill, r.err = core.ReadNDJSON[fuserCase](res, "spill.ndjson")
			}
			r.ok = r.err == nil
		}(i)
	}
	for i := 0; i <= nshards+1; i++ {
		<-done
	}
	var cases []typeCase
	var spill []fuserCase
	for s := range results {
		if results[s].err != nil {
			return nil, nil, results[s].err
		}
		if !results[s].ok {
			return nil, nil, nil // MustHold recorded the reason
		}
		cases = append(cases, results[s].cases...)
		spill = append(spill, results[s].spill...)
	}
	sort.SliceStable(cases, func(i, j int) bool {
		if cases[i].Random != cases[j].Random {
			return cases[j].Random
		}
		return cases[i].key() < cases[j].key()
	})
	return cases, spill, nil
}

func (e *env) replay() error {
	var w witness
	if _, err := e.c.ReplayWitness(&w); err != nil {
		return err
	}
	switch w.Kind {
	case "fuser":
		fc := fuserCase{Input: w.Input, Mem: w.Mem}
		fc.SpillAt = -1
		return e.checkFuserSafe(&fc, w.Seed)
	default:
		zctx := zed.NewContext()
		var inTypes []zed.Type
		for i := range w.Ins {
			t, err := toType(zctx, &w.Ins[i])
			if err != nil {
				return err
			}
			inTypes = append(inTypes, t)
		}
		if w.ZNG || os.Getenv("C20_REPLAY_INPROCESS") == "" {
			// in a child process, so that a crash of the code under test is reported as such
			job := childCase{Idx: 0, TC: typeCase{Ins: w.Ins}, Seed: w.Seed, Mems: []int{w.Mem}, ZNGOnly: w.ZNG, ZNG: w.ZNG, NoBind: true}
			if len(w.Mems) > 0 {
				job.Mems, job.ZNGOnly = w.Mems, false
			}
			return e.childStage([]childCase{job}, 1)
		}
		ins := instantiate(inTypes, w.Seed)
		o, err := e.observe(zctx, ins, w.Mem, false)
		if err != nil {
			e.c.Violate("query-error", err.Error(), w)
			return nil
		}
		fmt.Printf("input:   %s\nfuse:    %s\nfuse():  %s\n", strings.Join(formatInputs(ins), " "), strings.Join(formatAll(o.outs), " "), zson.FormatType(o.aggType))
		r := &report{}
		e.oracle(r, ins, inTypes, o, witness{Kind: "types", Ins: w.Ins, Seed: w.Seed, Mem: w.Mem, ZNG: w.ZNG})
		r.flush(e.c)
	}
	return nil
}

func caseSeed(seed int64, i int) int64 { return seed*1000003 + int64(i) }

func main() {
	if os.Getenv("C20_CHILD_IN") != "" {
		childMain()
		return
	}
	core.Main("C20", "model_checking", run)
}
