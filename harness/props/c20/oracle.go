package main

import (
	"encoding/hex"
	"fmt"
	"sort"
	"strings"

	zed "github.com/brimdata/super"
	"github.com/brimdata/super/zcode"
	"github.com/brimdata/super/zson"
)

// leafString is the notation of one non-null primitive leaf: field path,
// primitive type (names and unions are transparent), value bytes.
func leafString(path string, typ zed.Type, v zcode.Bytes) string {
	return path + "|" + zson.FormatType(zed.TypeUnder(typ)) + "|" + hex.EncodeToString(v)
}

// walk lists the non-null leaves of a value (sorted), and separately the
// empty containers / empty records it contains ("structure": more than the
// property demands, reported as drift only).  Paths: .field, [index] for
// arrays, [*] for set elements, {key} for the leaves of a map key and
// {<leaves of the key>} for the value under that key.
//
// fuse may turn a set into an array (set + array fuse to an array); the order
// of the elements of such an array means nothing.  So the walk of an input
// value records the paths of its sets (sets), and the walk of the output
// value treats an array at one of those paths (asSets) like a set.
type walker struct {
	leaves []string
	shape  []string
	sets   map[string]bool
	asSets map[string]bool
}

func leavesOf(val zed.Value) (leaves, shape []string) {
	l, s, _ := leavesOfAs(val, nil)
	return l, s
}

func leavesOfAs(val zed.Value, asSets map[string]bool) (leaves, shape []string, sets map[string]bool) {
	w := walker{sets: map[string]bool{}, asSets: asSets}
	w.walk(val.Type(), val.Bytes(), "")
	sort.Strings(w.leaves)
	sort.Strings(w.shape)
	return w.leaves, w.shape, w.sets
}

func (w *walker) walk(typ zed.Type, b zcode.Bytes, path string) {
	if b == nil {
		return
	}
	switch t := typ.(type) {
	case *zed.TypeNamed:
		w.walk(t.Type, b, path)
	case *zed.TypeUnion:
		inner, ib := t.Untag(b)
		w.walk(inner, ib, path)
	case *zed.TypeRecord:
		it := b.Iter()
		n := len(w.leaves)
		for _, f := range t.Fields {
			if it.Done() {
				w.leaves = append(w.leaves, path+"|!short-record|")
				return
			}
			w.walk(f.Type, it.Next(), path+"."+f.Name)
		}
		if len(w.leaves) == n {
			w.shape = append(w.shape, path+"|record-without-leaves")
		}
	case *zed.TypeArray:
		i := 0
		for it := b.Iter(); !it.Done(); i++ {
			if w.asSets[path] {
				w.walk(t.Type, it.Next(), path+"[*]")
			} else {
				w.walk(t.Type, it.Next(), fmt.Sprintf("%s[%d]", path, i))
			}
		}
		w.shape = append(w.shape, fmt.Sprintf("%s|len=%d", path, i))
	case *zed.TypeSet:
		w.sets[path] = true
		i := 0
		for it := b.Iter(); !it.Done(); i++ {
			w.walk(t.Type, it.Next(), path+"[*]")
		}
		w.shape = append(w.shape, fmt.Sprintf("%s|len=%d", path, i))
	case *zed.TypeMap:
		i := 0
		for it := b.Iter(); !it.Done(); i++ {
			kw := walker{sets: map[string]bool{}}
			kw.walk(t.KeyType, it.Next(), "")
			sort.Strings(kw.leaves)
			for _, l := range kw.leaves {
				w.leaves = append(w.leaves, path+"{key}"+l)
			}
			if it.Done() {
				w.leaves = append(w.leaves, path+"|!odd-map|")
				return
			}
			w.walk(t.ValType, it.Next(), path+"{"+strings.Join(kw.leaves, ";")+"}")
		}
		w.shape = append(w.shape, fmt.Sprintf("%s|len=%d", path, i))
	case *zed.TypeError:
		w.leaves = append(w.leaves, path+"|!error|"+format(zed.NewValue(typ, b)))
	default:
		w.leaves = append(w.leaves, leafString(path, typ, b))
	}
}

func equalStrings(a, b []string) bool {
	if len(a) != len(b) {
		return false
	}
	for i := range a {
		if a[i] != b[i] {
			return false
		}
	}
	return true
}

// diffStrings returns up to n elements that are in exactly one of the sorted lists.
func diffStrings(a, b []string, n int) (onlyA, onlyB []string) {
	i, j := 0, 0
	for i < len(a) || j < len(b) {
		switch {
		case j >= len(b) || (i < len(a) && a[i] < b[j]):
			if len(onlyA) < n {
				onlyA = append(onlyA, a[i])
			}
			i++
		case i >= len(a) || b[j] < a[i]:
			if len(onlyB) < n {
				onlyB = append(onlyB, b[j])
			}
			j++
		default:
			i++
			j++
		}
	}
	return
}

// duplicateUnionMember reports whether typ contains a union that lists the
// same type twice (not a type of the Zed data model, docs/formats/zed.md 2.5).
func duplicateUnionMember(typ zed.Type) bool {
	switch t := typ.(type) {
	case *zed.TypeNamed:
		return duplicateUnionMember(t.Type)
	case *zed.TypeRecord:
		for _, f := range t.Fields {
			if duplicateUnionMember(f.Type) {
				return true
			}
		}
	case *zed.TypeArray:
		return duplicateUnionMember(t.Type)
	case *zed.TypeSet:
		return duplicateUnionMember(t.Type)
	case *zed.TypeMap:
		return duplicateUnionMember(t.KeyType) || duplicateUnionMember(t.ValType)
	case *zed.TypeError:
		return duplicateUnionMember(t.Type)
	case *zed.TypeUnion:
		for i, m := range t.Types {
			for _, o := range t.Types[:i] {
				if m == o {
					return true
				}
			}
			if duplicateUnionMember(m) {
				return true
			}
		}
		return len(t.Types) < 2
	}
	return false
}

func kindName(typ zed.Type) string {
	switch zed.TypeUnder(typ).(type) {
	case *zed.TypeRecord:
		return "record"
	case *zed.TypeArray:
		return "array"
	case *zed.TypeSet:
		return "set"
	case *zed.TypeMap:
		return "map"
	case *zed.TypeUnion:
		return "union"
	case *zed.TypeError:
		return "error"
	case *zed.TypeEnum:
		return "enum"
	}
	return "primitive"
}

// misfit names the first place where a value of type in has no ready-made
// home in the fused type out; "" if every part of in has one (then shaping
// only needs field filling/ordering, exact casts into union members and
// element-wise recursion).  It only serves to give violations a specific
// signature; it decides nothing.
func misfit(in, out zed.Type) string {
	inU, outU := zed.TypeUnder(in), zed.TypeUnder(out)
	if inU == outU || inU == zed.TypeNull {
		return ""
	}
	if u, ok := inU.(*zed.TypeUnion); ok {
		for _, m := range u.Types {
			if s := misfit(m, out); s != "" {
				return s
			}
		}
		return ""
	}
	if u, ok := outU.(*zed.TypeUnion); ok {
		sameKind := false
		for _, m := range u.Types {
			if zed.TypeUnder(m) == inU {
				return ""
			}
			if k := kindName(m); k != "primitive" && (k == kindName(in) || k == "array" && kindName(in) == "set") {
				sameKind = true
			}
		}
		if sameKind {
			return "no-exact-union-member"
		}
		return "no-union-member:" + kindName(in)
	}
	switch inT := inU.(type) {
	case *zed.TypeRecord:
		if outT, ok := outU.(*zed.TypeRecord); ok {
			for _, f := range inT.Fields {
				ot, ok := outT.TypeOfField(f.Name)
				if !ok {
					return "field-missing"
				}
				if s := misfit(f.Type, ot); s != "" {
					return s
				}
			}
			return ""
		}
	case *zed.TypeArray:
		if outT, ok := outU.(*zed.TypeArray); ok {
			return misfit(inT.Type, outT.Type)
		}
	case *zed.TypeSet:
		if oi := zed.InnerType(outU); oi != nil {
			return misfit(inT.Type, oi)
		}
	case *zed.TypeMap:
		if _, ok := outU.(*zed.TypeMap); ok {
			return "map"
		}
	}
	return kindName(in) + "->" + kindName(out)
}
