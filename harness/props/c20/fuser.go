package main

import (
	"fmt"
	"strings"

	zed "github.com/brimdata/super"
	"github.com/brimdata/super/runtime/sam/op/fuse"
	"github.com/brimdata/super/zcode"
	"github.com/brimdata/super/zson"
)

// fuserItem is one input value of the Fuser state machine of FuseMerge.tla:
// a type, the exact length of its zcode bytes and whether it is null.
type fuserItem struct {
	T    term `json:"t"`
	Sz   int  `json:"sz"`
	Null bool `json:"null"`
}

// fuserCase is one line of spill.ndjson.
type fuserCase struct {
	Input   []fuserItem `json:"input"`
	Mem     int         `json:"mem"`
	SpillAt int         `json:"spillAt"` // 1-based index of the Write that spills, 0 = never, -1 = unknown (replay)
	Fused   term        `json:"fused"`
	Outs    []term      `json:"outs"`
}

func (fc *fuserCase) key() string {
	var s []string
	for _, it := range fc.Input {
		n := ""
		if it.Null {
			n = "null"
		}
		s = append(s, fmt.Sprintf("%s/%d%s", it.T.String(), it.Sz, n))
	}
	return fmt.Sprintf("mem=%d %s", fc.Mem, strings.Join(s, " "))
}

// sizedValue builds a value of the (flat record) type typ whose zcode bytes
// are exactly sz long; leaves are made distinct with salt where the size allows.
func sizedValue(typ zed.Type, sz, salt int) (zed.Value, error) {
	rec := zed.TypeRecordOf(typ)
	if rec == nil {
		return zed.Null, fmt.Errorf("sizedValue: %s is not a record", zson.FormatType(typ))
	}
	candidates := func(t zed.Type) []zcode.Bytes {
		var out []zcode.Bytes
		switch t {
		case zed.TypeInt64:
			for _, n := range []int64{int64(salt%100 + 1), int64(salt%30000 + 200), int64(salt + 70000), int64(salt + 20000000)} {
				out = append(out, zed.EncodeInt(n))
			}
		case zed.TypeString:
			for l := sz; l >= 0; l-- {
				s := fmt.Sprintf("%d", salt)
				for len(s) < l {
					s += "x"
				}
				out = append(out, zed.EncodeString(s[:l]))
			}
		}
		return out
	}
	var build func(fi int, body zcode.Bytes) (zcode.Bytes, bool)
	build = func(fi int, body zcode.Bytes) (zcode.Bytes, bool) {
		if fi == len(rec.Fields) {
			return body, len(body) == sz
		}
		for _, cand := range candidates(rec.Fields[fi].Type) {
			nb := zcode.Append(append(zcode.Bytes{}, body...), cand)
			if len(nb) > sz {
				continue
			}
			if r, ok := build(fi+1, nb); ok {
				return r, true
			}
		}
		return nil, false
	}
	body, ok := build(0, zcode.Bytes{})
	if !ok {
		return zed.Null, fmt.Errorf("sizedValue: cannot build a %s of %d bytes", zson.FormatType(typ), sz)
	}
	return zed.NewValue(typ, body), nil
}

// checkFuserSafe is checkFuser with a panic of the Fuser (called on this goroutine) reported as a crash.
func (e *env) checkFuserSafe(fc *fuserCase, seed int64) (err error) {
	defer func() {
		if p := recover(); p != nil {
			e.c.Violate("crash:fuser", fmt.Sprintf("fuse.Fuser panics on %s: %v", fc.key(), p),
				witness{Kind: "fuser", Input: fc.Input, Mem: fc.Mem, Seed: seed})
			err = nil
		}
	}()
	return e.checkFuser(fc, seed)
}

// checkFuser replays one Fuser case on fuse.NewFuser: Write every value
// (the hook tells during which Write the spill file is created), then Read
// everything back, and compares with the spec (spill point, output types) and
// with the property (one output per input, in order, one type, lossless).
func (e *env) checkFuser(fc *fuserCase, seed int64) error {
	c := e.c
	zctx := zed.NewContext()
	var ins []input
	for i, it := range fc.Input {
		typ, err := toType(zctx, &it.T)
		if err != nil {
			return err
		}
		var v zed.Value
		if it.Null {
			v = zed.NewValue(typ, nil)
		} else if v, err = sizedValue(typ, it.Sz, int(seed%7)*10+i); err != nil {
			return err
		}
		if len(v.Bytes()) != it.Sz {
			return fmt.Errorf("harness: value %s has %d bytes, want %d", format(v), len(v.Bytes()), it.Sz)
		}
		leaves, _ := leavesOf(v)
		ins = append(ins, input{val: v, typeIx: i, leaves: leaves})
	}
	f := fuse.NewFuser(zctx, fc.Mem)
	defer f.Close()
	spillAt := 0
	for i := range ins {
		before := e.spills.Load()
		if err := f.Write(ins[i].val); err != nil {
			return fmt.Errorf("Fuser.Write: %w", err)
		}
		if d := e.spills.Load() - before; d > 0 {
			if spillAt != 0 || d > 1 {
				c.Drift("fuser %s: spill hook fired more than once", fc.key())
			}
			spillAt = i + 1
		}
	}
	o := &observation{}
	for {
		v, err := f.Read()
		if err != nil {
			return fmt.Errorf("Fuser.Read: %w", err)
		}
		if v == nil {
			break
		}
		o.outs = append(o.outs, v.Copy())
	}
	w := witness{Kind: "fuser", Input: fc.Input, Mem: fc.Mem, Seed: seed}
	// The Fuser has no aggregate to compare with; the reference type is the
	// type of the first output that is not an error (uniformity is judged against it).
	for i := range o.outs {
		if !o.outs[i].IsError() || i == len(o.outs)-1 {
			o.aggType = o.outs[i].Type()
			break
		}
	}
	c.Eval("fuser|"+fc.key(), spillAt > 0 && len(ins) > 1)
	if spillAt > 0 {
		c.Add("spilled_runs", 1)
	}
	var inTypes []zed.Type
	for i := range ins {
		inTypes = append(inTypes, ins[i].val.Type())
	}
	if o.aggType == nil {
		if len(ins) > 0 {
			c.Violate("count", fmt.Sprintf("Fuser returned no values for %d written values (%s)", len(ins), fc.key()), w)
		}
		return nil
	}
	r := &report{}
	e.oracle(r, ins, inTypes, o, w)
	r.flush(c)
	if fc.SpillAt < 0 {
		fmt.Printf("fuser %s: spill at write %d\ninput:  %s\noutput: %s\n", fc.key(), spillAt, strings.Join(formatInputs(ins), " "), strings.Join(formatAll(o.outs), " "))
		return nil
	}
	// binding
	ok := true
	if spillAt != fc.SpillAt {
		ok = false
		c.Drift("fuser %s: spec says the spill file is created during write %d, real: %d", fc.key(), fc.SpillAt, spillAt)
	}
	predFused, err := toType(zctx, &fc.Fused)
	if err != nil {
		return err
	}
	if len(o.outs) == len(fc.Outs) {
		for i := range o.outs {
			pred, err := toType(zctx, &fc.Outs[i])
			if err != nil {
				return err
			}
			if o.outs[i].Type() != pred || pred != predFused {
				ok = false
				c.Drift("fuser %s: output %d: spec %s (fused %s), real %s", fc.key(), i, fc.Outs[i].String(), fc.Fused.String(), zson.FormatType(o.outs[i].Type()))
			}
		}
	}
	if ok {
		c.Add("predictions_confirmed", 1)
	}
	if c.Count("evaluations")%2500 == 0 {
		c.Sample(map[string]any{"fuser_case": fc.key(), "spec_spill_at_write": fc.SpillAt, "real_spill_at_write": spillAt,
			"inputs": formatInputs(ins), "outputs": formatAll(o.outs)})
	}
	return nil
}
