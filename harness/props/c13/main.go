// C13 -- a commit is an immutable snapshot; readers are isolated from writers.
//
// (1) History part: every history TLC generates from specs/LakeAbs.tla (all
// operation kinds, several branches; action property Immutable in the model) is
// replayed on the real lake and after EVERY step every commit created so far is
// re-read with a cold handle (`from pool@<commit>`) and compared with the data
// the model recorded when the commit was created -- until its objects are
// vacuumed.
//
// (2) Schedule part: specs/Journal.tla with "scan" operations (ReadHead pins
// the commit; the data is read in a later step) interleaved with writers that
// compact, delete and load.  TLC checks ReadYourAck and exports every schedule;
// each is replayed on real handles through the storage gate: the real query is
// compiled (commit pinned), parked while the writers' storage operations are
// granted, then drained; its result must be exactly the data of the commit the
// spec says it pinned, read back cold after the run.
package main

import (
	"context"
	"fmt"
	"sort"

	"github.com/brimdata/super/api"
	"github.com/segmentio/ksuid"

	"verif/core"
	"verif/jrun"
	"verif/lakeh"
)

var histOps = []string{"load", "delete", "deletewhere", "compact", "addvec", "branch", "merge", "revert", "vacuum"}

func histModels(c *core.Ctx) []*lakeh.AbsModel {
	base := lakeh.AbsModel{
		KeyOf: []int{1, 2, 1, 9}, NullKey: 9,
		Batches:  [][]int{{1, 2}, {3, 4}},
		Preds:    [][]int{{1}, {2, 9}},
		Branches: []string{"main", "b1"}, OpKinds: histOps,
		Invariants: []string{"TypeOK", "Replayable", "ContentsEqualLive", "FailedUntouched"},
		Properties: []string{"Immutable"},
	}
	mut := []string{"delete", "deletewhere", "compact", "load", "revert", "vacuum", "merge", "addvec"}
	var out []*lakeh.AbsModel
	a := base
	a.Name, a.ObjMode, a.Dir, a.MaxOps = "c13_rewrite", "single", "asc", 4
	a.Branches = []string{"main"}
	a.Shape = [][]string{{"load"}, {"load", "delete", "deletewhere", "compact"}, mut, mut}
	out = append(out, &a)
	b := base
	b.Name, b.ObjMode, b.Dir, b.MaxOps = "c13_branches", "all", "desc", 5
	b.Shape = [][]string{{"load"}, {"branch"}, {"load", "delete", "deletewhere"}, {"merge", "load", "revert"}, {"revert", "merge", "vacuum", "delete"}}
	out = append(out, &b)
	if !c.Quick() {
		d := base
		d.Name, d.ObjMode, d.Dir, d.MaxOps = "c13_free4", "single", "asc", 4
		out = append(out, &d)
	}
	return out
}

type hWitness struct {
	Model   *lakeh.AbsModel `json:"model"`
	History lakeh.History   `json:"history"`
	Issue   lakeh.Issue     `json:"issue"`
	Handles int             `json:"handles,omitempty"`
}

func histReport(c *core.Ctx, m *lakeh.AbsModel) func(h lakeh.History, upto int, is lakeh.Issue) {
	return histReportW(c, m, 0)
}

// histReportW: with long-lived handles a branch read that does not show the
// model's contents is a reader seeing something else than the acknowledged state.
func histReportW(c *core.Ctx, m *lakeh.AbsModel, handles int) func(h lakeh.History, upto int, is lakeh.Issue) {
	return func(h lakeh.History, upto int, is lakeh.Issue) {
		hh := append(lakeh.History(nil), h[:upto]...)
		if handles > 0 && (is.Kind == lakeh.KContents || is.Kind == lakeh.KUnreadable) {
			c.Violate("handle-view:"+is.Kind+":"+hh[len(hh)-1].Op, fmt.Sprintf("%s [%d long-lived handles; history: %s]", is.Detail, handles, hh),
				hWitness{Model: m, History: hh, Issue: is, Handles: handles})
			return
		}
		if is.Kind == lakeh.KCommit {
			c.Violate("commit-data:"+hh[len(hh)-1].Op, fmt.Sprintf("%s [history: %s]", is.Detail, hh), hWitness{Model: m, History: hh, Issue: is, Handles: handles})
			return
		}
		c.Drift("(%s is claimed by C14/C15) %s: %s", is.Kind, is.Detail, hh)
	}
}

func scan(b string) lakeh.JOp { return lakeh.JOp{K: "scan", Key: b} }
func load(b string) lakeh.JOp { return lakeh.JOp{K: "load", Key: b} }
func rewrite(arg string) lakeh.JOp {
	return lakeh.JOp{K: "tip", Key: "main", Arg: arg} // "compact": compacts objects 1,2; "delete": deletes object 3
}

var schedInv = []string{"TypeOK", "HeadHint", "NotStuck", "ChainOK", "AckedOnce", "NoOrphanOnFail", "AckedCommitStored", "SingleChain", "ReadYourAck"}

func schedScenarios(c *core.Ctx) []*lakeh.JScenario {
	mk := func(name string, pb int, script ...[]lakeh.JOp) *lakeh.JScenario {
		return &lakeh.JScenario{Name: name, Journal: "branches", Script: script, Init: map[string]int{"main": 0}, MaxRetries: 10, MaxCommitRetries: 10,
			PreemptBound: pb, MoveChecksID: true, Invariants: schedInv}
	}
	if c.Quick() {
		return []*lakeh.JScenario{
			mk("reader_vs_rewriters", 2, []lakeh.JOp{scan("main")}, []lakeh.JOp{rewrite("compact")}, []lakeh.JOp{rewrite("delete")}),
			mk("read_your_ack", 2, []lakeh.JOp{rewrite("delete"), scan("main")}, []lakeh.JOp{scan("main"), load("main"), scan("main")}),
		}
	}
	return []*lakeh.JScenario{
		mk("reader_vs_rewriters", 4, []lakeh.JOp{scan("main")}, []lakeh.JOp{rewrite("compact")}, []lakeh.JOp{rewrite("delete")}),
		mk("read_your_ack", 4, []lakeh.JOp{rewrite("delete"), scan("main")}, []lakeh.JOp{scan("main"), load("main"), scan("main")}),
		mk("two_readers_two_writers", 3, []lakeh.JOp{scan("main"), scan("main")}, []lakeh.JOp{rewrite("compact"), load("main")}, []lakeh.JOp{scan("main")}),
	}
}

type fixtureObjs struct{ o []ksuid.KSUID }

func run(c *core.Ctx) error {
	ctx := context.Background()
	c.Rule("cases = (1) operation histories generated by TLC from LakeAbs.tla, every distinct prefix replayed once with all earlier commits re-read after each step; (2) complete schedules of readers and rewriting writers exported by TLC from Journal.tla and replayed through the storage gate; non-trivial = the history has >= 2 commits / the schedule parks a compiled query while a writer commits")
	c.Trust("TLC 1.8.0; in-memory storage engine; storage gate; uid projection of query results")
	c.Assume("vacuumed commits are excluded as the property says; a parked query holds its compiled plan (commit pinned at compile time) and reads all data when resumed (interleavings between individual pulls are not enumerated)")
	if c.Replay != "" {
		var w struct {
			hWitness
			Scenario *lakeh.JScenario `json:"scenario"`
			Sched    []lakeh.GateStep `json:"sched"`
		}
		if _, err := c.ReplayWitness(&w); err != nil {
			return err
		}
		if w.Scenario == nil {
			rp := &lakeh.Replayer{C: c, M: w.Model, Ctx: ctx, CheckCommits: true, Warm: w.Handles > 0, WarmHandles: w.Handles, OnIssue: histReportW(c, w.Model, w.Handles)}
			return rp.ReplayAll([]lakeh.History{w.History})
		}
		return schedOne(c, ctx, w.Scenario, &lakeh.JBehaviour{Sched: w.Sched}, true)
	}
	// ---- (1) histories
	for _, m := range histModels(c) {
		hs, res := lakeh.GenHistories(c, m, "", 8)
		if res == nil {
			return nil
		}
		limit := 80
		if !c.Quick() {
			limit = 3000
		}
		sub := lakeh.Sub(hs, limit, c.Seed)
		c.Logf("%s: TLC %d states (Immutable holds in the model), %d histories, replaying %d", m.Name, res.Distinct, len(hs), len(sub))
		rp := &lakeh.Replayer{C: c, M: m, Ctx: ctx, CheckCommits: true, OnIssue: histReport(c, m)}
		if err := rp.ReplayAll(sub); err != nil {
			return err
		}
		c.Add("traces_validated_against_impl", int64(len(sub)))
		c.Add("replayed_steps", rp.Steps)
		if len(sub) > 0 {
			c.Sample(map[string]any{"model": m.Name, "history": sub[len(sub)/2].String()})
		}
	}
	// ---- (1b) the same through two long-lived handles: the handle that applies a step is
	// chosen per step; the other handle (caches filled before the step) reads first
	{
		m := lakeh.WarmModel(c.Quick())
		m.Name = "c13_two_handles"
		m.Properties = []string{"Immutable"}
		hs, res := lakeh.GenHistories(c, m, "", 8)
		if res == nil {
			return nil
		}
		if c.Quick() {
			hs = lakeh.Sub(hs, 120, c.Seed)
		} else {
			hs = lakeh.Sub(hs, 1200, c.Seed)
		}
		rp := &lakeh.Replayer{C: c, M: m, Ctx: ctx, CheckCommits: true, Warm: true, WarmHandles: 2, OnIssue: histReportW(c, m, 2)}
		if err := rp.ReplayAll(hs); err != nil {
			return err
		}
		c.Add("traces_validated_against_impl", int64(len(hs)))
		c.Add("replayed_steps", rp.Steps)
		c.Logf("%s: TLC %d states, %d histories replayed through two long-lived handles, %d steps", m.Name, res.Distinct, len(hs), rp.Steps)
	}
	// ---- (2) schedules
	for _, sc := range schedScenarios(c) {
		if err := mkRunner(c, ctx).Calibrate(sc); err != nil {
			return err
		}
		bhs, res := sc.Run(c, true, false, 8)
		if res == nil {
			return nil
		}
		limit := 100
		if !c.Quick() {
			limit = 4000
		}
		if len(bhs) > limit {
			step := len(bhs) / limit
			var sub []lakeh.JBehaviour
			for i := int(c.Seed) % step; i < len(bhs) && len(sub) < limit; i += step {
				sub = append(sub, bhs[i])
			}
			bhs = sub
		}
		c.Logf("%s: TLC %d distinct states (ReadYourAck holds); replaying %d schedules", sc.Name, res.Distinct, len(bhs))
		for i := range bhs {
			if err := schedOne(c, ctx, sc, &bhs[i], false); err != nil {
				return err
			}
			if i == len(bhs)/2 {
				c.Sample(map[string]any{"scenario": sc.Name, "schedule": lakeh.SchedKey(bhs[i].Sched), "spec_responses": bhs[i].Resp})
			}
		}
	}
	return nil
}

func mkRunner(c *core.Ctx, ctx context.Context) *jrun.Runner {
	fx := &fixtureObjs{}
	r := &jrun.Runner{C: c, Ctx: ctx, Thresh: 1, SkipTipData: true}
	r.Setup = func(ctx context.Context, lk *lakeh.Lake, pool ksuid.KSUID) error {
		if _, err := lk.LoadZSON(ctx, pool, "main", "{k:1,u:1}\n{k:2,u:2}\n{k:3,u:3}\n{k:4,u:4}"); err != nil {
			return err
		}
		objs, err := lk.Objects(ctx, "p", "main")
		if err != nil || len(objs) != 4 {
			return fmt.Errorf("fixture: %d objects %v", len(objs), err)
		}
		sort.Slice(objs, func(i, j int) bool { return objs[i].Min < objs[j].Min })
		fx.o = nil
		for _, o := range objs {
			id, _ := ksuid.Parse(o.ID)
			fx.o = append(fx.o, id)
		}
		return nil
	}
	// writers rewrite and remove data
	r.Tip = func(ctx context.Context, lk *lakeh.Lake, pool ksuid.KSUID, cl, k int, op lakeh.JOp) (ksuid.KSUID, error) {
		switch op.Arg {
		case "compact":
			return lk.API.Compact(ctx, pool, op.Key, []ksuid.KSUID{fx.o[0], fx.o[1]}, false, jmsg())
		case "delete":
			return lk.API.Delete(ctx, pool, op.Key, []ksuid.KSUID{fx.o[2]}, jmsg())
		}
		return ksuid.Nil, fmt.Errorf("unknown tip realization %q", op.Arg)
	}
	return r
}

func schedOne(c *core.Ctx, ctx context.Context, sc *lakeh.JScenario, bh *lakeh.JBehaviour, replay bool) error {
	r := mkRunner(c, ctx)
	var want *lakeh.JBehaviour
	if !replay {
		want = bh
	}
	results, fails, drift, err := r.Execute(sc, bh.Sched, want)
	if err != nil {
		return fmt.Errorf("%s schedule %s: %w", sc.Name, lakeh.SchedKey(bh.Sched), err)
	}
	parked := false
	for i, s := range bh.Sched {
		if s.Lbl == "fin" && i > 0 && bh.Sched[i-1].C != s.C {
			parked = true
		}
	}
	c.Eval(sc.Name+"|"+lakeh.SchedKey(bh.Sched), parked)
	// Model-free oracle (sound whatever the schedule did): a query that starts after an
	// operation was acknowledged reflects it; a query that finished before an operation
	// started does not.  Value u=3 lives in the object that "delete" removes.
	for _, q := range results {
		if q.Op.K != "scan" || q.Res != "ok" {
			continue
		}
		has := map[int]bool{}
		for _, u := range q.Rows {
			has[u] = true
		}
		for _, t := range results {
			if t.Res != "ok" || t.Crashed() {
				continue
			}
			var visible, isWrite bool
			switch {
			case t.Op.K == "load":
				visible, isWrite = has[t.UID], true
			case t.Op.K == "tip" && t.Op.Arg == "delete":
				visible, isWrite = !has[3], true
			}
			if !isWrite {
				continue
			}
			if t.T1 < q.T0 && !visible {
				c.Violate("read-your-ack:"+sc.Name, fmt.Sprintf("a query of client %d started after client %d's %s %s had been acknowledged but does not see it (query returned %v) [schedule %s]", q.C, t.C, t.Op.K, t.Op.Arg, q.Rows, lakeh.SchedKey(bh.Sched)),
					map[string]any{"scenario": sc, "sched": bh.Sched, "results": results})
			}
			if q.T1 < t.T0 && visible {
				c.Violate("reads-the-future:"+sc.Name, fmt.Sprintf("a query of client %d finished before client %d's %s %s started but reflects it (query returned %v) [schedule %s]", q.C, t.C, t.Op.K, t.Op.Arg, q.Rows, lakeh.SchedKey(bh.Sched)),
					map[string]any{"scenario": sc, "sched": bh.Sched, "results": results})
			}
		}
	}
	if drift != "" {
		c.Drift("%s schedule %s: %s", sc.Name, lakeh.SchedKey(bh.Sched), drift)
		return nil
	}
	c.Add("traces_validated_against_impl", 1)
	_ = fails // journal-level oracles are C12's claim
	// map spec commit ids to real ones
	real := map[int]string{0: r.MainTip}
	for _, w := range bh.Resp {
		if (w.Op.K == "tip" || w.Op.K == "load") && w.Res == "ok" {
			for _, g := range results {
				if g.C == w.C && g.I == w.I && g.Res == "ok" {
					real[w.Val] = g.ID
				}
			}
		}
	}
	for _, w := range bh.Resp {
		if w.Op.K != "scan" || w.Res != "ok" {
			continue
		}
		for _, g := range results {
			if g.C != w.C || g.I != w.I {
				continue
			}
			if g.Res != "ok" {
				c.Violate("isolation:query-failed:"+sc.Name, fmt.Sprintf("a query compiled against commit %d failed after writers committed: %s [schedule %s]", w.Val, g.Err, lakeh.SchedKey(bh.Sched)),
					map[string]any{"scenario": sc, "sched": bh.Sched, "results": results})
				continue
			}
			exp, ok := r.CommitData[real[w.Val]]
			if !ok {
				c.Drift("%s: no data for pinned commit %d", sc.Name, w.Val)
				continue
			}
			if fmt.Sprint(g.Rows) != fmt.Sprint(exp) {
				c.Violate("isolation:"+sc.Name, fmt.Sprintf("a query that pinned commit c%d returned values %v but that commit holds %v [schedule %s]", w.Val, g.Rows, exp, lakeh.SchedKey(bh.Sched)),
					map[string]any{"scenario": sc, "sched": bh.Sched, "results": results})
			}
		}
	}
	return nil
}

func main() { core.Main("C13", "model_checking", run) }

func jmsg() api.CommitMessage { return api.CommitMessage{Author: "verif"} }
