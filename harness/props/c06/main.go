package main

import (
	"fmt"
	"math/rand"
	"os"
	"time"

	zed "github.com/brimdata/super"

	"verif/core"
)

func main() { core.Main("C06", "model_checking", run) }

func run(c *core.Ctx) error {
	u := newUniverse(zed.NewContext())
	t0 := time.Now()
	r := recordRelation(u)
	if err := r.recordCompareFn(c); err != nil {
		return err
	}
	r.genSamples(rand.New(rand.NewSource(c.Seed)), 60)
	fmt.Println("universe", len(u.vals), "samples", len(r.samples), time.Since(t0), c.Count("compare_fn_compiled_differs"))
	for k, v := range r.dataFiles() {
		os.WriteFile("/var/tmp/c06/"+k, v, 0o644)
	}
	return nil
}
