// C06 -- value ordering is a total preorder; sort and merge honour it at any
// memory limit.
//
//  1. Order.tla (code -> spec): the REAL comparator (expr.NewValueCompareFn, all
//     four asc/desc x nullsMax/nullsMin configurations), the real compare()
//     function (function object and compiled query) and the real bulk sorter
//     (Comparator.SortStable, native int64 path included) are recorded over a
//     curated universe of boundary values and handed to TLC, which decides the
//     total-preorder axioms over ALL triples and the bulk-sort agreement, and
//     prints every broken instance; each is re-run on the real code and reported.
//  2. SortSpill.tla (spec -> code): TLC proves output = stable sort for all small
//     inputs, batchings and memory limits and prints every behaviour; each is
//     replayed on the real `sort` operator (compiled query, exact batches,
//     sort.MemMaxBytes lowered, spill hook observed) with payloads drawn from the
//     universe; oracle: permutation, sorted under the real comparator, stable,
//     nulls placement, identical across memory limits.
//  3. MergeOp.tla (spec -> code): TLC proves the merge of sorted parents sorted
//     and complete for all small inputs and all heap tie choices and prints the
//     behaviours; the real merge.Op is run on every input and its batch sequence
//     must be one of the spec's behaviours; oracle: sorted, complete, per-parent
//     order kept.
package main

import (
	"context"
	"encoding/json"
	"fmt"
	"math/rand"
	"os"
	"os/exec"
	"regexp"
	"sort"
	"strings"
	"time"

	zed "github.com/brimdata/super"
	"github.com/brimdata/super/order"
	"github.com/brimdata/super/pkg/field"
	"github.com/brimdata/super/runtime/sam/expr/function"
	sortop "github.com/brimdata/super/runtime/sam/op/sort"
	"github.com/brimdata/super/zbuf"
	"github.com/brimdata/super/zson"

	"verif/core"
	"verif/flowh"
)

func main() {
	if os.Getenv("VERIF_C06_CRASHPROBE") != "" {
		crashProbeChild()
		return
	}
	core.Main("C06", "model_checking", run)
}

// crashProbeChild runs, in a child process, the variant of finding F-C06-2 that
// kills the process: record types with DIFFERENT numbers of fields.  The stale
// per-type-id field index of expr.DotExpr is then out of range for the record
// type that has the same id in the spill's private context, and DotExpr.Eval
// panics inside heap.Push (MergeSort.Less) of the second spill.
func crashProbeChild() {
	zctx := zed.NewContext()
	var batches [][]zed.Value
	for i := 0; i < 3; i++ {
		a, err := zson.ParseValue(zctx, fmt.Sprintf(`{pad:"x",id:%d,k:%d}`, 2*i+1, 5-i))
		if err != nil {
			panic(err)
		}
		b, err := zson.ParseValue(zctx, fmt.Sprintf(`{id:%d,pad:"y"}`, 2*i+2))
		if err != nil {
			panic(err)
		}
		batches = append(batches, []zed.Value{a.Copy(), b.Copy()})
	}
	sortop.MemMaxBytes = 1
	res := flowh.RunReaders(context.Background(), "sort -nulls first k", flowh.Opts{Zctx: zctx}, zctx, &batchReader{batches: batches})
	fmt.Printf("ROWS %s ERR %v\n", strings.Join(res.Rows, " "), res.Err)
}

// crashProbe reports the crash variant of F-C06-2 (see crashProbeChild).
func crashProbe(c *core.Ctx) {
	cmd := exec.Command(os.Args[0])
	cmd.Env = append(os.Environ(), "VERIF_C06_CRASHPROBE=1")
	out, err := cmd.CombinedOutput()
	c.Eval("sort-crashprobe", true)
	const want = `ROWS {id:2,pad:"y"} {id:4,pad:"y"} {id:6,pad:"y"} {pad:"x",id:5,k:3} {pad:"x",id:3,k:4} {pad:"x",id:1,k:5} ERR <nil>`
	w := map[string]any{"kind": "crashprobe", "program": "sort -nulls first k", "mem_max_bytes": 1,
		"batches": []string{`{pad:"x",id:1,k:5} {id:2,pad:"y"}`, `{pad:"x",id:3,k:4} {id:4,pad:"y"}`, `{pad:"x",id:5,k:3} {id:6,pad:"y"}`}}
	switch {
	case err != nil && strings.Contains(string(out), "index out of range"):
		c.Add("f2_crash_variant_reproduced", 1)
		c.Violate(sigF2, "`sort -nulls first k` with three spilled runs over records {pad,id,k} / {id,pad} panics (index out of range in expr.DotExpr.Eval under spill.MergeSort.Less): the process crashes", w)
	case err != nil:
		tail := string(out)
		if len(tail) > 600 {
			tail = tail[len(tail)-600:]
		}
		c.Inconclusive("crash probe child failed unexpectedly: %v: %s", err, tail)
	case !strings.Contains(string(out), want):
		c.Violate(sigF2, "`sort -nulls first k` with three spilled runs over records {pad,id,k} / {id,pad} returns a wrong order: "+strings.TrimSpace(string(out)), w)
	}
}

const sigF1 = "preorder-not-transitive:int~float~int:above-2^53"
const sigF2 = "sort-spill-differs:key-field-index-varies-by-record-type"

// pullerBatch is zbuf.PullerBatchValues for this process (PB of MergeOp.tla).
const pullerBatch = 2

func run(c *core.Ctx) error {
	// Must happen before any zbuf puller batch is allocated (they are pooled by capacity).
	zbuf.PullerBatchValues = pullerBatch
	u := newUniverse(zed.NewContext())
	c.Trust("TLC 1.8.0 and the CommunityModules Json/SequencesExt operators; the harness' rendering of the recorded relation; zson formatting (values are compared by their ZSON text); spill.MergeSort.Spill hook for counting runs")
	c.Assume(fmt.Sprintf("axioms are decided over a fixed universe of %d boundary values (ints/uints around 2^53, 2^63 and the type limits, duration/time, float16/32/64 incl. NaN, +-Inf, +-0, strings, bytes, ip, net, type values, nulls of each type, missing, errors, arrays, sets, maps, records, unions, named, enums); sort/merge inputs are exhaustive only within the TLC bounds stated in the cfg files, larger inputs are seeded samples", len(u.vals)))
	c.Rule("cases = (a) every ordered triple of the universe under each of the 4 comparator configurations, decided by TLC on the relation recorded from the real comparator (one evaluation per recorded pair/sample); (b) every behaviour printed by TLC from SortSpill.tla (all key sequences x batchings x memory limits within the bounds, plus seeded larger inputs), replayed on the real sort operator with a seeded sort spec (1-3 keys, asc/desc, -r, -nulls first) and payload; (c) every input of MergeOp.tla replayed on the real merge.Op. Distinct = distinct (input, batching, limit, sort spec, key family); non-trivial = sort case that spilled or has equal keys, merge case with >= 2 parents and >= 2 values, bulk sample, comparator pair")
	if c.Replay != "" {
		return replay(c, u)
	}
	// spill files on tmpfs when available (the default TMPDIR is the on-disk scratch dir)
	if d, err := os.MkdirTemp("/dev/shm", "verif-C06-"); err == nil {
		os.Setenv("TMPDIR", d)
		defer os.RemoveAll(d)
	}
	// VERIF_C06_PHASES (development aid): comma-separated subset of order,sort,merge.
	// VERIF_C06_CORRUPT (binding self-test): cmp | bulk | sortcase | mergeout corrupts one
	// recorded / predicted value; the conformance step must then reject (exit 2 or DRIFT).
	phases := os.Getenv("VERIF_C06_PHASES")
	on := func(p string) bool { return phases == "" || strings.Contains(phases, p) }
	// All TLC runs are independent of each other and of the Go-side replays, so they
	// are started together (the JVM start and the three model-checking runs overlap).
	t0 := time.Now()
	var rel *orderRel
	var orderCh, sortCh, sortMutCh, mergeCh, mergeMutCh chan tlcOut
	quick := c.Quick()
	tier := map[bool]string{true: "quick", false: "thorough"}[quick]
	if on("order") {
		var err error
		if rel, err = prepareOrder(c, u); err != nil {
			return err
		}
		orderCh = async(c, core.TLCRun{Module: "Order", Cfg: "Order." + tier + ".cfg", Files: rel.dataFiles(), Workers: 8, Coverage: true, Timeout: 18 * time.Minute})
	} else {
		rel = recordRelation(u)
	}
	var sortInputs []byte
	if on("sort") {
		nSampled, maxN, maxB := 150, 12, 6
		if !quick {
			nSampled, maxN, maxB = 1500, 16, 8
		}
		sortInputs, _ = json.Marshal(sampledInputs(rand.New(rand.NewSource(c.Seed+66)), nSampled, maxN, maxB, 3))
		sortCh = async(c, core.TLCRun{Module: "SortSpill", Cfg: "SortSpill." + tier + ".cfg", Files: map[string][]byte{"ss_inputs.json": sortInputs}, Workers: 6, Coverage: true, Timeout: 18 * time.Minute})
		sortMutCh = async(c, core.TLCRun{Module: "SortSpill", Cfg: "SortSpill.mut.cfg", Files: map[string][]byte{"ss_inputs.json": []byte("[]")}, Workers: 2, Timeout: 5 * time.Minute})
	}
	if on("merge") {
		mergeCh = async(c, core.TLCRun{Module: "MergeOp", Cfg: "MergeOp." + tier + ".cfg", Workers: 6, Coverage: true, Timeout: 18 * time.Minute})
		mergeMutCh = async(c, core.TLCRun{Module: "MergeOp", Cfg: "MergeOp.mut.cfg", Workers: 2, Timeout: 5 * time.Minute})
	}
	if on("order") {
		if err := orderPhase(c, u, rel, <-orderCh); err != nil {
			return err
		}
		c.Logf("order phase done at %.1fs", time.Since(t0).Seconds())
	}
	if on("sort") {
		if err := sortPhase(c, u, rel, <-sortCh, <-sortMutCh); err != nil {
			return err
		}
		c.Logf("sort phase done at %.1fs", time.Since(t0).Seconds())
	}
	if on("merge") {
		if err := mergePhase(c, u, <-mergeCh, <-mergeMutCh); err != nil {
			return err
		}
		c.Logf("merge phase done at %.1fs", time.Since(t0).Seconds())
	}
	if phases != "" {
		c.Inconclusive("partial run (VERIF_C06_PHASES=%s)", phases)
	}
	return nil
}

// ------------------------------------------------------------------ order

type tripleWitness struct {
	Kind  string `json:"kind"` // "triple"
	Axiom string `json:"axiom"`
	Cfg   string `json:"cfg"`
	A     string `json:"a"`
	B     string `json:"b"`
	C     string `json:"c,omitempty"`
	AB    int    `json:"cmp_ab"`
	BA    int    `json:"cmp_ba"`
	BC    int    `json:"cmp_bc"`
	AC    int    `json:"cmp_ac"`
}

type bulkWitness struct {
	Kind   string     `json:"kind"` // "bulk"
	Sample bulkSample `json:"sample"`
	Keys   []string   `json:"key_values"`
	Keys2  []string   `json:"key2_values,omitempty"`
	What   string     `json:"what"`
}

type tlcOut struct {
	res *core.TLCResult
	err error
}

func async(c *core.Ctx, r core.TLCRun) chan tlcOut {
	ch := make(chan tlcOut, 1)
	go func() {
		res, err := c.RunTLC(r)
		ch <- tlcOut{res, err}
	}()
	return ch
}

var zeroCovRE = regexp.MustCompile(`(?m)^<(\w+) line \d+, col \d+ to line \d+, col \d+ of module \w+>: 0:0$`)

// zeroCov lists the actions with zero coverage in TLC's FINAL coverage report
// (long runs also print interim reports, in which late actions are still 0).
func zeroCov(res *core.TLCResult) []string {
	out := res.Out
	if i := strings.LastIndex(out, "The coverage statistics at"); i >= 0 {
		out = out[i:]
	}
	var names []string
	for _, m := range zeroCovRE.FindAllStringSubmatch(out, -1) {
		names = append(names, m[1])
	}
	return names
}

// mustHold is core.MustHold for an already finished run.
func mustHold(c *core.Ctx, module string, o tlcOut) *core.TLCResult {
	if o.err != nil {
		c.Inconclusive("%v", o.err)
		return nil
	}
	if o.res.Status != "ok" {
		tail := o.res.Out
		if len(tail) > 4000 {
			tail = tail[len(tail)-4000:]
		}
		c.Inconclusive("TLC reports %s %s on %s (spec-level counterexample; not a verdict on the code)\n%s", o.res.Status, o.res.Violated, module, tail)
		return nil
	}
	return o.res
}

// prepareOrder records the relation from the real code.
func prepareOrder(c *core.Ctx, u *universe) (*orderRel, error) {
	rel := recordRelation(u)
	if err := rel.recordCompareFn(c); err != nil {
		return nil, err
	}
	perCfg := 60
	if !c.Quick() {
		perCfg = 600
	}
	rel.genSamples(rand.New(rand.NewSource(c.Seed+6)), perCfg)
	switch os.Getenv("VERIF_C06_CORRUPT") {
	case "cmp": // one recorded comparison result
		rel.cmp["am"][20][90] = -rel.cmp["am"][20][90]
	case "bulk": // one recorded SortStable output
		o := rel.samples[5].Out
		o[0], o[len(o)-1] = o[len(o)-1], o[0]
	}
	n := len(u.vals)
	for i := 0; i < n; i++ {
		for j := 0; j < n; j++ {
			c.Eval(fmt.Sprintf("pair|%d|%d", i, j), true)
		}
	}
	for i, s := range rel.samples {
		c.Eval(fmt.Sprintf("bulk|%d|%s|%s|%v|%v", i, s.Cfg, s.Cfg2, s.Keys, s.Keys2), true)
	}
	c.Set("universe_size", n)
	c.Set("bulk_samples", len(rel.samples))
	return rel, nil
}

// orderPhase reads TLC's verdict on the recorded relation.
func orderPhase(c *core.Ctx, u *universe, rel *orderRel, o tlcOut) error {
	if o.err != nil {
		return o.err
	}
	res := o.res
	n := len(u.vals)
	for _, a := range zeroCov(res) {
		if a == "PickA" || a == "PickS" || a == "Scan" {
			c.Inconclusive("Order.tla: action %s was never taken (vacuous run)", a)
		}
	}
	bad, err := parseBad(res.Prints)
	if err != nil {
		return err
	}
	if res.Status != "ok" && res.Status != "invariant" {
		c.Inconclusive("TLC reports %s %s on Order.tla", res.Status, res.Violated)
		return nil
	}
	c.Logf("Order.tla: %s, %d distinct states, %d broken axiom instances printed", res.Status, res.Distinct, len(bad))
	newCount := 0
	perSig := map[string]int{}
	f1sort := false
	for _, b := range bad {
		if b.Cfg == "bulk" {
			newCount++
			reportBulk(c, u, rel, b)
			continue
		}
		if b.A < 1 || b.A > n || b.B < 1 || b.B > n || b.C < 0 || b.C > n {
			return fmt.Errorf("TLC printed an out-of-range token: %+v", b)
		}
		va, vb := u.vals[b.A-1], u.vals[b.B-1]
		cmp := realCmp(b.Cfg)
		w := tripleWitness{Kind: "triple", Axiom: b.Axiom, Cfg: b.Cfg, A: va.ZSON, B: vb.ZSON,
			AB: sign(cmp(va.val, vb.val)), BA: sign(cmp(vb.val, va.val))}
		kinds := va.Kind + "," + vb.Kind
		var vc *uval
		if b.C > 0 {
			vc = u.vals[b.C-1]
			w.C = vc.ZSON
			w.BC = sign(cmp(vb.val, vc.val))
			w.AC = sign(cmp(va.val, vc.val))
			kinds += "," + vc.Kind
		}
		switch b.Class {
		case "drift":
			c.Drift("Order.tla %s: %s vs %s under %s", b.Axiom, va.ZSON, vb.ZSON, b.Cfg)
			continue
		case "F1":
			// confirm on the real code before reporting
			if !(w.AB == 0 && w.BC == 0 && w.AC != 0) {
				c.Inconclusive("TLC classified %+v as F1 but the real comparator does not confirm it", w)
				continue
			}
			if perSig[sigF1] < 40 {
				c.Violate(sigF1, fmt.Sprintf("compare(%s, %s) = 0 and compare(%s, %s) = 0 but compare(%s, %s) = %d: numbers of different kinds are compared through float64, so the induced equivalence is not transitive above 2^53", va.ZSON, vb.ZSON, vb.ZSON, vc.ZSON, va.ZSON, vc.ZSON, w.AC), w)
			}
			perSig[sigF1]++
			if !f1sort && w.AC > 0 { // a ~ b ~ c but a > c: [a, b, c] has no sorted and stable order
				f1sort = true
				sortLevelF1(c, u, va, vb, vc)
			}
			continue
		}
		newCount++
		sig := fmt.Sprintf("preorder:%s:%s:%s", b.Axiom, b.Cfg, kinds)
		if !confirmAxiom(b.Axiom, w) && !confirmPair(u, b.Axiom, b.Cfg, va, vb) {
			if perSig["unconfirmed"] < 5 {
				c.Inconclusive("TLC reports %s broken at %+v but re-evaluating the real code does not confirm it", b.Axiom, w)
			}
			perSig["unconfirmed"]++
			continue
		}
		if perSig[sig] < 5 {
			c.Violate(sig, describeAxiom(b.Axiom, w), w)
		}
		perSig[sig]++
	}
	c.Set("order_axiom_instances_broken_known", perSig[sigF1])
	c.Set("order_axiom_instances_broken_new", newCount)
	if res.Status == "invariant" && newCount == 0 {
		c.Inconclusive("TLC reports invariant %s violated on Order.tla but printed no new broken instance", res.Violated)
	}
	// the families used for sort/merge payloads must be free of broken triples
	for _, b := range bad {
		if b.Cfg == "bulk" || b.C == 0 {
			continue
		}
		for _, fam := range familyNames {
			if inFamily(fam, u.vals[b.A-1]) && inFamily(fam, u.vals[b.B-1]) && inFamily(fam, u.vals[b.C-1]) {
				c.Note(fmt.Sprintf("a broken triple lies inside key family %s: %s %s %s", fam, u.vals[b.A-1].ZSON, u.vals[b.B-1].ZSON, u.vals[b.C-1].ZSON))
			}
		}
	}
	c.Sample(map[string]any{"kind": "relation", "universe": n, "example_row": u.vals[13].ZSON, "cmp_asc_nullsmax_first_20": rel.cmp["am"][13][:20]})
	if len(rel.samples) > 3 {
		s := rel.samples[3]
		c.Sample(map[string]any{"kind": "bulk", "cfg": s.Cfg, "cfg2": s.Cfg2, "keys": tokensZSON(u, s.Keys), "keys2": tokensZSON(u, s.Keys2), "real_SortStable_output_positions": s.Out})
	}
	return nil
}

func tokensZSON(u *universe, toks []int) []string {
	var out []string
	for _, t := range toks {
		out = append(out, u.vals[t-1].ZSON)
	}
	return out
}

func confirmAxiom(axiom string, w tripleWitness) bool {
	switch axiom {
	case "refl":
		return w.AB != 0
	case "antisym":
		return w.AB != -w.BA
	case "transleq":
		return w.AB <= 0 && w.BC <= 0 && w.AC > 0
	case "transeq":
		return w.AB == 0 && w.BC == 0 && w.AC != 0
	}
	return false
}

// confirmPair re-derives the pair axioms that relate several configurations or
// consumers from fresh calls of the real code.
func confirmPair(u *universe, axiom, cfg string, va, vb *uval) bool {
	o, nm := cfgParts(cfg)
	real := sign(realCmp(cfg)(va.val, vb.val))
	switch axiom {
	case "nulls":
		s := 1
		if !nm {
			s = -1
		}
		if o == order.Desc {
			s = -s
		}
		switch {
		case va.val.IsNull() && vb.val.IsNull():
			return real != 0
		case va.val.IsNull():
			return real != s
		}
		return false
	case "desc":
		return o == order.Desc && real != sign(realCmp(cfgOf(false, nm))(vb.val, va.val))
	case "lake":
		if nm {
			ra := rec(u.zctx, []string{"k"}, []zed.Value{va.val})
			rb := rec(u.zctx, []string{"k"}, []zed.Value{vb.val})
			lk := zbuf.NewComparatorNullsMax(u.zctx, order.SortKeys{order.NewSortKey(o, field.Path{"k"})})
			l, lr := sign(lk.Compare(ra, rb)), sign(lk.Compare(rb, ra))
			return (real != 0 && l != real) || l != -lr
		}
		return false
	case "fn":
		v := function.NewCompare(u.zctx).Call(nil, []zed.Value{va.val, vb.val, zed.NewBool(nm)})
		return v.Type() != zed.TypeInt64 || v.IsNull() || sign(int(v.Int())) != real
	}
	return false
}

func describeAxiom(axiom string, w tripleWitness) string {
	switch axiom {
	case "refl":
		return fmt.Sprintf("compare(%s, %s) = %d under %s: not reflexive", w.A, w.A, w.AB, w.Cfg)
	case "antisym":
		return fmt.Sprintf("compare(%s, %s) = %d but compare(%s, %s) = %d under %s: not antisymmetric", w.A, w.B, w.AB, w.B, w.A, w.BA, w.Cfg)
	case "transleq":
		return fmt.Sprintf("%s <= %s and %s <= %s but compare(%s, %s) = %d under %s: <= is not transitive", w.A, w.B, w.B, w.C, w.A, w.C, w.AC, w.Cfg)
	case "transeq":
		return fmt.Sprintf("%s ~ %s and %s ~ %s but compare(%s, %s) = %d under %s: the equivalence is not transitive", w.A, w.B, w.B, w.C, w.A, w.C, w.AC, w.Cfg)
	case "nulls":
		return fmt.Sprintf("nulls placement broken under %s: compare(%s, %s) = %d", w.Cfg, w.A, w.B, w.AB)
	case "desc":
		return fmt.Sprintf("descending comparison is not the reverse of ascending: under %s compare(%s, %s) = %d", w.Cfg, w.A, w.B, w.AB)
	case "lake":
		return fmt.Sprintf("the lake comparator (zbuf.NewComparatorNullsMax) disagrees with the sort comparator under %s on (%s, %s); sort comparator says %d", w.Cfg, w.A, w.B, w.AB)
	case "fn":
		return fmt.Sprintf("compare() disagrees with the sort comparator under %s on (%s, %s); comparator says %d", w.Cfg, w.A, w.B, w.AB)
	}
	return axiom
}

// checkBulk evaluates a bulk sample's output against the real comparator.
func checkBulk(u *universe, s *bulkSample) string {
	n := len(s.Keys)
	if len(s.Out) != n {
		return fmt.Sprintf("perm: %d in, %d out", n, len(s.Out))
	}
	seen := map[int]bool{}
	for _, p := range s.Out {
		if p < 1 || p > n || seen[p] {
			return "perm: not a permutation"
		}
		seen[p] = true
	}
	c1, c2 := realCmp(s.Cfg), realCmp(s.Cfg2)
	cmp := func(p, q int) int {
		if r := sign(c1(u.vals[s.Keys[p-1]-1].val, u.vals[s.Keys[q-1]-1].val)); r != 0 || len(s.Keys2) == 0 {
			return r
		}
		return sign(c2(u.vals[s.Keys2[p-1]-1].val, u.vals[s.Keys2[q-1]-1].val))
	}
	for i := 0; i < n; i++ {
		for j := i + 1; j < n; j++ {
			switch r := cmp(s.Out[i], s.Out[j]); {
			case r > 0:
				return fmt.Sprintf("order: input position %d (%s) is placed before position %d (%s)", s.Out[i], u.vals[s.Keys[s.Out[i]-1]-1].ZSON, s.Out[j], u.vals[s.Keys[s.Out[j]-1]-1].ZSON)
			case r == 0 && s.Out[i] > s.Out[j]:
				return fmt.Sprintf("stable: equal keys at input positions %d and %d leave in reverse order", s.Out[j], s.Out[i])
			}
		}
	}
	return ""
}

func reportBulk(c *core.Ctx, u *universe, rel *orderRel, b badLine) {
	if b.A < 1 || b.A > len(rel.samples) {
		c.Inconclusive("TLC printed an unknown bulk sample %d", b.A)
		return
	}
	s := rel.samples[b.A-1]
	rel.runBulk(&s) // re-run the real SortStable
	what := checkBulk(u, &s)
	if what == "" {
		if c.Count("bulk_unconfirmed") < 3 {
			c.Inconclusive("TLC reports bulk sample %d broken (%s) but re-running SortStable does not confirm it", b.A, b.Axiom)
		}
		c.Add("bulk_unconfirmed", 1)
		return
	}
	native := "native"
	for _, k := range s.Keys {
		if !u.vals[k-1].IntK {
			native = "generic"
		}
	}
	sig := fmt.Sprintf("bulk-sort-%s:%s:%dkey:%s", b.Axiom, s.Cfg, 1+min(len(s.Keys2), 1), native)
	c.Violate(sig, fmt.Sprintf("Comparator.SortStable (%s path, config %s) disagrees with Comparator.Compare: %s", native, s.Cfg, what),
		bulkWitness{Kind: "bulk", Sample: s, Keys: tokensZSON(u, s.Keys), Keys2: tokensZSON(u, s.Keys2), What: what})
}

// sortLevelF1 shows the known finding at the operator level: no output of
// `sort this` over [a, b, c] can be both sorted and stable.
func sortLevelF1(c *core.Ctx, u *universe, va, vb, vc *uval) {
	in := []zed.Value{va.val, vb.val, vc.val}
	res := flowh.RunReaders(context.Background(), "sort this", flowh.Opts{Zctx: u.zctx}, u.zctx, &batchReader{batches: [][]zed.Value{in}})
	if res.Err != nil || len(res.Rows) != 3 {
		c.Inconclusive("sort-level reproduction of F1 failed to run: %v", res.Err)
		return
	}
	cmp := realCmp("am")
	byZ := map[string]int{va.ZSON: 0, vb.ZSON: 1, vc.ZSON: 2}
	bad := ""
	for i := 0; i < 3 && bad == ""; i++ {
		for j := i + 1; j < 3; j++ {
			pi, iok := byZ[res.Rows[i]]
			pj, jok := byZ[res.Rows[j]]
			if !iok || !jok {
				c.Inconclusive("sort-level reproduction of F1: unexpected output %v", res.Rows)
				return
			}
			r := sign(cmp(in[pi], in[pj]))
			if r > 0 || (r == 0 && pi > pj) {
				bad = fmt.Sprintf("%s before %s", res.Rows[i], res.Rows[j])
				break
			}
		}
	}
	c.Eval("sort-f1|"+va.ZSON+vb.ZSON+vc.ZSON, true)
	if bad != "" {
		c.Add("f1_reproduced_at_sort_level", 1)
		c.Violate(sigF1, fmt.Sprintf("`sort this` over %s %s %s yields %v: %s although it does not compare lower (no order of these three values is both sorted and stable)", va.ZSON, vb.ZSON, vc.ZSON, res.Rows, bad),
			sortWitness{Kind: "sort", Program: "sort this", Records: []string{va.ZSON, vb.ZSON, vc.ZSON}, Sizes: []int{3}, MemMax: 1 << 30, Got: res.Rows})
	}
}

// ------------------------------------------------------------------- sort

func sortPhase(c *core.Ctx, u *universe, rel *orderRel, main, mutOut tlcOut) error {
	e := newSortEnv(c, u, rel)
	K := 3
	res := mustHold(c, "SortSpill", main)
	if res == nil {
		return nil
	}
	for _, a := range zeroCov(res) {
		switch a {
		case "Consume", "Spill", "FinishMem", "StartMerge", "MergeStep", "MergeDone":
			c.Inconclusive("SortSpill.tla: action %s was never taken (vacuous run)", a)
		}
	}
	// sensitivity: without the ordinal tie-break the invariants must fail
	if mutOut.err != nil {
		return mutOut.err
	}
	mut := mutOut.res
	if mut.Status != "invariant" {
		c.Inconclusive("SortSpill.mut.cfg (merge without ordinal tie-break) should violate Final/OutputSorted but TLC says %s: the invariants are vacuous", mut.Status)
	}
	c.Set("sortspill_mutant_spec_rejected_by", mut.Violated)
	cases, err := parseSortCases(res.Prints)
	if err != nil {
		return err
	}
	if os.Getenv("VERIF_C06_CORRUPT") == "sortcase" { // one predicted output
		for i := range cases {
			if o := cases[i].Out; len(o) >= 3 && cases[i].Keys[o[0]-1] != cases[i].Keys[o[len(o)-1]-1] {
				o[0], o[len(o)-1] = o[len(o)-1], o[0]
				break
			}
		}
	}
	c.Logf("SortSpill.tla: %d distinct states, %d behaviours exported (invariants hold); mutant spec rejected (%s)", res.Distinct, len(cases), mut.Violated)
	c.Set("sort_behaviours_from_tlc", len(cases))
	if len(cases) == 0 {
		c.Inconclusive("SortSpill.tla exported no behaviours")
		return nil
	}
	groups := map[string][]sortCase{}
	var order []string
	for _, sc := range cases {
		k := intsKey(sc.Keys) + "|" + intsKey(sc.Sizes)
		if _, ok := groups[k]; !ok {
			order = append(order, k)
		}
		groups[k] = append(groups[k], sc)
	}
	sort.Strings(order)
	for i, k := range order {
		e.checkGroup(groups[k], K)
		if i%2000 == 1999 {
			c.Logf("sort replay: %d/%d groups, %d runs, %d with spills", i+1, len(order), c.Count("sort_runs_replayed"), c.Count("sort_cases_with_spill"))
		}
	}
	c.Logf("sort replay: %d groups, %d runs on the real operator, %d with spills (%d with >= 2 runs), %d spill runs seen by the hook",
		len(order), c.Count("sort_runs_replayed"), c.Count("sort_cases_with_spill"), c.Count("sort_cases_with_merge_of_2plus_runs"), c.Count("sort_spill_runs_observed"))
	if c.Count("sort_cases_with_merge_of_2plus_runs") == 0 {
		c.Inconclusive("no replayed sort case merged two or more spilled runs (vacuous)")
	}
	crashProbe(c)
	c.Set("exhaustive", true)
	return nil
}

// ------------------------------------------------------------------ merge

func mergePhase(c *core.Ctx, u *universe, main, mutOut tlcOut) error {
	e := &mergeEnv{c: c, u: u}
	K := 3
	res := mustHold(c, "MergeOp", main)
	if res == nil {
		return nil
	}
	for _, a := range zeroCov(res) {
		switch a {
		case "AddParent", "Start", "PullEOS", "Pull", "ReadStep", "ReadEnd":
			c.Inconclusive("MergeOp.tla: action %s was never taken (vacuous run)", a)
		}
	}
	if mutOut.err != nil {
		return mutOut.err
	}
	mut := mutOut.res
	if mut.Status != "invariant" {
		c.Inconclusive("MergeOp.mut.cfg (probe the first instead of the last buffered value) should violate OutSorted/NoOvertake but TLC says %s: the invariants are vacuous", mut.Status)
	}
	c.Set("mergeop_mutant_spec_rejected_by", mut.Violated)
	behs, err := parseMergeBehaviours(res.Prints)
	if err != nil {
		return err
	}
	allowed := map[string]map[string]bool{}
	inputs := map[string]mergeInput{}
	var order []string
	for _, b := range behs {
		pj, _ := json.Marshal(b.Parents)
		out := b.Out
		if out == nil {
			out = [][][2]int{}
		}
		oj, _ := json.Marshal(out)
		k := string(pj)
		if allowed[k] == nil {
			allowed[k] = map[string]bool{}
			inputs[k] = b.Parents
			order = append(order, k)
		}
		allowed[k][string(oj)] = true
	}
	sort.Strings(order)
	if os.Getenv("VERIF_C06_CORRUPT") == "mergeout" { // forget the behaviours of one input
		for _, k := range order {
			if len(inputs[k]) >= 2 && len(allowed[k]) == 1 {
				allowed[k] = map[string]bool{"[]": true}
				break
			}
		}
	}
	c.Logf("MergeOp.tla: %d distinct states, %d behaviours over %d inputs (invariants hold); mutant spec rejected (%s)", res.Distinct, len(behs), len(order), mut.Violated)
	c.Set("merge_behaviours_from_tlc", len(behs))
	c.Set("merge_inputs_from_tlc", len(order))
	if len(order) == 0 {
		c.Inconclusive("MergeOp.tla exported no behaviours")
		return nil
	}
	for _, k := range order {
		e.checkInput(inputs[k], allowed[k], K, pullerBatch)
	}
	// the compiled path: fork ... | merge k
	rng := rand.New(rand.NewSource(c.Seed + 606))
	nc := 60
	if !c.Quick() {
		nc = 600
	}
	for i := 0; i < nc; i++ {
		in := inputs[order[rng.Intn(len(order))]]
		if len(in) < 2 {
			continue
		}
		e.compiledMerge(in, K)
	}
	c.Logf("merge replay: %d inputs on the real merge.Op (%d with cross-parent ties), %d compiled fork|merge runs", c.Count("merge_runs_replayed"), c.Count("merge_cases_with_cross_parent_ties"), c.Count("merge_compiled_runs"))
	return nil
}

// ----------------------------------------------------------------- replay

func replay(c *core.Ctx, u *universe) error {
	var raw map[string]json.RawMessage
	sig, err := c.ReplayWitness(&raw)
	if err != nil {
		return err
	}
	var kind string
	json.Unmarshal(raw["kind"], &kind)
	parse := func(s string) zed.Value {
		v, err := zson.ParseValue(u.zctx, s)
		if err != nil {
			panic(fmt.Sprintf("cannot parse witness value %s: %v", s, err))
		}
		return v.Copy()
	}
	switch kind {
	case "triple":
		var w tripleWitness
		c.ReplayWitness(&w)
		cmp := realCmp(w.Cfg)
		a, b := parse(w.A), parse(w.B)
		n := tripleWitness{Kind: "triple", Axiom: w.Axiom, Cfg: w.Cfg, A: w.A, B: w.B, C: w.C, AB: sign(cmp(a, b)), BA: sign(cmp(b, a))}
		if w.C != "" {
			cv := parse(w.C)
			n.BC, n.AC = sign(cmp(b, cv)), sign(cmp(a, cv))
		}
		fmt.Printf("cfg=%s cmp(a,b)=%d cmp(b,a)=%d cmp(b,c)=%d cmp(a,c)=%d  a=%s b=%s c=%s\n", n.Cfg, n.AB, n.BA, n.BC, n.AC, n.A, n.B, n.C)
		bad := confirmAxiom(w.Axiom, n) || confirmPair(u, w.Axiom, w.Cfg, &uval{ZSON: w.A, val: a}, &uval{ZSON: w.B, val: b})
		if bad {
			c.Violate(sig, describeAxiom(w.Axiom, n), n)
		}
	case "bulk":
		var w bulkWitness
		c.ReplayWitness(&w)
		// rebuild the sample over a private universe made of the witness values
		pu := &universe{zctx: u.zctx}
		s := w.Sample
		s.Keys, s.Keys2 = nil, nil
		for _, z := range w.Keys {
			s.Keys = append(s.Keys, pu.add("x", parse(z)).Idx)
		}
		for _, z := range w.Keys2 {
			s.Keys2 = append(s.Keys2, pu.add("x", parse(z)).Idx)
		}
		rel := &orderRel{u: pu}
		rel.runBulk(&s)
		what := checkBulk(pu, &s)
		fmt.Printf("SortStable output positions %v: %s\n", s.Out, what)
		if what != "" {
			c.Violate(sig, what, w)
		}
	case "sort":
		var w sortWitness
		c.ReplayWitness(&w)
		e := newSortEnv(c, u, &orderRel{u: u, cmp: map[string][][]int{"am": {}}})
		// a fresh context, as a query has, with the same type ids as in the failing run
		zctx, err := contextWithTypes(w.Types)
		if err != nil {
			return err
		}
		var recs []zed.Value
		for _, r := range w.Records {
			v, err := zson.ParseValue(zctx, r)
			if err != nil {
				return err
			}
			recs = append(recs, v.Copy())
		}
		rows, ids, spills, err := e.runSort(zctx, w.Program, recs, w.Sizes, w.MemMax)
		fmt.Printf("%s  mem=%d spills=%v err=%v\n  -> %v\n", w.Program, w.MemMax, spills, err, rows)
		if err != nil {
			c.Violate(sig, err.Error(), w)
			return nil
		}
		if w.Program == "sort this" {
			va, vb, vc := &uval{ZSON: w.Records[0], val: recs[0]}, &uval{ZSON: w.Records[1], val: recs[1]}, &uval{ZSON: w.Records[2], val: recs[2]}
			sortLevelF1(c, u, va, vb, vc)
			return nil
		}
		if clause, what := e.oracle(zctx, w.Spec, recs, w.Records, rows, ids); clause != "" {
			c.Violate(sig, what, w)
			return nil
		}
		ref := w.MemRef
		if ref == 0 {
			ref = 1 << 30
		}
		rows2, _, _, err := e.runSort(zctx, w.Program, recs, w.Sizes, ref)
		if err == nil && !flowh.Equal(rows, rows2) {
			c.Violate(sig, fmt.Sprintf("result with sort.MemMaxBytes=%d differs from the result with %d", w.MemMax, ref), w)
		}
	case "merge":
		var w mergeWitness
		c.ReplayWitness(&w)
		var parents [][][]zed.Value
		for _, p := range w.Parents {
			var pb [][]zed.Value
			for _, b := range p {
				var vals []zed.Value
				for _, r := range b {
					vals = append(vals, parse(r))
				}
				pb = append(pb, vals)
			}
			parents = append(parents, pb)
		}
		cmp := mergeComparator(u.zctx, w.Desc)
		got, err := runMerge(u.zctx, cmp, parents)
		var flat []zed.Value
		var rows []string
		for _, b := range got {
			for _, v := range b {
				flat = append(flat, v)
				rows = append(rows, zson.FormatValue(v))
			}
		}
		fmt.Printf("merge desc=%v err=%v -> %v\n", w.Desc, err, rows)
		var all []string
		for _, p := range w.Parents {
			for _, b := range p {
				all = append(all, b...)
			}
		}
		bad := err != nil || !flowh.Equal(flowh.Multiset(rows), flowh.Multiset(all))
		for i := 0; i+1 < len(flat); i++ {
			if cmp.Compare(flat[i], flat[i+1]) > 0 {
				bad = true
			}
		}
		if bad {
			c.Violate(sig, "replayed: merge output is not a sorted permutation of the parents", w)
		}
	case "crashprobe":
		crashProbe(c)
	case "cmerge":
		var w struct {
			Parents mergeInput `json:"parents"`
		}
		c.ReplayWitness(&w)
		(&mergeEnv{c: c, u: u}).compiledMerge(w.Parents, 3)
	default:
		return fmt.Errorf("unknown witness kind %q", kind)
	}
	return nil
}
