package main

import (
	"context"
	"encoding/json"
	"fmt"
	"math/rand"
	"sort"
	"strings"

	zed "github.com/brimdata/super"
	"github.com/brimdata/super/order"
	"github.com/brimdata/super/pkg/field"
	"github.com/brimdata/super/runtime/sam/expr"
	"github.com/brimdata/super/runtime/sam/expr/function"
	"github.com/brimdata/super/zbuf"
	"github.com/brimdata/super/zcode"
	"github.com/brimdata/super/zio"

	"verif/core"
	"verif/flowh"
)

// The four single-key comparator configurations of Order.tla.
var cfgNames = []string{"am", "an", "dm", "dn"}

func cfgOf(desc, nullsMax bool) string {
	s := "a"
	if desc {
		s = "d"
	}
	if nullsMax {
		return s + "m"
	}
	return s + "n"
}

func cfgParts(cfg string) (o order.Which, nullsMax bool) {
	if cfg[0] == 'd' {
		o = order.Desc
	}
	return o, cfg[1] == 'm'
}

// realCmp is the real single-value comparison for a configuration
// (expr.NewComparator(nullsMax, SortEvaluator{this, o}).Compare).
func realCmp(cfg string) expr.CompareFn {
	o, nm := cfgParts(cfg)
	return expr.NewValueCompareFn(o, nm)
}

func sign(i int) int {
	switch {
	case i < 0:
		return -1
	case i > 0:
		return 1
	}
	return 0
}

// rec builds the record {name0:val0, name1:val1, ...} in zctx.
func rec(zctx *zed.Context, names []string, vals []zed.Value) zed.Value {
	var b zcode.Builder
	fields := make([]zed.Field, len(names))
	for i, n := range names {
		fields[i] = zed.NewField(n, vals[i].Type())
		if vals[i].IsNull() {
			b.Append(nil)
		} else {
			b.Append(vals[i].Bytes())
		}
	}
	return zed.NewValue(zctx.MustLookupTypeRecord(fields), b.Bytes()).Copy()
}

// sliceReader is a zio.Reader over values.
type sliceReader struct {
	vals []zed.Value
	i    int
}

func (r *sliceReader) Read() (*zed.Value, error) {
	if r.i >= len(r.vals) {
		return nil, nil
	}
	r.i++
	return &r.vals[r.i-1], nil
}

var _ zio.Reader = (*sliceReader)(nil)

type bulkSample struct {
	Cfg    string `json:"cfg"`
	Cfg2   string `json:"cfg2"`
	Keys   []int  `json:"keys"`  // universe tokens (1-based) of key 1 per input position
	Keys2  []int  `json:"keys2"` // tokens of key 2 (empty: single key)
	Out    []int  `json:"out"`   // input positions (1-based) in output order, from the real SortStable
	Family string `json:"family"`
}

// orderRel is what the harness records from the real code for Order.tla.
type orderRel struct {
	u       *universe
	cmp     map[string][][]int
	fn      map[string][][]int // "m": compare(a,b,true), "n": compare(a,b,false)
	lake    map[string][][]int // "a"/"d": zbuf.NewComparatorNullsMax over pool key k asc/desc
	samples []bulkSample
}

func recordRelation(u *universe) *orderRel {
	n := len(u.vals)
	r := &orderRel{u: u, cmp: map[string][][]int{}, fn: map[string][][]int{}, lake: map[string][][]int{}}
	// the lake's comparators over records {k: value}
	recs := make([]zed.Value, n)
	for i, v := range u.vals {
		recs[i] = rec(u.zctx, []string{"k"}, []zed.Value{v.val})
	}
	for _, d := range []string{"a", "d"} {
		o := order.Asc
		if d == "d" {
			o = order.Desc
		}
		cmp := zbuf.NewComparatorNullsMax(u.zctx, order.SortKeys{order.NewSortKey(o, field.Path{"k"})})
		m := make([][]int, n)
		for i := range m {
			m[i] = make([]int, n)
			for j := range m[i] {
				m[i][j] = sign(cmp.Compare(recs[i], recs[j]))
			}
		}
		r.lake[d] = m
	}
	for _, cfg := range cfgNames {
		cmp := realCmp(cfg)
		m := make([][]int, n)
		for i := range m {
			m[i] = make([]int, n)
			for j := range m[i] {
				m[i][j] = sign(cmp(u.vals[i].val, u.vals[j].val))
			}
		}
		r.cmp[cfg] = m
	}
	return r
}

// recordCompareFn evaluates the compare() function on every pair, both by
// calling the function object the compiler would install and (all pairs too)
// through a compiled query `yield compare(a,b,true), compare(a,b,false)`.
func (r *orderRel) recordCompareFn(c *core.Ctx) error {
	u := r.u
	n := len(u.vals)
	f := function.NewCompare(u.zctx)
	for _, nm := range []string{"m", "n"} {
		m := make([][]int, n)
		flag := zed.NewBool(nm == "m")
		for i := range m {
			m[i] = make([]int, n)
			for j := range m[i] {
				v := f.Call(nil, []zed.Value{u.vals[i].val, u.vals[j].val, flag})
				if v.Type() != zed.TypeInt64 || v.IsNull() {
					m[i][j] = 9
				} else {
					m[i][j] = sign(int(v.Int()))
				}
			}
		}
		r.fn[nm] = m
	}
	// the compiled path
	var in []zed.Value
	for i := 0; i < n; i++ {
		for j := 0; j < n; j++ {
			in = append(in, rec(u.zctx, []string{"a", "b"}, []zed.Value{u.vals[i].val, u.vals[j].val}))
		}
	}
	res := flowh.RunReaders(context.Background(), "yield compare(a,b,true), compare(a,b,false), compare(a,b)", flowh.Opts{Zctx: u.zctx}, u.zctx, &sliceReader{vals: in})
	if res.Err != nil {
		return fmt.Errorf("compiled compare(): %w", res.Err)
	}
	if len(res.Rows) != 3*n*n {
		return fmt.Errorf("compiled compare(): %d rows, expected %d", len(res.Rows), 3*n*n)
	}
	for i := 0; i < n; i++ {
		for j := 0; j < n; j++ {
			k := 3 * (i*n + j)
			for x, nm := range []string{"m", "n", "m"} {
				want := fmt.Sprint(r.fn[nm][i][j])
				if got := res.Rows[k+x]; got != want {
					// the compiled expression disagrees with the function object: record the
					// compiled result (that is what queries see) so that TLC judges it
					if got == "-1" || got == "0" || got == "1" {
						fmt.Sscan(got, &r.fn[nm][i][j])
					} else {
						r.fn[nm][i][j] = 9
					}
					c.Add("compare_fn_compiled_differs", 1)
				}
			}
		}
	}
	c.Add("compare_fn_pairs", int64(2*n*n))
	return nil
}

// keyFamilies are the sub-universes from which sort keys are drawn.  Each
// avoids the shape of the known finding F-C06-1 (a big float together with big
// integers), so the real comparator is expected to be a total preorder on it;
// TLC verifies that (no BAD triple may lie inside a family).
func (u *universe) family(name string) []*uval {
	var out []*uval
	for _, v := range u.vals {
		switch name {
		case "intk": // only values eligible for the native int64 path
			if v.IntK {
				out = append(out, v)
			}
		case "nobigfloat":
			if !(v.Float && v.Big) {
				out = append(out, v)
			}
		case "nobigint":
			if !(v.IntK && v.Big) {
				out = append(out, v)
			}
		case "all":
			out = append(out, v)
		}
	}
	return out
}

var familyNames = []string{"intk", "nobigfloat", "nobigint"}

func inFamily(name string, v *uval) bool {
	switch name {
	case "intk":
		return v.IntK
	case "nobigfloat":
		return !(v.Float && v.Big)
	case "nobigint":
		return !(v.IntK && v.Big)
	}
	return true
}

// bulkComparator builds the comparator the sort operator would build for keys
// k (and k2) of a record.
func bulkComparator(zctx *zed.Context, cfg, cfg2 string, two bool) *expr.Comparator {
	o, nm := cfgParts(cfg)
	exprs := []expr.SortEvaluator{expr.NewSortEvaluator(expr.NewDottedExpr(zctx, field.Path{"k"}), o)}
	if two {
		o2, _ := cfgParts(cfg2)
		exprs = append(exprs, expr.NewSortEvaluator(expr.NewDottedExpr(zctx, field.Path{"k2"}), o2))
	}
	return expr.NewComparator(nm, exprs...)
}

// runBulk runs the real SortStable on the sample and fills s.Out.
func (r *orderRel) runBulk(s *bulkSample) {
	u := r.u
	two := len(s.Keys2) > 0
	vals := make([]zed.Value, len(s.Keys))
	for p := range s.Keys {
		names := []string{"k", "id"}
		vs := []zed.Value{u.vals[s.Keys[p]-1].val, zed.NewInt64(int64(p + 1))}
		if two {
			names = []string{"k", "k2", "id"}
			vs = []zed.Value{u.vals[s.Keys[p]-1].val, u.vals[s.Keys2[p]-1].val, zed.NewInt64(int64(p + 1))}
		}
		vals[p] = rec(u.zctx, names, vs)
	}
	bulkComparator(u.zctx, s.Cfg, s.Cfg2, two).SortStable(vals)
	s.Out = s.Out[:0]
	idx := expr.NewDottedExpr(u.zctx, field.Path{"id"})
	for _, v := range vals {
		s.Out = append(s.Out, int(idx.Eval(expr.NewContext(), v).Int()))
	}
}

func (r *orderRel) genSamples(rng *rand.Rand, perCfg int) {
	u := r.u
	for _, cfg := range cfgNames {
		// whole families, shuffled, single key
		for _, fam := range familyNames {
			f := u.family(fam)
			s := bulkSample{Cfg: cfg, Cfg2: cfg, Family: fam}
			for _, i := range rng.Perm(len(f)) {
				s.Keys = append(s.Keys, f[i].Idx)
			}
			r.samples = append(r.samples, s)
		}
		for k := 0; k < perCfg; k++ {
			fam := familyNames[k%len(familyNames)]
			f := u.family(fam)
			s := bulkSample{Cfg: cfg, Cfg2: cfg, Family: fam}
			n := 2 + rng.Intn(14)
			// a small pool makes ties (equal keys at different positions) frequent
			pool := make([]*uval, 1+rng.Intn(6))
			for i := range pool {
				pool[i] = f[rng.Intn(len(f))]
			}
			two := k%3 == 1
			if two {
				s.Cfg2 = cfgOf(rng.Intn(2) == 0, cfg[1] == 'm')
			}
			for i := 0; i < n; i++ {
				s.Keys = append(s.Keys, pool[rng.Intn(len(pool))].Idx)
				if two {
					s.Keys2 = append(s.Keys2, pool[rng.Intn(len(pool))].Idx)
				}
			}
			r.samples = append(r.samples, s)
		}
	}
	for i := range r.samples {
		r.runBulk(&r.samples[i])
	}
}

// ------------------------------------------------------------ data for TLC

// dataFiles renders the od_*.json constant files that Order.tla reads with
// JsonDeserialize.
func (r *orderRel) dataFiles() map[string][]byte {
	u := r.u
	n := len(u.vals)
	flags := func(f func(v *uval) bool) []bool {
		out := make([]bool, n)
		for i, v := range u.vals {
			out[i] = f(v)
		}
		return out
	}
	samples := r.samples
	if samples == nil {
		samples = []bulkSample{}
	}
	for i := range samples {
		if samples[i].Keys2 == nil {
			samples[i].Keys2 = []int{}
		}
	}
	js := func(v any) []byte {
		b, err := json.Marshal(v)
		if err != nil {
			panic(err)
		}
		return b
	}
	return map[string][]byte{
		"od_meta.json": js(map[string]any{"n": n,
			"isnull":    flags(func(v *uval) bool { return v.Null }),
			"isdeep":    flags(func(v *uval) bool { return v.Deep }),
			"isfloat":   flags(func(v *uval) bool { return v.Float }),
			"isintk":    flags(func(v *uval) bool { return v.IntK }),
			"isbig":     flags(func(v *uval) bool { return v.Big }),
			"ismissing": flags(func(v *uval) bool { return v.val.IsMissing() })}),
		"od_am.json": js(r.cmp["am"]), "od_an.json": js(r.cmp["an"]),
		"od_dm.json": js(r.cmp["dm"]), "od_dn.json": js(r.cmp["dn"]),
		"od_fnm.json": js(r.fn["m"]), "od_fnn.json": js(r.fn["n"]),
		"od_lakea.json": js(r.lake["a"]), "od_laked.json": js(r.lake["d"]),
		"od_samples.json": js(samples),
	}
}

// badLine is one <<"BAD"|"BADBULK", axiom, cfg, a, b, c, class>> line printed by TLC.
type badLine struct {
	Bulk    bool
	Axiom   string
	Cfg     string
	A, B, C int
	Class   string
}

func parseBad(prints []string) ([]badLine, error) {
	var out []badLine
	for _, l := range prints {
		l = strings.TrimSpace(l)
		if !strings.HasPrefix(l, `<<"BAD`) {
			continue
		}
		j := strings.NewReplacer("<<", "[", ">>", "]").Replace(l)
		var t []any
		if err := json.Unmarshal([]byte(j), &t); err != nil || len(t) != 7 {
			return nil, fmt.Errorf("cannot parse TLC line %q: %v", l, err)
		}
		num := func(x any) int { f, _ := x.(float64); return int(f) }
		str := func(x any) string { s, _ := x.(string); return s }
		out = append(out, badLine{Bulk: str(t[0]) == "BADBULK", Axiom: str(t[1]), Cfg: str(t[2]), A: num(t[3]), B: num(t[4]), C: num(t[5]), Class: str(t[6])})
	}
	sort.Slice(out, func(i, j int) bool {
		a, b := out[i], out[j]
		if a.Bulk != b.Bulk {
			return !a.Bulk
		}
		if a.Axiom != b.Axiom {
			return a.Axiom < b.Axiom
		}
		if a.Cfg != b.Cfg {
			return a.Cfg < b.Cfg
		}
		if a.A != b.A {
			return a.A < b.A
		}
		if a.B != b.B {
			return a.B < b.B
		}
		return a.C < b.C
	})
	return out, nil
}
