package main

import (
	"fmt"
	"math"

	zed "github.com/brimdata/super"
	"github.com/brimdata/super/pkg/nano"
	"github.com/brimdata/super/zson"
)

// uval is one member of the curated universe of boundary values.
type uval struct {
	Idx   int    `json:"idx"`   // 1-based position in the universe (the token TLC sees)
	ZSON  string `json:"zson"`  // canonical text (zson.FormatValue)
	Kind  string `json:"kind"`  // coarse class used in violation signatures: uint int duration time float bool bytes string ip net type null error array set map record union named enum
	Null  bool   `json:"null"`  // top-level null (of any type)
	Deep  bool   `json:"deep"`  // an array/set with a null element (ordering inside depends on nullsMax)
	Big   bool   `json:"big"`   // number of magnitude >= 2^53
	IntK  bool   `json:"intk"`  // type id <= IDTime: eligible for the native int64 path of sortStableIndices
	Float bool   `json:"float"` // float16/32/64
	val   zed.Value
}

type universe struct {
	zctx *zed.Context
	vals []*uval
}

func (u *universe) add(kind string, v zed.Value) *uval {
	x := &uval{Idx: len(u.vals) + 1, ZSON: zson.FormatValue(v), Kind: kind, Null: v.IsNull(), val: v.Copy()}
	id := v.Type().ID()
	x.IntK = id <= zed.IDTime
	x.Float = zed.IsFloat(id)
	if !x.Null {
		switch {
		case zed.IsUnsigned(id):
			x.Big = v.Uint() >= 1<<53
		case zed.IsSigned(id):
			i := v.Int()
			x.Big = i >= 1<<53 || i <= -(1<<53)
		case x.Float:
			x.Big = math.Abs(v.Float()) >= 1<<53
		}
	}
	u.vals = append(u.vals, x)
	return x
}

func (u *universe) z(kind, text string) *uval {
	v, err := zson.ParseValue(u.zctx, text)
	if err != nil {
		panic(fmt.Sprintf("universe: cannot parse %q: %v", text, err))
	}
	return u.add(kind, v)
}

// newUniverse builds the universe.  The order is fixed (tokens are stable
// across seeds); small=true yields the reduced universe of the quick tier's
// secondary configurations.
func newUniverse(zctx *zed.Context) *universe {
	u := &universe{zctx: zctx}
	const p53 = uint64(1) << 53
	const p63 = uint64(1) << 63
	// unsigned
	u.add("uint", zed.NewUint8(0))
	u.add("uint", zed.NewUint8(1))
	u.add("uint", zed.NewUint8(255))
	u.add("uint", zed.NewUint16(65535))
	u.add("uint", zed.NewUint32(math.MaxUint32))
	for _, x := range []uint64{0, 1, 2, p53 - 1, p53, p53 + 1, p53 + 2, p63 - 2, p63 - 1, p63, p63 + 1, math.MaxUint64 - 1, math.MaxUint64} {
		u.add("uint", zed.NewUint64(x))
	}
	// signed
	for _, x := range []int8{-128, -1, 0, 1, 127} {
		u.add("int", zed.NewInt8(x))
	}
	u.add("int", zed.NewInt16(-32768))
	u.add("int", zed.NewInt32(math.MaxInt32))
	for _, x := range []int64{math.MinInt64, math.MinInt64 + 1, -int64(p53) - 2, -int64(p53) - 1, -int64(p53), -2, -1, 0, 1, 2,
		int64(p53) - 1, int64(p53), int64(p53) + 1, int64(p53) + 2, math.MaxInt64 - 1, math.MaxInt64} {
		u.add("int", zed.NewInt64(x))
	}
	for _, x := range []int64{math.MinInt64, -1, 0, 1, 1000000000, int64(p53) + 1, math.MaxInt64} {
		u.add("duration", zed.NewDuration(nano.Duration(x)))
	}
	for _, x := range []int64{math.MinInt64, -1, 0, 1, int64(p53), int64(p53) + 1, math.MaxInt64} {
		u.add("time", zed.NewTime(nano.Ts(x)))
	}
	// floats
	u.add("float", zed.NewFloat16(0))
	u.add("float", zed.NewFloat16(1))
	u.add("float", zed.NewFloat16(65504))
	u.add("float", zed.NewFloat16(float32(math.Inf(1))))
	u.add("float", zed.NewFloat32(1))
	u.add("float", zed.NewFloat32(16777216))
	u.add("float", zed.NewFloat32(math.MaxFloat32))
	u.add("float", zed.NewFloat32(float32(math.NaN())))
	for _, x := range []float64{math.NaN(), math.Inf(-1), -math.MaxFloat64, -float64(p63), -float64(p53), -1.5, -1, math.Copysign(0, -1), 0,
		math.SmallestNonzeroFloat64, 0.5, 1, 1.5, 2, 255, float64(p53 - 1), float64(p53), float64(p53 + 2), float64(p63), float64(p63) * 2, math.MaxFloat64, math.Inf(1)} {
		u.add("float", zed.NewFloat64(x))
	}
	// other primitives
	u.z("bool", "false")
	u.z("bool", "true")
	for _, s := range []string{"0x", "0x00", "0x01", "0x0100", "0xff"} {
		u.z("bytes", s)
	}
	for _, s := range []string{`""`, `"\u0000"`, `"10"`, `"9"`, `"A"`, `"a"`, `"aa"`, `"b"`, `"é"`, `"𐀀"`} {
		u.z("string", s)
	}
	for _, s := range []string{"0.0.0.0", "127.0.0.1", "255.255.255.255", "::", "::1", "::ffff:127.0.0.1", "ffff::ffff"} {
		u.z("ip", s)
	}
	for _, s := range []string{"0.0.0.0/0", "10.0.0.0/8", "10.0.0.0/16", "::/0", "fe80::/10"} {
		u.z("net", s)
	}
	for _, s := range []string{"<uint8>", "<int64>", "<string>", "<null>", "<{a:int64}>", "<[int64]>", "<foo=int64>", "<(int64,string)>"} {
		u.z("type", s)
	}
	// nulls of each type, missing, errors
	for _, s := range []string{"null", "null(uint8)", "null(uint64)", "null(int64)", "null(duration)", "null(time)", "null(float64)", "null(bool)",
		"null(bytes)", "null(string)", "null(ip)", "null(net)", "null(type)", "null([int64])", "null({a:int64})", "null(foo=int64)"} {
		u.z("null", s)
	}
	u.z("error", `error("missing")`)
	u.z("error", `error("quiet")`)
	u.z("error", `error("x")`)
	u.z("error", `error({a:1})`)
	// containers
	for _, s := range []string{"[]", "[1]", "[1,2]", "[2]", "[1,null(int64)]", "[null(int64)]", "[null(int64),1]", "[1.]", `["a"]`, "[[1]]", "[[1],[1,2]]", `[1,"a"]`, `["a",1]`, "[1(uint8)]"} {
		x := u.z("array", s)
		x.Deep = s == "[1,null(int64)]" || s == "[null(int64)]" || s == "[null(int64),1]"
	}
	for _, s := range []string{"|[]|", "|[1]|", "|[1,2]|", `|["a"]|`, "|[null(int64),1]|"} {
		x := u.z("set", s)
		x.Deep = s == "|[null(int64),1]|"
	}
	for _, s := range []string{"|{}|", `|{1:"a"}|`, `|{1:"b"}|`, `|{2:"a"}|`, `|{"a":1}|`} {
		u.z("map", s)
	}
	for _, s := range []string{"{}", "{a:1}", "{a:2}", "{a:1,b:2}", "{b:1}", `{a:"x"}`, "{a:null(int64)}", "{a:null}", "{a:{b:1}}", "{a:1.}", "{a:[1]}"} {
		u.z("record", s)
	}
	for _, s := range []string{`1((int64,string))`, `2((int64,string))`, `"a"((int64,string))`, `1((int64,float64))`} {
		u.z("union", s)
	}
	for _, s := range []string{"1(=foo)", "2(=foo)", "1(=bar)", `"a"(=sn)`, "{a:1}(=rec)", "[1](=arr)", "1.(=fl)", "1(u8=uint8)"} {
		u.z("named", s)
	}
	for _, s := range []string{"%a(enum(a,b))", "%b(enum(a,b))", "%a(enum(a,c))"} {
		u.z("enum", s)
	}
	return u
}
