package main

import (
	"context"
	"encoding/json"
	"fmt"
	"hash/fnv"
	"math/rand"
	"sort"
	"strings"

	zed "github.com/brimdata/super"
	"github.com/brimdata/super/order"
	"github.com/brimdata/super/pkg/field"
	"github.com/brimdata/super/runtime/sam/expr"
	"github.com/brimdata/super/runtime/sam/op/merge"
	"github.com/brimdata/super/zbuf"
	"github.com/brimdata/super/zson"

	"verif/core"
	"verif/flowh"
)

// mergeInput is parents[p][b] = keys of batch b of parent p.
type mergeInput [][][]int

// mergeBehaviour is one finished behaviour of MergeOp.tla.
type mergeBehaviour struct {
	Parents mergeInput
	Out     [][][2]int // batches of (parent, index in parent), 1-based
}

func parseMergeBehaviours(prints []string) ([]mergeBehaviour, error) {
	var out []mergeBehaviour
	for _, l := range prints {
		l = strings.TrimSpace(l)
		if !strings.HasPrefix(l, `"<<`) {
			continue
		}
		var inner string
		if err := json.Unmarshal([]byte(l), &inner); err != nil {
			return nil, fmt.Errorf("TLC line %q: %v", l, err)
		}
		var t []json.RawMessage
		if err := json.Unmarshal([]byte(tlaToJSON(inner)), &t); err != nil || len(t) != 2 {
			return nil, fmt.Errorf("TLC line %q: %v", l, err)
		}
		var b mergeBehaviour
		if err := json.Unmarshal(t[0], &b.Parents); err != nil {
			return nil, fmt.Errorf("TLC line %q parents: %v", l, err)
		}
		if err := json.Unmarshal(t[1], &b.Out); err != nil {
			return nil, fmt.Errorf("TLC line %q out: %v", l, err)
		}
		out = append(out, b)
	}
	return out, nil
}

// listPuller is a parent of the merge operator: fixed batches, then EOS forever.
type listPuller struct {
	batches [][]zed.Value
	i       int
}

func (p *listPuller) Pull(done bool) (zbuf.Batch, error) {
	if done {
		p.i = len(p.batches)
	}
	if p.i >= len(p.batches) {
		return nil, nil
	}
	p.i++
	return zbuf.NewArray(append([]zed.Value(nil), p.batches[p.i-1]...)), nil
}

type mergeEnv struct {
	c *core.Ctx
	u *universe
}

type mergeWitness struct {
	Kind    string       `json:"kind"` // "merge"
	Desc    bool         `json:"desc"`
	Parents [][][]string `json:"parents"` // ZSON records per parent per batch
	Got     [][]string   `json:"got,omitempty"`
	PB      int          `json:"puller_batch_values"`
}

// mergeComparator is what compiler/kernel builds for dag.Merge.
func mergeComparator(zctx *zed.Context, desc bool) *expr.Comparator {
	o := order.Asc
	if desc {
		o = order.Desc
	}
	return expr.NewComparator(true, expr.NewSortEvaluator(expr.NewDottedExpr(zctx, field.Path{"k"}), o)).WithMissingAsNull()
}

// classValues picks K universe values v1 < .. < vK under cmp (on {k:v}).
func (e *mergeEnv) classValues(rng *rand.Rand, cmp *expr.Comparator, K int) (fam string, classes []*uval) {
	u := e.u
	fam = familyNames[rng.Intn(len(familyNames))]
	f := u.family(fam)
	for tries := 0; len(classes) < K; tries++ {
		if tries > 500 {
			panic("cannot find K merge key classes")
		}
		v := f[rng.Intn(len(f))]
		dup := false
		for _, c := range classes {
			if cmp.Compare(rec(u.zctx, []string{"k"}, []zed.Value{c.val}), rec(u.zctx, []string{"k"}, []zed.Value{v.val})) == 0 {
				dup = true
			}
		}
		if !dup {
			classes = append(classes, v)
		}
	}
	sort.SliceStable(classes, func(i, j int) bool {
		return cmp.Compare(rec(u.zctx, []string{"k"}, []zed.Value{classes[i].val}), rec(u.zctx, []string{"k"}, []zed.Value{classes[j].val})) < 0
	})
	return fam, classes
}

// runMerge runs the real merge.Op over the parents and returns the emitted batches.
func runMerge(zctx *zed.Context, cmp *expr.Comparator, parents [][][]zed.Value) ([][]zed.Value, error) {
	ctx, cancel := context.WithCancel(context.Background())
	defer cancel()
	var pullers []zbuf.Puller
	for _, p := range parents {
		pullers = append(pullers, &listPuller{batches: p})
	}
	m := merge.New(ctx, pullers, cmp.Compare, expr.Resetters{})
	var out [][]zed.Value
	for {
		b, err := m.Pull(false)
		if err != nil {
			return out, err
		}
		if b == nil {
			return out, nil
		}
		var vals []zed.Value
		for _, v := range b.Values() {
			vals = append(vals, v.Copy())
		}
		out = append(out, vals)
		if len(out) > 10000 {
			return out, fmt.Errorf("merge does not terminate")
		}
	}
}

func (e *mergeEnv) checkInput(in mergeInput, allowed map[string]bool, K, PB int) {
	c := e.c
	u := e.u
	js, _ := json.Marshal(in)
	h := fnv.New64a()
	fmt.Fprintf(h, "%d|%s", c.Seed, js)
	rng := rand.New(rand.NewSource(int64(h.Sum64())))
	desc := rng.Intn(3) == 0
	cmp := mergeComparator(u.zctx, desc)
	fam, classes := e.classValues(rng, cmp, K)
	pf := expr.NewDottedExpr(u.zctx, field.Path{"p"})
	xf := expr.NewDottedExpr(u.zctx, field.Path{"i"})
	w := mergeWitness{Kind: "merge", Desc: desc, PB: PB}
	var parents [][][]zed.Value
	total := 0
	byID := map[[2]int]zed.Value{}
	ties := false
	for p, bs := range in {
		var pb [][]zed.Value
		var wb [][]string
		i := 0
		for _, b := range bs {
			var vals []zed.Value
			var ws []string
			for _, k := range b {
				i++
				total++
				kv := classes[k-1].val
				// an equal-but-different representative now and then
				if alts := equalsIn(u, cmp, fam, classes[k-1]); len(alts) > 0 && rng.Intn(2) == 0 {
					kv = alts[rng.Intn(len(alts))].val
				}
				r := rec(u.zctx, []string{"k", "p", "i"}, []zed.Value{kv, zed.NewInt64(int64(p + 1)), zed.NewInt64(int64(i))})
				byID[[2]int{p + 1, i}] = r
				vals = append(vals, r)
				ws = append(ws, zson.FormatValue(r))
			}
			pb = append(pb, vals)
			wb = append(wb, ws)
		}
		parents = append(parents, pb)
		w.Parents = append(w.Parents, wb)
	}
	seenK := map[int]int{}
	for _, bs := range in {
		ks := map[int]bool{}
		for _, b := range bs {
			for _, k := range b {
				ks[k] = true
			}
		}
		for k := range ks {
			seenK[k]++
			if seenK[k] > 1 {
				ties = true
			}
		}
	}
	got, err := runMerge(u.zctx, cmp, parents)
	c.Eval(fmt.Sprintf("merge|%s|%v|%s", js, desc, fam), len(in) >= 2 && total >= 2)
	c.Add("merge_runs_replayed", 1)
	if ties {
		c.Add("merge_cases_with_cross_parent_ties", 1)
	}
	var gotIDs [][][2]int
	for _, b := range got {
		var ids [][2]int
		var ws []string
		for _, v := range b {
			ids = append(ids, [2]int{int(pf.Eval(expr.NewContext(), v).Int()), int(xf.Eval(expr.NewContext(), v).Int())})
			ws = append(ws, zson.FormatValue(v))
		}
		gotIDs = append(gotIDs, ids)
		w.Got = append(w.Got, ws)
	}
	class := fmt.Sprintf("%dparents:%s", len(in), map[bool]string{true: "desc", false: "asc"}[desc])
	if err != nil {
		c.Violate("merge-error:"+class, fmt.Sprintf("merge of %d sorted parents failed: %v", len(in), err), w)
		return
	}
	// the property's oracle
	var flat [][2]int
	for _, b := range gotIDs {
		flat = append(flat, b...)
	}
	seen := map[[2]int]bool{}
	for _, id := range flat {
		r, ok := byID[id]
		if !ok || seen[id] {
			c.Violate("merge-not-a-permutation:"+class, fmt.Sprintf("merge output contains %v twice or it is not an input value", id), w)
			return
		}
		seen[id] = true
		_ = r
	}
	if len(flat) != total {
		c.Violate("merge-not-a-permutation:"+class, fmt.Sprintf("merge of %d values emitted %d values", total, len(flat)), w)
		return
	}
	for i := 0; i < len(flat); i++ {
		for j := i + 1; j < len(flat); j++ {
			if cmp.Compare(byID[flat[i]], byID[flat[j]]) > 0 {
				c.Violate("merge-not-sorted:"+class, fmt.Sprintf("merge of sorted parents emitted %s before %s", zson.FormatValue(byID[flat[i]]), zson.FormatValue(byID[flat[j]])), w)
				return
			}
			if flat[i][0] == flat[j][0] && flat[i][1] > flat[j][1] {
				c.Violate("merge-reorders-parent:"+class, fmt.Sprintf("merge emitted value %v of a parent before its value %v", flat[i], flat[j]), w)
				return
			}
		}
	}
	for _, b := range got {
		for _, v := range b {
			id := [2]int{int(pf.Eval(expr.NewContext(), v).Int()), int(xf.Eval(expr.NewContext(), v).Int())}
			if zson.FormatValue(v) != zson.FormatValue(byID[id]) {
				c.Violate("merge-not-a-permutation:"+class, fmt.Sprintf("merge changed value %s into %s", zson.FormatValue(byID[id]), zson.FormatValue(v)), w)
				return
			}
		}
	}
	// spec -> code: the real batch sequence must be a behaviour of MergeOp.tla
	if gotIDs == nil {
		gotIDs = [][][2]int{}
	}
	gj, _ := json.Marshal(gotIDs)
	if allowed != nil {
		if allowed[string(gj)] {
			c.Add("traces_validated_against_impl", 1)
		} else {
			c.Drift("merge batches %s for parents %s are not a behaviour of MergeOp.tla (%d behaviours known)", gj, js, len(allowed))
		}
	}
	if rng.Intn(500) == 0 {
		c.Sample(map[string]any{"kind": "merge", "parents": w.Parents, "desc": desc, "real_batches": w.Got, "spec_behaviours": len(allowed)})
	}
}

// equalsIn returns the members of the family that compare equal to v (other than v).
func equalsIn(u *universe, cmp *expr.Comparator, fam string, v *uval) []*uval {
	var out []*uval
	rv := rec(u.zctx, []string{"k"}, []zed.Value{v.val})
	for _, x := range u.family(fam) {
		if x != v && cmp.Compare(rv, rec(u.zctx, []string{"k"}, []zed.Value{x.val})) == 0 {
			out = append(out, x)
		}
	}
	return out
}

// compiledMerge runs `fork (=> where p==1 => ...) | merge k` through the
// compiler over an input whose batches realize the given parents.
func (e *mergeEnv) compiledMerge(in mergeInput, K int) {
	c := e.c
	u := e.u
	js, _ := json.Marshal(in)
	h := fnv.New64a()
	fmt.Fprintf(h, "c|%d|%s", c.Seed, js)
	rng := rand.New(rand.NewSource(int64(h.Sum64())))
	cmp := mergeComparator(u.zctx, false)
	_, classes := e.classValues(rng, cmp, K)
	var legs []string
	var perParent [][][]zed.Value
	var all []string
	maxB := 0
	for p, bs := range in {
		legs = append(legs, fmt.Sprintf("=> where p==%d", p+1))
		var pb [][]zed.Value
		i := 0
		for _, b := range bs {
			var vals []zed.Value
			for _, k := range b {
				i++
				r := rec(u.zctx, []string{"k", "p", "i"}, []zed.Value{classes[k-1].val, zed.NewInt64(int64(p + 1)), zed.NewInt64(int64(i))})
				vals = append(vals, r)
				all = append(all, zson.FormatValue(r))
			}
			pb = append(pb, vals)
		}
		if len(pb) > maxB {
			maxB = len(pb)
		}
		perParent = append(perParent, pb)
	}
	// One input batch holding every value (the parents' values interleaved, each
	// parent's own order kept): fork copies it to every leg and each leg's filter
	// keeps its parent's values, so every merge parent sees exactly one batch.
	// (Inputs spread over several batches can deadlock fork|merge when the legs
	// are skewed -- see the final report; a hang is not something this check may
	// wait for.)
	_ = maxB
	var flatP [][]zed.Value
	for _, pb := range perParent {
		var f []zed.Value
		for _, b := range pb {
			f = append(f, b...)
		}
		flatP = append(flatP, f)
	}
	var one []zed.Value
	for i := 0; ; i++ {
		more := false
		for _, f := range flatP {
			if i < len(f) {
				one = append(one, f[i])
				more = true
			}
		}
		if !more {
			break
		}
	}
	var batches [][]zed.Value
	if len(one) > 0 {
		batches = append(batches, one)
	}
	prog := "fork (" + strings.Join(legs, " ") + ") | merge k"
	res := flowh.RunReaders(context.Background(), prog, flowh.Opts{Zctx: u.zctx}, u.zctx, &batchReader{batches: batches})
	c.Eval("cmerge|"+string(js), len(in) >= 2)
	c.Add("merge_compiled_runs", 1)
	w := map[string]any{"kind": "cmerge", "program": prog, "parents": in, "got": res.Rows}
	if res.Err != nil {
		if strings.Contains(res.Err.Error(), "context deadline") {
			c.Inconclusive("compiled merge timed out: %s", prog)
			return
		}
		c.Violate("merge-error:compiled", fmt.Sprintf("`%s` failed: %v", prog, res.Err), w)
		return
	}
	if !flowh.Equal(flowh.Multiset(res.Rows), flowh.Multiset(all)) {
		c.Violate("merge-not-a-permutation:compiled", fmt.Sprintf("`%s` over %d values emitted %d values / different values", prog, len(all), len(res.Rows)), w)
		return
	}
	kf := expr.NewDottedExpr(u.zctx, field.Path{"k"})
	_ = kf
	var vals []zed.Value
	for _, r := range res.Rows {
		v, err := zson.ParseValue(u.zctx, r)
		if err != nil {
			c.Inconclusive("cannot parse merge output %s: %v", r, err)
			return
		}
		vals = append(vals, v)
	}
	for i := 0; i+1 < len(vals); i++ {
		if cmp.Compare(vals[i], vals[i+1]) > 0 {
			c.Violate("merge-not-sorted:compiled", fmt.Sprintf("`%s` emitted %s before %s", prog, res.Rows[i], res.Rows[i+1]), w)
			return
		}
	}
}
