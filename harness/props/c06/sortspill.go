package main

import (
	"context"
	"encoding/json"
	"fmt"
	"hash/fnv"
	"math/rand"
	"regexp"
	"sort"
	"strconv"
	"strings"
	"sync"

	zed "github.com/brimdata/super"
	"github.com/brimdata/super/order"
	"github.com/brimdata/super/pkg/field"
	"github.com/brimdata/super/pkg/verif"
	"github.com/brimdata/super/runtime/sam/expr"
	sortop "github.com/brimdata/super/runtime/sam/op/sort"
	"github.com/brimdata/super/zbuf"
	"github.com/brimdata/super/zson"

	"verif/core"
	"verif/flowh"
)

// ---------------------------------------------------------------- feeding

// batchReader is a zio.Reader that implements zbuf.ScannerAble so that the
// compiled query receives exactly the given batches.
type batchReader struct {
	batches [][]zed.Value
}

func (r *batchReader) Read() (*zed.Value, error) { return nil, nil }

func (r *batchReader) NewScanner(ctx context.Context, f zbuf.Filter) (zbuf.Scanner, error) {
	s := &batchScanner{batches: r.batches}
	if f != nil {
		ev, err := f.AsEvaluator()
		if err != nil {
			return nil, err
		}
		s.filter = ev
	}
	return s, nil
}

type batchScanner struct {
	batches [][]zed.Value
	i       int
	filter  expr.Evaluator
}

func (s *batchScanner) Progress() zbuf.Progress { return zbuf.Progress{} }

func (s *batchScanner) Pull(done bool) (zbuf.Batch, error) {
	if done {
		s.i = len(s.batches)
	}
	for s.i < len(s.batches) {
		vals := append([]zed.Value(nil), s.batches[s.i]...)
		s.i++
		if s.filter != nil {
			var keep []zed.Value
			for _, v := range vals {
				if r := s.filter.Eval(expr.NewContext(), v); r.Type() == zed.TypeBool && !r.IsNull() && r.Bool() {
					keep = append(keep, v)
				}
			}
			vals = keep
		}
		if len(vals) > 0 {
			return zbuf.NewArray(vals), nil
		}
	}
	return nil, nil
}

// ------------------------------------------------------------ sort specs

type sortKey struct {
	Desc bool `json:"desc"`
}

// sortSpec is the configuration of one `sort` operator.
type sortSpec struct {
	Keys       []sortKey `json:"keys"` // keys k, k2, k3
	NullsFirst bool      `json:"nulls_first"`
	Reverse    bool      `json:"reverse"`
}

var keyNames = []string{"k", "k2", "k3"}

func (s sortSpec) program() string {
	var b strings.Builder
	b.WriteString("sort")
	if s.Reverse {
		b.WriteString(" -r")
	}
	if s.NullsFirst {
		b.WriteString(" -nulls first")
	}
	for i, k := range s.Keys {
		if i > 0 {
			b.WriteString(",")
		}
		b.WriteString(" " + keyNames[i])
		if k.Desc {
			b.WriteString(" desc")
		}
	}
	return b.String()
}

func (s sortSpec) String() string { return s.program() }

// comparator is the comparison the operator is documented/constructed to use
// (sort.Op.setComparator): -r flips every key, nullsMax = !nullsFirst, flipped
// when the primary key is descending so that nulls stay last (first) in either
// direction; missing counts as null.
func (s sortSpec) comparator(zctx *zed.Context) *expr.Comparator {
	var exprs []expr.SortEvaluator
	for i, k := range s.Keys {
		o := order.Asc
		if k.Desc != s.Reverse {
			o = order.Desc
		}
		exprs = append(exprs, expr.NewSortEvaluator(expr.NewDottedExpr(zctx, field.Path{keyNames[i]}), o))
	}
	nullsMax := !s.NullsFirst
	if exprs[0].Order == order.Desc {
		nullsMax = !nullsMax
	}
	return expr.NewComparator(nullsMax, exprs...).WithMissingAsNull()
}

// ------------------------------------------------------------- TLC cases

// sortCase is one finished behaviour of SortSpill.tla.
type sortCase struct {
	Keys  []int   `json:"keys"`
	Sizes []int   `json:"sizes"`
	Limit int     `json:"limit"`
	Runs  [][]int `json:"runs"`
	Out   []int   `json:"out"`
}

func tlaToJSON(s string) string {
	return strings.NewReplacer("<<", "[", ">>", "]").Replace(s)
}

func parseSortCases(prints []string) ([]sortCase, error) {
	var out []sortCase
	for _, l := range prints {
		l = strings.TrimSpace(l)
		if !strings.HasPrefix(l, `"<<`) {
			continue
		}
		var inner string
		if err := json.Unmarshal([]byte(l), &inner); err != nil {
			return nil, fmt.Errorf("TLC line %q: %v", l, err)
		}
		var t []json.RawMessage
		if err := json.Unmarshal([]byte(tlaToJSON(inner)), &t); err != nil || len(t) != 5 {
			return nil, fmt.Errorf("TLC line %q: %v", l, err)
		}
		var c sortCase
		for i, dst := range []any{&c.Keys, &c.Sizes, &c.Limit, &c.Runs, &c.Out} {
			if err := json.Unmarshal(t[i], dst); err != nil {
				return nil, fmt.Errorf("TLC line %q field %d: %v", l, i, err)
			}
		}
		out = append(out, c)
	}
	return out, nil
}

func intsKey(xs []int) string {
	var b strings.Builder
	for i, x := range xs {
		if i > 0 {
			b.WriteByte(',')
		}
		b.WriteString(strconv.Itoa(x))
	}
	return b.String()
}

// ------------------------------------------------------------- payloads

// payload is the concrete input of one group of behaviours (same keys and
// batch sizes, every limit): records of equal byte length recSize.
type payload struct {
	Spec    sortSpec `json:"spec"`
	Family  string   `json:"family"`
	Mixed   bool     `json:"mixed_shapes"` // the index of the key fields differs between record types (same number of fields)
	Omit    bool     `json:"key_absent"`   // some records lack the (single, first-position) key field
	Records []string `json:"records"`      // ZSON of record id i+1
	Types   []string `json:"types"`        // the context's complex types in id order (30, 31, ...): ids matter for F-C06-2
	recs    []zed.Value
	recSize int
	zctx    *zed.Context // a fresh context per payload, as a query has (type ids start at 30)
}

// typesOf lists the complex types of zctx in type-id order.
func typesOf(zctx *zed.Context) []string {
	var out []string
	for id := zed.IDTypeComplex; ; id++ {
		t, err := zctx.LookupType(id)
		if err != nil || t == nil {
			return out
		}
		out = append(out, zson.FormatType(t))
	}
}

// contextWithTypes returns a fresh context in which the given types have the
// ids 30, 31, ... (each type's components precede it in the list).
func contextWithTypes(types []string) (*zed.Context, error) {
	zctx := zed.NewContext()
	for _, t := range types {
		if _, err := zson.ParseType(zctx, t); err != nil {
			return nil, fmt.Errorf("type %s: %w", t, err)
		}
	}
	return zctx, nil
}

// xlate re-homes a universe value in zctx.
func xlate(zctx *zed.Context, v zed.Value) zed.Value {
	t, err := zctx.TranslateType(v.Type())
	if err != nil {
		panic(err)
	}
	if v.IsNull() {
		return zed.NewValue(t, nil)
	}
	return zed.NewValue(t, v.Bytes()).Copy()
}

type sortEnv struct {
	c    *core.Ctx
	u    *universe
	rel  *orderRel
	mu   sync.Mutex
	hook [][2]int // (nspill, nvals) events of the current run
	// equivalents[token-1] = tokens equal to it under the asc/nullsMax comparator
	equiv [][]int
}

func newSortEnv(c *core.Ctx, u *universe, rel *orderRel) *sortEnv {
	e := &sortEnv{c: c, u: u, rel: rel}
	m := rel.cmp["am"]
	e.equiv = make([][]int, len(u.vals))
	for i := range m {
		for j := range m[i] {
			if m[i][j] == 0 && m[j][i] == 0 {
				e.equiv[i] = append(e.equiv[i], j+1)
			}
		}
	}
	verif.SetHook(func(site string, args ...any) {
		if site == "spill.MergeSort.Spill" && len(args) == 2 {
			e.mu.Lock()
			e.hook = append(e.hook, [2]int{args[0].(int), args[1].(int)})
			e.mu.Unlock()
		}
	})
	return e
}

var layouts = [][]int{{0, 1, 2}, {1, 0, 2}, {2, 1, 0}, {1, 2, 0}} // permutations of (keys..., id, pad) groups

// buildRecord makes {k.., id, pad} (layout 0) or a permutation of the three
// groups, padded so that len(Bytes()) == size (size 0: no pad field value).
func (e *sortEnv) buildRecord(zctx *zed.Context, keys []zed.Value, omitKey bool, id int, layout int, size int) zed.Value {
	mk := func(pad string) zed.Value {
		var kn []string
		var kv []zed.Value
		if !omitKey {
			for i, v := range keys {
				kn = append(kn, keyNames[i])
				kv = append(kv, v)
			}
		}
		groups := [][]string{kn, {"id"}, {"pad"}}
		gvals := [][]zed.Value{kv, {zed.NewInt64(int64(id))}, {zed.NewString(pad)}}
		var names []string
		var vals []zed.Value
		for _, g := range layouts[layout] {
			names = append(names, groups[g]...)
			vals = append(vals, gvals[g]...)
		}
		return rec(zctx, names, vals)
	}
	r := mk("")
	if size == 0 {
		return r
	}
	n := size - len(r.Bytes())
	if n < 0 {
		panic(fmt.Sprintf("record larger than %d bytes: %s", size, zson.FormatValue(r)))
	}
	r = mk(strings.Repeat("x", n))
	if len(r.Bytes()) != size {
		panic(fmt.Sprintf("cannot pad to %d bytes (got %d): %s", size, len(r.Bytes()), zson.FormatValue(r)))
	}
	return r
}

func randomSpec(rng *rand.Rand) sortSpec {
	nk := 1
	switch x := rng.Intn(10); {
	case x >= 8:
		nk = 3
	case x >= 5:
		nk = 2
	}
	s := sortSpec{NullsFirst: rng.Intn(3) == 0, Reverse: rng.Intn(4) == 0}
	for i := 0; i < nk; i++ {
		s.Keys = append(s.Keys, sortKey{Desc: rng.Intn(3) == 0})
	}
	return s
}

// makePayload chooses a sort spec and concrete records for key classes
// 1..K such that class i < class i+1 under the operator's comparator.
func (e *sortEnv) makePayload(rng *rand.Rand, keys []int, K int) *payload {
	u := e.u
	p := &payload{Spec: randomSpec(rng), Family: familyNames[rng.Intn(len(familyNames))], zctx: zed.NewContext()}
	// Heterogeneous record shapes expose the known finding F-C06-2; they are kept
	// apart (and panic-free: a cached field index is always < the number of fields
	// of any record type in the payload) so that the other payloads stay clean.
	switch x := rng.Intn(6); {
	case x == 0 || x == 1:
		p.Mixed = true // same fields, different positions
	case x == 2 && len(p.Spec.Keys) == 1:
		p.Omit = true // key first or absent
	}
	fam := u.family(p.Family)
	cmp := p.Spec.comparator(u.zctx)
	nk := len(p.Spec.Keys)
	// candidate key tuples (as tokens); few distinct values per column so that
	// later keys matter
	type tuple []int
	var classes []tuple
	pool := make([]*uval, 2+rng.Intn(4))
	for tries := 0; len(classes) < K; tries++ {
		if tries > 200 {
			panic("cannot find K key classes")
		}
		if tries%20 == 0 {
			for i := range pool {
				pool[i] = fam[rng.Intn(len(fam))]
			}
		}
		t := make(tuple, nk)
		for i := range t {
			if i == 0 && nk > 1 {
				t[i] = pool[rng.Intn(len(pool))].Idx
			} else {
				t[i] = fam[rng.Intn(len(fam))].Idx
			}
		}
		rt := e.tupleRecord(t)
		dup := false
		for _, c := range classes {
			if cmp.Compare(e.tupleRecord(c), rt) == 0 {
				dup = true
				break
			}
		}
		if !dup {
			classes = append(classes, t)
		}
	}
	sort.SliceStable(classes, func(i, j int) bool {
		return cmp.Compare(e.tupleRecord(classes[i]), e.tupleRecord(classes[j])) < 0
	})
	// records: a class member is the class tuple or an equal-but-different one
	type member struct {
		vals []zed.Value
		omit bool
	}
	members := make([]member, len(keys))
	for i, k := range keys {
		t := append(tuple(nil), classes[k-1]...)
		for col := range t {
			if rng.Intn(2) == 0 {
				continue
			}
			var alts []int
			for _, a := range e.equiv[t[col]-1] {
				if inFamily(p.Family, u.vals[a-1]) {
					alts = append(alts, a)
				}
			}
			if len(alts) > 0 {
				t2 := append(tuple(nil), t...)
				t2[col] = alts[rng.Intn(len(alts))]
				if cmp.Compare(e.tupleRecord(t2), e.tupleRecord(classes[k-1])) == 0 {
					t = t2
				}
			}
		}
		m := member{}
		for _, tok := range t {
			m.vals = append(m.vals, xlate(p.zctx, u.vals[tok-1].val))
		}
		// a null single key may also be an absent field (missing == null for sort)
		if p.Omit && m.vals[0].IsNull() && rng.Intn(2) == 0 {
			m.omit = true
		}
		members[i] = m
	}
	size := 0
	for i, m := range members {
		if n := len(e.buildRecord(p.zctx, m.vals, m.omit, i+1, 0, 0).Bytes()); n > size {
			size = n
		}
	}
	size += 2
	p.recSize = size
	for i, m := range members {
		layout := 0
		if p.Mixed {
			layout = rng.Intn(len(layouts))
		}
		r := e.buildRecord(p.zctx, m.vals, m.omit, i+1, layout, size)
		p.recs = append(p.recs, r)
		p.Records = append(p.Records, zson.FormatValue(r))
	}
	p.Types = typesOf(p.zctx)
	return p
}

// tupleRecord is {k:..,k2:..,k3:..} for comparing key tuples with the operator's comparator.
func (e *sortEnv) tupleRecord(t []int) zed.Value {
	var vals []zed.Value
	for _, tok := range t {
		vals = append(vals, e.u.vals[tok-1].val)
	}
	return rec(e.u.zctx, keyNames[:len(t)], vals)
}

var idRE = regexp.MustCompile(`\bid:(-?\d+)`)

// runSort runs the real sort operator (compiled query) over recs cut into
// batches of the given sizes with sort.MemMaxBytes = memMax.
func (e *sortEnv) runSort(zctx *zed.Context, prog string, recs []zed.Value, sizes []int, memMax int) (rows []string, ids []int, spills [][2]int, err error) {
	var batches [][]zed.Value
	at := 0
	for _, s := range sizes {
		batches = append(batches, recs[at:at+s])
		at += s
	}
	e.mu.Lock()
	e.hook = nil
	e.mu.Unlock()
	save := sortop.MemMaxBytes
	sortop.MemMaxBytes = memMax
	res := flowh.RunReaders(context.Background(), prog, flowh.Opts{Zctx: zctx}, zctx, &batchReader{batches: batches})
	sortop.MemMaxBytes = save
	e.mu.Lock()
	spills = e.hook
	e.hook = nil
	e.mu.Unlock()
	if res.Err != nil {
		return nil, nil, spills, res.Err
	}
	for _, r := range res.Rows {
		m := idRE.FindStringSubmatch(r)
		id := 0
		if m != nil {
			id, _ = strconv.Atoi(m[1])
		}
		ids = append(ids, id)
	}
	return res.Rows, ids, spills, nil
}

// sortWitness is the re-runnable form of a sort case.
type sortWitness struct {
	Kind    string   `json:"kind"` // "sort"
	Program string   `json:"program"`
	Spec    sortSpec `json:"spec"`
	Records []string `json:"records"`
	Types   []string `json:"types,omitempty"` // complex types of the query context in id order
	Sizes   []int    `json:"sizes"`
	MemMax  int      `json:"mem_max_bytes"`
	MemRef  int      `json:"mem_max_bytes_reference,omitempty"`
	Got     []string `json:"got,omitempty"`
	Want    []int    `json:"want_ids,omitempty"`
	Mixed   bool     `json:"mixed_shapes"`
	Omit    bool     `json:"key_absent"`
	Family  string   `json:"family,omitempty"`
}

// oracle evaluates the property on one real output; it returns the violated
// clause ("" = holds) and a description.
func (e *sortEnv) oracle(zctx *zed.Context, spec sortSpec, recs []zed.Value, inRows []string, rows []string, ids []int) (clause, what string) {
	n := len(recs)
	if len(rows) != n {
		return "perm", fmt.Sprintf("%d values in, %d values out", n, len(rows))
	}
	seen := make([]bool, n+1)
	for i, id := range ids {
		if id < 1 || id > n || seen[id] {
			return "perm", fmt.Sprintf("output position %d: value %s is not an unused input value", i+1, rows[i])
		}
		seen[id] = true
		if rows[i] != inRows[id-1] {
			return "perm", fmt.Sprintf("output value %s differs from input value %s", rows[i], inRows[id-1])
		}
	}
	cmp := spec.comparator(zctx)
	for i := 0; i < n; i++ {
		for j := i + 1; j < n; j++ {
			switch v := cmp.Compare(recs[ids[i]-1], recs[ids[j]-1]); {
			case v > 0:
				return "order", fmt.Sprintf("output position %d (%s) compares greater than position %d (%s)", i+1, rows[i], j+1, rows[j])
			case v == 0 && ids[i] > ids[j]:
				return "stable", fmt.Sprintf("equal keys out of input order: %s before %s", rows[i], rows[j])
			}
		}
	}
	// documented nulls placement for the primary key: last, or first with -nulls first
	k0 := expr.NewDottedExpr(zctx, field.Path{"k"})
	isNull := func(id int) bool {
		v := k0.Eval(expr.NewContext(), recs[id-1])
		return v.IsNull() || v.IsMissing()
	}
	for i := 0; i+1 < n; i++ {
		a, b := isNull(ids[i]), isNull(ids[i+1])
		if spec.NullsFirst && !a && b {
			return "nulls", fmt.Sprintf("-nulls first, but a null primary key (%s) follows a non-null one (%s)", rows[i+1], rows[i])
		}
		if !spec.NullsFirst && a && !b {
			return "nulls", fmt.Sprintf("nulls last, but a null primary key (%s) precedes a non-null one (%s)", rows[i], rows[i+1])
		}
	}
	return "", ""
}

func specClass(s sortSpec) string {
	c := fmt.Sprintf("%dkey", len(s.Keys))
	for _, k := range s.Keys {
		if k.Desc {
			c += "d"
		} else {
			c += "a"
		}
	}
	if s.Reverse {
		c += "-r"
	}
	if s.NullsFirst {
		c += "-nf"
	}
	return c
}

// checkGroup replays every behaviour of one (keys, sizes) group -- one per
// limit -- on the real operator with the same payload.
func (e *sortEnv) checkGroup(cases []sortCase, K int) {
	c := e.c
	g := cases[0]
	h := fnv.New64a()
	fmt.Fprintf(h, "%d|%s|%s", c.Seed, intsKey(g.Keys), intsKey(g.Sizes))
	rng := rand.New(rand.NewSource(int64(h.Sum64())))
	p := e.makePayload(rng, g.Keys, K)
	prog := p.Spec.program()
	inRows := p.Records
	type result struct {
		rows []string
		ids  []int
		lim  int
		runs int
	}
	var results []result
	sort.Slice(cases, func(i, j int) bool { return cases[i].Limit > cases[j].Limit }) // in-memory first
	for _, sc := range cases {
		memMax := sc.Limit * p.recSize
		rows, ids, spills, err := e.runSort(p.zctx, prog, p.recs, sc.Sizes, memMax)
		w := sortWitness{Kind: "sort", Program: prog, Spec: p.Spec, Records: p.Records, Types: p.Types, Sizes: sc.Sizes, MemMax: memMax, Mixed: p.Mixed, Omit: p.Omit, Family: p.Family, Got: rows, Want: sc.Out}
		ties := false
		seen := map[int]bool{}
		for _, k := range sc.Keys {
			if seen[k] {
				ties = true
			}
			seen[k] = true
		}
		c.Eval(fmt.Sprintf("sort|%s|%s|%d|%s|%s|%v", intsKey(sc.Keys), intsKey(sc.Sizes), sc.Limit, prog, p.Family, p.Mixed || p.Omit), len(spills) > 0 || ties)
		c.Add("sort_runs_replayed", 1)
		if len(spills) > 0 {
			c.Add("sort_cases_with_spill", 1)
			c.Add("sort_spill_runs_observed", int64(len(spills)))
		}
		if len(spills) >= 2 {
			c.Add("sort_cases_with_merge_of_2plus_runs", 1)
		}
		if err != nil {
			c.Violate("sort-error:"+specClass(p.Spec), fmt.Sprintf("`%s` failed with %v (mem limit %d bytes)", prog, err, memMax), w)
			continue
		}
		// spec -> code: spill pattern
		var wantRuns [][2]int
		for i, r := range sc.Runs {
			wantRuns = append(wantRuns, [2]int{i + 1, len(r)})
		}
		if fmt.Sprint(wantRuns) != fmt.Sprint(spills) {
			c.Drift("sort spill pattern: keys %v sizes %v limit %d: spec predicts runs %v, hook reported %v", sc.Keys, sc.Sizes, sc.Limit, wantRuns, spills)
		}
		clause, what := e.oracle(p.zctx, p.Spec, p.recs, inRows, rows, ids)
		spilled := len(spills) > 0
		if clause != "" {
			sig := fmt.Sprintf("sort-%s:%s:%s", clause, map[bool]string{true: "spilled", false: "in-memory"}[spilled], specClass(p.Spec))
			if (p.Mixed || p.Omit) && len(spills) >= 2 && len(results) > 0 && results[0].runs == 0 {
				// known shape F-C06-2: only when the in-memory run of the same input was fine
				if cl, _ := e.oracle(p.zctx, p.Spec, p.recs, inRows, results[0].rows, results[0].ids); cl == "" {
					sig = sigF2
				}
			}
			c.Violate(sig, fmt.Sprintf("`%s` with sort.MemMaxBytes=%d (%d spilled runs) over %d values in batches %v: %s", prog, memMax, len(spills), len(p.recs), sc.Sizes, what), w)
		} else if fmt.Sprint(ids) != fmt.Sprint(sc.Out) {
			// the oracle determines the output uniquely; a mismatch with the model means the class mapping is off
			c.Drift("sort output ids %v differ from the spec's %v although the oracle holds (%s)", ids, sc.Out, prog)
		} else {
			c.Add("traces_validated_against_impl", 1)
		}
		results = append(results, result{rows, ids, sc.Limit, len(spills)})
	}
	// identical across memory limits
	for i := 1; i < len(results); i++ {
		if !flowh.Equal(results[0].rows, results[i].rows) {
			sig := "sort-limit-dependent:" + specClass(p.Spec)
			if (p.Mixed || p.Omit) && results[i].runs >= 2 {
				sig = sigF2
			}
			w := sortWitness{Kind: "sort", Program: prog, Spec: p.Spec, Records: p.Records, Types: p.Types, Sizes: g.Sizes, MemMax: results[i].lim * p.recSize, MemRef: results[0].lim * p.recSize, Mixed: p.Mixed, Omit: p.Omit, Family: p.Family, Got: results[i].rows}
			c.Violate(sig, fmt.Sprintf("`%s` over the same %d values gives a different result with sort.MemMaxBytes=%d (%d runs) than with %d (%d runs)", prog, len(p.recs), results[i].lim*p.recSize, results[i].runs, results[0].lim*p.recSize, results[0].runs), w)
		}
	}
	if len(cases) > 0 && rng.Intn(400) == 0 {
		c.Sample(map[string]any{"kind": "sort", "program": prog, "keys": g.Keys, "sizes": g.Sizes, "limits": len(cases), "records": p.Records, "spec_output_ids": cases[0].Out})
	}
}

// sampledInputs are larger random inputs handed to TLC (ss_inputs.json) so that
// the spec predicts them as well.
func sampledInputs(rng *rand.Rand, count, maxN, maxB, K int) []map[string]any {
	var out []map[string]any
	for i := 0; i < count; i++ {
		n := 4 + rng.Intn(maxN-3)
		keys := make([]int, n)
		for j := range keys {
			keys[j] = 1 + rng.Intn(K)
		}
		nb := 1 + rng.Intn(maxB)
		if nb > n {
			nb = n
		}
		// a random composition of n into nb parts
		cuts := rng.Perm(n - 1)[:nb-1]
		sort.Ints(cuts)
		var sizes []int
		prev := 0
		for _, cpos := range cuts {
			sizes = append(sizes, cpos+1-prev)
			prev = cpos + 1
		}
		sizes = append(sizes, n-prev)
		for _, lim := range []int{1 + rng.Intn(3), 2 + rng.Intn(n), 999} {
			out = append(out, map[string]any{"keys": keys, "sizes": sizes, "limit": lim})
		}
	}
	return out
}
