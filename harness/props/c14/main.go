// C14 -- pool contents always equal the loaded values minus the deleted ones.
//
// specs/LakeAbs.tla is the sequential reference model (operations as coded at
// the level of commit objects / data objects, next to the value-level "simple
// model" live[b]).  TLC checks Replayable, ContentsEqualLive, ObjectsDisjoint,
// ObjectsSorted, TipsReadable, VacuumKeepsTip, FailedUntouched and Immutable
// over ALL histories of MaxOps operations and prints every history with its
// predicted results and observable state.  Every history is replayed on the
// real lake (lake/api.Interface over an in-memory storage engine, fresh handle
// per step) and after every step the real branch contents, scan order,
// repeatability, object metadata and seek indexes are compared with the model
// and with the bytes actually stored.
package main

import (
	"context"
	"fmt"
	"strings"

	"verif/core"
	"verif/lakeh"
)

var c14Ops = []string{"load", "delete", "deletewhere", "compact", "addvec", "delvec", "vacuum"}
var c14Inv = []string{"TypeOK", "Replayable", "ContentsEqualLive", "ObjectsDisjoint", "ObjectsSorted", "TipsReadable", "VacuumKeepsTip", "FailedUntouched"}

func models(c *core.Ctx) []*lakeh.AbsModel {
	base := lakeh.AbsModel{
		KeyOf: []int{1, 1, 2, 9, 0, 10}, NullKey: 9,
		Batches:  [][]int{{1, 2}, {3, 4}, {5, 6}},
		Preds:    [][]int{{1}, {2, 9}, {0, 1, 2}},
		Branches: []string{"main"}, OpKinds: c14Ops,
		Invariants: c14Inv, Properties: []string{"Immutable"},
	}
	var out []*lakeh.AbsModel
	add := func(name, mode, dir string, n int) {
		m := base
		m.Name, m.ObjMode, m.Dir, m.MaxOps = name, mode, dir, n
		out = append(out, &m)
	}
	// contents are per branch: loads on one branch never show up on another
	br := base
	br.Name, br.ObjMode, br.Dir, br.MaxOps = "c14_branches", "single", "asc", 3
	br.Branches = []string{"main", "b1"}
	br.OpKinds = []string{"load", "delete", "deletewhere", "branch"}
	br.Batches = [][]int{{1, 2}, {3, 4}}
	br.Shape = [][]string{{"load", "branch"}, {"load", "branch"}, {"load", "delete", "deletewhere"}}
	out = append(out, &br)
	// multi-value objects with nested / overlapping / disjoint key ranges (Lister, Slicer, merge),
	// compaction of all of them
	rg := base
	rg.Name, rg.ObjMode, rg.Dir, rg.MaxOps = "c14_ranges", "all", []string{"asc", "desc"}[int(c.Seed)%2], 4
	rg.KeyOf = []int{1, 8, 2, 3, 5, 6, 3, 5}
	rg.Batches = [][]int{{1, 2}, {3, 4}, {5, 6}, {7, 8}}
	rg.Preds = [][]int{{3}, {5, 6}}
	rg.OpKinds = []string{"load", "compact", "deletewhere"}
	rg.Shape = [][]string{{"load"}, {"load"}, {"load"}, {"load", "compact", "deletewhere"}}
	out = append(out, &rg)
	// values with an empty body ({}), tiny seek stride, keys of mixed encoded size
	ev := base
	ev.Name, ev.ObjMode, ev.Dir, ev.MaxOps = "c14_empty_stride", "all", []string{"asc", "desc"}[int(c.Seed/2)%2], 3
	ev.KeyOf = []int{1, 2, 7, 10, 6, 10}
	ev.Batches = [][]int{{1, 2, 3, 5}, {4}, {6}}
	ev.EmptyVal, ev.Stride, ev.BigFrom = 4, 2, 5
	ev.Preds = [][]int{{1}, {2, 7}, {6, 7}}
	ev.OpKinds = []string{"load", "deletewhere", "compact", "delete"}
	out = append(out, &ev)
	// an empty-bodied value at the end of a buffer that is flushed per value (1-byte threshold)
	es := base
	es.Name, es.ObjMode, es.Dir, es.MaxOps = "c14_empty_single", "single", "asc", 3
	es.KeyOf = []int{1, 2, 10, 1}
	es.Batches = [][]int{{1, 2, 3}, {4}}
	es.EmptyVal = 3
	es.Preds = [][]int{{1}, {2}, {1, 2}}
	es.OpKinds = []string{"load", "deletewhere", "delete", "compact"}
	out = append(out, &es)
	if c.Quick() {
		add("c14_single_asc", "single", "asc", 3)
		add("c14_all_desc", "all", "desc", 3)
	} else {
		add("c14_single_asc", "single", "asc", 4)
		add("c14_single_desc", "single", "desc", 4)
		add("c14_all_asc", "all", "asc", 4)
		add("c14_all_desc", "all", "desc", 4)
	}
	return out
}

type witness struct {
	Model   *lakeh.AbsModel `json:"model"`
	History lakeh.History   `json:"history"`
	Issue   lakeh.Issue     `json:"issue"`
	Warm    bool            `json:"warm,omitempty"`
}

func opKinds(h lakeh.History) string {
	seen := map[string]bool{}
	var ks []string
	for _, s := range h {
		if !seen[s.Op] {
			seen[s.Op] = true
			ks = append(ks, s.Op)
		}
	}
	return strings.Join(ks, ",")
}

func report(c *core.Ctx, m *lakeh.AbsModel) func(h lakeh.History, upto int, is lakeh.Issue) {
	return reportW(c, m, false)
}

func reportW(c *core.Ctx, m *lakeh.AbsModel, warm bool) func(h lakeh.History, upto int, is lakeh.Issue) {
	return func(h lakeh.History, upto int, is lakeh.Issue) {
		hh := append(lakeh.History(nil), h[:upto]...)
		switch is.Kind {
		case lakeh.KResult:
			c.Drift("%s: %s", is.Detail, hh)
		case lakeh.KCommit:
			// commit immutability is C13's claim; reported there.
			c.Drift("(C13) %s: %s", is.Detail, hh)
		default:
			last := hh[len(hh)-1].Op
			c.Violate(is.Kind+":"+last+":"+m.ObjMode, fmt.Sprintf("%s [pool order %s, objects %s; history: %s]", is.Detail, m.Dir, m.ObjMode, hh),
				witness{Model: m, History: hh, Issue: is, Warm: warm})
		}
	}
}

func run(c *core.Ctx) error {
	ctx := context.Background()
	c.Rule("cases = operation histories generated by TLC from LakeAbs.tla (all histories of MaxOps operations, plus seeded random longer ones), each distinct prefix replayed once on the real lake; non-trivial = the prefix contains at least one operation besides an initial load")
	c.Trust("TLC 1.8.0; in-memory storage.Engine of the harness; uid-based projection of query results; real comparator expr.NewValueCompareFn for the order oracle")
	c.Assume("single pool, key field k, values are small records {k,u}; object layouts 1-byte and default threshold only; one client (concurrency is C12)")
	if c.Replay != "" {
		var w witness
		if _, err := c.ReplayWitness(&w); err != nil {
			return err
		}
		rp := &lakeh.Replayer{C: c, M: w.Model, Ctx: ctx, Warm: w.Warm, OnIssue: reportW(c, w.Model, w.Warm)}
		return rp.ReplayAll([]lakeh.History{w.History})
	}
	for _, m := range models(c) {
		hs, res := lakeh.GenHistories(c, m, "", 8)
		if res == nil {
			return nil
		}
		if c.Quick() {
			hs = lakeh.Sub(hs, 450, c.Seed)
		}
		c.Logf("%s: TLC %d states, replaying %d complete histories", m.Name, res.Distinct, len(hs))
		rp := &lakeh.Replayer{C: c, M: m, Ctx: ctx, OnIssue: report(c, m)}
		if err := rp.ReplayAll(hs); err != nil {
			return err
		}
		c.Add("traces_validated_against_impl", int64(len(hs)))
		c.Add("replayed_steps", rp.Steps)
		c.Logf("%s: replayed %d steps, drifts %d", m.Name, rp.Steps, rp.Drifts)
		if len(hs) > 0 {
			c.Sample(map[string]any{"model": m.Name, "history": hs[len(hs)/2].String()})
			c.Sample(map[string]any{"model": m.Name, "history": hs[len(hs)-1].String()})
		}
	}
	// the same contents through ONE long-lived handle (warm journal and snapshot caches, as in
	// the service), judged after every step by a fresh handle as well
	{
		m := lakeh.WarmModel(c.Quick())
		hs, res := lakeh.GenHistories(c, m, "", 8)
		if res == nil {
			return nil
		}
		if c.Quick() {
			hs = lakeh.Sub(hs, 700, c.Seed)
		} else {
			hs = lakeh.Sub(hs, 2500, c.Seed)
		}
		rp := &lakeh.Replayer{C: c, M: m, Ctx: ctx, Warm: true, OnIssue: reportW(c, m, true)}
		if err := rp.ReplayAll(hs); err != nil {
			return err
		}
		c.Add("traces_validated_against_impl", int64(len(hs)))
		c.Add("replayed_steps", rp.Steps)
		c.Logf("%s: TLC %d states, %d histories replayed through one long-lived handle, %d steps", m.Name, res.Distinct, len(hs), rp.Steps)
		if len(hs) > 0 {
			c.Sample(map[string]any{"model": m.Name, "history": hs[len(hs)/2].String()})
		}
	}
	// longer random histories (simulation), warm-cache-free tree replay again
	n := 6
	depth := 8
	if !c.Quick() {
		n, depth = 400, 12
	}
	for _, mode := range []string{"single", "all"} {
		var m lakeh.AbsModel
		for _, x := range models(c) {
			if x.Shape == nil && len(x.Branches) == 1 && x.EmptyVal == 0 {
				m = *x
			}
		}
		m.Name, m.ObjMode, m.MaxOps = "c14_sim_"+mode, mode, depth
		m.Dir = []string{"asc", "desc"}[int(c.Seed)%2]
		hs, res := lakeh.GenHistories(c, &m, fmt.Sprintf("num=%d", n), 1)
		if res == nil {
			return nil
		}
		rp := &lakeh.Replayer{C: c, M: &m, Ctx: ctx, OnIssue: report(c, &m)}
		if err := rp.ReplayAll(hs); err != nil {
			return err
		}
		c.Add("traces_validated_against_impl", int64(len(hs)))
		c.Add("replayed_steps", rp.Steps)
		c.Logf("%s: %d random histories of %d ops, %d steps", m.Name, len(hs), depth, rp.Steps)
		if len(hs) > 0 {
			c.Sample(map[string]any{"model": m.Name, "history": hs[0].String()})
		}
	}
	c.Set("exhaustive", !c.Quick())
	return nil
}

func main() { core.Main("C14", "model_checking", run) }
