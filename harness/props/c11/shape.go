package main

// Binding of specs/ValueShape.tla: every (type, body) pair TLC enumerated around
// the bounds of the value encoding is encoded for real, judged by the real
// zed.Value.Validate and read through a validating zngio reader.

import (
	"bytes"
	"encoding/binary"
	"encoding/json"
	"fmt"

	zed "github.com/brimdata/super"
	"github.com/brimdata/super/zio/zngio"

	"verif/core"
)

type shapeType struct {
	K    string      `json:"k"`
	N    int         `json:"n,omitempty"`
	Name string      `json:"name,omitempty"` // fixed-width primitive
	Ws   []int       `json:"ws,omitempty"`   // ... and its legal widths
	F    []shapeType `json:"f,omitempty"`
	M    []shapeType `json:"m,omitempty"`
	E    *shapeType  `json:"e,omitempty"`
	Key  *shapeType  `json:"key,omitempty"`
	Val  *shapeType  `json:"val,omitempty"`
	// union: zed.Context orders the member types canonically; perm[i] is the real tag of the spec's member i
	perm []int
}

type shapeBody struct {
	K    string      `json:"k"`
	N    int         `json:"n,omitempty"`
	Len  int         `json:"len,omitempty"` // k = "bytes": a primitive body of Len bytes
	Es   []shapeBody `json:"es,omitempty"`
	Over bool        `json:"over,omitempty"`
}

type shapeRow struct {
	Type       shapeType `json:"type"`
	Body       shapeBody `json:"body"`
	Consistent bool      `json:"consistent"`
	Why        string    `json:"why"`
}

func (t *shapeType) build(zctx *zed.Context) (zed.Type, error) {
	switch t.K {
	case "int":
		return zed.TypeInt64, nil
	case "fixed":
		typ := zed.LookupPrimitive(t.Name)
		if typ == nil {
			return nil, fmt.Errorf("shape: no primitive type %q", t.Name)
		}
		return typ, nil
	case "enum":
		var syms []string
		for i := 0; i < t.N; i++ {
			syms = append(syms, fmt.Sprintf("s%d", i))
		}
		return zctx.LookupTypeEnum(syms), nil
	case "rec":
		var fields []zed.Field
		for i := range t.F {
			ft, err := t.F[i].build(zctx)
			if err != nil {
				return nil, err
			}
			fields = append(fields, zed.NewField(fmt.Sprintf("f%d", i), ft))
		}
		return zctx.LookupTypeRecord(fields)
	case "union":
		var ms []zed.Type
		for i := range t.M {
			mt, err := t.M[i].build(zctx)
			if err != nil {
				return nil, err
			}
			ms = append(ms, mt)
		}
		ut := zctx.LookupTypeUnion(append([]zed.Type{}, ms...))
		t.perm = nil
		for _, m := range ms {
			t.perm = append(t.perm, ut.TagOf(m))
		}
		return ut, nil
	case "arr", "set":
		et, err := t.E.build(zctx)
		if err != nil {
			return nil, err
		}
		if t.K == "arr" {
			return zctx.LookupTypeArray(et), nil
		}
		return zctx.LookupTypeSet(et), nil
	case "map":
		kt, err := t.Key.build(zctx)
		if err != nil {
			return nil, err
		}
		vt, err := t.Val.build(zctx)
		if err != nil {
			return nil, err
		}
		return zctx.LookupTypeMap(kt, vt), nil
	}
	return nil, fmt.Errorf("shape type %q", t.K)
}

func (t *shapeType) text() string {
	b, _ := json.Marshal(t)
	return string(b)
}

var shapeInt = shapeType{K: "int"}

// counted encodes a little-endian variable-length unsigned integer (zero = empty).
func counted(u uint64) []byte {
	b := []byte{}
	for u != 0 {
		b = append(b, byte(u))
		u >>= 8
	}
	return b
}

// encodeBody returns the body bytes of v for a position of type t (nil = null).
func encodeBody(v *shapeBody, t *shapeType) []byte {
	switch v.K {
	case "null":
		return nil
	case "bytes":
		return make([]byte, v.Len) // non-nil also for Len 0
	case "leaf":
		if t.K == "selector" {
			// a union selector: in-range values name the spec's member, translated to the real tag
			n := v.N
			if n >= 0 && n < len(t.perm) {
				n = t.perm[n]
			}
			if n >= 0 {
				return counted(uint64(n) << 1)
			}
			return counted(uint64(-n)<<1 | 1)
		}
		if t.K == "enum" {
			return counted(uint64(v.N)) // enum selector: unsigned
		}
		// signed (zigzag): int64 values and union selectors
		if v.N >= 0 {
			return counted(uint64(v.N) << 1)
		}
		return counted(uint64(-v.N)<<1 | 1)
	}
	out := []byte{}
	for i := range v.Es {
		et := &shapeInt
		switch t.K {
		case "rec":
			if i < len(t.F) {
				et = &t.F[i]
			}
		case "arr", "set":
			et = t.E
		case "map":
			if i%2 == 0 {
				et = t.Key
			} else {
				et = t.Val
			}
		case "union":
			if i == 0 {
				et = &shapeType{K: "selector", perm: t.perm}
			}
			if i == 1 {
				sel := 0
				if v.Es[0].K == "leaf" {
					sel = v.Es[0].N
				}
				if sel >= 0 && sel < len(t.M) {
					et = &t.M[sel]
				}
			}
		}
		eb := encodeBody(&v.Es[i], et)
		if eb == nil {
			out = append(out, 0)
			continue
		}
		out = binary.AppendUvarint(out, uint64(len(eb))+1)
		out = append(out, eb...)
	}
	if v.Over {
		// one more element whose tag claims three bytes that the container does not hold
		out = binary.AppendUvarint(out, 4)
	}
	return out
}

// checkShapes compares the real Validate (and the harness' own checker) with the spec's table and
// returns the read cases that push every pair through a validating zngio reader.
func checkShapes(c *core.Ctx, rows []shapeRow) ([]Case, error) {
	var cases []Case
	zctx := zed.NewContext()
	whys := map[string]int{}
	for i := range rows {
		r := &rows[i]
		typ, err := r.Type.build(zctx)
		if err != nil {
			return nil, err
		}
		body := encodeBody(&r.Body, &r.Type)
		val := zed.NewValue(typ, body)
		realErr := val.Validate()
		own := structCheck(typ, body, 0)
		c.Add("shape_pairs_compared", 1)
		whys[r.Why]++
		w := map[string]any{"kind": "shape", "type": r.Type, "body": r.Body, "bytes": fmt.Sprintf("%x", body), "spec_consistent": r.Consistent, "spec_why": r.Why, "real_validate_error": fmt.Sprint(realErr)}
		if (own == "") != r.Consistent {
			c.Drift("shape: the harness' structural checker and ValueShape.tla disagree on type %s body %x: spec %v (%s), checker %q", r.Type.text(), body, r.Consistent, r.Why, own)
		}
		switch {
		case !r.Consistent && realErr == nil:
			saveKnownWitness(c, "validate-accepts:"+r.Why, fmt.Sprintf("zed.Value.Validate accepts type %s body %x (%s)", r.Type.text(), body, r.Why), w)
			c.Violate("validate-accepts:"+r.Why, fmt.Sprintf("zed.Value.Validate accepts a value that is not structurally consistent with its type (%s): type %s, body bytes %x", r.Why, r.Type.text(), body), w)
		case r.Consistent && realErr != nil:
			c.Drift("shape: Validate rejects a value the spec calls consistent: type %s body %x: %v", r.Type.text(), body, realErr)
		}
		c.Eval(fmt.Sprintf("shape|%s|%x", r.Type.text(), body), !r.Consistent)
		if i%61 == 7 && sampled["shape"] < 2 {
			sampled["shape"]++
			c.Sample(w)
		}
		// the same pair as a one-value ZNG stream written by the real writer (it does not validate)
		var buf bytes.Buffer
		zw := zngio.NewWriterWithOpts(nopWC{&buf}, zngio.WriterOpts{FrameThresh: 1})
		if err := zw.Write(val); err != nil {
			return nil, fmt.Errorf("shape: writer: %w", err)
		}
		if err := zw.Close(); err != nil {
			return nil, err
		}
		for j, o := range []Opts{{Threads: 1, ReadMax: 1 << 20, ReadSize: 4096, Validate: true}, {Threads: 2, ReadMax: 1 << 20, ReadSize: 4096, Validate: true}} {
			cases = append(cases, Case{Kind: "read", Reader: "zng", Consumer: "drain", Opts: o, Seed: "zng/shape", Class: "shape." + r.Why, Where: r.Type.K,
				Note: r.Type.text(), Sink: []string{"zson", "zjson"}[(i+j)%2], Data: append([]byte{}, buf.Bytes()...)})
		}
		if i%3 == 0 {
			cases = append(cases, Case{Kind: "read", Reader: "autostream", Consumer: "drain", Opts: Opts{Threads: 2, ReadMax: 1 << 20, ReadSize: 4096, Validate: true}, Seed: "zng/shape",
				Class: "shape." + r.Why, Where: r.Type.K, Note: r.Type.text(), Data: append([]byte{}, buf.Bytes()...)})
		}
	}
	c.Set("shape_rows_by_clause", whys)
	return cases, nil
}
