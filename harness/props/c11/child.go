package main

// Child mode: run faulted inputs against the real readers.  Every case runs
// under recover(), a watchdog, an allocation meter and a goroutine-leak check.
// A panic in a goroutine the reader started cannot be recovered, so cases run in
// a child process; the parent learns from the BEGIN/RESULT protocol on stdout
// which case killed the child.

import (
	"bufio"
	"bytes"
	"context"
	"encoding/json"
	"errors"
	"fmt"
	"io"
	"os"
	"regexp"
	"runtime"
	"runtime/metrics"
	"runtime/pprof"
	"strings"
	"time"

	zed "github.com/brimdata/super"
	"github.com/brimdata/super/zbuf"
	"github.com/brimdata/super/zio"
	"github.com/brimdata/super/zio/anyio"
	"github.com/brimdata/super/zio/csvio"
	"github.com/brimdata/super/zio/zngio"
)

type Opts struct {
	Threads  int  `json:"threads,omitempty"`
	ReadMax  int  `json:"readmax,omitempty"`
	ReadSize int  `json:"readsize,omitempty"`
	Validate bool `json:"validate,omitempty"`
}

// Case is one re-runnable faulted input (also the witness format).
type Case struct {
	ID       int    `json:"id"`
	Kind     string `json:"kind"`     // "read" | "query"
	Reader   string `json:"reader"`   // zng vng zson zjson json csv tsv zeek line | auto
	Consumer string `json:"consumer"` // drain | stop:<k> | cancel:<k>
	Opts     Opts   `json:"opts"`
	Seed     string `json:"seed"`
	Class    string `json:"class"`
	Where    string `json:"where"`
	Note     string `json:"note,omitempty"`
	Sink     string `json:"sink,omitempty"` // "" | zson | zjson: values are also written to this writer (zio.Copy)
	Data     []byte `json:"data"`
}

func (c *Case) sigBase() string {
	return c.Reader + ":" + c.Class + "@" + c.Where
}

type Result struct {
	ID        int      `json:"id"`
	Outcome   string   `json:"outcome"` // ok | panic | hang | leak | alloc | invalid | nilnil
	Values    int      `json:"values"`
	Err       string   `json:"err,omitempty"`
	EndedBy   string   `json:"ended"` // eof | error | stop | cancel | openerr
	Detail    string   `json:"detail,omitempty"`
	Site      string   `json:"site,omitempty"`      // function in the repository where it panicked / blocked
	Confirmed bool     `json:"confirmed,omitempty"` // hang / leak reproduced by an isolated re-run
	SlowOK    bool     `json:"slow_ok,omitempty"`   // first attempt timed out, the isolated re-run terminated
	Alloc     uint64   `json:"alloc"`
	Nanos     int64    `json:"ns"`
	Stack     string   `json:"stack,omitempty"`
	Trace     []tevent `json:"trace,omitempty"`
	Delivered string   `json:"delivered,omitempty"`
	Detected  string   `json:"detected,omitempty"`
}

const (
	leakWait  = 10 * time.Second
	maxValues = 200000
)

// caseWatchdog: a case that has not returned after this time is reported as a hang (the parent
// confirms it with an isolated re-run under a three times longer watchdog).
var caseWatchdog = func() time.Duration {
	if v := os.Getenv("C11_WATCHDOG_MS"); v != "" {
		var ms int
		fmt.Sscan(v, &ms)
		if ms > 0 {
			return time.Duration(ms) * time.Millisecond
		}
	}
	return 8 * time.Second
}()

var allocSample = []metrics.Sample{{Name: "/gc/heap/allocs:bytes"}}

func heapAllocs() uint64 {
	metrics.Read(allocSample)
	return allocSample[0].Value.Uint64()
}

var reFunc = regexp.MustCompile(`(?m)^(github\.com/brimdata/super[^\s(]*(?:\(\*?[A-Za-z0-9_]+\))?[^\s(]*)\(`)

var reClosure = regexp.MustCompile(`(\.func\d+)+(\.\d+)*$`)

// siteOf extracts the innermost repository function from a Go stack trace.
func siteOf(stack string) string {
	for _, m := range reFunc.FindAllStringSubmatch(stack, -1) {
		fn := strings.TrimPrefix(m[1], "github.com/brimdata/super/")
		fn = strings.TrimPrefix(fn, "github.com/brimdata/super.")
		if strings.HasPrefix(fn, "pkg/verif") {
			continue
		}
		// strip closure suffixes like .func1.2
		fn = reClosure.ReplaceAllString(fn, ".func")
		return fn
	}
	return "?"
}

type readerAtOnly struct{ *bytes.Reader }

// plainReader hides Seek/ReadAt so that the non-seekable code paths are used.
type plainReader struct{ r io.Reader }

func (p plainReader) Read(b []byte) (int, error) { return p.r.Read(b) }

func openReader(ctx context.Context, c *Case, zctx *zed.Context) (zio.Reader, io.Closer, zbuf.Scanner, error) {
	zopts := zngio.ReaderOpts{Threads: c.Opts.Threads, Max: c.Opts.ReadMax, Size: c.Opts.ReadSize, Validate: c.Opts.Validate}
	br := bytes.NewReader(c.Data)
	switch c.Reader {
	case "zng":
		r := zngio.NewReaderWithOpts(zctx, plainReader{br}, zopts)
		if strings.HasPrefix(c.Consumer, "cancel") || strings.HasPrefix(c.Consumer, "pull") {
			sc, err := r.NewScanner(ctx, nil)
			return nil, nil, sc, err
		}
		return r, r, nil, nil
	case "auto":
		zr, err := anyio.NewReaderWithOpts(zctx, br, nil, anyio.ReaderOpts{ZNG: zopts})
		return zr, zr, nil, err
	case "autostream": // non-seekable: the Recorder path
		zr, err := anyio.NewReaderWithOpts(zctx, plainReader{br}, nil, anyio.ReaderOpts{ZNG: zopts})
		return zr, zr, nil, err
	case "csv", "tsv":
		d := ','
		if c.Reader == "tsv" {
			d = '\t'
		}
		zr, err := anyio.NewReaderWithOpts(zctx, plainReader{br}, nil, anyio.ReaderOpts{Format: c.Reader, CSV: csvio.ReaderOpts{Delim: d}})
		return zr, zr, nil, err
	case "vng":
		zr, err := anyio.NewReaderWithOpts(zctx, br, nil, anyio.ReaderOpts{Format: "vng"})
		return zr, zr, nil, err
	default:
		zr, err := anyio.NewReaderWithOpts(zctx, plainReader{br}, nil, anyio.ReaderOpts{Format: c.Reader, ZNG: zopts})
		return zr, zr, nil, err
	}
}

// execRead runs the consumer named by c.Consumer over the reader.
func execRead(c *Case, res *Result) {
	ctx, cancel := context.WithCancel(context.Background())
	defer cancel()
	zctx := zed.NewContext()
	zr, closer, sc, err := openReader(ctx, c, zctx)
	if err != nil {
		res.EndedBy, res.Err = "openerr", err.Error()
		return
	}
	binary := c.Reader == "zng" || c.Reader == "vng" || c.Reader == "auto" || c.Reader == "autostream"
	// The Validate clause of the property is about the binary reader that has a validation option: zngio.
	validated := c.Reader == "zng" && c.Opts.Validate
	stopAt := -1
	mode := c.Consumer
	if i := strings.IndexByte(mode, ':'); i >= 0 {
		fmt.Sscan(mode[i+1:], &stopAt)
		mode = mode[:i]
	}
	var sink zio.WriteCloser
	if c.Sink != "" && (!binary || validated) {
		sink, _ = anyio.NewWriter(nopWC{&bytes.Buffer{}}, anyio.WriterOpts{Format: c.Sink})
	}
	check := func(v zed.Value) bool {
		if validated {
			if why := structCheck(v.Type(), v.Bytes(), 0); why != "" {
				res.Outcome, res.Detail = "invalid", why
				return false
			}
		}
		if sink != nil {
			if err := sink.Write(v); err != nil {
				sink = nil // a writer error ends the copy; that is a legal outcome
			}
		}
		return true
	}
	if sc != nil {
		// zbuf.Scanner consumers: "pull" (drain), "pull:k" (Pull(true) after k batches), "cancel:k" (cancel the parent after k batches)
		for {
			if stopAt >= 0 && res.Values >= stopAt {
				if mode == "cancel" {
					cancel()
					res.EndedBy = "cancel"
					// A consumer whose context was cancelled stops pulling and releases the scanner.
					sc.Pull(true)
					return
				}
				sc.Pull(true)
				res.EndedBy = "stop"
				return
			}
			b, err := sc.Pull(false)
			if err != nil {
				var ctrl *zbuf.Control
				if errors.As(err, &ctrl) {
					continue
				}
				res.EndedBy, res.Err = "error", err.Error()
				sc.Pull(true)
				return
			}
			if b == nil {
				res.EndedBy = "eof"
				return
			}
			for _, v := range b.Values() {
				if !check(v) {
					return
				}
			}
			res.Values++ // counts batches in scanner mode
			b.Unref()
		}
	}
	defer func() {
		if closer != nil {
			closer.Close()
		}
	}()
	for {
		if stopAt >= 0 && res.Values >= stopAt {
			res.EndedBy = "stop"
			return
		}
		v, err := zr.Read()
		if err != nil {
			res.EndedBy, res.Err = "error", err.Error()
			return
		}
		if v == nil {
			res.EndedBy = "eof"
			return
		}
		if !check(*v) {
			return
		}
		res.Values++
		if res.Values > maxValues {
			res.Outcome, res.Detail = "hang", fmt.Sprintf("reader produced more than %d values from %d input bytes", maxValues, len(c.Data))
			return
		}
	}
}

var stackBuf = make([]byte, 1<<20)

func allStacks() string {
	n := runtime.Stack(stackBuf, true)
	return string(stackBuf[:n])
}

// idleGoroutines is the number of goroutines of an idle child (set at start-up).
var idleGoroutines = 0

// repoGoroutines returns the stacks of goroutines that are executing repository code
// (other than the harness itself).
func repoGoroutines() []string {
	var out []string
	for _, g := range strings.Split(allStacks(), "\n\n") {
		// everything that runs repository code except the child's main goroutine and the goroutine that
		// runs the case (a worker that is inside the harness' hook still counts: the hook closure's name
		// contains "main.childMain", so match the harness goroutines by their identity, not by frame names)
		if !strings.Contains(g, "github.com/brimdata/super") {
			continue
		}
		if strings.HasPrefix(strings.TrimLeft(g, "\n"), "goroutine 1 [") || strings.Contains(g, "created by main.runCase") {
			continue
		}
		out = append(out, g)
	}
	return out
}

func truncate(s string, n int) string {
	if len(s) > n {
		return s[:n] + "...[truncated]"
	}
	return s
}

// runCase executes one case with all monitors.
func runCase(c *Case) (res Result) {
	res.ID = c.ID
	res.Outcome = "ok"
	// baseline: no repository goroutine may be alive before the case starts
	t0 := time.Now()
	if runtime.NumGoroutine() > idleGoroutines {
		dl := time.Now().Add(leakWait)
		for runtime.NumGoroutine() > idleGoroutines && len(repoGoroutines()) > 0 && time.Now().Before(dl) {
			time.Sleep(200 * time.Microsecond)
		}
	}
	base := runtime.NumGoroutine()
	defer func() { res.Nanos = time.Since(t0).Nanoseconds() }()
	alloc0 := heapAllocs()
	done := make(chan Result, 1)
	go func() {
		r := Result{ID: c.ID, Outcome: "ok"}
		defer func() {
			if p := recover(); p != nil {
				buf := make([]byte, 1<<16)
				n := runtime.Stack(buf, false)
				r.Outcome = "panic"
				r.Detail = truncate(fmt.Sprint(p), 300)
				st := string(buf[:n])
				// skip the frames of the deferred function itself
				if i := strings.Index(st, "panic("); i >= 0 {
					st = st[i:]
				}
				r.Stack = truncate(st, 4000)
				r.Site = siteOf(st)
			}
			done <- r
		}()
		switch c.Kind {
		case "detect":
			b, _ := json.Marshal(detectInfo(c))
			r.Detected = string(b)
		case "query":
			execQuery(c, &r)
		case "proto":
			execProto(c, &r)
		default:
			execRead(c, &r)
		}
	}()
	select {
	case res = <-done:
	case <-time.After(caseWatchdog):
		res.Outcome = "hang"
		st := allStacks()
		res.Stack = truncate(st, 12000)
		res.Detail = fmt.Sprintf("no result after %s", caseWatchdog)
		for _, g := range strings.Split(st, "\n\n") {
			if strings.Contains(g, "created by main.runCase") {
				res.Site = siteOf(g)
				res.Stack = truncate(g, 6000) // the stack of the goroutine that runs the case
			}
		}
		return res
	}
	res.Alloc = heapAllocs() - alloc0
	if res.Outcome != "ok" {
		return res
	}
	// goroutine-leak check: everything the reader started must be gone after Close / Pull(true)
	dl := time.Now().Add(leakWait)
	for spin := 0; ; spin++ {
		if runtime.NumGoroutine() <= base {
			break
		}
		if spin < 20 {
			runtime.Gosched()
			continue
		}
		g := repoGoroutines()
		if len(g) == 0 {
			break
		}
		if time.Now().After(dl) {
			res.Outcome = "leak"
			res.Detail = fmt.Sprintf("%d goroutine(s) still running repository code %s after the reader was closed", len(g), leakWait)
			res.Stack = truncate(strings.Join(g, "\n\n"), 6000)
			res.Site = siteOf(g[0])
			return res
		}
		time.Sleep(200 * time.Microsecond)
	}
	return res
}

// allocCeiling is the number of bytes a case may allocate: proportional to the
// input plus the limits the reader was configured with.
func allocCeiling(c *Case) uint64 {
	const slack = 96 << 20
	switch c.Reader {
	case "zng":
		// peeker buffer + (Threads+2) frames in flight, each at most 1.25*Max twice (compressed+uncompressed)
		return slack + uint64(c.Opts.ReadMax)*uint64(4*(c.Opts.Threads+3))
	case "vng", "auto", "autostream":
		// vng: metadata is read by a zngio reader with the default 1 GiB frame limit, data segments are
		// limited by vng.MaxDataSize; auto-detection tries vng/zng too.
		return slack + 5<<30
	case "query":
		return 1 << 30
	}
	return slack + 256*uint64(len(c.Data))
}

// childMain: `<bin> --c11-child <shardfile> <byte offset>`
func childMain(args []string) {
	var off int64
	fmt.Sscan(args[1], &off)
	f, err := os.Open(args[0])
	if err != nil {
		fmt.Fprintln(os.Stderr, err)
		os.Exit(4)
	}
	if _, err := f.Seek(off, io.SeekStart); err != nil {
		fmt.Fprintln(os.Stderr, err)
		os.Exit(4)
	}
	out := bufio.NewWriter(os.Stdout)
	sc := bufio.NewScanner(f)
	sc.Buffer(make([]byte, 1<<20), 64<<20)
	installHook()
	if pf := os.Getenv("C11_CPUPROFILE"); pf != "" {
		f, _ := os.Create(pf)
		pprof.StartCPUProfile(f)
		defer pprof.StopCPUProfile()
		go func() { time.Sleep(40 * time.Second); pprof.StopCPUProfile(); os.Exit(0) }()
	}
	idleGoroutines = runtime.NumGoroutine()
	for sc.Scan() {
		var c Case
		if err := json.Unmarshal(sc.Bytes(), &c); err != nil {
			fmt.Fprintln(os.Stderr, "bad case line:", err)
			os.Exit(4)
		}
		fmt.Fprintf(out, "B %d\n", c.ID)
		out.Flush()
		res := runCase(&c)
		if res.Outcome == "ok" && res.Alloc > allocCeiling(&c) {
			res.Outcome = "alloc"
			res.Detail = fmt.Sprintf("allocated %d bytes for a %d-byte input (ceiling %d)", res.Alloc, len(c.Data), allocCeiling(&c))
		}
		b, _ := json.Marshal(res)
		fmt.Fprintf(out, "R %d %s\n", c.ID, b)
		out.Flush()
		if res.Outcome == "hang" || res.Outcome == "leak" {
			// stuck goroutines would disturb later cases: restart
			os.Exit(3)
		}
	}
	fmt.Fprintln(out, "DONE")
	out.Flush()
	os.Exit(0)
}
