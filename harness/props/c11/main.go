// C11 -- untrusted bytes and query text never crash or hang the process
// (partially claimable with model-based verification, see DESIGN.md 4/C11, 7).
//
// Decided by TLC:
//
//	(a) specs/ZngFault.tla: the goroutine/channel protocol of zio/zngio/scanner.go under a fault at
//	    every frame position, every worker interleaving and every consumer behaviour: all goroutines
//	    terminate, resultChCh is closed, no deadlock, no channel misuse, the error is delivered in order;
//	(b) specs/AnyDetect.tla: the anyio auto-detection skeleton terminates with the first accepting
//	    reader (positioned at the start of the input) or with an error, for every acceptance vector.
//
// Bound to the code by
//
//	R2  every abstract stream x concrete fault class exported by TLC is realized as real ZNG bytes and
//	    read by the real scanner (threads 1,2,3; drain / stop / cancel consumers); the delivered sequence
//	    must be the predicted one;
//	R3  the hook traces (zngio.dispatch, zngio.worker.done, zngio.deliver + the consumer's own
//	    pull/ret/cancel/fin/quiesced events) of these runs are validated by TLC against ZngFaultTrace.tla;
//	    the AnyDetect decision table is compared with what anyio really picks;
//	and by the structural fault enumeration over every auto-detectable reader (truncation at every
//	offset, boundary values over every header / typedef / tag / type value / VNG metadata field) under
//	recover(), a watchdog, an allocation ceiling, a goroutine-leak check and (Validate on) an
//	independent structural check of every value handed out.
//
// Exploration only (no spec): mutated query texts through parser + compiler.
package main

import (
	"bufio"
	"bytes"
	"encoding/json"
	"fmt"
	"hash/crc32"
	"math/rand"
	"os"
	"os/exec"
	"path/filepath"
	"regexp"
	"sort"
	"strings"
	"sync"
	"sync/atomic"
	"syscall"
	"time"

	"verif/core"
)

func jsonUnmarshal(b []byte, v any) error { return json.Unmarshal(b, v) }

func main() {
	if len(os.Args) > 2 && os.Args[1] == "--c11-child" {
		// cap the address space so that a runaway allocation kills the child, not the machine
		lim := syscall.Rlimit{Cur: 24 << 30, Max: 24 << 30}
		syscall.Setrlimit(syscall.RLIMIT_AS, &lim)
		childMain(os.Args[2:])
		return
	}
	core.Main("C11", "model_checking", run)
}

// ------------------------------------------------------------------ runner

type runner struct {
	c          *core.Ctx
	name       string
	nshards    int
	cases      []Case
	results    []*Result
	offsets    [][]int64 // per shard: byte offset of each of its case lines
	ids        [][]int   // per shard: case index of each line
	mu         sync.Mutex
	restarts   int
	cpu        time.Duration
	watchdogMS int
	confirm    bool // confirmation run of one case: verdict by CPU time, not by wall-clock time
	slow       int  // results that cost a full watchdog period (hang / leak)
	aborted    bool // too many of them: the run is cut short (a verdict exists already)
}

func (r *runner) shardFile(s int) string {
	return filepath.Join(r.c.Scratch, fmt.Sprintf("%s.%d.ndjson", r.name, s))
}

// write stores the cases round-robin in one file per shard and remembers the byte offset of
// every line, so that a restarted child can seek to its next case.
func (r *runner) write(name string, nshards int) error {
	r.name, r.nshards = name, nshards
	r.offsets = make([][]int64, nshards)
	r.ids = make([][]int, nshards)
	files := make([]*os.File, nshards)
	ws := make([]*bufio.Writer, nshards)
	pos := make([]int64, nshards)
	for s := 0; s < nshards; s++ {
		f, err := os.Create(r.shardFile(s))
		if err != nil {
			return err
		}
		files[s], ws[s] = f, bufio.NewWriterSize(f, 1<<20)
	}
	for i := range r.cases {
		r.cases[i].ID = i
		b, err := json.Marshal(&r.cases[i])
		if err != nil {
			return err
		}
		s := i % nshards
		r.offsets[s] = append(r.offsets[s], pos[s])
		r.ids[s] = append(r.ids[s], i)
		ws[s].Write(b)
		ws[s].WriteByte('\n')
		pos[s] += int64(len(b)) + 1
	}
	for s := 0; s < nshards; s++ {
		if err := ws[s].Flush(); err != nil {
			return err
		}
		if err := files[s].Close(); err != nil {
			return err
		}
	}
	r.results = make([]*Result, len(r.cases))
	return nil
}

type limitedBuf struct {
	bytes.Buffer
	max int
}

func (l *limitedBuf) Write(p []byte) (int, error) {
	if room := l.max - l.Len(); room > 0 {
		if len(p) > room {
			l.Buffer.Write(p[:room])
		} else {
			l.Buffer.Write(p)
		}
	}
	return len(p), nil
}

// shard runs the cases of one shard file, restarting the child when it dies.
func (r *runner) shard(shard int) error {
	next := 0 // line number within the shard file
	idle := 0
	killedWhy := ""
	pos := map[int]int{}
	for k, id := range r.ids[shard] {
		pos[id] = k
	}
	for attempt := 0; ; attempt++ {
		if attempt > len(r.cases)+10 {
			return fmt.Errorf("child restarted too often")
		}
		if next >= len(r.ids[shard]) {
			return nil
		}
		r.mu.Lock()
		ab := r.aborted
		r.mu.Unlock()
		if ab {
			return nil
		}
		cmd := exec.Command(os.Args[0], "--c11-child", r.shardFile(shard), fmt.Sprint(r.offsets[shard][next]))
		cmd.Env = append(os.Environ(), "GOMAXPROCS=4", "GOTRACEBACK=single")
		if r.watchdogMS > 0 {
			cmd.Env = append(cmd.Env, fmt.Sprintf("C11_WATCHDOG_MS=%d", r.watchdogMS))
		}
		if r.confirm {
			// confirmation run: the child's own wall-clock watchdog is switched off (20 min); the parent
			// decides by the CPU time the child consumes (see monitorCPU)
			cmd.Env = append(cmd.Env, "C11_WATCHDOG_MS=1200000", "GOTRACEBACK=all")
		}
		stderr := &limitedBuf{max: 256 << 10}
		cmd.Stderr = stderr
		out, err := cmd.StdoutPipe()
		if err != nil {
			return err
		}
		if err := cmd.Start(); err != nil {
			return err
		}
		lines := make(chan string, 64)
		go func() {
			sc := bufio.NewScanner(out)
			sc.Buffer(make([]byte, 1<<20), 256<<20)
			for sc.Scan() {
				lines <- sc.Text()
			}
			close(lines)
		}()
		cur, last, done, killed := -1, -1, false, false
		monitorVerdict := make(chan string, 1)
		stopMonitor := make(chan struct{})
		if r.confirm {
			go monitorCPU(cmd.Process.Pid, stopMonitor, monitorVerdict)
		}
		// backstop for a completely wedged child (the child has its own per-case watchdog); generous,
		// because on an oversubscribed machine even starting the child can take many seconds
		pw := 6 * caseWatchdog
		if r.watchdogMS > 0 {
			pw = 6 * time.Duration(r.watchdogMS) * time.Millisecond
		}
		if pw < 3*time.Minute {
			pw = 3 * time.Minute
		}
		if r.confirm {
			pw = 25 * time.Minute
		}
		timer := time.NewTimer(pw)
	loop:
		for {
			select {
			case l, ok := <-lines:
				if !ok {
					break loop
				}
				if !timer.Stop() {
					select {
					case <-timer.C:
					default:
					}
				}
				timer.Reset(pw)
				switch {
				case strings.HasPrefix(l, "B "):
					fmt.Sscan(l[2:], &cur)
				case strings.HasPrefix(l, "R "):
					var idx int
					rest := l[2:]
					sp := strings.IndexByte(rest, ' ')
					fmt.Sscan(rest[:sp], &idx)
					var res Result
					if err := json.Unmarshal([]byte(rest[sp+1:]), &res); err != nil {
						return fmt.Errorf("bad result line: %v", err)
					}
					if (res.Outcome == "hang" || res.Outcome == "leak") && !strings.Contains(res.Detail, "nil channel") && len(r.cases) > 1 {
						// timing-based verdict: confirm it right away with an isolated re-run that is judged by
						// CPU time (on a loaded machine a slow case looks like a hang).  A hang whose signature is
						// a known finding is not worth the confirmation: it cannot affect the verdict.
						if r.c.IsKnown(signature(&r.cases[idx], &res)) {
							res.Confirmed = true
						} else if again, err := runOne(r.c, r.cases[idx]); err == nil {
							if again.Outcome == "ok" {
								again.SlowOK = true
							}
							again.Confirmed = true
							again.ID = idx
							res = *again
						}
					}
					r.mu.Lock()
					r.results[idx] = &res
					if (res.Outcome == "hang" || res.Outcome == "leak") && res.Confirmed {
						r.slow++
						if r.slow > 24 {
							r.aborted = true
						}
					}
					ab := r.aborted
					r.mu.Unlock()
					last, cur = idx, -1
					if ab {
						cmd.Process.Kill()
					}
				case l == "DONE":
					done = true
				}
			case v := <-monitorVerdict:
				// spinning or blocked: ask the Go runtime for a goroutine dump (SIGQUIT), then make sure it dies
				killedWhy = v
				cmd.Process.Signal(syscall.SIGQUIT)
				go func(p *os.Process) { time.Sleep(20 * time.Second); p.Kill() }(cmd.Process)
			case <-timer.C:
				killed = true
				cmd.Process.Kill()
			}
		}
		close(stopMonitor)
		werr := cmd.Wait()
		if ps := cmd.ProcessState; ps != nil {
			r.mu.Lock()
			r.cpu += ps.UserTime() + ps.SystemTime()
			r.mu.Unlock()
		}
		if done {
			return nil
		}
		r.mu.Lock()
		r.restarts++
		r.mu.Unlock()
		if cur >= 0 {
			res := &Result{ID: cur}
			st := stderr.String()
			switch {
			case killedWhy != "":
				res.Outcome = "hang"
				res.Detail = killedWhy
				for _, g := range strings.Split(st, "\n\n") {
					if strings.Contains(g, "created by main.runCase") {
						res.Stack = truncate(g, 6000)
						res.Site = siteOf(g)
					}
				}
			case killed:
				res.Outcome = "hang"
				res.Detail = "child process unresponsive; killed by the parent watchdog"
			default:
				res.Outcome = "crash"
				res.Detail = firstLine(st, "panic:", "fatal error:", "runtime:")
				res.Stack = truncate(st, 6000)
				res.Site = siteOf(st)
				if res.Detail == "" || res.Site == "?" {
					// no Go traceback through repository code: the child was killed from outside (or died for
					// a reason that cannot be attributed to the case); never a verdict by itself
					res.Outcome = "died"
					res.Detail = fmt.Sprintf("child died without a repository traceback: %v: %s", werr, truncate(firstLine(st, "panic:", "fatal error:", "runtime:", "signal"), 200))
				}
			}
			r.mu.Lock()
			r.results[cur] = res
			r.mu.Unlock()
			next = pos[cur] + 1
			continue
		}
		// exited after reporting a hang/leak result (exit code 3), or died between cases
		if last >= 0 {
			next = pos[last] + 1
			continue
		}
		if idle++; idle <= 3 {
			continue // retry: the child died / was killed before it reported anything
		}
		return fmt.Errorf("child exited without running a case: %v\n%s", werr, truncate(stderr.String(), 2000))
	}
}

func firstLine(s string, prefixes ...string) string {
	for _, l := range strings.Split(s, "\n") {
		for _, p := range prefixes {
			if strings.HasPrefix(l, p) {
				return truncate(l, 300)
			}
		}
	}
	return ""
}

func (r *runner) runAll() error {
	var wg sync.WaitGroup
	nshards := r.nshards
	errs := make([]error, nshards)
	for s := 0; s < nshards; s++ {
		wg.Add(1)
		go func(s int) {
			defer wg.Done()
			errs[s] = r.shard(s)
		}(s)
	}
	wg.Wait()
	for _, e := range errs {
		if e != nil {
			return e
		}
	}
	return nil
}

var oneSeq atomic.Int64

// monitorCPU decides whether a confirmation child hangs, independently of how loaded the machine is:
// the cases take milliseconds to a few seconds of CPU, so a child that has burnt cpuBudget CPU-seconds
// without finishing spins forever, and a child whose CPU time does not advance at all for idleLimit is
// blocked.  (Wall-clock time alone cannot tell a slow case from a hang on an oversubscribed machine.)
func monitorCPU(pid int, stop <-chan struct{}, verdict chan<- string) {
	const cpuBudget = 40.0 // CPU-seconds (the slowest legitimate case needs about 3)
	const idleLimit = 60 * time.Second
	const ticksPerSec = 100.0
	read := func() (float64, bool) {
		b, err := os.ReadFile(fmt.Sprintf("/proc/%d/stat", pid))
		if err != nil {
			return 0, false
		}
		s := string(b)
		i := strings.LastIndexByte(s, ')') // the command name may contain spaces
		if i < 0 {
			return 0, false
		}
		f := strings.Fields(s[i+1:])
		if len(f) < 13 {
			return 0, false
		}
		var ut, st float64
		fmt.Sscan(f[11], &ut)
		fmt.Sscan(f[12], &st)
		return (ut + st) / ticksPerSec, true
	}
	last, lastChange := -1.0, time.Now()
	t := time.NewTicker(500 * time.Millisecond)
	defer t.Stop()
	for {
		select {
		case <-stop:
			return
		case <-t.C:
			cpu, ok := read()
			if !ok {
				return
			}
			if cpu != last {
				last, lastChange = cpu, time.Now()
			}
			if cpu >= cpuBudget {
				verdict <- fmt.Sprintf("the isolated re-run burnt %.0f CPU-seconds without finishing (the case normally takes milliseconds)", cpu)
				return
			}
			if time.Since(lastChange) >= idleLimit {
				verdict <- fmt.Sprintf("the isolated re-run is blocked: no CPU time consumed for %s (%.1f CPU-seconds in total)", idleLimit, cpu)
				return
			}
		}
	}
}

// runOne re-runs a single case in a fresh child (confirmation of timing-based verdicts, --replay).
func runOne(c *core.Ctx, cs Case) (*Result, error) {
	r := &runner{c: c, cases: []Case{cs}, confirm: true}
	if err := r.write(fmt.Sprintf("one-%d-%d", time.Now().UnixNano(), oneSeq.Add(1)), 1); err != nil {
		return nil, err
	}
	if err := r.shard(0); err != nil {
		return nil, err
	}
	if r.results[0] == nil {
		return nil, fmt.Errorf("no result")
	}
	return r.results[0], nil
}

// --------------------------------------------------------------- signatures

// formatOf names the input format of a case (the seed's format, not the way it was opened).
func formatOf(cs *Case) string {
	switch cs.Kind {
	case "query":
		return "query"
	case "proto":
		return "zng-scanner"
	}
	f := strings.SplitN(cs.Seed, "/", 2)[0]
	if f == "typevalue" {
		f = "zng"
	}
	return f
}

// shared utility code: package zed (the module root: function names without a package qualifier) and zcode
var qualified = regexp.MustCompile(`^[a-z][a-z0-9_/]*\.`)

type pkgMatcher struct{}

func (pkgMatcher) MatchString(fn string) bool {
	return strings.HasPrefix(fn, "zcode.") || !qualified.MatchString(fn)
}

var genericPkg pkgMatcher

// frames lists the repository functions of a stack, innermost first.
func frames(stack string) []string {
	var out []string
	for _, m := range reFunc.FindAllStringSubmatch(stack, -1) {
		fn := strings.TrimPrefix(m[1], "github.com/brimdata/super/")
		fn = strings.TrimPrefix(fn, "github.com/brimdata/super.")
		if strings.HasPrefix(fn, "pkg/verif") {
			continue
		}
		fn = reClosure.ReplaceAllString(fn, ".func")
		out = append(out, fn)
	}
	return out
}

// component strips the method name: "zson.(*Formatter).formatValue" -> "zson.(*Formatter)".
func component(fn string) string {
	if i := strings.Index(fn, ")."); i >= 0 {
		return fn[:i+1]
	}
	return fn
}

// callerOf returns the component of the first frame outside the shared utility packages.
func callerOf(stack string) string {
	for _, fn := range frames(stack) {
		if !genericPkg.MatchString(fn) {
			return component(fn)
		}
	}
	return "?"
}

// signature: kind : input format : where in the repository it fails.  For panics the innermost
// function plus the component that called into shared utility code; for hangs / leaks only the
// component (the sampled innermost frame of a spinning goroutine is arbitrary).
func signature(cs *Case, res *Result) string {
	kind := res.Outcome
	if kind == "crash" {
		kind = "panic" // a panic in a goroutine of the reader (not recoverable by the caller)
	}
	f := formatOf(cs)
	switch kind {
	case "invalid":
		return fmt.Sprintf("invalid:%s:%s", f, strings.SplitN(res.Detail, ":", 2)[0])
	case "alloc":
		return fmt.Sprintf("alloc:%s:%s", f, family(cs.Class))
	case "hang", "leak":
		if cs.Kind == "proto" {
			return fmt.Sprintf("%s:%s:%s:%s", kind, f, strings.SplitN(cs.Consumer, ":", 2)[0][:min(6, len(strings.SplitN(cs.Consumer, ":", 2)[0]))], res.Site)
		}
		return fmt.Sprintf("%s:%s:%s", kind, f, callerOf(res.Stack+"\n"+res.Site+"("))
	}
	site := res.Site
	caller := callerOf(res.Stack)
	if component(site) == caller || !genericPkg.MatchString(site) {
		return fmt.Sprintf("%s:%s:%s", kind, f, site)
	}
	return fmt.Sprintf("%s:%s:%s@%s", kind, f, site, caller)
}

func family(class string) string {
	c := class
	if i := strings.LastIndexByte(c, '.'); i >= 0 {
		c = c[i+1:]
	}
	switch c {
	case "neg", "negone", "rawneg", "rawnegone", "rawlen":
		return "negative-int"
	case "i64max", "u32", "i32max", "b16k", "gtmax", "max", "raw2p59", "raw2p60":
		return "huge-int"
	}
	return "other"
}

func whatOf(cs *Case, res *Result) string {
	s := fmt.Sprintf("%s reader (%s), %s at %s", cs.Reader, cs.Seed, cs.Class, cs.Where)
	if cs.Kind == "query" {
		s = fmt.Sprintf("query text %q", truncate(string(cs.Data), 120))
	}
	if cs.Kind == "proto" {
		s = fmt.Sprintf("zngio scanner, stream %s, consumer %s, threads %d", cs.Note, cs.Consumer, cs.Opts.Threads)
	}
	switch res.Outcome {
	case "panic":
		return fmt.Sprintf("%s: panic escapes in %s: %s", s, res.Site, res.Detail)
	case "crash":
		return fmt.Sprintf("%s: process crashed (panic in a goroutine of the reader, not recoverable) in %s: %s", s, res.Site, res.Detail)
	case "hang":
		return fmt.Sprintf("%s: does not terminate (blocked in %s): %s", s, res.Site, res.Detail)
	case "leak":
		return fmt.Sprintf("%s: goroutine left blocked in %s: %s", s, res.Site, res.Detail)
	case "alloc":
		return fmt.Sprintf("%s: unbounded allocation: %s", s, res.Detail)
	case "invalid":
		return fmt.Sprintf("%s: with Validate on the reader handed out a value that is not structurally consistent with its type: %s", s, res.Detail)
	}
	return s + ": " + res.Outcome
}

// ------------------------------------------------------------------- run

// reader options for zng (readsize small in most: the default 512 KiB read buffer per reader
// dominates the cost of a case)
var zngOptList = []Opts{
	{Threads: 1, ReadMax: 1 << 20, ReadSize: 4096, Validate: true},
	{Threads: 2, ReadMax: 1 << 20, ReadSize: 4096, Validate: false},
	{Threads: 3, ReadMax: 1 << 20, ReadSize: 4096, Validate: true},
	{Threads: 2, ReadMax: 1 << 20, ReadSize: 16, Validate: true},
	{Threads: 1, ReadMax: 1 << 20, ReadSize: 7, Validate: false},
	{Threads: 2, ReadMax: 300, ReadSize: 64, Validate: true},
	{Threads: 16, ReadMax: 1 << 20, Validate: true},
}

// sampler thins the mutants of one format in the quick tier: truncation at every offset is kept
// for the chosen seeds, byte overwrites are strided, every other (site, fault class) pair is kept
// for its first K occurrences across the seeds of the format.
type sampler struct {
	full   bool
	seed   int64
	counts map[string]int
}

func byteClass(class string) bool {
	for _, p := range []string{"metabyte", "databyte", "meta.lz4corrupt", "lz4corrupt", "tv.", "meta.tv.", "byte.", "meta.byte."} {
		if strings.HasPrefix(class, p) {
			return true
		}
	}
	return false
}

func (sp *sampler) keep(format, seedName string, i int, m *Mutant, truncSeed bool) bool {
	k, stride := 2, 5
	if sp.full {
		k, stride = 1<<30, 1
	}
	if !sp.full && format == "vng" {
		k, stride = 1, 8
	}
	switch {
	case m.Class == "none" || m.Class == "random":
		return true
	case m.Class == "trunc":
		return sp.full || truncSeed
	case byteClass(m.Class):
		return (int64(i)+sp.seed)%int64(stride) == 0
	case strings.HasPrefix(m.Class, "nest") || strings.HasPrefix(m.Class, "long"):
		key := format + "|" + m.Class + "|" + m.Where
		sp.counts[key]++
		return sp.counts[key] <= 1 || sp.full
	}
	key := format + "|" + m.Class + "|" + m.Where
	sp.counts[key]++
	return sp.counts[key] <= k
}

func run(c *core.Ctx) error {
	c.Trust("TLC 1.8 (tla2tools + CommunityModules Json); the harness' ZNG frame walker and stream builder (realize), the hook recorder (events appended under one mutex at the hook sites), the watchdog / allocation meter / goroutine-stack inspection of the child processes; the independent structural value checker")
	c.Assume("ZngFault: streams of <= MaxLen items with at most one faulted frame; 2 (thorough: also 3) workers; the io.Reader under the scanner never blocks (in-memory input)")
	c.Assume("allocation ceiling: 96 MiB + 4*(threads+3)*readmax for zng (readmax configured <= 1 MiB), 96 MiB + 256*len(input) for text readers, 5 GiB for vng / auto-detection (vng metadata is read with zngio's default 1 GiB frame limit and vng.MaxDataSize is 2 GiB -- these are the configured limits)")
	c.Assume("a value handed out with Validate on must decompose exactly according to its type (record arity, map parity, union/enum selectors, set normal form); primitive payload widths are not part of the check")
	c.Assume("panics of the ZSON / ZJSON writers on values handed out by a reader are counted (property observe_at: reader + zio.Copy) for the text readers and for zngio with Validate on; not for vng or auto-detected input (no validation option in force)")
	c.Rule("cases: (1) every abstract stream x concrete fault class x realization variant exported by TLC from ZngFault.tla, realized as real ZNG bytes, x threads {1,2,3} x consumer {drain, drain+close, stop after k, cancel after k then pull/walk away/wait} x worker-completion gate; (2) structural faults (truncation at every byte offset; boundary values over every frame header, typedef, value tag, type-value byte, VNG header and metadata field; text edits at structural characters) of valid encodings of the generated value universe in zng, vng, zson, zjson, json, csv, tsv, zeek, line, read directly and through anyio auto-detection with reader options (threads, readmax, readsize, validate); (3) auto-detection inputs compared with the AnyDetect decision table; (4) mutated query texts (exploration). A case is non-trivial when the fault was felt: the reader returned an error, or a different number of values than the unfaulted seed, or (proto) a faulted frame / early stop / cancellation was part of the run; distinct = distinct (reader, options, consumer, input bytes).")
	c.Note("query-text part: exploration only (mutated valid.zed / ztest programs through compiler.Parse + semantic analysis + optimizer + build under recover()+watchdog); nothing about it is decided by a spec")
	c.Note("coverage-guided byte fuzzing is not part of this check; only the structural fault classes listed in the rule are explored")

	if c.Replay != "" {
		return replay(c)
	}
	rng := rand.New(rand.NewSource(c.Seed*7919 + 11))
	// The multi-site random mutants are the same for every VERIF_SEED (the seed only selects which
	// part of the deterministic case space the quick tier runs).
	var fixed *rand.Rand

	// ---- TLC: R1 runs start now and run concurrently with the Go-side work
	type tlcOut struct {
		name string
		res  *core.TLCResult
	}
	var tlcWG sync.WaitGroup
	tlcResults := map[string]*core.TLCResult{}
	var tlcMu sync.Mutex
	startTLC := func(name string, r core.TLCRun) {
		tlcWG.Add(1)
		go func() {
			defer tlcWG.Done()
			res := c.MustHold(r)
			tlcMu.Lock()
			tlcResults[name] = res
			tlcMu.Unlock()
		}()
	}
	casesCfg := "ZngFaultCases.quick.cfg"
	if !c.Quick() {
		casesCfg = "ZngFaultCases.thorough.cfg"
	}
	startTLC("cases", core.TLCRun{Module: "ZngFaultCases", Cfg: casesCfg, Keep: []string{"cases.ndjson", "faultpath.json"}, Workers: 6, Deadlock: true, Coverage: true, Timeout: 30 * time.Minute})
	if c.Quick() {
		startTLC("live", core.TLCRun{Module: "ZngFault", Cfg: "ZngFault.quicklive.cfg", Workers: 4, Deadlock: true, Coverage: true, Timeout: 30 * time.Minute})
	} else {
		startTLC("live", core.TLCRun{Module: "ZngFault", Cfg: "ZngFault.thoroughlive.cfg", Workers: 4, Deadlock: true, Coverage: true, Timeout: 30 * time.Minute})
		startTLC("three", core.TLCRun{Module: "ZngFault", Cfg: "ZngFault.thorough3.cfg", Workers: 4, Deadlock: true, Coverage: true, Timeout: 30 * time.Minute})
		startTLC("cancel", core.TLCRun{Module: "ZngFault", Cfg: "ZngFault.thoroughcancel.cfg", Workers: 4, Deadlock: true, Coverage: true, Timeout: 30 * time.Minute})
	}
	startTLC("shape", core.TLCRun{Module: "ValueShape", Cfg: "ValueShape.cfg", Keep: []string{"shape.ndjson"}, Workers: 1, Timeout: 30 * time.Minute})
	startTLC("detect", core.TLCRun{Module: "AnyDetect", Cfg: "AnyDetect.cfg", Keep: []string{"detect.ndjson", "order.json"}, Workers: 2, Deadlock: true, Coverage: true, Timeout: 30 * time.Minute})

	// ---- seeds
	seeds, err := buildSeeds()
	if err != nil {
		return err
	}
	for _, s := range seeds {
		n, err := readAll(s.Format, s.Data)
		if err != nil || n != s.Values {
			return fmt.Errorf("seed %s/%s does not read back: %d values (want %d), err %v", s.Format, s.Name, n, s.Values, err)
		}
	}
	c.Set("seed_streams", len(seeds))

	// ---- read cases
	var cases []Case
	full := !c.Quick()
	addRead := func(reader, consumer string, o Opts, seed string, m Mutant) {
		h := crc32.ChecksumIEEE(m.Data) + crc32.ChecksumIEEE([]byte(seed+reader))
		sink := []string{"", "zson", "zjson"}[(h/7)%3]
		cases = append(cases, Case{Kind: "read", Reader: reader, Consumer: consumer, Opts: o, Seed: seed, Class: m.Class, Where: m.Where, Note: m.Note, Sink: sink, Data: m.Data})
	}
	k := 0
	sp := &sampler{full: full, seed: c.Seed, counts: map[string]int{}}
	truncSeeds := map[string]bool{"zng/containers/each": true, "zng/unions/one": true, "zng/typevals/each": true, "zng/repeat/comp": true, "zng/named/each": true,
		"vng/containers": true, "vng/unions": true}
	// rotate the seed order with VERIF_SEED so that the first-K sampling meets different seeds first
	rot := int(c.Seed) % len(seeds)
	if rot < 0 {
		rot += len(seeds)
	}
	order := append(append([]Seed{}, seeds[rot:]...), seeds[:rot]...)
	for _, s := range order {
		var muts []Mutant
		fixed = rand.New(rand.NewSource(int64(crc32.ChecksumIEEE([]byte(s.Format + "/" + s.Name)))))
		switch s.Format {
		case "zng":
			muts, err = zngMutants(s.Data, 1<<20, full)
			if err == nil && (full || strings.HasSuffix(s.Name, "/each")) {
				muts = append(muts, randomMutants(fixed, s.Data, 12)...)
			}
		case "vng":
			muts, err = vngMutants(s.Data, full)
			muts = append(muts, randomMutants(fixed, s.Data, 8)...)
		default:
			muts = textMutants(s.Data, s.Format, full)
			muts = append(muts, randomMutants(fixed, s.Data, 8)...)
		}
		if err != nil {
			return fmt.Errorf("mutants of %s/%s: %w", s.Format, s.Name, err)
		}
		muts = append(muts, Mutant{Class: "none", Where: "seed", Data: s.Data})
		name := s.Format + "/" + s.Name
		isText := s.Format != "zng" && s.Format != "vng"
		for mi := range muts {
			m := muts[mi]
			if !sp.keep(s.Format, name, mi, &m, truncSeeds[name] || isText) {
				continue
			}
			k++
			// consumer, options and detection path are functions of the case content, so that every case
			// of the quick tier (any seed) is also a case of the thorough tier
			h := int(crc32.ChecksumIEEE(m.Data)>>3) + int(crc32.ChecksumIEEE([]byte(name)))
			consumer := "drain"
			if h%7 == 3 {
				consumer = fmt.Sprintf("stop:%d", h%3)
			}
			autoOpts := Opts{Threads: 2, ReadMax: 1 << 20, ReadSize: 4096, Validate: true}
			switch s.Format {
			case "zng":
				if full {
					for j := 0; j < 4; j++ {
						addRead("zng", consumer, zngOptList[(h+2*j)%len(zngOptList)], name, m)
					}
					addRead([]string{"auto", "autostream"}[(h/4)%2], "drain", autoOpts, name, m)
				} else {
					addRead("zng", consumer, zngOptList[(h+int(c.Seed))%len(zngOptList)], name, m)
					if (h+int(c.Seed))%4 == 0 {
						addRead([]string{"auto", "autostream"}[(h/4)%2], "drain", autoOpts, name, m)
					}
				}
			case "vng":
				addRead("vng", consumer, Opts{Validate: true}, name, m)
				if (full && h%2 == 0) || (h+int(c.Seed))%6 == 0 {
					addRead("auto", "drain", autoOpts, name, m)
				}
			default:
				addRead(s.Format, consumer, Opts{}, name, m)
				if s.Format != "line" {
					if full || (h+int(c.Seed))%5 == 0 {
						addRead([]string{"auto", "autostream"}[(h/5)%2], "drain", autoOpts, name, m)
					}
				}
			}
		}
	}
	hugeCounts := 0
	for _, m := range typeValueMutants() {
		for i, o := range []Opts{{Threads: 1, ReadMax: 1 << 20, ReadSize: 4096, Validate: true}, {Threads: 2, ReadMax: 1 << 20, ReadSize: 4096, Validate: true}, {Threads: 2, ReadMax: 1 << 20, ReadSize: 4096}} {
			if i == 0 && strings.HasPrefix(m.Class, "tvcount.") && (strings.HasSuffix(m.Class, "i64max") || strings.HasSuffix(m.Class, "u32")) {
				// before 07362c8e3 the ZSON formatter looped over the declared count (F-C11-9, a multi-second
				// hang each); the quick tier still runs only one of them
				hugeCounts++
				if !full && hugeCounts != 4 {
					continue
				}
			}
			addRead("zng", "drain", o, "typevalue", m)
			cases[len(cases)-1].Sink = []string{"zson", "zjson", ""}[i]
		}
		addRead("autostream", "drain", Opts{Threads: 2, ReadMax: 1 << 20, ReadSize: 4096, Validate: true}, "typevalue", m)
		cases[len(cases)-1].Sink = ""
	}
	// regression cases: the witnesses of repaired findings (status "fixed" in known_findings.d/c11.jsonl)
	// must pass now; a fixed signature suppresses nothing, so a relapse is reported as a VIOLATION
	wfiles, _ := filepath.Glob(filepath.Join(core.VerifDir, "replays", "known", "C11-*.json"))
	sort.Strings(wfiles)
	nRegr := 0
	for _, wf := range wfiles {
		b, err := os.ReadFile(wf)
		if err != nil {
			continue
		}
		var w struct {
			Signature string `json:"signature"`
			Witness   struct {
				Case Case `json:"case"`
			} `json:"witness"`
		}
		if json.Unmarshal(b, &w) != nil || w.Witness.Case.Kind == "" || c.IsKnown(w.Signature) {
			continue
		}
		cases = append(cases, w.Witness.Case)
		nRegr++
	}
	c.Set("regression_witnesses_of_fixed_findings", nRegr)
	nRead := len(cases)

	// ---- detection cases (AnyDetect binding): every seed, plus a sample of its truncations / edits
	for _, s := range seeds {
		if s.Format == "line" {
			continue
		}
		var ds [][]byte
		ds = append(ds, s.Data, nil, s.Data[:len(s.Data)/2], append([]byte("\n"), s.Data...), append([]byte("#"), s.Data...), append(append([]byte{}, s.Data...), 0xff))
		n := 2
		if full {
			n = 16
		}
		drng := rand.New(rand.NewSource(int64(crc32.ChecksumIEEE([]byte("detect/" + s.Format + "/" + s.Name)))))
		for i := 0; i < n; i++ {
			ds = append(ds, s.Data[:drng.Intn(len(s.Data))])
		}
		for i, d := range ds {
			for _, rd := range []string{"auto", "autostream"} {
				cases = append(cases, Case{Kind: "detect", Reader: rd, Consumer: "drain", Opts: Opts{Threads: 2, ReadMax: 1 << 20, Validate: true}, Seed: s.Format + "/" + s.Name,
					Class: "detect", Where: fmt.Sprintf("variant%d", i), Data: d})
			}
		}
	}
	nDetect := len(cases) - nRead

	// ---- query cases (exploration)
	corpus := queryCorpus()
	c.Set("query_corpus_texts", len(corpus))
	per := 16
	// the list of mutated texts is the same for every seed; the quick tier runs a seed-dependent slice of it
	qrng := rand.New(rand.NewSource(20240911))
	for qi, m := range queryMutants(qrng, corpus, per, true) {
		if !full && m.Class != "corpus" && (qi+int(c.Seed))%12 != 0 {
			continue
		}
		cases = append(cases, Case{Kind: "query", Reader: "query", Consumer: "compile", Class: m.Class, Where: m.Where, Seed: "corpus", Data: m.Data})
	}
	for _, m := range typedConstQueries(c.Seed, full) {
		cases = append(cases, Case{Kind: "query", Reader: "query", Consumer: "compile", Class: m.Class, Where: m.Where, Note: m.Note, Seed: "const-slot", Data: m.Data})
	}
	nQuery := len(cases) - nRead - nDetect

	// ---- proto cases need the TLC export
	tlcWG.Wait()
	for _, name := range []string{"cases", "live", "detect", "shape"} {
		if tlcResults[name] == nil {
			return nil // MustHold already recorded the reason (inconclusive)
		}
	}
	if !c.Quick() && (tlcResults["three"] == nil || tlcResults["cancel"] == nil) {
		return nil
	}
	// vacuity: every action of ZngFault must be covered by at least one R1 run
	zero := map[string]int{}
	nruns := 0
	for name, res := range tlcResults {
		zc := finalZeroCoverage(res.Out)
		if name == "shape" {
			continue
		}
		if name == "detect" {
			if len(zc) > 0 {
				c.Inconclusive("AnyDetect: actions never taken: %v", zc)
			}
			continue
		}
		nruns++
		for _, a := range zc {
			zero[a]++
		}
	}
	for a, n := range zero {
		if n == nruns {
			c.Inconclusive("ZngFault: action %s is never taken in any R1 run (vacuous)", a)
		}
	}
	c.Logf("TLC R1: ZngFault %d+%d distinct states, AnyDetect %d distinct states; all invariants, deadlock freedom and temporal properties hold",
		tlcResults["cases"].Distinct, tlcResults["live"].Distinct, tlcResults["detect"].Distinct)
	var zst int64
	for name, res := range tlcResults {
		if name != "detect" && name != "shape" {
			zst += res.Distinct
		}
	}
	c.Set("r1_zngfault_states", zst)
	c.Set("r1_anydetect_states", tlcResults["detect"].Distinct)

	// ValueShape binding: the (type, body) table against the real Validate, plus read cases
	shapeRows, err := core.ReadNDJSON[shapeRow](tlcResults["shape"], "shape.ndjson")
	if err != nil {
		return err
	}
	shapeCases, err := checkShapes(c, shapeRows)
	if err != nil {
		return err
	}
	cases = append(cases, shapeCases...)
	c.Set("cases_value_shape", len(shapeCases))

	type caseRow struct {
		Stream   []string   `json:"stream"`
		Expected [][]string `json:"expected"`
	}
	rows, err := core.ReadNDJSON[caseRow](tlcResults["cases"], "cases.ndjson")
	if err != nil {
		return err
	}
	var faultPath map[string]string
	if err := core.ReadJSONFile(tlcResults["cases"], "faultpath.json", &faultPath); err != nil {
		return err
	}
	classesOf := map[string][]string{}
	for cl, p := range faultPath {
		if cl != "control" {
			classesOf[p] = append(classesOf[p], cl)
		}
	}
	for _, v := range classesOf {
		sort.Strings(v)
	}
	sort.Slice(rows, func(i, j int) bool { return strings.Join(rows[i].Stream, "") < strings.Join(rows[j].Stream, "") })
	expectedOf := map[string][][]string{}
	nProtoStart := len(cases)
	pk := 0
	for _, row := range rows {
		key := strings.Join(row.Stream, ",")
		if os.Getenv("C11_CORRUPT_PRED") != "" && key == "V,C,V" {
			// self-test: a wrong prediction must be noticed by the comparison with the real reader
			row.Expected = [][]string{{"b", "b", "c", "end"}}
		}
		expectedOf[key] = row.Expected
		fault := ""
		for _, it := range row.Stream {
			if it != "V" && it != "E" && it != "C" {
				fault = it
			}
		}
		classes := []string{""}
		if fault != "" {
			classes = classesOf[fault]
		}
		for _, cl := range classes {
			nvar := 1
			if full {
				nvar = 4
			}
			if full && len(row.Stream) > 3 && (pk/7)%5 != 0 {
				continue // streams of 4 items: a fifth of them (the thorough tier replays all streams of <= 3 items)
			}
			for v := 0; v < nvar; v++ {
				variant := v
				if !full {
					variant = (pk + int(c.Seed)) % 4
				}
				data, err := realize(row.Stream, cl, variant, 1<<16)
				if err != nil {
					return fmt.Errorf("realize %v %s: %w", row.Stream, cl, err)
				}
				ps, _ := json.Marshal(ProtoSpec{Stream: row.Stream, Class: cl, Variant: variant, Hold: -1})
				for _, th := range []int{1, 2, 3} {
					consumers := []string{"drain", "drainclose"}
					if !full {
						consumers = []string{[]string{"drain", "drainclose"}[pk%2]}
					}
					for kk := 0; kk <= len(row.Stream); kk++ {
						if full || (kk+pk)%3 == 0 {
							consumers = append(consumers, fmt.Sprintf("stop:%d", kk))
						}
						if th > 1 && (full || (kk+pk)%3 == 1) {
							consumers = append(consumers, fmt.Sprintf("cancel:%d", kk))
						}
						if th > 1 && (full || (kk+pk)%3 == 2) {
							consumers = append(consumers, fmt.Sprintf("cancelgo:%d", kk))
						}
					}
					for _, cons := range consumers {
						pk++
						cases = append(cases, Case{Kind: "proto", Reader: "zng", Consumer: cons, Opts: Opts{Threads: th, ReadMax: 1 << 16, Validate: pk%2 == 0},
							Seed: key, Class: cl, Where: "frame", Note: string(ps), Data: data})
					}
					// gated worker completion order: hold the first / second completion until the next one arrives.
					// Eligible when the stream starts with enough frames that reach the worker.done hook.
					if th > 1 {
						for hold := 0; hold <= 1; hold++ {
							if hookFrames(row.Stream) >= hold+2 {
								psh, _ := json.Marshal(ProtoSpec{Stream: row.Stream, Class: cl, Variant: variant, Hold: hold})
								cases = append(cases, Case{Kind: "proto", Reader: "zng", Consumer: "drain", Opts: Opts{Threads: th, ReadMax: 1 << 16, Validate: true},
									Seed: key, Class: cl, Where: "frame", Note: string(psh), Data: data})
							}
						}
					}
				}
			}
		}
	}
	// deterministic reproduction attempts of the closed-resultChCh arm (parent cancel, then Pull)
	// (with 8 frames the parser is blocked on the full resultChCh when the cancellation arrives, so it
	// leaves through a ctx.Done() arm without queueing a final result: the reproduction is deterministic
	// up to 2^-40)
	long := []string{"V", "V", "V", "V", "V", "V", "V", "V"}
	for _, st := range [][]string{long, {}, {"V"}, {"V", "V", "V"}, {"V", "C", "V"}, {"E", "V"}} {
		for _, th := range []int{2, 3} {
			for kk := 0; kk <= len(st) && kk <= 1; kk++ {
				data, err := realize(st, "", 0, 1<<16)
				if err != nil {
					return err
				}
				ps, _ := json.Marshal(ProtoSpec{Stream: st, Hold: -1})
				cases = append(cases, Case{Kind: "proto", Reader: "zng", Consumer: fmt.Sprintf("cancelwait:%d", kk), Opts: Opts{Threads: th, ReadMax: 1 << 16},
					Seed: strings.Join(st, ","), Class: "", Where: "frame", Note: string(ps), Data: data})
			}
		}
	}
	nProto := len(cases) - nProtoStart
	if only := os.Getenv("C11_ONLY"); only != "" {
		// development self-tests (trace / prediction corruption): run one kind of case only
		var sub []Case
		for _, cs := range cases {
			if cs.Kind == only {
				sub = append(sub, cs)
			}
		}
		cases = sub
		c.Note("C11_ONLY=" + only + ": partial run (self-test)")
	}
	c.Logf("cases: %d reader faults, %d detection, %d query texts, %d protocol runs", nRead, nDetect, nQuery, nProto)
	c.Set("cases_reader_faults", nRead)
	c.Set("cases_detection", nDetect)
	c.Set("cases_query_exploration", nQuery)
	c.Set("cases_protocol", nProto)

	// ---- run everything in child processes
	r := &runner{c: c, cases: cases}
	nsh := 8
	if full {
		nsh = 12
	}
	if err := r.write("cases", nsh); err != nil {
		return err
	}
	if err := r.runAll(); err != nil {
		return err
	}
	c.Set("child_restarts", r.restarts)
	c.Set("child_cpu_s", r.cpu.Seconds())
	c.Logf("children done (%d restarts, %.0f CPU-s)", r.restarts, r.cpu.Seconds())
	if r.aborted {
		c.Logf("more than 24 cases hung or leaked goroutines: the remaining cases were not run")
		c.Note("the run was cut short after 25 hanging / leaking cases; violations are reported for the cases that ran")
		defer func() {
			if c.Violations() == 0 {
				c.Inconclusive("the run was cut short after 25 confirmed hanging / leaking cases and %d cases were not run", c.Count("cases_not_run_after_abort"))
			}
		}()
	}

	// ---- verdicts
	var detTable map[string]string
	traces := [][]tevent{}
	confirmed := map[string]bool{}
	outcomes := map[string]int{}
	timeBy := map[string]int64{}
	sampled = map[string]int{}
	for i := range cases {
		cs := &cases[i]
		res := r.results[i]
		if res == nil {
			if r.aborted {
				c.Add("cases_not_run_after_abort", 1)
				continue
			}
			c.Inconclusive("case %d (%s %s) has no result", i, cs.Kind, cs.Reader)
			continue
		}
		outcomes[cs.Kind+":"+res.Outcome]++
		timeBy[cs.Kind+":"+formatOf(cs)] += res.Nanos
		key := fmt.Sprintf("%s|%s|%v|%s|%x", cs.Kind, cs.Reader, cs.Opts, cs.Consumer, cs.Data)
		if res.Outcome == "died" {
			again, err := runOne(c, *cs)
			if err != nil || again.Outcome == "died" {
				c.Inconclusive("case %d (%s %s %s@%s): the child process died without a traceback, twice (%v)", i, cs.Kind, cs.Reader, cs.Class, cs.Where, err)
				continue
			}
			res = again
			r.results[i] = again
		}
		if res.SlowOK {
			c.Add("slow_cases_confirmed_ok", 1)
		}
		switch res.Outcome {
		case "ok":
		case "harness":
			c.Inconclusive("harness error in case %d: %s", i, res.Detail)
			continue
		default:
			sig := signature(cs, res)
			if (res.Outcome == "hang" || res.Outcome == "leak") && !res.Confirmed && !confirmed[sig] && !strings.Contains(res.Detail, "nil channel") {
				// timing-based verdicts are confirmed by one isolated re-run
				again, err := runOne(c, *cs)
				if err != nil {
					c.Inconclusive("case %d: re-run failed: %v", i, err)
					continue
				}
				if again.Outcome == "ok" {
					// the isolated re-run (three times longer watchdog) terminated cleanly: the first attempt
					// was slow (machine load), not stuck
					c.Add("slow_cases_confirmed_ok", 1)
					c.Eval(key, true)
					continue
				}
				res = again
				sig = signature(cs, res)
			}
			confirmed[sig] = true
			w := *cs
			if cs.Kind != "proto" || (strings.HasPrefix(cs.Consumer, "cancelwait:1") && strings.Count(cs.Seed, ",") >= 7) {
				// (for the scanner protocol only the deterministic reproduction is kept as a witness)
				saveKnownWitness(c, sig, whatOf(cs, res), map[string]any{"case": w, "observed": res})
			}
			c.Violate(sig, whatOf(cs, res), map[string]any{"case": w, "observed": res})
			c.Eval(key, true)
			continue
		}
		switch cs.Kind {
		case "read":
			c.Eval(key, res.Err != "" || cs.Class != "none")
			if i%2500 == 0 && sampled["read"] < 5 {
				sampled["read"]++
				c.Sample(map[string]any{"reader": cs.Reader, "opts": cs.Opts, "consumer": cs.Consumer, "seed": cs.Seed, "class": cs.Class, "where": cs.Where, "note": cs.Note, "bytes": len(cs.Data), "values": res.Values, "ended": res.EndedBy, "err": truncate(res.Err, 100)})
			}
		case "query":
			c.Eval(key, cs.Class != "corpus")
			c.Add("query_"+strings.ReplaceAll(res.EndedBy, "-", "_"), 1)
		case "detect":
			if detTable == nil {
				detTable, err = loadDetectTable(c, tlcResults["detect"])
				if err != nil {
					return err
				}
			}
			checkDetect(c, cs, res, detTable)
			c.Eval(key, true)
		case "proto":
			var ps ProtoSpec
			json.Unmarshal([]byte(cs.Note), &ps)
			checkProto(c, cs, res, &ps, expectedOf[cs.Seed])
			c.Eval(key, ps.Class != "" || !strings.HasPrefix(cs.Consumer, "drain") || ps.Hold >= 0)
			if len(res.Trace) > 0 && cs.Opts.Threads > 1 && !strings.HasPrefix(cs.Consumer, "cancelwait") && !strings.Contains(res.Detail, "gate-timeout") {
				traces = append(traces, res.Trace)
			}
			if strings.Contains(res.Detail, "gate-timeout") {
				c.Add("gate_timeouts", 1)
			}
		}
	}
	keys := make([]string, 0, len(outcomes))
	for k := range outcomes {
		keys = append(keys, k)
	}
	sort.Strings(keys)
	oc := map[string]int{}
	for _, k := range keys {
		oc[k] = outcomes[k]
	}
	c.Set("outcomes", oc)
	tb := map[string]float64{}
	for k, v := range timeBy {
		tb[k] = float64(v/1e6) / 1e3
	}
	c.Set("child_seconds_by_kind", tb)

	// ---- R3: validate hook traces with TLC
	if err := validateTraces(c, traces, rng); err != nil {
		return err
	}
	return nil
}

var reZeroAction = regexp.MustCompile(`(?m)^<(\w+) line \d+, col \d+ to line \d+, col \d+ of module \w+>: 0:0$`)

// finalZeroCoverage lists the actions with zero coverage in the last coverage report of a TLC run
// (interim reports of a long run are ignored).
func finalZeroCoverage(out string) []string {
	if i := strings.LastIndex(out, "The coverage statistics at"); i >= 0 {
		out = out[i:]
	}
	seen := map[string]bool{}
	var res []string
	for _, m := range reZeroAction.FindAllStringSubmatch(out, -1) {
		if !seen[m[1]] {
			seen[m[1]] = true
			res = append(res, m[1])
		}
	}
	return res
}

var sampled = map[string]int{}

var savedWitness = map[string]bool{}

// saveKnownWitness (only with C11_SAVE_WITNESS=<dir>): keeps one re-runnable witness per known-finding
// signature, in the format `./check C11 --replay <file>` understands.
func saveKnownWitness(c *core.Ctx, sig, what string, witness any) {
	dir := os.Getenv("C11_SAVE_WITNESS")
	if dir == "" || savedWitness[sig] || !c.IsKnown(sig) {
		return
	}
	savedWitness[sig] = true
	id := ""
	for _, f := range c.KnownFindings() {
		if f.Signature == sig {
			id = f.ID
		}
	}
	b, _ := json.MarshalIndent(map[string]any{"property": "C11", "signature": sig, "what": what, "witness": witness, "seed": c.Seed, "tier": c.Tier}, "", " ")
	os.MkdirAll(dir, 0o755)
	os.WriteFile(filepath.Join(dir, "C11-"+id+".json"), b, 0o644)
}

// hookFrames counts the leading items of a stream that are dispatched to a worker and reach the
// worker.done hook (V, E, B); the gate needs that many completions to be certain.
func hookFrames(stream []string) int {
	n := 0
	for _, it := range stream {
		if it == "V" || it == "E" || it == "B" {
			n++
			if it == "B" {
				break
			}
			continue
		}
		break
	}
	return n
}

// checkProto compares the delivered sequence with the spec's prediction.
func checkProto(c *core.Ctx, cs *Case, res *Result, ps *ProtoSpec, expected [][]string) {
	if expected == nil {
		return // a stream outside the exported prediction table (the long cancelwait reproduction)
	}
	got := []string{}
	if res.Delivered != "" {
		got = strings.Split(res.Delivered, ",")
	}
	mode := strings.SplitN(cs.Consumer, ":", 2)[0]
	isPrefix := func(a, b []string) bool {
		if len(a) > len(b) {
			return false
		}
		for i := range a {
			if a[i] != b[i] {
				return false
			}
		}
		return true
	}
	ok := false
	switch mode {
	case "drain", "drainclose":
		for _, e := range expected {
			if strings.Join(e, ",") == strings.Join(got, ",") {
				ok = true
			}
		}
	case "stop":
		for _, e := range expected {
			if isPrefix(got, e) {
				ok = true
			}
		}
	default:
		// after a parent cancellation nothing is claimed about order (see ZngFault!InOrder); the results
		// before the cancellation must still be a prefix
		var k int
		fmt.Sscan(strings.SplitN(cs.Consumer, ":", 2)[1], &k)
		pre := got
		if len(pre) > k {
			pre = pre[:k]
		}
		for _, e := range expected {
			if isPrefix(pre, e) {
				ok = true
			}
		}
	}
	c.Add("predictions_compared", 1)
	if len(res.Trace) > 0 && cs.Opts.Threads > 1 {
		nd, ndone, quiesced := 0, 0, false
		for _, e := range res.Trace {
			switch e.E {
			case "dispatch":
				nd++
			case "done":
				ndone++
			case "quiesced":
				quiesced = true
			}
		}
		na := 0
		for _, it := range ps.Stream {
			if it == "A" {
				na++
			}
		}
		if quiesced && nd > ndone+na {
			c.Add("trace_missing_done", 1)
			if c.Count("trace_missing_done") <= 3 {
				c.Logf("trace with a dispatched frame that never reached worker.done: %s", mustJSON(res.Trace))
			}
		}
	}
	if ok && (ps.Class != "" || ps.Hold >= 0) && cs.ID%211 == 0 && sampled["proto"] < 3 {
		sampled["proto"]++
		c.Sample(map[string]any{"kind": "proto", "stream": ps.Stream, "fault_class": ps.Class, "variant": ps.Variant, "threads": cs.Opts.Threads, "consumer": cs.Consumer, "gate_hold": ps.Hold, "delivered": got, "spec_expected": expected, "bytes": len(cs.Data)})
	}
	if !ok {
		// The property clause "terminates with decoded values or an error" is violated only if a faulted
		// stream was reported as a clean, complete read or values were lost; classify precisely.
		lost := mode != "cancel" && mode != "cancelgo" && mode != "cancelwait"
		if lost && ps.Class != "" && len(got) > 0 && got[len(got)-1] == "end" && !containsPT(ps.Stream) {
			c.Violate(fmt.Sprintf("error-not-delivered:zng-scanner:%s:threads%d", ps.Class, min(cs.Opts.Threads, 2)),
				fmt.Sprintf("zngio scanner: stream %v with fault %s: consumer %s observed %v (a clean end of stream) but the fault must be delivered as an error; spec predicts %v", ps.Stream, ps.Class, cs.Consumer, got, expected),
				map[string]any{"case": *cs, "observed": res})
			return
		}
		c.Drift("proto: stream %v class %s variant %d threads %d consumer %s: delivered %v, spec predicts %v (err=%s)", ps.Stream, ps.Class, ps.Variant, cs.Opts.Threads, cs.Consumer, got, expected, truncate(res.Err, 80))
	}
}

func containsPT(s []string) bool {
	for _, x := range s {
		if x == "PT" {
			return true
		}
	}
	return false
}

func loadDetectTable(c *core.Ctx, res *core.TLCResult) (map[string]string, error) {
	type row struct {
		Seekable bool   `json:"seekable"`
		M        []bool `json:"m"`
		Choice   string `json:"choice"`
	}
	rows, err := core.ReadNDJSON[row](res, "detect.ndjson")
	if err != nil {
		return nil, err
	}
	var order struct {
		Seek   []string `json:"seek"`
		Noseek []string `json:"noseek"`
	}
	if err := core.ReadJSONFile(res, "order.json", &order); err != nil {
		return nil, err
	}
	if strings.Join(order.Seek, ",") != strings.Join(detectOrder, ",") {
		return nil, fmt.Errorf("AnyDetect order %v differs from the harness' probe order %v", order.Seek, detectOrder)
	}
	t := map[string]string{}
	for _, r := range rows {
		t[fmt.Sprint(r.Seekable, r.M)] = r.Choice
	}
	return t, nil
}

func checkDetect(c *core.Ctx, cs *Case, res *Result, table map[string]string) {
	var d DetectInfo
	if err := json.Unmarshal([]byte(res.Detected), &d); err != nil {
		c.Inconclusive("detect case %d: %v", cs.ID, err)
		return
	}
	choice, ok := table[fmt.Sprint(cs.Reader == "auto", d.Vec)]
	if !ok {
		c.Inconclusive("detect case %d: vector %v not in the AnyDetect table", cs.ID, d.Vec)
		return
	}
	c.Add("detection_predictions_compared", 1)
	c.Add("detect_choice_"+choice, 1)
	want := "none"
	if choice != "none" {
		want = d.Direct[choice]
	}
	if d.Auto != want {
		c.Drift("detect: %s on %s/%s: spec chooses %s (expected output %s) but anyio produced %s (vec %v)", cs.Reader, cs.Seed, cs.Where, choice, want, d.Auto, d.Vec)
	}
	if cs.ID%97 == 0 && sampled["detect"] < 2 {
		sampled["detect"]++
		c.Sample(map[string]any{"kind": "detect", "reader": cs.Reader, "seed": cs.Seed, "variant": cs.Where, "vector": d.Vec, "spec_choice": choice, "anyio": d.Auto})
	}
}

// validateTraces concatenates hook traces and lets TLC validate them against ZngFaultTrace.
func validateTraces(c *core.Ctx, traces [][]tevent, rng *rand.Rand) error {
	if len(traces) == 0 {
		c.Inconclusive("no hook traces were recorded")
		return nil
	}
	limit := 200
	if !c.Quick() {
		limit = 2500
	}
	// deterministic sample: keep order, take every n-th with an offset from the seed
	pick := traces
	if len(traces) > limit {
		pick = nil
		step := float64(len(traces)) / float64(limit)
		off := rng.Float64() * step
		for i := 0; i < limit; i++ {
			pick = append(pick, traces[int(off+float64(i)*step)%len(traces)])
		}
	}
	var all []tevent
	for _, t := range pick {
		all = append(all, t...)
	}
	if v := os.Getenv("C11_CORRUPT_TRACE"); v != "" {
		corruptTrace(all, v)
	}
	res, err := c.RunTLC(core.TLCRun{Module: "ZngFaultTrace", Cfg: "ZngFaultTrace.cfg", Files: map[string][]byte{"trace.ndjson": core.NDJSON(all)}, DFS: true, Timeout: 10 * time.Minute})
	if res == nil {
		return err
	}
	accepted := strings.Contains(res.Out, "<<\"ACCEPTED\"")
	c.Logf("TLC trace validation: %d traces, %d events, %d distinct states, accepted=%v (%s)", len(pick), len(all), res.Distinct, accepted, res.Status)
	if accepted && res.Status == "ok" {
		c.Add("traces_validated_against_impl", int64(len(pick))+c.Count("predictions_compared")+c.Count("detection_predictions_compared"))
		c.Set("hook_traces_accepted_by_tlc", len(pick))
		c.Set("trace_events_validated", len(all))
		c.Sample(map[string]any{"kind": "trace", "events": pick[len(pick)/2]})
		return nil
	}
	// find the event at which validation stopped
	hw := -1
	for _, p := range res.Prints {
		var a, b int
		if _, e := fmt.Sscanf(p, "<<\"HW\", %d, %d>>", &a, &b); e == nil {
			hw = a
		}
	}
	if res.Status == "invariant" {
		// The real execution, accepted as a behaviour of the spec so far, reached a state in which a
		// protocol invariant is false.
		c.Violate("trace-invariant:"+res.Violated, fmt.Sprintf("a recorded execution of the zngio scanner violates %s of ZngFault.tla", res.Violated), map[string]any{"trace": all, "tlc": truncate(res.Out, 4000)})
		return nil
	}
	if res.Status == "timeout" || (err != nil && !strings.Contains(res.Out, "Postcondition")) {
		return err
	}
	// rejected: no behaviour of the spec explains the recorded events (DESIGN 2.3: drift, not an alarm)
	c.Drift("hook traces of the real scanner are not accepted by ZngFaultTrace: validation stops at event %d of %d: %s", hw+1, len(all), mustJSON(tail(all, hw, 14)))
	c.Set("trace_rejected_at_event", hw+1)
	return nil
}

func tail(all []tevent, at, n int) []tevent {
	if at < 0 || at > len(all) {
		at = len(all)
	}
	from := at - n
	if from < 0 {
		from = 0
	}
	to := at + 1
	if to > len(all) {
		to = len(all)
	}
	return all[from:to]
}

func mustJSON(v any) string {
	b, _ := json.Marshal(v)
	return string(b)
}

// corruptTrace implements the self-test "a corrupted trace must be rejected".
func corruptTrace(all []tevent, how string) {
	n := 0
	for i := range all {
		switch how {
		case "deliver-order": // swap the channel ids of two consecutive deliveries
			if all[i].E == "deliver" && all[i].Ok != nil && *all[i].Ok {
				for j := i + 1; j < len(all) && all[j].E != "start"; j++ {
					if all[j].E == "deliver" && all[j].Ch != all[i].Ch {
						all[i].Ch, all[j].Ch = all[j].Ch, all[i].Ch
						return
					}
				}
			}
		case "ret-kind": // a batch reported as an error
			if all[i].E == "ret" && all[i].Kind == "b" {
				n++
				if n == 5 {
					all[i].Kind = "err"
					return
				}
			}
		case "done-batch": // worker.done(hasBatch) flipped
			if all[i].E == "done" && all[i].Batch != nil && *all[i].Batch {
				n++
				if n == 3 {
					all[i].Batch = bp(false)
					return
				}
			}
		}
	}
}

func replay(c *core.Ctx) error {
	var w struct {
		Case Case      `json:"case"`
		Kind string    `json:"kind"`
		Type shapeType `json:"type"`
		Body shapeBody `json:"body"`
		Why  string    `json:"spec_why"`
		Cons bool      `json:"spec_consistent"`
	}
	sig, err := c.ReplayWitness(&w)
	if err != nil {
		return err
	}
	if w.Kind == "shape" {
		// a (type, body) pair of ValueShape.tla: ask the real Validate again
		_, err := checkShapes(c, []shapeRow{{Type: w.Type, Body: w.Body, Consistent: w.Cons, Why: w.Why}})
		if err == nil && c.Violations() == 0 {
			fmt.Printf("replay of %s: no longer fails\n", sig)
		}
		return err
	}
	res, err := runOne(c, w.Case)
	if err != nil {
		return err
	}
	b, _ := json.MarshalIndent(map[string]any{"outcome": res.Outcome, "detail": res.Detail, "site": res.Site, "values": res.Values, "err": res.Err, "ended": res.EndedBy, "delivered": res.Delivered}, "", " ")
	fmt.Println(string(b))
	if res.Outcome != "ok" {
		cs := w.Case
		c.Violate(signature(&cs, res), whatOf(&cs, res), map[string]any{"case": cs, "observed": res})
	} else {
		fmt.Printf("replay of %s: no longer fails\n", sig)
	}
	return nil
}
