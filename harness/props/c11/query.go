package main

// Query-text exploration (NOT decided by any spec): mutated texts from
// compiler/parser/valid.zed and the ztests are fed to the parser and the
// compiler (semantic analysis, optimizer, flowgraph build) under recover(), the
// watchdog and the goroutine-leak check.

import (
	"bufio"
	"context"
	"math/rand"
	"os"
	"path/filepath"
	"sort"
	"strings"

	zed "github.com/brimdata/super"
	"github.com/brimdata/super/compiler"
	"github.com/brimdata/super/compiler/data"
	"github.com/brimdata/super/runtime"
	"github.com/brimdata/super/zio"

	"verif/core"
	"verif/lakeh"
)

type nullReader struct{}

func (nullReader) Read() (*zed.Value, error) { return nil, nil }

func execQuery(c *Case, res *Result) {
	text := string(c.Data)
	seq, _, err := compiler.Parse(text)
	if err != nil {
		res.EndedBy, res.Err = "parse-error", truncate(err.Error(), 200)
		return
	}
	ctx, cancel := context.WithCancel(context.Background())
	defer cancel()
	rctx := runtime.NewContext(ctx, zed.NewContext())
	defer rctx.Cancel()
	src := data.NewSource(lakeh.NewEngine(lakeh.NewMemStore(), 0, nil), nil)
	job, err := compiler.NewJob(rctx, seq, src, nil)
	if err != nil {
		res.EndedBy, res.Err = "semantic-error", truncate(err.Error(), 200)
		return
	}
	if err := job.Optimize(); err != nil {
		res.EndedBy, res.Err = "optimize-error", truncate(err.Error(), 200)
		return
	}
	var readers []zio.Reader
	if _, ok := job.DefaultScan(); ok {
		readers = []zio.Reader{nullReader{}}
	}
	if err := job.Build(readers...); err != nil {
		res.EndedBy, res.Err = "build-error", truncate(err.Error(), 200)
		return
	}
	res.EndedBy = "compiled"
	res.Values = 1
}

// queryCorpus collects query texts: valid.zed lines and the `zed:` entries of ztests.
func queryCorpus() []string {
	repo := core.RepoDir()
	seen := map[string]bool{}
	var out []string
	add := func(s string) {
		s = strings.TrimSpace(s)
		if s == "" || len(s) > 400 || seen[s] {
			return
		}
		seen[s] = true
		out = append(out, s)
	}
	if f, err := os.Open(filepath.Join(repo, "compiler/parser/valid.zed")); err == nil {
		sc := bufio.NewScanner(f)
		for sc.Scan() {
			add(sc.Text())
		}
		f.Close()
	}
	var files []string
	for _, pat := range []string{"compiler/ztests/*.yaml", "compiler/parser/ztests/*.yaml", "compiler/semantic/ztests/*.yaml",
		"runtime/sam/expr/ztests/*.yaml", "runtime/sam/op/ztests/*.yaml", "docs/language/operators/*.md"} {
		m, _ := filepath.Glob(filepath.Join(repo, pat))
		files = append(files, m...)
	}
	sort.Strings(files)
	for _, name := range files {
		if !strings.HasSuffix(name, ".yaml") {
			continue
		}
		b, err := os.ReadFile(name)
		if err != nil {
			continue
		}
		lines := strings.Split(string(b), "\n")
		for i := 0; i < len(lines); i++ {
			l := lines[i]
			if !strings.HasPrefix(l, "zed:") {
				continue
			}
			rest := strings.TrimSpace(strings.TrimPrefix(l, "zed:"))
			if rest == "|" || rest == "|-" || rest == ">" {
				var blk []string
				for i+1 < len(lines) && (strings.HasPrefix(lines[i+1], " ") || lines[i+1] == "") {
					i++
					blk = append(blk, strings.TrimSpace(lines[i]))
				}
				add(strings.Join(blk, "\n"))
			} else {
				rest = strings.Trim(rest, `'"`)
				add(rest)
			}
		}
	}
	return out
}

var queryTokens = []string{"(", ")", "[", "]", "{", "}", "|", "=>", ":=", "==", ",", ".", "..", "...", ":", "::", "<", ">", "|[", "]|", "|{", "}|",
	"\"", "'", "`", "/", "//", "/*", "*/", "\\", "*", "-", "+", "!", "?", "%", "#", "@", "$", "~",
	"by", "with", "from", "fork", "switch", "case", "default", "yield", "over", "func", "op", "const", "type", "sort", "join", "on", "select", "where", "and", "or", "not", "in", "as",
	"null", "true", "0", "1e999", "0x", "1.2.3", "::1/999", "2020-01-01T00:00:00Z", "1h", "<int64>", "error(", "this", "\x00", "\xff", "é", "\n"}

// queryMutants: deterministic per seed.
func queryMutants(rng *rand.Rand, corpus []string, perText int, structural bool) []Mutant {
	var out []Mutant
	for _, q := range corpus {
		out = append(out, Mutant{Class: "corpus", Where: "query", Data: []byte(q)})
		b := []byte(q)
		if structural {
			// truncation at every offset of short texts
			if len(b) <= 48 {
				for off := 1; off < len(b); off++ {
					out = append(out, Mutant{Class: "trunc", Where: "query", Note: q, Data: append([]byte{}, b[:off]...)})
				}
			}
		}
		for i := 0; i < perText && len(b) > 0; i++ {
			d := append([]byte{}, b...)
			switch rng.Intn(6) {
			case 0: // insert a token
				o := rng.Intn(len(d) + 1)
				t := queryTokens[rng.Intn(len(queryTokens))]
				d = append(d[:o], append([]byte(t), d[o:]...)...)
				out = append(out, Mutant{Class: "insert", Where: "query", Note: t, Data: d})
			case 1: // replace a byte with a token
				o := rng.Intn(len(d))
				t := queryTokens[rng.Intn(len(queryTokens))]
				d = append(d[:o], append([]byte(t), d[o+1:]...)...)
				out = append(out, Mutant{Class: "replace", Where: "query", Note: t, Data: d})
			case 2: // delete a span
				o := rng.Intn(len(d))
				n := 1 + rng.Intn(4)
				if o+n > len(d) {
					n = len(d) - o
				}
				d = append(d[:o], d[o+n:]...)
				out = append(out, Mutant{Class: "delete", Where: "query", Data: d})
			case 3: // splice with another text
				o := rng.Intn(len(d))
				other := corpus[rng.Intn(len(corpus))]
				p := rng.Intn(len(other) + 1)
				d = append(d[:o], []byte(other[p:])...)
				out = append(out, Mutant{Class: "splice", Where: "query", Data: d})
			case 4: // duplicate a span
				o := rng.Intn(len(d))
				n := 1 + rng.Intn(8)
				if o+n > len(d) {
					n = len(d) - o
				}
				d = append(d[:o+n], d[o:]...)
				out = append(out, Mutant{Class: "dup", Where: "query", Data: d})
			case 5: // wrap in nesting
				k := []int{3, 20, 100}[rng.Intn(3)]
				w := [][2]string{{"(", ")"}, {"[", "]"}, {"{a:", "}"}, {"not ", ""}, {"-", ""}, {"over this => (", ")"}, {"f(", ")"}, {"|[", "]|"}}[rng.Intn(8)]
				d = []byte(strings.Repeat(w[0], k) + string(d) + strings.Repeat(w[1], k))
				out = append(out, Mutant{Class: "nest", Where: "query", Note: w[0], Data: d})
			}
		}
	}
	return out
}
