package main

// Query-text exploration (NOT decided by any spec): mutated texts from
// compiler/parser/valid.zed and the ztests are fed to the parser and the
// compiler (semantic analysis, optimizer, flowgraph build) under recover(), the
// watchdog and the goroutine-leak check.

import (
	"bufio"
	"context"
	"math/rand"
	"os"
	"path/filepath"
	"sort"
	"strings"

	zed "github.com/brimdata/super"
	"github.com/brimdata/super/compiler"
	"github.com/brimdata/super/compiler/data"
	"github.com/brimdata/super/runtime"
	"github.com/brimdata/super/zio"

	"verif/core"
	"verif/lakeh"
)

type nullReader struct{}

func (nullReader) Read() (*zed.Value, error) { return nil, nil }

func execQuery(c *Case, res *Result) {
	text := string(c.Data)
	seq, _, err := compiler.Parse(text)
	if err != nil {
		res.EndedBy, res.Err = "parse-error", truncate(err.Error(), 200)
		return
	}
	ctx, cancel := context.WithCancel(context.Background())
	defer cancel()
	rctx := runtime.NewContext(ctx, zed.NewContext())
	defer rctx.Cancel()
	src := data.NewSource(lakeh.NewEngine(lakeh.NewMemStore(), 0, nil), nil)
	job, err := compiler.NewJob(rctx, seq, src, nil)
	if err != nil {
		res.EndedBy, res.Err = "semantic-error", truncate(err.Error(), 200)
		return
	}
	if err := job.Optimize(); err != nil {
		res.EndedBy, res.Err = "optimize-error", truncate(err.Error(), 200)
		return
	}
	var readers []zio.Reader
	if _, ok := job.DefaultScan(); ok {
		readers = []zio.Reader{nullReader{}}
	}
	if err := job.Build(readers...); err != nil {
		res.EndedBy, res.Err = "build-error", truncate(err.Error(), 200)
		return
	}
	res.EndedBy = "compiled"
	res.Values = 1
}

// queryCorpus collects query texts: valid.zed lines and the `zed:` entries of ztests.
func queryCorpus() []string {
	repo := core.RepoDir()
	seen := map[string]bool{}
	var out []string
	add := func(s string) {
		s = strings.TrimSpace(s)
		if s == "" || len(s) > 400 || seen[s] {
			return
		}
		seen[s] = true
		out = append(out, s)
	}
	if f, err := os.Open(filepath.Join(repo, "compiler/parser/valid.zed")); err == nil {
		sc := bufio.NewScanner(f)
		for sc.Scan() {
			add(sc.Text())
		}
		f.Close()
	}
	var files []string
	for _, pat := range []string{"compiler/ztests/*.yaml", "compiler/parser/ztests/*.yaml", "compiler/semantic/ztests/*.yaml",
		"runtime/sam/expr/ztests/*.yaml", "runtime/sam/op/ztests/*.yaml", "docs/language/operators/*.md"} {
		m, _ := filepath.Glob(filepath.Join(repo, pat))
		files = append(files, m...)
	}
	sort.Strings(files)
	for _, name := range files {
		if !strings.HasSuffix(name, ".yaml") {
			continue
		}
		b, err := os.ReadFile(name)
		if err != nil {
			continue
		}
		lines := strings.Split(string(b), "\n")
		for i := 0; i < len(lines); i++ {
			l := lines[i]
			if !strings.HasPrefix(l, "zed:") {
				continue
			}
			rest := strings.TrimSpace(strings.TrimPrefix(l, "zed:"))
			if rest == "|" || rest == "|-" || rest == ">" {
				var blk []string
				for i+1 < len(lines) && (strings.HasPrefix(lines[i+1], " ") || lines[i+1] == "") {
					i++
					blk = append(blk, strings.TrimSpace(lines[i]))
				}
				add(strings.Join(blk, "\n"))
			} else {
				rest = strings.Trim(rest, `'"`)
				add(rest)
			}
		}
	}
	return out
}

var queryTokens = []string{"(", ")", "[", "]", "{", "}", "|", "=>", ":=", "==", ",", ".", "..", "...", ":", "::", "<", ">", "|[", "]|", "|{", "}|",
	"\"", "'", "`", "/", "//", "/*", "*/", "\\", "*", "-", "+", "!", "?", "%", "#", "@", "$", "~",
	"by", "with", "from", "fork", "switch", "case", "default", "yield", "over", "func", "op", "const", "type", "sort", "join", "on", "select", "where", "and", "or", "not", "in", "as",
	"null", "true", "0", "1e999", "0x", "1.2.3", "::1/999", "2020-01-01T00:00:00Z", "1h", "<int64>", "error(", "this", "\x00", "\xff", "é", "\n"}

// queryMutants: deterministic per seed.
func queryMutants(rng *rand.Rand, corpus []string, perText int, structural bool) []Mutant {
	var out []Mutant
	for _, q := range corpus {
		out = append(out, Mutant{Class: "corpus", Where: "query", Data: []byte(q)})
		b := []byte(q)
		if structural {
			// truncation at every offset of short texts
			if len(b) <= 48 {
				for off := 1; off < len(b); off++ {
					out = append(out, Mutant{Class: "trunc", Where: "query", Note: q, Data: append([]byte{}, b[:off]...)})
				}
			}
		}
		for i := 0; i < perText && len(b) > 0; i++ {
			d := append([]byte{}, b...)
			switch rng.Intn(6) {
			case 0: // insert a token
				o := rng.Intn(len(d) + 1)
				t := queryTokens[rng.Intn(len(queryTokens))]
				d = append(d[:o], append([]byte(t), d[o:]...)...)
				out = append(out, Mutant{Class: "insert", Where: "query", Note: t, Data: d})
			case 1: // replace a byte with a token
				o := rng.Intn(len(d))
				t := queryTokens[rng.Intn(len(queryTokens))]
				d = append(d[:o], append([]byte(t), d[o+1:]...)...)
				out = append(out, Mutant{Class: "replace", Where: "query", Note: t, Data: d})
			case 2: // delete a span
				o := rng.Intn(len(d))
				n := 1 + rng.Intn(4)
				if o+n > len(d) {
					n = len(d) - o
				}
				d = append(d[:o], d[o+n:]...)
				out = append(out, Mutant{Class: "delete", Where: "query", Data: d})
			case 3: // splice with another text
				o := rng.Intn(len(d))
				other := corpus[rng.Intn(len(corpus))]
				p := rng.Intn(len(other) + 1)
				d = append(d[:o], []byte(other[p:])...)
				out = append(out, Mutant{Class: "splice", Where: "query", Data: d})
			case 4: // duplicate a span
				o := rng.Intn(len(d))
				n := 1 + rng.Intn(8)
				if o+n > len(d) {
					n = len(d) - o
				}
				d = append(d[:o+n], d[o:]...)
				out = append(out, Mutant{Class: "dup", Where: "query", Data: d})
			case 5: // wrap in nesting
				k := []int{3, 20, 100}[rng.Intn(3)]
				w := [][2]string{{"(", ")"}, {"[", "]"}, {"{a:", "}"}, {"not ", ""}, {"-", ""}, {"over this => (", ")"}, {"f(", ")"}, {"|[", "]|"}}[rng.Intn(8)]
				d = []byte(strings.Repeat(w[0], k) + string(d) + strings.Repeat(w[1], k))
				out = append(out, Mutant{Class: "nest", Where: "query", Note: w[0], Data: d})
			}
		}
	}
	return out
}

// ---------------------------------------------------------------------------
// Typed constants in every constant slot (operator x slot x type class): the
// semantic analyzer evaluates these expressions at compile time and then reads
// the value with a type-specific accessor, so every slot is tried with a
// constant of every primitive type class (through casts, constant expressions
// and const declarations), not only with what the corpus happens to contain.

type constClass struct {
	Name  string
	Exprs []string
}

var constClasses = []constClass{
	{"signed", []string{"2", "int8(2)", "int16(2)", "int32(2)", "int64(2)", "-1", "0", "int64(-9223372036854775808)", "9223372036854775807"}},
	{"unsigned", []string{"uint8(2)", "uint16(2)", "uint32(2)", "uint64(2)", "uint8(0)", "uint64(18446744073709551615)"}},
	{"float", []string{"2.", "float16(2)", "float32(2)", "float64(2)", "1e308", "NaN", "-Inf", "0.5"}},
	{"duration", []string{"2h", "duration(2)", "-1s", "0s", "duration(\"1h\")"}},
	{"time", []string{"2020-01-02T03:04:05Z", "time(2)", "time(\"2020-01-02T03:04:05Z\")"}},
	{"string", []string{"\"2\"", "\"a\"", "\"\"", "string(2)", "f\"{2}\""}},
	{"bool", []string{"true", "false", "bool(1)"}},
	{"null", []string{"null", "null(uint8)", "null(int64)", "null(string)", "null(duration)"}},
	{"ip", []string{"1.2.3.4", "ip(\"1.2.3.4\")", "::1"}},
	{"net", []string{"10.0.0.0/8", "net(\"10.0.0.0/8\")"}},
	{"bytes", []string{"0x02", "bytes(\"a\")", "0x"}},
	{"type", []string{"<int64>", "<{a:int64}>", "typeof(2)"}},
	{"error", []string{"error(2)", "error(\"x\")", "missing(a)"}},
	{"container", []string{"[2]", "{a:2}", "|[2]|", "|{2:2}|", "[]", "{}"}},
	{"constexpr", []string{"uint32(2)+uint32(1)", "2+3", "int8(2)*int8(3)", "uint8(1)-uint8(2)", "1/0", "uint8(1)/uint8(0)", "2h+1s", "\"a\"+\"b\"", "2>1", "-uint8(1)", "uint8(2)+2", "len(\"ab\")", "2 ? 1 : 3", "uint64(2)%uint64(2)"}},
	{"path", []string{"a", "this", "a.b", "this[\"a\"]"}},
}

// constSlots: query templates with %s where the language wants (or folds) a constant.
var constSlots = []string{
	"head %s", "tail %s", "top %s a", "top %s", "sort a | head %s", "top %s -flush a",
	"yield this[%s]", "yield a[%s]", "yield a[%s:%s]", "yield a[:%s]", "yield a[%s:]",
	"yield every(%s)", "count() by every(%s)", "count() by bucket(ts, %s)", "yield bucket(%s, %s)",
	"yield grep(%s)", "yield grep(%s, a)", "yield regexp(%s, a)", "yield regexp_replace(a, %s, %s)",
	"yield cast(a, %s)", "yield shape(a, %s)", "yield strftime(%s, ts)", "yield split(a, %s)", "yield join(a, %s)",
	"yield %s", "where %s", "assert %s", "put x:=%s", "cut x:=%s", "yield {a:%s}.a", "yield [%s][%s]", "yield a in %s", "yield %s in a",
	"yield uint8(%s)", "yield int64(%s)", "yield float32(%s)", "yield time(%s)", "yield duration(%s)", "yield ip(%s)", "yield net(%s)", "yield bytes(%s)", "yield string(%s)", "yield bool(%s)",
	"yield len(%s)", "yield round(%s)", "yield pow(%s, %s)", "yield abs(%s)", "yield ceil(%s)", "yield hex(%s)", "yield base64(%s)", "yield lower(%s)", "yield trim(%s)", "yield quiet(%s)", "yield typeof(%s)", "yield kind(%s)", "yield has(%s)", "yield coalesce(%s, a)", "yield nameof(%s)", "yield network_of(%s)", "yield network_of(%s, %s)", "yield cidr_match(%s, a)", "yield now() - %s", "yield date_part(%s, ts)", "yield levenshtein(%s, a)", "yield flatten(%s)", "yield unflatten(%s)", "yield fields(%s)", "yield is(%s)", "yield is(a, %s)", "yield parse_zson(%s)", "yield parse_uri(%s)", "yield replace(a, %s, %s)", "yield rune_len(%s)", "yield compare(%s, a)", "yield map(%s, f)", "yield error(%s)", "yield under(%s)", "yield sqrt(%s)", "yield log(%s)", "yield floor(%s)", "yield crop(a, %s)", "yield fill(a, %s)", "yield order(a, %s)", "yield fit(a, %s)",
	"switch %s (case %s => pass default => pass)", "switch (case %s => pass)", "over a with b=%s => (yield b)", "over %s",
	"op f(x): (head x) f(%s)", "op f(x): (top x a) f(%s)", "op f(x): (yield x) f(%s)", "op f(x, y): (yield a[x:y]) f(%s, %s)",
	"func g(x): (x+1) yield g(%s)", "const N = %s yield N", "type T = %s yield <T>",
	"summarize count() by %s", "summarize max(%s)", "summarize any(a) where %s", "summarize c:=count() with -limit 2 | head %s", "count() by a | sort -r %s",
	"sample %s", "merge %s", "sort %s", "drop %s", "fuse | head %s", "uniq | tail %s", "yield a::%s", "yield a | head %s | tail %s",
	"join on a=%s", "from ( pass => head %s )", "fork (=> head %s => tail %s)", "yield a ?: %s", "yield %s ? 1 : 2", "yield a[%s][%s]",
	"search %s", "? %s", "a==%s", "not %s", "%s", "yield -%s", "yield !%s", "yield %s + %s", "yield %s / %s", "yield %s %% %s", "yield %s < %s", "yield %s ~ %s",
}

// typedConstQueries builds the family.  full: every slot x every expression of every class (and the
// same through a const declaration); otherwise every slot x one representative of every class, the
// representative rotating with (seed + slot index) so that different seeds meet different members.
func typedConstQueries(seed int64, full bool) []Mutant {
	var out []Mutant
	fill := func(tmpl, e string) string { return strings.ReplaceAll(tmpl, "%s", e) }
	for si, slot := range constSlots {
		tmpl := strings.ReplaceAll(slot, "%%", "%")
		for ci, cl := range constClasses {
			exprs := cl.Exprs
			if !full {
				exprs = []string{cl.Exprs[(int(seed)+si+ci)%len(cl.Exprs)]}
			}
			for ei, e := range exprs {
				out = append(out, Mutant{Class: "const-slot", Where: cl.Name, Note: slot, Data: []byte(fill(tmpl, e))})
				// the same constant through a const declaration (not for templates that declare things themselves)
				if (full || (si+ci+ei+int(seed))%3 == 0) && cl.Name != "path" && !strings.HasPrefix(slot, "const ") && !strings.HasPrefix(slot, "type ") {
					out = append(out, Mutant{Class: "const-ref", Where: cl.Name, Note: slot, Data: []byte("const K = " + e + " " + fill(tmpl, "K"))})
				}
			}
		}
	}
	return out
}
