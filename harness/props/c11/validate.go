package main

// Independent structural check of a value against its type (used when the
// reader runs with Validate on).  It does not use zcode.Iter or zed.Walk:
// it re-implements the container encoding of docs/formats/zng.md.

import (
	"bytes"
	"encoding/binary"
	"fmt"

	zed "github.com/brimdata/super"
)

// elems splits a container body into its elements (nil = null element).
func elems(b []byte) ([][]byte, []bool, string) {
	var out [][]byte
	var null []bool
	for len(b) > 0 {
		tag, n := binary.Uvarint(b)
		if n <= 0 {
			return nil, nil, "bad element tag"
		}
		b = b[n:]
		if tag == 0 {
			out = append(out, nil)
			null = append(null, true)
			continue
		}
		l := tag - 1
		if l > uint64(len(b)) {
			return nil, nil, fmt.Sprintf("element of %d bytes overruns its container (%d left)", l, len(b))
		}
		out = append(out, b[:l])
		null = append(null, false)
		b = b[l:]
	}
	return out, null, ""
}

// countedUint decodes a counted (little-endian, variable-length) unsigned integer with the
// decoder's own semantics for over-long bodies (high bytes shift out).
func countedUint(b []byte) (uint64, bool) {
	var u uint64
	for i := len(b) - 1; i >= 0; i-- {
		u = u<<8 | uint64(b[i])
	}
	return u, true
}

// structCheck returns "" if body is structurally consistent with typ:
// containers decompose exactly, records have one element per field, maps an
// even number, unions a valid selector plus one value, enums a valid selector,
// sets are in normal form.  Primitive payloads are not inspected.
func structCheck(typ zed.Type, body []byte, depth int) string {
	if body == nil {
		return ""
	}
	if depth > 200 {
		return ""
	}
	switch t := typ.(type) {
	case *zed.TypeNamed:
		return structCheck(t.Type, body, depth+1)
	case *zed.TypeError:
		return structCheck(t.Type, body, depth+1)
	case *zed.TypeRecord:
		es, nulls, why := elems(body)
		if why != "" {
			return "container-encoding: record: " + why
		}
		if len(es) != len(t.Fields) {
			return fmt.Sprintf("record-arity: record with %d fields has %d elements", len(t.Fields), len(es))
		}
		for i, f := range t.Fields {
			if nulls[i] {
				continue
			}
			if why := structCheck(f.Type, es[i], depth+1); why != "" {
				return why + " (in field " + f.Name + ")"
			}
		}
	case *zed.TypeArray:
		es, nulls, why := elems(body)
		if why != "" {
			return "container-encoding: array: " + why
		}
		for i := range es {
			if nulls[i] {
				continue
			}
			if why := structCheck(t.Type, es[i], depth+1); why != "" {
				return why
			}
		}
	case *zed.TypeSet:
		es, nulls, why := elems(body)
		if why != "" {
			return "container-encoding: set: " + why
		}
		for i := range es {
			if !nulls[i] {
				if why := structCheck(t.Type, es[i], depth+1); why != "" {
					return "set-element: " + why
				}
			}
		}
		// normal form: tag+body byte strings strictly increasing
		var prev []byte
		rest := body
		for k := 0; len(rest) > 0; k++ {
			tag, n := binary.Uvarint(rest)
			l := n
			if tag > 0 {
				l += int(tag - 1)
			}
			cur := rest[:l]
			if k > 0 && bytes.Compare(prev, cur) >= 0 {
				return "set-normal-form: set elements not in normal form"
			}
			prev = cur
			rest = rest[l:]
		}
	case *zed.TypeMap:
		es, nulls, why := elems(body)
		if why != "" {
			return "container-encoding: map: " + why
		}
		if len(es)%2 != 0 {
			return fmt.Sprintf("map-parity: map with %d elements (odd)", len(es))
		}
		for i := range es {
			if nulls[i] {
				continue
			}
			et := t.KeyType
			if i%2 == 1 {
				et = t.ValType
			}
			if why := structCheck(et, es[i], depth+1); why != "" {
				return why
			}
		}
	case *zed.TypeUnion:
		es, nulls, why := elems(body)
		if why != "" {
			return "container-encoding: union: " + why
		}
		if len(es) != 2 {
			return fmt.Sprintf("union-arity: union value with %d elements", len(es))
		}
		// a null selector is read as 0 by every decoder (DecodeInt(nil) == 0): not flagged
		u, ok := countedUint(es[0])
		if !ok || u&1 != 0 || int(u>>1) >= len(t.Types) {
			return "union-selector: union selector out of range"
		}
		if nulls[1] {
			return ""
		}
		return structCheck(t.Types[u>>1], es[1], depth+1)
	case *zed.TypeEnum:
		u, ok := countedUint(body)
		if !ok || u >= uint64(len(t.Symbols)) {
			return "enum-selector: enum selector out of range"
		}
	default:
		// fixed-width primitives (decoding a body of another length panics)
		var ws []int
		switch typ.ID() {
		case zed.IDBool:
			ws = []int{1}
		case zed.IDFloat16:
			ws = []int{2}
		case zed.IDFloat32:
			ws = []int{4}
		case zed.IDFloat64:
			ws = []int{8}
		case zed.IDIP:
			ws = []int{4, 16}
		case zed.IDNet:
			ws = []int{8, 32}
		}
		if ws != nil {
			for _, w := range ws {
				if len(body) == w {
					return ""
				}
			}
			return fmt.Sprintf("width: %d-byte body for a fixed-width primitive (id %d)", len(body), typ.ID())
		}
	}
	return ""
}
