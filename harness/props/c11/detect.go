package main

// Binding of AnyDetect.tla: for one input compute (with the real per-format
// readers, each started at offset 0) the acceptance vector that the detection
// skeleton consults, what the real anyio auto-detection produced, and what the
// reader of each format produces when it is used directly.  The parent looks up
// the spec's choice for the vector in the TLC-exported table and compares.

import (
	"bufio"
	"bytes"
	"crypto/sha256"
	"encoding/binary"
	"encoding/hex"
	"fmt"
	"io"
	"strings"

	zed "github.com/brimdata/super"
	"github.com/brimdata/super/zio"
	"github.com/brimdata/super/zio/anyio"
	"github.com/brimdata/super/zio/arrowio"
	"github.com/brimdata/super/zio/csvio"
	"github.com/brimdata/super/zio/jsonio"
	"github.com/brimdata/super/zio/parquetio"
	"github.com/brimdata/super/zio/vngio"
	"github.com/brimdata/super/zio/zeekio"
	"github.com/brimdata/super/zio/zjsonio"
	"github.com/brimdata/super/zio/zngio"
	"github.com/brimdata/super/zio/zsonio"
	"github.com/brimdata/super/zson"
)

// detectOrder is SeekOnly \o Tracked of AnyDetect.tla (checked against order.json at run time).
var detectOrder = []string{"parquet", "vng", "arrows", "zeek", "zjson", "json", "zson", "zng", "csv", "tsv"}

type DetectInfo struct {
	Vec    []bool            `json:"vec"`
	Auto   string            `json:"auto"`   // fingerprint of what anyio returned
	Direct map[string]string `json:"direct"` // fingerprint per accepted format
}

// fingerprint reads everything from zr: "<n values>:<hash of their ZSON>:<err?>".
func fingerprint(zr zio.Reader, openErr error) string {
	if openErr != nil {
		return "openerr"
	}
	h := sha256.New()
	n := 0
	for n < maxValues {
		v, err := zr.Read()
		if err != nil {
			return fmt.Sprintf("%d:%s:err", n, hex.EncodeToString(h.Sum(nil)[:6]))
		}
		if v == nil {
			break
		}
		n++
		io.WriteString(h, zson.FormatValue(*v))
		io.WriteString(h, "\n")
	}
	return fmt.Sprintf("%d:%s:ok", n, hex.EncodeToString(h.Sum(nil)[:6]))
}

func probe(r zio.Reader, want int) bool {
	for i := 0; i < want; i++ {
		v, err := r.Read()
		if err != nil {
			return false
		}
		if v == nil {
			return true
		}
	}
	return true
}

func probeArrows(data []byte) bool {
	r := bytes.NewReader(data)
	buf := make([]byte, 4)
	if _, err := io.ReadFull(r, buf); err != nil {
		return false
	}
	if string(buf) == "\xff\xff\xff\xff" {
		if _, err := io.ReadFull(r, buf); err != nil {
			return false
		}
	}
	if binary.LittleEndian.Uint32(buf) > 1048576 {
		return false
	}
	zrc, err := arrowio.NewReader(zed.NewContext(), bytes.NewReader(data))
	if err != nil {
		return false
	}
	defer zrc.Close()
	_, err = zrc.Read()
	return err == nil
}

func probeCSV(data []byte, delim rune) bool {
	s, err := bufio.NewReader(bytes.NewReader(data)).ReadString('\n')
	if err != nil || !strings.Contains(s, string(delim)) {
		return false
	}
	return probe(csvio.NewReader(zed.NewContext(), bytes.NewReader(data), csvio.ReaderOpts{Delim: delim}), 1)
}

func accepts(format string, data []byte, zopts zngio.ReaderOpts) bool {
	zctx := zed.NewContext()
	switch format {
	case "parquet":
		_, err := parquetio.NewReader(zctx, bytes.NewReader(data))
		return err == nil
	case "vng":
		_, err := vngio.NewReader(zctx, bytes.NewReader(data), nil)
		return err == nil
	case "arrows":
		return probeArrows(data)
	case "zeek":
		return probe(zeekio.NewReader(zctx, bytes.NewReader(data)), 1)
	case "zjson":
		return probe(zjsonio.NewReader(zctx, bytes.NewReader(data)), 1)
	case "json":
		return probe(jsonio.NewReader(zctx, bytes.NewReader(data)), 10)
	case "zson":
		return probe(zsonio.NewReader(zctx, bytes.NewReader(data)), 1)
	case "zng":
		zopts.Validate = true
		zr := zngio.NewReaderWithOpts(zctx, plainReader{bytes.NewReader(data)}, zopts)
		ok := probe(zr, 1)
		zr.Close()
		return ok
	case "csv":
		return probeCSV(data, ',')
	case "tsv":
		return probeCSV(data, '\t')
	}
	return false
}

func detectInfo(c *Case) *DetectInfo {
	zopts := zngio.ReaderOpts{Threads: c.Opts.Threads, Max: c.Opts.ReadMax, Validate: c.Opts.Validate}
	seekable := c.Reader == "auto"
	d := &DetectInfo{Direct: map[string]string{}}
	for _, f := range detectOrder {
		ok := accepts(f, c.Data, zopts)
		if !seekable && (f == "parquet" || f == "vng") {
			ok = false // not attempted on a non-seekable input; the spec ignores these bits
		}
		d.Vec = append(d.Vec, ok)
		if ok {
			o := anyio.ReaderOpts{Format: f, ZNG: zopts}
			if f == "tsv" {
				o.CSV.Delim = '\t'
			}
			if f == "csv" {
				o.CSV.Delim = ','
			}
			var src io.Reader = bytes.NewReader(c.Data)
			zr, err := anyio.NewReaderWithOpts(zed.NewContext(), src, nil, o)
			d.Direct[f] = fingerprint(zr, err)
			if zr != nil {
				zr.Close()
			}
		}
	}
	var src io.Reader = bytes.NewReader(c.Data)
	if !seekable {
		src = plainReader{bytes.NewReader(c.Data)}
	}
	zr, err := anyio.NewReaderWithOpts(zed.NewContext(), src, nil, anyio.ReaderOpts{ZNG: zopts})
	if err != nil {
		if strings.HasPrefix(err.Error(), "format detection error") {
			d.Auto = "none"
		} else {
			d.Auto = "openerr:" + truncate(err.Error(), 80)
		}
		return d
	}
	d.Auto = fingerprint(zr, nil)
	zr.Close()
	return d
}
