package main

// Protocol cases: abstract streams of ZngFault.tla realized as real ZNG bytes,
// run through the real scanner with the verif hooks recording the
// dispatch / worker.done / deliver events (and optionally gating worker
// completion order), for trace validation by TLC and for comparison with the
// spec's predicted delivery sequence.

import (
	"bytes"
	"context"
	"encoding/binary"
	"errors"
	"fmt"
	"runtime"
	"strings"
	"sync"
	"time"

	zed "github.com/brimdata/super"
	"github.com/brimdata/super/pkg/verif"
	"github.com/brimdata/super/zbuf"
	"github.com/brimdata/super/zio/zngio"
	"github.com/brimdata/super/zson"
)

// tevent is one trace event (the ndjson schema of ZngFaultTrace.tla).
type tevent struct {
	E       string    `json:"e"`
	Stream  *[]string `json:"stream,omitempty"`
	Threads int       `json:"threads,omitempty"`
	Mode    string    `json:"mode,omitempty"`
	Done    *bool     `json:"done,omitempty"`
	Ch      int       `json:"ch,omitempty"`
	W       int       `json:"w,omitempty"`
	Ok      *bool     `json:"ok,omitempty"`
	Batch   *bool     `json:"batch,omitempty"`
	Err     *bool     `json:"err,omitempty"`
	Kind    string    `json:"kind,omitempty"`
}

func bp(b bool) *bool { return &b }

// recorder serializes hook events of one run.
type recorder struct {
	mu      sync.Mutex
	active  bool
	events  []tevent
	chIDs   map[any]int
	wIDs    map[any]int
	hold    int // hold the hold-th arriving worker.done (0-based) until another one arrives; -1 = none
	ndone   int
	held    chan struct{}
	heldSet bool
	gateTO  bool
}

var rec recorder

func (r *recorder) id(m map[any]int, k any) int {
	if v, ok := m[k]; ok {
		return v
	}
	m[k] = len(m) + 1
	return m[k]
}

func (r *recorder) log(e tevent) {
	r.mu.Lock()
	if r.active {
		r.events = append(r.events, e)
	}
	r.mu.Unlock()
}

func (r *recorder) releaseAll() {
	r.mu.Lock()
	if r.heldSet {
		r.heldSet = false
		close(r.held)
	}
	r.hold = -1
	r.mu.Unlock()
}

func installHook() {
	verif.SetHook(func(site string, args ...any) {
		r := &rec
		switch site {
		case "zngio.dispatch":
			r.mu.Lock()
			if r.active {
				r.events = append(r.events, tevent{E: "dispatch", W: r.id(r.wIDs, args[0]), Ch: r.id(r.chIDs, args[1])})
			}
			r.mu.Unlock()
		case "zngio.worker.done":
			r.mu.Lock()
			if !r.active {
				r.mu.Unlock()
				return
			}
			hasBatch := args[2].(bool)
			isErr := args[3] != nil && args[3] != error(nil)
			if e, ok := args[3].(error); ok {
				isErr = e != nil
			}
			r.events = append(r.events, tevent{E: "done", W: r.id(r.wIDs, args[0]), Ch: r.id(r.chIDs, args[1]), Batch: bp(hasBatch), Err: bp(isErr)})
			n := r.ndone
			r.ndone++
			var wait chan struct{}
			if r.heldSet && n > r.hold {
				// another completion arrived: release the held worker
				r.heldSet = false
				close(r.held)
			} else if n == r.hold {
				r.held = make(chan struct{})
				r.heldSet = true
				wait = r.held
			}
			r.mu.Unlock()
			if wait != nil {
				select {
				case <-wait:
				case <-time.After(5 * time.Second):
					r.mu.Lock()
					r.gateTO = true
					r.mu.Unlock()
				}
			}
		case "zngio.deliver":
			r.mu.Lock()
			if r.active {
				r.events = append(r.events, tevent{E: "deliver", Ch: r.id(r.chIDs, args[0]), Ok: bp(args[1].(bool))})
			}
			r.mu.Unlock()
		}
	})
}

// ------------------------------------------------------- stream realization

type pieces struct {
	types   []byte   // the types frame
	vals    [][]byte // uncompressed values frames, one value each
	payload [][]byte // their payloads
}

var pieceCache *pieces

func getPieces() (*pieces, error) {
	if pieceCache != nil {
		return pieceCache, nil
	}
	zctx := zed.NewContext()
	var buf bytes.Buffer
	w := zngio.NewWriterWithOpts(nopWC{&buf}, zngio.WriterOpts{FrameThresh: 1})
	for i := 0; i < 8; i++ {
		v, err := zson.ParseValue(zctx, fmt.Sprintf(`{a:%d,s:"%s"}`, i, strings.Repeat("a", 48)))
		if err != nil {
			return nil, err
		}
		if err := w.Write(v); err != nil {
			return nil, err
		}
	}
	b := buf.Bytes()
	frames, err := walkZNG(b)
	if err != nil {
		return nil, err
	}
	p := &pieces{}
	for _, f := range frames {
		fb := b[f.Off : f.Payload.Off+f.Payload.Len]
		switch f.Kind {
		case "types":
			if p.types != nil {
				return nil, errors.New("pieces: more than one types frame")
			}
			p.types = fb
		case "values":
			p.vals = append(p.vals, fb)
			p.payload = append(p.payload, b[f.Payload.Off:f.Payload.Off+f.Payload.Len])
		}
	}
	if p.types == nil || len(p.vals) != 8 {
		return nil, fmt.Errorf("pieces: unexpected framing (%d values frames)", len(p.vals))
	}
	pieceCache = p
	return p, nil
}

func compFrame(payload []byte, format byte, usize int, corrupt bool) ([]byte, error) {
	z := lz4Block(payload)
	if z == nil {
		return nil, errors.New("payload did not compress")
	}
	z = append([]byte{}, z...)
	if corrupt {
		// an offset that points before the start of the output: invalid for every LZ4 decoder
		z = []byte{0x0f, 0xff, 0xff}
	}
	hdr := frameHeader("values", true, len(z)+1+uvLen(uint64(usize)), format, uint64(usize))
	return append(hdr, z...), nil
}

// realize builds real bytes for an abstract stream.  class names the concrete
// fault class used for the (single) fault item; variant selects among several
// realizations of a class (cut offsets, compressed or not).
func realize(stream []string, class string, variant int, readMax int) ([]byte, error) {
	p, err := getPieces()
	if err != nil {
		return nil, err
	}
	out := append([]byte{}, p.types...)
	nv := 0
	nextVal := func() ([]byte, []byte) {
		i := nv % len(p.vals)
		nv++
		return p.vals[i], p.payload[i]
	}
	for i, it := range stream {
		last := i == len(stream)-1
		switch it {
		case "V":
			fb, pl := nextVal()
			if (variant+i)%2 == 1 {
				c, err := compFrame(pl, 0, len(pl), false)
				if err != nil {
					return nil, err
				}
				fb = c
			}
			out = append(out, fb...)
		case "E":
			if last {
				// an empty values frame at the very end of the input reads as EOF in peeker.Peek;
				// keep the abstract meaning (a values frame without values) by adding an EOS marker after it
				out = append(out, 0x10, 0x00, 0xff)
			} else {
				out = append(out, 0x10, 0x00)
			}
		case "C":
			pl := append([]byte{zngio.ControlFormatJSON}, []byte(fmt.Sprintf(`{"ctl":%d}`, i))...)
			out = append(out, frameHeader("control", false, len(pl), 0, 0)...)
			out = append(out, pl...)
		case "P", "PT", "A", "B":
			fb, pl := nextVal()
			switch class {
			case "bad_version":
				out = append(out, fb[0]|0x80)
				out = append(out, fb[1:]...)
			case "bad_frame_type":
				out = append(out, fb[0]|0x30)
				out = append(out, fb[1:]...)
			case "length_gt_max":
				out = append(out, frameHeader("values", false, readMax+1+variant, 0, 0)...)
				out = append(out, pl...)
			case "bad_typedef":
				bad := [][]byte{{9}, {0, 1, 1, 'x', 99}, {7, 1, 'n', 99}, {4, 0}}[variant%4]
				out = append(out, frameHeader("types", false, len(bad), 0, 0)...)
				out = append(out, bad...)
			case "eof_mid_header":
				// a two-byte length uvarint: cut after the code byte (variant 0) or inside the uvarint (variant 1)
				big := bytes.Repeat(pl, 40)
				h := frameHeader("values", false, len(big), 0, 0)
				if len(h) < 3 {
					return nil, errors.New("header too short for eof_mid_header")
				}
				out = append(out, h[:1+variant%2]...)
			case "eof_mid_body":
				cut := []int{1, len(pl) / 2, len(pl) - 1, 0}[variant%4]
				if variant%4 == 2 {
					c, err := compFrame(pl, 0, len(pl), false)
					if err != nil {
						return nil, err
					}
					hl := len(frameHeader("values", true, len(c), 0, uint64(len(pl)))) // approximate header length
					_ = hl
					fb = c
					cut = len(fb) - 2 - variant%2
					out = append(out, fb[:cut]...)
				} else {
					out = append(out, fb[:len(fb)-len(pl)+cut]...)
				}
			case "bad_comp_format":
				c, err := compFrame(pl, []byte{1, 2, 0xff}[variant%3], len(pl), false)
				if err != nil {
					return nil, err
				}
				out = append(out, c...)
			case "decompress_error":
				var c []byte
				var err error
				switch variant % 3 {
				case 0:
					c, err = compFrame(pl, 0, len(pl)+1, false) // size mismatch
				case 1:
					c, err = compFrame(pl, 0, len(pl)-1, false) // output too short
				default:
					c, err = compFrame(pl, 0, len(pl), true) // corrupt block
				}
				if err != nil {
					return nil, err
				}
				out = append(out, c...)
			case "unknown_type_id":
				var bad []byte
				bad = binary.AppendUvarint(bad, uint64(99+variant))
				bad = append(bad, pl[1:]...) // the type id 30 is one byte
				out = append(out, frameHeader("values", false, len(bad), 0, 0)...)
				out = append(out, bad...)
			case "bad_value_tag":
				bad := append([]byte{}, pl[:1]...)
				bad = binary.AppendUvarint(bad, uint64(len(pl)+10+variant)) // tag claims more than the frame holds
				bad = append(bad, pl[2:]...)
				out = append(out, frameHeader("values", false, len(bad), 0, 0)...)
				out = append(out, bad...)
			default:
				return nil, fmt.Errorf("no realization for class %q", class)
			}
			if it == "P" || it == "PT" {
				return out, nil
			}
		default:
			return nil, fmt.Errorf("unknown item %q", it)
		}
	}
	if variant%4 < 2 {
		out = append(out, 0xff) // EOS at the end
	}
	return out, nil
}

// ------------------------------------------------------------- execution

// ProtoSpec travels in Case.Note as JSON for proto cases.
type ProtoSpec struct {
	Stream  []string `json:"stream"`
	Class   string   `json:"class,omitempty"`
	Variant int      `json:"variant"`
	Hold    int      `json:"hold"` // -1 none
}

func kindOf(b zbuf.Batch, err error) string {
	if err != nil {
		var ctrl *zbuf.Control
		if errors.As(err, &ctrl) {
			return "c"
		}
		if errors.Is(err, context.Canceled) {
			return "ctxerr"
		}
		return "err"
	}
	if b == nil {
		return "end"
	}
	return "b"
}

// nilChanBlocked returns the stack of a goroutine that is blocked receiving from a nil channel
// inside the zngio scanner (a state no later event can ever leave), or "".
func nilChanBlocked() string {
	for _, g := range strings.Split(allStacks(), "\n\n") {
		if strings.Contains(g, "[chan receive (nil chan)") && strings.Contains(g, "zngio.(*scanner).Pull") {
			return g
		}
	}
	return ""
}

func waitQuiesced(d time.Duration) bool {
	dl := time.Now().Add(d)
	for spin := 0; ; spin++ {
		// cheap test first (only the child's main goroutine and the case goroutine are left), confirmed
		// by a goroutine dump: the count alone is not proof (runtime goroutines come and go)
		if runtime.NumGoroutine() <= idleGoroutines+1 || spin >= 200 {
			if len(repoGoroutines()) == 0 {
				return true
			}
		} else {
			runtime.Gosched()
			continue
		}
		if time.Now().After(dl) {
			return false
		}
		time.Sleep(500 * time.Microsecond)
	}
}

// execProto runs one protocol case.  Consumers:
//
//	drain         Pull(false) until end / error
//	drainclose    the same, then Pull(true)
//	stop:k        Pull(true) after k returned results
//	cancel:k      cancel the parent context after k results, keep pulling until an error / end
//	cancelgo:k    cancel the parent context after k results and walk away
//	cancelwait:k  cancel after k results, wait until the reader's goroutines have exited, then pull
//	              (deterministic reproduction of the closed-resultChCh arm of Pull's select)
func execProto(c *Case, res *Result) {
	var ps ProtoSpec
	if err := jsonUnmarshal([]byte(c.Note), &ps); err != nil {
		res.Outcome, res.Detail = "harness", err.Error()
		return
	}
	mode := c.Consumer
	k := -1
	if i := strings.IndexByte(mode, ':'); i >= 0 {
		fmt.Sscan(mode[i+1:], &k)
		mode = mode[:i]
	}
	specMode := "stop"
	if strings.HasPrefix(mode, "cancel") {
		specMode = "cancel"
	}
	r := &rec
	r.mu.Lock()
	r.active = true
	st := append([]string{}, ps.Stream...)
	r.events = []tevent{{E: "start", Stream: &st, Threads: c.Opts.Threads, Mode: specMode}}
	r.chIDs, r.wIDs = map[any]int{}, map[any]int{}
	r.hold, r.ndone, r.heldSet, r.gateTO = ps.Hold, 0, false, false
	r.mu.Unlock()
	defer func() {
		r.releaseAll()
		r.mu.Lock()
		r.active = false
		res.Trace = r.events
		if strings.HasPrefix(c.Consumer, "cancelwait") || res.Outcome != "ok" {
			res.Trace = nil
		}
		if r.gateTO {
			res.Detail += " gate-timeout"
		}
		r.mu.Unlock()
	}()
	ctx, cancel := context.WithCancel(context.Background())
	defer cancel()
	zr := zngio.NewReaderWithOpts(zed.NewContext(), plainReader{bytes.NewReader(c.Data)},
		zngio.ReaderOpts{Threads: c.Opts.Threads, Max: c.Opts.ReadMax, Size: c.Opts.ReadSize, Validate: c.Opts.Validate})
	sc, err := zr.NewScanner(ctx, nil)
	if err != nil {
		res.EndedBy, res.Err = "openerr", err.Error()
		return
	}
	var seen []string
	guarded := false // after a parent cancellation: watch for the receive on a nil channel
	pull := func() string {
		r.log(tevent{E: "pull", Done: bp(false)})
		var b zbuf.Batch
		var err error
		if guarded {
			type pr struct {
				b   zbuf.Batch
				err error
			}
			ch := make(chan pr, 1)
			go func() {
				b, err := sc.Pull(false)
				ch <- pr{b, err}
			}()
			t0 := time.Now()
		wait:
			for {
				select {
				case x := <-ch:
					b, err = x.b, x.err
					break wait
				case <-time.After(2 * time.Millisecond):
					if g := nilChanBlocked(); g != "" {
						res.Outcome = "hang"
						res.Detail = "Pull(false) after the parent context was cancelled blocks forever: receive on a nil channel (resultChCh was closed, `case ch := <-s.resultChCh` yields nil)"
						res.Stack = truncate(g, 3000)
						res.Site = siteOf(g)
						return "hang"
					}
					if time.Since(t0) > caseWatchdog {
						res.Outcome, res.Detail = "hang", "Pull(false) after cancel did not return"
						res.Site = "zio/zngio.(*scanner).Pull"
						return "hang"
					}
				}
			}
		} else {
			b, err = sc.Pull(false)
		}
		kind := kindOf(b, err)
		if kind == "err" {
			res.Err = err.Error()
		}
		if b != nil {
			b.Unref()
		}
		r.log(tevent{E: "ret", Kind: kind})
		seen = append(seen, kind)
		return kind
	}
	closeIt := func() {
		r.releaseAll()
		r.log(tevent{E: "pull", Done: bp(true)})
		sc.Pull(true)
		r.log(tevent{E: "ret", Kind: "closed"})
	}
	finish := func(by string) {
		r.releaseAll()
		res.EndedBy = by
		res.Delivered = strings.Join(seen, ",")
		res.Values = len(seen)
		r.log(tevent{E: "fin"})
		if waitQuiesced(leakWait) {
			r.log(tevent{E: "quiesced"})
		} else {
			g := repoGoroutines()
			res.Outcome = "leak"
			res.Detail = fmt.Sprintf("%d goroutine(s) of the reader still alive %s after the consumer finished (%s)", len(g), leakWait, by)
			res.Stack = truncate(strings.Join(g, "\n\n"), 6000)
			if len(g) > 0 {
				res.Site = siteOf(g[0])
			}
		}
	}
	n := 0
	for {
		if k >= 0 && n >= k {
			switch mode {
			case "stop":
				closeIt()
				finish("stop")
				return
			case "cancelgo":
				r.releaseAll()
				r.log(tevent{E: "cancel"})
				cancel()
				finish("cancel")
				return
			case "cancel":
				r.releaseAll()
				r.log(tevent{E: "cancel"})
				cancel()
				guarded = true
				k = -1 // keep pulling
				mode = "cancelled"
				continue
			case "cancelwait":
				r.releaseAll()
				r.log(tevent{E: "cancel"})
				cancel()
				guarded = true
				if !waitQuiesced(leakWait) {
					finish("cancel")
					return
				}
				// The parser goroutine is gone, so resultChCh is closed.  Every further Pull must
				// return (queued results or the context error).  Pull again several times: the select in
				// Pull picks among its ready arms at random.
				for i := 0; i < 48; i++ {
					kind := pull()
					if kind == "end" || kind == "hang" {
						break
					}
				}
				if res.Outcome == "hang" {
					return
				}
				finish("cancel")
				res.Trace = nil
				return
			}
		}
		kind := pull()
		n++
		if kind == "hang" {
			return
		}
		if kind == "b" || kind == "c" {
			if len(seen) > maxValues {
				res.Outcome, res.Detail = "hang", "unbounded output"
				return
			}
			continue
		}
		// end, err or ctxerr
		if mode == "drainclose" || (mode == "cancelled" && k == -1 && c.ID%2 == 0) {
			closeIt()
		}
		finish(map[string]string{"end": "eof", "err": "error", "ctxerr": "cancel"}[kind])
		return
	}
}
